(* Delivery in which a Read may hand out bytes TOGETHER with the end of the
   stream. The io.Reader contract: "When Read encounters an error or
   end-of-file condition after successfully reading n > 0 bytes, it returns
   the number of bytes read. It may return the (non-nil) error from the same
   call or return the error (and n == 0) from a subsequent call." net.Pipe and
   kernel TCP sockets do the latter, crypto/tls does the former when a
   close_notify alert is buffered right behind the data it just handed out.
   Model/Chunks.v covers the second form only (its Read outcome is either
   (len got, nil) or (0, err)); here the outcome of one Read carries both.
   The readers, the client call and the server loop are the generic ones of
   Model/Chunks.v, instantiated with io.ReadFull over this Read. No proofs here. *)
From Modbus Require Import Base.Bytes Model.Crc Model.Encoding Model.Wire Model.Client Model.Server
  Model.Chunks.

(* outcome of one Read call: (len got, nil) when fin = false,
   (len got, err) when fin = true - got may be empty in both cases *)
Inductive rde_res (T : Type) :=
| RdE (got : list N) (fin : bool) (s : T).
Arguments RdE {T} got fin s.

(* io.ReadFull = io.ReadAtLeast(r, buf, len(buf)):
     for n < min && err == nil { nn, err = r.Read(buf[n:]); n += nn }
     if n >= min { err = nil } else if n > 0 && err == EOF { err = ErrUnexpectedEOF }
   The bytes of a Read are counted BEFORE its error is looked at: a Read that
   completes the buffer and reports the end of the stream in the same call is
   a full read. n is the number of bytes still wanted, acc what has been
   stored so far; the fuel only bounds Reads of 0 bytes without error. *)
Fixpoint io_read_full_e {T : Type} (rd : nat -> T -> rde_res T)
  (fuel n : nat) (acc : list N) (s : T) : grf T :=
  match n with
  | O => GFull acc s
  | S _ =>
      match fuel with
      | O => GShort acc s                      (* unreachable with the fuel used below *)
      | S f =>
          match rd n s with
          | RdE got false s' => io_read_full_e rd f (n - length got) (acc ++ got) s'
          | RdE got true s' =>
              if Nat.leb n (length got) then GFull (acc ++ got) s' else GShort (acc ++ got) s'
          end
      end
  end.

(* a connection: the chunks the peer wrote before it went away (one segment /
   record per chunk), and whether the transport reports the end of the stream
   in the very Read that hands out the last bytes (tc_tail = true) or in a
   Read of its own (tc_tail = false, the delivery of Model/Chunks.v) *)
Record tconn := mktconn {
  tc_chunks : list (list N);
  tc_tail : bool
}.

Definition is_nil {A : Type} (l : list A) : bool :=
  match l with [] => true | _ => false end.

(* Read(buf), len(buf) = buf_len: min(buf_len, |chunk|) bytes of the first
   chunk; the rest of a partly read chunk stays at the head. The Read that
   takes the last byte of the last chunk carries the end condition when
   tc_tail is set. No chunk left: (0, err), again and again. *)
Definition tail_read (buf_len : nat) (c : tconn) : rde_res tconn :=
  match tc_chunks c with
  | [] => RdE [] true c
  | ch :: cs' =>
      if Nat.leb (length ch) buf_len
      then RdE ch (andb (tc_tail c) (is_nil cs')) (mktconn cs' (tc_tail c))
      else RdE (firstn buf_len ch) false (mktconn (skipn buf_len ch :: cs') (tc_tail c))
  end.

Definition read_full_tail (n : nat) (c : tconn) : grf tconn :=
  io_read_full_e tail_read (n + length (tc_chunks c)) n [] c.

(* the byte stream the connection carries *)
Definition tc_flat (c : tconn) : list N := concat (tc_chunks c).
Definition tc_size (c : tconn) : nat := length (tc_flat c).

(* the readers of Model/Chunks.v over this delivery *)
Definition read_mbap_t := g_read_mbap read_full_tail.
Definition read_rtu_t := g_read_rtu read_full_tail.
Definition client_call_t := g_client_call read_full_tail tc_size.
Definition server_run_t {St : Type} (h : handler St) := g_server_run read_full_tail tc_size h.

(* ------------------------------------------------------------------------
   The reading discipline the io.Reader documentation warns against ("Callers
   should always process the n > 0 bytes returned before considering the
   error"): the error of a Read is tested first and its bytes are dropped.
   Only used to show that the delivery above tells the two disciplines apart
   (Properties/C13b.v), never as a model of the library. *)
Fixpoint read_full_err_first {T : Type} (rd : nat -> T -> rde_res T)
  (fuel n : nat) (acc : list N) (s : T) : grf T :=
  match n with
  | O => GFull acc s
  | S _ =>
      match fuel with
      | O => GShort acc s
      | S f =>
          match rd n s with
          | RdE got false s' => read_full_err_first rd f (n - length got) (acc ++ got) s'
          | RdE _ true s' => GShort acc s'
          end
      end
  end.

Definition read_full_tail_err_first (n : nat) (c : tconn) : grf tconn :=
  read_full_err_first tail_read (n + length (tc_chunks c)) n [] c.

Definition server_run_err_first {St : Type} (h : handler St) :=
  g_server_run read_full_tail_err_first tc_size h.
