(* Model of the client handle's transport slot (client.go: mc.transport, Open,
   Close). Open dials a new connection and installs a NEW transport object
   (newTCPTransport / newRTUTransport): transaction counter 0, nothing
   buffered. Close closes the socket of the current transport; the object stays
   in place until the next Open, and every call on it fails at SetDeadline
   (before the transaction counter is touched and before anything is written).
   No proofs here. *)
From Modbus Require Import Base.Bytes Model.Wire Model.Client.

Record hd_state := mkhd {
  hd_txn : N;               (* tcpTransport.lastTxnId *)
  hd_unread : list N;       (* peer bytes received but not yet read *)
  hd_closed : bool          (* the socket was closed by Close *)
}.

(* Open (successful): the previous transport, whatever its state, is replaced *)
Definition hd_open (s : hd_state) : hd_state := mkhd 0 [] false.

(* Close *)
Definition hd_close (s : hd_state) : hd_state := mkhd (hd_txn s) (hd_unread s) true.

(* one public call; incoming = what the peer sends during the call, e = what
   it does afterwards *)
Definition hd_call (fr : framing) (cfg : ccfg) (s : hd_state) (o : op) (e : send)
  (incoming : list N) : call_result * hd_state :=
  if hd_closed s then
    (* the request is built and checked first; then SetDeadline fails *)
    (mkcall (match client_request cfg o with
             | Ok _ => Err EIO
             | Err x => Err x
             | Panic => Panic
             | OutOfFuel => OutOfFuel
             end) [] (hd_unread s) (hd_txn s), s)
  else
    let r := client_call fr cfg (hd_txn s) o e (hd_unread s ++ incoming) in
    (r, mkhd (cr_txn r) (cr_rest r) false).
