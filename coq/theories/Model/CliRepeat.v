(* Model of the `repeat` and `sleep` commands of cmd/modbus-cli.go on top of
   Model/Cli.v. The parsing loop accepts two more commands ("repeat", no
   argument; "sleep:<duration>", exactly one argument that time.ParseDuration
   accepts - an oracle, like strconv.ParseFloat); the execution loop runs the
   parsed list in order, `sleep` touches neither the client nor the output,
   `repeat` sets the loop index back to the start: the SAME parsed list is
   executed again, on the client configuration, transaction counter and device
   left by the previous pass. Commands behind the first `repeat` are parsed
   (a malformed one still refuses the whole line) and never executed.
   date, scan and ping stay outside the model (refused here). No proofs here. *)
From Modbus Require Import Base.Bytes Model.Client Model.Strconv Model.Cli.
From Coq Require String.
Import String.StringSyntax.
Local Delimit Scope string_scope with string.

Definition clr_s_repeat : list N := Eval vm_compute in sc_str "repeat"%string.
Definition clr_s_sleep : list N := Eval vm_compute in sc_str "sleep"%string.

(* an entry of the parsed command list *)
Inductive clr_item :=
| ClrOp (c : cli_operation)
| ClrSleep
| ClrRepeat.

Section Parser.
  Variable parse_float32 : list N -> option N.
  Variable parse_float64 : list N -> option N.
  (* time.ParseDuration(s) returns no error *)
  Variable duration_ok : list N -> bool.

  (* one iteration of the loop over flag.Args() *)
  Definition clr_parse_cmd (arg : list N) : cli_result clr_item :=
    match cli_split 58 arg with
    | name :: args =>
        if list_eqb name clr_s_repeat then
          match args with
          | [] => CliOk ClrRepeat
          | _ => CliRefused
          end
        else if list_eqb name clr_s_sleep then
          match args with
          | [d] => if duration_ok d then CliOk ClrSleep else CliRefused
          | _ => CliRefused
          end
        else
          match cli_parse_cmd parse_float32 parse_float64 arg with
          | CliOk c => CliOk (ClrOp c)
          | CliRefused => CliRefused
          end
    | [] => CliRefused
    end.

  (* the whole loop: the first refused argument exits *)
  Fixpoint clr_parse_all (args : list (list N)) : cli_result (list clr_item) :=
    match args with
    | [] => CliOk []
    | a :: t =>
        match clr_parse_cmd a with
        | CliOk o =>
            match clr_parse_all t with
            | CliOk os => CliOk (o :: os)
            | CliRefused => CliRefused
            end
        | CliRefused => CliRefused
        end
    end.
End Parser.

(* the client operations of one pass over the list: everything in front of
   the first `repeat` (the whole list when there is none), sleeps dropped *)
Fixpoint clr_pass (l : list clr_item) : list cli_operation :=
  match l with
  | [] => []
  | ClrRepeat :: _ => []
  | ClrSleep :: t => clr_pass t
  | ClrOp c :: t => c :: clr_pass t
  end.

(* does the execution loop start over (and hence never end)? *)
Fixpoint clr_loops (l : list clr_item) : bool :=
  match l with
  | [] => false
  | ClrRepeat :: _ => true
  | _ :: t => clr_loops t
  end.

(* n passes: the same operations again and again, each pass from the state
   (unit id, transaction counter, device memory, log) the previous one left *)
Fixpoint clr_iter (n : nat) (st : cli_state) (ops : list cli_operation) : cli_state :=
  match n with
  | O => st
  | S k => clr_iter k (cli_run st ops) ops
  end.

Section Main.
  Variable parse_float32 : list N -> option N.
  Variable parse_float64 : list N -> option N.
  Variable duration_ok : list N -> bool.

  (* main as in Model/Cli.v (cli_main) with the two extra commands; a looping
     list is observed for n passes (the process itself never ends), any other
     list runs once and exits *)
  Definition clr_main (n : nat) (endianness wordorder unitid : list N) (args : list (list N))
             (dev : cli_dev) : cli_outcome :=
    match sc_parse_uint 64 unitid with
    | ScOk unit =>
        match cli_endian_of endianness with
        | None => CliExit 1
        | Some e =>
            match cli_word_of wordorder with
            | None => CliExit 1
            | Some w =>
                match args with
                | [] => CliExit 0
                | _ =>
                    match clr_parse_all parse_float32 parse_float64 duration_ok args with
                    | CliRefused => CliExit 2
                    | CliOk items =>
                        if 255 <? unit then CliExit 1
                        else
                          let st0 := mkclist (mkcfg unit e w) 0 dev [] [] in
                          if clr_loops items then CliDone (clr_iter n st0 (clr_pass items))
                          else CliDone (cli_run st0 (clr_pass items))
                    end
                end
            end
        end
    | _ => CliExit 2
    end.

  (* is the process still running after what clr_main describes? *)
  Definition clr_main_loops (args : list (list N)) : bool :=
    match clr_parse_all parse_float32 parse_float64 duration_ok args with
    | CliOk items => clr_loops items
    | CliRefused => false
    end.
End Main.
