(* GoLite: a deep embedding of the small, pure fragment of Go in which crc.go,
   encoding.go and a few table-like helpers of the library are written, with an
   executable big-step semantics. The ABSTRACT SYNTAX TREES of those functions
   are regenerated from /repo's sources on every run by harness/cmd/gosrc
   (Gen/Src*.v); the theorems of Proofs/Src*P.v state that running a generated
   tree equals the hand-written model function, for every input. A change of
   the Go source therefore changes the object the theorems are about.

   Semantics, in short:
   - values: unsigned integers / bit patterns (N), booleans, slices as lists
     (value semantics: the translator refuses every program in which two names
     could refer to the same mutable backing array);
   - integer arithmetic is typed: [U w] wraps modulo 2^w as Go's uintN does;
     [I64] (Go's int / int64 / time.Duration) is checked: a negative or
     >= 2^63 result is [Stuck], i.e. outside the fragment, never a silent wrap;
     in the functions translated in signed mode Go's int / int64 /
     time.Duration are instead two's-complement bit patterns: arithmetic is
     [U 64] (Go's signed arithmetic wraps), ordering is [ECmpS];
   - an out-of-range index or slice bound, a short slice given to
     binary.*Endian.UintNN / PutUintNN and a division by zero are [Panic],
     as in Go;
   - [for] loops run on explicit fuel ([OutOfFuel] when exhausted), [range]
     loops are structural on the ranged list; [break] / [continue] are outcomes
     caught by the innermost loop ([break] also by a switch, [SBlock]);
   - a local pointer to a struct is expanded into one slot per field plus a
     nil flag; reading or writing a field of a nil pointer is [Panic] ([EDeref]);
   - anything the translator does not understand becomes [SUnsupported] /
     [EUnsupported], which evaluate to [Stuck].
   No proofs here. *)
From Coq Require Import List NArith String Bool.
Import ListNotations.
Open Scope N_scope.

Inductive res (A : Type) : Type :=
| Ok (a : A)
| Panic
| Stuck
| OutOfFuel.
Arguments Ok {A} a.
Arguments Panic {A}.
Arguments Stuck {A}.
Arguments OutOfFuel {A}.

Definition rbind {A B} (r : res A) (f : A -> res B) : res B :=
  match r with
  | Ok a => f a
  | Panic => Panic
  | Stuck => Stuck
  | OutOfFuel => OutOfFuel
  end.

Inductive val : Type :=
| VN (n : N)
| VB (b : bool)
| VL (l : list val).

(* integer types *)
Inductive ity : Type :=
| U (w : N)      (* uint8/16/32/64, uint, byte *)
| I64.           (* int, int64, time.Duration: checked, non-negative *)

Inductive binop := OAdd | OSub | OMul | ODiv | OMod | OAnd | OOr | OXor | OAndNot | OShl | OShr.
Inductive cmpop := CEq | CNe | CLt | CLe | CGt | CGe.

Inductive expr : Type :=
| EVar (x : nat)
| EGlobal (g : string)
| EN (n : N)
| EB (b : bool)
| EBin (op : binop) (t : ity) (a b : expr)
| ECmp (op : cmpop) (a b : expr)
| ECmpS (op : cmpop) (a b : expr)   (* comparison of two's-complement 64-bit values *)
| ENot (a : expr)
| EAndAlso (a b : expr)
| EOrElse (a b : expr)
| EConv (t : ity) (a : expr)
| EIndex (a i : expr)
| ESlice (a lo hi : expr)
| ELen (a : expr)
| ELit (es : exprs)
| EMake (zero : val) (n : expr)
| EAppend (a : expr) (es : exprs)
| EAppendSlice (a b : expr)
| EBytesToUint (big : bool) (k : nat) (a : expr)
| ECall (f : string) (args : exprs)
| EDeref (isnil : expr) (e : expr)      (* p.f: Panic when the pointer p is nil *)
| EUnsupported (what : string)
with exprs : Type :=
| ENil
| ECons (e : expr) (es : exprs).

Inductive lval : Type :=
| LVar (x : nat)
| LIndex (x : nat) (i : expr)
| LBlank.

Inductive stmt : Type :=
| SSkip
| SSeq (a b : stmt)
| SSet (l : lval) (e : expr)
| SSetMulti (ls : list lval) (es : exprs)
| SPutUint (big : bool) (k : nat) (x : nat) (e : expr)
| SCall (f : string) (args : exprs) (dests : list lval)
| SIf (c : expr) (a b : stmt)
| SFor (c : expr) (post body : stmt)
| SRange (xi xv : option nat) (e : expr) (body : stmt)
| SReturn (es : exprs)
| SBreak
| SContinue
| SBlock (s : stmt)                      (* a switch: [break] inside leaves the block *)
| SUnsupported (what : string).

Definition state := list val.

(* a function: slots 0..nparams-1 are the parameters (a pointer receiver
   contributes one slot per field of the struct), followed by [f_zeros] (named
   results and locals, initialised with their zero values).  The call returns
   the final values of [f_outs] (receiver fields) followed by the results. *)
Record fn : Type := {
  f_nparams : nat;
  f_zeros : list val;
  f_outs : list nat;
  f_results : list nat;
  f_body : stmt
}.

Definition genv := string -> option val.
Definition fenv := string -> list val -> res (list val).

(* -------------------------------------------------------------- arithmetic *)

Definition wrap (t : ity) (n : N) : res N :=
  match t with
  | U w => Ok (n mod 2 ^ w)
  | I64 => if n <? 2 ^ 63 then Ok n else Stuck
  end.

Definition arith (op : binop) (t : ity) (a b : N) : res N :=
  match op with
  | OAdd => wrap t (a + b)
  | OSub => match t with
            | U w => Ok ((a + 2 ^ w - b mod 2 ^ w) mod 2 ^ w)
            | I64 => if b <=? a then Ok (a - b) else Stuck
            end
  | OMul => wrap t (a * b)
  | ODiv => if b =? 0 then Panic else Ok (a / b)
  | OMod => if b =? 0 then Panic else Ok (a mod b)
  | OAnd => Ok (N.land a b)
  | OOr => Ok (N.lor a b)
  | OXor => Ok (N.lxor a b)
  | OAndNot => Ok (N.ldiff a b)
  | OShl => wrap t (N.shiftl a b)
  | OShr => Ok (N.shiftr a b)
  end.

Definition compare_n (op : cmpop) (a b : N) : bool :=
  match op with
  | CEq => a =? b
  | CNe => negb (a =? b)
  | CLt => a <? b
  | CLe => a <=? b
  | CGt => b <? a
  | CGe => b <=? a
  end.

(* order-preserving map from two's-complement 64-bit patterns to N: the signed
   order of x and y is the unsigned order of [sbias x] and [sbias y] *)
Definition sbias (x : N) : N := (x + 2 ^ 63) mod 2 ^ 64.

Definition compare_v (op : cmpop) (a b : val) : res val :=
  match a, b with
  | VN x, VN y => Ok (VB (compare_n op x y))
  | VB x, VB y =>
      match op with
      | CEq => Ok (VB (Bool.eqb x y))
      | CNe => Ok (VB (negb (Bool.eqb x y)))
      | _ => Stuck
      end
  | _, _ => Stuck
  end.

(* big-endian value of a byte list *)
Definition be_value (l : list N) : N := fold_left (fun acc b => acc * 256 + b) l 0.

(* the k least significant bytes of v, most significant first *)
Fixpoint be_digits (k : nat) (v : N) : list N :=
  match k with
  | O => []
  | S k' => (v / 2 ^ (8 * N.of_nat k')) mod 256 :: be_digits k' v
  end.

Fixpoint vals_to_ns (l : list val) : option (list N) :=
  match l with
  | [] => Some []
  | VN n :: t => match vals_to_ns t with Some r => Some (n :: r) | None => None end
  | _ => None
  end.

(* binary.{Big,Little}Endian.UintNN(b): reads b[0..k-1], panics when shorter *)
Definition bytes_to_uint (big : bool) (k : nat) (l : list val) : res val :=
  if Nat.ltb (List.length l) k then Panic
  else match vals_to_ns (firstn k l) with
       | Some ns => Ok (VN (be_value (if big then ns else rev ns)))
       | None => Stuck
       end.

(* binary.{Big,Little}Endian.PutUintNN(b, v): writes b[0..k-1], panics when shorter *)
Definition put_uint (big : bool) (k : nat) (l : list val) (v : N) : res (list val) :=
  if Nat.ltb (List.length l) k then Panic
  else let ds := be_digits k v in
       Ok (map VN (if big then ds else rev ds) ++ skipn k l).

(* data lists: l[i] = v *)
Fixpoint upd {A} (l : list A) (i : nat) (v : A) : option (list A) :=
  match l, i with
  | [], _ => None
  | _ :: t, O => Some (v :: t)
  | h :: t, S i' => match upd t i' v with Some t' => Some (h :: t') | None => None end
  end.

(* variable slots (kept apart from the operations on data lists, so that
   symbolic evaluation can unfold the former and leave the latter alone) *)
Fixpoint sget (st : list val) (x : nat) : option val :=
  match st, x with
  | [], _ => None
  | v :: _, O => Some v
  | _ :: t, S x' => sget t x'
  end.

Fixpoint sset (st : list val) (x : nat) (v : val) : option (list val) :=
  match st, x with
  | [], _ => None
  | _ :: t, O => Some (v :: t)
  | h :: t, S x' => match sset t x' v with Some t' => Some (h :: t') | None => None end
  end.

Definition get_slot (st : list val) (x : nat) : res val :=
  match sget st x with Some v => Ok v | None => Stuck end.

Definition set_slot (st : list val) (x : nat) (v : val) : res (list val) :=
  match sset st x v with Some st' => Ok st' | None => Stuck end.

(* ------------------------------------------------------------- expressions *)

Section Eval.
  Variable ge : genv.
  Variable fe : fenv.

  Fixpoint eval (st : state) (e : expr) {struct e} : res val :=
    match e with
    | EVar x => get_slot st x
    | EGlobal g => match ge g with Some v => Ok v | None => Stuck end
    | EN n => Ok (VN n)
    | EB b => Ok (VB b)
    | EBin op t a b =>
        rbind (eval st a) (fun va => rbind (eval st b) (fun vb =>
          match va, vb with
          | VN x, VN y => rbind (arith op t x y) (fun r => Ok (VN r))
          | _, _ => Stuck
          end))
    | ECmp op a b =>
        rbind (eval st a) (fun va => rbind (eval st b) (fun vb => compare_v op va vb))
    | ECmpS op a b =>
        rbind (eval st a) (fun va => rbind (eval st b) (fun vb =>
          match va, vb with
          | VN x, VN y => Ok (VB (compare_n op (sbias x) (sbias y)))
          | _, _ => Stuck
          end))
    | ENot a =>
        rbind (eval st a) (fun va => match va with VB x => Ok (VB (negb x)) | _ => Stuck end)
    | EAndAlso a b =>
        rbind (eval st a) (fun va =>
          match va with
          | VB true => rbind (eval st b) (fun vb => match vb with VB y => Ok (VB y) | _ => Stuck end)
          | VB false => Ok (VB false)
          | _ => Stuck
          end)
    | EOrElse a b =>
        rbind (eval st a) (fun va =>
          match va with
          | VB false => rbind (eval st b) (fun vb => match vb with VB y => Ok (VB y) | _ => Stuck end)
          | VB true => Ok (VB true)
          | _ => Stuck
          end)
    | EConv t a =>
        rbind (eval st a) (fun va =>
          match va with VN x => rbind (wrap t x) (fun r => Ok (VN r)) | _ => Stuck end)
    | EIndex a i =>
        rbind (eval st a) (fun va => rbind (eval st i) (fun vi =>
          match va, vi with
          | VL l, VN n => match nth_error l (N.to_nat n) with Some v => Ok v | None => Panic end
          | _, _ => Stuck
          end))
    | ESlice a lo hi =>
        rbind (eval st a) (fun va => rbind (eval st lo) (fun vlo => rbind (eval st hi) (fun vhi =>
          match va, vlo, vhi with
          | VL l, VN x, VN y =>
              if andb (x <=? y) (y <=? N.of_nat (List.length l))
              then Ok (VL (firstn (N.to_nat (y - x)) (skipn (N.to_nat x) l)))
              else Panic
          | _, _, _ => Stuck
          end)))
    | ELen a =>
        rbind (eval st a) (fun va =>
          match va with VL l => Ok (VN (N.of_nat (List.length l))) | _ => Stuck end)
    | ELit es => rbind (evals st es) (fun vs => Ok (VL vs))
    | EMake z n =>
        rbind (eval st n) (fun vn =>
          match vn with VN k => Ok (VL (repeat z (N.to_nat k))) | _ => Stuck end)
    | EAppend a es =>
        rbind (eval st a) (fun va => rbind (evals st es) (fun vs =>
          match va with VL l => Ok (VL (l ++ vs)) | _ => Stuck end))
    | EAppendSlice a b =>
        rbind (eval st a) (fun va => rbind (eval st b) (fun vb =>
          match va, vb with VL l, VL m => Ok (VL (l ++ m)) | _, _ => Stuck end))
    | EBytesToUint big k a =>
        rbind (eval st a) (fun va =>
          match va with VL l => bytes_to_uint big k l | _ => Stuck end)
    | ECall f args =>
        rbind (evals st args) (fun vs => rbind (fe f vs) (fun rs =>
          match rs with [r] => Ok r | _ => Stuck end))
    | EDeref isnil a =>
        rbind (eval st isnil) (fun vn =>
          match vn with
          | VB true => Panic
          | VB false => eval st a
          | _ => Stuck
          end)
    | EUnsupported _ => Stuck
    end
  with evals (st : state) (es : exprs) {struct es} : res (list val) :=
    match es with
    | ENil => Ok []
    | ECons e es' =>
        rbind (eval st e) (fun v => rbind (evals st es') (fun vs => Ok (v :: vs)))
    end.

  (* ------------------------------------------------------------ statements *)

  Inductive outcome : Type :=
  | ONormal (st : state)
  | OReturn (st : state) (vs : option (list val))   (* None: bare return *)
  | OBreak (st : state)
  | OContinue (st : state)
  | OFail (r : res unit).

  Definition ofail {A} (r : res A) : outcome :=
    match r with
    | Ok _ => OFail Stuck
    | Panic => OFail Panic
    | Stuck => OFail Stuck
    | OutOfFuel => OFail OutOfFuel
    end.

  (* resolved left-hand sides: index operands are evaluated before any store *)
  Inductive rlval : Type := RVar (x : nat) | RIndex (x : nat) (i : N) | RBlank.

  Definition resolve (st : state) (l : lval) : res rlval :=
    match l with
    | LVar x => Ok (RVar x)
    | LBlank => Ok RBlank
    | LIndex x i =>
        rbind (eval st i) (fun vi => match vi with VN n => Ok (RIndex x n) | _ => Stuck end)
    end.

  Fixpoint resolves (st : state) (ls : list lval) : res (list rlval) :=
    match ls with
    | [] => Ok []
    | l :: t => rbind (resolve st l) (fun r => rbind (resolves st t) (fun rs => Ok (r :: rs)))
    end.

  Definition store (st : state) (r : rlval) (v : val) : res state :=
    match r with
    | RBlank => Ok st
    | RVar x => set_slot st x v
    | RIndex x i =>
        rbind (get_slot st x) (fun vx =>
          match vx with
          | VL l => match upd l (N.to_nat i) v with
                    | Some l' => set_slot st x (VL l')
                    | None => Panic
                    end
          | _ => Stuck
          end)
    end.

  Fixpoint stores (st : state) (rs : list rlval) (vs : list val) : res state :=
    match rs, vs with
    | [], [] => Ok st
    | r :: rt, v :: vt => rbind (store st r v) (fun st' => stores st' rt vt)
    | _, _ => Stuck
    end.

  Fixpoint for_go (n : nat) (condf : state -> res val) (bodyf postf : state -> outcome)
           (st : state) : outcome :=
    match n with
    | O => OFail OutOfFuel
    | S n' =>
        match condf st with
        | Ok (VB true) =>
            match bodyf st with
            | ONormal st1 | OContinue st1 =>
                match postf st1 with
                | ONormal st2 => for_go n' condf bodyf postf st2
                | o => o
                end
            | OBreak st1 => ONormal st1
            | o => o
            end
        | Ok (VB false) => ONormal st
        | Ok _ => OFail Stuck
        | r => ofail r
        end
    end.

  Definition set_opt (st : state) (x : option nat) (v : val) : res state :=
    match x with Some s => set_slot st s v | None => Ok st end.

  Fixpoint range_go (bodyf : state -> outcome) (xi xv : option nat) (i : N) (l : list val)
           (st : state) : outcome :=
    match l with
    | [] => ONormal st
    | v :: l' =>
        match rbind (set_opt st xi (VN i)) (fun st1 => set_opt st1 xv v) with
        | Ok st2 =>
            match bodyf st2 with
            | ONormal st3 | OContinue st3 => range_go bodyf xi xv (i + 1) l' st3
            | OBreak st3 => ONormal st3
            | o => o
            end
        | r => ofail r
        end
    end.

  Fixpoint exec (fuel : nat) (st : state) (s : stmt) {struct s} : outcome :=
    match s with
    | SSkip => ONormal st
    | SSeq a b =>
        match exec fuel st a with
        | ONormal st1 => exec fuel st1 b
        | o => o
        end
    | SSet l e =>
        match rbind (resolve st l) (fun r => rbind (eval st e) (fun v => store st r v)) with
        | Ok st' => ONormal st'
        | r => ofail r
        end
    | SSetMulti ls es =>
        match rbind (resolves st ls) (fun rs => rbind (evals st es) (fun vs => stores st rs vs)) with
        | Ok st' => ONormal st'
        | r => ofail r
        end
    | SPutUint big k x e =>
        match rbind (get_slot st x) (fun vx => rbind (eval st e) (fun ve =>
                match vx, ve with
                | VL l, VN v => rbind (put_uint big k l v) (fun l' => set_slot st x (VL l'))
                | _, _ => Stuck
                end)) with
        | Ok st' => ONormal st'
        | r => ofail r
        end
    | SCall f args dests =>
        match rbind (resolves st dests) (fun rs => rbind (evals st args) (fun vs =>
                rbind (fe f vs) (fun outs => stores st rs outs))) with
        | Ok st' => ONormal st'
        | r => ofail r
        end
    | SIf c a b =>
        match eval st c with
        | Ok (VB true) => exec fuel st a
        | Ok (VB false) => exec fuel st b
        | Ok _ => OFail Stuck
        | r => ofail r
        end
    | SFor c post body =>
        for_go fuel (fun st' => eval st' c) (fun st' => exec fuel st' body)
               (fun st' => exec fuel st' post) st
    | SRange xi xv e body =>
        match eval st e with
        | Ok (VL l) => range_go (fun st' => exec fuel st' body) xi xv 0 l st
        | Ok _ => OFail Stuck
        | r => ofail r
        end
    | SReturn es =>
        match es with
        | ENil => OReturn st None
        | _ => match evals st es with
               | Ok vs => OReturn st (Some vs)
               | r => ofail r
               end
        end
    | SBreak => OBreak st
    | SContinue => OContinue st
    | SBlock b =>
        match exec fuel st b with
        | OBreak st1 => ONormal st1
        | o => o
        end
    | SUnsupported _ => OFail Stuck
    end.

  Fixpoint get_slots (st : state) (xs : list nat) : res (list val) :=
    match xs with
    | [] => Ok []
    | x :: t => rbind (get_slot st x) (fun v => rbind (get_slots st t) (fun vs => Ok (v :: vs)))
    end.

  Definition run_fn (fuel : nat) (f : fn) (args : list val) : res (list val) :=
    if negb (Nat.eqb (List.length args) (f_nparams f)) then Stuck
    else
      match exec fuel (args ++ f_zeros f) (f_body f) with
      | ONormal st | OReturn st None =>
          rbind (get_slots st (f_outs f)) (fun os =>
            rbind (get_slots st (f_results f)) (fun rs => Ok (os ++ rs)))
      | OReturn st (Some vs) =>
          rbind (get_slots st (f_outs f)) (fun os => Ok (os ++ vs))
      | OFail Panic => Panic
      | OFail OutOfFuel => OutOfFuel
      | OFail _ => Stuck
      | OBreak _ | OContinue _ => Stuck
      end.
End Eval.

(* ------------------------------------------------------------ whole programs *)

Definition no_fns : fenv := fun _ _ => Stuck.

(* functions are listed callees first (the call graph of the fragment is
   acyclic; a call to a function that is not listed earlier is [Stuck]) *)
Fixpoint link (ge : genv) (fuel : nat) (fs : list (string * fn)) (fe : fenv) : fenv :=
  match fs with
  | [] => fe
  | (name, f) :: rest =>
      link ge fuel rest
           (fun n args => if String.eqb n name then run_fn ge fe fuel f args else fe n args)
  end.

Fixpoint globals (gs : list (string * val)) : genv :=
  fun g =>
    match gs with
    | [] => None
    | (name, v) :: rest => if String.eqb g name then Some v else globals rest g
    end.

Record program : Type := {
  p_globals : list (string * val);
  p_fns : list (string * fn)
}.

Definition call (p : program) (fuel : nat) (f : string) (args : list val) : res (list val) :=
  link (globals (p_globals p)) fuel (p_fns p) no_fns f args.

(* conversions between model values and GoLite values *)
Definition vbytes (l : list N) : val := VL (map VN l).
Definition vbools (l : list bool) : val := VL (map VB l).
