(* A history of exchanges on ONE client and ONE connection (tcp_transport.go:
   ExecuteRequest / readResponse, client.go: executeRequest).

   The transport keeps two things between calls: the transaction counter
   (tt.lastTxnId, incremented before every transmitted request) and - in the
   socket - the peer bytes that no call has read yet. A call reads from the
   bytes left over by the previous calls followed by the bytes the peer
   delivers while this call is waiting. Once the peer has closed or reset
   the connection, that condition persists.

   One step is exactly one client_call of Model/Client.v. No proofs here. *)
From Modbus Require Import Base.Bytes Model.Wire Model.Client.

Record th_state := mkth {
  th_txn : N;            (* tt.lastTxnId *)
  th_left : list N;      (* delivered by the peer, not read by any call so far *)
  th_end : send          (* what a read finds once the bytes are used up *)
}.

(* a fresh client on a fresh connection: the first request carries id 1 *)
Definition th_init : th_state := mkth 0 [] Stall.

Record th_step := mkthstep {
  ths_op : op;           (* the public call *)
  ths_bytes : list N;    (* what the peer delivers during this call *)
  ths_end : send         (* Closed / Reset: the peer ends the connection after these bytes *)
}.

(* a closed or reset connection stays so *)
Definition th_end_after (cur new : send) : send :=
  match new with Stall => cur | x => x end.

Definition hist_step (fr : framing) (cfg : ccfg) (st : th_state) (x : th_step)
  : th_state * call_result :=
  let e := th_end_after (th_end st) (ths_end x) in
  let r := client_call fr cfg (th_txn st) (ths_op x) e (th_left st ++ ths_bytes x) in
  (mkth (cr_txn r) (cr_rest r) e, r).

(* the outcomes of the calls, in order *)
Fixpoint hist_run (fr : framing) (cfg : ccfg) (st : th_state) (xs : list th_step)
  : list call_result :=
  match xs with
  | [] => []
  | x :: t => let '(st', r) := hist_step fr cfg st x in r :: hist_run fr cfg st' t
  end.

(* the state after the calls *)
Fixpoint hist_final (fr : framing) (cfg : ccfg) (st : th_state) (xs : list th_step)
  : th_state :=
  match xs with
  | [] => st
  | x :: t => hist_final fr cfg (fst (hist_step fr cfg st x)) t
  end.
