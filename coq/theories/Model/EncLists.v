(* Lists of values converted to register bytes and back: what the typed
   writers (WriteRegisters, WriteUint32s, WriteFloat32s, WriteUint64s,
   WriteFloat64s) put into the registers of one request and what the typed
   readers return for these registers. Floats are their IEEE bit patterns.
   No proofs here. *)
From Modbus Require Import Base.Bytes Model.Encoding Spec.ModbusSpec.

(* number of 16-bit registers one value takes *)
Inductive vwidth := W16 | W32 | W64.

Definition vregs (k : vwidth) : nat :=
  match k with W16 => 1%nat | W32 => 2%nat | W64 => 4%nat end.

Definition vbound (k : vwidth) : N :=
  match k with W16 => 2 ^ 16 | W32 => 2 ^ 32 | W64 => 2 ^ 64 end.

(* the loops `for _, value := range values { payload = append(payload, <scalar encoder>(value)...) }` *)
Definition u32s_to_bytes (e : endian) (w : wordorder) (vs : list N) : list N :=
  flat_map (u32_to_bytes e w) vs.
Definition u64s_to_bytes (e : endian) (w : wordorder) (vs : list N) : list N :=
  flat_map (u64_to_bytes e w) vs.

Definition enc_list (k : vwidth) (e : endian) (w : wordorder) (vs : list N) : list N :=
  match k with
  | W16 => u16s_to_bytes e vs
  | W32 => u32s_to_bytes e w vs
  | W64 => u64s_to_bytes e w vs
  end.

Definition dec_list (k : vwidth) (e : endian) (w : wordorder) (bs : list N) : option (list N) :=
  match k with
  | W16 => bytes_to_u16s e bs
  | W32 => bytes_to_u32s e w bs
  | W64 => bytes_to_u64s e w bs
  end.

(* the documented layout of a list: the layout of every value, in order (16-bit
   values have a single word: the word order does not matter) *)
Definition spec_list (k : vwidth) (e : endian) (w : wordorder) (vs : list N) : list N :=
  flat_map (spec_bytes (vregs k) e (match k with W16 => HighFirst | _ => w end)) vs.
