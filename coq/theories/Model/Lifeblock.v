(* Lifecycle of the server when the listen step of Start can fail.

   Model/Slots.v describes Start as a step that always binds the address. The
   address is a resource shared with the rest of the machine: while the server
   is stopped a foreign process may bind it, and Start then fails in its listen
   step. This file adds that environment to the transition system of Slots.v:
   a flag saying whether the address is occupied by a foreign listener, two
   environment steps (the foreign listener appears / goes away) and the
   failing-listen outcome of Start, which returns an error and leaves the
   server state untouched. Every other step is the step of Slots.v.
   No proofs here. *)
From Coq Require Import List Arith Bool.
Import ListNotations.
From Modbus Require Import Model.Slots.

Record lb_state := mk_lb {
  lb_srv : sstate;          (* the server system of Slots.v *)
  lb_blocked : bool         (* a foreign listener occupies the server's address *)
}.

Definition lb_init (maxc : nat) : lb_state := mk_lb (init maxc) false.

Inductive lb_label :=
| LSrv (l : label)          (* a step of the server system *)
| LBlock                    (* a foreign process binds and listens on the address *)
| LUnblock.                 (* the foreign listener is closed *)

(* Start on a started server returns at once (nil); otherwise it reaches the
   listen step, which fails exactly when the address is occupied *)
Definition lb_start_fails (b : lb_state) : bool :=
  negb (started (lb_srv b)) && lb_blocked b.

(* the foreign bind succeeds only on a free address: neither the server nor
   another foreign listener holds it *)
Definition lb_block_ok (b : lb_state) : bool :=
  negb (listening (lb_srv b)) && negb (lb_blocked b).

Definition lb_step (b : lb_state) (l : lb_label) : lb_state :=
  match l with
  | LSrv Start =>
      if lb_start_fails b then b     (* failing listen: error returned, nothing changes *)
      else mk_lb (step (lb_srv b) Start) (lb_blocked b)
  | LSrv x => mk_lb (step (lb_srv b) x) (lb_blocked b)
  | LBlock => if lb_block_ok b then mk_lb (lb_srv b) true else b
  | LUnblock => mk_lb (lb_srv b) false
  end.

Definition lb_run (b : lb_state) (tr : list lb_label) : lb_state := fold_left lb_step tr b.
