(* A served connection that is dropped by the server, seen from the slot
   bookkeeping. The peer of a served connection sends a byte stream and then
   keeps ITS end of the connection open (it sends nothing more, or goes on
   sending, or never reads - nothing the server waits for). The request loop
   (Model/Server.v) answers the well-formed requests at the head of the stream;
   at the first frame it refuses - a well-framed request whose quantity, value,
   byte count or payload length the request validation rejects, or an MBAP
   header ReadRequest rejects - it closes the link and returns, whatever
   follows in the stream. In the Slots system (Model/Slots.v) this is
   Req steps, then End (c, ProtocolError) and Remove c: no step of the peer is
   among them, so the slot does not wait for the peer. While no frame has been
   refused the loop is blocked reading (until the idle deadline, which is
   another story: Model/IdleTimer.v) and the connection keeps its slot.
   No proofs here. *)
From Coq Require Import List Arith Bool NArith.
Import ListNotations.
From Modbus Require Import Base.Bytes Model.Wire Model.Server Model.Slots Model.SlotsVisit.

Inductive devent :=
| DAnswered (calls : list hreq) (frame : list N)  (* a request was read, these handler calls made, this frame written *)
| DRefused (calls : list hreq)                    (* well framed, refused by the request validation: link closed *)
| DBadFrame.                                      (* refused by ReadRequest: link closed *)

Section WithHandler.
  Context {St : Type} (h : handler St).

  (* the request loop on the bytes s of a peer that stays connected and silent
     afterwards, up to the instant the loop blocks reading *)
  Fixpoint drop_session (fuel : nat) (st : St) (s : list N) : list devent :=
    match fuel with
    | O => []
    | S f =>
        match read_mbap Stall s with
        | (FErr ETimeout, _) => []
        | (FErr _, _) => [DBadFrame]
        | (FOk req txn, rest) =>
            let '(st', calls, act) := server_process h st req in
            match act with
            | Respond res => DAnswered calls (assemble_mbap txn res) :: drop_session f st' rest
            | CloseLink => [DRefused calls]
            end
        end
    end.

  Definition drop_run (st : St) (s : list N) : list devent :=
    drop_session (S (length s)) st s.
End WithHandler.

Definition is_drop (e : devent) : bool :=
  match e with DAnswered _ _ => false | _ => true end.

(* the server closed the link *)
Definition drop_dropped (evs : list devent) : bool := existsb is_drop evs.

(* handler invocations *)
Fixpoint drop_calls (evs : list devent) : nat :=
  match evs with
  | [] => 0
  | DAnswered calls _ :: t => length calls + drop_calls t
  | DRefused calls :: t => length calls + drop_calls t
  | DBadFrame :: t => drop_calls t
  end.

(* bytes written to the peer *)
Fixpoint drop_written (evs : list devent) : list N :=
  match evs with
  | [] => []
  | DAnswered _ frame :: t => frame ++ drop_written t
  | _ :: t => drop_written t
  end.

(* the steps of the connection c in the Slots system *)
Definition drop_event_labels (c : conn) (e : devent) : list label :=
  match e with
  | DAnswered calls _ => map (fun _ => Req c) calls
  | DRefused calls => map (fun _ => Req c) calls ++ departure c ProtocolError
  | DBadFrame => departure c ProtocolError
  end.

Definition drop_labels (c : conn) (evs : list devent) : list label :=
  flat_map (drop_event_labels c) evs.

(* the same run in the vocabulary of Model/Server.v *)
Definition drop_event_events (e : devent) : list event :=
  match e with
  | DAnswered calls frame => map EvCall calls ++ [EvResp frame]
  | DRefused calls => map EvCall calls ++ [EvClosed]
  | DBadFrame => [EvClosed]
  end.
