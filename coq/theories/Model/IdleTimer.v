(* Idle expiry of a server session (tcp_transport.go ReadRequest: the socket
   deadline is re-armed to now + timeout at the start of EVERY request read;
   server.go handleTransport ends the session when that read fails).
   Times are integers (ns). No proofs here. *)
From Coq Require Import ZArith List Bool.
Import ListNotations.
Local Open Scope Z_scope.

Inductive idle_ev :=
| IReadStart (t : Z)     (* ReadRequest is entered at time t: deadline := t + timeout *)
| IRequest (t : Z)       (* a complete request has been read at time t (not after the deadline) *)
| IExpire (t : Z).       (* the read fails with a timeout at time t: the session ends *)

Record idle_st := mkidle { id_now : Z; id_deadline : Z; id_reading : bool; id_ended : bool }.

Definition idle_init (t0 : Z) : idle_st := mkidle t0 t0 false false.

(* one event is admissible in a state *)
Definition idle_ok (timeout : Z) (s : idle_st) (e : idle_ev) : bool :=
  negb (id_ended s) &&
  match e with
  | IReadStart t => negb (id_reading s) && (id_now s <=? t)
  | IRequest t => id_reading s && (id_now s <=? t) && (t <=? id_deadline s)
  | IExpire t => id_reading s && (id_now s <=? t) && (id_deadline s <=? t)
  end.

Definition idle_step (timeout : Z) (s : idle_st) (e : idle_ev) : idle_st :=
  match e with
  | IReadStart t => mkidle t (t + timeout) true false
  | IRequest t => mkidle t (id_deadline s) false false
  | IExpire t => mkidle t (id_deadline s) false true
  end.

Fixpoint idle_valid (timeout : Z) (s : idle_st) (tr : list idle_ev) : bool :=
  match tr with
  | [] => true
  | e :: t => idle_ok timeout s e && idle_valid timeout (idle_step timeout s e) t
  end.

Definition idle_run (timeout : Z) (s : idle_st) (tr : list idle_ev) : idle_st :=
  fold_left (idle_step timeout) tr s.

(* time at which the last request read began, if any *)
Fixpoint last_read_start (tr : list idle_ev) (acc : option Z) : option Z :=
  match tr with
  | [] => acc
  | IReadStart t :: r => last_read_start r (Some t)
  | _ :: r => last_read_start r acc
  end.
