(* Segmented delivery: a connection is a list of chunks, one Read returns at
   most one chunk (net.Conn), io.ReadFull loops over Read. The frame readers,
   the client exchange and the server loop of Wire.v / Client.v / Server.v are
   re-stated over an abstract full reader so that the same text can be run
   over a flat byte list, over a list of chunks and over the UDP adapter
   (Model/Udp.v). No proofs here. *)
From Modbus Require Import Base.Bytes Model.Crc Model.Encoding Model.Wire Model.Client Model.Server.

(* ------------------------------------------------------------ one Read *)

(* outcome of one Read call: (len got, nil) | (0, err) *)
Inductive rd1_res (T : Type) :=
| Rd1 (got : list N) (s : T)
| Rd1None.
Arguments Rd1 {T} got s.
Arguments Rd1None {T}.

(* outcome of io.ReadFull over some connection state T *)
Inductive grf (T : Type) :=
| GFull (got : list N) (rest : T)
| GShort (got : list N) (rest : T).      (* fewer than n bytes could be read *)
Arguments GFull {T} got rest.
Arguments GShort {T} got rest.

(* io.ReadFull = io.ReadAtLeast(r, buf, len(buf)):
     for n < min && err == nil { nn, err = r.Read(buf[n:]); n += nn }
   n is the number of bytes still wanted (the length of buf[n:]), acc what
   has been stored so far. A Read that returns (0, nil) is legal and the loop
   simply calls again; the fuel only bounds those idle rounds. *)
Fixpoint io_read_full {T : Type} (rd1 : nat -> T -> rd1_res T)
  (fuel n : nat) (acc : list N) (s : T) : grf T :=
  match n with
  | O => GFull acc s
  | S _ =>
      match fuel with
      | O => GShort acc s                      (* unreachable with the fuel used below *)
      | S f =>
          match rd1 n s with
          | Rd1None => GShort acc s
          | Rd1 got s' => io_read_full rd1 f (n - length got) (acc ++ got) s'
          end
      end
  end.

(* net.Conn Read on a connection whose peer wrote the chunks cs (one segment
   per chunk): min(buf_len, |chunk|) bytes of the first chunk; the rest of a
   partly read chunk stays at the head. An empty chunk is a Read of 0 bytes
   without error. No chunk left: the deadline / EOF / reset error. *)
Definition chunk_read (buf_len : nat) (cs : list (list N)) : rd1_res (list (list N)) :=
  match cs with
  | [] => Rd1None
  | c :: cs' =>
      if Nat.leb (length c) buf_len then Rd1 c cs'
      else Rd1 (firstn buf_len c) (skipn buf_len c :: cs')
  end.

Definition read_full_chunks (n : nat) (cs : list (list N)) : grf (list (list N)) :=
  io_read_full chunk_read (n + length cs) n [] cs.

Definition chunks_size (cs : list (list N)) : nat := length (concat cs).

(* ------------------------------------------------- readers over a reader *)

Record gcall_result (T : Type) := mkgcall {
  gcr_res : result values;
  gcr_writes : list (list N);
  gcr_rest : T;                  (* connection state after the call *)
  gcr_txn : N
}.
Arguments mkgcall {T} _ _ _ _.
Arguments gcr_res {T} _.
Arguments gcr_writes {T} _.
Arguments gcr_rest {T} _.
Arguments gcr_txn {T} _.

Section Generic.
  (* rdf: io.ReadFull on the connection; sz: bytes still to come (only the
     fuel of the skip loops is computed from it) *)
  Context {T : Type} (rdf : nat -> T -> grf T) (sz : T -> nat).

  (* readMBAPFrame (Wire.read_mbap with rdf in place of read_full) *)
  Definition g_read_mbap (e : send) (s : T) : frame_res * T :=
    match rdf 7%nat s with
    | GShort _ s0 => (FErr (short_err e), s0)
    | GFull hdr rest =>
        match hdr with
        | [t1; t0; p1; p0; l1; l0; unit] =>
            let txn := t1 * 256 + t0 in
            let proto := p1 * 256 + p0 in
            let len := l1 * 256 + l0 in
            if (260 <? len - 1 + 7) then (FErr EProtocol, rest)
            else if (len <=? 1) then (FErr EProtocol, rest)
            else
              match rdf (N.to_nat (len - 1)) rest with
              | GShort _ s0 => (FErr (short_err e), s0)
              | GFull body rest' =>
                  if negb (proto =? 0) then (FErr EUnknownProto, rest')
                  else
                    match body with
                    | fc :: payload => (FOk (mkpdu unit fc payload) txn, rest')
                    | [] => (FErr EProtocol, rest')
                    end
              end
        | _ => (FErr EProtocol, rest)
        end
    end.

  (* readResponse *)
  Fixpoint g_mbap_read_response (fuel : nat) (e : send) (txn : N) (s : T)
    : result pdu * T :=
    match fuel with
    | O => (OutOfFuel, s)
    | S f =>
        match g_read_mbap e s with
        | (FErr EUnknownProto, s') => g_mbap_read_response f e txn s'
        | (FErr x, s') => (Err x, s')
        | (FOk p t, s') =>
            if t =? txn then (Ok p, s') else g_mbap_read_response f e txn s'
        end
    end.

  (* readRTUFrame *)
  Definition g_read_rtu (e : send) (s : T) : result pdu * T :=
    match rdf 3%nat s with
    | GShort got s0 =>
        match got with
        | [] => (Err (short_err e), s0)
        | _ => (Err EShortFrame, s0)
        end
    | GFull hdr rest =>
        match hdr with
        | [unit; fc; b2] =>
            match expected_len fc b2 with
            | None => (Err EProtocol, rest)
            | Some n =>
                let need := n + 2 in
                if 256 <? 3 + need then (Err EProtocol, rest)
                else
                  match rdf (N.to_nat need) rest with
                  | GShort got s0 =>
                      match e, got with
                      | Stall, _ => (Err ETimeout, s0)
                      | Reset, _ => (Err EIO, s0)
                      | Closed, [] => (Err EIO, s0)
                      | Closed, _ => (Err EShortFrame, s0)
                      end
                  | GFull body rest' =>
                      let data := firstn (N.to_nat n) body in
                      match skipn (N.to_nat n) body with
                      | [lo; hi] =>
                          if crc_is_equal (crc16 ([unit; fc; b2] ++ data)) lo hi
                          then (Ok (mkpdu unit fc (b2 :: data)), rest')
                          else (Err EBadCRC, rest')
                      | _ => (Panic, rest')
                      end
                  end
            end
        | _ => (Panic, rest)
        end
    end.

  (* discard: io.ReadFull into a 1024-byte buffer, result ignored *)
  Definition g_discard (s : T) : T :=
    match rdf 1024%nat s with
    | GFull _ r => r
    | GShort _ r => r
    end.

  Definition g_rtu_read_response (e : send) (s : T) : result pdu * T :=
    match g_read_rtu e s with
    | (Err EBadCRC, s') => (Err EBadCRC, g_discard s')
    | (Err EProtocol, s') => (Err EProtocol, g_discard s')
    | (Err EShortFrame, s') => (Err EShortFrame, g_discard s')
    | r => r
    end.

  Definition g_transport_exchange (fr : framing) (txn : N) (req : pdu) (e : send) (s : T)
    : result pdu * list (list N) * T * N :=
    match fr with
    | FMbap =>
        let txn' := u16 (txn + 1) in
        let '(r, rest) := g_mbap_read_response (S (sz s)) e txn' s in
        (r, [assemble_mbap txn' req], rest, txn')
    | FRtu =>
        let '(r, rest) := g_rtu_read_response e s in
        (r, [assemble_rtu req], rest, txn)
    end.

  Definition g_client_call (fr : framing) (cfg : ccfg) (txn : N) (o : op) (e : send) (s : T)
    : gcall_result T :=
    match client_request cfg o with
    | Ok req =>
        let '(r, writes, rest, txn') := g_transport_exchange fr txn req e s in
        match r with
        | Ok res =>
            match unit_check req res with
            | Some x => mkgcall (Err x) writes rest txn'
            | None => mkgcall (client_validate cfg o req res) writes rest txn'
            end
        | Err x => mkgcall (Err x) writes rest txn'
        | Panic => mkgcall Panic writes rest txn'
        | OutOfFuel => mkgcall OutOfFuel writes rest txn'
        end
    | Err x => mkgcall (Err x) [] s txn
    | Panic => mkgcall Panic [] s txn
    | OutOfFuel => mkgcall OutOfFuel [] s txn
    end.

  Section GServer.
    Context {St : Type} (h : handler St).

    (* handleTransport over the TCP transport *)
    Fixpoint g_server_session (fuel : nat) (st : St) (e : send) (s : T) : list event :=
      match fuel with
      | O => [EvClosed]
      | S f =>
          match g_read_mbap e s with
          | (FErr _, _) => [EvClosed]
          | (FOk req txn, rest) =>
              let '(st', calls, act) := server_process h st req in
              map EvCall calls ++
              match act with
              | Respond res => EvResp (assemble_mbap txn res) :: g_server_session f st' e rest
              | CloseLink => [EvClosed]
              end
          end
      end.

    Definition g_server_run (st : St) (e : send) (s : T) : list event :=
      g_server_session (S (sz s)) st e s.
  End GServer.
End Generic.

(* -------------------------------------------- the readers over chunk lists *)

Definition read_mbap_c := g_read_mbap read_full_chunks.
Definition mbap_read_response_c := g_mbap_read_response read_full_chunks.
Definition read_rtu_c := g_read_rtu read_full_chunks.
Definition rtu_read_response_c := g_rtu_read_response read_full_chunks.
Definition client_call_c := g_client_call read_full_chunks chunks_size.
Definition server_run_c {St : Type} (h : handler St) := g_server_run read_full_chunks chunks_size h.
