(* Model of the server's admission / teardown / lifecycle bookkeeping
   (server.go Start, Stop, acceptTCPClients, handleTCPClient) as a labelled
   transition system. Every step is one atomic action of one goroutine (a
   critical section under ms.lock, or an action on one connection), so the
   set of step sequences is the set of interleavings. No proofs here. *)
From Coq Require Import List Arith Bool.
Import ListNotations.

Definition conn := nat.

Inductive cstat :=
| Fresh        (* not seen yet *)
| Queued       (* in the listener's accept queue *)
| Taken        (* Accept returned it; the admission critical section is still to come *)
| Serving      (* in tcpClients, its session goroutine is running the request loop *)
| Ended        (* its request loop returned; removal critical section still to come *)
| Rejected     (* refused by the admission critical section and closed *)
| Removed      (* removed from tcpClients and closed *)
| Dropped.     (* was still in the accept queue when the listener closed *)

Inductive why := Disconnect | ProtocolError | IdleExpiry | ClosedByStop.

Record sstate := mkst {
  started : bool;            (* ms.started *)
  listening : bool;          (* the listener of the current generation is open *)
  acceptors : nat;           (* live accept goroutines whose listener is open *)
  zombies : nat;             (* live accept goroutines whose listener was closed *)
  maxc : nat;                (* conf.MaxClients *)
  clients : list conn;       (* ms.tcpClients *)
  stat : conn -> cstat;
  closed : conn -> bool      (* the server closed the socket *)
}.

Definition init (maxc : nat) : sstate :=
  mkst false false 0 0 maxc [] (fun _ => Fresh) (fun _ => false).

Definition upd {A} (f : conn -> A) (c : conn) (v : A) : conn -> A :=
  fun x => if Nat.eqb x c then v else f x.

(* handleTCPClient's removal loop: overwrite the first occurrence with the
   last element, then drop the last element *)
Fixpoint replace_first (c : conn) (v : conn) (l : list conn) : option (list conn) :=
  match l with
  | [] => None
  | x :: t =>
      if Nat.eqb x c then Some (v :: t)
      else match replace_first c v t with
           | Some t' => Some (x :: t')
           | None => None
           end
  end.

Definition remove_swap (c : conn) (l : list conn) : list conn :=
  match replace_first c (last l 0) l with
  | Some l' => removelast l'
  | None => l
  end.

Definition stat_eqb (a b : cstat) : bool :=
  match a, b with
  | Fresh, Fresh | Queued, Queued | Taken, Taken | Serving, Serving | Ended, Ended
  | Rejected, Rejected | Removed, Removed | Dropped, Dropped => true
  | _, _ => false
  end.

Inductive label :=
| Arrive (c : conn)        (* a client connects while the listener is open *)
| Take (c : conn)          (* an accept goroutine's Accept returns c *)
| Enrol (c : conn)         (* admission critical section for c, then spawn or close *)
| Req (c : conn)           (* a request of c is read and dispatched to a handler *)
| End (c : conn) (w : why) (* c's request loop returns *)
| Remove (c : conn)        (* removal critical section for c, then close *)
| Start
| Stop
| AcceptExit.              (* an accept goroutine sees its listener closed and returns *)

(* guard of a step *)
Definition enabled (s : sstate) (l : label) : bool :=
  match l with
  | Arrive c => listening s && stat_eqb (stat s c) Fresh
  | Take c => stat_eqb (stat s c) Queued && Nat.ltb 0 (acceptors s)
  | Enrol c => stat_eqb (stat s c) Taken
  | Req c => stat_eqb (stat s c) Serving && negb (closed s c)
  | End c ClosedByStop => stat_eqb (stat s c) Serving && closed s c
  | End c _ => stat_eqb (stat s c) Serving
  | Remove c => stat_eqb (stat s c) Ended
  | Start | Stop => true
  | AcceptExit => Nat.ltb 0 (zombies s)
  end.

Definition close_all (l : list conn) (f : conn -> bool) : conn -> bool :=
  fun x => if existsb (Nat.eqb x) l then true else f x.

(* connections still queued are dropped by the kernel when the listener closes *)
Definition drop_queued (f : conn -> cstat) : conn -> cstat :=
  fun x => match f x with Queued => Dropped | v => v end.

Definition step (s : sstate) (l : label) : sstate :=
  if negb (enabled s l) then s else
  match l with
  | Arrive c =>
      mkst (started s) (listening s) (acceptors s) (zombies s) (maxc s) (clients s)
           (upd (stat s) c Queued) (closed s)
  | Take c =>
      mkst (started s) (listening s) (acceptors s) (zombies s) (maxc s) (clients s)
           (upd (stat s) c Taken) (closed s)
  | Enrol c =>
      if started s && Nat.ltb (length (clients s)) (maxc s)
      then mkst (started s) (listening s) (acceptors s) (zombies s) (maxc s) (clients s ++ [c])
                (upd (stat s) c Serving) (closed s)
      else mkst (started s) (listening s) (acceptors s) (zombies s) (maxc s) (clients s)
                (upd (stat s) c Rejected) (upd (closed s) c true)
  | Req c => s
  | End c _ =>
      mkst (started s) (listening s) (acceptors s) (zombies s) (maxc s) (clients s)
           (upd (stat s) c Ended) (closed s)
  | Remove c =>
      mkst (started s) (listening s) (acceptors s) (zombies s) (maxc s)
           (remove_swap c (clients s)) (upd (stat s) c Removed) (upd (closed s) c true)
  | Start =>
      if started s then s
      else mkst true true (S (acceptors s)) (zombies s) (maxc s) (clients s) (stat s) (closed s)
  | Stop =>
      if negb (started s) then s
      else mkst false false 0 (zombies s + acceptors s) (maxc s) (clients s)
                (drop_queued (stat s)) (close_all (clients s) (closed s))
  | AcceptExit =>
      mkst (started s) (listening s) (acceptors s) (pred (zombies s)) (maxc s) (clients s)
           (stat s) (closed s)
  end.

Definition run (s : sstate) (tr : list label) : sstate := fold_left step tr s.

(* number of connections being served: in the request loop, socket open *)
Definition serving_count (s : sstate) : nat :=
  length (filter (fun c => stat_eqb (stat s c) Serving) (clients s)).
