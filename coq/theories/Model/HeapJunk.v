(* Extension of the heap model of the client calls (Model/Heap.v) by the
   memory the library allocates and fills WITHOUT ever handing it out, which
   hp_call leaves out:

   j1  the buffers of frames the transport reads but does not return: for
       MBAP the header and body buffers (make([]byte, 7), make([]byte, n))
       of every frame skipped for a foreign transaction or protocol id and of
       a frame rejected with an error; for RTU the 256-byte buffer of a
       rejected frame and the 1024-byte buffer of discard();
   j2  the temporaries of the decoders: the []uint32 / []uint64 (and its
       append growth chain) under bytesToFloat32s / bytesToFloat64s.

   Each such buffer is created by make (a new array) and only ever stored to
   through the slice make returned, so all that is left of it is one more
   array holding some content. The model therefore takes them as ARBITRARY
   lists of arrays (any number, any sizes, any contents - the theorems are for
   all j1 j2): j1 is on the heap when the reception of the accepted frame
   starts, j2 once the result is built. No proofs here. *)
From Modbus Require Import Base.Bytes Model.Crc Model.Encoding Model.Wire Model.Client Model.Heap.

Definition hj_call (gr : nat -> nat) (fr : framing) (cfg : ccfg) (txn : N)
  (o : hp_op) (e : send) (s : list N) (j1 j2 : list (list N)) (h : hp_heap)
  : hp_callres * hp_heap :=
  let vo := hp_value_op o h in
  match hp_request false gr cfg o h with
  | HpPanic h1 => (mkhr Panic [] s txn, h1)
  | HpVal (Err x) h1 => (mkhr (Err x) [] s txn, h1)
  | HpVal Panic h1 => (mkhr Panic [] s txn, h1)
  | HpVal OutOfFuel h1 => (mkhr OutOfFuel [] s txn, h1)
  | HpVal (Ok req) h1 =>
      let txn' := match fr with FMbap => u16 (txn + 1) | FRtu => txn end in
      match hp_assemble gr fr txn' req h1 with
      | HpPanic h2 => (mkhr Panic [] s txn', h2)
      | HpVal frame h2 =>
          let sent := h_read frame h2 in
          let reqv := mkpdu (hq_unit req) (hq_fc req) (h_read (hq_payload req) h2) in
          let '(r, _, rest, _) := transport_exchange fr txn reqv e s in
          match r with
          | Ok res =>
              match hp_receive gr fr cfg txn' vo reqv res (h2 ++ j1) with
              | HpVal v h3 => (mkhr v [sent] rest txn', h3 ++ j2)
              | HpPanic h3 => (mkhr Panic [sent] rest txn', h3 ++ j2)
              end
          | Err x => (mkhr (Err x) [sent] rest txn', h2 ++ j1)
          | Panic => (mkhr Panic [sent] rest txn', h2 ++ j1)
          | OutOfFuel => (mkhr OutOfFuel [sent] rest txn', h2 ++ j1)
          end
      end
  end.
