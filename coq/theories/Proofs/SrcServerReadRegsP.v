From Coq Require Import List NArith String Lia Bool.
From Coq Require Import ZifyBool ZifyNat ZifyN.
Import ListNotations.
From Modbus Require Import Base.Bytes Model.GoLite Gen.SrcPure Model.Crc Model.Encoding.
From Modbus Require Import Model.Wire Model.Client Model.Server.
From Modbus Require Import Proofs.GoLiteP Proofs.GoLiteLinkP Proofs.SrcCrcP Proofs.SrcLinkP Proofs.SrcMiscP Proofs.SrcClientP Proofs.SrcServerP.
Open Scope string_scope.
Open Scope N_scope.

(* server.go handleTransport as translated from the Go source (Gen/SrcPure.v):
   one iteration of the request loop on function codes 3 and 4 (read holding /
   input registers) is the model's server_process followed by WriteResponse or
   Close (Proofs/SrcServerP.v: srv_iter_spec). *)

(* ---------------------------------------------------------------- the model on function codes 3 and 4 *)

Definition regs_process {St : Type} (h : handler St) (st : St) (u fc : N) (pl : list N)
  : St * list hreq * action :=
  let req := mkpdu u fc pl in
  let exc c := Respond (exception_pdu req c) in
  if negb (List.length pl =? 4)%nat then (st, [], CloseLink)
  else
    let addr := be_word pl in
    let qty := be_word (skipn 2 pl) in
    if orb (125 <? qty) (qty =? 0) then (st, [], CloseLink)
    else if 65535 <? addr + qty - 1 then (st, [], exc 2)
    else
      let r := mkhreq (if fc =? 3 then HHolding else HInput) u addr qty false [] [] in
      let '(st', res) := h st r in
      match norm_herr (r_err res) with
      | HNone =>
          if negb (lenN (r_regs res) =? qty) then (st', [r], exc 4)
          else
            (st', [r], Respond (mkpdu u fc
               (u8 (lenN (r_regs res) * 2) :: u16s_to_bytes BigE (r_regs res))))
      | e => (st', [r], exc (herr_code e))
      end.

Lemma server_process_regs {St : Type} (h : handler St) st u fc pl :
  fc = 3 \/ fc = 4 ->
  server_process h st (mkpdu u fc pl) = regs_process h st u fc pl.
Proof. intros [->| ->]; reflexivity. Qed.

(* handler error values: what the code does with them is what the model says *)
Lemma herr_cases c :
  In c all_error_values -> c <> 0 ->
  norm_herr (herr_of_code c) <> HNone /\
  In (if c =? 16 then 8 else c) all_error_values /\
  herr_code (norm_herr (herr_of_code c)) = err_to_exc (if c =? 16 then 8 else c).
Proof.
  intros Hin Hc. vm_compute in Hin.
  repeat (destruct Hin as [<-|Hin]; [try congruence; vm_compute; repeat split; try discriminate; tauto|]).
  contradiction.
Qed.

(* ---------------------------------------------------------------- evaluation *)

(* gl_auto of Proofs/SrcClientP.v, also computing on data lists of known shape *)
Local Ltac gl_more :=
  repeat (progress (gl_step;
                    cbn [compare_v compare_n arith wrap negb andb orb ofail Bool.eqb
                         firstn skipn nth_error map List.length upd app vbytes];
                    gl_consts)).

(* srv_iter_spec with the outcome and the model's verdict as arguments *)
Definition iter_out (started tt : val) (ca cr : N) (r : val * bool) (o : outcome) : Prop :=
  exists rest', List.length rest' = 18%nat /\
    o = (let '(w2, go_on) := r in
         if go_on then ONormal (srv_state started tt ca cr w2 rest')
         else OReturn (srv_state started tt ca cr w2 rest') None).

(* the switch and what follows it *)
Definition srv_switch : stmt :=
  Eval cbv in match srv_parts with
              | SSeq _ (SSeq _ (SSeq s _)) => s
              | _ => SSkip
              end.
Definition srv_tail : stmt :=
  Eval cbv in match srv_parts with
              | SSeq _ (SSeq _ (SSeq _ t)) => t
              | _ => SSkip
              end.

Lemma srv_parts_eq :
  srv_parts =
  SSeq (SCall "transport.ReadRequest" (ECons (EVar 4) (ENil)) [LVar 4; LVar 5; LVar 6; LVar 7; LVar 8; LVar 13])
    (SSeq (SIf (ECmp CNe (EVar 13) (EN 0)) (SReturn (ENil)) (SSkip))
       (SSeq srv_switch srv_tail)).
Proof. reflexivity. Qed.

Section Tail.
  Variables (fe : fenv) (fuel : nat) (W : world_fns).
  Hypothesis HW : world_hyp fe W.
  Hypothesis HC : srv_callee_hyp fe.
  Variables (started tt : val) (ca cr : N) (w : val) (u fc : N) (pl : val).
  Variables (r9 r10 r11 r12 s14 s15 s16 s17 s18 s19 s20 s21 s22 : val).

  (* a protocol error: the link is closed and the function returns *)
  Lemma tail_close :
    iter_out started tt ca cr (fst (w_close W w), false)
      (exec ge fe fuel
         [started; tt; VN ca; VN cr; w; VB false; VN u; VN fc; pl; r9; r10; r11; r12; VN 16;
          s14; s15; s16; s17; s18; s19; s20; s21; s22] srv_tail).
  Proof.
    destruct HW as (_ & _ & _ & _ & _ & _ & Hclose & _).
    unfold srv_tail. gl_more. rewrite Hclose. gl_more.
    unfold iter_out. eexists; split; [|reflexivity]; reflexivity.
  Qed.

  (* another error: an exception response *)
  Lemma tail_exc e :
    In e all_error_values -> e <> 0 -> e <> 16 ->
    iter_out started tt ca cr
      (fst (w_write W w (mkpdu u (N.lor 128 fc) [err_to_exc e])), true)
      (exec ge fe fuel
         [started; tt; VN ca; VN cr; w; VB false; VN u; VN fc; pl; r9; r10; r11; r12; VN e;
          s14; s15; s16; s17; s18; s19; s20; s21; s22] srv_tail).
  Proof.
    intros Hin H0 H16.
    destruct HW as (_ & _ & _ & _ & _ & Hwrite & _ & _).
    destruct HC as (_ & _ & _ & _ & _ & _ & Hmap).
    assert (E0 : (e =? 0) = false) by lia. assert (E16 : (e =? 16) = false) by lia.
    unfold srv_tail. gl_more. rewrite ?E0, ?E16. gl_more. rewrite ?E0, ?E16. gl_more.
    rewrite (Hmap e Hin). gl_more. rewrite ?E0, ?E16. gl_more.
    pose proof (Hwrite w (mkpdu u (N.lor 128 fc) [err_to_exc e])) as Hw.
    unfold vbytes in Hw. cbn [p_unit p_fc p_payload map] in Hw. rewrite Hw. gl_more.
    destruct (snd (w_write W w (mkpdu u (N.lor 128 fc) [err_to_exc e])) =? 0); gl_more;
      unfold iter_out; (eexists; split; [|reflexivity]; reflexivity).
  Qed.

  (* no error and a response *)
  Lemma tail_ok ru rfc rp :
    iter_out started tt ca cr
      (fst (w_write W w (mkpdu ru rfc rp)), true)
      (exec ge fe fuel
         [started; tt; VN ca; VN cr; w; VB false; VN u; VN fc; pl; VB false; VN ru; VN rfc; vbytes rp; VN 0;
          s14; s15; s16; s17; s18; s19; s20; s21; s22] srv_tail).
  Proof.
    destruct HW as (_ & _ & _ & _ & _ & Hwrite & _ & _).
    unfold srv_tail. gl_more.
    pose proof (Hwrite w (mkpdu ru rfc rp)) as Hw.
    cbn [p_unit p_fc p_payload] in Hw. rewrite Hw. gl_more.
    destruct (snd (w_write W w (mkpdu ru rfc rp)) =? 0); gl_more;
      unfold iter_out; (eexists; split; [|reflexivity]; reflexivity).
  Qed.
End Tail.

Lemma srv_iter_read_regs fe fuel W started tt ca cr w rest req :
  world_hyp fe W -> srv_callee_hyp fe -> List.length rest = 18%nat ->
  snd (w_read W w) = RdOk req -> (p_fc req = 3 \/ p_fc req = 4) ->
  srv_iter_spec fe fuel W started tt ca cr w rest req.
Proof.
  intros HW HC Hlen Hrd Hfc.
  pose proof HW as HW0. pose proof HC as HC0.
  destruct HW as (Hread & Hcoils & Hdisc & Hhold & Hinp & Hwrite & Hclose & Hherr).
  destruct HC as (Hu16 & Hb2u & Henc & Hdec & Hb2us & Hu2bs & Hmap).
  change (iter_out started tt ca cr (srv_request W ca cr (fst (w_read W w)) req)
            (exec ge fe fuel (srv_state started tt ca cr w rest) srv_parts)).
  destruct (Hread w) as [Hr Hwf]. rewrite Hrd in Hr, Hwf. cbn [rd_wf enc_rd] in Hr, Hwf.
  destruct Hwf as (Hb & _ & _).
  set (w1 := fst (w_read W w)) in *.
  destruct req as [u fc pl]. cbn [p_unit p_fc p_payload] in *.
  unfold srv_request. rewrite (server_process_regs _ _ _ _ _ Hfc).
  do 18 (destruct rest as [|? rest]; [discriminate Hlen|]).
  destruct rest; [|discriminate Hlen]. clear Hlen.
  assert (Hcall : forall a q,
    (if fc =? 3
     then fe "handler.HandleHoldingRegisters" [w1; VN ca; VN cr; VN u; VN a; VN q; VB false; VL []]
     else fe "handler.HandleInputRegisters" [w1; VN ca; VN cr; VN u; VN a; VN q]) =
    let '(w', x) := w_handle W w1 ca cr (mkhreq (if fc =? 3 then HHolding else HInput) u a q false [] []) in
    GOk [w'; vbytes (hr_regs x); VN (hr_code x)]).
  { intros a q. destruct (fc =? 3) eqn:E3.
    - apply (Hhold w1 ca cr u a q false []).
    - apply Hinp. }
  clear Hcoils Hdisc Hhold Hinp Hu16 Henc Hdec Hb2us Hread.
  unfold srv_state. rewrite srv_parts_eq.
  gl_step. rewrite Hr. gl_more.
  unfold regs_process.
  destruct (Nat.eqb (List.length pl) 4) eqn:E4; cbn [negb].
  2:{ (* wrong payload length *)
    destruct Hfc as [-> | ->]; unfold srv_switch; gl_more; rewrite map_length;
      replace (N.of_nat (List.length pl) =? 4) with false by lia; gl_more;
      apply (tail_close _ _ _ HW0). }
  destruct pl as [|b0 [|b1 [|b2 [|b3 [|b4 pl]]]]]; try discriminate E4. clear E4.
  cbn [bytesb forallb] in Hb. unfold is_byte in Hb.
  cbn [be_word skipn].
  pose proof (Hb2u BigE [b0; b1]) as Ha. cbn [endian_sel bytes_to_u16] in Ha.
  pose proof (Hb2u BigE [b2; b3]) as Hq. cbn [endian_sel bytes_to_u16] in Hq.
  unfold vbytes in Ha, Hq. cbn [map] in Ha, Hq.
  assert (Haddr : b0 * 256 + b1 < 65536) by lia. assert (Hqty : b2 * 256 + b3 < 65536) by lia.
  set (addr := b0 * 256 + b1) in *. set (qty := b2 * 256 + b3) in *.
  clearbody addr qty. clear Hb Hb2u.
  unfold exception_pdu. cbn [p_unit p_fc].
  destruct Hfc as [-> | ->];
  (unfold srv_switch; gl_more; rewrite Ha; gl_more; rewrite Hq; gl_more;
   (* quantity 1..125 *)
   destruct (125 <? qty) eqn:Eq1; gl_more; [apply (tail_close _ _ _ HW0)|];
   destruct (qty =? 0) eqn:Eq0; gl_more; [apply (tail_close _ _ _ HW0)|];
   (* end address *)
   replace (((addr mod 2 ^ 32 + qty mod 2 ^ 32) mod 2 ^ 32 + 2 ^ 32 - 1 mod 2 ^ 32) mod 2 ^ 32)
     with (addr + qty - 1) by (change (2 ^ 32) with 4294967296; lia);
   destruct (65535 <? addr + qty - 1) eqn:Ea; gl_more;
   [change [2] with [err_to_exc 6];
    apply (tail_exc _ _ _ HW0 HC0); [vm_compute; tauto|discriminate|discriminate]|];
   (* the handler *)
   pose proof (Hcall addr qty) as Hc; cbn [N.eqb Pos.eqb] in Hc;
   unfold model_handler;
   match goal with
   | |- context [w_handle W w1 ca cr ?r] =>
       pose proof (Hherr w1 ca cr r) as [Hin Hregs];
       destruct (w_handle W w1 ca cr r) as [w2 x] eqn:Eh
   end;
   cbn [snd] in Hin, Hregs; destruct x as [xb xr c];
   cbn [hr_bools hr_regs hr_code r_err r_regs] in *;
   rewrite Hc; gl_more; rewrite map_length;
   destruct (c =? 16) eqn:E16; gl_more;
   [(* the handler returned a protocol error: server device failure *)
    apply N.eqb_eq in E16; subst c;
    change (herr_of_code 16) with HProtocol; cbn [norm_herr herr_code];
    change [4] with [err_to_exc 8];
    apply (tail_exc _ _ _ HW0 HC0); [vm_compute; tauto|discriminate|discriminate]|];
   destruct (c =? 0) eqn:E0; gl_more;
   [(* no error *)
    apply N.eqb_eq in E0; subst c;
    change (herr_of_code 0) with HNone; cbn [norm_herr]; unfold lenN;
    replace (qty <? 2 ^ 63) with true by (change (2 ^ 63) with 9223372036854775808; lia);
    gl_more;
    destruct (N.of_nat (List.length xr) =? qty) eqn:El; gl_more;
    [(* the response *)
     replace (N.of_nat (List.length xr) * 2 <? 2 ^ 63) with true
       by (change (2 ^ 63) with 9223372036854775808; lia);
     gl_more; rewrite Hu2bs by lia; gl_more;
     unfold u8; change (2 ^ 8) with 256;
     match goal with
     | |- context [VL (VN ?x :: map VN ?l)] => change (VL (VN x :: map VN l)) with (vbytes (x :: l))
     end;
     apply (tail_ok _ _ _ HW0)
    |(* a wrong number of registers *)
     change [4] with [err_to_exc 8];
     apply (tail_exc _ _ _ HW0 HC0); [vm_compute; tauto|discriminate|discriminate]]
   |(* a handler error *)
    repeat (progress (gl_more; rewrite ?E0, ?E16));
    destruct (herr_cases c Hin) as (Hne & Hin' & Hcode); [lia|];
    rewrite E16 in Hin', Hcode;
    destruct (norm_herr (herr_of_code c)) eqn:En; [congruence|..]; rewrite Hcode;
    (apply (tail_exc _ _ _ HW0 HC0); [exact Hin'|lia|lia])]).
Qed.
