(* server.go handleTransport as translated from the Go source: the iteration
   for an unsupported function code, the iteration in which ReadRequest fails,
   the endless loop and the whole function, against the model's srv_loop. *)
From Coq Require Import List NArith String Lia Bool.
From Coq Require Import ZifyBool ZifyNat ZifyN.
Import ListNotations.
From Modbus Require Import Base.Bytes Model.GoLite Gen.SrcPure Model.Crc Model.Encoding.
From Modbus Require Import Model.Wire Model.Client Model.Server.
From Modbus Require Import Proofs.GoLiteP Proofs.GoLiteLinkP Proofs.SrcCrcP Proofs.SrcLinkP Proofs.SrcMiscP Proofs.SrcClientP Proofs.SrcServerP.
Open Scope string_scope.
Open Scope N_scope.

(* ---------------------------------------------------------------- helpers *)

(* a list of length 18, as its elements *)
Lemma length18 (rest : list val) : List.length rest = 18%nat ->
  exists r5 r6 r7 r8 r9 r10 r11 r12 r13 r14 r15 r16 r17 r18 r19 r20 r21 r22,
    rest = [r5; r6; r7; r8; r9; r10; r11; r12; r13; r14; r15; r16; r17; r18; r19; r20; r21; r22].
Proof.
  intros H.
  do 18 (destruct rest as [|? rest]; [discriminate H|]).
  destruct rest as [|? rest]; [|discriminate H].
  repeat eexists.
Qed.

(* the model on a function code it does not know *)
Lemma server_process_unsupported {St} (h : handler St) st req :
  p_fc req <> 1 -> p_fc req <> 2 -> p_fc req <> 3 -> p_fc req <> 4 -> p_fc req <> 5 ->
  p_fc req <> 6 -> p_fc req <> 15 -> p_fc req <> 16 ->
  server_process h st req = (st, [], Respond (exception_pdu req 1)).
Proof.
  intros H1 H2 H3 H4 H5 H6 H15 H16. unfold server_process.
  rewrite (proj2 (N.eqb_neq _ _) H1), (proj2 (N.eqb_neq _ _) H2), (proj2 (N.eqb_neq _ _) H3),
          (proj2 (N.eqb_neq _ _) H4), (proj2 (N.eqb_neq _ _) H5), (proj2 (N.eqb_neq _ _) H6),
          (proj2 (N.eqb_neq _ _) H15), (proj2 (N.eqb_neq _ _) H16).
  reflexivity.
Qed.

(* ---------------------------------------------------------------- one iteration *)

(* an unsupported function code: illegal-function exception, no handler call *)
Lemma srv_iter_unsupported fe fuel W started tt ca cr w rest req :
  world_hyp fe W -> srv_callee_hyp fe -> List.length rest = 18%nat ->
  snd (w_read W w) = RdOk req ->
  p_fc req <> 1 -> p_fc req <> 2 -> p_fc req <> 3 -> p_fc req <> 4 -> p_fc req <> 5 -> p_fc req <> 6 -> p_fc req <> 15 -> p_fc req <> 16 ->
  srv_iter_spec fe fuel W started tt ca cr w rest req.
Proof.
  intros HW _ Hlen Hrd H1 H2 H3 H4 H5 H6 H15 H16.
  destruct HW as (Hread & _ & _ & _ & _ & Hwrite & _ & _).
  destruct (length18 rest Hlen) as (r5 & r6 & r7 & r8 & r9 & r10 & r11 & r12 & r13 & r14 & r15 & r16 &
                                    r17 & r18 & r19 & r20 & r21 & r22 & ->).
  unfold srv_iter_spec, srv_request, srv_state.
  rewrite (server_process_unsupported _ _ _ H1 H2 H3 H4 H5 H6 H15 H16).
  cbn [fst snd].
  unfold srv_parts.
  gl_step. rewrite (proj1 (Hread w)), Hrd. cbn [enc_rd].
  pose proof (proj2 (N.eqb_neq _ _) H1) as E1. pose proof (proj2 (N.eqb_neq _ _) H2) as E2.
  pose proof (proj2 (N.eqb_neq _ _) H3) as E3. pose proof (proj2 (N.eqb_neq _ _) H4) as E4.
  pose proof (proj2 (N.eqb_neq _ _) H5) as E5. pose proof (proj2 (N.eqb_neq _ _) H6) as E6.
  pose proof (proj2 (N.eqb_neq _ _) H15) as E15. pose proof (proj2 (N.eqb_neq _ _) H16) as E16.
  repeat (gl_auto; rewrite ?E1, ?E2, ?E3, ?E4, ?E5, ?E6, ?E15, ?E16).
  pose proof (Hwrite (fst (w_read W w)) (exception_pdu req 1)) as Hw.
  cbn [exception_pdu p_unit p_fc p_payload] in Hw. unfold vbytes in Hw. cbn [map] in Hw. rewrite Hw. clear Hw.
  gl_auto.
  destruct (negb (snd (w_write W (fst (w_read W w)) (exception_pdu req 1)) =? 0));
    gl_auto; (eexists; split; [|reflexivity]; reflexivity).
Qed.

(* ReadRequest fails: the function returns *)
Lemma srv_iter_end fe fuel W started tt ca cr w rest c :
  world_hyp fe W -> List.length rest = 18%nat -> snd (w_read W w) = RdErr c ->
  srv_iter_end_spec fe fuel W started tt ca cr w rest.
Proof.
  intros HW Hlen Hrd.
  destruct HW as (Hread & _).
  destruct (length18 rest Hlen) as (r5 & r6 & r7 & r8 & r9 & r10 & r11 & r12 & r13 & r14 & r15 & r16 &
                                    r17 & r18 & r19 & r20 & r21 & r22 & ->).
  unfold srv_iter_end_spec, srv_state.
  destruct (Hread w) as [Hr Hwf]. rewrite Hrd in Hr, Hwf. cbn [rd_wf enc_rd] in Hr, Hwf.
  unfold srv_parts.
  gl_step. rewrite Hr.
  gl_auto.
  replace (c =? 0) with false by lia. cbn [negb].
  eexists; split; [|reflexivity]; reflexivity.
Qed.


(* ---------------------------------------------------------------- the loop *)

Lemma for_go_body_return n condf bodyf postf st st1 vs :
  condf st = GOk (VB true) -> bodyf st = OReturn st1 vs ->
  for_go (S n) condf bodyf postf st = OReturn st1 vs.
Proof. intros Hc Hb. cbn [for_go]. rewrite Hc, Hb. reflexivity. Qed.

Lemma exec_for ge0 fe fuel st c post body :
  exec ge0 fe fuel st (SFor c post body) =
  for_go fuel (fun st' => eval ge0 fe st' c) (fun st' => exec ge0 fe fuel st' body)
         (fun st' => exec ge0 fe fuel st' post) st.
Proof. reflexivity. Qed.

(* the function body around a given loop statement *)
Definition srv_body_with (loop : stmt) : stmt :=
  Eval cbv in match f_body src_fn_ModbusServer_handleTransport with
              | SSeq a (SSeq b (SSeq c (SSeq d (SSeq e (SSeq _ r))))) =>
                  SSeq a (SSeq b (SSeq c (SSeq d (SSeq e (SSeq loop r)))))
              | _ => SSkip
              end.

Lemma srv_body_eq :
  f_body src_fn_ModbusServer_handleTransport = srv_body_with (SFor (EB true) SSkip srv_parts).
Proof. reflexivity. Qed.

Section Loop.
  Variables (fe : fenv) (fuel : nat) (W : world_fns) (started tt : val) (ca cr : N).
  Hypothesis HW : world_hyp fe W.
  Hypothesis Hiter : forall w rest req, List.length rest = 18%nat -> snd (w_read W w) = RdOk req ->
                       srv_iter_spec fe fuel W started tt ca cr w rest req.

  Lemma srv_for_loop : forall n w rest, List.length rest = 18%nat ->
    exists rest', for_go n (fun st => eval ge fe st (EB true)) (fun st => exec ge fe fuel st srv_parts)
                      (fun st => exec ge fe fuel st SSkip)
                      (srv_state started tt ca cr w rest) =
               match srv_loop W ca cr n w with
               | Some w' => OReturn (srv_state started tt ca cr w' rest') None
               | None => OFail GoLite.OutOfFuel
               end.
  Proof.
    induction n as [|n IH]; intros w rest Hlen.
    - exists rest. reflexivity.
    - cbn [srv_loop].
      destruct (w_read W w) as [w1 r] eqn:Er.
      destruct r as [req|c].
      + assert (Hrd : snd (w_read W w) = RdOk req) by (rewrite Er; reflexivity).
        destruct (Hiter w rest req Hlen Hrd) as (rest1 & Hlen1 & He).
        rewrite Er in He. cbn [fst] in He.
        destruct (srv_request W ca cr w1 req) as [w2 go_on].
        destruct go_on.
        * rewrite (for_go_step n _ _ _ _ _ _ eq_refl He eq_refl).
          apply IH. exact Hlen1.
        * rewrite (for_go_body_return n _ _ _ _ _ _ eq_refl He).
          exists rest1. reflexivity.
      + assert (Hrd : snd (w_read W w) = RdErr c) by (rewrite Er; reflexivity).
        destruct (srv_iter_end fe fuel W started tt ca cr w rest c HW Hlen Hrd) as (rest1 & Hlen1 & He).
        rewrite Er in He. cbn [fst] in He.
        rewrite (for_go_body_return n _ _ _ _ _ _ eq_refl He).
        exists rest1. reflexivity.
  Qed.

  Theorem run_handleTransport : forall w,
    run_fn ge fe fuel src_fn_ModbusServer_handleTransport [started; tt; VN ca; VN cr; w] =
    match srv_loop W ca cr fuel w with
    | Some w' => GOk [started; tt; w']
    | None => GoLite.OutOfFuel
    end.
  Proof.
    intros w. unfold run_fn. rewrite srv_body_eq.
    unfold src_fn_ModbusServer_handleTransport. cbn [f_nparams f_zeros f_outs f_results].
    remember (SFor (EB true) SSkip srv_parts) as loop eqn:Eloop.
    unfold srv_body_with.
    gl_step.
    subst loop. rewrite exec_for.
    match goal with
    | |- context [for_go fuel _ _ _ (_ :: _ :: _ :: _ :: _ :: ?rest0)] =>
        destruct (srv_for_loop fuel w rest0 eq_refl) as [rest' Hloop]
    end.
    unfold srv_state in Hloop. rewrite Hloop. clear Hloop.
    destruct (srv_loop W ca cr fuel w) as [w'|]; gl_step; reflexivity.
  Qed.
End Loop.
