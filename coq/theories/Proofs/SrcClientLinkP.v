(* client.go inside the linked program [src_pure]: every translated method of
   *ModbusClient, called through [call_with src_pure base], with the callee
   hypotheses of Proofs/SrcClient{,Read,Write,Typed}P.v discharged by the
   lemmas about the linked callees. The transport is an oracle [T] of the base
   environment. Last part: with the model's transport (Model/Client.v) as that
   oracle, a call returns what the model's client_call returns. *)
From Coq Require Import List NArith String Lia Bool.
From Coq Require Import ZifyBool ZifyNat ZifyN.
Import ListNotations.
From Modbus Require Import Base.Bytes Model.GoLite Gen.SrcPure Model.Crc Model.Encoding.
From Modbus Require Import Model.Wire Model.Client.
From Modbus Require Import Proofs.FramingP.
From Modbus Require Import Proofs.GoLiteP Proofs.GoLiteLinkP Proofs.SrcCrcP Proofs.SrcLinkP Proofs.SrcMiscP Proofs.SrcClientP.
From Modbus Require Import Proofs.SrcClientReadP Proofs.SrcClientWriteP Proofs.SrcClientTypedP.
Open Scope string_scope.
Open Scope N_scope.

Definition transport_hyp (base : fenv) (T : pdu -> treply) : Prop :=
  forall req, base "transport.ExecuteRequest" [VN (p_unit req); VN (p_fc req); vbytes (p_payload req)] = GOk (enc_reply (T req))
              /\ treply_wf (T req).
Definition xchg (T : pdu -> treply) : pdu -> treply := fun req => exec_spec req (T req).

Lemma xchg_wf base T : transport_hyp base T -> forall req, treply_wf (xchg T req).
Proof. intros H req. apply exec_spec_wf. apply (H req). Qed.

Lemma src_executeRequest_ok base fuel T cfg tt req : transport_hyp base T ->
  call_with src_pure base fuel "ModbusClient.executeRequest"
    (mc_fields cfg tt ++ [VN (p_unit req); VN (p_fc req); vbytes (p_payload req)])%list
  = GOk (mc_fields cfg tt ++ enc_reply (xchg T req))%list.
Proof.
  intros HT. destruct (HT req) as [Ho Hwf].
  link_step "ModbusClient.executeRequest" src_fn_ModbusClient_executeRequest.
  apply run_executeRequest; [|exact Hwf].
  rewrite (env_base src_pure base "ModbusClient.executeRequest" "transport.ExecuteRequest" eq_refl).
  exact Ho.
Qed.

(* ---------------------------------------------------------------- callee hypotheses in the linked program *)

(* [caller] is the (concrete) name of the function whose environment the goal
   is about; [HT] the transport hypothesis. The goals with a side condition
   find it among the hypotheses. *)

(* [callee] of Proofs/SrcCrcP.v checks [prefix_before callee (prefix_before
   caller fns) = prefix_before callee fns] by conversion, which takes time
   exponential in the position of the caller; the client methods come late in
   the program, so that condition (and two others) is derived here once and for
   all from the lookup of the callee in the caller's prefix. *)

Ltac hyp_exec caller HT :=
  let cfg' := fresh "cfg'" in let tt' := fresh "tt'" in let req' := fresh "req'" in
  intros cfg' tt' req'; split;
  [ callee caller "ModbusClient.executeRequest" src_fn_ModbusClient_executeRequest;
    apply src_executeRequest_ok; exact HT
  | exact (xchg_wf _ _ HT req') ].

Ltac hyp_u16tb caller :=
  let e' := fresh "e'" in let v' := fresh "v'" in
  intros e' v'; callee caller "uint16ToBytes" src_fn_uint16ToBytes; apply src_uint16ToBytes_ok.

Ltac hyp_b2u16 caller :=
  let e' := fresh "e'" in let l' := fresh "l'" in
  intros e' l'; callee caller "bytesToUint16" src_fn_bytesToUint16; apply src_bytesToUint16_ok.

Ltac hyp_excmap caller :=
  let c' := fresh "c'" in let Hc' := fresh "Hc'" in
  intros c' Hc'; callee caller "mapExceptionCodeToError" src_fn_mapExceptionCodeToError;
  apply src_mapExceptionCodeToError_ok; exact Hc'.

(* ---------------------------------------------------------------- setters *)

Lemma src_SetUnitId_ok base fuel cfg tt id :
  call_with src_pure base fuel "ModbusClient.SetUnitId" (mc_fields cfg tt ++ [VN id])%list =
  GOk [VN (endian_sel (c_endian cfg)); VN (word_sel (c_word cfg)); VN id; VN tt; VN 0].
Proof. link_step "ModbusClient.SetUnitId" src_fn_ModbusClient_SetUnitId. apply run_SetUnitId. Qed.

Lemma src_SetEncoding_ok base fuel cfg tt e w :
  call_with src_pure base fuel "ModbusClient.SetEncoding" (mc_fields cfg tt ++ [VN e; VN w])%list =
  if andb (orb (e =? 1) (e =? 2)) (orb (w =? 1) (w =? 2))
  then GOk [VN e; VN w; VN (c_unit cfg); VN tt; VN 0]
  else GOk (mc_fields cfg tt ++ [VN (err_code EParams)])%list.
Proof. link_step "ModbusClient.SetEncoding" src_fn_ModbusClient_SetEncoding. apply run_SetEncoding. Qed.

Lemma src_encoding_ok base fuel cfg tt :
  call_with src_pure base fuel "ModbusClient.encoding" (mc_fields cfg tt) =
  GOk (mc_fields cfg tt ++ [VN (endian_sel (c_endian cfg)); VN (word_sel (c_word cfg))])%list.
Proof. link_step "ModbusClient.encoding" src_fn_ModbusClient_encoding. apply run_encoding. Qed.

Ltac hyp_encoding caller :=
  let cfg' := fresh "cfg'" in let tt' := fresh "tt'" in
  intros cfg' tt'; callee caller "ModbusClient.encoding" src_fn_ModbusClient_encoding; apply src_encoding_ok.

(* ---------------------------------------------------------------- the three workers *)

(* readBools rejects a quantity above 2000 before it calls anything *)
Lemma run_readBools_big fe fuel cfg tt X a q di : 2000 < q ->
  run_fn ge fe fuel src_fn_ModbusClient_readBools (mc_fields cfg tt ++ [VN a; VN q; VB di])%list =
  out_vals (mc_fields cfg tt) (call_out cfg (OpReadBools di a q) X).
Proof.
  intros Hq. unfold call_out, client_request, req_read_bools.
  unfold run_fn, src_fn_ModbusClient_readBools, mc_fields.
  gl_auto.
  replace (q =? 0) with false by lia. gl_auto.
  replace (2000 <? q) with true by lia. gl_auto. reflexivity.
Qed.

Lemma src_readBools_ok base fuel T cfg tt a q di :
  transport_hyp base T -> a < 65536 -> q < 65536 -> (2000 < fuel)%nat ->
  call_with src_pure base fuel "ModbusClient.readBools" (mc_fields cfg tt ++ [VN a; VN q; VB di])%list =
  out_vals (mc_fields cfg tt) (call_out cfg (OpReadBools di a q) (xchg T)).
Proof.
  intros HT Ha Hq Hfuel.
  link_step "ModbusClient.readBools" src_fn_ModbusClient_readBools.
  destruct (2000 <? q) eqn:Eq.
  - apply run_readBools_big. lia.
  - apply run_readBools_at; try assumption.
    + hyp_exec "ModbusClient.readBools" HT.
    + hyp_u16tb "ModbusClient.readBools".
    + hyp_excmap "ModbusClient.readBools".
    + intros bs Hbs. callee "ModbusClient.readBools" "decodeBools" src_fn_decodeBools.
      apply src_decodeBools_ok; [exact Hq|lia|exact Hbs].
Qed.

Lemma src_readRegisters_ok base fuel T cfg tt a q rtn rt :
  transport_hyp base T -> a < 65536 -> q < 65536 -> regtype_sel rt rtn ->
  call_with src_pure base fuel "ModbusClient.readRegisters" (mc_fields cfg tt ++ [VN a; VN q; VN rtn])%list =
  out_vals (mc_fields cfg tt) (rr_out cfg a q rt (xchg T)).
Proof.
  intros HT Ha Hq Hrt.
  link_step "ModbusClient.readRegisters" src_fn_ModbusClient_readRegisters.
  apply run_readRegisters; [| | |exact Ha|exact Hq|exact Hrt].
  - hyp_exec "ModbusClient.readRegisters" HT.
  - hyp_u16tb "ModbusClient.readRegisters".
  - hyp_excmap "ModbusClient.readRegisters".
Qed.

Lemma src_writeRegisters_ok base fuel T cfg tt a bytes :
  transport_hyp base T -> a < 65536 -> bytesb bytes = true -> N.of_nat (List.length bytes) < 2 ^ 62 ->
  call_with src_pure base fuel "ModbusClient.writeRegisters" (mc_fields cfg tt ++ [VN a; vbytes bytes])%list =
  out_err (mc_fields cfg tt) (wr_out cfg a bytes (xchg T)).
Proof.
  intros HT Ha Hb Hlen.
  link_step "ModbusClient.writeRegisters" src_fn_ModbusClient_writeRegisters.
  apply run_writeRegisters; [| | | |exact Ha|exact Hb|exact Hlen].
  - hyp_exec "ModbusClient.writeRegisters" HT.
  - hyp_u16tb "ModbusClient.writeRegisters".
  - hyp_b2u16 "ModbusClient.writeRegisters".
  - hyp_excmap "ModbusClient.writeRegisters".
Qed.

(* the workers as callees *)
Ltac hyp_rbools caller HT :=
  let cfg' := fresh "cfg'" in let tt' := fresh "tt'" in let a' := fresh "a'" in
  let q' := fresh "q'" in let di' := fresh "di'" in let Ha' := fresh "Ha'" in let Hq' := fresh "Hq'" in
  intros cfg' tt' a' q' di' Ha' Hq';
  callee caller "ModbusClient.readBools" src_fn_ModbusClient_readBools;
  apply src_readBools_ok; assumption.

Ltac hyp_rregs caller HT :=
  let cfg' := fresh "cfg'" in let tt' := fresh "tt'" in let a' := fresh "a'" in
  let q' := fresh "q'" in let rtn' := fresh "rtn'" in let rt' := fresh "rt'" in
  let Ha' := fresh "Ha'" in let Hq' := fresh "Hq'" in let Hrt' := fresh "Hrt'" in
  intros cfg' tt' a' q' rtn' rt' Ha' Hq' Hrt';
  callee caller "ModbusClient.readRegisters" src_fn_ModbusClient_readRegisters;
  apply src_readRegisters_ok; assumption.

Ltac hyp_wregs caller HT :=
  let cfg' := fresh "cfg'" in let tt' := fresh "tt'" in let a' := fresh "a'" in
  let b' := fresh "b'" in
  let Ha' := fresh "Ha'" in let Hb' := fresh "Hb'" in let Hl' := fresh "Hl'" in
  intros cfg' tt' a' b' Ha' Hb' Hl';
  callee caller "ModbusClient.writeRegisters" src_fn_ModbusClient_writeRegisters;
  apply src_writeRegisters_ok; assumption.

(* ---------------------------------------------------------------- the bit readers *)

Lemma src_ReadCoils_ok base fuel T cfg tt a q :
  transport_hyp base T -> a < 65536 -> q < 65536 -> (2000 < fuel)%nat ->
  call_with src_pure base fuel "ModbusClient.ReadCoils" (mc_fields cfg tt ++ [VN a; VN q])%list =
  out_vals (mc_fields cfg tt) (call_out cfg (OpReadBools false a q) (xchg T)).
Proof.
  intros HT Ha Hq Hfuel.
  link_step "ModbusClient.ReadCoils" src_fn_ModbusClient_ReadCoils.
  apply run_ReadCoils; [|exact Ha|exact Hq].
  hyp_rbools "ModbusClient.ReadCoils" HT.
Qed.

Lemma src_ReadCoil_ok base fuel T cfg tt a :
  transport_hyp base T -> a < 65536 -> (2000 < fuel)%nat ->
  call_with src_pure base fuel "ModbusClient.ReadCoil" (mc_fields cfg tt ++ [VN a])%list =
  out_one (mc_fields cfg tt) (VB false) (call_out cfg (OpReadBools false a 1) (xchg T)).
Proof.
  intros HT Ha Hfuel.
  link_step "ModbusClient.ReadCoil" src_fn_ModbusClient_ReadCoil.
  apply run_ReadCoil; [|exact (xchg_wf _ _ HT)|exact Ha].
  hyp_rbools "ModbusClient.ReadCoil" HT.
Qed.

Lemma src_ReadDiscreteInputs_ok base fuel T cfg tt a q :
  transport_hyp base T -> a < 65536 -> q < 65536 -> (2000 < fuel)%nat ->
  call_with src_pure base fuel "ModbusClient.ReadDiscreteInputs" (mc_fields cfg tt ++ [VN a; VN q])%list =
  out_vals (mc_fields cfg tt) (call_out cfg (OpReadBools true a q) (xchg T)).
Proof.
  intros HT Ha Hq Hfuel.
  link_step "ModbusClient.ReadDiscreteInputs" src_fn_ModbusClient_ReadDiscreteInputs.
  apply run_ReadDiscreteInputs; [|exact Ha|exact Hq].
  hyp_rbools "ModbusClient.ReadDiscreteInputs" HT.
Qed.

Lemma src_ReadDiscreteInput_ok base fuel T cfg tt a :
  transport_hyp base T -> a < 65536 -> (2000 < fuel)%nat ->
  call_with src_pure base fuel "ModbusClient.ReadDiscreteInput" (mc_fields cfg tt ++ [VN a])%list =
  out_one (mc_fields cfg tt) (VB false) (call_out cfg (OpReadBools true a 1) (xchg T)).
Proof.
  intros HT Ha Hfuel.
  link_step "ModbusClient.ReadDiscreteInput" src_fn_ModbusClient_ReadDiscreteInput.
  apply run_ReadDiscreteInput; [|exact (xchg_wf _ _ HT)|exact Ha].
  hyp_rbools "ModbusClient.ReadDiscreteInput" HT.
Qed.

(* ---------------------------------------------------------------- the typed register readers *)

Ltac hyp_regcount caller :=
  let q' := fresh "q'" in let w' := fresh "w'" in let Hq' := fresh "Hq'" in let Hw' := fresh "Hw'" in
  intros q' w' Hq' Hw'; callee caller "registerCount" src_fn_registerCount;
  apply src_registerCount_ok; assumption.

Ltac hyp_dec16 caller :=
  let e' := fresh "e'" in let l' := fresh "l'" in let H1' := fresh "H1'" in let H2' := fresh "H2'" in
  intros e' l' H1' H2'; callee caller "bytesToUint16s" src_fn_bytesToUint16s;
  apply src_bytesToUint16s_ok; assumption.

(* [name], [g], [ok]: the decoder, its tree and its lemma *)
Ltac hyp_decw caller name g ok :=
  let e' := fresh "e'" in let w' := fresh "w'" in let l' := fresh "l'" in
  let H1' := fresh "H1'" in let H2' := fresh "H2'" in
  intros e' w' l' H1' H2'; callee caller name g; apply ok; assumption.

(* a slice reader as the callee of its one-value reader *)
Ltac hyp_typed caller name g ok :=
  let cfg' := fresh "cfg'" in let tt' := fresh "tt'" in let a' := fresh "a'" in
  let q' := fresh "q'" in let rtn' := fresh "rtn'" in let rt' := fresh "rt'" in
  let Ha' := fresh "Ha'" in let Hq' := fresh "Hq'" in let Hrt' := fresh "Hrt'" in
  intros cfg' tt' a' q' rtn' rt' Ha' Hq' Hrt'; callee caller name g; apply ok; assumption.

Lemma src_ReadRegisters_ok base fuel T cfg tt a q rtn rt :
  transport_hyp base T -> a < 65536 -> q < 65536 -> regtype_sel rt rtn -> (300 < fuel)%nat ->
  call_with src_pure base fuel "ModbusClient.ReadRegisters" (mc_fields cfg tt ++ [VN a; VN q; VN rtn])%list =
  out_vals (mc_fields cfg tt) (call_out cfg (OpReadRegs 1 a q rt) (xchg T)).
Proof.
  intros HT Ha Hq Hrt Hfuel.
  link_step "ModbusClient.ReadRegisters" src_fn_ModbusClient_ReadRegisters.
  apply run_ReadRegisters; [| | |exact Ha|exact Hq|exact Hrt|exact Hfuel].
  - hyp_rregs "ModbusClient.ReadRegisters" HT.
  - hyp_encoding "ModbusClient.ReadRegisters".
  - hyp_dec16 "ModbusClient.ReadRegisters".
Qed.

Lemma src_ReadRegister_ok base fuel T cfg tt a rtn rt :
  transport_hyp base T -> a < 65536 -> regtype_sel rt rtn -> (300 < fuel)%nat ->
  call_with src_pure base fuel "ModbusClient.ReadRegister" (mc_fields cfg tt ++ [VN a; VN rtn])%list =
  out_one (mc_fields cfg tt) (VN 0) (call_out cfg (OpReadRegs 1 a 1 rt) (xchg T)).
Proof.
  intros HT Ha Hrt Hfuel.
  link_step "ModbusClient.ReadRegister" src_fn_ModbusClient_ReadRegister.
  apply run_ReadRegister; [|exact (xchg_wf _ _ HT)|exact Ha|exact Hrt].
  hyp_typed "ModbusClient.ReadRegister" "ModbusClient.ReadRegisters" src_fn_ModbusClient_ReadRegisters
            src_ReadRegisters_ok.
Qed.

Lemma src_ReadUint32s_ok base fuel T cfg tt a q rtn rt :
  transport_hyp base T -> a < 65536 -> q < 65536 -> regtype_sel rt rtn -> (300 < fuel)%nat ->
  call_with src_pure base fuel "ModbusClient.ReadUint32s" (mc_fields cfg tt ++ [VN a; VN q; VN rtn])%list =
  out_vals (mc_fields cfg tt) (call_out cfg (OpReadRegs 2 a q rt) (xchg T)).
Proof.
  intros HT Ha Hq Hrt Hfuel.
  link_step "ModbusClient.ReadUint32s" src_fn_ModbusClient_ReadUint32s.
  apply run_ReadUint32s; [| | | |exact Ha|exact Hq|exact Hrt|exact Hfuel].
  - hyp_rregs "ModbusClient.ReadUint32s" HT.
  - hyp_encoding "ModbusClient.ReadUint32s".
  - hyp_regcount "ModbusClient.ReadUint32s".
  - hyp_decw "ModbusClient.ReadUint32s" "bytesToUint32s" src_fn_bytesToUint32s src_bytesToUint32s_ok.
Qed.

Lemma src_ReadUint32_ok base fuel T cfg tt a rtn rt :
  transport_hyp base T -> a < 65536 -> regtype_sel rt rtn -> (300 < fuel)%nat ->
  call_with src_pure base fuel "ModbusClient.ReadUint32" (mc_fields cfg tt ++ [VN a; VN rtn])%list =
  out_one (mc_fields cfg tt) (VN 0) (call_out cfg (OpReadRegs 2 a 1 rt) (xchg T)).
Proof.
  intros HT Ha Hrt Hfuel.
  link_step "ModbusClient.ReadUint32" src_fn_ModbusClient_ReadUint32.
  apply run_ReadUint32; [|exact (xchg_wf _ _ HT)|exact Ha|exact Hrt].
  hyp_typed "ModbusClient.ReadUint32" "ModbusClient.ReadUint32s" src_fn_ModbusClient_ReadUint32s
            src_ReadUint32s_ok.
Qed.

Lemma src_ReadFloat32s_ok base fuel T cfg tt a q rtn rt :
  transport_hyp base T -> a < 65536 -> q < 65536 -> regtype_sel rt rtn -> (300 < fuel)%nat ->
  call_with src_pure base fuel "ModbusClient.ReadFloat32s" (mc_fields cfg tt ++ [VN a; VN q; VN rtn])%list =
  out_vals (mc_fields cfg tt) (call_out cfg (OpReadRegs 2 a q rt) (xchg T)).
Proof.
  intros HT Ha Hq Hrt Hfuel.
  link_step "ModbusClient.ReadFloat32s" src_fn_ModbusClient_ReadFloat32s.
  apply run_ReadFloat32s; [| | | |exact Ha|exact Hq|exact Hrt|exact Hfuel].
  - hyp_rregs "ModbusClient.ReadFloat32s" HT.
  - hyp_encoding "ModbusClient.ReadFloat32s".
  - hyp_regcount "ModbusClient.ReadFloat32s".
  - hyp_decw "ModbusClient.ReadFloat32s" "bytesToFloat32s" src_fn_bytesToFloat32s src_bytesToFloat32s_ok.
Qed.

Lemma src_ReadFloat32_ok base fuel T cfg tt a rtn rt :
  transport_hyp base T -> a < 65536 -> regtype_sel rt rtn -> (300 < fuel)%nat ->
  call_with src_pure base fuel "ModbusClient.ReadFloat32" (mc_fields cfg tt ++ [VN a; VN rtn])%list =
  out_one (mc_fields cfg tt) (VN 0) (call_out cfg (OpReadRegs 2 a 1 rt) (xchg T)).
Proof.
  intros HT Ha Hrt Hfuel.
  link_step "ModbusClient.ReadFloat32" src_fn_ModbusClient_ReadFloat32.
  apply run_ReadFloat32; [|exact (xchg_wf _ _ HT)|exact Ha|exact Hrt].
  hyp_typed "ModbusClient.ReadFloat32" "ModbusClient.ReadFloat32s" src_fn_ModbusClient_ReadFloat32s
            src_ReadFloat32s_ok.
Qed.

Lemma src_ReadUint64s_ok base fuel T cfg tt a q rtn rt :
  transport_hyp base T -> a < 65536 -> q < 65536 -> regtype_sel rt rtn -> (300 < fuel)%nat ->
  call_with src_pure base fuel "ModbusClient.ReadUint64s" (mc_fields cfg tt ++ [VN a; VN q; VN rtn])%list =
  out_vals (mc_fields cfg tt) (call_out cfg (OpReadRegs 4 a q rt) (xchg T)).
Proof.
  intros HT Ha Hq Hrt Hfuel.
  link_step "ModbusClient.ReadUint64s" src_fn_ModbusClient_ReadUint64s.
  apply run_ReadUint64s; [| | | |exact Ha|exact Hq|exact Hrt|exact Hfuel].
  - hyp_rregs "ModbusClient.ReadUint64s" HT.
  - hyp_encoding "ModbusClient.ReadUint64s".
  - hyp_regcount "ModbusClient.ReadUint64s".
  - hyp_decw "ModbusClient.ReadUint64s" "bytesToUint64s" src_fn_bytesToUint64s src_bytesToUint64s_ok.
Qed.

Lemma src_ReadUint64_ok base fuel T cfg tt a rtn rt :
  transport_hyp base T -> a < 65536 -> regtype_sel rt rtn -> (300 < fuel)%nat ->
  call_with src_pure base fuel "ModbusClient.ReadUint64" (mc_fields cfg tt ++ [VN a; VN rtn])%list =
  out_one (mc_fields cfg tt) (VN 0) (call_out cfg (OpReadRegs 4 a 1 rt) (xchg T)).
Proof.
  intros HT Ha Hrt Hfuel.
  link_step "ModbusClient.ReadUint64" src_fn_ModbusClient_ReadUint64.
  apply run_ReadUint64; [|exact (xchg_wf _ _ HT)|exact Ha|exact Hrt].
  hyp_typed "ModbusClient.ReadUint64" "ModbusClient.ReadUint64s" src_fn_ModbusClient_ReadUint64s
            src_ReadUint64s_ok.
Qed.

Lemma src_ReadFloat64s_ok base fuel T cfg tt a q rtn rt :
  transport_hyp base T -> a < 65536 -> q < 65536 -> regtype_sel rt rtn -> (300 < fuel)%nat ->
  call_with src_pure base fuel "ModbusClient.ReadFloat64s" (mc_fields cfg tt ++ [VN a; VN q; VN rtn])%list =
  out_vals (mc_fields cfg tt) (call_out cfg (OpReadRegs 4 a q rt) (xchg T)).
Proof.
  intros HT Ha Hq Hrt Hfuel.
  link_step "ModbusClient.ReadFloat64s" src_fn_ModbusClient_ReadFloat64s.
  apply run_ReadFloat64s; [| | | |exact Ha|exact Hq|exact Hrt|exact Hfuel].
  - hyp_rregs "ModbusClient.ReadFloat64s" HT.
  - hyp_encoding "ModbusClient.ReadFloat64s".
  - hyp_regcount "ModbusClient.ReadFloat64s".
  - hyp_decw "ModbusClient.ReadFloat64s" "bytesToFloat64s" src_fn_bytesToFloat64s src_bytesToFloat64s_ok.
Qed.

Lemma src_ReadFloat64_ok base fuel T cfg tt a rtn rt :
  transport_hyp base T -> a < 65536 -> regtype_sel rt rtn -> (300 < fuel)%nat ->
  call_with src_pure base fuel "ModbusClient.ReadFloat64" (mc_fields cfg tt ++ [VN a; VN rtn])%list =
  out_one (mc_fields cfg tt) (VN 0) (call_out cfg (OpReadRegs 4 a 1 rt) (xchg T)).
Proof.
  intros HT Ha Hrt Hfuel.
  link_step "ModbusClient.ReadFloat64" src_fn_ModbusClient_ReadFloat64.
  apply run_ReadFloat64; [|exact (xchg_wf _ _ HT)|exact Ha|exact Hrt].
  hyp_typed "ModbusClient.ReadFloat64" "ModbusClient.ReadFloat64s" src_fn_ModbusClient_ReadFloat64s
            src_ReadFloat64s_ok.
Qed.

(* ---------------------------------------------------------------- the writers *)

Lemma src_WriteCoil_ok base fuel T cfg tt a v : transport_hyp base T -> a < 65536 ->
  call_with src_pure base fuel "ModbusClient.WriteCoil" (mc_fields cfg tt ++ [VN a; VB v])%list =
  out_err (mc_fields cfg tt) (call_out cfg (OpWriteCoil a v) (xchg T)).
Proof.
  intros HT Ha.
  link_step "ModbusClient.WriteCoil" src_fn_ModbusClient_WriteCoil.
  apply run_WriteCoil; [| | | |exact Ha].
  - hyp_exec "ModbusClient.WriteCoil" HT.
  - hyp_u16tb "ModbusClient.WriteCoil".
  - hyp_b2u16 "ModbusClient.WriteCoil".
  - hyp_excmap "ModbusClient.WriteCoil".
Qed.

Lemma src_WriteRegister_ok base fuel T cfg tt a v : transport_hyp base T -> a < 65536 -> v < 65536 ->
  call_with src_pure base fuel "ModbusClient.WriteRegister" (mc_fields cfg tt ++ [VN a; VN v])%list =
  out_err (mc_fields cfg tt) (call_out cfg (OpWriteReg a v) (xchg T)).
Proof.
  intros HT Ha Hv.
  link_step "ModbusClient.WriteRegister" src_fn_ModbusClient_WriteRegister.
  apply run_WriteRegister; [| | | |exact Ha|exact Hv].
  - hyp_exec "ModbusClient.WriteRegister" HT.
  - hyp_u16tb "ModbusClient.WriteRegister".
  - hyp_b2u16 "ModbusClient.WriteRegister".
  - hyp_excmap "ModbusClient.WriteRegister".
Qed.

(* run_WriteCoils of Proofs/SrcClientWriteP.v asks for encodeBools on every
   list; the linked encodeBools runs a fuelled loop, so here it is asked only
   for the list of the call, which has passed the 1968 test when it is encoded *)
Lemma run_WriteCoils_at fe fuel cfg tt X a vs :
  exec_hyp fe X -> u16tb_hyp fe -> b2u16_hyp fe -> excmap_hyp fe ->
  ((List.length vs <= 1968)%nat -> fe "encodeBools" [vbools vs] = GOk [vbytes (encode_bools vs)]) ->
  a < 65536 ->
  run_fn ge fe fuel src_fn_ModbusClient_WriteCoils (mc_fields cfg tt ++ [VN a; vbools vs])%list =
  out_err (mc_fields cfg tt) (call_out cfg (OpWriteCoils a vs) X).
Proof.
  intros Hx Hu Hb He Henc Ha.
  pose proof (Hu BigE) as Hu1. pose proof (Hb BigE) as Hb1. cbn [endian_sel] in Hu1, Hb1.
  unfold call_out. cbn [client_request client_validate]. cbv zeta.
  unfold run_fn, src_fn_ModbusClient_WriteCoils, mc_fields.
  gl_auto. unfold vbools at 1. gl_auto.
  rewrite !map_length. change (N.of_nat (Datatypes.length vs)) with (lenN vs).
  destruct (1968 <? lenN vs) eqn:E1; gl_auto; [reflexivity|].
  unfold vbools at 1. gl_auto.
  rewrite !map_length. change (N.of_nat (Datatypes.length vs)) with (lenN vs).
  change (2 ^ 16) with 65536. change (lenN vs mod 65536) with (u16 (lenN vs)).
  set (q := u16 (lenN vs)).
  destruct (q =? 0) eqn:E2; gl_auto; [reflexivity|].
  destruct (1968 <? q) eqn:E3; gl_auto; [reflexivity|].
  change (2 ^ 32) with 4294967296.
  replace ((((a mod 4294967296 + q mod 4294967296) mod 4294967296 + 4294967296 - 1 mod 4294967296)
            mod 4294967296)) with (a + q - 1) by lia.
  destruct (65535 <? a + q - 1) eqn:E4; gl_auto; [reflexivity|].
  rewrite Henc by (unfold lenN in E1; lia). unfold vbytes at 1. gl_auto.
  rewrite Hu1. unfold vbytes at 1. gl_auto.
  rewrite Hu1. unfold vbytes at 1. gl_auto.
  rewrite !map_length. change (N.of_nat (Datatypes.length (encode_bools vs))) with (lenN (encode_bools vs)).
  change (2 ^ 8) with 256. change (lenN (encode_bools vs) mod 256) with (u8 (lenN (encode_bools vs))).
  set (req := mkpdu (c_unit cfg) 15
                (be16 a ++ be16 q ++ u8 (lenN (encode_bools vs)) :: encode_bools vs)).
  pose proof (exec_wf fe X req Hx) as Hwf.
  change (VN 15) with (VN (p_fc req)). change (VN (c_unit cfg)) with (VN (p_unit req)) at 2.
  rewrite (exec_call fe X cfg tt req _ Hx)
    by (cbn [req p_payload]; rewrite !map_app, !be16_u16_to_bytes, <- !app_assoc; reflexivity).
  destruct (X req) as [[ru rf rp]|c rnil ru rf rp];
     cbn [enc_reply treply_wf p_unit p_fc p_payload] in *; [|tail_err].
  unfold vbytes, echo4, exception_or_protocol; cbn [p_fc p_payload req]; gl_auto.
  destruct (rf =? 15); [|tail_exc He Hwf rf rp 15].
  destruct rp as [|p0 [|p1 rp]];
      [cbn [map be16 app list_eqb]; gl_auto; rewrite ?andb_false_r; reflexivity..|].
  apply SrcClientWriteP.bytesb_cons in Hwf as [B0 Hwf]; apply SrcClientWriteP.bytesb_cons in Hwf as [B1 Hwf];
    rewrite echo_eqb by assumption.
  rewrite echo2 by (try assumption; lia).
  destruct rp as [|p2 [|p3 [|p4 t]]]; cbn [map]; gl_auto; rewrite ?andb_false_r; try reflexivity.
  - cbn [firstn skipn]. change (VL [VN p0; VN p1]) with (vbytes [p0; p1]).
    rewrite Hb1. cbn [bytes_to_u16]. gl_auto.
    destruct (p0 * 256 + p1 =? a); gl_auto; [|reflexivity].
    cbn [firstn skipn]. change (VL [VN p2; VN p3]) with (vbytes [p2; p3]).
    rewrite Hb1. cbn [bytes_to_u16]. gl_auto. split_eqbs.
  - len_neq. gl_auto. reflexivity.
Qed.

Lemma src_WriteCoils_ok base fuel T cfg tt a vs :
  transport_hyp base T -> a < 65536 -> (2000 < fuel)%nat ->
  call_with src_pure base fuel "ModbusClient.WriteCoils" (mc_fields cfg tt ++ [VN a; vbools vs])%list =
  out_err (mc_fields cfg tt) (call_out cfg (OpWriteCoils a vs) (xchg T)).
Proof.
  intros HT Ha Hfuel.
  link_step "ModbusClient.WriteCoils" src_fn_ModbusClient_WriteCoils.
  apply run_WriteCoils_at; [| | | | |exact Ha].
  - hyp_exec "ModbusClient.WriteCoils" HT.
  - hyp_u16tb "ModbusClient.WriteCoils".
  - hyp_b2u16 "ModbusClient.WriteCoils".
  - hyp_excmap "ModbusClient.WriteCoils".
  - intros Hlen. callee "ModbusClient.WriteCoils" "encodeBools" src_fn_encodeBools.
    apply src_encodeBools_ok; [|lia].
    apply N.le_lt_trans with 1968; [lia|reflexivity].
Qed.

(* [name], [g], [ok]: one of the encoders uint32ToBytes / float32ToBytes / uint64ToBytes / float64ToBytes *)
Ltac hyp_enc3 caller name g ok :=
  let e' := fresh "e'" in let w' := fresh "w'" in let v' := fresh "v'" in
  intros e' w' v'; callee caller name g; apply ok.

Lemma src_WriteRegisters_ok base fuel T cfg tt a vs :
  transport_hyp base T -> a < 65536 -> N.of_nat (List.length vs) < 2 ^ 59 ->
  call_with src_pure base fuel "ModbusClient.WriteRegisters" (mc_fields cfg tt ++ [VN a; vbytes vs])%list =
  out_err (mc_fields cfg tt) (call_out cfg (OpWriteRegs 1 a vs) (xchg T)).
Proof.
  intros HT Ha Hlen.
  link_step "ModbusClient.WriteRegisters" src_fn_ModbusClient_WriteRegisters.
  apply run_WriteRegisters; [| | |exact Ha|exact Hlen].
  - hyp_wregs "ModbusClient.WriteRegisters" HT.
  - hyp_encoding "ModbusClient.WriteRegisters".
  - hyp_u16tb "ModbusClient.WriteRegisters".
Qed.

Lemma src_WriteUint32s_ok base fuel T cfg tt a vs :
  transport_hyp base T -> a < 65536 -> N.of_nat (List.length vs) < 2 ^ 59 ->
  call_with src_pure base fuel "ModbusClient.WriteUint32s" (mc_fields cfg tt ++ [VN a; vbytes vs])%list =
  out_err (mc_fields cfg tt) (call_out cfg (OpWriteRegs 2 a vs) (xchg T)).
Proof.
  intros HT Ha Hlen.
  link_step "ModbusClient.WriteUint32s" src_fn_ModbusClient_WriteUint32s.
  apply run_WriteUint32s; [| | |exact Ha|exact Hlen].
  - hyp_wregs "ModbusClient.WriteUint32s" HT.
  - hyp_encoding "ModbusClient.WriteUint32s".
  - hyp_enc3 "ModbusClient.WriteUint32s" "uint32ToBytes" src_fn_uint32ToBytes src_uint32ToBytes_ok.
Qed.

Lemma src_WriteUint32_ok base fuel T cfg tt a v :
  transport_hyp base T -> a < 65536 ->
  call_with src_pure base fuel "ModbusClient.WriteUint32" (mc_fields cfg tt ++ [VN a; VN v])%list =
  out_err (mc_fields cfg tt) (call_out cfg (OpWriteRegs 2 a [v]) (xchg T)).
Proof.
  intros HT Ha.
  link_step "ModbusClient.WriteUint32" src_fn_ModbusClient_WriteUint32.
  apply run_WriteUint32; [| | |exact Ha].
  - hyp_wregs "ModbusClient.WriteUint32" HT.
  - hyp_encoding "ModbusClient.WriteUint32".
  - hyp_enc3 "ModbusClient.WriteUint32" "uint32ToBytes" src_fn_uint32ToBytes src_uint32ToBytes_ok.
Qed.

Lemma src_WriteFloat32s_ok base fuel T cfg tt a vs :
  transport_hyp base T -> a < 65536 -> N.of_nat (List.length vs) < 2 ^ 59 ->
  call_with src_pure base fuel "ModbusClient.WriteFloat32s" (mc_fields cfg tt ++ [VN a; vbytes vs])%list =
  out_err (mc_fields cfg tt) (call_out cfg (OpWriteRegs 2 a vs) (xchg T)).
Proof.
  intros HT Ha Hlen.
  link_step "ModbusClient.WriteFloat32s" src_fn_ModbusClient_WriteFloat32s.
  apply run_WriteFloat32s; [| | |exact Ha|exact Hlen].
  - hyp_wregs "ModbusClient.WriteFloat32s" HT.
  - hyp_encoding "ModbusClient.WriteFloat32s".
  - hyp_enc3 "ModbusClient.WriteFloat32s" "float32ToBytes" src_fn_float32ToBytes src_float32ToBytes_ok.
Qed.

Lemma src_WriteFloat32_ok base fuel T cfg tt a v :
  transport_hyp base T -> a < 65536 ->
  call_with src_pure base fuel "ModbusClient.WriteFloat32" (mc_fields cfg tt ++ [VN a; VN v])%list =
  out_err (mc_fields cfg tt) (call_out cfg (OpWriteRegs 2 a [v]) (xchg T)).
Proof.
  intros HT Ha.
  link_step "ModbusClient.WriteFloat32" src_fn_ModbusClient_WriteFloat32.
  apply run_WriteFloat32; [| | |exact Ha].
  - hyp_wregs "ModbusClient.WriteFloat32" HT.
  - hyp_encoding "ModbusClient.WriteFloat32".
  - hyp_enc3 "ModbusClient.WriteFloat32" "float32ToBytes" src_fn_float32ToBytes src_float32ToBytes_ok.
Qed.

Lemma src_WriteUint64s_ok base fuel T cfg tt a vs :
  transport_hyp base T -> a < 65536 -> N.of_nat (List.length vs) < 2 ^ 59 ->
  call_with src_pure base fuel "ModbusClient.WriteUint64s" (mc_fields cfg tt ++ [VN a; vbytes vs])%list =
  out_err (mc_fields cfg tt) (call_out cfg (OpWriteRegs 4 a vs) (xchg T)).
Proof.
  intros HT Ha Hlen.
  link_step "ModbusClient.WriteUint64s" src_fn_ModbusClient_WriteUint64s.
  apply run_WriteUint64s; [| | |exact Ha|exact Hlen].
  - hyp_wregs "ModbusClient.WriteUint64s" HT.
  - hyp_encoding "ModbusClient.WriteUint64s".
  - hyp_enc3 "ModbusClient.WriteUint64s" "uint64ToBytes" src_fn_uint64ToBytes src_uint64ToBytes_ok.
Qed.

Lemma src_WriteUint64_ok base fuel T cfg tt a v :
  transport_hyp base T -> a < 65536 ->
  call_with src_pure base fuel "ModbusClient.WriteUint64" (mc_fields cfg tt ++ [VN a; VN v])%list =
  out_err (mc_fields cfg tt) (call_out cfg (OpWriteRegs 4 a [v]) (xchg T)).
Proof.
  intros HT Ha.
  link_step "ModbusClient.WriteUint64" src_fn_ModbusClient_WriteUint64.
  apply run_WriteUint64; [| | |exact Ha].
  - hyp_wregs "ModbusClient.WriteUint64" HT.
  - hyp_encoding "ModbusClient.WriteUint64".
  - hyp_enc3 "ModbusClient.WriteUint64" "uint64ToBytes" src_fn_uint64ToBytes src_uint64ToBytes_ok.
Qed.

Lemma src_WriteFloat64s_ok base fuel T cfg tt a vs :
  transport_hyp base T -> a < 65536 -> N.of_nat (List.length vs) < 2 ^ 59 ->
  call_with src_pure base fuel "ModbusClient.WriteFloat64s" (mc_fields cfg tt ++ [VN a; vbytes vs])%list =
  out_err (mc_fields cfg tt) (call_out cfg (OpWriteRegs 4 a vs) (xchg T)).
Proof.
  intros HT Ha Hlen.
  link_step "ModbusClient.WriteFloat64s" src_fn_ModbusClient_WriteFloat64s.
  apply run_WriteFloat64s; [| | |exact Ha|exact Hlen].
  - hyp_wregs "ModbusClient.WriteFloat64s" HT.
  - hyp_encoding "ModbusClient.WriteFloat64s".
  - hyp_enc3 "ModbusClient.WriteFloat64s" "float64ToBytes" src_fn_float64ToBytes src_float64ToBytes_ok.
Qed.

Lemma src_WriteFloat64_ok base fuel T cfg tt a v :
  transport_hyp base T -> a < 65536 ->
  call_with src_pure base fuel "ModbusClient.WriteFloat64" (mc_fields cfg tt ++ [VN a; VN v])%list =
  out_err (mc_fields cfg tt) (call_out cfg (OpWriteRegs 4 a [v]) (xchg T)).
Proof.
  intros HT Ha.
  link_step "ModbusClient.WriteFloat64" src_fn_ModbusClient_WriteFloat64.
  apply run_WriteFloat64; [| | |exact Ha].
  - hyp_wregs "ModbusClient.WriteFloat64" HT.
  - hyp_encoding "ModbusClient.WriteFloat64".
  - hyp_enc3 "ModbusClient.WriteFloat64" "float64ToBytes" src_fn_float64ToBytes src_float64ToBytes_ok.
Qed.

(* ---------------------------------------------------------------- the bridge to the model's client_call *)

(* a result of the model's transport as a reply of the Go transport *)
Definition treply_of (r : result pdu) : treply :=
  match r with
  | MOk res => TOk res
  | Err ETimeout => TErr 2 true 0 0 []          (* an i/o timeout, turned into ErrRequestTimedOut by executeRequest *)
  | Err e => TErr (err_code e) true 0 0 []
  | _ => TErr other_error true 0 0 []
  end.

(* no error class of the model has the value of an i/o timeout *)
Lemma err_code_ne2 e : err_code e <> 2.
Proof.
  destruct e as [| | | | | |c|c| |]; try (vm_compute; discriminate).
  unfold err_code, exc_name.
  repeat match goal with |- context [if ?b then _ else _] => destruct b end; vm_compute; discriminate.
Qed.

(* what the callers of executeRequest see of a transport result *)
Definition after_exec (req : pdu) (r : result pdu) : treply :=
  match r with
  | MOk res =>
      match unit_check req res with
      | Some x => TErr (err_code x) false (p_unit res) (p_fc res) (p_payload res)
      | None => TOk res
      end
  | Err x => TErr (err_code x) true 0 0 []
  | _ => TErr other_error true 0 0 []
  end.

Lemma exec_spec_treply_of req r : exec_spec req (treply_of r) = after_exec req r.
Proof.
  destruct r as [res|x| |]; cbn [treply_of exec_spec after_exec]; try reflexivity.
  destruct x; cbn [exec_spec]; try reflexivity;
    match goal with |- context [?c =? 2] =>
      let E := fresh "E" in
      destruct (c =? 2) eqn:E; [apply N.eqb_eq in E; exfalso; revert E; apply err_code_ne2|reflexivity]
    end.
Qed.

(* the response the model's transport reads for a request, and the transport
   oracle made of it *)
Definition transport_result (fr : framing) (txn : N) (req : pdu) (e : send) (s : list N) : result pdu :=
  fst (fst (fst (transport_exchange fr txn req e s))).

Definition model_transport (fr : framing) (txn : N) (e : send) (s : list N) : pdu -> treply :=
  fun req => treply_of (transport_result fr txn req e s).

Definition clean {A} (r : result A) : Prop :=
  match r with MOk _ | Err _ => True | _ => False end.

(* the translated source on top of the model's transport returns what the
   model's client_call returns, as long as the transport does not panic *)
Lemma call_out_client_call_clean fr cfg txn o e s :
  (forall req, client_request cfg o = MOk req -> clean (transport_result fr txn req e s)) ->
  call_out cfg o (xchg (model_transport fr txn e s)) = sout_of (cr_res (client_call fr cfg txn o e s)).
Proof.
  intros Hc. unfold call_out, client_call.
  destruct (client_request cfg o) as [req|x| |]; try reflexivity.
  specialize (Hc req eq_refl).
  unfold xchg, model_transport. rewrite exec_spec_treply_of.
  unfold transport_result in *.
  destruct (transport_exchange fr txn req e s) as [[[r writes] rest] txn'].
  cbn [fst] in *.
  destruct r as [res|x| |]; cbn [after_exec clean] in *; try contradiction; try reflexivity.
  destruct (unit_check req res); reflexivity.
Qed.

Lemma transport_result_eq fr txn req e s :
  transport_result fr txn req e s =
  match fr with
  | FMbap => fst (mbap_read_response (S (List.length s)) e (u16 (txn + 1)) s)
  | FRtu => fst (rtu_read_response e s)
  end.
Proof.
  unfold transport_result, transport_exchange. destruct fr; cbv zeta.
  - destruct (mbap_read_response _ e _ s) as [r rest]. reflexivity.
  - destruct (rtu_read_response e s) as [r rest]. reflexivity.
Qed.

(* the model's transports do not panic and do not run out of fuel (Proofs/FramingP.v) *)
Lemma transport_result_clean fr txn req e s : clean (transport_result fr txn req e s).
Proof.
  rewrite transport_result_eq. destruct fr.
  - pose proof (mbap_no_panic (S (List.length s)) e (u16 (txn + 1)) s) as H1.
    pose proof (mbap_no_oof (S (List.length s)) e (u16 (txn + 1)) s (Nat.lt_succ_diag_r _)) as H2.
    destruct (fst (mbap_read_response _ e _ s)); cbn [clean]; try exact I; congruence.
  - destruct (rtu_response_no_panic e s) as [H1 H2].
    destruct (fst (rtu_read_response e s)); cbn [clean]; try exact I; congruence.
Qed.

Theorem call_out_client_call fr cfg txn o e s :
  call_out cfg o (xchg (model_transport fr txn e s)) = sout_of (cr_res (client_call fr cfg txn o e s)).
Proof. apply call_out_client_call_clean. intros req _. apply transport_result_clean. Qed.

(* ---------------------------------------------------------------- the model's transport is a well-formed oracle *)

(* the transports report i/o and framing errors, never an exception reply's error *)
Definition not_exc (x : err) : Prop := match x with EExc _ => False | _ => True end.

Lemma err_code_nz x : not_exc x -> err_code x <> 0.
Proof. destruct x; cbn [not_exc]; intros H; try contradiction; vm_compute; discriminate. Qed.

Lemma short_err_not_exc e : not_exc (short_err e).
Proof. destruct e; exact I. Qed.

Ltac split_matches :=
  repeat match goal with
         | |- context [match ?x with _ => _ end] => destruct x
         end.

Lemma read_mbap_err e s x s' : read_mbap e s = (FErr x, s') -> not_exc x.
Proof.
  unfold read_mbap. cbv zeta. split_matches; intros H; inversion H; subst;
    first [exact I|apply short_err_not_exc].
Qed.

Lemma mbap_response_err fuel : forall e txn s x s',
  mbap_read_response fuel e txn s = (Err x, s') -> not_exc x.
Proof.
  induction fuel as [|f IH]; intros e txn s x s'; cbn [mbap_read_response]; [discriminate|].
  destruct (read_mbap e s) as [r s1] eqn:E.
  destruct r as [p t|y].
  - destruct (t =? txn); [discriminate|apply IH].
  - pose proof (read_mbap_err e s y s1 E) as Hy.
    destruct y; try (intros H; inversion H; subst; exact Hy). apply IH.
Qed.

Lemma read_rtu_err e s x s' : read_rtu e s = (Err x, s') -> not_exc x.
Proof.
  unfold read_rtu. cbv zeta. split_matches; intros H; inversion H; subst;
    first [exact I|apply short_err_not_exc].
Qed.

Lemma rtu_response_err e s x s' : rtu_read_response e s = (Err x, s') -> not_exc x.
Proof.
  unfold rtu_read_response. destruct (read_rtu e s) as [r s1] eqn:E.
  destruct r as [p|y| |]; try discriminate.
  pose proof (read_rtu_err e s y s1 E) as Hy.
  destruct y; intros H; inversion H; subst; first [exact I|exact Hy].
Qed.

(* a response read from a stream of bytes carries bytes *)
Lemma mbap_response_bytes fuel e txn s p rest : bytesb s = true ->
  mbap_read_response fuel e txn s = (MOk p, rest) -> bytesb (p_payload p) = true.
Proof.
  intros Hb H. destruct (mbap_response_inv fuel e txn s p rest Hb H) as (frames & _ & Hs & _).
  rewrite Hs in Hb. unfold mbap_frame in Hb.
  apply bytesb_app_iff in Hb as [_ Hb]. apply bytesb_app_iff in Hb as [Hb _].
  do 4 (apply bytesb_app_iff in Hb as [_ Hb]). exact Hb.
Qed.

Lemma rtu_response_bytes e s p rest : bytesb s = true ->
  rtu_read_response e s = (MOk p, rest) -> bytesb (p_payload p) = true.
Proof.
  intros Hb. unfold rtu_read_response. destruct (read_rtu e s) as [r s1] eqn:E.
  destruct r as [q|x| |]; try discriminate.
  - intros H. inversion H; subst q s1.
    destruct (read_rtu_inv e s p rest Hb E) as (b2 & data & _ & _ & _ & Hs).
    rewrite Hs in Hb. unfold rtu_frame in Hb.
    apply bytesb_app_iff in Hb as [Hb _]. apply bytesb_app_iff in Hb as [Hb _].
    apply bytesb_app_iff in Hb as [_ Hb]. exact Hb.
  - destruct x; discriminate.
Qed.

Lemma model_transport_wf fr txn e s req : bytesb s = true -> treply_wf (model_transport fr txn e s req).
Proof.
  intros Hb. unfold model_transport. rewrite transport_result_eq. destruct fr.
  - destruct (mbap_read_response (S (List.length s)) e (u16 (txn + 1)) s) as [r rest] eqn:E. cbn [fst].
    destruct r as [res|x| |]; cbn [treply_of treply_wf]; try (vm_compute; discriminate).
    + exact (mbap_response_bytes _ _ _ _ _ _ Hb E).
    + pose proof (mbap_response_err _ _ _ _ _ _ E) as Hx.
      destruct x; cbn [treply_wf]; try (apply err_code_nz; exact Hx). discriminate.
  - destruct (rtu_read_response e s) as [r rest] eqn:E. cbn [fst].
    destruct r as [res|x| |]; cbn [treply_of treply_wf]; try (vm_compute; discriminate).
    + exact (rtu_response_bytes _ _ _ _ Hb E).
    + pose proof (rtu_response_err _ _ _ _ E) as Hx.
      destruct x; cbn [treply_wf]; try (apply err_code_nz; exact Hx). discriminate.
Qed.

(* a base environment whose only function is the transport [T] *)
Definition oracle_of (T : pdu -> treply) : fenv :=
  fun name args =>
    if String.eqb name "transport.ExecuteRequest" then
      match args with
      | [VN u; VN f; VL p] =>
          match vals_to_ns p with
          | Some l => GOk (enc_reply (T (mkpdu u f l)))
          | None => GoLite.Stuck
          end
      | _ => GoLite.Stuck
      end
    else GoLite.Stuck.

Lemma vals_to_ns_map l : vals_to_ns (map VN l) = Some l.
Proof. induction l as [|x l IH]; cbn [map vals_to_ns]; [reflexivity|]. rewrite IH. reflexivity. Qed.

Lemma oracle_of_hyp T : (forall req, treply_wf (T req)) -> transport_hyp (oracle_of T) T.
Proof.
  intros H req. split; [|apply H].
  unfold oracle_of. rewrite String.eqb_refl. unfold vbytes. rewrite vals_to_ns_map.
  destruct req; reflexivity.
Qed.

Lemma model_transport_hyp fr txn e s : bytesb s = true ->
  transport_hyp (oracle_of (model_transport fr txn e s)) (model_transport fr txn e s).
Proof. intros Hb. apply oracle_of_hyp. intros req. apply model_transport_wf. exact Hb. Qed.

(* two instances of the composition: the translated method, linked, on top of
   the model's transport, returns what the model's client_call returns *)
Theorem src_WriteCoil_model fr cfg tt txn e s fuel a v : bytesb s = true -> a < 65536 ->
  call_with src_pure (oracle_of (model_transport fr txn e s)) fuel "ModbusClient.WriteCoil"
            (mc_fields cfg tt ++ [VN a; VB v])%list =
  out_err (mc_fields cfg tt) (sout_of (cr_res (client_call fr cfg txn (OpWriteCoil a v) e s))).
Proof.
  intros Hb Ha. rewrite <- call_out_client_call.
  apply src_WriteCoil_ok; [apply model_transport_hyp; exact Hb|exact Ha].
Qed.

Theorem src_ReadRegisters_model fr cfg tt txn e s fuel a q rtn rt :
  bytesb s = true -> a < 65536 -> q < 65536 -> regtype_sel rt rtn -> (300 < fuel)%nat ->
  call_with src_pure (oracle_of (model_transport fr txn e s)) fuel "ModbusClient.ReadRegisters"
            (mc_fields cfg tt ++ [VN a; VN q; VN rtn])%list =
  out_vals (mc_fields cfg tt) (sout_of (cr_res (client_call fr cfg txn (OpReadRegs 1 a q rt) e s))).
Proof.
  intros Hb Ha Hq Hrt Hfuel. rewrite <- call_out_client_call.
  apply src_ReadRegisters_ok; [apply model_transport_hyp; exact Hb|assumption..].
Qed.
