(* Proofs about Model/TlsLocal.v (property C14, the local credential's validity
   period). The handshake oracles are families indexed by the reading of the
   tls.Config clock; what crypto/tls documents is assumed of every member of
   the family, at ITS instant (tls_srv_documented (hs t) verifies t). *)
From Modbus Require Import Base.Bytes Model.Encoding Model.Wire Model.Client Model.Server
  Model.Role Model.Config Model.TlsPolicy Model.TlsLocal
  Spec.ModbusSpec Spec.ServerSpec Spec.ServerSessionSpec Spec.ConfigSpec Spec.TlsSpec
  Proofs.ConfigP Proofs.ServerP Proofs.TlsPolicyP.
From Coq Require Import ZifyBool ZifyNat ZifyN.
Ltac Zify.zify_post_hook ::= Z.div_mod_to_equations.

(* ------------------------------------------------------------ the clock *)

Lemma tls_server_check_time_now now c : tls_server_check_time now c = now.
Proof. reflexivity. Qed.

Lemma tls_client_check_time_now now c : tls_client_check_time now c = now.
Proof. reflexivity. Qed.

(* the configuration the rest of the model sees does not change with the
   validity period of the local key pair *)
Lemma tsl_conf_set_window c w : tsl_conf (tsl_set_window c w) = tsl_conf c.
Proof.
  unfold tsl_conf, tsl_set_window. cbn [tsl_url tsl_timeout tsl_max_clients tsl_own tsl_cas].
  destruct (tsl_own c) as [o|]; reflexivity.
Qed.

Lemma tcl_conf_set_window c w : tcl_conf (tcl_set_window c w) = tcl_conf c.
Proof.
  unfold tcl_conf, tcl_set_window. cbn [tcl_url_l tcl_timeout_l tcl_own tcl_roots_l].
  destruct (tcl_own c) as [o|]; reflexivity.
Qed.

Section TlsLocalProofs.
  Variable hs hc : N -> tls_policy -> tls_peer -> option tls_session.
  Variable verifies : option (list tls_cert) -> tls_usage -> N -> list N -> list tls_cert -> Prop.
  Variable now : N.

  (* ---------------------------------------------------------- server *)

  Section WithRoleHandler.
    Context {St : Type} (h : list N -> handler St).

    (* the whole behaviour of a connection is the same whatever the validity
       period of the server's own certificate: for every oracle family *)
    Lemma tls_server_conn_l_window c w peer st e s :
      tls_server_conn_l hs now h (tsl_set_window c w) peer st e s =
      tls_server_conn_l hs now h c peer st e s.
    Proof.
      unfold tls_server_conn_l. rewrite tsl_conf_set_window, !tls_server_check_time_now. reflexivity.
    Qed.

    (* the policy crypto/tls is given is the same as well *)
    Lemma tls_server_policy_l_window c w :
      tls_policy_of_server (tsl_conf (tsl_set_window c w)) = tls_policy_of_server (tsl_conf c).
    Proof. rewrite tsl_conf_set_window. reflexivity. Qed.

    (* T1 with a local validity period: the peer verified NOW *)
    Lemma tls_server_l_call_authenticated c rest peer st e s r :
      (forall t, tls_srv_documented (hs t) verifies t) ->
      url_scheme (tsl_url c) STcpTls rest ->
      In (EvCall r) (tls_server_conn_l hs now h c peer st e s) ->
      exists cas sess,
        tsl_cas c = Some cas /\
        hs now (tls_policy_of_server (tsl_conf c)) peer = Some sess /\
        spec_client_authenticated verifies now cas peer sess.
    Proof.
      intros Hdoc Hu Hin. unfold tls_server_conn_l in Hin. rewrite tls_server_check_time_now in Hin.
      exact (tls_server_call_authenticated (hs now) verifies now h (tsl_conf c) rest peer st e s r (Hdoc now) Hu Hin).
    Qed.

    (* a chain that does not verify now is refused, whenever else it may verify *)
    Lemma tls_server_l_unverified c rest peer st e s :
      (forall t, tls_srv_documented (hs t) verifies t) ->
      url_scheme (tsl_url c) STcpTls rest ->
      (forall cas, tsl_cas c = Some cas ->
                   ~ verifies (Some cas) TlsUsageClientAuth now [] (tpe_chain peer)) ->
      forall r, ~ In (EvCall r) (tls_server_conn_l hs now h c peer st e s).
    Proof.
      intros Hdoc Hu Hno r Hin.
      destruct (tls_server_l_call_authenticated c rest peer st e s r Hdoc Hu Hin)
        as (cas & sess & Hc & _ & (_ & _ & _ & leaf & more & Hch & _ & Hv)).
      apply (Hno cas Hc). rewrite Hch. exact Hv.
    Qed.

    (* T4 with a local validity period: a peer the handshake accepts now is served *)
    Lemma tls_server_l_serves c rest peer sess st e t p r tail :
      (forall t, tls_srv_documented (hs t) verifies t) ->
      (forall role, handler_wf (h role)) ->
      url_scheme (tsl_url c) STcpTls rest -> rest <> [] ->
      tsl_own c <> None -> tsl_cas c <> None ->
      hs now (tls_policy_of_server (tsl_conf c)) peer = Some sess ->
      t < 65536 -> pdu_wf p -> spec_decode p = Some r -> in_range r = true ->
      exists leaf more,
        tpe_chain peer = leaf :: more /\
        let role := extract_role (tlc_exts leaf) in
        tls_server_conn_l hs now h c peer st e (spec_mbap t p ++ tail) =
        EvCall r :: EvResp (spec_mbap t (spec_response p r (snd (h role st r)))) ::
        server_run (h role) (fst (h role st r)) e tail.
    Proof.
      intros Hdoc Hwf Hu Hr Hown Hcas Hs Ht Hp Hdec Hrange.
      unfold tls_server_conn_l. rewrite tls_server_check_time_now.
      apply (tls_server_serves (hs now) verifies now h (tsl_conf c) rest peer sess st e t p r tail
               (Hdoc now) Hwf Hu Hr); try assumption.
      cbn [tsl_conf tsv_cert]. destruct (tsl_own c); [discriminate | destruct (Hown eq_refl)].
    Qed.
  End WithRoleHandler.

  (* ---------------------------------------------------------- client *)

  Lemma tls_client_tx_l_window c w server cfg txn o e s :
    tls_client_tx_l hc now (tcl_set_window c w) server cfg txn o e s =
    tls_client_tx_l hc now c server cfg txn o e s.
  Proof.
    unfold tls_client_tx_l. rewrite tcl_conf_set_window, !tls_client_check_time_now. reflexivity.
  Qed.

  Lemma tls_client_open_l_window c w eff server :
    tls_client_open_l hc now (tcl_set_window c w) eff server = tls_client_open_l hc now c eff server.
  Proof.
    unfold tls_client_open_l. rewrite tcl_conf_set_window, !tls_client_check_time_now. reflexivity.
  Qed.

  Lemma tls_client_policy_l_window c w :
    tls_policy_of_client (tcl_conf (tcl_set_window c w)) = tls_policy_of_client (tcl_conf c).
  Proof. rewrite tcl_conf_set_window. reflexivity. Qed.

  (* T2 with a local validity period: the server verified NOW *)
  Lemma tls_client_l_tx_authenticated c rest server cfg txn o e s :
    (forall t, tls_cli_documented (hc t) verifies t) ->
    url_scheme (tcl_url_l c) STcpTls rest ->
    tls_client_tx_l hc now c server cfg txn o e s <> [] ->
    exists roots sess,
      tcl_roots_l c = Some roots /\
      hc now (tls_policy_of_client (tcl_conf c)) server = Some sess /\
      spec_server_authenticated verifies now roots (tls_dial_host rest) server sess.
  Proof.
    intros Hdoc Hu Hne. unfold tls_client_tx_l in Hne. rewrite tls_client_check_time_now in Hne.
    exact (tls_client_tx_authenticated (hc now) verifies now (tcl_conf c) rest server cfg txn o e s (Hdoc now) Hu Hne).
  Qed.

  Lemma tls_client_l_unverified c rest server cfg txn o e s :
    (forall t, tls_cli_documented (hc t) verifies t) ->
    url_scheme (tcl_url_l c) STcpTls rest ->
    (forall roots, tcl_roots_l c = Some roots ->
       ~ verifies (Some roots) TlsUsageServerAuth now (tls_dial_host rest) (tpe_chain server)) ->
    tls_client_tx_l hc now c server cfg txn o e s = [].
  Proof.
    intros Hdoc Hu Hno.
    destruct (tls_client_tx_l hc now c server cfg txn o e s) as [|w ws] eqn:E; [reflexivity|].
    destruct (tls_client_l_tx_authenticated c rest server cfg txn o e s Hdoc Hu)
      as (roots & sess & Hr & _ & (_ & _ & _ & leaf & more & Hch & _ & Hv)); [rewrite E; discriminate|].
    exfalso. apply (Hno roots Hr). rewrite Hch. exact Hv.
  Qed.

  Lemma tls_client_l_sends c rest server sess cfg txn o e s req :
    url_scheme (tcl_url_l c) STcpTls rest ->
    tcl_own c <> None -> tcl_roots_l c <> None ->
    hc now (tls_policy_of_client (tcl_conf c)) server = Some sess ->
    client_request cfg o = Ok req ->
    tls_client_tx_l hc now c server cfg txn o e s = [assemble_mbap (u16 (txn + 1)) req].
  Proof.
    intros Hu Hown Hroots Hs Hreq. unfold tls_client_tx_l. rewrite tls_client_check_time_now.
    apply (tls_client_sends (hc now) (tcl_conf c) rest server sess); try assumption.
    cbn [tcl_conf tcl_cert]. destruct (tcl_own c); [discriminate | destruct (Hown eq_refl)].
  Qed.
End TlsLocalProofs.
