(* tcp_transport.go readMBAPFrame as translated from the Go source
   (Gen/SrcPure.v) computes the model's t_read_mbap (Model/Transport.v) on every
   world. *)
From Coq Require Import List NArith String Lia Bool.
From Coq Require Import ZifyBool ZifyNat ZifyN.
Import ListNotations.
From Modbus Require Import Base.Bytes Model.GoLite Gen.SrcPure Model.Crc Model.Encoding.
From Modbus Require Import Model.Wire Model.Transport.
From Modbus Require Import Proofs.GoLiteP Proofs.GoLiteLinkP Proofs.SrcCrcP Proofs.SrcLinkP Proofs.SrcMiscP
  Proofs.SrcClientP Proofs.SrcTransportP.
Open Scope string_scope.
Open Scope N_scope.
Ltac Zify.zify_post_hook ::= Z.div_mod_to_equations.

(* ---------------------------------------------------------------- the splice after io.ReadFull *)

(* rxbuf = rxbuf[0:0] ++ read ++ rxbuf[0+len(read):len(rxbuf)], [k] the slot of what was read *)
Definition splice_e (k : nat) : expr :=
  EAppendSlice (EAppendSlice (ESlice (EVar 9) (EN 0) (EN 0)) (EVar k))
               (ESlice (EVar 9) (EBin OAdd (U 64) (EN 0) (ELen (EVar k))) (ELen (EVar 9))).

Lemma eval_splice fe st k buf got :
  get_slot st 9 = GOk (VL buf) -> get_slot st k = GOk (VL got) ->
  (List.length got <= List.length buf)%nat -> N.of_nat (List.length buf) < 2 ^ 64 ->
  eval ge fe st (splice_e k) = GOk (VL (got ++ skipn (List.length got) buf)).
Proof.
  intros H9 Hk Hle Hlt. unfold splice_e. cbn [eval rbind]. rewrite H9, Hk. cbn [rbind arith wrap].
  change (2 ^ 64) with 18446744073709551616 in *.
  replace ((0 + N.of_nat (List.length got)) mod 18446744073709551616) with (N.of_nat (List.length got)) by lia.
  replace ((0 <=? 0) && (0 <=? N.of_nat (List.length buf))) with true by lia.
  replace ((N.of_nat (List.length got) <=? N.of_nat (List.length buf)) &&
           (N.of_nat (List.length buf) <=? N.of_nat (List.length buf))) with true by lia.
  change (N.to_nat (0 - 0)) with 0%nat. cbn [firstn rbind app].
  rewrite Nat2N.id. rewrite firstn_all2; [reflexivity|].
  rewrite skipn_length. lia.
Qed.

(* the assignment of the splice *)
Lemma exec_splice fe fuel st st' k buf got :
  get_slot st 9 = GOk (VL buf) -> get_slot st k = GOk (VL got) ->
  (List.length got <= List.length buf)%nat -> N.of_nat (List.length buf) < 2 ^ 64 ->
  set_slot st 9 (VL (got ++ skipn (List.length got) buf)) = GOk st' ->
  exec ge fe fuel st (SSet (LVar 9) (splice_e k)) = ONormal st'.
Proof.
  intros H9 Hk Hle Hlt Hs. cbn [exec resolve rbind].
  rewrite (eval_splice fe st k buf got H9 Hk Hle Hlt). cbn [rbind store]. rewrite Hs. reflexivity.
Qed.

(* ---------------------------------------------------------------- evaluation *)

Local Ltac gl_arith :=
  repeat match goal with
  | |- context [N.modulo ?a ?b] => closed_tm a; closed_tm b;
      let r := eval vm_compute in (N.modulo a b) in change (N.modulo a b) with r
  | |- context [N.add ?a ?b] => closed_tm a; closed_tm b;
      let r := eval vm_compute in (N.add a b) in change (N.add a b) with r
  | |- context [N.sub ?a ?b] => closed_tm a; closed_tm b;
      let r := eval vm_compute in (N.sub a b) in change (N.sub a b) with r
  end.

Local Ltac gl_more :=
  repeat (progress (gl_step;
                    cbn [compare_v compare_n arith wrap negb andb orb ofail Bool.eqb
                         firstn skipn nth_error map List.length app vbytes repeat];
                    gl_consts; gl_arith)).

Lemma len7 (l : list N) : lenN l = 7 -> exists h0 h1 h2 h3 h4 h5 h6, l = [h0; h1; h2; h3; h4; h5; h6].
Proof.
  unfold lenN. intros H.
  destruct l as [|h0 l]; [cbn [List.length] in H; lia|].
  destruct l as [|h1 l]; [cbn [List.length] in H; lia|].
  destruct l as [|h2 l]; [cbn [List.length] in H; lia|].
  destruct l as [|h3 l]; [cbn [List.length] in H; lia|].
  destruct l as [|h4 l]; [cbn [List.length] in H; lia|].
  destruct l as [|h5 l]; [cbn [List.length] in H; lia|].
  destruct l as [|h6 l]; [cbn [List.length] in H; lia|].
  destruct l as [|h7 l]; [|cbn [List.length] in H; lia].
  exists h0, h1, h2, h3, h4, h5, h6. reflexivity.
Qed.

Lemma run_readMBAPFrame fe fuel T tmo last w :
  tworld_hyp fe T "socket" -> tworld_wf T src_codes -> b2u16_hyp fe ->
  run_fn ge fe fuel src_fn_tcpTransport_readMBAPFrame [VN tmo; VN last; w] = out_read_mbap T tmo last w.
Proof.
  intros (_ & _ & _ & _ & Hrf & _) (_ & Hwf) Hb.
  cbn [append] in Hrf.
  unfold run_fn, src_fn_tcpTransport_readMBAPFrame, out_read_mbap, t_read_mbap.
  cbn [f_body f_nparams f_zeros f_outs f_results List.length Nat.eqb negb app].
  match goal with
  | |- context [exec _ _ _ _ (SSeq _ (SSeq _ (SSeq _ (SSeq _ (SSeq _ (SSeq (SSeq _ ?sp) ?r))))))] =>
      remember sp as sp1 eqn:Esp1; remember r as rest1 eqn:Erest1
  end.
  gl_more. rewrite Hrf.
  pose proof (Hwf w 7) as Hw1.
  destruct (t_readfull T w 7) as [[w1 hdr] e1] eqn:E1.
  destruct Hw1 as (Hby1 & Hle1 & Hiff1 & _).
  cbn [rbind vbytes].
  destruct (N.eqb_spec e1 0) as [He1|He1].
  - (* the header is complete *)
    subst e1. destruct (len7 hdr (proj1 Hiff1 eq_refl)) as (h0 & h1 & h2 & h3 & h4 & h5 & h6 & ->).
    subst sp1 rest1.
    match goal with
    | |- context [SSeq _ (SSeq _ (SSeq _ (SSeq _ (SSeq _ (SSeq _ (SSeq _ (SSeq _ (SSeq _ (SSeq (SSeq _ ?sp) ?r)))))))))] =>
        remember sp as sp2 eqn:Esp2; remember r as rest2 eqn:Erest2
    end.
    assert (Hb01 : fe "bytesToUint16" [VN 1; VL [VN h0; VN h1]] = GOk [VN (h0 * 256 + h1)])
      by exact (Hb BigE [h0; h1]).
    assert (Hb23 : fe "bytesToUint16" [VN 1; VL [VN h2; VN h3]] = GOk [VN (h2 * 256 + h3)])
      by exact (Hb BigE [h2; h3]).
    assert (Hb45 : fe "bytesToUint16" [VN 1; VL [VN h4; VN h5]] = GOk [VN (h4 * 256 + h5)])
      by exact (Hb BigE [h4; h5]).
    gl_more. rewrite Hb01. gl_more. rewrite Hb23. gl_more. rewrite Hb45. gl_more.
    cbn [nth].
    assert (Hh : h4 < 256 /\ h5 < 256) by (unfold bytesb, is_byte in Hby1; cbn [forallb] in Hby1; lia).
    unfold sbias.
    change (2 ^ 64) with 18446744073709551616. change (2 ^ 63) with 9223372036854775808.
    remember (((h4 * 256 + h5) mod 18446744073709551616 + 18446744073709551616 - 1) mod 18446744073709551616)
      as bn eqn:Ebn.
    destruct (254 <? h4 * 256 + h5) eqn:E254.
    { match goal with |- context [if ?c then OReturn _ _ else _] => replace c with true by lia end.
      gl_more. reflexivity. }
    match goal with |- context [if ?c then OReturn _ _ else _] => replace c with false by lia end.
    gl_more.
    destruct (h4 * 256 + h5 <=? 1) eqn:Ele.
    { match goal with |- context [if ?c then OReturn _ _ else _] => replace c with true by lia end.
      gl_more. reflexivity. }
    match goal with |- context [if ?c then OReturn _ _ else _] => replace c with false by lia end.
    assert (Hbn : bn = h4 * 256 + h5 - 1) by lia. clear Ebn. subst bn.
    gl_more.
    replace (h4 * 256 + h5 - 1 <? 9223372036854775808) with true by lia.
    gl_more. rewrite repeat_length, N2Nat.id.
    replace ((h4 * 256 + h5 - 1 + 18446744073709551616 - 0) mod 18446744073709551616)
      with (h4 * 256 + h5 - 1) by lia.
    rewrite Hrf.
    pose proof (Hwf w1 (h4 * 256 + h5 - 1)) as Hw2.
    destruct (t_readfull T w1 (h4 * 256 + h5 - 1)) as [[w2 body] e2] eqn:E2.
    destruct Hw2 as (Hby2 & Hle2 & Hiff2 & _).
    cbn [rbind]. gl_step. unfold vbytes.
    change (sp2 = SSet (LVar 9) (splice_e 14)) in Esp2. subst sp2.
    assert (Hlen2 : (List.length (map VN body) <=
                     List.length (repeat (VN 0) (N.to_nat (h4 * 256 + h5 - 1))))%nat)
      by (rewrite map_length, repeat_length; unfold lenN in Hle2; lia).
    erewrite (exec_splice fe fuel _ _ 14 (repeat (VN 0) (N.to_nat (h4 * 256 + h5 - 1))) (map VN body));
      [ | reflexivity | reflexivity | exact Hlen2
        | rewrite repeat_length; change (2 ^ 64) with 18446744073709551616; lia
        | cbn [set_slot sset]; reflexivity ].
    destruct (N.eqb_spec e2 0) as [He2|He2]; cbn [negb].
    + (* the body is complete *)
      subst e2. pose proof (proj1 Hiff2 eq_refl) as Hl2.
      destruct body as [|b0 bt]; [unfold lenN in Hl2; cbn [List.length] in Hl2; lia|].
      rewrite skipn_all2 by (rewrite map_length, repeat_length; unfold lenN in Hl2; lia).
      rewrite app_nil_r. subst rest2. gl_more.
      destruct (h2 * 256 + h3 =? 0) eqn:Epr; cbn [negb]; gl_more; [|reflexivity].
      match goal with |- context [if ?c then GOk _ else GoLite.Panic] => replace c with true by lia end.
      rewrite firstn_all2 by lia.
      gl_more. reflexivity.
    + (* short body *)
      set (junk := VL (map VN body ++ _)%list). clearbody junk.
      subst rest2. gl_more. replace (e2 =? 0) with false by lia. gl_more. reflexivity.
  - (* short header *)
    unfold vbytes.
    change (sp1 = SSet (LVar 9) (splice_e 13)) in Esp1. subst sp1.
    erewrite (exec_splice fe fuel _ _ 13 (repeat (VN 0) 7) (map VN hdr));
      [ | reflexivity | reflexivity
        | rewrite map_length; cbn [repeat List.length]; unfold lenN in Hle1; lia
        | vm_compute; reflexivity
        | cbn [set_slot sset]; reflexivity ].
    set (junk := VL (map VN hdr ++ _)%list). clearbody junk.
    subst rest1. gl_more. replace (e1 =? 0) with false by lia. gl_more. reflexivity.
Qed.

Print Assumptions run_readMBAPFrame.
