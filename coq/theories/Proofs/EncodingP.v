(* Proofs about Model/Encoding.v: round trips, bijection, reference layout. *)
From Modbus Require Import Base.Bytes Model.Encoding Spec.ModbusSpec.
From Coq Require Import ZifyBool ZifyNat ZifyN.
Ltac Zify.zify_post_hook ::= Z.div_mod_to_equations.

Ltac pow_consts :=
  repeat match goal with
  | |- context [2 ^ ?k] =>
      let v := eval vm_compute in (2 ^ k) in change (2 ^ k) with v
  | H : context [2 ^ ?k] |- _ =>
      let v := eval vm_compute in (2 ^ k) in change (2 ^ k) with v in H
  end.

Ltac list_lia :=
  repeat (match goal with
          | |- _ :: _ = _ :: _ => apply (f_equal2 (@cons N)); [lia|]
          end); try reflexivity.

Ltac enc_unfold :=
  unfold u16_to_bytes, u32_to_bytes, u64_to_bytes, dec_u32, dec_u64, byte_of, be_val in *;
  cbn [fold_left] in *; pow_consts.

(* ---------------------------------------------------------------- 16 bit *)

Lemma u16_roundtrip e v : v < 65536 -> bytes_to_u16 e (u16_to_bytes e v) = Some v.
Proof. intros Hv. destruct e; enc_unfold; cbn [bytes_to_u16]; f_equal; lia. Qed.

Lemma u16_inverse e a b : a < 256 -> b < 256 ->
  exists v, bytes_to_u16 e [a; b] = Some v /\ v < 65536 /\ u16_to_bytes e v = [a; b].
Proof.
  intros Ha Hb. destruct e; cbn [bytes_to_u16]; eexists; (split; [reflexivity|]);
    enc_unfold; (split; [lia|]); list_lia.
Qed.

Lemma u16_layout e v : v < 65536 -> u16_to_bytes e v = spec_bytes 1 e HighFirst v.
Proof.
  intros Hv. unfold spec_bytes, layout, words_of.
  destruct e; cbn [seq rev app map flat_map word_bytes]; enc_unfold; list_lia.
Qed.

Lemma u16_to_bytes_len e v : length (u16_to_bytes e v) = 2%nat.
Proof. destruct e; reflexivity. Qed.

Lemma u16_to_bytes_bytes e v : bytesb (u16_to_bytes e v) = true.
Proof. destruct e; unfold bytesb, is_byte, u16_to_bytes, byte_of; cbn [forallb]; lia. Qed.

Lemma u16s_roundtrip e vs : Forall (fun v => v < 65536) vs ->
  bytes_to_u16s e (u16s_to_bytes e vs) = Some vs.
Proof.
  induction 1 as [|v vs Hv _ IH]; [reflexivity|].
  unfold u16s_to_bytes in *. cbn [flat_map].
  destruct e; cbn [u16_to_bytes app bytes_to_u16s]; rewrite IH; f_equal; f_equal;
    enc_unfold; lia.
Qed.

Lemma u16s_to_bytes_len e vs : length (u16s_to_bytes e vs) = (2 * length vs)%nat.
Proof.
  induction vs as [|v vs IH]; [reflexivity|]. unfold u16s_to_bytes in *.
  cbn [flat_map]. rewrite app_length, IH, u16_to_bytes_len. cbn [length]. lia.
Qed.

(* decoders succeed exactly on even-length input *)
Lemma bytes_to_u16s_total e l : Nat.even (length l) = true ->
  exists vs, bytes_to_u16s e l = Some vs /\ length l = (2 * length vs)%nat.
Proof.
  induction l as [|a|a b t IH] using list_ind2; intros He.
  - exists []. split; reflexivity.
  - discriminate.
  - cbn [length Nat.even] in He. destruct (IH He) as [vs [Hvs Hl]].
    cbn [bytes_to_u16s]. rewrite Hvs. eexists; split; [reflexivity|]. cbn [length]. lia.
Qed.

Lemma bytes_to_u16s_ragged e l : Nat.even (length l) = false -> bytes_to_u16s e l = None.
Proof.
  induction l as [|a|a b t IH] using list_ind2; intros He.
  - discriminate.
  - reflexivity.
  - cbn [length Nat.even] in He. cbn [bytes_to_u16s]. rewrite (IH He). reflexivity.
Qed.

(* ---------------------------------------------------------------- 32 bit *)

Lemma u32_roundtrip e w v : v < 2 ^ 32 ->
  bytes_to_u32s e w (u32_to_bytes e w v) = Some [v].
Proof.
  intros Hv. pow_consts.
  destruct e, w; cbn [u32_to_bytes bytes_to_u32s]; f_equal; f_equal; enc_unfold; lia.
Qed.

Lemma u32_inverse e w a b c d : a < 256 -> b < 256 -> c < 256 -> d < 256 ->
  dec_u32 e w a b c d < 2 ^ 32 /\
  u32_to_bytes e w (dec_u32 e w a b c d) = [a; b; c; d].
Proof.
  intros Ha Hb Hc Hd. pow_consts.
  destruct e, w; enc_unfold; (split; [lia|]); list_lia.
Qed.

Lemma u32_layout e w v : v < 2 ^ 32 -> u32_to_bytes e w v = spec_bytes 2 e w v.
Proof.
  intros Hv. unfold spec_bytes, layout, words_of.
  destruct e, w; cbn [seq rev app map flat_map word_bytes]; enc_unfold; list_lia.
Qed.

Lemma u32_to_bytes_len e w v : length (u32_to_bytes e w v) = 4%nat.
Proof. destruct e, w; reflexivity. Qed.

Lemma u32_to_bytes_bytes e w v : bytesb (u32_to_bytes e w v) = true.
Proof.
  destruct e, w; unfold bytesb, is_byte, u32_to_bytes, byte_of; cbn [forallb]; pow_consts; lia.
Qed.

Lemma u32s_roundtrip e w vs : Forall (fun v => v < 2 ^ 32) vs ->
  bytes_to_u32s e w (flat_map (u32_to_bytes e w) vs) = Some vs.
Proof.
  induction 1 as [|v vs Hv _ IH]; [reflexivity|].
  cbn [flat_map].
  destruct e, w; cbn [u32_to_bytes app bytes_to_u32s]; rewrite IH; f_equal; f_equal;
    clear IH; enc_unfold; lia.
Qed.

(* ---------------------------------------------------------------- 64 bit *)

(* little-endian digit view, used to keep the 64-bit proofs linear *)
Fixpoint le_val (l : list N) : N :=
  match l with [] => 0 | b :: t => b + 256 * le_val t end.
Fixpoint le_digits (n : nat) (v : N) : list N :=
  match n with O => [] | S n' => v mod 256 :: le_digits n' (v / 256) end.

Lemma le_val_digits n v : v < 256 ^ N.of_nat n -> le_val (le_digits n v) = v.
Proof.
  revert v; induction n as [|n IH]; intros v Hv.
  - cbn in *. lia.
  - cbn [le_digits le_val]. rewrite IH.
    + lia.
    + rewrite Nat2N.inj_succ, N.pow_succ_r' in Hv.
      remember (256 ^ N.of_nat n) as p eqn:Hp. clear - Hv. lia.
Qed.

Lemma byte_of_0 v : byte_of v 0 = v mod 256.
Proof. unfold byte_of. change (2 ^ (8 * 0)) with 1. rewrite N.div_1_r. reflexivity. Qed.

Lemma byte_of_succ v k : byte_of v (N.succ k) = byte_of (v / 256) k.
Proof.
  unfold byte_of. rewrite N.div_div by (try apply N.pow_nonzero; lia).
  replace (8 * N.succ k) with (8 + 8 * k) by lia. rewrite N.pow_add_r. reflexivity.
Qed.

Lemma le_digits_spec n v :
  le_digits n v = map (fun k => byte_of v (N.of_nat k)) (seq 0 n).
Proof.
  revert v; induction n as [|n IH]; intros v; [reflexivity|].
  cbn [le_digits seq map]. change (N.of_nat 0) with 0. rewrite byte_of_0. f_equal.
  rewrite IH, <- seq_shift, map_map. apply map_ext. intros k.
  rewrite Nat2N.inj_succ, byte_of_succ. reflexivity.
Qed.

Lemma digits8 v : v < 2 ^ 64 ->
  le_val [byte_of v 0; byte_of v 1; byte_of v 2; byte_of v 3;
          byte_of v 4; byte_of v 5; byte_of v 6; byte_of v 7] = v.
Proof.
  intros Hv. rewrite <- (le_val_digits 8 v) at 9 by exact Hv.
  rewrite le_digits_spec. reflexivity.
Qed.

Lemma u64_dec_enc e w v : v < 2 ^ 64 ->
  exists i0 i1 i2 i3 i4 i5 i6 i7,
    u64_to_bytes e w v = [i0; i1; i2; i3; i4; i5; i6; i7] /\
    dec_u64 e w i0 i1 i2 i3 i4 i5 i6 i7 = v.
Proof.
  intros Hv. apply digits8 in Hv. revert Hv.
  unfold u64_to_bytes, dec_u64, be_val, le_val. cbn [fold_left].
  generalize (byte_of v 0) (byte_of v 1) (byte_of v 2) (byte_of v 3)
             (byte_of v 4) (byte_of v 5) (byte_of v 6) (byte_of v 7).
  intros b0 b1 b2 b3 b4 b5 b6 b7 Hv.
  destruct e, w; do 8 eexists; (split; [reflexivity|]); lia.
Qed.

Lemma u64_roundtrip e w v : v < 2 ^ 64 ->
  bytes_to_u64s e w (u64_to_bytes e w v) = Some [v].
Proof.
  intros Hv. destruct (u64_dec_enc e w v Hv) as (i0&i1&i2&i3&i4&i5&i6&i7&E&D).
  rewrite E. cbn [bytes_to_u64s]. rewrite D. reflexivity.
Qed.

Lemma u64_inverse e w i0 i1 i2 i3 i4 i5 i6 i7 :
  i0 < 256 -> i1 < 256 -> i2 < 256 -> i3 < 256 ->
  i4 < 256 -> i5 < 256 -> i6 < 256 -> i7 < 256 ->
  dec_u64 e w i0 i1 i2 i3 i4 i5 i6 i7 < 2 ^ 64 /\
  u64_to_bytes e w (dec_u64 e w i0 i1 i2 i3 i4 i5 i6 i7) = [i0; i1; i2; i3; i4; i5; i6; i7].
Proof.
  intros. pow_consts.
  destruct e, w; enc_unfold; (split; [lia|]); list_lia.
Qed.

Lemma u64_layout e w v : v < 2 ^ 64 -> u64_to_bytes e w v = spec_bytes 4 e w v.
Proof.
  intros Hv. unfold spec_bytes, layout, words_of.
  destruct e, w; cbn [seq rev app map flat_map word_bytes]; enc_unfold; list_lia.
Qed.

Lemma u64_to_bytes_len e w v : length (u64_to_bytes e w v) = 8%nat.
Proof. destruct e, w; reflexivity. Qed.

Lemma u64_to_bytes_bytes e w v : bytesb (u64_to_bytes e w v) = true.
Proof.
  destruct e, w; unfold bytesb, is_byte, u64_to_bytes, byte_of; cbn [forallb]; pow_consts; lia.
Qed.

Lemma u64s_roundtrip e w vs : Forall (fun v => v < 2 ^ 64) vs ->
  bytes_to_u64s e w (flat_map (u64_to_bytes e w) vs) = Some vs.
Proof.
  induction 1 as [|v vs Hv _ IH]; [reflexivity|].
  cbn [flat_map]. destruct (u64_dec_enc e w v Hv) as (i0&i1&i2&i3&i4&i5&i6&i7&E&D).
  rewrite E. cbn [app bytes_to_u64s]. rewrite IH, D. reflexivity.
Qed.

