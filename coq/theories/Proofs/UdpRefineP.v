(* The wrapper model of Model/Transport.v (t_udp_read: what the translated
   udpSockWrapper.Read computes, Proofs/SrcWrapRunP.v) run on a world that is a
   queue of datagrams refines the C12 model of the same wrapper (Model/Udp.v,
   usw_read): same bytes delivered, same leftover, same queue. Model level only
   (no GoLite evaluation). *)
From Coq Require Import List NArith Lia Bool.
From Coq Require Import ZifyBool ZifyNat ZifyN.
Import ListNotations.
From Modbus Require Import Base.Bytes Model.Crc Model.Wire Model.GoLite Model.Transport Model.Chunks Model.Udp.
From Modbus Require Import Proofs.GoLiteP Proofs.TransportStreamP.
Open Scope N_scope.

(* ------------------------------------------------------------------ the datagram world *)

(* the world is the queue of datagrams waiting in the socket, oldest first *)
Definition enc_dq (q : list (list N)) : val := VL (map vbytes q).

Definition dec_dgram (v : val) : list N := match v with VL b => unbytes b | _ => [] end.
Definition dec_dq (w : val) : list (list N) := match w with VL l => map dec_dgram l | _ => [] end.

(* sock.Read(buf), len(buf) = n: no datagram: the deadline expires (error value 2);
   otherwise the oldest datagram, cut to the buffer (the rest of it is lost) *)
Definition dq_world : tworld := {|
  t_now := fun w => (w, 0);
  t_sleep := fun w _ => w;
  t_setdl := fun w _ => (w, 0);
  t_write := fun w bs => (w, lenN bs, 0);
  t_readfull := fun w n =>
    match dec_dq w with
    | [] => (w, [], 2)
    | d :: rest => (enc_dq rest, firstn (N.to_nat n) d, 0)
    end;
  t_close := fun w => (w, 0)
|}.

Definition dgrams_bytes (q : list (list N)) : Prop := Forall (fun d => bytesb d = true) q.

Lemma dec_enc_dq q : dgrams_bytes q -> dec_dq (enc_dq q) = q.
Proof.
  unfold dec_dq, enc_dq. intros H. rewrite map_map.
  induction H as [|d q Hd Hq IH]; cbn [map]; [reflexivity|].
  rewrite IH. f_equal. unfold dec_dgram, vbytes. apply unbytes_map. exact Hd.
Qed.

(* the world keeps the promise of a Read on every state, decodable or not *)
Lemma dq_world_wf : tread_wf dq_world.
Proof.
  intros w n. cbn [t_readfull dq_world].
  destruct (dec_dq w) as [|d rest] eqn:E.
  - split; [reflexivity|]. unfold lenN. cbn [List.length]. lia.
  - split.
    + apply bytesb_firstn.
      unfold dec_dq in E. destruct w as [x|b|l]; try discriminate E.
      destruct l as [|v l]; [discriminate E|]. cbn [map] in E. inversion E; subst.
      unfold dec_dgram. destruct v; try reflexivity. apply unbytes_bytes.
    + unfold lenN. rewrite firstn_length. lia.
Qed.

(* ------------------------------------------------------------------ lists *)

Lemma firstn_len_app {A} (a b : list A) : firstn (List.length a) (a ++ b) = a.
Proof.
  rewrite firstn_app, Nat.sub_diag, firstn_all. cbn [firstn]. apply app_nil_r.
Qed.

Lemma skipn_len_app {A} (a b : list A) : skipn (List.length a) (a ++ b) = b.
Proof.
  rewrite skipn_app, Nat.sub_diag, skipn_all. reflexivity.
Qed.

(* ------------------------------------------------------------------ one part of Read *)

(* [left]: the bytes at the front of rxbuf that are handed out *)
Lemma take_norm (left rxbuf buf : list N) :
  firstn (List.length left) rxbuf = left ->
  t_udp_take (lenN left) rxbuf buf =
  let k := Nat.min (List.length buf) (List.length left) in
  (N.of_nat (List.length left - k),
   (if (k <? List.length left)%nat then go_copy rxbuf (skipn k left) else rxbuf),
   go_copy buf left, N.of_nat k).
Proof.
  intros Hpre. unfold t_udp_take, go_copy_n. rewrite to_nat_lenN, Hpre. cbv zeta.
  rewrite Nat2N.id. unfold lenN.
  set (k := Nat.min (List.length buf) (List.length left)).
  replace (N.of_nat (List.length left) - N.of_nat k) with (N.of_nat (List.length left - k)) by lia.
  destruct (N.of_nat k <? N.of_nat (List.length left)) eqn:E1;
    destruct (k <? List.length left)%nat eqn:E2; try reflexivity; lia.
Qed.

Lemma take_refines (left rxbuf buf : list N) :
  List.length rxbuf = usw_rxbuf_len -> firstn (List.length left) rxbuf = left ->
  (List.length left <= usw_rxbuf_len)%nat ->
  let '(lft', rxbuf', buf', k) := t_udp_take (lenN left) rxbuf buf in
  let got := firstn (List.length buf) left in
  let left' := skipn (List.length buf) left in
  k = lenN got /\ firstn (List.length got) buf' = got /\
  skipn (List.length got) buf' = skipn (List.length got) buf /\
  lft' = lenN left' /\ firstn (List.length left') rxbuf' = left' /\
  List.length rxbuf' = usw_rxbuf_len.
Proof.
  intros Hrx Hpre Hle. rewrite (take_norm left rxbuf buf Hpre). cbv zeta.
  unfold usw_rxbuf_len in *.
  unfold go_copy, lenN.
  destruct (Nat.ltb_spec (List.length buf) (List.length left)) as [Hlt|Hge].
  - (* the buffer is smaller than what is there: the rest moves to the front *)
    rewrite (Nat.min_l (List.length buf) (List.length left)) by lia.
    replace (List.length buf <? List.length left)%nat with true by lia.
    assert (Hg : List.length (firstn (List.length buf) left) = List.length buf)
      by (rewrite firstn_length; lia).
    assert (Hs : List.length (skipn (List.length buf) left) = (List.length left - List.length buf)%nat)
      by apply skipn_length.
    rewrite Hg, Hs.
    rewrite (Nat.min_r (List.length rxbuf)) by lia.
    rewrite (@firstn_all2 _ (List.length left - List.length buf)%nat (skipn (List.length buf) left)) by (rewrite Hs; lia).
    repeat split.
    + rewrite <- Hg at 1. apply firstn_len_app.
    + rewrite <- Hg at 1. rewrite skipn_len_app. reflexivity.
    + rewrite <- Hs at 1. apply firstn_len_app.
    + rewrite app_length, !skipn_length. lia.
  - (* everything fits *)
    rewrite (Nat.min_r (List.length buf) (List.length left)) by lia.
    replace (List.length left <? List.length left)%nat with false by lia.
    rewrite Nat.sub_diag.
    rewrite (firstn_all2 (n := List.length buf) left) by lia.
    rewrite (skipn_all2 (n := List.length buf) left) by lia.
    rewrite firstn_all. cbn [List.length firstn].
    repeat split.
    + apply firstn_len_app.
    + rewrite skipn_len_app. reflexivity.
    + exact Hrx.
Qed.

(* ------------------------------------------------------------------ Read *)

(* [u]: the state of the wrapper in the C12 model; the concrete wrapper holds
   the leftover bytes at the front of its 260-byte rxbuf, the socket holds the
   queued datagrams *)
Theorem udp_read_refines : forall (u : usw) (rxbuf buf : list N),
  dgrams_bytes (usw_net u) ->
  List.length rxbuf = usw_rxbuf_len ->
  firstn (List.length (usw_left u)) rxbuf = usw_left u ->
  (List.length (usw_left u) <= usw_rxbuf_len)%nat ->
  let '(lft', rxbuf', buf', w', rlen, e) :=
    t_udp_read dq_world (lenN (usw_left u)) rxbuf buf (enc_dq (usw_net u)) in
  match usw_read (List.length buf) u with
  | Rd1 got u' =>
      e = 0 /\ rlen = lenN got /\ firstn (List.length got) buf' = got /\
      skipn (List.length got) buf' = skipn (List.length got) buf /\
      lft' = lenN (usw_left u') /\ firstn (List.length (usw_left u')) rxbuf' = usw_left u' /\
      List.length rxbuf' = usw_rxbuf_len /\ w' = enc_dq (usw_net u')
  | Rd1None => e <> 0 /\ buf' = buf /\ lft' = 0
  end.
Proof.
  intros [left net] rxbuf buf Hby Hrx Hpre Hle. cbn [usw_left usw_net] in *.
  unfold t_udp_read, usw_read. cbn [usw_left usw_net].
  destruct left as [|b left].
  - (* nothing left over: a datagram is read *)
    change (0 <? lenN []) with false. cbv iota.
    cbn [t_readfull dq_world]. rewrite (dec_enc_dq net Hby).
    destruct net as [|d net'].
    + cbn [negb N.eqb]. repeat split; discriminate.
    + change (negb (0 =? 0)) with false. cbv iota.
      assert (Hlr : N.to_nat (lenN rxbuf) = usw_rxbuf_len) by (rewrite to_nat_lenN; exact Hrx).
      rewrite Hlr.
      set (rx := firstn usw_rxbuf_len d).
      assert (Hrxl : (List.length rx <= usw_rxbuf_len)%nat) by (unfold rx; rewrite firstn_length; lia).
      pose proof (take_refines rx (rx ++ skipn (List.length rx) rxbuf) buf) as Ht.
      destruct (t_udp_take (lenN rx) (rx ++ skipn (List.length rx) rxbuf) buf) as [[[lft' rxbuf'] buf'] k].
      cbv zeta in Ht. cbn [usw_left usw_net].
      destruct Ht as (H1 & H2 & H3 & H4 & H5 & H6).
      * rewrite app_length, skipn_length. lia.
      * apply firstn_len_app.
      * exact Hrxl.
      * repeat split; assumption.
  - (* leftover bytes are handed out *)
    replace (0 <? lenN (b :: left)) with true by (unfold lenN; cbn [List.length]; lia).
    cbv iota.
    pose proof (take_refines (b :: left) rxbuf buf Hrx Hpre Hle) as Ht.
    destruct (t_udp_take (lenN (b :: left)) rxbuf buf) as [[[lft' rxbuf'] buf'] k].
    cbv zeta in Ht. cbn [usw_left usw_net].
    destruct Ht as (H1 & H2 & H3 & H4 & H5 & H6).
    repeat split; assumption.
Qed.

Print Assumptions dq_world_wf.
Print Assumptions udp_read_refines.
