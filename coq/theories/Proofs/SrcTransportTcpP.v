(* tcp_transport.go as translated from the Go source (Gen/SrcPure.v):
   readResponse (the loop that skips frames of an unknown protocol and frames
   with another transaction id), ReadRequest, WriteResponse, ExecuteRequest and
   Close equal the transport model of Model/Transport.v. *)
From Coq Require Import List NArith String Lia Bool.
From Coq Require Import ZifyBool ZifyNat ZifyN.
Import ListNotations.
From Modbus Require Import Base.Bytes Model.GoLite Gen.SrcPure Model.Crc Model.Encoding.
From Modbus Require Import Model.Wire Model.Transport.
From Modbus Require Import Proofs.GoLiteP Proofs.GoLiteLinkP Proofs.SrcCrcP Proofs.SrcLinkP Proofs.SrcMiscP Proofs.SrcClientP.
From Modbus Require Import Proofs.SrcTransportP.
Open Scope string_scope.
Open Scope N_scope.

(* ---------------------------------------------------------------- loop rules *)

Lemma for_go_body_return n condf bodyf postf st st1 vs :
  condf st = GOk (VB true) -> bodyf st = OReturn st1 vs ->
  for_go (S n) condf bodyf postf st = OReturn st1 vs.
Proof. intros Hc Hb. cbn [for_go]. rewrite Hc, Hb. reflexivity. Qed.

Lemma for_go_body_continue n condf bodyf postf st st1 st2 :
  condf st = GOk (VB true) -> bodyf st = OContinue st1 -> postf st1 = ONormal st2 ->
  for_go (S n) condf bodyf postf st = for_go n condf bodyf postf st2.
Proof. intros Hc Hb Hp. cbn [for_go]. rewrite Hc, Hb, Hp. reflexivity. Qed.

Lemma for_go_body_break n condf bodyf postf st st1 :
  condf st = GOk (VB true) -> bodyf st = OBreak st1 ->
  for_go (S n) condf bodyf postf st = ONormal st1.
Proof. intros Hc Hb. cbn [for_go]. rewrite Hc, Hb. reflexivity. Qed.

Lemma exec_for ge0 fe fuel st c post body :
  exec ge0 fe fuel st (SFor c post body) =
  for_go fuel (fun st' => eval ge0 fe st' c) (fun st' => exec ge0 fe fuel st' body)
         (fun st' => exec ge0 fe fuel st' post) st.
Proof. reflexivity. Qed.

Lemma unkproto_19 : c_unkproto src_codes = 19.
Proof. reflexivity. Qed.

(* ---------------------------------------------------------------- readResponse *)

(* the body of the loop, extracted from the generated function *)
Definition rr_body : stmt :=
  Eval cbv in match f_body src_fn_tcpTransport_readResponse with
              | SSeq _ (SSeq (SFor _ _ b) _) => b
              | _ => SSkip
              end.

Lemma rr_fn_body :
  f_body src_fn_tcpTransport_readResponse =
  SSeq (SSet (LVar 8) (EN 0)) (SSeq (SFor (EB true) SSkip rr_body) (SReturn ENil)).
Proof. reflexivity. Qed.

(* the state of readResponse: 0=tt.timeout 1=tt.lastTxnId 2=$world 3..6=res 7=err 8=txnId *)
Definition rr_state (tmo last : N) (w : val) (p : option pdu) (e txn : N) : state :=
  ([VN tmo; VN last; w] ++ enc_opdu p ++ [VN e; VN txn])%list.

(* one run of the body *)
Lemma rr_body_eval fe fuel T tmo last w r3 r4 r5 r6 r7 r8 :
  read_mbap_hyp fe T ->
  exec ge fe fuel [VN tmo; VN last; w; r3; r4; r5; r6; r7; r8] rr_body =
  let '(w1, p, txn, e) := t_read_mbap T src_codes w in
  if e =? 19 then OContinue (rr_state tmo last w1 p e txn)
  else if negb (e =? 0) then OReturn (rr_state tmo last w1 p e txn) None
  else if negb (last =? txn) then OContinue (rr_state tmo last w1 p e txn)
  else OBreak (rr_state tmo last w1 p e txn).
Proof.
  intros Hrm. unfold rr_body.
  gl_step. rewrite Hrm. unfold out_read_mbap.
  destruct (t_read_mbap T src_codes w) as [[[w1 p] txn] e].
  unfold rr_state.
  destruct p as [q|]; cbn [enc_opdu app]; gl_auto;
    (destruct (e =? 19) eqn:E19; gl_auto; [reflexivity|]);
    (destruct (e =? 0) eqn:E0; gl_auto; [|reflexivity]);
    (destruct (last =? txn) eqn:El; gl_auto; reflexivity).
Qed.

Lemma rr_loop fe fuel T tmo last :
  read_mbap_hyp fe T ->
  forall n w r3 r4 r5 r6 r7 r8,
  exists t8,
    for_go n (fun st' => eval ge fe st' (EB true)) (fun st' => exec ge fe fuel st' rr_body)
           (fun st' => exec ge fe fuel st' SSkip) [VN tmo; VN last; w; r3; r4; r5; r6; r7; r8] =
    match t_read_response T src_codes n last w with
    | Some (w', p, e) =>
        if e =? 0 then ONormal (rr_state tmo last w' p e t8)
        else OReturn (rr_state tmo last w' p e t8) None
    | None => OFail GoLite.OutOfFuel
    end.
Proof.
  intros Hrm. induction n as [|n IH]; intros w r3 r4 r5 r6 r7 r8.
  - exists 0. reflexivity.
  - cbn [t_read_response]. rewrite unkproto_19.
    pose proof (rr_body_eval fe fuel T tmo last w r3 r4 r5 r6 r7 r8 Hrm) as Hb.
    destruct (t_read_mbap T src_codes w) as [[[w1 p] txn] e].
    destruct (e =? 19) eqn:E19.
    { rewrite (for_go_body_continue n _ _ _ _ _ _ eq_refl Hb eq_refl).
      unfold rr_state. destruct p as [q|]; cbn [enc_opdu app]; apply IH. }
    destruct (e =? 0) eqn:E0; cbn [negb] in Hb |- *.
    2:{ rewrite (for_go_body_return n _ _ _ _ _ _ eq_refl Hb).
        exists txn. rewrite E0. reflexivity. }
    destruct (last =? txn) eqn:El; cbn [negb] in Hb |- *.
    2:{ rewrite (for_go_body_continue n _ _ _ _ _ _ eq_refl Hb eq_refl).
        unfold rr_state. destruct p as [q|]; cbn [enc_opdu app]; apply IH. }
    rewrite (for_go_body_break n _ _ _ _ _ eq_refl Hb).
    exists txn. replace e with 0 by lia. reflexivity.
Qed.

(* the fuel of the loop is the fuel of the call *)
Lemma run_readResponse fe fuel T tmo last w : read_mbap_hyp fe T ->
  run_fn ge fe fuel src_fn_tcpTransport_readResponse [VN tmo; VN last; w] = out_read_response T fuel tmo last w.
Proof.
  intros Hrm. unfold run_fn. rewrite rr_fn_body.
  unfold src_fn_tcpTransport_readResponse. cbn [f_nparams f_zeros f_outs f_results].
  remember (SFor (EB true) SSkip rr_body) as loop eqn:Eloop.
  gl_step.
  subst loop. rewrite exec_for.
  match goal with
  | |- context [for_go fuel _ _ _ [_; _; _; ?r3; ?r4; ?r5; ?r6; ?r7; ?r8]] =>
      destruct (rr_loop fe fuel T tmo last Hrm fuel w r3 r4 r5 r6 r7 r8) as [t8 Hloop]
  end.
  rewrite Hloop. clear Hloop.
  unfold out_read_response.
  destruct (t_read_response T src_codes fuel last w) as [[[w' p] e]|]; [|reflexivity].
  unfold rr_state.
  destruct (e =? 0); destruct p as [q|]; cbn [enc_opdu app]; gl_step; reflexivity.
Qed.

(* ---------------------------------------------------------------- ReadRequest *)

Lemma run_tcp_ReadRequest fe fuel T tmo last w : tworld_hyp fe T "socket" -> read_mbap_hyp fe T ->
  run_fn ge fe fuel src_fn_tcpTransport_ReadRequest [VN tmo; VN last; w] = out_tcp_read_request T tmo last w.
Proof.
  intros HT Hrm. destruct HT as (Hnow & _ & Hdl & _ & _ & _).
  cbn [append] in Hdl.
  unfold run_fn, src_fn_tcpTransport_ReadRequest.
  gl_step. rewrite Hnow. gl_auto. rewrite Hdl. gl_auto.
  unfold out_tcp_read_request, t_tcp_read_request, add64.
  destruct (t_now T w) as [w0 now]. cbn [fst snd].
  destruct (t_setdl T w0 ((now + tmo) mod 2 ^ 64)) as [w1 e]. cbn [fst snd].
  destruct (e =? 0) eqn:E0; gl_auto; [|reflexivity].
  rewrite Hrm. unfold out_read_mbap.
  destruct (t_read_mbap T src_codes w1) as [[[w2 p] txn] e2].
  destruct p as [q|]; cbn [enc_opdu app]; gl_auto;
    (destruct (e2 =? 0) eqn:E2; gl_auto; [replace e2 with 0 by lia|]; reflexivity).
Qed.

(* ---------------------------------------------------------------- WriteResponse *)

Lemma run_tcp_WriteResponse fe fuel T tmo last res w : tworld_hyp fe T "socket" -> asm_mbap_hyp fe -> pdu_ok res ->
  run_fn ge fe fuel src_fn_tcpTransport_WriteResponse ([VN tmo; VN last] ++ pdu_args res ++ [w])%list = out_tcp_write_response T tmo last res w.
Proof.
  intros HT Hasm [_ Hlen]. destruct HT as (_ & _ & _ & Hwr & _ & _).
  cbn [append] in Hwr.
  destruct res as [u fc pl]. cbn [p_payload] in Hlen.
  unfold run_fn, src_fn_tcpTransport_WriteResponse, pdu_args. cbn [p_unit p_fc p_payload].
  gl_step. rewrite (Hasm last u fc pl Hlen). gl_step. rewrite Hwr.
  unfold out_tcp_write_response, t_tcp_write_response.
  destruct (t_write T w (assemble_mbap last (mkpdu u fc pl))) as [[w1 n] e].
  gl_auto. destruct (e =? 0); gl_auto; reflexivity.
Qed.

(* ---------------------------------------------------------------- ExecuteRequest *)

Lemma run_tcp_ExecuteRequest fe fuel T rfuel tmo last req w :
  tworld_hyp fe T "socket" -> asm_mbap_hyp fe -> read_response_hyp fe T rfuel -> pdu_ok req ->
  run_fn ge fe fuel src_fn_tcpTransport_ExecuteRequest ([VN tmo; VN last] ++ pdu_args req ++ [w])%list = out_tcp_execute T rfuel tmo last req w.
Proof.
  intros HT Hasm Hrr [_ Hlen]. destruct HT as (Hnow & _ & Hdl & Hwr & _ & _).
  cbn [append] in Hdl, Hwr.
  destruct req as [u fc pl]. cbn [p_payload] in Hlen.
  unfold run_fn, src_fn_tcpTransport_ExecuteRequest, pdu_args. cbn [p_unit p_fc p_payload].
  gl_step. rewrite Hnow. gl_auto. rewrite Hdl. gl_auto.
  unfold out_tcp_execute, t_tcp_execute, add64.
  destruct (t_now T w) as [w0 now]. cbn [fst snd].
  destruct (t_setdl T w0 ((now + tmo) mod 2 ^ 64)) as [w1 e]. cbn [fst snd].
  destruct (e =? 0) eqn:E0; gl_auto; [|reflexivity].
  change (2 ^ 16) with 65536.
  rewrite (Hasm ((last + 1) mod 65536) u fc pl Hlen). gl_step. rewrite Hwr.
  destruct (t_write T w1 (assemble_mbap ((last + 1) mod 65536) (mkpdu u fc pl))) as [[w2 n] e2].
  gl_auto.
  destruct (e2 =? 0) eqn:E2; gl_auto; [|reflexivity].
  rewrite Hrr. unfold out_read_response.
  destruct (t_read_response T src_codes rfuel ((last + 1) mod 65536) w2) as [[[w3 p] e3]|]; [|reflexivity].
  destruct p as [q|]; cbn [enc_opdu app]; gl_step; reflexivity.
Qed.

(* ---------------------------------------------------------------- Close *)

Lemma run_tcp_Close fe fuel T tmo last w : tworld_hyp fe T "socket" ->
  run_fn ge fe fuel src_fn_tcpTransport_Close [VN tmo; VN last; w] = out_close T [VN tmo; VN last] w.
Proof.
  intros HT. destruct HT as (_ & _ & _ & _ & _ & Hcl).
  cbn [append] in Hcl.
  unfold run_fn, src_fn_tcpTransport_Close.
  gl_step. rewrite Hcl. gl_step. reflexivity.
Qed.

Print Assumptions run_readResponse.
Print Assumptions run_tcp_ReadRequest.
Print Assumptions run_tcp_WriteResponse.
Print Assumptions run_tcp_ExecuteRequest.
Print Assumptions run_tcp_Close.
