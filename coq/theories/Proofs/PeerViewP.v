(* C01 seen from the network (Model/PeerView.v): whatever the peer holding the
   call's connection does - reads the whole request and closes / resets,
   answers with part of a reply and closes, hangs up before or inside the
   request - the listener receives, over all its connections, one connection
   carrying a prefix of the ONE specified frame (the whole frame when the peer
   read it all), never a second frame and never a second connection; a
   rejected call puts nothing on any connection; and such a call fails. *)
From Modbus Require Import Base.Bytes Model.Crc Model.Encoding Model.Wire Model.Client
  Model.PeerView
  Spec.ModbusSpec Spec.ClientSpec Spec.CutSpec
  Proofs.ClientReqP Proofs.CutP.
From Coq Require Import ZifyBool ZifyNat ZifyN.
Ltac Zify.zify_post_hook ::= Z.div_mod_to_equations.

Lemma hangup_view fr cfg txn o h :
  op_wf o -> cfg_wf cfg -> txn < 65536 ->
  let v := client_call_hangup fr cfg txn o h in
  let f := spec_frame fr (u16 (txn + 1)) (spec_pdu cfg o) in
  (valid_op o = true ->
     pv_conns v = match h with
                  | HangAfter _ _ => [f]
                  | HangEarly _ k => [firstn k f]
                  end) /\
  (valid_op o = false -> pv_conns v = [[]] /\ pv_res v = Err EParams).
Proof.
  intros Hwf Hcfg Ht v f. subst v f.
  destruct h as [e sent|e k]; cbn [client_call_hangup pv_conns pv_res].
  - destruct (client_transmit fr cfg txn o e sent Hwf Hcfg Ht) as [Hv Hi].
    split; intros V.
    + rewrite (Hv V). cbn [concat]. rewrite app_nil_r. reflexivity.
    + destruct (Hi V) as (Hw & Hr & _). rewrite Hw, Hr. split; reflexivity.
  - destruct (client_transmit fr cfg txn o e [] Hwf Hcfg Ht) as [Hv Hi].
    split; intros V.
    + rewrite (Hv V). cbn [concat]. rewrite app_nil_r. reflexivity.
    + destruct (Hi V) as (Hw & Hr & _). rewrite Hw, Hr. cbn [concat].
      rewrite firstn_nil. split; reflexivity.
Qed.

(* one connection, and everything received on all connections together is a
   prefix of the single specified frame: never two frames *)
Lemma hangup_never_two fr cfg txn o h :
  op_wf o -> cfg_wf cfg -> txn < 65536 ->
  let v := client_call_hangup fr cfg txn o h in
  length (pv_conns v) = 1%nat /\
  exists k, concat (pv_conns v) = firstn k (spec_frame fr (u16 (txn + 1)) (spec_pdu cfg o)).
Proof.
  intros Hwf Hcfg Ht v.
  destruct (hangup_view fr cfg txn o h Hwf Hcfg Ht) as [Hv Hi]. fold v in Hv, Hi.
  destruct (valid_op o) eqn:V.
  - rewrite (Hv eq_refl). destruct h as [e sent|e k]; (split; [reflexivity|]).
    + exists (length (spec_frame fr (u16 (txn + 1)) (spec_pdu cfg o))).
      cbn [concat]. rewrite app_nil_r, firstn_all. reflexivity.
    + exists k. cbn [concat]. rewrite app_nil_r. reflexivity.
  - destruct (Hi eq_refl) as [Hc _]. rewrite Hc. split; [reflexivity|].
    exists 0%nat. reflexivity.
Qed.

(* the call fails when the peer hangs up having sent a strict prefix (possibly
   nothing) of a valid reply, or hangs up early *)
Lemma hangup_fails fr cfg txn o res vs h :
  op_wf o -> cfg_wf cfg -> txn < 65536 -> valid_op o = true ->
  bytesb (p_payload res) = true -> answers cfg o res vs ->
  match h with
  | HangAfter _ sent =>
      exists k, (k < length (spec_frame fr (u16 (txn + 1)) res))%nat /\
                sent = firstn k (spec_frame fr (u16 (txn + 1)) res)
  | HangEarly _ _ => True
  end ->
  cut_failed (pv_res (client_call_hangup fr cfg txn o h)).
Proof.
  intros Hwf Hcfg Ht V Hb Hans Hh.
  assert (Hfr : match fr with
                | FMbap => txn < 65536 /\ Forall (skippable (u16 (txn + 1))) []
                | FRtu => @nil (list N) = []
                end) by (destruct fr; [split; [exact Ht|constructor]|reflexivity]).
  assert (Hpos : (0 < length (spec_frame fr (u16 (txn + 1)) res))%nat).
  { destruct fr; cbn [spec_frame]; repeat rewrite app_length; cbn [length]; lia. }
  destruct h as [e sent|e k0]; cbn [client_call_hangup pv_res].
  - destruct Hh as (k & Hk & ->).
    pose proof (client_cut_never_ok fr cfg txn o e res vs [] k Hwf Hcfg V Hb Hans Hfr) as H.
    cbn [concat app] in H. exact (proj1 (H Hk)).
  - pose proof (client_cut_never_ok fr cfg txn o e res vs [] 0%nat Hwf Hcfg V Hb Hans Hfr) as H.
    cbn [concat app] in H. rewrite firstn_O in H. exact (proj1 (H Hpos)).
Qed.
