(* C13, a reply cut in the middle of a session (Model/CutSession.v): whatever
   was exchanged before on the connection, the call whose reply is cut is an
   error and put exactly one request frame on the wire - the one connection of
   the handle; Close; Open then gives a second connection carrying exactly the
   next request. *)
From Modbus Require Import Base.Bytes Model.Crc Model.Encoding Model.Wire Model.Client
  Model.Handle Model.TxnHistory Model.CutSession
  Spec.ModbusSpec Spec.ClientSpec Spec.CutSpec Spec.TxnSpec Spec.CutSessionSpec
  Proofs.FramingP Proofs.ClientReqP Proofs.ClientRespP Proofs.CutP Proofs.TxnP.
From Coq Require Import ZifyBool ZifyNat ZifyN.
Ltac Zify.zify_post_hook ::= Z.div_mod_to_equations.

(* ---------------------------------------------------------------- frames *)

Lemma reply_frame_len fr t res : length (spec_frame fr t res) = reply_len fr res.
Proof.
  destruct fr; cbn [spec_frame reply_len]; cbv zeta; unfold be16;
    repeat rewrite app_length; cbn [length]; lia.
Qed.

(* the device's frame for a valid reply is the specified reply frame *)
Lemma device_frame_spec fr cfg o res vs t :
  cfg_wf cfg -> bytesb (p_payload res) = true -> answers cfg o res vs ->
  device_frame fr t res = spec_frame fr t res.
Proof.
  intros Hcfg Hb (Hu & Hf & _). destruct fr; cbn [device_frame].
  - apply mbap_frame_spec.
  - change (spec_frame FRtu t res) with (spec_frame FRtu 0 res). apply rtu_frame_spec.
    + rewrite Hu. exact Hcfg.
    + rewrite Hf. pose proof (spec_fc_byte o). lia.
    + exact Hb.
Qed.

Lemma u16_lt x : u16 x < 65536.
Proof. unfold u16. lia. Qed.

Lemma cs_count_lt fr txn : txn < 65536 -> cs_count fr txn < 65536.
Proof. intros H. destruct fr; cbn [cs_count]; [apply u16_lt|exact H]. Qed.

Lemma cs_count_n_lt fr n : forall txn, txn < 65536 -> cs_count_n fr txn n < 65536.
Proof.
  induction n as [|n IH]; intros txn H; cbn [cs_count_n]; [exact H|].
  apply IH, cs_count_lt, H.
Qed.

Lemma frame_side fr txn (frames : list (list N)) :
  txn < 65536 -> frames = [] ->
  match fr with
  | FMbap => txn < 65536 /\ Forall (skippable (u16 (txn + 1))) frames
  | FRtu => frames = []
  end.
Proof. intros Ht ->. destruct fr; [split; [exact Ht|constructor]|reflexivity]. Qed.

(* ---------------------------------------------------------------- one exchange *)

(* an open handle with nothing unread, any counter: a valid call answered with
   its valid reply (then any stream end) completes, has transmitted exactly the
   specified frame, and leaves the handle open with nothing unread *)
Lemma call_answered fr cfg h c vs e :
  cfg_wf cfg -> cs_valid cfg c vs ->
  hd_closed h = false -> hd_unread h = [] -> hd_txn h < 65536 ->
  let x := hd_call fr cfg h (csc_op c) e (cs_answer fr h c) in
  cr_res (fst x) = Ok vs /\
  cr_writes (fst x) = [spec_frame fr (u16 (hd_txn h + 1)) (spec_pdu cfg (csc_op c))] /\
  snd x = mkhd (cs_count fr (hd_txn h)) [] false.
Proof.
  intros Hcfg (Hwf & V & Hb & Hans) Hc Hu Ht x. subst x.
  unfold hd_call. rewrite Hc, Hu. cbn [app fst snd].
  unfold cs_answer. rewrite (device_frame_spec fr cfg _ _ vs _ Hcfg Hb Hans).
  pose proof (client_complete_gen fr cfg (hd_txn h) (csc_op c) e (csc_reply c) vs [] []
                Hwf Hcfg V Hb Hans (frame_side fr _ [] Ht eq_refl)) as Hok.
  cbv zeta in Hok. cbn [concat app] in Hok. rewrite app_nil_r in Hok.
  destruct Hok as [H1 H2].
  destruct (client_transmit fr cfg (hd_txn h) (csc_op c) e
              (spec_frame fr (u16 (hd_txn h + 1)) (csc_reply c)) Hwf Hcfg Ht) as [Hw _].
  split; [exact H1|]. split; [exact (Hw V)|].
  rewrite H2. rewrite (call_txn fr cfg (hd_txn h) (csc_op c) e _ Hwf), V. reflexivity.
Qed.

(* the same handle state, the reply cut after k bytes: an error, never a
   success; exactly the one specified frame has been transmitted; nothing is
   left unread *)
Lemma call_cut fr cfg h c vs e k :
  cfg_wf cfg -> cs_valid cfg c vs ->
  hd_closed h = false -> hd_unread h = [] -> hd_txn h < 65536 ->
  (k < reply_len fr (csc_reply c))%nat ->
  let x := hd_call fr cfg h (csc_op c) e (firstn k (cs_answer fr h c)) in
  cr_res (fst x) = Err (cut_err_class fr e k) /\
  cr_writes (fst x) = [spec_frame fr (u16 (hd_txn h + 1)) (spec_pdu cfg (csc_op c))] /\
  snd x = mkhd (cs_count fr (hd_txn h)) [] false.
Proof.
  intros Hcfg (Hwf & V & Hb & Hans) Hc Hu Ht Hk x. subst x.
  unfold hd_call. rewrite Hc, Hu. cbn [app fst snd].
  unfold cs_answer. rewrite (device_frame_spec fr cfg _ _ vs _ Hcfg Hb Hans).
  rewrite <- (reply_frame_len fr (u16 (hd_txn h + 1))) in Hk.
  pose proof (client_cut_gen fr cfg (hd_txn h) (csc_op c) e (csc_reply c) vs [] k
                Hwf Hcfg V Hb Hans (frame_side fr _ [] Ht eq_refl)) as Hcut.
  cbn [concat app] in Hcut. specialize (Hcut Hk). cbv zeta in Hcut.
  destruct Hcut as [H1 H2].
  destruct (client_transmit fr cfg (hd_txn h) (csc_op c) e
              (firstn k (spec_frame fr (u16 (hd_txn h + 1)) (csc_reply c))) Hwf Hcfg Ht) as [Hw _].
  split; [exact H1|]. split; [exact (Hw V)|].
  rewrite H2. rewrite (call_txn fr cfg (hd_txn h) (csc_op c) e _ Hwf), V. reflexivity.
Qed.

(* ---------------------------------------------------------------- the exchanges before *)

Lemma earlier_ok fr cfg : forall pre vss h,
  cfg_wf cfg -> Forall2 (cs_valid cfg) pre vss ->
  hd_closed h = false -> hd_unread h = [] -> hd_txn h < 65536 ->
  let x := cs_earlier fr cfg h pre in
  map cr_res (fst x) = map (@Ok values) vss /\
  concat (map cr_writes (fst x)) = cs_frames fr cfg (hd_txn h) (map csc_op pre) /\
  snd x = mkhd (cs_count_n fr (hd_txn h) (length pre)) [] false.
Proof.
  induction pre as [|c t IH]; intros vss h Hcfg HF Hc Hu Ht.
  - inversion HF; subst. cbn [cs_earlier fst snd map concat cs_frames length cs_count_n].
    repeat split. destruct h as [a b d]. cbn in Hc, Hu. subst. reflexivity.
  - inversion HF as [|? vs ? vst Hv HFt]; subst.
    cbn [cs_earlier].
    destruct (call_answered fr cfg h c vs Stall Hcfg Hv Hc Hu Ht) as (H1 & H2 & H3).
    destruct (hd_call fr cfg h (csc_op c) Stall (cs_answer fr h c)) as [r h1].
    cbn [fst snd] in H1, H2, H3. subst h1.
    specialize (IH vst (mkhd (cs_count fr (hd_txn h)) [] false) Hcfg HFt eq_refl eq_refl
                  (cs_count_lt fr _ Ht)).
    cbv zeta in IH. cbn [hd_txn] in IH.
    destruct (cs_earlier fr cfg (mkhd (cs_count fr (hd_txn h)) [] false) t) as [rs h2].
    cbn [fst snd] in IH. destruct IH as (I1 & I2 & I3).
    cbn [fst snd map concat cs_frames length cs_count_n].
    rewrite H1, I1, H2, I2, I3. cbn [app]. repeat split.
Qed.

Lemma cs_frames_app fr cfg : forall a b txn,
  cs_frames fr cfg txn (a ++ b) =
  cs_frames fr cfg txn a ++ cs_frames fr cfg (cs_count_n fr txn (length a)) b.
Proof.
  induction a as [|o t IH]; intros b txn; [reflexivity|].
  cbn [app cs_frames length cs_count_n]. rewrite IH. reflexivity.
Qed.

(* the counter in closed form: request number i of a connection (0-based)
   carries transaction id th_id 0 i *)
Lemma cs_count_n_mbap n : forall txn, txn < 65536 ->
  cs_count_n FMbap txn n = (txn + N.of_nat n) mod 65536.
Proof.
  induction n as [|n IH]; intros txn Ht; cbn [cs_count_n cs_count].
  - lia.
  - rewrite IH by apply u16_lt. unfold u16. lia.
Qed.

Lemma cs_count_n_rtu n : forall txn, cs_count_n FRtu txn n = txn.
Proof. induction n as [|n IH]; intros txn; cbn [cs_count_n cs_count]; [reflexivity|apply IH]. Qed.

(* ---------------------------------------------------------------- the session *)

Section Session.
  Variables (fr : framing) (cfg : ccfg).
  Variables (pre : list cs_call) (vss : list values) (cut : cs_call) (vsc : values)
            (fresh : cs_call) (vsf : values).
  Hypothesis Hcfg : cfg_wf cfg.
  Hypothesis Hpre : Forall2 (cs_valid cfg) pre vss.
  Hypothesis Hcut : cs_valid cfg cut vsc.
  Hypothesis Hfresh : cs_valid cfg fresh vsf.

  (* what is common to the cut and the complete session: everything but the
     outcome of the last call on the first connection *)
  Lemma session_shape e k rc :
    (let h1 := mkhd (cs_count_n fr 0 (length pre)) [] false in
     let x := hd_call fr cfg h1 (csc_op cut) e (firstn k (cs_answer fr h1 cut)) in
     cr_res (fst x) = rc /\
     cr_writes (fst x) = [spec_frame fr (u16 (hd_txn h1 + 1)) (spec_pdu cfg (csc_op cut))]) ->
    let v := cut_session fr cfg pre cut e k fresh in
    csv_results v = map (@Ok values) vss ++ [rc] /\
    cut_failed (csv_closed v) /\
    csv_fresh v = Ok vsf /\
    csv_conns v = [cs_frames fr cfg 0 (map csc_op pre ++ [csc_op cut]);
                   [spec_frame fr 1 (spec_pdu cfg (csc_op fresh))]].
  Proof.
    intros Hx v. subst v. unfold cut_session.
    change (hd_open (mkhd 0 [] true)) with (mkhd 0 [] false).
    pose proof (earlier_ok fr cfg pre vss (mkhd 0 [] false) Hcfg Hpre eq_refl eq_refl eq_refl) as He.
    cbv zeta in He. cbn [hd_txn] in He.
    destruct (cs_earlier fr cfg (mkhd 0 [] false) pre) as [rs h1].
    cbn [fst snd] in He. destruct He as (E1 & E2 & E3). subst h1.
    cbv zeta in Hx.
    destruct (hd_call fr cfg (mkhd (cs_count_n fr 0 (length pre)) [] false) (csc_op cut) e
                (firstn k (cs_answer fr (mkhd (cs_count_n fr 0 (length pre)) [] false) cut)))
      as [rc0 h2].
    cbn [fst hd_txn] in Hx. destruct Hx as [X1 X2].
    destruct Hfresh as (Fwf & FV & Fb & Fans).
    destruct (handle_closed_fails fr cfg h2 (csc_op fresh) Stall [] Fwf) as (C1 & C2 & C3).
    destruct (hd_call fr cfg (hd_close h2) (csc_op fresh) Stall []) as [rx h4].
    cbn [fst snd] in C1, C2, C3. subst h4.
    rewrite hd_reopen_fresh.
    pose proof (call_answered fr cfg (mkhd 0 [] false) fresh vsf Stall Hcfg
                  (conj Fwf (conj FV (conj Fb Fans))) eq_refl eq_refl eq_refl) as Hf.
    cbv zeta in Hf. cbn [hd_txn] in Hf.
    destruct (hd_call fr cfg (mkhd 0 [] false) (csc_op fresh) Stall
                (cs_answer fr (mkhd 0 [] false) fresh)) as [rf h6].
    cbn [fst] in Hf. destruct Hf as (F1 & F2 & _).
    cbn [csv_results csv_closed csv_fresh csv_conns].
    rewrite E1, X1, F1. split; [reflexivity|]. split; [exact C1|]. split; [reflexivity|].
    rewrite E2, X2, C2, F2, app_nil_r. rewrite cs_frames_app, map_length.
    cbn [cs_frames]. change (u16 (0 + 1)) with 1. reflexivity.
  Qed.

  (* the reply of the k-th exchange is cut inside: an error, one frame *)
  Lemma session_cut e k :
    (k < reply_len fr (csc_reply cut))%nat ->
    let v := cut_session fr cfg pre cut e k fresh in
    csv_results v = map (@Ok values) vss ++ [Err (cut_err_class fr e k)] /\
    cut_failed (csv_closed v) /\
    csv_fresh v = Ok vsf /\
    csv_conns v = [cs_frames fr cfg 0 (map csc_op pre ++ [csc_op cut]);
                   [spec_frame fr 1 (spec_pdu cfg (csc_op fresh))]].
  Proof.
    intros Hk. apply session_shape. cbv zeta.
    destruct (call_cut fr cfg (mkhd (cs_count_n fr 0 (length pre)) [] false) cut vsc e k
                Hcfg Hcut eq_refl eq_refl (cs_count_n_lt fr _ 0 eq_refl) Hk) as (H1 & H2 & _).
    split; [exact H1|exact H2].
  Qed.

  (* control: the peer goes away after the complete reply: the call succeeds *)
  Lemma session_complete e k :
    (reply_len fr (csc_reply cut) <= k)%nat ->
    let v := cut_session fr cfg pre cut e k fresh in
    csv_results v = map (@Ok values) vss ++ [Ok vsc] /\
    cut_failed (csv_closed v) /\
    csv_fresh v = Ok vsf /\
    csv_conns v = [cs_frames fr cfg 0 (map csc_op pre ++ [csc_op cut]);
                   [spec_frame fr 1 (spec_pdu cfg (csc_op fresh))]].
  Proof.
    intros Hk. apply session_shape. cbv zeta.
    rewrite firstn_all2.
    - destruct (call_answered fr cfg (mkhd (cs_count_n fr 0 (length pre)) [] false) cut vsc e
                  Hcfg Hcut eq_refl eq_refl (cs_count_n_lt fr _ 0 eq_refl)) as (H1 & H2 & _).
      split; [exact H1|exact H2].
    - destruct Hcut as (_ & _ & Hb & Hans).
      unfold cs_answer. rewrite (device_frame_spec fr cfg _ _ vsc _ Hcfg Hb Hans).
      rewrite reply_frame_len. exact Hk.
  Qed.
End Session.

(* the cut call alone, in any state of an open handle with nothing unread *)
Lemma cut_any_state fr cfg h c vs e k :
  cfg_wf cfg -> cs_valid cfg c vs ->
  hd_closed h = false -> hd_unread h = [] -> hd_txn h < 65536 ->
  (k < reply_len fr (csc_reply c))%nat ->
  let r := fst (hd_call fr cfg h (csc_op c) e (firstn k (cs_answer fr h c))) in
  cut_failed (cr_res r) /\ (forall vs', cr_res r <> Ok vs') /\
  cr_writes r = [spec_frame fr (u16 (hd_txn h + 1)) (spec_pdu cfg (csc_op c))].
Proof.
  intros Hcfg Hv Hc Hu Ht Hk r. subst r.
  destruct (call_cut fr cfg h c vs e k Hcfg Hv Hc Hu Ht Hk) as (H1 & H2 & _).
  rewrite H1. split; [eexists; reflexivity|]. split; [discriminate|exact H2].
Qed.

(* ---------------------------------------------------------------- any history *)

Lemma firstn_behind {A} (a b : list A) k :
  a ++ firstn k b = firstn (length a + k) (a ++ b).
Proof.
  rewrite firstn_app_ge by lia. replace (length a + k - length a)%nat with k by lia. reflexivity.
Qed.

(* MBAP, after ANY history of calls on the connection (any calls, any peer
   bytes, any outcomes - Model/TxnHistory.v) that left only whole frames the
   next call has to pass over (or nothing) unread: the call whose reply is cut
   fails, and has transmitted exactly one frame, with the next transaction id *)
Lemma cut_after_history cfg xs frames o e res vs k :
  cfg_wf cfg -> Forall (fun x => op_wf (ths_op x)) xs ->
  let st := hist_final FMbap cfg th_init xs in
  let t := th_id 0 (th_sent xs) in
  th_left st = concat frames -> Forall (skippable t) frames ->
  op_wf o -> valid_op o = true -> bytesb (p_payload res) = true -> answers cfg o res vs ->
  (k < reply_len FMbap res)%nat ->
  let r := snd (hist_step FMbap cfg st (mkthstep o (firstn k (spec_frame FMbap t res)) e)) in
  cut_failed (cr_res r) /\ (forall vs', cr_res r <> Ok vs') /\
  cr_writes r = [spec_frame FMbap t (spec_pdu cfg o)].
Proof.
  intros Hcfg Hxs st t Hl Hsk Hwf V Hb Hans Hk r.
  assert (Ht : th_txn st < 65536).
  { subst st. rewrite hist_counter by (try exact Hxs; reflexivity). lia. }
  assert (Hid : u16 (th_txn st + 1) = t).
  { subst st t. rewrite hist_counter by (try exact Hxs; reflexivity).
    unfold th_id, u16. cbn [th_txn th_init]. lia. }
  subst r. unfold hist_step. cbn [snd ths_op ths_bytes ths_end].
  rewrite Hl, firstn_behind.
  set (e' := th_end_after (th_end st) e).
  assert (Hfr : th_txn st < 65536 /\ Forall (skippable (u16 (th_txn st + 1))) frames)
    by (rewrite Hid; split; assumption).
  assert (Hk' : (length (concat frames) + k <
                 length (concat frames ++ spec_frame FMbap (u16 (th_txn st + 1)) res))%nat).
  { rewrite app_length, reply_frame_len. lia. }
  rewrite <- Hid.
  pose proof (client_cut_never_ok FMbap cfg (th_txn st) o e' res vs frames _
                Hwf Hcfg V Hb Hans Hfr Hk') as Hcut.
  cbv zeta in Hcut. destruct Hcut as [H1 H2].
  split; [exact H1|]. split; [exact H2|].
  destruct (client_transmit FMbap cfg (th_txn st) o e'
              (firstn (length (concat frames) + k)
                 (concat frames ++ spec_frame FMbap (u16 (th_txn st + 1)) res)) Hwf Hcfg Ht) as [Hw _].
  exact (Hw V).
Qed.
