From Coq Require Import List NArith String Lia Bool.
From Coq Require Import ZifyBool ZifyNat ZifyN.
Import ListNotations.
From Modbus Require Import Base.Bytes Model.GoLite Gen.SrcPure Model.Crc Model.Encoding.
From Modbus Require Import Model.Wire Model.Client Model.Server.
From Modbus Require Import Proofs.GoLiteP Proofs.GoLiteLinkP Proofs.SrcCrcP Proofs.SrcLinkP Proofs.SrcMiscP Proofs.SrcClientP Proofs.SrcServerP.
Open Scope string_scope.
Open Scope N_scope.

(* server.go handleTransport as translated from the Go source (Gen/SrcPure.v),
   one iteration of the loop on a request with function code 1 or 2 (read
   coils / read discrete inputs), against the server model: payload length,
   quantity 1..2000, end address, the handler call, normalisation of the
   handler error, wrong-sized result, response = byte count + encodeBools;
   then the common tail (CloseLink for a protocol error, an exception response
   for any other error, WriteResponse). *)

Lemma bytesb_cons b l : bytesb (b :: l) = true -> b < 256 /\ bytesb l = true.
Proof.
  unfold bytesb. cbn [forallb]. unfold is_byte at 1. intros H.
  apply andb_true_iff in H as [H1 H2]. split; [lia|exact H2].
Qed.

(* uint32(addr) + uint32(quantity) - 1 > 0xffff *)
Lemma end_addr_cmp a q : a < 65536 -> q < 65536 -> q <> 0 ->
  (65535 <? ((a mod 2 ^ 32 + q mod 2 ^ 32) mod 2 ^ 32 + 2 ^ 32 - 1 mod 2 ^ 32) mod 2 ^ 32) =
  (65535 <? a + q - 1).
Proof.
  intros Ha Hq Hn. change (2 ^ 32) with 4294967296. lia.
Qed.

Lemma lt63_small x : x < 2 ^ 32 -> (x <? 2 ^ 63) = true.
Proof. change (2 ^ 32) with 4294967296. change (2 ^ 63) with 9223372036854775808. lia. Qed.

Ltac ok63 :=
  repeat match goal with
  | |- context [?x <? 2 ^ 63] =>
      rewrite (lt63_small x) by (change (2 ^ 32) with 4294967296; lia)
  end.

(* a handler error other than nil and the protocol error: the exception code of the model *)
Lemma herr_cases code : In code all_error_values -> code <> 0 -> code <> 16 ->
  match norm_herr (herr_of_code code) with
  | HNone => False
  | e => herr_code e = err_to_exc code
  end.
Proof.
  intros Hin H0 H16. vm_compute in Hin.
  repeat (destruct Hin as [Hin|Hin]; [subst code; try congruence; vm_compute; reflexivity|]).
  contradiction.
Qed.

Ltac gl_auto2 :=
  repeat (progress (gl_auto; cbn [firstn skipn map List.length nth_error upd app])).

(* also use the decided comparisons in the context *)
Ltac rw_eqs :=
  repeat match goal with
  | H : (_ =? _) = _ |- _ => rewrite H
  | H : (_ <? _) = _ |- _ => rewrite H
  end.
Ltac go := repeat (progress (rw_eqs; gl_auto2)).

Ltac fin := eexists; split; [|reflexivity]; reflexivity.

(* after WriteResponse: the write error is only logged *)
Ltac fin_write :=
  match goal with |- context [negb (?x =? 0)] => destruct (x =? 0) end; gl_auto2; fin.

(* t.WriteResponse(res) with the response the evaluation has built, then the end of the iteration *)
Ltac do_write Hwrite :=
  match goal with
  | |- context [_ "transport.WriteResponse" [?w0; VN ?u0; VN ?f0; VL [VN ?x]]] =>
      let Hw := fresh "Hw" in
      pose proof (Hwrite w0 (mkpdu u0 f0 [x])) as Hw;
      unfold vbytes in Hw; cbn [p_unit p_fc p_payload map] in Hw; rewrite Hw; clear Hw
  | |- context [_ "transport.WriteResponse" [?w0; VN ?u0; VN ?f0; VL (VN ?x :: map VN ?l)]] =>
      let Hw := fresh "Hw" in
      pose proof (Hwrite w0 (mkpdu u0 f0 (x :: l))) as Hw;
      unfold vbytes in Hw; cbn [p_unit p_fc p_payload map] in Hw; rewrite Hw; clear Hw
  end; gl_auto2; fin_write.

Lemma srv_iter_read_bits fe fuel W started tt ca cr w rest req :
  world_hyp fe W -> srv_callee_hyp fe -> List.length rest = 18%nat ->
  snd (w_read W w) = RdOk req -> (p_fc req = 1 \/ p_fc req = 2) ->
  srv_iter_spec fe fuel W started tt ca cr w rest req.
Proof.
  intros HW HC Hlen Hrd Hfc.
  destruct HW as (Hread & Hcoils & Hdisc & Hhold & Hinp & Hwrite & Hclose & Hherr).
  (* HandleCoils for a read: IsWrite false, Args nil *)
  pose proof (fun w0 ca0 cr0 u0 a0 q0 => Hcoils w0 ca0 cr0 u0 a0 q0 false []) as Hcoils0.
  change (vbools []) with (VL (@nil val)) in Hcoils0.
  destruct HC as (Hu16 & Hb16 & Henc & Hdec & Hb16s & Hu16s & Hmap).
  destruct (Hread w) as [Hr Hwf]. rewrite Hrd in Hr, Hwf. cbn [enc_rd rd_wf] in Hr, Hwf.
  destruct req as [u fc pl]. cbn [p_unit p_fc p_payload] in *.
  destruct Hwf as (Hpl & Hu & _).
  unfold srv_iter_spec, srv_state.
  do 18 (destruct rest as [|? rest]; [discriminate Hlen|]).
  destruct rest; [|discriminate Hlen]. clear Hlen.
  pose proof (Hmap 6 ltac:(vm_compute; tauto)) as Hm6. change (err_to_exc 6) with 2 in Hm6.
  pose proof (Hmap 8 ltac:(vm_compute; tauto)) as Hm8. change (err_to_exc 8) with 4 in Hm8.
  destruct Hfc as [Hfc|Hfc]; subst fc.
  all: unfold srv_parts; gl_step; rewrite Hr; gl_auto.
  all: unfold vbytes at 1; gl_auto; rewrite map_length.
  all: unfold srv_request, server_process; cbn [p_fc p_payload p_unit]; gl_consts; cbn [orb].
  all: destruct (Nat.eqb_spec (List.length pl) 4) as [E4|E4]; cbn [negb];
    [|replace (N.of_nat (List.length pl) =? 4) with false by lia; gl_auto;
      rewrite Hclose; gl_auto; fin].
  all: destruct pl as [|a [|b [|c [|d [|e pl]]]]]; try discriminate E4; clear E4.
  all: apply bytesb_cons in Hpl as [Ha Hpl]; apply bytesb_cons in Hpl as [Hb Hpl];
    apply bytesb_cons in Hpl as [Hc Hpl]; apply bytesb_cons in Hpl as [Hd _].
  all: pose proof (Hb16 BigE [a; b]) as Hab; pose proof (Hb16 BigE [c; d]) as Hcd;
    unfold vbytes in Hab, Hcd; cbn [endian_sel bytes_to_u16 map] in Hab, Hcd.
  all: cbn [List.length be_word skipn]; unfold vbytes; gl_auto2; rewrite Hab; gl_auto2; rewrite Hcd; gl_auto2.
  all: clear Hab Hcd.
  all: assert (Hadr : a * 256 + b < 65536) by lia; assert (Hq : c * 256 + d < 65536) by lia.
  all: revert Hadr Hq; generalize (a * 256 + b), (c * 256 + d); intros ad q Hadr Hq.
  all: destruct (2000 <? q) eqn:E1; cbn [orb]; gl_auto2; [rewrite Hclose; gl_auto2; fin|].
  all: destruct (q =? 0) eqn:E2; gl_auto2; [rewrite Hclose; gl_auto2; fin|].
  all: rewrite end_addr_cmp by lia.
  all: unfold exception_pdu; cbn [p_unit p_fc].
  all: destruct (65535 <? ad + q - 1) eqn:E3; gl_auto2; [rewrite Hm6; gl_auto2; do_write Hwrite|].
  (* the handler call *)
  all: unfold model_handler;
    match goal with |- context [w_handle _ ?w0 _ _ ?r] =>
      pose proof (Hherr w0 ca cr r) as [Hin _]
    end.
  all: first [rewrite Hdisc | rewrite Hcoils0].
  all: match goal with |- context [w_handle _ ?w0 _ _ ?r] =>
         destruct (w_handle W w0 ca cr r) as [w' [bools regs code]]
       end.
  all: cbn [snd hr_code hr_bools hr_regs r_err r_bools] in *; unfold vbools; gl_auto2; rewrite map_length.
  all: destruct (code =? 16) eqn:E16; gl_auto2;
    [apply N.eqb_eq in E16; subst code; change (herr_of_code 16) with HProtocol; cbn [norm_herr herr_code];
     rewrite Hm8; gl_auto2; do_write Hwrite|].
  all: destruct (code =? 0) eqn:E0; gl_auto2;
    [|go; rewrite (Hmap code Hin); gl_auto2;
      pose proof (herr_cases code Hin ltac:(lia) ltac:(lia)) as Hcase;
      destruct (norm_herr (herr_of_code code)); [contradiction| | |]; rewrite Hcase; do_write Hwrite].
  all: apply N.eqb_eq in E0; subst code; change (herr_of_code 0) with HNone; cbn [norm_herr].
  all: ok63; gl_auto2; unfold lenN.
  all: destruct (N.of_nat (List.length bools) =? q) eqn:El; go;
    [|rewrite Hm8; gl_auto2; do_write Hwrite].
  all: pose proof (Henc bools ltac:(lia)) as He; unfold vbools, vbytes in He.
  all: set (n := N.of_nat (List.length bools)) in *.
  all: destruct (n mod 8 =? 0) eqn:Em; go; rewrite He; go.
  all: [> replace ((n / 8) mod 2 ^ 8) with (u8 (n / 8 + 0))
            by (unfold u8; change (2 ^ 8) with 256; f_equal; lia)
        | replace (((n / 8) mod 2 ^ 8 + 1) mod 2 ^ 8) with (u8 (n / 8 + 1))
            by (unfold u8; change (2 ^ 8) with 256; lia)
        | replace ((n / 8) mod 2 ^ 8) with (u8 (n / 8 + 0))
            by (unfold u8; change (2 ^ 8) with 256; f_equal; lia)
        | replace (((n / 8) mod 2 ^ 8 + 1) mod 2 ^ 8) with (u8 (n / 8 + 1))
            by (unfold u8; change (2 ^ 8) with 256; lia) ].
  all: do_write Hwrite.
Qed.

(* the two function codes separately *)
Lemma srv_iter_read_coils fe fuel W started tt ca cr w rest req :
  world_hyp fe W -> srv_callee_hyp fe -> List.length rest = 18%nat ->
  snd (w_read W w) = RdOk req -> p_fc req = 1 ->
  srv_iter_spec fe fuel W started tt ca cr w rest req.
Proof. intros HW HC Hlen Hrd Hfc. apply srv_iter_read_bits; try assumption. left. exact Hfc. Qed.

Lemma srv_iter_read_discrete fe fuel W started tt ca cr w rest req :
  world_hyp fe W -> srv_callee_hyp fe -> List.length rest = 18%nat ->
  snd (w_read W w) = RdOk req -> p_fc req = 2 ->
  srv_iter_spec fe fuel W started tt ca cr w rest req.
Proof. intros HW HC Hlen Hrd Hfc. apply srv_iter_read_bits; try assumption. right. exact Hfc. Qed.
