(* encodeBools / decodeBools of encoding.go as translated from the Go source
   (Gen/SrcPure.v) compute encode_bools / decode_bools of Model/Encoding.v,
   for every input. *)
From Coq Require Import List NArith String Lia Bool.
From Coq Require Import ZifyBool ZifyNat ZifyN.
Import ListNotations.
From Modbus Require Import Base.Bytes Model.GoLite Gen.SrcPure Model.Crc Model.Encoding.
From Modbus Require Import Proofs.GoLiteP Proofs.SrcCrcP.
From Modbus Require Import Proofs.BoolsP.
Open Scope N_scope.

(* ---------------------------------------------------------------- list facts *)

Lemma upd_map {A B} (f : A -> B) l k v :
  upd (map f l) k (f v) = option_map (map f) (upd l k v).
Proof.
  revert k; induction l as [|h t IH]; intros [|k]; cbn [map upd option_map]; try reflexivity.
  rewrite IH. destruct (upd t k v); reflexivity.
Qed.

Lemma upd_some {A} (l : list A) k v : (k < List.length l)%nat -> exists l', upd l k v = Some l'.
Proof.
  revert k; induction l as [|h t IH]; intros k Hk; [cbn in Hk; lia|].
  destruct k as [|k]; cbn [upd]; [eexists; reflexivity|].
  destruct (IH k) as [t' E]; [cbn in Hk; lia|]. rewrite E. eexists; reflexivity.
Qed.

Lemma upd_spec {A} (l : list A) : forall l' k v, upd l k v = Some l' ->
  List.length l' = List.length l /\
  forall n, nth_error l' n = if Nat.eqb n k then Some v else nth_error l n.
Proof.
  induction l as [|h t IH]; intros l' k v H; [destruct k; discriminate|].
  destruct k as [|k]; cbn [upd] in H.
  - injection H as <-. split; [reflexivity|]. intros [|n]; reflexivity.
  - destruct (upd t k v) as [t'|] eqn:E; [|discriminate]. injection H as <-.
    destruct (IH _ _ _ E) as [Hl Hn]. split; [cbn [List.length]; lia|].
    intros [|n]; [reflexivity|]. cbn [nth_error Nat.eqb]. apply Hn.
Qed.

Lemma map_repeat' {A B} (f : A -> B) x n : map f (repeat x n) = repeat (f x) n.
Proof. induction n as [|n IH]; [reflexivity|]. cbn [repeat map]. rewrite IH. reflexivity. Qed.

Lemma nth_skipn' {A} (l : list A) d : forall n j, nth j (skipn n l) d = nth (n + j) l d.
Proof.
  induction l as [|h t IH]; intros n j.
  - rewrite skipn_nil. destruct j, n; reflexivity.
  - destruct n as [|n]; [reflexivity|]. cbn [skipn plus nth]. apply IH.
Qed.

Lemma nth_firstn' {A} (l : list A) d : forall n j,
  nth j (firstn n l) d = if (j <? n)%nat then nth j l d else d.
Proof.
  induction l as [|h t IH]; intros n j.
  - rewrite firstn_nil. destruct j; destruct (_ <? n)%nat; reflexivity.
  - destruct n as [|n]; [destruct j; reflexivity|].
    destruct j as [|j]; [reflexivity|]. cbn [firstn nth]. rewrite IH.
    change (S j <? S n)%nat with (j <? n)%nat. reflexivity.
Qed.

(* ---------------------------------------------------------------- the encodeBools invariant *)

(* bit j of byte k of the output, after the first i input bits have been processed *)
Definition bitspec (l : list bool) (i k : nat) (j : N) : bool :=
  (j <? 8) && (8 * k + N.to_nat j <? i)%nat && nth (8 * k + N.to_nat j) l false.

Definition enc_inv (l : list bool) (i : nat) (out : list N) : Prop :=
  List.length out = ((List.length l + 7) / 8)%nat /\
  forall k x, nth_error out k = Some x -> forall j, N.testbit x j = bitspec l i k j.

Lemma enc_inv_init l : enc_inv l 0 (repeat 0 ((List.length l + 7) / 8)).
Proof.
  split; [apply repeat_length|]. intros k x H j.
  apply nth_error_In in H. apply repeat_spec in H. subst x. rewrite N.bits_0.
  unfold bitspec. replace (8 * k + N.to_nat j <? 0)%nat with false by lia.
  rewrite andb_false_r. reflexivity.
Qed.

Lemma enc_inv_false l i out : nth i l false = false -> enc_inv l i out -> enc_inv l (S i) out.
Proof.
  intros Hb [Hlen Hinv]. split; [exact Hlen|]. intros k x H j. rewrite (Hinv k x H j).
  unfold bitspec. destruct (Nat.eq_dec (8 * k + N.to_nat j) i) as [E|E].
  - rewrite E, Hb. rewrite !andb_false_r. reflexivity.
  - replace (8 * k + N.to_nat j <? S i)%nat with (8 * k + N.to_nat j <? i)%nat by lia. reflexivity.
Qed.

Lemma enc_inv_true l i out out' x :
  nth i l false = true -> enc_inv l i out ->
  nth_error out (i / 8) = Some x ->
  upd out (i / 8) (N.lor x (2 ^ N.of_nat (i mod 8))) = Some out' ->
  enc_inv l (S i) out'.
Proof.
  intros Hb [Hlen Hinv] Hx Hu. destruct (upd_spec _ _ _ _ Hu) as [Hl' Hn'].
  split; [lia|]. intros k y H j. rewrite Hn' in H.
  destruct (Nat.eqb k (i / 8)) eqn:Ek.
  - apply Nat.eqb_eq in Ek. subst k. assert (Ey : y = N.lor x (2 ^ N.of_nat (i mod 8))) by congruence. subst y.
    rewrite N.lor_spec, N.pow2_bits_eqb, (Hinv _ _ Hx j). unfold bitspec.
    destruct (Nat.eq_dec (8 * (i / 8) + N.to_nat j) i) as [E|E].
    + rewrite E, Hb. replace (N.of_nat (i mod 8) =? j) with true by lia.
      replace (j <? 8) with true by lia. replace (i <? S i)%nat with true by lia.
      rewrite orb_true_r. reflexivity.
    + replace (N.of_nat (i mod 8) =? j) with false by lia. rewrite orb_false_r.
      replace (8 * (i / 8) + N.to_nat j <? S i)%nat with (8 * (i / 8) + N.to_nat j <? i)%nat by lia.
      reflexivity.
  - apply Nat.eqb_neq in Ek. rewrite (Hinv k y H j). unfold bitspec.
    destruct (j <? 8) eqn:Ej; [|reflexivity].
    replace (8 * k + N.to_nat j <? S i)%nat with (8 * k + N.to_nat j <? i)%nat by lia.
    reflexivity.
Qed.

Lemma enc_inv_final l out : enc_inv l (List.length l) out -> out = encode_bools l.
Proof.
  intros [Hlen Hinv]. apply nth_error_ext'. intros n.
  destruct (Nat.lt_ge_cases n (List.length out)) as [Hn|Hn].
  - rewrite encode_bools_nth by (rewrite encode_bools_len; lia).
    destruct (nth_error out n) as [x|] eqn:E; [|apply nth_error_None in E; lia].
    f_equal. apply N.bits_inj. intros j. rewrite (Hinv n x E j).
    rewrite <- (N2Nat.id j) at 2. rewrite testbit_bits_byte.
    rewrite nth_firstn', nth_skipn'. unfold bitspec.
    destruct (Nat.lt_ge_cases (8 * n + N.to_nat j) (List.length l)) as [Hj|Hj].
    + replace (8 * n + N.to_nat j <? List.length l)%nat with true by lia.
      rewrite andb_true_r.
      destruct (j <? 8) eqn:Ej.
      * replace (N.to_nat j <? 8)%nat with true by lia. reflexivity.
      * replace (N.to_nat j <? 8)%nat with false by lia. reflexivity.
    + rewrite (nth_overflow l) by lia. rewrite andb_false_r.
      destruct (N.to_nat j <? 8)%nat; reflexivity.
  - rewrite (proj2 (nth_error_None _ _)) by exact Hn. symmetry. apply nth_error_None.
    rewrite encode_bools_len. lia.
Qed.

(* ---------------------------------------------------------------- encodeBools *)

Lemma exec_seq5 fe fuel a b c d e r st :
  exec ge fe fuel st (SSeq a (SSeq b (SSeq c (SSeq d (SSeq e r))))) =
  exec ge fe fuel st (SSeq (SSeq a (SSeq b (SSeq c (SSeq d e)))) r).
Proof.
  cbn [exec].
  destruct (exec ge fe fuel st a) as [st1| | | |]; try reflexivity.
  destruct (exec ge fe fuel st1 b) as [st2| | | |]; try reflexivity.
  destruct (exec ge fe fuel st2 c) as [st3| | | |]; try reflexivity.
  destruct (exec ge fe fuel st3 d) as [st4| | | |]; try reflexivity.
Qed.

Definition enc_parts : stmt * stmt * expr * stmt * stmt :=
  Eval cbv in match f_body src_fn_encodeBools with
              | SSeq s1 (SSeq s2 (SSeq s3 (SSeq s4 (SSeq s5 (SSeq (SSeq s6 (SFor c p b)) _))))) =>
                  (SSeq s1 (SSeq s2 (SSeq s3 (SSeq s4 s5))), s6, c, p, b)
              | _ => (SSkip, SSkip, EB false, SSkip, SSkip)
              end.
Definition enc_prefix := fst (fst (fst (fst enc_parts))).
Definition enc_init := snd (fst (fst (fst enc_parts))).
Definition enc_cond := snd (fst (fst enc_parts)).
Definition enc_post := snd (fst enc_parts).
Definition enc_body := snd enc_parts.

Lemma enc_body_shape fe fuel st :
  exec ge fe fuel st (f_body src_fn_encodeBools) =
  exec ge fe fuel st (SSeq enc_prefix (SSeq (SSeq enc_init (SFor enc_cond enc_post enc_body)) (SReturn ENil))).
Proof. unfold enc_prefix, enc_parts. cbn [fst snd]. rewrite <- exec_seq5. reflexivity. Qed.

(* [gl_consts] of GoLiteP gives up as soon as one conversion has an open
   operand; this variant skips such occurrences *)
Ltac has_var t := match t with context [?x] => is_var x end.
Ltac closed_tm t := tryif has_var t then fail else idtac.
Ltac bl_consts :=
  repeat match goal with
  | |- context [N.to_nat ?a] => closed_tm a; let r := eval vm_compute in (N.to_nat a) in change (N.to_nat a) with r
  | |- context [N.of_nat ?a] => closed_tm a; let r := eval vm_compute in (N.of_nat a) in change (N.of_nat a) with r
  | |- context [N.eqb ?a ?b] => closed_tm a; closed_tm b; let r := eval vm_compute in (N.eqb a b) in change (N.eqb a b) with r
  | |- context [N.ltb ?a ?b] => closed_tm a; closed_tm b; let r := eval vm_compute in (N.ltb a b) in change (N.ltb a b) with r
  | |- context [N.leb ?a ?b] => closed_tm a; closed_tm b; let r := eval vm_compute in (N.leb a b) in change (N.leb a b) with r
  end.
Ltac bl_eval := repeat (progress (gl_cbv_sym; bl_consts)).

Lemma enc_prefix_eval fe fuel l :
  N.of_nat (List.length l) < 2 ^ 62 ->
  exec ge fe fuel [vbools l; VL []; VN 0; VN 0] enc_prefix =
  ONormal [vbools l; vbytes (repeat 0 ((List.length l + 7) / 8));
           VN (N.of_nat ((List.length l + 7) / 8)); VN 0].
Proof.
  intros Hlen. bl_eval. rewrite map_length.
  destruct (N.of_nat (List.length l) mod 8 =? 0) eqn:E; bl_eval; rewrite map_repeat'.
  - replace (N.of_nat (List.length l) mod 2 ^ 64 / 8) with (N.of_nat ((List.length l + 7) / 8)) by lia.
    rewrite Nat2N.id. reflexivity.
  - replace ((N.of_nat (List.length l) mod 2 ^ 64 / 8 + 1) mod 2 ^ 64)
      with (N.of_nat ((List.length l + 7) / 8)) by lia.
    rewrite Nat2N.id. reflexivity.
Qed.

Section EncLoop.
  Variable fe : fenv.
  Variable fuel : nat.

  Let condf := fun st' : state => eval ge fe st' enc_cond.
  Let bodyf := fun st' : state => exec ge fe fuel st' enc_body.
  Let postf := fun st' : state => exec ge fe fuel st' enc_post.

  Lemma enc_init_eval a b c d :
    exec ge fe fuel [a; b; c; d] enc_init = ONormal [a; b; c; VN 0].
  Proof. reflexivity. Qed.

  Lemma enc_cond_eval (l : list bool) out bc i :
    condf [vbools l; out; bc; VN i] = Ok (VB (i <? N.of_nat (List.length l) mod 2 ^ 64)).
  Proof. unfold condf, vbools. bl_eval. rewrite map_length. reflexivity. Qed.

  Lemma enc_post_eval a b c i :
    postf [a; b; c; VN i] = ONormal [a; b; c; VN ((i + 1) mod 2 ^ 64)].
  Proof. unfold postf. bl_eval. reflexivity. Qed.

  Lemma enc_body_false (l : list bool) out bc i :
    nth_error l i = Some false ->
    bodyf [vbools l; out; bc; VN (N.of_nat i)] = ONormal [vbools l; out; bc; VN (N.of_nat i)].
  Proof.
    intros Hb. unfold bodyf, vbools. bl_eval.
    rewrite Nat2N.id, nth_error_map, Hb. reflexivity.
  Qed.

  Lemma enc_body_true (l : list bool) out out' x bc i :
    nth_error l i = Some true ->
    nth_error out (i / 8) = Some x ->
    upd out (i / 8) (N.lor x (2 ^ N.of_nat (i mod 8))) = Some out' ->
    bodyf [vbools l; vbytes out; bc; VN (N.of_nat i)] =
    ONormal [vbools l; vbytes out'; bc; VN (N.of_nat i)].
  Proof.
    intros Hb Hx Hu. unfold bodyf, vbools, vbytes. bl_eval.
    rewrite Nat2N.id, nth_error_map, Hb. cbn [option_map]. bl_eval.
    replace (N.to_nat (N.of_nat i / 8)) with (i / 8)%nat by lia.
    rewrite nth_error_map, Hx. cbn [option_map].
    assert (Es : N.shiftl 1 (N.of_nat i mod 8) mod 2 ^ 8 = 2 ^ N.of_nat (i mod 8)).
    { replace (N.of_nat i mod 8) with (N.of_nat (i mod 8)) by lia.
      rewrite N.shiftl_1_l. apply N.mod_small. apply N.pow_lt_mono_r; lia. }
    rewrite Es. rewrite (upd_map VN), Hu. reflexivity.
  Qed.

  Lemma enc_loop (l : list bool) bc : N.of_nat (List.length l) < 2 ^ 62 ->
    forall m i out n,
    (i + m = List.length l)%nat -> (m < n)%nat -> enc_inv l i out ->
    for_go n condf bodyf postf [vbools l; vbytes out; bc; VN (N.of_nat i)] =
    ONormal [vbools l; vbytes (encode_bools l); bc; VN (N.of_nat (List.length l))].
  Proof.
    intros Hlen. induction m as [|m IH]; intros i out n Him Hn Hinv.
    - destruct n as [|n]; [lia|].
      replace i with (List.length l) in * by lia.
      rewrite for_go_exit.
      + rewrite <- (enc_inv_final l out Hinv). reflexivity.
      + rewrite enc_cond_eval.
        replace (N.of_nat (List.length l) <? N.of_nat (List.length l) mod 2 ^ 64) with false by lia.
        reflexivity.
    - destruct n as [|n]; [lia|].
      assert (Hi : (i < List.length l)%nat) by lia.
      assert (Hc : condf [vbools l; vbytes out; bc; VN (N.of_nat i)] = Ok (VB true)).
      { rewrite enc_cond_eval.
        replace (N.of_nat i <? N.of_nat (List.length l) mod 2 ^ 64) with true by lia. reflexivity. }
      assert (Hp : forall a b c, postf [a; b; c; VN (N.of_nat i)] = ONormal [a; b; c; VN (N.of_nat (S i))]).
      { intros a b c. rewrite enc_post_eval.
        replace ((N.of_nat i + 1) mod 2 ^ 64) with (N.of_nat (S i)) by lia. reflexivity. }
      pose proof (nth_error_nth' l false Hi) as Hb.
      destruct (nth i l false) eqn:Eb.
      + assert (Hk : (i / 8 < List.length out)%nat) by (destruct Hinv as [Hl _]; lia).
        destruct (nth_error out (i / 8)) as [x|] eqn:Ex; [|apply nth_error_None in Ex; lia].
        destruct (upd_some out (i / 8) (N.lor x (2 ^ N.of_nat (i mod 8))) Hk) as [out' Hu].
        erewrite for_go_step; [|exact Hc|apply (enc_body_true l out out' x); eassumption|apply Hp].
        apply IH; [lia|lia|]. apply (enc_inv_true l i out out' x); assumption.
      + erewrite for_go_step; [|exact Hc|apply enc_body_false; exact Hb|apply Hp].
        apply IH; [lia|lia|]. apply enc_inv_false; assumption.
  Qed.
End EncLoop.

Lemma run_encodeBools fe fuel l :
  N.of_nat (List.length l) < 2 ^ 62 -> (List.length l < fuel)%nat ->
  run_fn ge fe fuel src_fn_encodeBools [vbools l] = Ok [vbytes (encode_bools l)].
Proof.
  intros Hlen Hfuel. unfold run_fn.
  cbn [f_nparams f_zeros f_outs f_results src_fn_encodeBools List.length Nat.eqb negb app].
  rewrite enc_body_shape.
  cbn [exec]. rewrite enc_prefix_eval by exact Hlen. rewrite enc_init_eval.
  rewrite (enc_loop fe fuel l _ Hlen (List.length l) 0%nat); [reflexivity|lia|exact Hfuel|apply enc_inv_init].
Qed.

(* ---------------------------------------------------------------- decodeBools *)

Definition dec_parts : stmt * expr * stmt * stmt :=
  Eval cbv in match f_body src_fn_decodeBools with
              | SSeq _ (SSeq (SSeq s (SFor c p b)) _) => (s, c, p, b)
              | _ => (SSkip, EB false, SSkip, SSkip)
              end.
Definition dec_init := fst (fst (fst dec_parts)).
Definition dec_cond := snd (fst (fst dec_parts)).
Definition dec_post := snd (fst dec_parts).
Definition dec_body := snd dec_parts.

Lemma testbit_shr_land b m : (N.land (N.shiftr b m) 1 =? 1) = N.testbit b m.
Proof.
  rewrite <- (N.add_0_l m) at 2. rewrite <- N.shiftr_spec'.
  change 1 with (N.ones 1) at 1. rewrite N.land_ones. change (2 ^ 1) with 2.
  rewrite <- N.bit0_mod. destruct (N.testbit (N.shiftr b m) 0); reflexivity.
Qed.

Section DecLoop.
  Variable fe : fenv.
  Variable fuel : nat.

  Let condf := fun st' : state => eval ge fe st' dec_cond.
  Let bodyf := fun st' : state => exec ge fe fuel st' dec_body.
  Let postf := fun st' : state => exec ge fe fuel st' dec_post.

  Lemma dec_cond_eval q inl out i :
    condf [VN q; inl; out; VN i] = Ok (VB (i <? q mod 2 ^ 64)).
  Proof. reflexivity. Qed.

  Lemma dec_post_eval a b c i :
    postf [a; b; c; VN i] = ONormal [a; b; c; VN ((i + 1) mod 2 ^ 64)].
  Proof. unfold postf. bl_eval. reflexivity. Qed.

  Lemma dec_body_eval q bs (out : list bool) i :
    bodyf [VN q; vbytes bs; vbools out; VN (N.of_nat i)] =
    match decode_bool_at bs i with
    | Some b => ONormal [VN q; vbytes bs; vbools (out ++ [b]); VN (N.of_nat i)]
    | None => OFail Panic
    end.
  Proof.
    match goal with |- _ = ?r => remember r as R eqn:ER end.
    unfold bodyf, vbools, vbytes. bl_eval.
    replace (N.to_nat (N.of_nat i / 8)) with (i / 8)%nat by lia.
    rewrite nth_error_map. subst R. unfold decode_bool_at.
    destruct (nth_error bs (i / 8)) as [b|]; cbn [option_map]; [|reflexivity].
    match goal with |- _ = ?r => remember r as R eqn:ER end.
    bl_eval. rewrite testbit_shr_land.
    replace (N.of_nat i mod 8) with (N.of_nat (i mod 8)) by lia.
    subst R. unfold vbools, vbytes. rewrite map_app. reflexivity.
  Qed.

  Lemma dec_loop q bs : q < 65536 ->
    forall m i out n,
    (i + m = N.to_nat q)%nat -> (m < n)%nat ->
    for_go n condf bodyf postf [VN q; vbytes bs; vbools out; VN (N.of_nat i)] =
    match sequence (map (decode_bool_at bs) (seq i m)) with
    | Some r => ONormal [VN q; vbytes bs; vbools (out ++ r); VN q]
    | None => OFail Panic
    end.
  Proof.
    intros Hq. induction m as [|m IH]; intros i out n Him Hn.
    - destruct n as [|n]; [lia|].
      cbn [seq map sequence]. rewrite app_nil_r.
      rewrite for_go_exit.
      + replace (N.of_nat i) with q by lia. reflexivity.
      + rewrite dec_cond_eval. replace (N.of_nat i <? q mod 2 ^ 64) with false by lia. reflexivity.
    - destruct n as [|n]; [lia|].
      assert (Hc : condf [VN q; vbytes bs; vbools out; VN (N.of_nat i)] = Ok (VB true)).
      { rewrite dec_cond_eval. replace (N.of_nat i <? q mod 2 ^ 64) with true by lia. reflexivity. }
      cbn [seq map sequence].
      pose proof (dec_body_eval q bs out i) as Hb.
      destruct (decode_bool_at bs i) as [b|].
      + erewrite for_go_step; [|exact Hc|exact Hb|apply dec_post_eval].
        replace ((N.of_nat i + 1) mod 2 ^ 64) with (N.of_nat (S i)) by lia.
        rewrite IH by lia.
        destruct (sequence (map (decode_bool_at bs) (seq (S i) m))) as [r|]; [|reflexivity].
        rewrite <- app_assoc. reflexivity.
      + apply for_go_body_fail; [exact Hc|exact Hb].
  Qed.
End DecLoop.

Lemma run_decodeBools fe fuel q bs :
  q < 65536 -> (N.to_nat q < fuel)%nat -> bytesb bs = true ->
  run_fn ge fe fuel src_fn_decodeBools [VN q; vbytes bs] =
  match decode_bools (N.to_nat q) bs with Some r => Ok [vbools r] | None => Panic end.
Proof.
  intros Hq Hfuel _.
  pose proof (dec_loop fe fuel q bs Hq (N.to_nat q) 0%nat [] fuel eq_refl Hfuel) as E.
  cbn [app N.of_nat] in E. unfold run_fn.
  change (f_body src_fn_decodeBools) with
    (SSeq (SSet (LVar 3) (EN 0)) (SSeq (SSeq dec_init (SFor dec_cond dec_post dec_body)) (SReturn ENil))).
  cbn [f_nparams f_zeros f_outs f_results src_fn_decodeBools List.length Nat.eqb negb app].
  cbn [exec resolve eval rbind store set_slot sset get_slot sget].
  change (exec ge fe fuel [VN q; vbytes bs; VL []; VN 0] dec_init)
    with (ONormal [VN q; vbytes bs; vbools []; VN 0]).
  cbv beta iota. rewrite E. unfold decode_bools.
  destruct (sequence (map (decode_bool_at bs) (seq 0 (N.to_nat q)))) as [r|]; reflexivity.
Qed.
