(* Proofs about Model/TlsPolicy.v (property C14). The two handshake oracles,
   the verification oracle and the clock are section variables; what Go's
   crypto/tls documents about them (tls_srv_documented, tls_cli_documented)
   is an explicit premise of every lemma that needs it. *)
From Modbus Require Import Base.Bytes Model.Encoding Model.Wire Model.Client Model.Server
  Model.Role Model.Config Model.TlsPolicy
  Spec.ModbusSpec Spec.ServerSpec Spec.ServerSessionSpec Spec.ConfigSpec Spec.TlsSpec
  Proofs.ConfigP Proofs.ServerP.
From Coq Require Import ZifyBool ZifyNat ZifyN.
Ltac Zify.zify_post_hook ::= Z.div_mod_to_equations.

(* ------------------------------------------------------------ constants *)

Lemma tls_geb_12 v : tls_version_geb v TLS12 = true -> tls12_or_later v.
Proof. unfold tls12_or_later. destruct v; cbv; intros H; try discriminate H; auto. Qed.

Lemma tls_geb_12_iff v : tls_version_geb v TLS12 = true <-> tls12_or_later v.
Proof.
  split; [apply tls_geb_12|]. intros [-> | ->]; reflexivity.
Qed.

(* T5: the constants the repository hands to crypto/tls *)
Lemma tls_server_policy_pinned c :
  tpo_client_auth (tls_policy_of_server c) = TlsRequireAndVerify /\
  tpo_min_version (tls_policy_of_server c) = TLS12 /\
  tpo_pool (tls_policy_of_server c) = tsv_cas c /\
  tpo_own_cert (tls_policy_of_server c) = tsv_cert c /\
  tpo_skip_verify (tls_policy_of_server c) = false.
Proof. repeat split; reflexivity. Qed.

Lemma tls_client_policy_pinned c :
  tpo_min_version (tls_policy_of_client c) = TLS12 /\
  tpo_skip_verify (tls_policy_of_client c) = false /\
  tpo_pool (tls_policy_of_client c) = tcl_roots c /\
  tpo_own_cert (tls_policy_of_client c) = tcl_cert c /\
  tpo_server_name (tls_policy_of_client c) = tls_dial_host (snd (url_parts (tcl_url c))).
Proof. repeat split; reflexivity. Qed.

(* the host name is the dialled address up to its last colon *)
Lemma tls_cut_last_colon_app host port :
  ~ In 58 port -> tls_cut_last_colon (host ++ 58 :: port) = Some host.
Proof.
  intros Hp.
  assert (Hn : tls_cut_last_colon port = None).
  { induction port as [|c t IH]; [reflexivity|]. cbn [tls_cut_last_colon].
    rewrite IH by (intros H; apply Hp; right; exact H).
    destruct (c =? 58) eqn:E; [|reflexivity].
    apply N.eqb_eq in E. subst c. exfalso. apply Hp. left. reflexivity. }
  induction host as [|c t IH]; cbn [app tls_cut_last_colon].
  - rewrite Hn. reflexivity.
  - rewrite IH. reflexivity.
Qed.

Lemma tls_dial_host_port host port :
  ~ In 58 port -> tls_dial_host (host ++ 58 :: port) = host.
Proof. intros H. unfold tls_dial_host. rewrite tls_cut_last_colon_app by exact H. reflexivity. Qed.

(* ---------------------------------------------------------- constructors *)

(* T3 *)
Lemma tls_new_server_refuses_iff c rest :
  url_scheme (tsv_url c) STcpTls rest -> rest <> [] ->
  (tls_new_server c = CfgErr EConfig <-> tsv_cert c = None \/ tsv_cas c = None).
Proof.
  intros Hu Hr. unfold tls_new_server, new_server, tsv_base.
  cbn [sc_url sc_has_cert sc_has_cas sc_timeout sc_max_clients].
  rewrite (url_parts_scheme _ _ _ Hu), kind_of_scheme.
  destruct rest as [|r0 rest]; [destruct (Hr eq_refl)|].
  cbn [scheme_transport].
  destruct (tsv_cert c), (tsv_cas c); cbn [tls_is_some negb]; split; intros H.
  all: try discriminate H; try reflexivity; try (left; reflexivity); try (right; reflexivity).
  all: destruct H as [H|H]; discriminate H.
Qed.

Lemma tls_new_client_refuses_iff c rest :
  url_scheme (tcl_url c) STcpTls rest ->
  (tls_new_client c = CfgErr EConfig <-> tcl_cert c = None \/ tcl_roots c = None).
Proof.
  intros Hu. unfold tls_new_client, new_client, tcl_base.
  cbn [cc_url cc_has_cert cc_has_cas cc_timeout cc_speed cc_data_bits cc_stop_bits cc_parity].
  rewrite (url_parts_scheme _ _ _ Hu), kind_of_scheme.
  cbn [scheme_transport].
  destruct (tcl_cert c), (tcl_roots c); cbn [tls_is_some negb]; split; intros H.
  all: try discriminate H; try reflexivity; try (left; reflexivity); try (right; reflexivity).
  all: destruct H as [H|H]; discriminate H.
Qed.

Lemma tls_new_server_accepts c rest cert cas :
  url_scheme (tsv_url c) STcpTls rest -> rest <> [] ->
  tsv_cert c = Some cert -> tsv_cas c = Some cas ->
  exists eff, tls_new_server c = CfgOk eff /\ se_transport eff = TTcpOverTls.
Proof.
  intros Hu Hr Hc Ha. exists (spec_server_eff STcpTls rest (tsv_base c)). split; [|reflexivity].
  apply new_server_ok; [exact Hu | reflexivity | exact Hr |].
  intros _. cbn [tsv_base sc_has_cert sc_has_cas]. rewrite Hc, Ha. split; reflexivity.
Qed.

Lemma tls_new_client_accepts c rest cert roots :
  url_scheme (tcl_url c) STcpTls rest ->
  tcl_cert c = Some cert -> tcl_roots c = Some roots ->
  exists eff, tls_new_client c = CfgOk eff /\ ce_transport eff = TTcpOverTls.
Proof.
  intros Hu Hc Ha. exists (spec_client_eff STcpTls rest (tcl_base c)). split; [|reflexivity].
  apply new_client_ok; [exact Hu|].
  intros _. cbn [tcl_base cc_has_cert cc_has_cas]. rewrite Hc, Ha. split; reflexivity.
Qed.

(* a tcp+tls server object exists only with both credentials, and its
   transport type is the TLS one *)
Lemma tls_new_server_tls c rest eff :
  url_scheme (tsv_url c) STcpTls rest -> tls_new_server c = CfgOk eff ->
  se_transport eff = TTcpOverTls /\
  exists cert cas, tsv_cert c = Some cert /\ tsv_cas c = Some cas.
Proof.
  intros Hu H. unfold tls_new_server in H.
  assert (Hu' : url_scheme (sc_url (tsv_base c)) STcpTls rest) by exact Hu.
  pose proof (new_server_eff _ _ _ _ H Hu') as He. split; [rewrite He; reflexivity|].
  destruct (new_server_inv _ _ H) as (s & r & Hu2 & _ & _ & Hc).
  destruct (url_scheme_unique _ _ _ _ _ Hu' Hu2) as [<- _].
  destruct (Hc eq_refl) as [H1 H2]. cbn [tsv_base sc_has_cert sc_has_cas] in H1, H2.
  destruct (tsv_cert c) as [cert|]; [|discriminate H1].
  destruct (tsv_cas c) as [cas|]; [|discriminate H2]. eauto.
Qed.

Lemma tls_new_client_tls c rest eff :
  url_scheme (tcl_url c) STcpTls rest -> tls_new_client c = CfgOk eff ->
  ce_transport eff = TTcpOverTls /\
  exists cert roots, tcl_cert c = Some cert /\ tcl_roots c = Some roots.
Proof.
  intros Hu H. unfold tls_new_client in H.
  assert (Hu' : url_scheme (cc_url (tcl_base c)) STcpTls rest) by exact Hu.
  pose proof (new_client_eff _ _ _ _ H Hu') as He. split; [rewrite He; reflexivity|].
  destruct (new_client_inv _ _ H) as (s & r & Hu2 & Hc).
  destruct (url_scheme_unique _ _ _ _ _ Hu' Hu2) as [<- _].
  destruct (Hc eq_refl) as [H1 H2]. cbn [tcl_base cc_has_cert cc_has_cas] in H1, H2.
  destruct (tcl_cert c) as [cert|]; [|discriminate H1].
  destruct (tcl_roots c) as [roots|]; [|discriminate H2]. eauto.
Qed.

Section TlsProofs.
  Variable hs hc : tls_policy -> tls_peer -> option tls_session.
  Variable verifies : option (list tls_cert) -> tls_usage -> N -> list N -> list tls_cert -> Prop.
  Variable now : N.

  (* ---------------------------------------------------------- server *)

  Lemma tls_start_tls_some c peer role :
    tls_start_tls hs c peer = Some role ->
    exists sess leaf more,
      hs (tls_policy_of_server c) peer = Some sess /\
      tss_peer_certs sess = leaf :: more /\ role = extract_role (tlc_exts leaf).
  Proof.
    unfold tls_start_tls. destruct (hs (tls_policy_of_server c) peer) as [sess|]; [|discriminate].
    destruct (tss_peer_certs sess) as [|leaf more] eqn:Ec; [discriminate|].
    intros [= <-]. exists sess, leaf, more. auto.
  Qed.

  Section WithRoleHandler.
    Context {St : Type} (h : list N -> handler St).

    (* handleTCPClient: no successful startTLS, no handleTransport *)
    Lemma tls_server_call_handshake c rest peer st e s r :
      url_scheme (tsv_url c) STcpTls rest ->
      In (EvCall r) (tls_server_conn hs h c peer st e s) ->
      exists sess, hs (tls_policy_of_server c) peer = Some sess.
    Proof.
      intros Hu. unfold tls_server_conn.
      destruct (tls_new_server c) as [eff|x] eqn:En; [|intros []].
      destruct (tls_new_server_tls c rest eff Hu En) as [-> _].
      destruct (tls_start_tls hs c peer) as [role|] eqn:Es.
      - apply tls_start_tls_some in Es. destruct Es as (sess & _ & _ & Hs & _). eauto.
      - intros [H|[]]. discriminate H.
    Qed.

    Lemma tls_server_handshake_failed c eff peer st e s :
      tls_new_server c = CfgOk eff -> se_transport eff = TTcpOverTls ->
      hs (tls_policy_of_server c) peer = None ->
      tls_server_conn hs h c peer st e s = [EvClosed].
    Proof.
      intros En Ht Hs. unfold tls_server_conn, tls_start_tls. rewrite En, Ht, Hs. reflexivity.
    Qed.

    (* T1 *)
    Lemma tls_server_call_authenticated c rest peer st e s r :
      tls_srv_documented hs verifies now ->
      url_scheme (tsv_url c) STcpTls rest ->
      In (EvCall r) (tls_server_conn hs h c peer st e s) ->
      exists cas sess,
        tsv_cas c = Some cas /\
        hs (tls_policy_of_server c) peer = Some sess /\
        spec_client_authenticated verifies now cas peer sess.
    Proof.
      intros Hdoc Hu Hin.
      destruct (tls_server_call_handshake c rest peer st e s r Hu Hin) as [sess Hs].
      assert (Hcas : exists cas, tsv_cas c = Some cas).
      { unfold tls_server_conn in Hin. destruct (tls_new_server c) as [eff|x] eqn:En; [|destruct Hin].
        destruct (tls_new_server_tls c rest eff Hu En) as (_ & cert & cas & _ & Hc). eauto. }
      destruct Hcas as [cas Hcas]. exists cas, sess. split; [exact Hcas|]. split; [exact Hs|].
      destruct (Hdoc _ _ _ Hs) as (Htls & Hoff & Hge & Hrv).
      destruct (Hrv eq_refl) as (Hcerts & Hne & Hver).
      cbn [tls_policy_of_server tpo_pool tpo_min_version] in Hver, Hge.
      rewrite Hcas in Hver.
      destruct (tpe_chain peer) as [|leaf more] eqn:Ech; [destruct (Hne eq_refl)|].
      unfold spec_client_authenticated. split; [exact Htls|].
      split; [apply tls_geb_12; exact Hge|]. split; [exact Hoff|].
      exists leaf, more. rewrite Ech. auto.
    Qed.

    (* the decision rules in the refusing direction *)
    Lemma tls_server_unauthenticated c rest peer st e s :
      tls_srv_documented hs verifies now ->
      url_scheme (tsv_url c) STcpTls rest ->
      (forall cas sess, tsv_cas c = Some cas -> ~ spec_client_authenticated verifies now cas peer sess) ->
      forall r, ~ In (EvCall r) (tls_server_conn hs h c peer st e s).
    Proof.
      intros Hdoc Hu Hno r Hin.
      destruct (tls_server_call_authenticated c rest peer st e s r Hdoc Hu Hin) as (cas & sess & Hc & _ & Ha).
      exact (Hno cas sess Hc Ha).
    Qed.

    Lemma tls_server_plain_peer c rest peer st e s :
      tls_srv_documented hs verifies now ->
      url_scheme (tsv_url c) STcpTls rest ->
      tpe_speaks_tls peer = false ->
      forall r, ~ In (EvCall r) (tls_server_conn hs h c peer st e s).
    Proof.
      intros Hdoc Hu Hp. apply (tls_server_unauthenticated c rest); [exact Hdoc | exact Hu|].
      intros cas sess _ (Ht & _). congruence.
    Qed.

    Lemma tls_server_no_certificate c rest peer st e s :
      tls_srv_documented hs verifies now ->
      url_scheme (tsv_url c) STcpTls rest ->
      tpe_chain peer = [] ->
      forall r, ~ In (EvCall r) (tls_server_conn hs h c peer st e s).
    Proof.
      intros Hdoc Hu Hp. apply (tls_server_unauthenticated c rest); [exact Hdoc | exact Hu|].
      intros cas sess _ (_ & _ & _ & leaf & more & Hc & _). congruence.
    Qed.

    Lemma tls_server_unverified c rest peer st e s :
      tls_srv_documented hs verifies now ->
      url_scheme (tsv_url c) STcpTls rest ->
      (forall cas, tsv_cas c = Some cas ->
                   ~ verifies (Some cas) TlsUsageClientAuth now [] (tpe_chain peer)) ->
      forall r, ~ In (EvCall r) (tls_server_conn hs h c peer st e s).
    Proof.
      intros Hdoc Hu Hp. apply (tls_server_unauthenticated c rest); [exact Hdoc | exact Hu|].
      intros cas sess Hc (_ & _ & _ & leaf & more & Hch & _ & Hv).
      apply (Hp cas Hc). rewrite Hch. exact Hv.
    Qed.

    Lemma tls_server_old_version c rest peer st e s :
      tls_srv_documented hs verifies now ->
      url_scheme (tsv_url c) STcpTls rest ->
      (forall v, In v (tpe_versions peer) -> v = TLS10 \/ v = TLS11) ->
      forall r, ~ In (EvCall r) (tls_server_conn hs h c peer st e s).
    Proof.
      intros Hdoc Hu Hp. apply (tls_server_unauthenticated c rest); [exact Hdoc | exact Hu|].
      intros cas sess _ (_ & Hv & Hin & _).
      destruct (Hp _ Hin) as [E|E]; rewrite E in Hv; destruct Hv; discriminate.
    Qed.

    (* T4: an authenticated peer is served, with the role of its leaf *)
    Lemma tls_server_serves c rest peer sess st e t p r tail :
      tls_srv_documented hs verifies now ->
      (forall role, handler_wf (h role)) ->
      url_scheme (tsv_url c) STcpTls rest -> rest <> [] ->
      tsv_cert c <> None -> tsv_cas c <> None ->
      hs (tls_policy_of_server c) peer = Some sess ->
      t < 65536 -> pdu_wf p -> spec_decode p = Some r -> in_range r = true ->
      exists leaf more,
        tpe_chain peer = leaf :: more /\
        let role := extract_role (tlc_exts leaf) in
        tls_server_conn hs h c peer st e (spec_mbap t p ++ tail) =
        EvCall r :: EvResp (spec_mbap t (spec_response p r (snd (h role st r)))) ::
        server_run (h role) (fst (h role st r)) e tail.
    Proof.
      intros Hdoc Hwf Hu Hr Hcert Hcas Hs Ht Hp Hdec Hrange.
      destruct (tsv_cert c) as [cert|] eqn:Ec; [|destruct (Hcert eq_refl)].
      destruct (tsv_cas c) as [cas|] eqn:Ea; [|destruct (Hcas eq_refl)].
      destruct (tls_new_server_accepts c rest cert cas Hu Hr Ec Ea) as (eff & En & Htr).
      destruct (Hdoc _ _ _ Hs) as (_ & _ & _ & Hrv).
      destruct (Hrv eq_refl) as (Hcerts & Hne & _).
      destruct (tpe_chain peer) as [|leaf more] eqn:Ech; [destruct (Hne eq_refl)|].
      exists leaf, more. split; [reflexivity|]. cbv zeta.
      unfold tls_server_conn, tls_start_tls. rewrite En, Htr, Hs, Hcerts.
      set (role := extract_role (tlc_exts leaf)).
      pose proof (server_pipelined (h role) [(t, p)] tail st e) as HP.
      cbn [map concat fst snd] in HP. rewrite app_nil_r in HP.
      rewrite HP by (constructor; [split; assumption | constructor]).
      cbn [spec_session].
      pose proof (server_process_spec (h role) st p Hp (Hwf role)) as HS.
      unfold process_ok in HS.
      destruct (server_process (h role) st p) as [[st' calls] act].
      rewrite Hdec, Hrange in HS. destruct HS as (-> & _ & -> & ->).
      reflexivity.
    Qed.
  End WithRoleHandler.

  (* ---------------------------------------------------------- client *)

  Lemma tls_client_tx_handshake c rest server cfg txn o e s :
    url_scheme (tcl_url c) STcpTls rest ->
    tls_client_tx hc c server cfg txn o e s <> [] ->
    exists sess, hc (tls_policy_of_client c) server = Some sess.
  Proof.
    intros Hu. unfold tls_client_tx.
    destruct (tls_new_client c) as [eff|x] eqn:En; [|intros H; destruct (H eq_refl)].
    destruct (tls_new_client_tls c rest eff Hu En) as [Htr _].
    unfold tls_client_open. rewrite Htr.
    destruct (hc (tls_policy_of_client c) server) as [sess|]; [eauto|].
    intros H; destruct (H eq_refl).
  Qed.

  Lemma tls_client_handshake_failed c rest server cfg txn o e s :
    url_scheme (tcl_url c) STcpTls rest ->
    hc (tls_policy_of_client c) server = None ->
    tls_client_tx hc c server cfg txn o e s = [].
  Proof.
    intros Hu Hn. destruct (tls_client_tx hc c server cfg txn o e s) as [|w ws] eqn:E; [reflexivity|].
    destruct (tls_client_tx_handshake c rest server cfg txn o e s Hu) as [sess Hs];
      [rewrite E; discriminate | congruence].
  Qed.

  (* T2 *)
  Lemma tls_client_tx_authenticated c rest server cfg txn o e s :
    tls_cli_documented hc verifies now ->
    url_scheme (tcl_url c) STcpTls rest ->
    tls_client_tx hc c server cfg txn o e s <> [] ->
    exists roots sess,
      tcl_roots c = Some roots /\
      hc (tls_policy_of_client c) server = Some sess /\
      spec_server_authenticated verifies now roots (tls_dial_host rest) server sess.
  Proof.
    intros Hdoc Hu Hne.
    destruct (tls_client_tx_handshake c rest server cfg txn o e s Hu Hne) as [sess Hs].
    assert (Hroots : exists roots, tcl_roots c = Some roots).
    { unfold tls_client_tx in Hne.
      destruct (tls_new_client c) as [eff|x] eqn:En; [|destruct (Hne eq_refl)].
      destruct (tls_new_client_tls c rest eff Hu En) as (_ & cert & roots & _ & Hr). eauto. }
    destruct Hroots as [roots Hroots]. exists roots, sess.
    split; [exact Hroots|]. split; [exact Hs|].
    destruct (Hdoc _ _ _ Hs) as (Htls & Hoff & Hge & Hrv).
    destruct (Hrv eq_refl) as (Hcerts & Hnc & Hver).
    cbn [tls_policy_of_client tpo_pool tpo_min_version tpo_server_name] in Hver, Hge.
    rewrite Hroots, (url_parts_scheme _ _ _ Hu) in Hver. cbn [snd] in Hver.
    destruct (tpe_chain server) as [|leaf more] eqn:Ech; [destruct (Hnc eq_refl)|].
    unfold spec_server_authenticated. split; [exact Htls|].
    split; [apply tls_geb_12; exact Hge|]. split; [exact Hoff|].
    exists leaf, more. rewrite Ech. auto.
  Qed.

  Lemma tls_client_unauthenticated c rest server cfg txn o e s :
    tls_cli_documented hc verifies now ->
    url_scheme (tcl_url c) STcpTls rest ->
    (forall roots sess, tcl_roots c = Some roots ->
       ~ spec_server_authenticated verifies now roots (tls_dial_host rest) server sess) ->
    tls_client_tx hc c server cfg txn o e s = [].
  Proof.
    intros Hdoc Hu Hno.
    destruct (tls_client_tx hc c server cfg txn o e s) as [|w ws] eqn:E; [reflexivity|].
    destruct (tls_client_tx_authenticated c rest server cfg txn o e s Hdoc Hu) as (roots & sess & Hr & _ & Ha);
      [rewrite E; discriminate|].
    destruct (Hno roots sess Hr Ha).
  Qed.

  (* towards an authenticated server the request goes out *)
  Lemma tls_client_sends c rest server sess cfg txn o e s req :
    url_scheme (tcl_url c) STcpTls rest ->
    tcl_cert c <> None -> tcl_roots c <> None ->
    hc (tls_policy_of_client c) server = Some sess ->
    client_request cfg o = Ok req ->
    tls_client_tx hc c server cfg txn o e s = [assemble_mbap (u16 (txn + 1)) req].
  Proof.
    intros Hu Hcert Hroots Hs Hreq.
    destruct (tcl_cert c) as [cert|] eqn:Ec; [|destruct (Hcert eq_refl)].
    destruct (tcl_roots c) as [roots|] eqn:Ea; [|destruct (Hroots eq_refl)].
    destruct (tls_new_client_accepts c rest cert roots Hu Ec Ea) as (eff & En & Htr).
    unfold tls_client_tx, tls_client_open. rewrite En, Htr, Hs.
    cbn [tls_framing_of wiring snd]. unfold client_call. rewrite Hreq.
    cbn [transport_exchange].
    destruct (mbap_read_response (S (length s)) e (u16 (txn + 1)) s) as [r rest'].
    destruct r as [res| | |]; try reflexivity.
    destruct (unit_check req res); reflexivity.
  Qed.
End TlsProofs.
