(* rtu_transport.go as translated from the Go source (Gen/SrcPure.v): discard,
   ExecuteRequest, WriteResponse, ReadRequest and Close of *rtuTransport equal
   the transport model of Model/Transport.v. *)
From Coq Require Import List NArith String Lia Bool.
From Coq Require Import ZifyBool ZifyNat ZifyN.
Import ListNotations.
From Modbus Require Import Base.Bytes Model.GoLite Gen.SrcPure Model.Crc Model.Encoding.
From Modbus Require Import Model.Wire Model.Transport.
From Modbus Require Import Proofs.GoLiteP Proofs.GoLiteLinkP Proofs.SrcCrcP Proofs.SrcLinkP Proofs.SrcMiscP Proofs.SrcClientP.
From Modbus Require Import Proofs.SrcTransportP.
Open Scope string_scope.
Open Scope N_scope.
Ltac Zify.zify_post_hook ::= Z.div_mod_to_equations.

Ltac tr_auto :=
  repeat (progress (gl_step;
                    cbn [compare_v compare_n arith wrap negb andb orb ofail Bool.eqb];
                    gl_consts)).

(* ---------------------------------------------------------------- Close, ReadRequest *)

Lemma run_rtu_Close fe fuel T tmo la t35 t1 w : tworld_hyp fe T "link" ->
  run_fn ge fe fuel src_fn_rtuTransport_Close [VN tmo; VN la; VN t35; VN t1; w] =
  out_close T [VN tmo; VN la; VN t35; VN t1] w.
Proof.
  intros (_ & _ & _ & _ & _ & Hcl). cbn [append] in Hcl.
  unfold run_fn, src_fn_rtuTransport_Close, out_close.
  gl_step. rewrite Hcl. gl_step. reflexivity.
Qed.

Lemma run_rtu_ReadRequest fe fuel w :
  run_fn ge fe fuel src_fn_rtuTransport_ReadRequest [w] = out_rtu_read_request w.
Proof.
  unfold run_fn, src_fn_rtuTransport_ReadRequest, out_rtu_read_request.
  gl_step. reflexivity.
Qed.

(* ---------------------------------------------------------------- WriteResponse *)

Lemma run_rtu_WriteResponse fe fuel T tmo la t35 t1 res w :
  tworld_hyp fe T "link" -> asm_rtu_hyp fe -> pdu_ok res ->
  run_fn ge fe fuel src_fn_rtuTransport_WriteResponse
         ([VN tmo; VN la; VN t35; VN t1] ++ pdu_args res ++ [w])%list =
  out_rtu_write_response T tmo la t35 t1 res w.
Proof.
  intros (Hnow & _ & _ & Hwr & _ & _) Hasm [Hb _]. cbn [append] in Hwr.
  destruct res as [u fc pl]. cbn [p_unit p_fc p_payload] in Hb.
  unfold run_fn, src_fn_rtuTransport_WriteResponse, out_rtu_write_response, t_rtu_write_response, pdu_args.
  cbn [p_unit p_fc p_payload].
  tr_auto. rewrite (Hasm _ _ _ Hb). tr_auto. rewrite Hwr.
  destruct (t_write T w (assemble_rtu (mkpdu u fc pl))) as [[w1 n] e] eqn:Ew.
  tr_auto.
  destruct (e =? 0) eqn:Ee; tr_auto.
  - apply N.eqb_eq in Ee. subst e.
    rewrite Hnow. destruct (t_now T w1) as [w2 now] eqn:En. cbn [fst snd]. tr_auto.
    unfold add64, mul64, w64. reflexivity.
  - reflexivity.
Qed.

(* ---------------------------------------------------------------- discard *)

Lemma sub64_0 a : a < 2 ^ 64 -> (a + 2 ^ 64 - 0 mod 2 ^ 64) mod 2 ^ 64 = a.
Proof.
  intros H. change (0 mod 2 ^ 64) with 0. change (2 ^ 64) with 18446744073709551616 in *. lia.
Qed.

Lemma run_discard fe fuel T w : tworld_hyp fe T "rtuLink" -> tworld_wf T src_codes ->
  run_fn ge fe fuel src_fn_discard [w] = out_discard T w.
Proof.
  intros (Hnow & _ & Hdl & _ & Hrf & _) [_ Hwf]. cbn [append] in Hdl, Hrf.
  unfold run_fn, src_fn_discard, out_discard, t_discard.
  tr_auto.
  assert (Hlen : List.length (repeat (VN 0) 1024) = 1024%nat) by apply repeat_length.
  set (buf := repeat (VN 0) 1024) in *. clearbody buf.
  rewrite Hnow. destruct (t_now T w) as [w0 now] eqn:En. cbn [fst snd]. tr_auto.
  rewrite Hdl. unfold add64.
  destruct (t_setdl T w0 ((now + 500000) mod 2 ^ 64)) as [w1 e1] eqn:Ed. cbn [fst snd]. tr_auto.
  rewrite Hlen. tr_auto. rewrite (sub64_0 1024) by (vm_compute; reflexivity).
  rewrite Hrf. pose proof (Hwf w1 1024) as Hg.
  destruct (t_readfull T w1 1024) as [[w2 got] e2] eqn:Er. destruct Hg as (_ & Hg & _).
  tr_auto. rewrite Hlen. unfold vbytes. tr_auto. rewrite map_length.
  unfold lenN in Hg.
  replace ((0 + N.of_nat (List.length got)) mod 2 ^ 64 <=? 1024) with true
    by (change (2 ^ 64) with 18446744073709551616; lia).
  tr_auto. reflexivity.
Qed.

(* ---------------------------------------------------------------- ExecuteRequest *)

Lemma src_codes_values :
  c_timedout src_codes = 4 /\ c_badcrc src_codes = 14 /\ c_short src_codes = 15 /\ c_proto src_codes = 16.
Proof. vm_compute. repeat split; reflexivity. Qed.

Lemma run_rtu_ExecuteRequest fe fuel T tmo la t35 t1 req w :
  tworld_hyp fe T "link" -> asm_rtu_hyp fe -> read_rtu_hyp fe T -> discard_hyp fe T -> pdu_ok req ->
  run_fn ge fe fuel src_fn_rtuTransport_ExecuteRequest
         ([VN tmo; VN la; VN t35; VN t1] ++ pdu_args req ++ [w])%list =
  out_rtu_execute T tmo la t35 t1 req w.
Proof.
  intros (Hnow & Hsl & Hdl & Hwr & _ & _) Hasm Hrr Hdis [Hb _]. cbn [append] in Hdl, Hwr.
  destruct req as [u fc pl]. cbn [p_unit p_fc p_payload] in Hb.
  destruct src_codes_values as (Ct & Cc & Cs & Cp).
  unfold run_fn, src_fn_rtuTransport_ExecuteRequest, out_rtu_execute, t_rtu_execute, pdu_args.
  rewrite Ct, Cc, Cs, Cp.
  unfold add64, sub64, mul64, w64, slt64, minus_one64.
  cbn [p_unit p_fc p_payload].
  tr_auto.
  rewrite Hnow. destruct (t_now T w) as [w0 now0] eqn:En0. cbn [fst snd]. tr_auto.
  rewrite Hdl. destruct (t_setdl T w0 ((now0 + tmo) mod 2 ^ 64)) as [w1 e] eqn:Ed. cbn [fst snd]. tr_auto.
  destruct (e =? 0) eqn:Ee; tr_auto; [|reflexivity].
  apply N.eqb_eq in Ee. subst e.
  rewrite Hnow. destruct (t_now T w1) as [w2 now1] eqn:En1. cbn [fst snd]. tr_auto.
  set (t := (now1 + 2 ^ 64 - ((la + t35) mod 2 ^ 64) mod 2 ^ 64) mod 2 ^ 64).
  rewrite Hsl. tr_auto. change (2 ^ 64 - 1) with 18446744073709551615.
  destruct (sbias t <? sbias 0) eqn:Et;
    [set (w3 := t_sleep T w2 ((t * 18446744073709551615) mod 2 ^ 64))|set (w3 := w2)];
    clearbody w3; clear Et.
  all: tr_auto.
  all: rewrite Hnow; destruct (t_now T w3) as [w4 ts] eqn:En2; cbn [fst snd]; tr_auto.
  all: rewrite (Hasm _ _ _ Hb); tr_auto; rewrite Hwr.
  all: destruct (t_write T w4 (assemble_rtu (mkpdu u fc pl))) as [[w5 n] e2] eqn:Ew; tr_auto.
  all: destruct (e2 =? 0) eqn:Ee2; tr_auto; [|reflexivity].
  all: apply N.eqb_eq in Ee2; subst e2.
  all: set (la1 := (ts + (n mod 2 ^ 64 * t1) mod 2 ^ 64) mod 2 ^ 64).
  all: rewrite Hnow; destruct (t_now T w5) as [w6 now3] eqn:En3; cbn [fst snd]; tr_auto.
  all: rewrite Hsl; tr_auto.
  all: set (w7 := t_sleep T w6 (((la1 + t35) mod 2 ^ 64 + 2 ^ 64 - now3 mod 2 ^ 64) mod 2 ^ 64)); clearbody w7.
  all: rewrite Hrr; unfold out_read_rtu.
  all: destruct (t_read_rtu T src_codes w7) as [[w8 res] e3] eqn:Er.
  all: assert (Hres : exists a b c d, enc_opdu res = [a; b; c; d])
         by (destruct res; cbn [enc_opdu]; do 4 eexists; reflexivity).
  all: destruct Hres as (ra & rb & rc & rd & Hres); rewrite Hres.
  all: tr_auto.
  all: rewrite Hsl; tr_auto; rewrite Hdis; unfold out_discard; tr_auto.
  all: destruct (e3 =? 14); [|destruct (e3 =? 16); [|destruct (e3 =? 15)]]; cbn [orb]; tr_auto.
  all: destruct (e3 =? 4); tr_auto.
  all: try (match goal with |- context [?f "time.Now" [?x]] =>
              rewrite (Hnow x); destruct (t_now T x) as [w10 now4] eqn:En4 end;
            cbn [fst snd]; tr_auto).
  all: rewrite Hres; reflexivity.
Qed.

Print Assumptions run_discard.
Print Assumptions run_rtu_ExecuteRequest.
Print Assumptions run_rtu_WriteResponse.
Print Assumptions run_rtu_ReadRequest.
Print Assumptions run_rtu_Close.
