(* Proofs about Model/TlsLife.v: Stop and connections in every phase of
   becoming a session (silent, ClientHello sent, established, mid-request). *)
From Coq Require Import List Arith Bool Lia.
Import ListNotations.
From Modbus Require Import Model.Slots Model.TlsLife Proofs.SlotsP.

(* ------------------------------------------------------------ projection on Slots.v *)

Lemma tl_run_snoc b tr l : tl_run b (tr ++ [l]) = tl_step (tl_run b tr) l.
Proof. unfold tl_run. rewrite fold_left_app. reflexivity. Qed.

Lemma tl_run_app b tr1 tr2 : tl_run b (tr1 ++ tr2) = tl_run (tl_run b tr1) tr2.
Proof. unfold tl_run. apply fold_left_app. Qed.

Lemma srv_run_snoc s tr l : run s (tr ++ [l]) = step (run s tr) l.
Proof. unfold run. rewrite fold_left_app. reflexivity. Qed.

Lemma tl_live_enabled b c : tl_live b c = enabled (tl_srv b) (Req c).
Proof. reflexivity. Qed.

Lemma step_req s c : step s (Req c) = s.
Proof. unfold step. destruct (negb (enabled s (Req c))); reflexivity. Qed.

(* every step of the extended system is, on the server component, either
   nothing or one step of Slots.v *)
Lemma tl_step_srv b l :
  tl_srv (tl_step b l) = tl_srv b \/ exists x, tl_srv (tl_step b l) = step (tl_srv b) x.
Proof.
  destruct l as [x|c|c|c].
  - destruct x; try (right; eexists; reflexivity).
    unfold tl_step. destruct (tl_req_ok b c); [|left; reflexivity].
    right. eexists. reflexivity.
  - left. unfold tl_step. destruct (tl_phase b c); reflexivity.
  - left. unfold tl_step. destruct (tl_shake_ok b c); reflexivity.
  - left. unfold tl_step. destruct (tl_req_ok b c); reflexivity.
Qed.

Theorem tl_reach_proj m tr : exists tr', tl_srv (tl_run (tl_init m) tr) = run (init m) tr'.
Proof.
  induction tr as [|l tr IH] using rev_ind; [exists []; reflexivity|].
  destruct IH as [tr' E]. rewrite tl_run_snoc.
  destruct (tl_step_srv (tl_run (tl_init m) tr) l) as [H|[x H]]; rewrite H, E.
  - exists tr'. reflexivity.
  - exists (tr' ++ [x]). rewrite srv_run_snoc. reflexivity.
Qed.

Theorem tl_reachable_inv m tr : Inv (tl_srv (tl_run (tl_init m) tr)).
Proof. destruct (tl_reach_proj m tr) as [tr' E]. rewrite E. apply reachable_inv. Qed.

Lemma tl_inv_step b l : Inv (tl_srv b) -> Inv (tl_srv (tl_step b l)).
Proof.
  intros I. destruct (tl_step_srv b l) as [H|[x H]]; rewrite H; [exact I|apply inv_step; exact I].
Qed.

(* ------------------------------------------------------------ Stop closes every phase *)

(* no hypothesis on the phase: silent, ClientHello sent, established or
   mid-request, a member of the active list is closed when Stop returns and
   nothing can proceed on it *)
Theorem tl_stop_closes_every_phase b : started (tl_srv b) = true ->
  let b' := tl_step b (TSrv Stop) in
  started (tl_srv b') = false /\ listening (tl_srv b') = false /\ acceptors (tl_srv b') = 0 /\
  tl_phase b' = tl_phase b /\ tl_calls b' = tl_calls b /\
  (forall c, In c (clients (tl_srv b)) ->
     tl_peer_closed b' c = true /\ tl_live b' c = false /\ tl_shake_ok b' c = false /\ tl_req_ok b' c = false).
Proof.
  intros Hs. cbn zeta. cbn [tl_step tl_srv tl_phase tl_calls].
  destruct (stop_closes_all (tl_srv b) Hs) as (A & B & C & D).
  repeat split; try assumption.
  - apply D. assumption.
  - unfold tl_live. cbn [tl_srv]. rewrite (D c H). apply andb_false_r.
  - unfold tl_shake_ok, tl_live. cbn [tl_srv]. rewrite (D c H). rewrite andb_false_r. reflexivity.
  - unfold tl_req_ok, tl_live. cbn [tl_srv]. rewrite (D c H). rewrite andb_false_r. reflexivity.
Qed.

(* in a stopped state (server component satisfying the invariant) nothing is live *)
Lemma stopped_not_live b c : Inv (tl_srv b) -> started (tl_srv b) = false -> tl_live b c = false.
Proof.
  intros I Hs. unfold tl_live.
  destruct (stat_eqb (stat (tl_srv b) c) Serving) eqn:E; [|reflexivity].
  apply stat_eqb_eq in E. rewrite (inv_stopped _ I Hs c E). reflexivity.
Qed.

(* in every reachable stopped state, for every connection and whatever its
   phase: no handshake can complete, no request can reach a handler, and a
   connection whose session goroutine is still in its loop has been closed *)
Theorem tl_stopped_nothing_proceeds m tr c :
  let b := tl_run (tl_init m) tr in
  started (tl_srv b) = false ->
  tl_shake_ok b c = false /\ tl_req_ok b c = false /\
  (stat (tl_srv b) c = Serving -> tl_peer_closed b c = true).
Proof.
  cbn zeta. intros Hs. pose proof (tl_reachable_inv m tr) as I.
  pose proof (stopped_not_live _ c I Hs) as L.
  unfold tl_shake_ok, tl_req_ok. rewrite L. repeat split.
  intros Hc. apply (inv_stopped _ I Hs c Hc).
Qed.

(* ------------------------------------------------------------ handler calls *)

(* a handler runs only in a Req step of a live connection whose handshake has
   completed; every other step leaves the counter alone *)
Theorem tl_call_needs_session b l :
  tl_calls (tl_step b l) = tl_calls b \/
  (exists c, l = TSrv (Req c) /\ tl_live b c = true /\ phase_estab (tl_phase b c) = true /\
             tl_calls (tl_step b l) = S (tl_calls b)).
Proof.
  destruct l as [x|c|c|c].
  - destruct x; try (left; reflexivity).
    unfold tl_step. destruct (tl_req_ok b c) eqn:E; [|left; reflexivity].
    right. exists c. unfold tl_req_ok in E. apply andb_true_iff in E as [E1 E2].
    repeat split; assumption.
  - left. unfold tl_step. destruct (tl_phase b c); reflexivity.
  - left. unfold tl_step. destruct (tl_shake_ok b c); reflexivity.
  - left. unfold tl_step. destruct (tl_req_ok b c); reflexivity.
Qed.

Lemma started_stays_false s x : x <> Start -> started s = false -> started (step s x) = false.
Proof.
  intros Hx Hs. unfold step. destruct (negb (enabled s x)); [exact Hs|].
  destruct x; try exact Hs; try congruence.
  - cbn [started]. destruct (started s && Nat.ltb (length (clients s)) (maxc s)); exact Hs.
  - rewrite Hs. exact Hs.
Qed.

Lemma tl_started_stays_false b l : l <> TSrv Start -> started (tl_srv b) = false ->
  started (tl_srv (tl_step b l)) = false.
Proof.
  intros Hl Hs. destruct l as [x|c|c|c].
  - assert (Hx : x <> Start) by (intros ->; apply Hl; reflexivity).
    destruct x; try (cbn [tl_step tl_srv]; apply started_stays_false; [exact Hx|exact Hs]).
    unfold tl_step. destruct (tl_req_ok b c); [|exact Hs].
    cbn [tl_srv]. rewrite step_req. exact Hs.
  - unfold tl_step. destruct (tl_phase b c); exact Hs.
  - unfold tl_step. destruct (tl_shake_ok b c); exact Hs.
  - unfold tl_step. destruct (tl_req_ok b c); exact Hs.
Qed.

(* between a Stop and the next Start the handler counter is frozen, whatever
   the peers and the server goroutines do (any step sequence without Start) *)
Lemma calls_frozen tr' : forall b, Inv (tl_srv b) -> started (tl_srv b) = false ->
  (forall l, In l tr' -> l <> TSrv Start) ->
  tl_calls (tl_run b tr') = tl_calls b /\ started (tl_srv (tl_run b tr')) = false.
Proof.
  induction tr' as [|l tr' IH]; intros b I Hs Hn; [split; [reflexivity|exact Hs]|].
  assert (Hl : l <> TSrv Start) by (apply Hn; left; reflexivity).
  assert (Hc : tl_calls (tl_step b l) = tl_calls b).
  { destruct (tl_call_needs_session b l) as [H|(c & _ & L & _)]; [exact H|].
    rewrite (stopped_not_live b c I Hs) in L. discriminate. }
  cbn [tl_run fold_left]. fold (tl_run (tl_step b l) tr').
  destruct (IH (tl_step b l) (tl_inv_step b l I) (tl_started_stays_false b l Hl Hs)
              (fun x Hx => Hn x (or_intror Hx))) as [A B].
  split; [rewrite A; exact Hc|exact B].
Qed.

Theorem tl_calls_frozen_while_stopped m tr tr' :
  let b := tl_run (tl_init m) tr in
  started (tl_srv b) = false -> (forall l, In l tr' -> l <> TSrv Start) ->
  tl_calls (tl_run b tr') = tl_calls b /\ started (tl_srv (tl_run b tr')) = false.
Proof. cbn zeta. intros Hs Hn. apply calls_frozen; [apply tl_reachable_inv|exact Hs|exact Hn]. Qed.

(* ------------------------------------------------------------ goroutines *)

(* the session goroutine of a connection closed by Stop - in its handshake or
   in its request loop - ends and removes the connection in two steps *)
Theorem tl_session_winds_down b c : Inv (tl_srv b) -> started (tl_srv b) = false ->
  stat (tl_srv b) c = Serving ->
  let b1 := tl_step b (TSrv (End c ClosedByStop)) in
  let b2 := tl_step b1 (TSrv (Remove c)) in
  enabled (tl_srv b) (End c ClosedByStop) = true /\ enabled (tl_srv b1) (Remove c) = true /\
  stat (tl_srv b2) c = Removed /\ tl_session_goroutine b2 c = false /\ ~ In c (clients (tl_srv b2)).
Proof.
  intros I Hs Hc. cbn zeta. cbn [tl_step tl_srv].
  destruct (stopped_session_winds_down (tl_srv b) c I Hs Hc) as (A & B & C).
  repeat split; try assumption.
  - unfold tl_session_goroutine. cbn [tl_srv]. rewrite C. reflexivity.
  - intros Hin.
    pose proof (inv_step _ (Remove c) (inv_step _ (End c ClosedByStop) I)) as I2.
    apply (inv_members _ I2) in Hin. unfold in_list in Hin. rewrite C in Hin.
    destruct Hin; discriminate.
Qed.

(* the live session goroutines are exactly the members of the active list *)
Theorem tl_sessions_are_clients m tr :
  let b := tl_run (tl_init m) tr in
  tl_sessions b = length (clients (tl_srv b)) /\ NoDup (clients (tl_srv b)) /\
  (forall c, tl_session_goroutine b c = true <-> In c (clients (tl_srv b))).
Proof.
  cbn zeta. pose proof (tl_reachable_inv m tr) as I. set (b := tl_run (tl_init m) tr) in *.
  assert (M : forall c, tl_session_goroutine b c = true <-> In c (clients (tl_srv b))).
  { intros c. rewrite (inv_members _ I). unfold in_list, tl_session_goroutine.
    rewrite orb_true_iff, !stat_eqb_eq. reflexivity. }
  split; [|split; [apply (inv_nodup _ I)|exact M]].
  unfold tl_sessions. f_equal.
  assert (F : forall l, (forall c, In c l -> tl_session_goroutine b c = true) ->
              filter (tl_session_goroutine b) l = l).
  { induction l as [|x t IH]; intros H; [reflexivity|]. cbn [filter].
    rewrite (H x (or_introl eq_refl)). f_equal. apply IH. intros c Hc. apply H. right. exact Hc. }
  apply F. intros c Hc. apply M. exact Hc.
Qed.

(* a connection that was being accepted while Stop ran is refused and closed;
   no handshake can be run on it afterwards *)
Theorem tl_taken_during_stop b c : Inv (tl_srv b) -> stat (tl_srv b) c = Taken ->
  started (tl_srv b) = true ->
  let b' := tl_step (tl_step b (TSrv Stop)) (TSrv (Enrol c)) in
  stat (tl_srv b') c = Rejected /\ tl_peer_closed b' c = true /\
  tl_shake_ok b' c = false /\ tl_req_ok b' c = false.
Proof.
  intros I Ht Hs. cbn zeta. cbn [tl_step tl_srv].
  destruct (taken_during_stop_rejected (tl_srv b) c I Ht Hs) as [A B].
  unfold tl_shake_ok, tl_req_ok, tl_live, tl_peer_closed. cbn [tl_srv]. rewrite A, B.
  repeat split.
Qed.

(* Stop then Start serves again; repeated Start / Stop change nothing *)
Theorem tl_stop_start b : started (tl_srv b) = true ->
  let b' := tl_step (tl_step b (TSrv Stop)) (TSrv Start) in
  started (tl_srv b') = true /\ listening (tl_srv b') = true /\ acceptors (tl_srv b') = 1.
Proof. intros Hs. cbn zeta. cbn [tl_step tl_srv]. apply stop_start_serves_again. exact Hs. Qed.

Theorem tl_stop_idempotent b : tl_step (tl_step b (TSrv Stop)) (TSrv Stop) = tl_step b (TSrv Stop).
Proof. cbn [tl_step tl_srv tl_phase tl_calls]. rewrite stop_idempotent. reflexivity. Qed.

Theorem tl_start_idempotent b : tl_step (tl_step b (TSrv Start)) (TSrv Start) = tl_step b (TSrv Start).
Proof. cbn [tl_step tl_srv tl_phase tl_calls]. rewrite start_idempotent. reflexivity. Qed.
