(* Proofs about Model/RoleMix.v (property C15, histories of sessions in ONE
   process that runs a tcp+tls server and a plain tcp server side by side).
   The handshake oracle, the verification oracle and the clock are section
   variables; what crypto/tls documents (tls_srv_documented) is an explicit
   premise of the lemmas that need it. *)
From Modbus Require Import Base.Bytes Model.Utf8 Model.Der Model.Role Model.Config Model.TlsPolicy
  Model.RoleSeq Model.RoleMix Spec.RoleSpec Proofs.RoleP Proofs.TlsPolicyP Proofs.RoleSeqP.
From Coq Require Import ZifyBool ZifyNat ZifyN.
Ltac Zify.zify_post_hook ::= Z.div_mod_to_equations.

Section RoleMixProofs.
  Variable hs : tls_policy -> tls_peer -> option tls_session.
  Variable verifies : option (list tls_cert) -> tls_usage -> N -> list N -> list tls_cert -> Prop.
  Variable now : N.

  (* what one connection gets: a function of the server object that accepted
     it and of its own peer *)
  Definition mix_one (srvs : list tls_srv_conf) (x : nat * tls_peer) : option (list N) :=
    match nth_error srvs (fst x) with
    | Some c => mix_conn_role hs c (snd x)
    | None => None
    end.

  Lemma mix_serve_map srvs conns :
    mix_serve_sessions hs srvs conns = map (mix_one srvs) conns.
  Proof.
    induction conns as [|[k p] l IH]; cbn [mix_serve_sessions map]; [reflexivity|].
    rewrite IH. reflexivity.
  Qed.

  Lemma mix_serve_length srvs conns : length (mix_serve_sessions hs srvs conns) = length conns.
  Proof. rewrite mix_serve_map. apply map_length. Qed.

  Lemma mix_serve_nth srvs conns i :
    nth_error (mix_serve_sessions hs srvs conns) i = option_map (mix_one srvs) (nth_error conns i).
  Proof. rewrite mix_serve_map. apply nth_error_map. Qed.

  Lemma mix_serve_app srvs earlier x later :
    mix_serve_sessions hs srvs (earlier ++ x :: later) =
    mix_serve_sessions hs srvs earlier ++ mix_one srvs x :: mix_serve_sessions hs srvs later.
  Proof. rewrite !mix_serve_map, map_app. reflexivity. Qed.

  (* the sessions before and after a connection - on the same server object or
     on another one of the process - do not matter to it *)
  Lemma mix_serve_alone srvs earlier x later :
    nth_error (mix_serve_sessions hs srvs (earlier ++ x :: later)) (length earlier) =
    nth_error (mix_serve_sessions hs srvs [x]) 0.
  Proof.
    rewrite mix_serve_app, nth_error_app2 by (rewrite mix_serve_length; lia).
    rewrite mix_serve_length, Nat.sub_diag. destruct x as [k p]. reflexivity.
  Qed.

  Lemma mix_serve_at srvs earlier x later :
    nth_error (mix_serve_sessions hs srvs (earlier ++ x :: later)) (length earlier) = Some (mix_one srvs x).
  Proof.
    rewrite mix_serve_app, nth_error_app2 by (rewrite mix_serve_length; lia).
    rewrite mix_serve_length, Nat.sub_diag. reflexivity.
  Qed.

  (* a plain tcp server object: the empty role, whoever the peer is *)
  Lemma mix_conn_role_plain c eff peer :
    tls_new_server c = CfgOk eff -> se_transport eff = TTcp ->
    mix_conn_role hs c peer = Some [].
  Proof. intros En Ht. unfold mix_conn_role. rewrite En, Ht. reflexivity. Qed.

  (* a tcp+tls server object: startTLS on this peer *)
  Lemma mix_conn_role_tls c eff peer :
    tls_new_server c = CfgOk eff -> se_transport eff = TTcpOverTls ->
    mix_conn_role hs c peer = tls_start_tls hs c peer.
  Proof. intros En Ht. unfold mix_conn_role. rewrite En, Ht. reflexivity. Qed.

  (* the last clause of the property, in a history: a session accepted by a
     plain tcp server has the empty role whatever sessions - with whatever
     certificates, on whatever server of the process - came before or after *)
  Lemma mix_plain_empty srvs k c eff earlier peer later :
    nth_error srvs k = Some c ->
    tls_new_server c = CfgOk eff -> se_transport eff = TTcp ->
    nth_error (mix_serve_sessions hs srvs (earlier ++ (k, peer) :: later)) (length earlier) = Some (Some []).
  Proof.
    intros Hk En Ht. rewrite mix_serve_at. unfold mix_one. cbn [fst snd]. rewrite Hk.
    rewrite (mix_conn_role_plain c eff peer En Ht). reflexivity.
  Qed.

  (* a session accepted by a tcp+tls server gets what it would get as the
     only session of a process that runs this server alone *)
  Lemma mix_tls_alone srvs k c eff earlier peer later :
    nth_error srvs k = Some c ->
    tls_new_server c = CfgOk eff -> se_transport eff = TTcpOverTls ->
    nth_error (mix_serve_sessions hs srvs (earlier ++ (k, peer) :: later)) (length earlier) =
    nth_error (tls_serve_sessions hs c [peer]) 0.
  Proof.
    intros Hk En Ht. rewrite mix_serve_at. unfold mix_one. cbn [fst snd]. rewrite Hk.
    rewrite (mix_conn_role_tls c eff peer En Ht). reflexivity.
  Qed.

  (* the sessions of one tcp+tls server object of the process, taken out of
     the mixed history, are served as by tls_serve_sessions (to which the
     theorems of Properties/C15b.v apply) *)
  Lemma mix_part_tls srvs k c eff conns :
    nth_error srvs k = Some c ->
    tls_new_server c = CfgOk eff -> se_transport eff = TTcpOverTls ->
    mix_part_of k conns (mix_serve_sessions hs srvs conns) = tls_serve_sessions hs c (mix_conns_of k conns).
  Proof.
    intros Hk En Ht. induction conns as [|[j p] l IH]; [reflexivity|].
    cbn [mix_serve_sessions mix_part_of mix_conns_of].
    destruct (Nat.eqb j k) eqn:Ej; [|exact IH].
    apply Nat.eqb_eq in Ej. subst j. rewrite Hk. cbn [tls_serve_sessions].
    rewrite (mix_conn_role_tls c eff p En Ht), IH. reflexivity.
  Qed.

  (* ... and those of a plain tcp server object all have the empty role *)
  Lemma mix_part_plain srvs k c eff conns :
    nth_error srvs k = Some c ->
    tls_new_server c = CfgOk eff -> se_transport eff = TTcp ->
    mix_part_of k conns (mix_serve_sessions hs srvs conns) = map (fun _ => Some []) (mix_conns_of k conns).
  Proof.
    intros Hk En Ht. induction conns as [|[j p] l IH]; [reflexivity|].
    cbn [mix_serve_sessions mix_part_of mix_conns_of].
    destruct (Nat.eqb j k) eqn:Ej; [|exact IH].
    apply Nat.eqb_eq in Ej. subst j. rewrite Hk. cbn [map].
    rewrite (mix_conn_role_plain c eff p En Ht), IH. reflexivity.
  Qed.

  (* where a role comes from: either the session was accepted by a plain tcp
     server and the role is empty, or it was accepted by a tcp+tls server and
     the role is extract_role of the leaf presented on THAT connection *)
  Lemma mix_role_origin srvs conns i role :
    tls_srv_documented hs verifies now ->
    nth_error (mix_serve_sessions hs srvs conns) i = Some (Some role) ->
    exists k peer c eff,
      nth_error conns i = Some (k, peer) /\ nth_error srvs k = Some c /\ tls_new_server c = CfgOk eff /\
      ((se_transport eff = TTcp /\ role = []) \/
       (se_transport eff = TTcpOverTls /\
        exists leaf more, tpe_chain peer = leaf :: more /\ role = extract_role (tlc_exts leaf))).
  Proof.
    intros Hdoc. rewrite mix_serve_nth.
    destruct (nth_error conns i) as [[k peer]|]; [|discriminate].
    cbn [option_map]. unfold mix_one. cbn [fst snd].
    destruct (nth_error srvs k) as [c|] eqn:Hk; [|discriminate].
    unfold mix_conn_role. destruct (tls_new_server c) as [eff|e] eqn:En; [|discriminate].
    destruct (se_transport eff) eqn:Ht; try discriminate.
    - intros [= Hr]. exists k, peer, c, eff.
      split; [reflexivity|]. split; [exact Hk|]. split; [exact En|].
      left. split; [exact Ht|]. symmetry. exact Hr.
    - intros [= Hs]. exists k, peer, c, eff.
      split; [reflexivity|]. split; [exact Hk|]. split; [exact En|].
      right. split; [exact Ht|].
      exact (start_tls_leaf hs verifies now c peer role Hdoc Hs).
  Qed.

  (* a non-empty role: the session is a TLS session and its own leaf states it *)
  Lemma mix_role_sound srvs conns i role :
    tls_srv_documented hs verifies now ->
    nth_error (mix_serve_sessions hs srvs conns) i = Some (Some role) -> role <> [] ->
    exists k peer c eff leaf more,
      nth_error conns i = Some (k, peer) /\ nth_error srvs k = Some c /\ tls_new_server c = CfgOk eff /\
      se_transport eff = TTcpOverTls /\ tpe_chain peer = leaf :: more /\
      (all_bytes (tlc_exts leaf) = true -> states_role (tlc_exts leaf) role).
  Proof.
    intros Hdoc Hn Hne.
    destruct (mix_role_origin srvs conns i role Hdoc Hn) as (k & peer & c & eff & Hc & Hk & En & [[_ Hr]|[Ht Hl]]).
    - contradiction.
    - destruct Hl as (leaf & more & Hch & Hr).
      exists k, peer, c, eff, leaf, more.
      split; [exact Hc|]. split; [exact Hk|]. split; [exact En|]. split; [exact Ht|]. split; [exact Hch|].
      intros Hb. apply role_sound_spec; auto.
  Qed.

  (* a served TLS session whose leaf states r has role r, whatever the other
     sessions of the process were *)
  Lemma mix_role_complete srvs k c eff earlier peer later leaf more r role :
    tls_srv_documented hs verifies now ->
    nth_error srvs k = Some c ->
    tls_new_server c = CfgOk eff -> se_transport eff = TTcpOverTls ->
    tpe_chain peer = leaf :: more -> states_role (tlc_exts leaf) r -> lenN r < 2 ^ 31 ->
    nth_error (mix_serve_sessions hs srvs (earlier ++ (k, peer) :: later)) (length earlier) = Some (Some role) ->
    role = r.
  Proof.
    intros Hdoc Hk En Ht Hc Hst Hlen. rewrite (mix_tls_alone srvs k c eff earlier peer later Hk En Ht).
    cbn [tls_serve_sessions nth_error]. intros [= Hs].
    destruct (start_tls_leaf hs verifies now c peer role Hdoc Hs) as (leaf' & more' & Hc' & ->).
    rewrite Hc in Hc'. injection Hc' as <- _.
    apply role_complete_spec; assumption.
  Qed.
End RoleMixProofs.
