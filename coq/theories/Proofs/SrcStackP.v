(* The translated client methods (client.go) ON TOP OF the translated tcp
   transport (tcp_transport.go), both inside the linked program [src_pure], on a
   peer byte stream. Proofs/SrcClientLinkP.v has the methods over any transport
   oracle [T]; Proofs/SrcTransportWorldsP.v has the translated
   tcpTransport.ExecuteRequest on a stream world. Here the oracle is what the
   translated transport returns ([src_tcp_reply]), and the public result is the
   model's [client_call], up to the one thing the model does not distinguish:
   io.EOF / io.ErrUnexpectedEOF / any other i/o error ([norm_io]). *)
From Coq Require Import List NArith String Lia Bool.
From Coq Require Import ZifyBool ZifyNat ZifyN.
Import ListNotations.
From Modbus Require Import Base.Bytes Model.GoLite Gen.SrcPure Model.Crc Model.Encoding.
From Modbus Require Import Model.Wire Model.Client Model.Transport Spec.ClientSpec.
From Modbus Require Proofs.ClientReqP.
From Modbus Require Import Proofs.FramingP.
From Modbus Require Import Proofs.GoLiteP Proofs.GoLiteLinkP Proofs.SrcMiscP.
From Modbus Require Import Proofs.TransportStreamP Proofs.SrcTransportP Proofs.SrcTransportLinkP Proofs.SrcTransportWorldsP.
From Modbus Require Import Proofs.SrcClientP Proofs.SrcClientLinkP.
Open Scope string_scope.
Open Scope N_scope.

(* ------------------------------------------------------------------ 1: the reply of the translated transport *)

(* nil flag, unit, function code, payload, error value of the returned list *)
Definition bad_reply : treply := TErr other_error true 0 0 [].

Definition dec_reply (rnil : bool) (u f : N) (p : list N) (c : N) : treply :=
  if c =? 0 then
    (if andb (negb rnil) (bytesb p) then TOk (mkpdu u f p) else bad_reply)
  else TErr c rnil u f p.

Definition reply_of_run (r : GoLite.res (list val)) : treply :=
  match r with
  | GOk [_; _; _; VB rnil; VN u; VN f; VL p; VN c] => dec_reply rnil u f (unvn p) c
  | _ => bad_reply
  end.

Definition src_tcp_reply (fuel : nat) (tmo last : N) (e : send) (s : list N) (req : pdu) : treply :=
  reply_of_run
    (call_with src_pure (world_base (sw e)) fuel "tcpTransport.ExecuteRequest"
               ([VN tmo; VN last] ++ pdu_args req ++ [vbytes s])%list).

Lemma bad_reply_wf : treply_wf bad_reply.
Proof. cbn [bad_reply treply_wf]. unfold other_error. discriminate. Qed.

Lemma dec_reply_wf rnil u f p c : treply_wf (dec_reply rnil u f p c).
Proof.
  unfold dec_reply. destruct (N.eqb_spec c 0) as [E|E].
  - destruct (negb rnil); cbn [andb]; [|apply bad_reply_wf].
    destruct (bytesb p) eqn:Hb; [exact Hb|apply bad_reply_wf].
  - exact E.
Qed.

(* whatever the run returns, it is read as a well-formed reply *)
Lemma reply_of_run_wf r : treply_wf (reply_of_run r).
Proof.
  unfold reply_of_run.
  repeat match goal with
         | |- treply_wf (match ?x with _ => _ end) => destruct x
         end;
    first [apply bad_reply_wf|apply dec_reply_wf].
Qed.

Lemma src_tcp_reply_wf_all fuel tmo last e s req : treply_wf (src_tcp_reply fuel tmo last e s req).
Proof. unfold src_tcp_reply. apply reply_of_run_wf. Qed.

(* ------------------------------------------------------------------ 2: the i/o errors the model does not tell apart *)

Definition norm_io (c : N) : N :=
  if orb (c =? src_eof) (c =? c_ueof src_codes) then other_error else c.

Definition sout_norm (o : sout) : sout :=
  match o with
  | SCode c => SCode (norm_io c)
  | o' => o'
  end.

Lemma norm_io_2 : norm_io 2 = 2.
Proof. vm_compute. reflexivity. Qed.

(* no error class of the model has the value of io.EOF / io.ErrUnexpectedEOF *)
Lemma norm_err_code x : norm_io (err_code x) = err_code x.
Proof.
  destruct x as [| | | | | |c|c| |]; try (vm_compute; reflexivity).
  unfold err_code, exc_name.
  repeat match goal with |- context [if ?b then _ else _] => destruct b end; vm_compute; reflexivity.
Qed.

Lemma sout_norm_sout_of r : sout_norm (sout_of r) = sout_of r.
Proof.
  destruct r as [v|x| |]; cbn [sout_of sout_norm]; try reflexivity.
  rewrite norm_err_code. reflexivity.
Qed.

(* ------------------------------------------------------------------ the error values of a stream world *)

(* the error values the translated tcp transport can return on a stream world *)
Definition io_code (c : N) : Prop :=
  c = 0 \/ c = 1 \/ c = 2 \/ c = src_eof \/ c = c_ueof src_codes \/
  c = c_proto src_codes \/ c = c_unkproto src_codes.

Lemma sw_readfull_code e w n : io_code (snd (t_readfull (sw e) w n)).
Proof.
  unfold sw, stream_world. cbn [t_readfull].
  destruct (read_full _ _) as [got rest|got]; cbn [snd]; unfold io_code.
  - left. reflexivity.
  - destruct e; [|destruct got|]; auto 8.
Qed.

Section Codes.
  Variables (T : tworld) (C : tcodes) (K : N -> Prop).
  Hypothesis K0 : K 0.
  Hypothesis Kproto : K (c_proto C).
  Hypothesis Kunk : K (c_unkproto C).
  Hypothesis Krf : forall w n, K (snd (t_readfull T w n)).

  Lemma t_read_mbap_code w : K (snd (t_read_mbap T C w)).
  Proof.
    unfold t_read_mbap.
    pose proof (Krf w 7) as H1.
    destruct (t_readfull T w 7) as [[w1 hdr] e1]. cbn [snd] in H1.
    destruct (negb (e1 =? 0)); [exact H1|].
    destruct (254 <? _); [exact Kproto|].
    destruct (_ <=? 1); [exact Kproto|].
    match goal with |- context [t_readfull T w1 ?n] =>
      pose proof (Krf w1 n) as H2; destruct (t_readfull T w1 n) as [[w2 body] e2] end.
    cbn [snd] in H2.
    destruct (negb (e2 =? 0)); [exact H2|].
    destruct (negb _); [exact Kunk|exact K0].
  Qed.

  Lemma t_read_response_code fuel last : forall w,
    match t_read_response T C fuel last w with
    | Some (_, _, c) => K c
    | None => True
    end.
  Proof.
    induction fuel as [|f IH]; intros w; [exact I|].
    rewrite t_read_response_S.
    pose proof (t_read_mbap_code w) as H.
    destruct (t_read_mbap T C w) as [[[w1 p] txn] c]. cbn [snd] in H.
    destruct (c =? c_unkproto C); [apply IH|].
    destruct (negb (c =? 0)); [exact H|].
    destruct (negb (last =? txn)); [apply IH|exact K0].
  Qed.
End Codes.

Lemma sw_read_response_code e fuel last w :
  match t_read_response (sw e) src_codes fuel last w with
  | Some (_, _, c) => io_code c
  | None => True
  end.
Proof.
  apply t_read_response_code; try (unfold io_code; auto 8).
  intros w' n. apply sw_readfull_code.
Qed.

(* src_tcp_ExecuteRequest_stream of Proofs/SrcTransportWorldsP.v, with the list
   of the possible error values *)
Theorem src_tcp_ExecuteRequest_stream_codes fuel e tmo last req s : bytesb s = true -> pdu_ok req ->
  let last' := (last + 1) mod 65536 in
  let run := call_with src_pure (world_base (sw e)) fuel "tcpTransport.ExecuteRequest"
               ([VN tmo; VN last] ++ pdu_args req ++ [vbytes s])%list in
  match mbap_read_response fuel e last' s with
  | (MOk q, s') => run = GOk ([VN tmo; VN last'; vbytes s'] ++ enc_opdu (Some q) ++ [VN 0])%list
  | (Err x, s') => exists c, run = GOk ([VN tmo; VN last'; vbytes s'] ++ enc_opdu None ++ [VN c])%list /\
                             c <> 0 /\ EC c = x /\ io_code c
  | (Wire.OutOfFuel, _) => run = GoLite.OutOfFuel
  | (Wire.Panic, _) => False
  end.
Proof.
  intros Hs Hok last' run.
  assert (Hrun : run = out_tcp_execute (sw e) fuel tmo last req (vbytes s)).
  { subst run. apply src_tcp_ExecuteRequest_ok;
      [apply sw_hyp; left; reflexivity|apply sw_wf|exact Hok]. }
  unfold out_tcp_execute in Hrun. rewrite tcp_execute_sw in Hrun. fold last' in Hrun.
  clearbody run.
  pose proof (t_read_response_stream src_codes e 2 src_eof src_distinct fuel last' s Hs) as H.
  change (SW src_codes e 2 src_eof) with (sw e) in H.
  pose proof (sw_read_response_code e fuel last' (vbytes s)) as HK.
  destruct (mbap_read_response fuel e last' s) as [[q|x| |] s'].
  - rewrite H in Hrun. exact Hrun.
  - destruct H as (c & H & Hc & Hx). exists c. rewrite H in Hrun, HK.
    split; [exact Hrun|]. split; [exact Hc|]. split; [exact Hx|exact HK].
  - exact H.
  - rewrite H in Hrun. exact Hrun.
Qed.

(* ------------------------------------------------------------------ 3, 4: the reply and the model's transport *)

(* with the fuel of the model the reply is a frame or an error value, as the framing model says *)
Lemma src_tcp_reply_cases tmo last e s req : bytesb s = true -> pdu_ok req ->
  match mbap_read_response (S (List.length s)) e ((last + 1) mod 65536) s with
  | (MOk q, _) => src_tcp_reply (S (List.length s)) tmo last e s req = TOk q
  | (Err x, _) => exists c, src_tcp_reply (S (List.length s)) tmo last e s req = TErr c true 0 0 [] /\
                            c <> 0 /\ EC c = x /\ io_code c
  | _ => False
  end.
Proof.
  intros Hs Hok.
  pose proof (src_tcp_ExecuteRequest_stream_codes (S (List.length s)) e tmo last req s Hs Hok) as H.
  cbv zeta in H.
  pose proof (mbap_no_panic (S (List.length s)) e ((last + 1) mod 65536) s) as H1.
  pose proof (mbap_no_oof (S (List.length s)) e ((last + 1) mod 65536) s (Nat.lt_succ_diag_r _)) as H2.
  destruct (mbap_read_response (S (List.length s)) e ((last + 1) mod 65536) s) as [r s'] eqn:E.
  cbn [fst] in H1, H2.
  destruct r as [q|x| |]; try congruence.
  - unfold src_tcp_reply. rewrite H.
    pose proof (mbap_response_bytes _ _ _ _ _ _ Hs E) as Hb.
    destruct q as [u f p]. cbn [p_payload] in Hb.
    cbn [app enc_opdu reply_of_run p_unit p_fc p_payload]. unfold vbytes.
    cbv beta iota. rewrite unvn_map. unfold dec_reply.
    change (0 =? 0) with true. cbv iota. rewrite Hb. reflexivity.
  - destruct H as (c & H & Hc & Hx & HK). exists c.
    split; [|split; [exact Hc|split; [exact Hx|exact HK]]].
    unfold src_tcp_reply. rewrite H.
    cbn [app enc_opdu reply_of_run unvn]. unfold dec_reply.
    destruct (N.eqb_spec c 0) as [E0|E0]; [contradiction|reflexivity].
Qed.

Lemma src_tcp_reply_wf tmo last e s req : bytesb s = true -> pdu_ok req ->
  treply_wf (src_tcp_reply (S (List.length s)) tmo last e s req).
Proof. intros _ _. apply src_tcp_reply_wf_all. Qed.

(* what [call_out] reads of two replies: the frame, or the error value up to [norm_io] *)
Definition reply_rel (a b : treply) : Prop :=
  match a, b with
  | TOk p, TOk q => p = q
  | TErr c _ _ _ _, TErr c' _ _ _ _ => norm_io c = c'
  | _, _ => False
  end.

(* (an i/o timeout is the value 2 on both sides: [norm_io 2 = 2]) *)
Lemma reply_rel_timeout a b : reply_rel a b ->
  forall n u f p, a = TErr 2 n u f p -> exists n' u' f' p', b = TErr 2 n' u' f' p'.
Proof.
  intros H n u f p Ha. subst a. destruct b as [q|c' n' u' f' p']; cbn [reply_rel] in H; [contradiction|].
  rewrite norm_io_2 in H. subst c'. exists n', u', f', p'. reflexivity.
Qed.

Theorem src_tcp_reply_model tmo last e s req : bytesb s = true -> pdu_ok req -> last < 65536 ->
  reply_rel (src_tcp_reply (S (List.length s)) tmo last e s req) (model_transport FMbap last e s req).
Proof.
  intros Hs Hok _.
  pose proof (src_tcp_reply_cases tmo last e s req Hs Hok) as H.
  unfold model_transport. rewrite transport_result_eq. unfold u16.
  destruct (mbap_read_response (S (List.length s)) e ((last + 1) mod 65536) s) as [r s'].
  cbn [fst].
  destruct r as [q|x| |]; try contradiction.
  - rewrite H. cbn [treply_of reply_rel]. reflexivity.
  - destruct H as (c & H & Hc & Hx & HK). rewrite H. clear H.
    unfold io_code in HK.
    destruct HK as [K|[K|[K|[K|[K|[K|K]]]]]]; subst c;
      try (exfalso; apply Hc; reflexivity);
      match type of Hx with EC ?c = _ =>
        let v := eval vm_compute in (EC c) in change (EC c) with v in Hx end;
      subst x; cbn [treply_of reply_rel]; vm_compute; reflexivity.
Qed.

(* sanity, on samples: a frame is read on both sides; on a closed empty stream
   the translated transport returns io.EOF, after a partial header
   io.ErrUnexpectedEOF, where the model has its one class of i/o errors: this
   is what [norm_io] is for *)
Example sample_frame :
  src_tcp_reply 11 1000 7 Stall frame2 req1 = TOk (mkpdu 9 3 [2; 0x11]) /\
  model_transport FMbap 7 Stall frame2 req1 = TOk (mkpdu 9 3 [2; 0x11]).
Proof. vm_compute. split; reflexivity. Qed.

Example sample_eof :
  src_tcp_reply 1 1000 7 Closed [] req1 = TErr src_eof true 0 0 [] /\
  model_transport FMbap 7 Closed [] req1 = TErr other_error true 0 0 [].
Proof. vm_compute. split; reflexivity. Qed.

Example sample_ueof :
  src_tcp_reply 4 1000 7 Closed [0; 8; 0] req1 = TErr (c_ueof src_codes) true 0 0 [] /\
  model_transport FMbap 7 Closed [0; 8; 0] req1 = TErr other_error true 0 0 [].
Proof. vm_compute. split; reflexivity. Qed.

Example sample_timeout :
  src_tcp_reply 4 1000 7 Stall [0; 8; 0] req1 = TErr 2 true 0 0 [] /\
  model_transport FMbap 7 Stall [0; 8; 0] req1 = TErr 2 true 0 0 [].
Proof. vm_compute. split; reflexivity. Qed.

Arguments src_tcp_reply : simpl never.
Global Opaque src_tcp_reply.

(* ------------------------------------------------------------------ 5: the capstone *)

(* [call_out] reads of the transport's replies only what [reply_rel] relates *)
Lemma call_out_rel cfg o X Y :
  (forall req, client_request cfg o = MOk req -> reply_rel (X req) (Y req)) ->
  sout_norm (call_out cfg o (xchg X)) = call_out cfg o (xchg Y).
Proof.
  intros H. unfold call_out.
  destruct (client_request cfg o) as [req|x| |]; cbn [sout_of sout_norm]; try reflexivity.
  - specialize (H req eq_refl). unfold xchg.
    destruct (X req) as [p|c n u f pl], (Y req) as [q|c' n' u' f' pl'];
      cbn [reply_rel] in H; try contradiction.
    + subst q. cbn [exec_spec].
      destruct (unit_check req p); [|apply sout_norm_sout_of].
      cbn [sout_norm]. rewrite norm_err_code. reflexivity.
    + subst c'. cbn [exec_spec sout_norm].
      destruct (N.eqb_spec c 2) as [E|E].
      * subst c. rewrite norm_io_2. change (2 =? 2) with true. cbv iota.
        vm_compute. reflexivity.
      * assert (E' : (norm_io c =? 2) = false).
        { unfold norm_io. destruct (orb _ _); [reflexivity|]. apply N.eqb_neq. exact E. }
        rewrite E'. reflexivity.
  - rewrite norm_err_code. reflexivity.
Qed.

(* the requests the client builds are frames the assemblers accept *)
Lemma u16_to_bytes_len en v : List.length (u16_to_bytes en v) = 2%nat.
Proof. destruct en; reflexivity. Qed.

Lemma req_read_regs_len cfg a n rt p :
  req_read_regs cfg a n rt = MOk p -> (List.length (p_payload p) <= 260)%nat.
Proof.
  unfold req_read_regs.
  destruct rt; try discriminate;
    (destruct (n =? 0); [discriminate|]; destruct (125 <? n); [discriminate|];
     destruct (65535 <? a + n - 1); [discriminate|];
     intros H; injection H as H; subst p; cbn [p_payload be16 app List.length]; lia).
Qed.

Lemma req_write_regs_len cfg a bytes p :
  req_write_regs cfg a bytes = MOk p -> (List.length (p_payload p) <= 260)%nat.
Proof.
  unfold req_write_regs.
  destruct (246 <? lenN bytes) eqn:E; [discriminate|].
  destruct (u16 (lenN bytes) / 2 =? 0); [discriminate|].
  destruct (123 <? u16 (lenN bytes) / 2); [discriminate|].
  destruct (65535 <? a + u16 (lenN bytes) / 2 - 1); [discriminate|].
  intros H. injection H as H. subst p. cbn [p_payload be16 app List.length].
  rewrite ?app_length. cbn [List.length]. unfold lenN in E. lia.
Qed.

Lemma client_request_len cfg o p :
  client_request cfg o = MOk p -> (List.length (p_payload p) <= 260)%nat.
Proof.
  destruct o as [di a q|w a q rt|raw a q rt|a v|a vs|a v|w a vs|raw a bs]; cbn [client_request].
  - unfold req_read_bools.
    destruct (q =? 0); [discriminate|]. destruct (2000 <? q); [discriminate|].
    destruct (65535 <? a + q - 1); [discriminate|].
    intros H. injection H as H. subst p. cbn [p_payload be16 app List.length]. lia.
  - apply req_read_regs_len.
  - apply req_read_regs_len.
  - intros H. injection H as H. subst p.
    destruct v; cbn [p_payload be16 app List.length]; lia.
  - destruct (1968 <? lenN vs) eqn:E; [discriminate|].
    destruct (u16 (lenN vs) =? 0); [discriminate|].
    destruct (1968 <? u16 (lenN vs)); [discriminate|].
    destruct (65535 <? a + u16 (lenN vs) - 1); [discriminate|].
    intros H. injection H as H. subst p. cbn [p_payload be16 app List.length].
    rewrite ?app_length. cbn [List.length].
    pose proof (ClientReqP.encode_bools_lenN vs) as L. unfold lenN in L, E. lia.
  - intros H. injection H as H. subst p. cbn [p_payload be16 app List.length].
    rewrite u16_to_bytes_len. lia.
  - apply req_write_regs_len.
  - apply req_write_regs_len.
Qed.

Lemma client_request_pdu_ok cfg o req : op_wf o -> cfg_wf cfg ->
  client_request cfg o = MOk req -> pdu_ok req.
Proof.
  intros Hwf Hcfg H.
  destruct (ClientReqP.client_request_bytes cfg o req Hwf H) as (Hu & Hf & Hp).
  pose proof (client_request_len cfg o req H) as Hl.
  unfold cfg_wf in Hcfg. unfold pdu_ok. split.
  - change (bytesb (p_unit req :: p_fc req :: p_payload req))
      with (andb (is_byte (p_unit req)) (andb (is_byte (p_fc req)) (bytesb (p_payload req)))).
    rewrite Hp. unfold is_byte. lia.
  - apply N.le_lt_trans with 260; [lia|reflexivity].
Qed.

Theorem call_out_stack cfg o tmo last e s : bytesb s = true -> last < 65536 ->
  (forall req, client_request cfg o = MOk req -> pdu_ok req) ->
  sout_norm (call_out cfg o (xchg (src_tcp_reply (S (List.length s)) tmo last e s))) =
  sout_of (cr_res (client_call FMbap cfg last o e s)).
Proof.
  intros Hs Hl Hreq. rewrite <- call_out_client_call.
  apply call_out_rel. intros req Hr.
  apply src_tcp_reply_model; [exact Hs|exact (Hreq req Hr)|exact Hl].
Qed.

(* the same with the side conditions of the public API instead of the hypothesis on the requests *)
Corollary call_out_stack_wf cfg o tmo last e s : bytesb s = true -> last < 65536 -> op_wf o -> cfg_wf cfg ->
  sout_norm (call_out cfg o (xchg (src_tcp_reply (S (List.length s)) tmo last e s))) =
  sout_of (cr_res (client_call FMbap cfg last o e s)).
Proof.
  intros Hs Hl Ho Hc. apply call_out_stack; [exact Hs|exact Hl|].
  intros req Hr. exact (client_request_pdu_ok cfg o req Ho Hc Hr).
Qed.

(* the translated transport as the oracle of the translated client *)
Lemma src_tcp_reply_hyp fuel' tmo last e s :
  transport_hyp (oracle_of (src_tcp_reply fuel' tmo last e s)) (src_tcp_reply fuel' tmo last e s).
Proof. apply oracle_of_hyp. intros req. apply src_tcp_reply_wf_all. Qed.

(* two instances: the translated method, linked, on top of the translated tcp
   transport, returns what the model's client_call returns (up to [norm_io]) *)
Theorem src_WriteCoil_stack cfg tt tmo last e s fuel a v :
  bytesb s = true -> last < 65536 -> cfg_wf cfg -> a < 65536 ->
  exists X,
    call_with src_pure (oracle_of (src_tcp_reply (S (List.length s)) tmo last e s)) fuel "ModbusClient.WriteCoil"
              (mc_fields cfg tt ++ [VN a; VB v])%list = out_err (mc_fields cfg tt) X /\
    sout_norm X = sout_of (cr_res (client_call FMbap cfg last (OpWriteCoil a v) e s)).
Proof.
  intros Hs Hl Hc Ha.
  exists (call_out cfg (OpWriteCoil a v) (xchg (src_tcp_reply (S (List.length s)) tmo last e s))).
  split.
  - apply src_WriteCoil_ok; [apply src_tcp_reply_hyp|exact Ha].
  - apply call_out_stack_wf; [exact Hs|exact Hl|exact Ha|exact Hc].
Qed.

Theorem src_ReadRegisters_stack cfg tt tmo last e s fuel a q rtn rt :
  bytesb s = true -> last < 65536 -> cfg_wf cfg ->
  a < 65536 -> q < 65536 -> regtype_sel rt rtn -> (300 < fuel)%nat ->
  exists X,
    call_with src_pure (oracle_of (src_tcp_reply (S (List.length s)) tmo last e s)) fuel "ModbusClient.ReadRegisters"
              (mc_fields cfg tt ++ [VN a; VN q; VN rtn])%list = out_vals (mc_fields cfg tt) X /\
    sout_norm X = sout_of (cr_res (client_call FMbap cfg last (OpReadRegs 1 a q rt) e s)).
Proof.
  intros Hs Hl Hc Ha Hq Hrt Hfuel.
  exists (call_out cfg (OpReadRegs 1 a q rt) (xchg (src_tcp_reply (S (List.length s)) tmo last e s))).
  split.
  - apply src_ReadRegisters_ok; [apply src_tcp_reply_hyp|assumption..].
  - apply call_out_stack_wf; [exact Hs|exact Hl| |exact Hc].
    cbn [op_wf]. split; [left; reflexivity|]. split; [exact Ha|exact Hq].
Qed.

Print Assumptions src_tcp_reply_wf.
Print Assumptions src_tcp_reply_model.
Print Assumptions call_out_stack.
Print Assumptions call_out_stack_wf.
Print Assumptions src_WriteCoil_stack.
Print Assumptions src_ReadRegisters_stack.
