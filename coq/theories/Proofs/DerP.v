(* The decoder model of Model/Der.v: it never indexes out of range, and on
   inputs starting with 0x0c it accepts exactly  0c ++ der_len |s| ++ s ++ rest
   with s valid UTF-8 and |s| < 2^31. *)
From Modbus Require Import Base.Bytes Model.Utf8 Model.Der Spec.RoleSpec Proofs.Utf8P Proofs.RoleSpecP.
From Coq Require Import ZifyBool ZifyNat ZifyN.
Ltac Zify.zify_post_hook ::= Z.div_mod_to_equations.

Ltac split_ifs :=
  repeat match goal with
         | |- context [if ?c then _ else _] => destruct c eqn:?; try lia
         end.
Ltac split_ifs_in H :=
  repeat match type of H with
         | context [if ?c then _ else _] => destruct c eqn:?; try lia; try discriminate H
         end.

(* ----------------------------------------------------- list utilities *)

Lemma nth_error_lt {A} (l : list A) n : (n < length l)%nat -> exists b, nth_error l n = Some b.
Proof.
  intros H. destruct (nth_error l n) eqn:E; [eauto|]. apply nth_error_None in E. lia.
Qed.

Lemma skipn_nth {A} (l : list A) : forall n b, nth_error l n = Some b ->
  skipn n l = b :: skipn (S n) l.
Proof.
  induction l as [|a l IH]; intros [|n] b H; cbn in *; try discriminate.
  - congruence.
  - apply IH, H.
Qed.

Lemma skipn_add {A} a : forall b (l : list A), skipn (a + b) l = skipn b (skipn a l).
Proof.
  induction a as [|a IH]; intros b l; [reflexivity|].
  destruct l as [|x l]; cbn [Nat.add skipn]; [destruct b; reflexivity|apply IH].
Qed.

Lemma slice_mid {A} (l : list A) lo m : (lo + m <= length l)%nat ->
  slice l lo (lo + m) = Some (firstn m (skipn lo l)).
Proof.
  intros H. unfold slice.
  replace (Nat.leb lo (lo + m)) with true by (symmetry; apply Nat.leb_le; lia).
  replace (Nat.leb (lo + m) (length l)) with true by (symmetry; apply Nat.leb_le; lia).
  cbn [andb]. replace (lo + m - lo)%nat with m by lia. reflexivity.
Qed.

Lemma slice_end {A} (l : list A) e : (e <= length l)%nat ->
  slice l e (length l) = Some (skipn e l).
Proof.
  intros H. unfold slice.
  replace (Nat.leb e (length l)) with true by (symmetry; apply Nat.leb_le; lia).
  rewrite Nat.leb_refl. cbn [andb]. f_equal. apply firstn_all2. rewrite skipn_length. lia.
Qed.

(* -------------------------------------------- list view of the decoder *)

(* the loop over the length octets, on the remaining input *)
Fixpoint lo_list (l : list N) (n : nat) (len : N) {struct n} : option (N * list N) :=
  match n with
  | O => Some (len, l)
  | S n' =>
    match l with
    | [] => None
    | b :: t =>
      if 2 ^ 23 <=? len then None
      else if len * 256 + b =? 0 then None
           else lo_list t n' (len * 256 + b)
    end
  end.

Lemma length_octets_list n : forall bytes offset len,
  length_octets bytes n offset len =
  match lo_list (skipn offset bytes) n len with
  | Some (l, _) => DOk (l, (offset + n)%nat)
  | None => DErr
  end.
Proof.
  induction n as [|n IH]; intros bytes offset len.
  - cbn [length_octets lo_list]. rewrite Nat.add_0_r. reflexivity.
  - cbn [length_octets lo_list].
    destruct (Nat.leb (length bytes) offset) eqn:E.
    + apply Nat.leb_le in E. rewrite skipn_all2 by exact E. reflexivity.
    + apply Nat.leb_gt in E. destruct (nth_error_lt bytes offset E) as [b Hb].
      unfold index_at. rewrite Hb, (skipn_nth _ _ _ Hb).
      destruct (2 ^ 23 <=? len); [reflexivity|].
      destruct (len * 256 + b =? 0); [reflexivity|].
      rewrite IH. replace (S offset + n)%nat with (offset + S n)%nat by lia. reflexivity.
Qed.

Lemma lo_list_rest n : forall l len len' rest,
  lo_list l n len = Some (len', rest) -> rest = skipn n l /\ (n <= length l)%nat.
Proof.
  induction n as [|n IH]; intros l len len' rest H; cbn [lo_list] in H.
  - inversion H. split; [reflexivity|lia].
  - destruct l as [|b t]; [discriminate|].
    destruct (2 ^ 23 <=? len); [discriminate|].
    destruct (len * 256 + b =? 0); [discriminate|].
    apply IH in H as [-> H]. cbn [skipn length]. split; [reflexivity|lia].
Qed.

(* contents and rest, on the input after the header *)
Definition body (t : list N) (len : N) : option (list N * list N) :=
  if lenN t <? len then None
  else let s := firstn (N.to_nat len) t in
       if utf8_valid s then Some (s, skipn (N.to_nat len) t) else None.

Lemma utf8_body_list bytes offset len : (offset <= length bytes)%nat ->
  utf8_body bytes offset len =
  match body (skipn offset bytes) len with Some p => DOk p | None => DErr end.
Proof.
  intros Ho. unfold utf8_body, body, invalid_length, lenN. rewrite skipn_length.
  destruct (N.of_nat (length bytes) <? N.of_nat offset + len) eqn:E.
  - replace (N.of_nat (length bytes - offset) <? len) with true by lia. reflexivity.
  - replace (N.of_nat (length bytes - offset) <? len) with false by lia.
    unfold slice_o. rewrite slice_mid by lia.
    destruct (utf8_valid (firstn (N.to_nat len) (skipn offset bytes))); [|reflexivity].
    rewrite slice_end by lia. rewrite skipn_add. reflexivity.
Qed.

Definition unmarshal_list (v : list N) : option (list N * list N) :=
  match v with
  | _ :: b1 :: t =>
    if b1 / 128 =? 0 then body t (b1 mod 128)
    else if b1 mod 128 =? 0 then None
    else match lo_list t (N.to_nat (b1 mod 128)) 0 with
         | Some (len, t') => if len <? 128 then None else body t' len
         | None => None
         end
  | _ => None
  end.

(* with identifier octet 0x0c: class 0, primitive, tag 12; the decoder is the
   list view and in particular never panics *)
Lemma unmarshal_eq b1 t :
  unmarshal_utf8string (12 :: b1 :: t) =
  match unmarshal_list (12 :: b1 :: t) with Some p => DOk p | None => DErr end.
Proof.
  unfold unmarshal_utf8string, parse_tag_len, unmarshal_list.
  cbn [length Nat.eqb Nat.leb index_at nth_error].
  change (12 mod 32) with 12. change (12 =? 31) with false.
  change (12 / 64) with 0. change ((12 / 32) mod 2 =? 1) with false. cbv iota.
  destruct (b1 / 128 =? 0) eqn:E1.
  - cbn [tl_class tl_tag tl_compound tl_length].
    change (negb ((0 =? 0) && ((12 =? tag_utf8string) && negb false))) with false. cbv iota.
    rewrite utf8_body_list by (cbn [length]; lia). reflexivity.
  - destruct (b1 mod 128 =? 0) eqn:E2; [reflexivity|].
    rewrite length_octets_list. cbn [skipn].
    destruct (lo_list t (N.to_nat (b1 mod 128)) 0) as [[len t']|] eqn:L; [|reflexivity].
    destruct (len <? 128) eqn:E3; [reflexivity|].
    cbn [tl_class tl_tag tl_compound tl_length].
    change (negb ((0 =? 0) && ((12 =? tag_utf8string) && negb false))) with false. cbv iota.
    apply lo_list_rest in L as [-> Hk].
    rewrite utf8_body_list by (cbn [length]; lia). reflexivity.
Qed.

Lemma unmarshal_no_panic b1 t : unmarshal_utf8string (12 :: b1 :: t) <> DPanic.
Proof. rewrite unmarshal_eq. destruct (unmarshal_list _); discriminate. Qed.

Lemma unmarshal_short v : (length v < 2)%nat -> unmarshal_list v = None.
Proof. destruct v as [|a [|b t]]; cbn [length]; intros H; try reflexivity. lia. Qed.

(* --------------------------------------------------- contents and rest *)

Lemma body_sound t len s rest : body t len = Some (s, rest) ->
  t = s ++ rest /\ lenN s = len /\ utf8_valid s = true.
Proof.
  unfold body. destruct (lenN t <? len) eqn:E; [discriminate|].
  destruct (utf8_valid (firstn (N.to_nat len) t)) eqn:V; [|discriminate].
  intros H. inversion H; subst. split; [symmetry; apply firstn_skipn|]. split; [|exact V].
  unfold lenN in *. rewrite firstn_length_le by lia. lia.
Qed.

Lemma body_complete s rest :
  body (s ++ rest) (lenN s) = if utf8_valid s then Some (s, rest) else None.
Proof.
  unfold body, lenN. rewrite Nat2N.id, app_length.
  replace (N.of_nat (length s + length rest) <? N.of_nat (length s)) with false by lia.
  rewrite firstn_app, firstn_all, Nat.sub_diag, firstn_O, app_nil_r.
  rewrite skipn_app, skipn_all, Nat.sub_diag, skipn_O. reflexivity.
Qed.

Lemma body_truncated t len : lenN t < len -> body t len = None.
Proof. intros H. unfold body. destruct (lenN t <? len) eqn:E; [reflexivity|lia]. Qed.

(* ------------------------------------------- the length octets, unrolled *)

Lemma some_pair_eq {A B} (a a' : A) (b b' : B) : Some (a, b) = Some (a', b') -> a = a' /\ b = b'.
Proof. intros H. inversion H. split; reflexivity. Qed.

Lemma lo_list_1 t len t' : lo_list t 1 0 = Some (len, t') ->
  exists a, t = a :: t' /\ len = a /\ a <> 0.
Proof.
  destruct t as [|a t]; cbn [lo_list]; [discriminate|]. intros H. split_ifs_in H.
  apply some_pair_eq in H as [<- <-]. exists a. repeat split; lia.
Qed.

Lemma lo_list_2 t len t' : lo_list t 2 0 = Some (len, t') ->
  exists a b, t = a :: b :: t' /\ len = a * 256 + b /\ a <> 0.
Proof.
  destruct t as [|a [|b t]]; cbn [lo_list]; intros H; split_ifs_in H; try discriminate.
  apply some_pair_eq in H as [<- <-]. exists a, b. repeat split; lia.
Qed.

Lemma lo_list_3 t len t' : lo_list t 3 0 = Some (len, t') ->
  exists a b c, t = a :: b :: c :: t' /\ len = a * 65536 + b * 256 + c /\ a <> 0 /\
                a * 256 + b < 2 ^ 23.
Proof.
  destruct t as [|a [|b [|c t]]]; cbn [lo_list]; intros H; split_ifs_in H; try discriminate.
  apply some_pair_eq in H as [<- <-]. exists a, b, c. repeat split; lia.
Qed.

Lemma lo_list_4 t len t' : lo_list t 4 0 = Some (len, t') ->
  exists a b c d, t = a :: b :: c :: d :: t' /\
                  len = a * 16777216 + b * 65536 + c * 256 + d /\ a <> 0 /\
                  a * 65536 + b * 256 + c < 2 ^ 23.
Proof.
  destruct t as [|a [|b [|c [|d t]]]]; cbn [lo_list]; intros H; split_ifs_in H; try discriminate.
  apply some_pair_eq in H as [<- <-]. exists a, b, c, d. repeat split; lia.
Qed.

(* five or more length octets never pass: the first must be non-zero, so the
   value is at least 2^24 when the fifth is read *)
Lemma lo_list_5 t k : lo_list t (S (S (S (S (S k))))) 0 = None.
Proof.
  destruct t as [|a [|b [|c [|d [|e t]]]]]; cbn [lo_list]; split_ifs; reflexivity.
Qed.

(* a zero first length octet is refused *)
Lemma lo_list_zero t k : lo_list (0 :: t) (S k) 0 = None.
Proof. cbn [lo_list]. split_ifs; reflexivity. Qed.

Lemma lo_list_short t k len : (length t < k)%nat -> forall acc, lo_list t k acc <> Some len.
Proof.
  revert t. induction k as [|k IH]; intros t H acc; [lia|].
  destruct t as [|b t]; cbn [lo_list]; [discriminate|].
  split_ifs; try discriminate. apply IH. cbn [length] in H. lia.
Qed.

(* ------------------------------------------------------------ soundness *)

Lemma unmarshal_list_sound b0 b1 t s rest : bytesb (b1 :: t) = true ->
  unmarshal_list (b0 :: b1 :: t) = Some (s, rest) ->
  b1 :: t = der_len (lenN s) ++ s ++ rest /\ utf8_valid s = true /\ lenN s < 2 ^ 31.
Proof.
  intros Hb H. cbn [bytesb forallb] in Hb. apply andb_true_iff in Hb as [Hb1 Hbt].
  unfold is_byte in Hb1. cbn [unmarshal_list] in H.
  destruct (b1 / 128 =? 0) eqn:E1.
  { apply body_sound in H as (-> & Hl & Hv). rewrite Hl, der_len_short by lia.
    cbn [app]. repeat split; [f_equal; lia|exact Hv|lia]. }
  destruct (b1 mod 128 =? 0) eqn:E2; [discriminate|].
  destruct (lo_list t (N.to_nat (b1 mod 128)) 0) as [[len t']|] eqn:L; [|discriminate].
  destruct (len <? 128) eqn:E3; [discriminate|].
  apply body_sound in H as (-> & Hl & Hv). rewrite Hl.
  remember (N.to_nat (b1 mod 128)) as k eqn:Hk.
  destruct k as [|[|[|[|[|k]]]]].
  - lia.
  - apply lo_list_1 in L as (a & -> & -> & Ha).
    cbn [forallb] in Hbt. unfold is_byte in Hbt.
    rewrite der_len_1 by lia. cbn [app]. repeat split; [f_equal; lia|exact Hv|lia].
  - apply lo_list_2 in L as (a & b & -> & -> & Ha).
    cbn [forallb] in Hbt. unfold is_byte in Hbt.
    rewrite der_len_2 by lia. cbn [app].
    repeat split; [f_equal; [lia|f_equal; [lia|f_equal; lia]]|exact Hv|lia].
  - apply lo_list_3 in L as (a & b & c & -> & -> & Ha & Hlim).
    cbn [forallb] in Hbt. unfold is_byte in Hbt.
    rewrite der_len_3 by lia. cbn [app].
    repeat split; [f_equal; [lia|f_equal; [lia|f_equal; [lia|f_equal; lia]]]|exact Hv|lia].
  - apply lo_list_4 in L as (a & b & c & d & -> & -> & Ha & Hlim).
    cbn [forallb] in Hbt. unfold is_byte in Hbt.
    rewrite der_len_4 by lia. cbn [app].
    repeat split;
      [f_equal; [lia|f_equal; [lia|f_equal; [lia|f_equal; [lia|f_equal; lia]]]]|exact Hv|lia].
  - rewrite lo_list_5 in L. discriminate.
Qed.

(* --------------------------------------------------------- completeness *)

(* after a DER header for length n (< 2^31) the decoder is at the contents *)
Lemma unmarshal_list_header b0 n t : n < 2 ^ 31 ->
  unmarshal_list (b0 :: der_len n ++ t) = body t n.
Proof.
  intros Hn.
  destruct (N.lt_ge_cases n 128) as [H0|H0].
  { rewrite der_len_short by lia. cbn [app unmarshal_list].
    replace (n / 128 =? 0) with true by lia. replace (n mod 128) with n by lia. reflexivity. }
  destruct (N.lt_ge_cases n 256) as [H1|H1].
  { rewrite der_len_1 by lia. cbn [app unmarshal_list].
    change (129 / 128 =? 0) with false. change (129 mod 128) with 1.
    change (1 =? 0) with false. change (N.to_nat 1) with 1%nat. cbn [lo_list].
    split_ifs. replace (0 * 256 + n) with n by lia. reflexivity. }
  destruct (N.lt_ge_cases n 65536) as [H2|H2].
  { rewrite der_len_2 by lia. cbn [app unmarshal_list].
    change (130 / 128 =? 0) with false. change (130 mod 128) with 2.
    change (2 =? 0) with false. change (N.to_nat 2) with 2%nat. cbn [lo_list].
    split_ifs. f_equal. lia. }
  destruct (N.lt_ge_cases n 16777216) as [H3|H3].
  { rewrite der_len_3 by lia. cbn [app unmarshal_list].
    change (131 / 128 =? 0) with false. change (131 mod 128) with 3.
    change (3 =? 0) with false. change (N.to_nat 3) with 3%nat. cbn [lo_list].
    split_ifs. f_equal. lia. }
  rewrite der_len_4 by lia. cbn [app unmarshal_list].
  change (132 / 128 =? 0) with false. change (132 mod 128) with 4.
  change (4 =? 0) with false. change (N.to_nat 4) with 4%nat. cbn [lo_list].
  split_ifs. f_equal. lia.
Qed.

Lemma unmarshal_list_complete s rest : lenN s < 2 ^ 31 ->
  unmarshal_list (der_utf8string s ++ rest) = if utf8_valid s then Some (s, rest) else None.
Proof.
  intros H. unfold der_utf8string. rewrite <- app_comm_cons, <- app_assoc.
  rewrite unmarshal_list_header by exact H. apply body_complete.
Qed.

Lemma der_len_nonempty n : der_len n <> [].
Proof. unfold der_len. destruct (n <? 128); discriminate. Qed.
