(* Table-like helpers and frame assembly, as translated from the Go source
   (Gen/SrcPure.v), against the model: expectedResponseLenth (complete sweep of
   its 2^16 inputs), the two exception/error maps (complete sweeps),
   serialCharTime, registerCount, assembleRTUFrame, assembleMBAPFrame. *)
From Coq Require Import List NArith ZArith String Lia Bool.
From Coq Require Import ZifyBool ZifyNat ZifyN.
Import ListNotations.
From Modbus Require Import Base.Bytes Base.Enum Model.GoLite Gen.SrcPure Model.Crc Model.Encoding.
From Modbus Require Import Model.Wire Model.Client Model.Server Model.Timing.
From Modbus Require Import Proofs.GoLiteP Proofs.GoLiteLinkP Proofs.SrcCrcP.
Open Scope string_scope.
Open Scope N_scope.

Notation GOk := GoLite.Ok.

(* ---------------------------------------------------------------- error values *)

(* the number the translator gave to an Error constant of the package *)
Fixpoint err_code (name : string) (tbl : list (string * N)) : N :=
  match tbl with
  | [] => 0
  | (n, c) :: t => if String.eqb n name then c else err_code name t
  end.
Definition code_of (name : string) : N := err_code name src_error_codes.

(* 1 is "an error that is none of the package's constants" (fmt.Errorf ...) *)
Definition other_error : N := 1.

(* the documented error of a known exception code *)
Definition exc_name (c : N) : string :=
  if c =? 1 then "ErrIllegalFunction"
  else if c =? 2 then "ErrIllegalDataAddress"
  else if c =? 3 then "ErrIllegalDataValue"
  else if c =? 4 then "ErrServerDeviceFailure"
  else if c =? 5 then "ErrAcknowledge"
  else if c =? 6 then "ErrServerDeviceBusy"
  else if c =? 8 then "ErrMemoryParityError"
  else if c =? 10 then "ErrGWPathUnavailable"
  else if c =? 11 then "ErrGWTargetFailedToRespond"
  else "".

(* the model's error class as a Go error value *)
Definition err_value (e : err) : N :=
  match e with
  | EExc c => code_of (exc_name c)
  | EExcUnknown _ => other_error
  | EProtocol => code_of "ErrProtocolError"
  | _ => 0
  end.

(* the named error codes are pairwise distinct, non-nil and not the "other" value *)
Lemma error_codes_distinct :
  NoDup (map snd src_error_codes) /\ forallb (fun nc => 2 <=? snd nc) src_error_codes = true.
Proof.
  split.
  - vm_compute. repeat (constructor; [cbv; intuition discriminate|]). constructor.
  - vm_compute. reflexivity.
Qed.

(* ---------------------------------------------------------------- boolean comparison of results *)

Definition ok1_eqb (r e : res (list val)) : bool :=
  match r, e with
  | GOk [VN a], GOk [VN c] => a =? c
  | _, _ => false
  end.

Lemma ok1_eqb_eq r e : ok1_eqb r e = true -> r = e.
Proof.
  unfold ok1_eqb.
  destruct r as [[|[a| |] [|? ?]]| | |]; try discriminate;
  destruct e as [[|[c| |] [|? ?]]| | |]; try discriminate.
  intros H. apply N.eqb_eq in H. subst. reflexivity.
Qed.

Definition ok2_eqb (r e : res (list val)) : bool :=
  match r, e with
  | GOk [VN a; VN b], GOk [VN c; VN d] => andb (a =? c) (b =? d)
  | _, _ => false
  end.

Lemma ok2_eqb_eq r e : ok2_eqb r e = true -> r = e.
Proof.
  unfold ok2_eqb.
  destruct r as [[|[a| |] [|[b| |] [|? ?]]]| | |]; try discriminate;
  destruct e as [[|[c| |] [|[d| |] [|? ?]]]| | |]; try discriminate.
  intros H. apply andb_true_iff in H as [H1 H2].
  apply N.eqb_eq in H1, H2. subst. reflexivity.
Qed.

(* ---------------------------------------------------------------- expectedResponseLenth *)

Definition erl_expected (fc b2 : N) : res (list val) :=
  match expected_len fc b2 with
  | Some m => GOk [VN m; VN 0]
  | None => GOk [VN 0; VN (code_of "ErrProtocolError")]
  end.

Lemma erl_all base fuel :
  forallb (fun fc => forallb (fun b2 =>
     ok2_eqb (call_with src_pure base fuel "expectedResponseLenth" [VN fc; VN b2]) (erl_expected fc b2))
     bytes_all) bytes_all = true.
Proof. vm_compute. reflexivity. Qed.

Lemma src_expectedResponseLenth_ok base fuel fc b2 : fc < 256 -> b2 < 256 ->
  call_with src_pure base fuel "expectedResponseLenth" [VN fc; VN b2] = erl_expected fc b2.
Proof.
  intros Hfc Hb2. apply ok2_eqb_eq.
  pose proof (forall_bytes _ (erl_all base fuel) fc Hfc) as H. cbv beta in H.
  exact (forall_bytes _ H b2 Hb2).
Qed.

(* ---------------------------------------------------------------- mapExceptionCodeToError *)

Lemma exc_map_all base fuel :
  forallb (fun c =>
     ok1_eqb (call_with src_pure base fuel "mapExceptionCodeToError" [VN c]) (GOk [VN (err_value (exc_err c))]))
     bytes_all = true.
Proof. vm_compute. reflexivity. Qed.

Lemma src_mapExceptionCodeToError_ok base fuel c : c < 256 ->
  call_with src_pure base fuel "mapExceptionCodeToError" [VN c] = GOk [VN (err_value (exc_err c))].
Proof. intros Hc. apply ok1_eqb_eq. exact (forall_bytes _ (exc_map_all base fuel) c Hc). Qed.

(* a known exception code yields a named error, another one an unnamed non-nil error *)
Lemma exc_err_value_known c : known_exception c = true ->
  err_value (exc_err c) = code_of (exc_name c) /\ 2 <= code_of (exc_name c).
Proof.
  unfold known_exception, mem. cbn [existsb]. intros H.
  unfold exc_err, known_exception, mem. cbn [existsb]. rewrite H. cbn [err_value]. split; [reflexivity|].
  repeat (apply orb_true_iff in H; destruct H as [H|H]);
    try (apply N.eqb_eq in H; subst c; vm_compute; discriminate).
  discriminate.
Qed.

(* ---------------------------------------------------------------- mapErrorToExceptionCode *)

(* the handler error classes of the server model as Go error values *)
Definition herr_value (e : herr) : N :=
  match e with
  | HNone => 0
  | HModbus c => code_of (exc_name c)
  | HProtocol => code_of "ErrProtocolError"
  | HOther => other_error
  end.

(* every error value: nil, other, and each named constant *)
Definition all_error_values : list N := 0 :: 1 :: map snd src_error_codes.

(* the documented inverse table on error values *)
Definition err_to_exc (v : N) : N :=
  if v =? code_of "ErrIllegalFunction" then 1
  else if v =? code_of "ErrIllegalDataAddress" then 2
  else if v =? code_of "ErrIllegalDataValue" then 3
  else if v =? code_of "ErrServerDeviceFailure" then 4
  else if v =? code_of "ErrAcknowledge" then 5
  else if v =? code_of "ErrServerDeviceBusy" then 6
  else if v =? code_of "ErrMemoryParityError" then 8
  else if v =? code_of "ErrGWPathUnavailable" then 10
  else if v =? code_of "ErrGWTargetFailedToRespond" then 11
  else 4.

Lemma err_map_all base fuel :
  forallb (fun v =>
     ok1_eqb (call_with src_pure base fuel "mapErrorToExceptionCode" [VN v]) (GOk [VN (err_to_exc v)]))
     all_error_values = true.
Proof. vm_compute. reflexivity. Qed.

Lemma src_mapErrorToExceptionCode_ok base fuel v : In v all_error_values ->
  call_with src_pure base fuel "mapErrorToExceptionCode" [VN v] = GOk [VN (err_to_exc v)].
Proof.
  intros Hv. apply ok1_eqb_eq.
  pose proof (err_map_all base fuel) as H. rewrite forallb_forall in H. exact (H v Hv).
Qed.

(* on the handler error classes of the server model this is herr_code *)
Lemma err_to_exc_herr e :
  (match e with HModbus c => known_exception c = true | _ => True end) ->
  e <> HNone ->
  err_to_exc (herr_value e) = herr_code (match e with HProtocol => HModbus 4 | x => x end).
Proof.
  intros Hk Hn. destruct e as [|c| |]; [congruence| | |]; cbn [herr_value herr_code].
  - unfold known_exception, mem in Hk. cbn [existsb] in Hk.
    repeat (apply orb_true_iff in Hk; destruct Hk as [Hk|Hk]);
      try (apply N.eqb_eq in Hk; subst c; vm_compute; reflexivity).
    discriminate.
  - vm_compute. reflexivity.
  - vm_compute. reflexivity.
Qed.

Lemma herr_value_in e :
  (match e with HModbus c => known_exception c = true | _ => True end) ->
  In (herr_value e) all_error_values.
Proof.
  intros Hk. destruct e as [|c| |]; cbn [herr_value].
  - left. reflexivity.
  - unfold known_exception, mem in Hk. cbn [existsb] in Hk.
    repeat (apply orb_true_iff in Hk; destruct Hk as [Hk|Hk]);
      try (apply N.eqb_eq in Hk; subst c; vm_compute; tauto).
    discriminate.
  - vm_compute. tauto.
  - right. left. reflexivity.
Qed.

(* ---------------------------------------------------------------- serialCharTime *)

Lemma run_serialCharTime fe fuel rate : 0 < rate -> rate < 2 ^ 63 ->
  run_fn ge fe fuel src_fn_serialCharTime [VN rate] = GOk [VN (11000000000 / rate)].
Proof.
  intros H0 H1. gl_eval.
  replace (rate <? 2 ^ 63) with true by lia.
  cbv beta iota.
  replace (rate =? 0) with false by lia.
  reflexivity.
Qed.

Lemma run_serialCharTime_zero fe fuel :
  run_fn ge fe fuel src_fn_serialCharTime [VN 0] = GoLite.Panic.
Proof. gl_eval. reflexivity. Qed.

Lemma src_serialCharTime_ok base fuel rate : 0 < rate -> rate < 2 ^ 63 ->
  call_with src_pure base fuel "serialCharTime" [VN rate] = GOk [VN (Z.to_N (char_time (Z.of_N rate)))].
Proof.
  intros H0 H1. link_step "serialCharTime" src_fn_serialCharTime.
  rewrite run_serialCharTime by assumption.
  unfold char_time, second_ns. do 3 f_equal.
  rewrite Z.quot_div_nonneg by lia.
  change (11 * 1000000000)%Z with (Z.of_N 11000000000).
  rewrite <- N2Z.inj_div. rewrite N2Z.id. reflexivity.
Qed.

(* ---------------------------------------------------------------- registerCount *)

Lemma run_registerCount fe fuel q w : q < 65536 -> w < 65536 ->
  run_fn ge fe fuel src_fn_registerCount [VN q; VN w] = GOk [VN (register_count q w)].
Proof.
  intros Hq Hw. gl_eval. unfold register_count.
  change (2 ^ 32) with 4294967296. change (2 ^ 16) with 65536.
  replace (q mod 4294967296) with q by lia. replace (w mod 4294967296) with w by lia.
  assert (q * w < 4294967296) by nia.
  replace ((q * w) mod 4294967296) with (q * w) by lia.
  destruct (65535 <? q * w) eqn:E.
  - reflexivity.
  - replace ((q * w) mod 65536) with (q * w) by lia. reflexivity.
Qed.

Lemma src_registerCount_ok base fuel q w : q < 65536 -> w < 65536 ->
  call_with src_pure base fuel "registerCount" [VN q; VN w] = GOk [VN (register_count q w)].
Proof.
  intros Hq Hw. link_step "registerCount" src_fn_registerCount. apply run_registerCount; assumption.
Qed.

(* ---------------------------------------------------------------- assembleRTUFrame *)

Ltac gl_step :=
  cbn [exec resolve resolves eval evals rbind store stores set_slot sset get_slot sget get_slots
       f_nparams f_zeros f_outs f_results f_body List.length Nat.eqb negb].

Lemma run_assembleRTUFrame fe fuel unit fc payload :
  (forall s, fe "crc.init" [VN s] = GOk [VN crc_init]) ->
  (forall s l, bytesb l = true -> fe "crc.add" [VN s; vbytes l] = GOk [VN (crc_from s l)]) ->
  (forall s, fe "crc.value" [VN s] = GOk [VN s; vbytes (crc_value s)]) ->
  bytesb (unit :: fc :: payload) = true ->
  run_fn ge fe fuel src_fn_rtuTransport_assembleRTUFrame [VN unit; VN fc; vbytes payload] =
  GOk [vbytes (assemble_rtu (mkpdu unit fc payload))].
Proof.
  intros Hinit Hadd Hval Hb. unfold run_fn, src_fn_rtuTransport_assembleRTUFrame.
  unfold vbytes in *.
  gl_step. cbn [app]. gl_step.
  rewrite Hinit. gl_step.
  change (VL ((([] ++ [VN unit]) ++ [VN fc]) ++ map VN payload)) with (VL (map VN (unit :: fc :: payload))).
  rewrite Hadd by exact Hb. gl_step.
  rewrite Hval. gl_step.
  unfold assemble_rtu, crc_bytes, crc16. cbn [p_unit p_fc p_payload app map].
  rewrite map_app. cbn [map]. reflexivity.
Qed.

Lemma src_assembleRTUFrame_ok base fuel unit fc payload :
  bytesb (unit :: fc :: payload) = true ->
  call_with src_pure base fuel "rtuTransport.assembleRTUFrame" [VN unit; VN fc; vbytes payload] =
  GOk [vbytes (assemble_rtu (mkpdu unit fc payload))].
Proof.
  intros Hb. link_step "rtuTransport.assembleRTUFrame" src_fn_rtuTransport_assembleRTUFrame.
  apply run_assembleRTUFrame; [| | |exact Hb].
  - intros s. callee "rtuTransport.assembleRTUFrame" "crc.init" src_fn_crc_init. apply src_crc_init_ok.
  - intros s l Hl. callee "rtuTransport.assembleRTUFrame" "crc.add" src_fn_crc_add. apply src_crc_add_ok. exact Hl.
  - intros s. callee "rtuTransport.assembleRTUFrame" "crc.value" src_fn_crc_value. apply src_crc_value_ok.
Qed.

(* ---------------------------------------------------------------- assembleMBAPFrame *)

Lemma be16_u16_to_bytes v : u16_to_bytes BigE v = be16 v.
Proof.
  unfold u16_to_bytes, be16, byte_of. change (2 ^ (8 * 1)) with 256. change (2 ^ (8 * 0)) with 1.
  rewrite N.div_1_r. reflexivity.
Qed.

Lemma run_assembleMBAPFrame fe fuel txn unit fc payload :
  (forall e v, fe "uint16ToBytes" [VN (endian_sel e); VN v] = GOk [vbytes (u16_to_bytes e v)]) ->
  N.of_nat (List.length payload) < 2 ^ 62 ->
  run_fn ge fe fuel src_fn_tcpTransport_assembleMBAPFrame [VN txn; VN unit; VN fc; vbytes payload] =
  GOk [vbytes (assemble_mbap txn (mkpdu unit fc payload))].
Proof.
  intros Hc Hlen. unfold run_fn, src_fn_tcpTransport_assembleMBAPFrame.
  unfold vbytes in *.
  gl_step. cbn [app]. gl_step.
  change (VN 1) with (VN (endian_sel BigE)).
  rewrite !Hc. gl_step.
  cbn [arith wrap]. rewrite map_length.
  replace (2 + N.of_nat (List.length payload) <? 2 ^ 63) with true by lia.
  gl_step. rewrite Hc. gl_step.
  unfold assemble_mbap, lenN, u16. cbn [p_unit p_fc p_payload].
  rewrite !be16_u16_to_bytes.
  change (2 ^ 16) with 65536.
  rewrite !map_app. cbn [map]. rewrite <- !app_assoc. reflexivity.
Qed.

Lemma src_assembleMBAPFrame_ok base fuel txn unit fc payload :
  N.of_nat (List.length payload) < 2 ^ 62 ->
  call_with src_pure base fuel "tcpTransport.assembleMBAPFrame" [VN txn; VN unit; VN fc; vbytes payload] =
  GOk [vbytes (assemble_mbap txn (mkpdu unit fc payload))].
Proof.
  intros Hlen. link_step "tcpTransport.assembleMBAPFrame" src_fn_tcpTransport_assembleMBAPFrame.
  apply run_assembleMBAPFrame; [|exact Hlen].
  intros e v. callee "tcpTransport.assembleMBAPFrame" "uint16ToBytes" src_fn_uint16ToBytes.
  apply src_uint16ToBytes_ok.
Qed.
