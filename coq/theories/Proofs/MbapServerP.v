(* Characterisation of the server-side MBAP reader (read_mbap): it accepts
   exactly the streams that start with a well-formed frame. *)
From Modbus Require Import Base.Bytes Model.Encoding Model.Wire Model.Server
  Spec.ModbusSpec Spec.ServerSpec Spec.ServerSessionSpec.
From Coq Require Import ZifyBool ZifyNat ZifyN.
Ltac Zify.zify_post_hook ::= Z.div_mod_to_equations.

Lemma firstn_app_exact {A} (l r : list A) : firstn (length l) (l ++ r) = l.
Proof. induction l as [|x l IH]; [destruct r; reflexivity|]. cbn [length app firstn]. f_equal. exact IH. Qed.

Lemma skipn_app_exact {A} (l r : list A) : skipn (length l) (l ++ r) = r.
Proof. induction l as [|x l IH]; [reflexivity|]. cbn [length app skipn]. exact IH. Qed.

Lemma bytesb_firstn n l : bytesb l = true -> bytesb (firstn n l) = true.
Proof.
  intros H. rewrite <- (firstn_skipn n l), bytesb_app in H.
  apply andb_true_iff in H. tauto.
Qed.

Lemma bytesb_skipn n l : bytesb l = true -> bytesb (skipn n l) = true.
Proof.
  intros H. rewrite <- (firstn_skipn n l), bytesb_app in H.
  apply andb_true_iff in H. tauto.
Qed.

Lemma bytesb_cons a l : bytesb (a :: l) = true <-> a < 256 /\ bytesb l = true.
Proof.
  unfold bytesb, is_byte. cbn [forallb]. rewrite andb_true_iff. intuition lia.
Qed.

(* a well-formed frame at the head of the stream is delivered as such *)
Lemma read_mbap_frame e t p rest : t < 65536 -> lenN (p_payload p) <= 252 ->
  read_mbap e (spec_mbap t p ++ rest) = (FOk p t, rest).
Proof.
  destruct p as [u fc pl]. cbn [p_payload p_unit p_fc]. intros Ht Hl.
  unfold spec_mbap, be16. cbn [p_payload p_unit p_fc app].
  unfold read_mbap, read_full. cbn [length Nat.leb firstn skipn].
  unfold lenN in *. remember (length pl) as n eqn:Hn.
  replace ((2 + N.of_nat n) / 256 mod 256 * 256 + (2 + N.of_nat n) mod 256) with (2 + N.of_nat n) by lia.
  replace (260 <? 2 + N.of_nat n - 1 + 7) with false by lia.
  replace (2 + N.of_nat n <=? 1) with false by lia.
  replace (N.to_nat (2 + N.of_nat n - 1)) with (length (fc :: pl)) by (cbn [length]; lia).
  change (fc :: pl ++ rest) with ((fc :: pl) ++ rest).
  rewrite firstn_app_exact, skipn_app_exact.
  match goal with |- context [Nat.leb ?a ?b] =>
    replace (Nat.leb a b) with true by (symmetry; apply Nat.leb_le; rewrite ?app_length; cbn [length]; lia) end.
  replace (0 * 256 + 0 =? 0) with true by reflexivity. cbn [negb].
  f_equal. f_equal. lia.
Qed.

(* conversely, whatever read_mbap delivers was such a frame *)
Lemma read_mbap_ok_inv e s p t rest : bytesb s = true ->
  read_mbap e s = (FOk p t, rest) ->
  s = spec_mbap t p ++ rest /\ t < 65536 /\ pdu_wf p /\ bytesb rest = true.
Proof.
  intros Hb. unfold read_mbap, read_full.
  destruct s as [|t1 [|t0 [|p1 [|p0 [|l1 [|l0 [|u s]]]]]]];
    cbn [length Nat.leb firstn skipn]; try discriminate.
  apply bytesb_cons in Hb; destruct Hb as [Ht1 Hb]. apply bytesb_cons in Hb; destruct Hb as [Ht0 Hb].
  apply bytesb_cons in Hb; destruct Hb as [Hp1 Hb]. apply bytesb_cons in Hb; destruct Hb as [Hp0 Hb].
  apply bytesb_cons in Hb; destruct Hb as [Hl1 Hb]. apply bytesb_cons in Hb; destruct Hb as [Hl0 Hb].
  apply bytesb_cons in Hb; destruct Hb as [Hu Hb].
  destruct (260 <? l1 * 256 + l0 - 1 + 7) eqn:E1; [discriminate|].
  destruct (l1 * 256 + l0 <=? 1) eqn:E2; [discriminate|].
  destruct (Nat.leb (N.to_nat (l1 * 256 + l0 - 1)) (length s)) eqn:E3; [|discriminate].
  destruct (p1 * 256 + p0 =? 0) eqn:E4; cbn [negb]; [|discriminate].
  destruct (firstn (N.to_nat (l1 * 256 + l0 - 1)) s) as [|fc pl] eqn:E5; [discriminate|].
  intros Heq. injection Heq as <- <- <-.
  apply Nat.leb_le in E3.
  assert (Hlen : length (fc :: pl) = N.to_nat (l1 * 256 + l0 - 1)).
  { rewrite <- E5, firstn_length. lia. }
  cbn [length] in Hlen.
  assert (Hbf : bytesb (fc :: pl) = true) by (rewrite <- E5; apply bytesb_firstn, Hb).
  apply bytesb_cons in Hbf. destruct Hbf as [Hfc Hpl].
  split; [|split; [lia|split]].
  - unfold spec_mbap, be16, lenN. cbn [p_payload p_unit p_fc app].
    rewrite <- (firstn_skipn (N.to_nat (l1 * 256 + l0 - 1)) s) at 1. rewrite E5.
    cbn [app].
    assert (p1 = 0) as -> by lia. assert (p0 = 0) as -> by lia.
    repeat (apply (f_equal2 (@cons N)); [lia|]). reflexivity.
  - unfold pdu_wf, lenN. cbn [p_payload p_unit p_fc]. repeat split; [lia|lia|exact Hpl|lia].
  - apply bytesb_skipn, Hb.
Qed.

(* every delivered frame consumes at least its header and function code *)
Lemma read_mbap_consumes e s p t rest :
  read_mbap e s = (FOk p t, rest) -> (length rest + 8 <= length s)%nat.
Proof.
  unfold read_mbap, read_full.
  destruct s as [|t1 [|t0 [|p1 [|p0 [|l1 [|l0 [|u s]]]]]]];
    cbn [length Nat.leb firstn skipn]; try discriminate.
  destruct (260 <? l1 * 256 + l0 - 1 + 7) eqn:E1; [discriminate|].
  destruct (l1 * 256 + l0 <=? 1) eqn:E2; [discriminate|].
  destruct (Nat.leb (N.to_nat (l1 * 256 + l0 - 1)) (length s)) eqn:E3; [|discriminate].
  destruct (negb (p1 * 256 + p0 =? 0)); [discriminate|].
  destruct (firstn (N.to_nat (l1 * 256 + l0 - 1)) s) as [|fc pl] eqn:E5; [discriminate|].
  intros H. injection H as <- <- <-. rewrite skipn_length.
  apply Nat.leb_le in E3. lia.
Qed.
