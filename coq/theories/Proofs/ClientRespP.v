(* Proofs about the client's reply handling (Model/Client.v): which requests
   are sent, reply validation against Spec/ClientSpec.v, the exchange. *)
From Modbus Require Import Base.Bytes Model.Crc Model.Encoding Model.Wire Model.Client
  Spec.ModbusSpec Spec.ClientSpec Proofs.EncodingP Proofs.BoolsP Proofs.CrcP Proofs.FramingP.
From Coq Require Import ZifyBool ZifyNat ZifyN.
Ltac Zify.zify_post_hook ::= Z.div_mod_to_equations.

(* ---------------------------------------------------------------- lengths *)

Lemma odd_mod2 n : Nat.odd n = (n mod 2 =? 1)%nat.
Proof. rewrite <- Nat.bit0_odd. apply Nat.bit0_eqb. Qed.

Lemma even_mod2 n : Nat.even n = (n mod 2 =? 0)%nat.
Proof.
  rewrite <- Nat.negb_odd, odd_mod2.
  destruct (n mod 2 =? 1)%nat eqn:E1, (n mod 2 =? 0)%nat eqn:E2; try reflexivity; lia.
Qed.

Lemma flat_map_length_const {A B} (f : A -> list B) k l :
  (forall x, In x l -> length (f x) = k) -> length (flat_map f l) = (k * length l)%nat.
Proof.
  induction l as [|x t IH]; intros H; [cbn; lia|].
  cbn [flat_map length]. rewrite app_length, IH, H; [lia|left; reflexivity|].
  intros y Hy. apply H. right. exact Hy.
Qed.

Lemma flat_map_ext_Forall {A B} (P : A -> Prop) (f g : A -> list B) l :
  Forall P l -> (forall x, P x -> f x = g x) -> flat_map f l = flat_map g l.
Proof.
  intros HF H. induction HF as [|x t Hx _ IH]; [reflexivity|].
  cbn [flat_map]. rewrite IH, (H x Hx). reflexivity.
Qed.

Lemma enc_value_len cfg w v : w = 1 \/ w = 2 \/ w = 4 ->
  length (enc_value cfg w v) = N.to_nat (2 * w).
Proof.
  intros [-> | [-> | ->]]; unfold enc_value; cbn [N.eqb Pos.eqb].
  - apply u16_to_bytes_len.
  - apply u32_to_bytes_len.
  - apply u64_to_bytes_len.
Qed.

Lemma enc_values_len cfg w vs : w = 1 \/ w = 2 \/ w = 4 ->
  lenN (flat_map (enc_value cfg w) vs) = 2 * w * lenN vs.
Proof.
  intros Hw. unfold lenN.
  rewrite (flat_map_length_const _ (N.to_nat (2 * w))); [lia|].
  intros x _. apply enc_value_len. exact Hw.
Qed.

Lemma swap_pairs_length l : length (swap_pairs l) = length l.
Proof. induction l as [|a|a b t IH] using list_ind2; cbn [swap_pairs length]; congruence. Qed.

Lemma pair_swap_is_swap_pairs l : pair_swap l = swap_pairs l.
Proof. induction l as [|a|a b t IH] using list_ind2; cbn [swap_pairs pair_swap]; congruence. Qed.

Lemma write_bytes_image_len cfg raw bs :
  lenN (write_bytes_image cfg raw bs) = 2 * ((lenN bs + 1) / 2).
Proof.
  unfold write_bytes_image, lenN.
  assert (H : N.of_nat (length (if Nat.odd (length bs) then bs ++ [0] else bs))
              = 2 * ((N.of_nat (length bs) + 1) / 2)).
  { rewrite odd_mod2. destruct (length bs mod 2 =? 1)%nat eqn:E.
    - rewrite app_length. cbn [length]. lia.
    - lia. }
  destruct raw, (c_endian cfg); try exact H. rewrite swap_pairs_length. exact H.
Qed.

(* ---------------------------------------------------------------- requests *)

Ltac split_ifs :=
  repeat match goal with
  | |- context [if ?c then _ else _] => let E := fresh "E" in destruct c eqn:E
  end.

Ltac split_ifs_hyp :=
  repeat match goal with
  | H : context [if ?c then _ else _] |- _ => let E := fresh "E" in destruct c eqn:E
  end.

Lemma request_spec cfg o : op_wf o ->
  (valid_op o = true -> exists pl, client_request cfg o = Ok (mkpdu (c_unit cfg) (spec_fc o) pl)) /\
  (valid_op o = false -> exists x, client_request cfg o = Err x).
Proof.
  intros Hwf. unfold valid_op.
  destruct o as [di a q|w a q rt|raw a q rt|a v|a vs|a v|w a vs|raw a bs];
    cbn [op_wf op_regtype_ok op_count op_limit op_addr spec_fc client_request] in *.
  - unfold req_read_bools. split; intros V; split_ifs;
      first [eexists; reflexivity | exfalso; lia].
  - destruct Hwf as (Hw & Ha & Hq). unfold req_read_regs, register_count.
    destruct Hw as [-> | [-> | ->]]; cbn [N.eqb Pos.eqb];
      (destruct rt; (split; intros V; split_ifs;
        first [eexists; reflexivity | exfalso; cbn [andb] in V; split_ifs_hyp; lia])).
  - unfold req_read_regs.
    destruct rt; (split; intros V; split_ifs;
        first [eexists; reflexivity | exfalso; cbn [andb] in V; lia]).
  - split; intros V; [eexists; reflexivity|exfalso; lia].
  - unfold u16. remember (lenN vs) as L. split; intros V; split_ifs;
      first [eexists; reflexivity | exfalso; lia].
  - split; intros V; [eexists; reflexivity|exfalso; lia].
  - destruct Hwf as (Hw & Ha & _). unfold req_write_regs.
    rewrite (enc_values_len cfg w vs Hw). unfold u16, u8. remember (lenN vs) as L.
    destruct Hw as [-> | [-> | ->]]; (split; intros V; split_ifs;
      first [eexists; reflexivity | exfalso; lia]).
  - unfold req_write_regs. rewrite write_bytes_image_len. unfold u16, u8.
    remember (lenN bs) as L. split; intros V; split_ifs;
      first [eexists; reflexivity | exfalso; lia].
Qed.

Lemma request_no_panic cfg o :
  client_request cfg o <> Panic /\ client_request cfg o <> OutOfFuel.
Proof.
  destruct o as [di a q|w a q rt|raw a q rt|a v|a vs|a v|w a vs|raw a bs];
    cbn [client_request]; unfold req_read_bools, req_read_regs, req_write_regs;
    try destruct rt; split_ifs; split; discriminate.
Qed.

Lemma request_ok_valid cfg o req : op_wf o -> client_request cfg o = Ok req ->
  valid_op o = true /\ p_unit req = c_unit cfg /\ p_fc req = spec_fc o.
Proof.
  intros Hwf Hreq. destruct (request_spec cfg o Hwf) as [H1 H2].
  destruct (valid_op o).
  - destruct (H1 eq_refl) as [pl Hpl]. rewrite Hpl in Hreq. inversion Hreq; subst.
    repeat split.
  - destruct (H2 eq_refl) as [x Hx]. rewrite Hx in Hreq. discriminate.
Qed.

Lemma request_valid_ok cfg o : op_wf o -> valid_op o = true ->
  exists req, client_request cfg o = Ok req /\ p_unit req = c_unit cfg /\ p_fc req = spec_fc o.
Proof.
  intros Hwf V. destruct (request_spec cfg o Hwf) as [H1 _].
  destruct (H1 V) as [pl Hpl]. eexists. split; [exact Hpl|]. split; reflexivity.
Qed.

(* ---------------------------------------------------------------- exceptions, unit rule *)

Lemma exc_err_documented c :
  exc_err c = if documented_exception c then EExc c else EExcUnknown c.
Proof. reflexivity. Qed.

Lemma eop_err req res : exists x, exception_or_protocol req res = Err x.
Proof.
  unfold exception_or_protocol. destruct (p_fc res =? N.lor (p_fc req) 128).
  - destruct (p_payload res) as [|c [|d t]]; eexists; reflexivity.
  - eexists; reflexivity.
Qed.

Lemma spec_fc_cases o : In (spec_fc o) [1; 2; 3; 4; 5; 6; 15; 16].
Proof.
  destruct o as [di a q|w a q rt|raw a q rt|a v|a vs|a v|w a vs|raw a bs];
    try destruct di; try destruct rt; cbn [spec_fc In]; tauto.
Qed.

Ltac fc_cases o :=
  let H := fresh "H" in
  pose proof (spec_fc_cases o) as H; cbn [In] in H;
  repeat (destruct H as [<- | H]); [..|destruct H].

Lemma spec_fc_normal o : N.land (spec_fc o) 0x80 = 0.
Proof. fc_cases o; reflexivity. Qed.

Lemma spec_fc_byte o : spec_fc o < 128.
Proof. fc_cases o; reflexivity. Qed.

Lemma spec_fc_exc o :
  N.land (spec_fc o + 128) 0x80 <> 0 /\ spec_fc o + 128 = N.lor (spec_fc o) 0x80.
Proof. fc_cases o; split; (discriminate || reflexivity). Qed.

Lemma unit_check_same req res : p_unit res = p_unit req -> unit_check req res = None.
Proof.
  intros H. unfold unit_check. rewrite H, N.eqb_refl.
  destruct (N.land (p_fc res) 128 =? 0); reflexivity.
Qed.

Lemma unit_check_gateway req res : N.land (p_fc res) 0x80 <> 0 -> p_unit res = 255 ->
  unit_check req res = None.
Proof.
  intros Hf H. unfold unit_check. apply N.eqb_neq in Hf. rewrite Hf, H.
  rewrite orb_true_r. reflexivity.
Qed.

Lemma unit_check_foreign req res : N.land (p_fc res) 0x80 = 0 -> p_unit res <> p_unit req ->
  unit_check req res = Some EBadUnit.
Proof.
  intros Hf H. unfold unit_check. rewrite Hf. apply N.eqb_neq in H. rewrite H. reflexivity.
Qed.

Lemma unit_check_normal_inv req res : N.land (p_fc res) 0x80 = 0 ->
  unit_check req res = None -> p_unit res = p_unit req.
Proof.
  intros Hf. unfold unit_check. rewrite Hf. cbn [N.eqb].
  destruct (p_unit res =? p_unit req) eqn:E; [intros _; apply N.eqb_eq; exact E|discriminate].
Qed.

(* ---------------------------------------------------------------- validation building blocks *)

Lemma vrr_ok req res q k bc data :
  p_fc res = p_fc req -> p_payload res = bc :: data -> lenN data = 2 * q -> bc = 2 * q ->
  validate_read_regs req res q k = k data.
Proof.
  intros Hf Hp Hl Hb. unfold validate_read_regs. rewrite Hf, N.eqb_refl, Hp.
  rewrite lenN_cons, Hl, Hb, !N.eqb_refl. reflexivity.
Qed.

Lemma vrr_cases req res q k :
  (exists data, p_fc res = p_fc req /\ p_payload res = (2 * q) :: data /\ lenN data = 2 * q /\
                validate_read_regs req res q k = k data) \/
  (exists x, validate_read_regs req res q k = Err x).
Proof.
  unfold validate_read_regs. destruct (p_fc res =? p_fc req) eqn:Ef.
  2:{ right. apply eop_err. }
  destruct (p_payload res) as [|bc data] eqn:Ep; [right; eexists; reflexivity|].
  rewrite lenN_cons.
  destruct (1 + lenN data =? 1 + 2 * q) eqn:E1; cbn [negb]; [|right; eexists; reflexivity].
  destruct (bc =? 2 * q) eqn:E2; cbn [negb]; [|right; eexists; reflexivity].
  left. exists data. apply N.eqb_eq in Ef, E2. subst bc.
  repeat split; try assumption; lia.
Qed.

Lemma echo4_ok req res a b :
  p_fc res = p_fc req -> p_payload res = a ++ b -> echo4 req res a b = Ok VUnit.
Proof.
  intros Hf Hp. unfold echo4. rewrite Hf, N.eqb_refl, Hp.
  replace (list_eqb (a ++ b) (a ++ b)) with true; [reflexivity|].
  symmetry. apply list_eqb_eq. reflexivity.
Qed.

Lemma echo4_cases req res a b :
  (p_fc res = p_fc req /\ p_payload res = a ++ b /\ echo4 req res a b = Ok VUnit) \/
  (exists x, echo4 req res a b = Err x).
Proof.
  unfold echo4. destruct (p_fc res =? p_fc req) eqn:Ef.
  2:{ right. apply eop_err. }
  destruct (list_eqb (p_payload res) (a ++ b)) eqn:El; [|right; eexists; reflexivity].
  left. apply N.eqb_eq in Ef. apply list_eqb_eq in El. repeat split; assumption.
Qed.

(* ---------------------------------------------------------------- coils *)

Lemma bool_bytes_spec q : bool_bytes q = (q + 7) / 8.
Proof. unfold bool_bytes. destruct (q mod 8 =? 0) eqn:E; lia. Qed.

Lemma decode_bool_at_coil data i : (i / 8 < length data)%nat ->
  decode_bool_at data i = Some (coil_at data i).
Proof.
  intros H. unfold decode_bool_at, coil_at.
  rewrite (nth_error_nth' data 0 H). reflexivity.
Qed.

Lemma decode_bools_coils q data : (q <= 8 * length data)%nat ->
  decode_bools q data = Some (map (coil_at data) (seq 0 q)).
Proof.
  intros H. unfold decode_bools. apply sequence_map_some.
  intros i Hi. apply in_seq in Hi. apply decode_bool_at_coil.
  apply Nat.div_lt_upper_bound; lia.
Qed.

Lemma coils_ext data l :
  (forall i, (i < length l)%nat -> nth i l false = coil_at data i) ->
  l = map (coil_at data) (seq 0 (length l)).
Proof.
  intros H. rewrite <- (firstn_all l) at 1.
  rewrite <- (map_nth_seq l false (length l)) by lia.
  apply map_ext_in. intros i Hi. apply in_seq in Hi. apply H. lia.
Qed.

Lemma coils_nth data q i : (i < q)%nat ->
  nth i (map (coil_at data) (seq 0 q)) false = coil_at data i.
Proof.
  intros H. rewrite (nth_indep _ false (coil_at data 0)) by (rewrite map_length, seq_length; exact H).
  rewrite map_nth, seq_nth by exact H. reflexivity.
Qed.

(* ---------------------------------------------------------------- registers *)

Lemma word_bytes_flat_len e ws : length (flat_map (word_bytes e) ws) = (2 * length ws)%nat.
Proof.
  apply flat_map_length_const. intros x _. destruct e; reflexivity.
Qed.

Lemma spec_bytes_len n e w v : length (spec_bytes n e w v) = (2 * n)%nat.
Proof.
  unfold spec_bytes, layout, words_of. rewrite word_bytes_flat_len.
  destruct w; rewrite ?rev_length, map_length, rev_length, seq_length; reflexivity.
Qed.

Lemma spec_regs_len w e wo xs :
  lenN (flat_map (spec_bytes (N.to_nat w) e wo) xs) = 2 * (lenN xs * w).
Proof.
  unfold lenN. rewrite (flat_map_length_const _ (2 * N.to_nat w)%nat).
  - lia.
  - intros x _. apply spec_bytes_len.
Qed.

Lemma spec_bytes1_word e w v : spec_bytes 1 e w v = spec_bytes 1 e HighFirst v.
Proof. destruct w; reflexivity. Qed.

Lemma spec16_enc e w v : v < 65536 -> spec_bytes 1 e w v = u16_to_bytes e v.
Proof. intros Hv. rewrite spec_bytes1_word. symmetry. apply u16_layout. exact Hv. Qed.

Definition regs_k (cfg : ccfg) (w : N) : list N -> result values :=
  fun data =>
    if w =? 1 then opt_result (bytes_to_u16s (c_endian cfg) data) VNums
    else if w =? 2 then opt_result (bytes_to_u32s (c_endian cfg) (c_word cfg) data) VNums
    else opt_result (bytes_to_u64s (c_endian cfg) (c_word cfg) data) VNums.

Lemma regs_q w q : w = 1 \/ w = 2 \/ w = 4 -> q * w <= 65535 ->
  (if w =? 1 then q else register_count q w) = q * w.
Proof.
  intros [-> | [-> | ->]] H; cbn [N.eqb Pos.eqb]; unfold register_count; [lia| |].
  - replace (65535 <? q * 2) with false by lia. reflexivity.
  - replace (65535 <? q * 4) with false by lia. reflexivity.
Qed.

Lemma regs_k_complete cfg w xs : w = 1 \/ w = 2 \/ w = 4 ->
  Forall (fun v => v < 2 ^ (16 * w)) xs ->
  regs_k cfg w (flat_map (spec_bytes (N.to_nat w) (c_endian cfg) (c_word cfg)) xs) = Ok (VNums xs).
Proof.
  unfold regs_k.
  intros [-> | [-> | ->]] HF; cbn [N.eqb Pos.eqb].
  - change (N.to_nat 1) with 1%nat. change (2 ^ (16 * 1)) with 65536 in HF.
    rewrite (flat_map_ext_Forall _ _ (u16_to_bytes (c_endian cfg)) xs HF)
      by (intros x Hx; apply spec16_enc; exact Hx).
    fold (u16s_to_bytes (c_endian cfg) xs). rewrite u16s_roundtrip by exact HF. reflexivity.
  - change (N.to_nat 2) with 2%nat. change (16 * 2) with 32 in HF.
    rewrite (flat_map_ext_Forall _ _ (u32_to_bytes (c_endian cfg) (c_word cfg)) xs HF)
      by (intros x Hx; symmetry; apply u32_layout; exact Hx).
    rewrite u32s_roundtrip by exact HF. reflexivity.
  - change (N.to_nat 4) with 4%nat. change (16 * 4) with 64 in HF.
    rewrite (flat_map_ext_Forall _ _ (u64_to_bytes (c_endian cfg) (c_word cfg)) xs HF)
      by (intros x Hx; symmetry; apply u64_layout; exact Hx).
    rewrite u64s_roundtrip by exact HF. reflexivity.
Qed.

Lemma dec16_sound e w : forall xs data, bytesb data = true ->
  bytes_to_u16s e data = Some xs ->
  data = flat_map (spec_bytes 1 e w) xs /\ Forall (fun v => v < 65536) xs.
Proof.
  induction xs as [|v r IH]; intros data Hb H.
  - destruct data as [|a [|b t]]; cbn [bytes_to_u16s] in H; try discriminate.
    + split; [reflexivity|constructor].
    + destruct (bytes_to_u16s e t); discriminate.
  - destruct data as [|a [|b t]]; cbn [bytes_to_u16s] in H; try discriminate.
    destruct (bytes_to_u16s e t) as [r'|] eqn:Et; [|discriminate].
    inversion H; subst r'. clear H.
    apply bytesb_cons in Hb as [Ha Hb]. apply bytesb_cons in Hb as [Hb Ht].
    destruct (IH t Ht Et) as [Hd HF].
    destruct (u16_inverse e a b Ha Hb) as (v' & Hv1 & Hv2 & Hv3).
    cbn [bytes_to_u16] in Hv1. inversion Hv1 as [Hv']. rewrite Hv' in *. subst v'.
    split; [|constructor; assumption].
    cbn [flat_map]. rewrite spec16_enc by exact Hv2. rewrite Hv3, <- Hd. reflexivity.
Qed.

Lemma dec32_sound e w : forall xs data, bytesb data = true ->
  bytes_to_u32s e w data = Some xs ->
  data = flat_map (spec_bytes 2 e w) xs /\ Forall (fun v => v < 2 ^ 32) xs.
Proof.
  induction xs as [|v r IH]; intros data Hb H.
  - destruct data as [|a [|b [|c [|d t]]]]; cbn [bytes_to_u32s] in H; try discriminate.
    + split; [reflexivity|constructor].
    + destruct (bytes_to_u32s e w t); discriminate.
  - destruct data as [|a [|b [|c [|d t]]]]; cbn [bytes_to_u32s] in H; try discriminate.
    destruct (bytes_to_u32s e w t) as [r'|] eqn:Et; [|discriminate].
    inversion H; subst r'. clear H.
    repeat (apply bytesb_cons in Hb; destruct Hb as [? Hb]).
    destruct (IH t Hb Et) as [Hd HF].
    destruct (u32_inverse e w a b c d) as (Hv2 & Hv3); try assumption.
    split; [|constructor; assumption].
    cbn [flat_map]. rewrite <- u32_layout by exact Hv2. rewrite Hv3, <- Hd. reflexivity.
Qed.

Lemma dec64_sound e w : forall xs data, bytesb data = true ->
  bytes_to_u64s e w data = Some xs ->
  data = flat_map (spec_bytes 4 e w) xs /\ Forall (fun v => v < 2 ^ 64) xs.
Proof.
  induction xs as [|v r IH]; intros data Hb H.
  - destruct data as [|i0 [|i1 [|i2 [|i3 [|i4 [|i5 [|i6 [|i7 t]]]]]]]];
      cbn [bytes_to_u64s] in H; try discriminate.
    + split; [reflexivity|constructor].
    + destruct (bytes_to_u64s e w t); discriminate.
  - destruct data as [|i0 [|i1 [|i2 [|i3 [|i4 [|i5 [|i6 [|i7 t]]]]]]]];
      cbn [bytes_to_u64s] in H; try discriminate.
    destruct (bytes_to_u64s e w t) as [r'|] eqn:Et; [|discriminate].
    inversion H; subst r'. clear H.
    repeat (apply bytesb_cons in Hb; destruct Hb as [? Hb]).
    destruct (IH t Hb Et) as [Hd HF].
    destruct (u64_inverse e w i0 i1 i2 i3 i4 i5 i6 i7) as (Hv2 & Hv3); try assumption.
    split; [|constructor; assumption].
    cbn [flat_map]. rewrite <- u64_layout by exact Hv2. rewrite Hv3, <- Hd. reflexivity.
Qed.

Lemma regs_k_sound cfg w data vs : w = 1 \/ w = 2 \/ w = 4 -> bytesb data = true ->
  regs_k cfg w data = Ok vs ->
  exists xs, vs = VNums xs /\
    data = flat_map (spec_bytes (N.to_nat w) (c_endian cfg) (c_word cfg)) xs /\
    Forall (fun v => v < 2 ^ (16 * w)) xs.
Proof.
  unfold regs_k. intros [-> | [-> | ->]] Hb; cbn [N.eqb Pos.eqb]; intros H.
  - destruct (bytes_to_u16s (c_endian cfg) data) as [xs|] eqn:E; [|discriminate].
    inversion H; subst vs. exists xs. split; [reflexivity|].
    exact (dec16_sound _ (c_word cfg) xs data Hb E).
  - destruct (bytes_to_u32s (c_endian cfg) (c_word cfg) data) as [xs|] eqn:E; [|discriminate].
    inversion H; subst vs. exists xs. split; [reflexivity|].
    exact (dec32_sound _ _ xs data Hb E).
  - destruct (bytes_to_u64s (c_endian cfg) (c_word cfg) data) as [xs|] eqn:E; [|discriminate].
    inversion H; subst vs. exists xs. split; [reflexivity|].
    exact (dec64_sound _ _ xs data Hb E).
Qed.

(* the decoders succeed on every input whose length is a multiple of the value size *)
Lemma dec16_total e : forall n data, length data = (2 * n)%nat ->
  exists xs, bytes_to_u16s e data = Some xs.
Proof.
  induction n as [|n IH]; intros data Hl.
  - destruct data; [eexists; reflexivity|discriminate].
  - destruct data as [|a [|b t]]; cbn [length] in Hl; try lia.
    destruct (IH t ltac:(lia)) as [xs Hx]. cbn [bytes_to_u16s]. rewrite Hx.
    eexists; reflexivity.
Qed.

Lemma dec32_total e w : forall n data, length data = (4 * n)%nat ->
  exists xs, bytes_to_u32s e w data = Some xs.
Proof.
  induction n as [|n IH]; intros data Hl.
  - destruct data; [eexists; reflexivity|discriminate].
  - destruct data as [|a [|b [|c [|d t]]]]; cbn [length] in Hl; try lia.
    destruct (IH t ltac:(lia)) as [xs Hx]. cbn [bytes_to_u32s]. rewrite Hx.
    eexists; reflexivity.
Qed.

Lemma dec64_total e w : forall n data, length data = (8 * n)%nat ->
  exists xs, bytes_to_u64s e w data = Some xs.
Proof.
  induction n as [|n IH]; intros data Hl.
  - destruct data; [eexists; reflexivity|discriminate].
  - destruct data as [|i0 [|i1 [|i2 [|i3 [|i4 [|i5 [|i6 [|i7 t]]]]]]]];
      cbn [length] in Hl; try lia.
    destruct (IH t ltac:(lia)) as [xs Hx]. cbn [bytes_to_u64s]. rewrite Hx.
    eexists; reflexivity.
Qed.

Lemma regs_k_total cfg w q data : w = 1 \/ w = 2 \/ w = 4 -> lenN data = 2 * (q * w) ->
  exists xs, regs_k cfg w data = Ok (VNums xs).
Proof.
  unfold regs_k, lenN. intros [-> | [-> | ->]] Hl; cbn [N.eqb Pos.eqb].
  - destruct (dec16_total (c_endian cfg) (N.to_nat q) data ltac:(lia)) as [xs Hx].
    rewrite Hx. eexists; reflexivity.
  - destruct (dec32_total (c_endian cfg) (c_word cfg) (N.to_nat q) data ltac:(lia)) as [xs Hx].
    rewrite Hx. eexists; reflexivity.
  - destruct (dec64_total (c_endian cfg) (c_word cfg) (N.to_nat q) data ltac:(lia)) as [xs Hx].
    rewrite Hx. eexists; reflexivity.
Qed.

(* ---------------------------------------------------------------- byte reads *)

Definition bytes_k (cfg : ccfg) (raw : bool) (q : N) : list N -> result values :=
  fun data =>
    if andb (negb raw) (match c_endian cfg with LittleE => true | BigE => false end)
       && Nat.odd (length data) then Panic
    else
      let sw := match raw, c_endian cfg with
                | false, LittleE => swap_pairs data
                | _, _ => data
                end in
      if q mod 2 =? 1 then
        (match sw with
         | [] => Panic
         | _ => Ok (VBytes (firstn (length sw - 1) sw))
         end)
      else Ok (VBytes sw).

Lemma bytes_k_ok cfg raw q data : lenN data = 2 * ((q + 1) / 2) ->
  bytes_k cfg raw q data =
    Ok (VBytes (firstn (N.to_nat q)
                  (match raw, c_endian cfg with
                   | false, LittleE => pair_swap data
                   | _, _ => data
                   end))).
Proof.
  intros Hl. unfold bytes_k, lenN in *.
  rewrite odd_mod2. replace (length data mod 2 =? 1)%nat with false by lia.
  rewrite andb_false_r. change (pair_swap data) with (swap_pairs data).
  set (sw := match raw, c_endian cfg with
             | false, LittleE => swap_pairs data
             | _, _ => data
             end).
  assert (Hsw : length sw = length data).
  { subst sw. destruct raw, (c_endian cfg); try reflexivity. apply swap_pairs_length. }
  destruct (q mod 2 =? 1) eqn:E.
  - destruct sw as [|x t] eqn:Es; [cbn [length] in Hsw; lia|].
    rewrite <- Es in *. do 3 f_equal. lia.
  - rewrite firstn_all2 by lia. reflexivity.
Qed.

(* ---------------------------------------------------------------- client_validate *)

Lemma validate_regs_eq cfg w a q rt req res :
  client_validate cfg (OpReadRegs w a q rt) req res =
  validate_read_regs req res (if w =? 1 then q else register_count q w) (regs_k cfg w).
Proof. reflexivity. Qed.

Lemma validate_bytes_eq cfg raw a q rt req res :
  client_validate cfg (OpReadBytes raw a q rt) req res =
  validate_read_regs req res (q / 2 + q mod 2) (bytes_k cfg raw q).
Proof. reflexivity. Qed.

Lemma half_up q : q / 2 + q mod 2 = (q + 1) / 2.
Proof. lia. Qed.

Lemma validate_bools_ok cfg di a q req res data :
  p_fc res = p_fc req -> p_payload res = lenN data :: data -> lenN data = (q + 7) / 8 ->
  client_validate cfg (OpReadBools di a q) req res =
    Ok (VBools (map (coil_at data) (seq 0 (N.to_nat q)))).
Proof.
  intros Hf Hp Hl. cbn [client_validate]. rewrite Hf, N.eqb_refl, Hp.
  rewrite lenN_cons, bool_bytes_spec, Hl, N.eqb_refl. cbn [negb].
  replace ((q + 7) / 8 + 1 =? 1 + (q + 7) / 8) with true by lia. cbn [negb].
  rewrite decode_bools_coils by (unfold lenN in Hl; lia). reflexivity.
Qed.

Lemma validate_bools_cases cfg di a q req res :
  (exists data, p_fc res = p_fc req /\ p_payload res = lenN data :: data /\
                lenN data = (q + 7) / 8) \/
  (exists x, client_validate cfg (OpReadBools di a q) req res = Err x).
Proof.
  cbn [client_validate]. destruct (p_fc res =? p_fc req) eqn:Ef.
  2:{ right. apply eop_err. }
  rewrite bool_bytes_spec.
  destruct (lenN (p_payload res) =? 1 + (q + 7) / 8) eqn:E1; cbn [negb];
    [|right; eexists; reflexivity].
  destruct (p_payload res) as [|bc data] eqn:Ep; [rewrite N.eqb_eq in E1; unfold lenN in E1; cbn [length] in E1; lia|].
  destruct (bc + 1 =? 1 + (q + 7) / 8) eqn:E2; cbn [negb]; [|right; eexists; reflexivity].
  left. exists data. rewrite lenN_cons in E1. apply N.eqb_eq in Ef.
  split; [exact Ef|]. split; [f_equal; lia|lia].
Qed.

Lemma validate_complete cfg o req res vs : op_wf o -> valid_op o = true ->
  p_fc req = spec_fc o -> answers cfg o res vs -> client_validate cfg o req res = Ok vs.
Proof.
  intros Hwf V Hreq (Hu & Hf & Hans).
  assert (Hfc : p_fc res = p_fc req) by congruence. clear Hf Hreq.
  unfold valid_op in V.
  destruct o as [di a q|w a q rt|raw a q rt|a v|a vs'|a v|w a vs'|raw a bs];
    cbn [op_wf op_regtype_ok op_count op_limit op_addr] in *.
  - destruct Hans as (data & l & Hp & Hld & -> & Hll & Hnth).
    rewrite (validate_bools_ok cfg di a q req res data Hfc Hp Hld).
    do 2 f_equal. replace (N.to_nat q) with (length l) by (unfold lenN in Hll; lia).
    symmetry. apply coils_ext. exact Hnth.
  - destruct Hwf as (Hw & Ha & Hq). destruct Hans as (xs & Hp & Hlx & HF & ->).
    rewrite validate_regs_eq, regs_q by (assumption || lia).
    rewrite (vrr_ok _ _ _ _ _ _ Hfc Hp); [|rewrite spec_regs_len, Hlx; reflexivity|reflexivity].
    apply regs_k_complete; assumption.
  - destruct Hans as (data & Hp & Hl & ->).
    rewrite validate_bytes_eq, half_up.
    rewrite (vrr_ok _ _ _ _ _ _ Hfc Hp Hl eq_refl).
    apply bytes_k_ok. exact Hl.
  - destruct Hans as (Hp & ->). apply echo4_ok; assumption.
  - destruct Hans as (Hp & ->). cbn [client_validate].
    replace (u16 (lenN vs')) with (lenN vs') by (unfold u16; lia).
    apply echo4_ok; assumption.
  - destruct Hans as (Hp & ->). cbn [client_validate].
    rewrite spec16_enc in Hp by lia. apply echo4_ok; assumption.
  - destruct Hwf as (Hw & Ha & _). destruct Hans as (Hp & ->). cbn [client_validate].
    rewrite (enc_values_len cfg w vs' Hw).
    replace (u16 (2 * w * lenN vs') / 2) with (w * lenN vs');
      [apply echo4_ok; assumption|].
    remember (lenN vs') as L. unfold u16. destruct Hw as [-> | [-> | ->]]; lia.
  - destruct Hans as (Hp & ->). cbn [client_validate].
    rewrite write_bytes_image_len.
    replace (u16 (2 * ((lenN bs + 1) / 2)) / 2) with ((lenN bs + 1) / 2);
      [apply echo4_ok; assumption|].
    remember (lenN bs) as L. unfold u16. lia.
Qed.

Lemma validate_sound cfg o req res vs : op_wf o -> valid_op o = true ->
  p_fc req = spec_fc o -> p_unit res = c_unit cfg -> bytesb (p_payload res) = true ->
  client_validate cfg o req res = Ok vs -> answers cfg o res vs.
Proof.
  intros Hwf V Hreq Hu Hb H. unfold valid_op in V.
  destruct o as [di a q|w a q rt|raw a q rt|a v|a vs'|a v|w a vs'|raw a bs];
    cbn [op_wf op_regtype_ok op_count op_limit op_addr] in *.
  - destruct (validate_bools_cases cfg di a q req res) as [(data & Hf & Hp & Hl)|(x & Hx)];
      [|rewrite Hx in H; discriminate].
    rewrite (validate_bools_ok cfg di a q req res data Hf Hp Hl) in H.
    inversion H; subst vs. clear H.
    split; [exact Hu|]. split; [congruence|].
    exists data, (map (coil_at data) (seq 0 (N.to_nat q))).
    split; [exact Hp|]. split; [exact Hl|]. split; [reflexivity|].
    split; [unfold lenN; rewrite map_length, seq_length; lia|].
    intros i Hi. rewrite map_length, seq_length in Hi. apply coils_nth. exact Hi.
  - destruct Hwf as (Hw & Ha & Hq).
    rewrite validate_regs_eq, regs_q in H by (assumption || lia).
    destruct (vrr_cases req res (q * w) (regs_k cfg w))
      as [(data & Hf & Hp & Hl & Hk)|(x & Hx)]; [|rewrite Hx in H; discriminate].
    rewrite Hk in H. rewrite Hp in Hb. apply bytesb_cons in Hb as [_ Hb].
    destruct (regs_k_sound cfg w data vs Hw Hb H) as (xs & -> & Hd & HF).
    split; [exact Hu|]. split; [congruence|].
    exists xs. split; [rewrite Hp, Hd; reflexivity|]. split; [|split; [exact HF|reflexivity]].
    rewrite Hd, spec_regs_len in Hl. remember (lenN xs) as L.
    destruct Hw as [-> | [-> | ->]]; lia.
  - rewrite validate_bytes_eq, half_up in H.
    destruct (vrr_cases req res ((q + 1) / 2) (bytes_k cfg raw q))
      as [(data & Hf & Hp & Hl & Hk)|(x & Hx)]; [|rewrite Hx in H; discriminate].
    rewrite Hk, (bytes_k_ok cfg raw q data Hl) in H. inversion H; subst vs. clear H.
    split; [exact Hu|]. split; [congruence|].
    exists data. cbn [op_count]. split; [exact Hp|]. split; [exact Hl|reflexivity].
  - cbn [client_validate] in H.
    destruct (echo4_cases req res (be16 a) (if v then [255; 0] else [0; 0]))
      as [(Hf & Hp & Hk)|(x & Hx)]; [|rewrite Hx in H; discriminate].
    rewrite Hk in H. inversion H; subst vs.
    split; [exact Hu|]. split; [congruence|]. split; [exact Hp|reflexivity].
  - cbn [client_validate] in H.
    replace (u16 (lenN vs')) with (lenN vs') in H by (unfold u16; lia).
    destruct (echo4_cases req res (be16 a) (be16 (lenN vs')))
      as [(Hf & Hp & Hk)|(x & Hx)]; [|rewrite Hx in H; discriminate].
    rewrite Hk in H. inversion H; subst vs.
    split; [exact Hu|]. split; [congruence|]. split; [exact Hp|reflexivity].
  - cbn [client_validate] in H.
    destruct (echo4_cases req res (be16 a) (u16_to_bytes (c_endian cfg) v))
      as [(Hf & Hp & Hk)|(x & Hx)]; [|rewrite Hx in H; discriminate].
    rewrite Hk in H. inversion H; subst vs.
    split; [exact Hu|]. split; [congruence|].
    split; [rewrite spec16_enc by lia; exact Hp|reflexivity].
  - destruct Hwf as (Hw & Ha & _). cbn [client_validate] in H.
    rewrite (enc_values_len cfg w vs' Hw) in H.
    replace (u16 (2 * w * lenN vs') / 2) with (w * lenN vs') in H.
    2:{ remember (lenN vs') as L. unfold u16. destruct Hw as [-> | [-> | ->]]; lia. }
    destruct (echo4_cases req res (be16 a) (be16 (w * lenN vs')))
      as [(Hf & Hp & Hk)|(x & Hx)]; [|rewrite Hx in H; discriminate].
    rewrite Hk in H. inversion H; subst vs.
    split; [exact Hu|]. split; [congruence|]. split; [exact Hp|reflexivity].
  - cbn [client_validate] in H. rewrite write_bytes_image_len in H.
    replace (u16 (2 * ((lenN bs + 1) / 2)) / 2) with ((lenN bs + 1) / 2) in H.
    2:{ remember (lenN bs) as L. unfold u16. lia. }
    destruct (echo4_cases req res (be16 a) (be16 ((lenN bs + 1) / 2)))
      as [(Hf & Hp & Hk)|(x & Hx)]; [|rewrite Hx in H; discriminate].
    rewrite Hk in H. inversion H; subst vs.
    split; [exact Hu|]. split; [congruence|]. split; [exact Hp|reflexivity].
Qed.

Lemma validate_no_panic cfg o req res : op_wf o -> valid_op o = true ->
  client_validate cfg o req res <> Panic /\ client_validate cfg o req res <> OutOfFuel.
Proof.
  intros Hwf V. unfold valid_op in V.
  destruct o as [di a q|w a q rt|raw a q rt|a v|a vs'|a v|w a vs'|raw a bs];
    cbn [op_wf op_regtype_ok op_count op_limit op_addr] in *.
  - destruct (validate_bools_cases cfg di a q req res) as [(data & Hf & Hp & Hl)|(x & Hx)].
    + rewrite (validate_bools_ok cfg di a q req res data Hf Hp Hl). split; discriminate.
    + rewrite Hx. split; discriminate.
  - destruct Hwf as (Hw & Ha & Hq).
    rewrite validate_regs_eq, regs_q by (assumption || lia).
    destruct (vrr_cases req res (q * w) (regs_k cfg w))
      as [(data & Hf & Hp & Hl & Hk)|(x & Hx)]; [|rewrite Hx; split; discriminate].
    rewrite Hk. destruct (regs_k_total cfg w q data Hw Hl) as [xs Hx]. rewrite Hx.
    split; discriminate.
  - rewrite validate_bytes_eq, half_up.
    destruct (vrr_cases req res ((q + 1) / 2) (bytes_k cfg raw q))
      as [(data & Hf & Hp & Hl & Hk)|(x & Hx)]; [|rewrite Hx; split; discriminate].
    rewrite Hk, (bytes_k_ok cfg raw q data Hl). split; discriminate.
  - cbn [client_validate].
    destruct (echo4_cases req res (be16 a) (if v then [255; 0] else [0; 0]))
      as [(Hf & Hp & Hk)|(x & Hx)]; [rewrite Hk|rewrite Hx]; split; discriminate.
  - cbn [client_validate].
    destruct (echo4_cases req res (be16 a) (be16 (u16 (lenN vs'))))
      as [(Hf & Hp & Hk)|(x & Hx)]; [rewrite Hk|rewrite Hx]; split; discriminate.
  - cbn [client_validate].
    destruct (echo4_cases req res (be16 a) (u16_to_bytes (c_endian cfg) v))
      as [(Hf & Hp & Hk)|(x & Hx)]; [rewrite Hk|rewrite Hx]; split; discriminate.
  - cbn [client_validate].
    destruct (echo4_cases req res (be16 a)
                (be16 (u16 (lenN (flat_map (enc_value cfg w) vs')) / 2)))
      as [(Hf & Hp & Hk)|(x & Hx)]; [rewrite Hk|rewrite Hx]; split; discriminate.
  - cbn [client_validate].
    destruct (echo4_cases req res (be16 a)
                (be16 (u16 (lenN (write_bytes_image cfg raw bs)) / 2)))
      as [(Hf & Hp & Hk)|(x & Hx)]; [rewrite Hk|rewrite Hx]; split; discriminate.
Qed.

Lemma validate_exception cfg o req res code :
  p_fc req = spec_fc o -> p_fc res = spec_fc o + 128 -> p_payload res = [code] ->
  client_validate cfg o req res = Err (exc_err code).
Proof.
  intros Hreq Hf Hp.
  assert (Ef : (p_fc res =? p_fc req) = false) by (apply N.eqb_neq; lia).
  assert (He : exception_or_protocol req res = Err (exc_err code)).
  { unfold exception_or_protocol. rewrite Hreq, Hf, Hp.
    destruct (spec_fc_exc o) as [_ Hor]. rewrite <- Hor, N.eqb_refl. reflexivity. }
  destruct o; cbn [client_validate]; unfold validate_read_regs, echo4; rewrite Ef; exact He.
Qed.

(* ---------------------------------------------------------------- the exchange *)

Definition recv (fr : framing) (txn : N) (e : send) (s : list N) : result pdu * list N :=
  match fr with
  | FMbap => mbap_read_response (S (length s)) e (u16 (txn + 1)) s
  | FRtu => rtu_read_response e s
  end.

Definition after_recv (cfg : ccfg) (o : op) (req : pdu) (r : result pdu) : result values :=
  match r with
  | Ok res =>
      match unit_check req res with
      | Some x => Err x
      | None => client_validate cfg o req res
      end
  | Err x => Err x
  | Panic => Panic
  | OutOfFuel => OutOfFuel
  end.

Lemma client_call_ok fr cfg txn o e s req : client_request cfg o = Ok req ->
  cr_res (client_call fr cfg txn o e s) = after_recv cfg o req (fst (recv fr txn e s)) /\
  cr_rest (client_call fr cfg txn o e s) = snd (recv fr txn e s).
Proof.
  intros Hreq. unfold client_call, transport_exchange, recv, after_recv. rewrite Hreq.
  destruct fr.
  - destruct (mbap_read_response (S (length s)) e (u16 (txn + 1)) s) as [r rest].
    destruct r as [res|x| |]; try (split; reflexivity).
    cbn [fst snd]. destruct (unit_check req res); split; reflexivity.
  - destruct (rtu_read_response e s) as [r rest].
    destruct r as [res|x| |]; try (split; reflexivity).
    cbn [fst snd]. destruct (unit_check req res); split; reflexivity.
Qed.

Lemma client_call_rejected fr cfg txn o e s x : client_request cfg o = Err x ->
  cr_res (client_call fr cfg txn o e s) = Err x.
Proof. intros H. unfold client_call. rewrite H. reflexivity. Qed.

Lemma recv_no_panic fr txn e s :
  fst (recv fr txn e s) <> Panic /\ fst (recv fr txn e s) <> OutOfFuel.
Proof.
  destruct fr; cbn [recv].
  - split; [apply mbap_no_panic|apply mbap_no_oof; lia].
  - apply rtu_response_no_panic.
Qed.

(* T4 *)
Lemma client_no_panic : forall fr cfg txn o e s, op_wf o ->
  cr_res (client_call fr cfg txn o e s) <> Panic /\
  cr_res (client_call fr cfg txn o e s) <> OutOfFuel.
Proof.
  intros fr cfg txn o e s Hwf.
  destruct (client_request cfg o) as [req|x| |] eqn:Hreq.
  - destruct (client_call_ok fr cfg txn o e s req Hreq) as [Hres _]. rewrite Hres.
    destruct (request_ok_valid cfg o req Hwf Hreq) as (V & _ & _).
    pose proof (recv_no_panic fr txn e s) as [Hp Ho].
    unfold after_recv. destruct (fst (recv fr txn e s)) as [res|y| |]; try congruence.
    + destruct (unit_check req res); [split; discriminate|].
      apply validate_no_panic; assumption.
    + split; discriminate.
  - rewrite (client_call_rejected fr cfg txn o e s x Hreq). split; discriminate.
  - destruct (request_no_panic cfg o) as [Hp _]. congruence.
  - destruct (request_no_panic cfg o) as [_ Ho]. congruence.
Qed.

(* the frames of the two framings, uniformly *)
Definition frame_ok (fr : framing) (txn : N) (res : pdu) (frames : list (list N)) : Prop :=
  match fr with
  | FMbap => txn < 65536 /\ lenN (p_payload res) <= 252 /\
             Forall (skippable (u16 (txn + 1))) frames
  | FRtu => frames = [] /\ exists b2 data, p_payload res = b2 :: data /\
            expected_len (p_fc res) b2 = Some (lenN data) /\ lenN data <= 251
  end.

Lemma recv_frame fr txn e res post frames :
  bytesb ([p_unit res; p_fc res] ++ p_payload res) = true ->
  frame_ok fr txn res frames ->
  recv fr txn e (concat frames ++ spec_frame fr (u16 (txn + 1)) res ++ post) = (Ok res, post).
Proof.
  intros Hb Hfr. destruct res as [unit fc payload]. cbn [p_unit p_fc p_payload] in *.
  destruct fr; cbn [recv frame_ok p_unit p_fc p_payload] in *.
  - destruct Hfr as (Ht & Hl & HF). rewrite spec_frame_mbap. cbn [p_unit p_fc p_payload].
    apply mbap_response_frame; [exact HF|unfold u16; lia|exact Hl].
  - destruct Hfr as (-> & b2 & data & -> & He & Hl). cbn [concat app].
    rewrite spec_frame_rtu by exact Hb. cbn [p_unit p_fc p_payload].
    apply rtu_response_ok. apply read_rtu_frame; assumption.
Qed.

Lemma exchange_frame fr cfg txn o e res post frames req :
  client_request cfg o = Ok req ->
  bytesb ([p_unit res; p_fc res] ++ p_payload res) = true ->
  frame_ok fr txn res frames ->
  let r := client_call fr cfg txn o e
             (concat frames ++ spec_frame fr (u16 (txn + 1)) res ++ post) in
  cr_res r = after_recv cfg o req (Ok res) /\ cr_rest r = post.
Proof.
  intros Hreq Hb Hfr r. subst r.
  destruct (client_call_ok fr cfg txn o e
              (concat frames ++ spec_frame fr (u16 (txn + 1)) res ++ post) req Hreq) as [H1 H2].
  rewrite H1, H2, (recv_frame fr txn e res post frames Hb Hfr). split; reflexivity.
Qed.

Lemma body_bytes unit fc payload : unit < 256 -> fc < 256 -> bytesb payload = true ->
  bytesb ([unit; fc] ++ payload) = true.
Proof. intros Hu Hf Hp. cbn [app]. rewrite !bytesb_cons. auto. Qed.

(* shape of a valid reply: fits both framings *)
Lemma answers_shape cfg o res vs : op_wf o -> valid_op o = true -> answers cfg o res vs ->
  lenN (p_payload res) <= 252 /\
  exists b2 data, p_payload res = b2 :: data /\
    expected_len (spec_fc o) b2 = Some (lenN data) /\ lenN data <= 251.
Proof.
  intros Hwf V (Hu & Hf & Hans). unfold valid_op in V.
  destruct o as [di a q|w a q rt|raw a q rt|a v|a vs'|a v|w a vs'|raw a bs];
    cbn [op_wf op_regtype_ok op_count op_limit op_addr spec_fc] in *.
  - destruct Hans as (data & l & Hp & Hld & _). rewrite Hp, lenN_cons.
    split; [lia|]. exists (lenN data), data. split; [reflexivity|].
    split; [destruct di; reflexivity|lia].
  - destruct Hwf as (Hw & Ha & Hq). destruct Hans as (xs & Hp & Hlx & _).
    pose proof (spec_regs_len w (c_endian cfg) (c_word cfg) xs) as Hl. rewrite Hlx in Hl.
    rewrite Hp, lenN_cons, Hl. split; [lia|].
    eexists _, _. split; [reflexivity|]. rewrite Hl.
    split; [destruct rt; try reflexivity; cbn [andb] in V; lia|lia].
  - destruct Hans as (data & Hp & Hl & _). rewrite Hp, lenN_cons, Hl.
    split; [lia|]. eexists _, _. split; [reflexivity|]. rewrite Hl.
    split; [destruct rt; try reflexivity; cbn [andb] in V; lia|lia].
  - destruct Hans as (Hp & _). rewrite Hp.
    destruct v; (split; [cbn; lia|]); eexists _, _; (split; [reflexivity|]);
      (split; [reflexivity|cbn; lia]).
  - destruct Hans as (Hp & _). rewrite Hp. split; [cbn; lia|].
    eexists _, _. split; [reflexivity|]. split; [reflexivity|cbn; lia].
  - destruct Hans as (Hp & _). rewrite Hp, spec16_enc by lia.
    destruct (c_endian cfg); (split; [cbn; lia|]); eexists _, _; (split; [reflexivity|]);
      (split; [reflexivity|cbn; lia]).
  - destruct Hans as (Hp & _). rewrite Hp. split; [cbn; lia|].
    eexists _, _. split; [reflexivity|]. split; [reflexivity|cbn; lia].
  - destruct Hans as (Hp & _). rewrite Hp. split; [cbn; lia|].
    eexists _, _. split; [reflexivity|]. split; [reflexivity|cbn; lia].
Qed.

Lemma answers_frame_ok fr cfg txn o res vs frames u : op_wf o -> valid_op o = true ->
  answers cfg o res vs ->
  match fr with
  | FMbap => txn < 65536 /\ Forall (skippable (u16 (txn + 1))) frames
  | FRtu => frames = []
  end ->
  frame_ok fr txn (mkpdu u (p_fc res) (p_payload res)) frames.
Proof.
  intros Hwf V Hans Hfr. destruct (answers_shape cfg o res vs Hwf V Hans) as (Hl & Hsh).
  destruct Hans as (_ & Hf & _). rewrite Hf.
  destruct fr; cbn [frame_ok p_fc p_payload]; [tauto|]. split; [exact Hfr|exact Hsh].
Qed.

Lemma exception_frame_ok fr txn o u code frames :
  match fr with
  | FMbap => txn < 65536 /\ Forall (skippable (u16 (txn + 1))) frames
  | FRtu => frames = []
  end ->
  frame_ok fr txn (mkpdu u (spec_fc o + 128) [code]) frames.
Proof.
  intros Hfr. destruct fr; cbn [frame_ok p_fc p_payload].
  - split; [tauto|]. split; [cbn; lia|tauto].
  - split; [exact Hfr|]. exists code, []. split; [reflexivity|].
    split; [|cbn; lia]. fc_cases o; reflexivity.
Qed.

Lemma pdu_eta res : mkpdu (p_unit res) (p_fc res) (p_payload res) = res.
Proof. destruct res; reflexivity. Qed.

(* T2: completeness, both framings *)
Lemma client_complete_gen fr cfg txn o e res vs frames post :
  op_wf o -> cfg_wf cfg -> valid_op o = true ->
  bytesb (p_payload res) = true -> answers cfg o res vs ->
  match fr with
  | FMbap => txn < 65536 /\ Forall (skippable (u16 (txn + 1))) frames
  | FRtu => frames = []
  end ->
  let r := client_call fr cfg txn o e
             (concat frames ++ spec_frame fr (u16 (txn + 1)) res ++ post) in
  cr_res r = Ok vs /\ cr_rest r = post.
Proof.
  intros Hwf Hcfg V Hb Hans Hfr.
  destruct (request_valid_ok cfg o Hwf V) as (req & Hreq & Hru & Hrf).
  pose proof (answers_frame_ok fr cfg txn o res vs frames (p_unit res) Hwf V Hans Hfr) as Hok.
  rewrite pdu_eta in Hok.
  pose proof Hans as (Hu & Hf & _).
  assert (Hbody : bytesb ([p_unit res; p_fc res] ++ p_payload res) = true).
  { apply body_bytes; [rewrite Hu; exact Hcfg|rewrite Hf; pose proof (spec_fc_byte o); lia|exact Hb]. }
  pose proof (exchange_frame fr cfg txn o e res post frames req Hreq Hbody Hok) as Hex.
  cbv zeta in *. destruct Hex as [H1 H2]. split; [|exact H2].
  rewrite H1. unfold after_recv. rewrite unit_check_same by congruence.
  apply validate_complete; assumption.
Qed.

Lemma client_complete_rtu : forall cfg txn o e res vs post,
  op_wf o -> cfg_wf cfg -> valid_op o = true ->
  bytesb (p_payload res) = true -> answers cfg o res vs ->
  let r := client_call FRtu cfg txn o e (spec_frame FRtu 0 res ++ post) in
  cr_res r = Ok vs /\ cr_rest r = post.
Proof.
  intros cfg txn o e res vs post Hwf Hcfg V Hb Hans.
  exact (client_complete_gen FRtu cfg txn o e res vs [] post Hwf Hcfg V Hb Hans eq_refl).
Qed.

Lemma client_complete_mbap : forall cfg txn o e res vs frames post,
  op_wf o -> cfg_wf cfg -> txn < 65536 -> valid_op o = true ->
  bytesb (p_payload res) = true -> answers cfg o res vs ->
  Forall (skippable (u16 (txn + 1))) frames ->
  let r := client_call FMbap cfg txn o e
             (concat frames ++ spec_frame FMbap (u16 (txn + 1)) res ++ post) in
  cr_res r = Ok vs /\ cr_rest r = post.
Proof.
  intros cfg txn o e res vs frames post Hwf Hcfg Ht V Hb Hans HF.
  exact (client_complete_gen FMbap cfg txn o e res vs frames post Hwf Hcfg V Hb Hans
           (conj Ht HF)).
Qed.

(* T3: exception replies *)
Lemma client_exception_gen fr cfg txn o e res code frames post :
  op_wf o -> cfg_wf cfg -> valid_op o = true -> code < 256 ->
  exception_reply cfg o res code ->
  match fr with
  | FMbap => txn < 65536 /\ Forall (skippable (u16 (txn + 1))) frames
  | FRtu => frames = []
  end ->
  cr_res (client_call fr cfg txn o e
            (concat frames ++ spec_frame fr (u16 (txn + 1)) res ++ post)) =
    Err (if documented_exception code then EExc code else EExcUnknown code).
Proof.
  intros Hwf Hcfg V Hc (Hu & Hf & Hp) Hfr.
  destruct (request_valid_ok cfg o Hwf V) as (req & Hreq & Hru & Hrf).
  pose proof (exception_frame_ok fr txn o (p_unit res) code frames Hfr) as Hok.
  rewrite <- Hf, <- Hp, pdu_eta in Hok.
  assert (Hbody : bytesb ([p_unit res; p_fc res] ++ p_payload res) = true).
  { apply body_bytes.
    - unfold cfg_wf in Hcfg. destruct Hu as [Hu|Hu]; rewrite Hu; lia.
    - rewrite Hf. pose proof (spec_fc_byte o). lia.
    - rewrite Hp. apply bytesb_cons. split; [exact Hc|reflexivity]. }
  pose proof (exchange_frame fr cfg txn o e res post frames req Hreq Hbody Hok) as Hex.
  cbv zeta in Hex. destruct Hex as [H1 _]. rewrite H1. unfold after_recv.
  assert (Huc : unit_check req res = None).
  { destruct Hu as [Hu|Hu].
    - apply unit_check_same. congruence.
    - apply unit_check_gateway; [rewrite Hf; apply spec_fc_exc|exact Hu]. }
  rewrite Huc, (validate_exception cfg o req res code Hrf Hf Hp). reflexivity.
Qed.

Lemma client_exception_rtu : forall cfg txn o e res code post,
  op_wf o -> cfg_wf cfg -> valid_op o = true -> code < 256 ->
  exception_reply cfg o res code ->
  cr_res (client_call FRtu cfg txn o e (spec_frame FRtu 0 res ++ post)) =
    Err (if documented_exception code then EExc code else EExcUnknown code).
Proof.
  intros cfg txn o e res code post Hwf Hcfg V Hc Hex.
  exact (client_exception_gen FRtu cfg txn o e res code [] post Hwf Hcfg V Hc Hex eq_refl).
Qed.

Lemma client_exception_mbap : forall cfg txn o e res code frames post,
  op_wf o -> cfg_wf cfg -> txn < 65536 -> valid_op o = true -> code < 256 ->
  exception_reply cfg o res code ->
  Forall (skippable (u16 (txn + 1))) frames ->
  cr_res (client_call FMbap cfg txn o e
            (concat frames ++ spec_frame FMbap (u16 (txn + 1)) res ++ post)) =
    Err (if documented_exception code then EExc code else EExcUnknown code).
Proof.
  intros cfg txn o e res code frames post Hwf Hcfg Ht V Hc Hex HF.
  exact (client_exception_gen FMbap cfg txn o e res code frames post Hwf Hcfg V Hc Hex
           (conj Ht HF)).
Qed.

(* a normal reply from another unit is refused *)
Lemma client_foreign_unit : forall fr cfg txn o e res vs post,
  op_wf o -> cfg_wf cfg -> txn < 65536 -> valid_op o = true ->
  bytesb (p_payload res) = true -> answers cfg o res vs ->
  forall u, u < 256 -> u <> c_unit cfg ->
  cr_res (client_call fr cfg txn o e
            (spec_frame fr (u16 (txn + 1)) (mkpdu u (p_fc res) (p_payload res)) ++ post)) =
    Err EBadUnit.
Proof.
  intros fr cfg txn o e res vs post Hwf Hcfg Ht V Hb Hans u Hu Hne.
  destruct (request_valid_ok cfg o Hwf V) as (req & Hreq & Hru & Hrf).
  assert (Hfr : match fr with
                | FMbap => txn < 65536 /\ Forall (skippable (u16 (txn + 1))) (@nil (list N))
                | FRtu => @nil (list N) = []
                end) by (destruct fr; [split; [exact Ht|constructor]|reflexivity]).
  pose proof (answers_frame_ok fr cfg txn o res vs [] u Hwf V Hans Hfr) as Hok.
  pose proof Hans as (_ & Hf & _).
  set (res' := mkpdu u (p_fc res) (p_payload res)) in *.
  assert (Hbody : bytesb ([p_unit res'; p_fc res'] ++ p_payload res') = true).
  { apply body_bytes; cbn [res' p_unit p_fc p_payload];
      [exact Hu|rewrite Hf; pose proof (spec_fc_byte o); lia|exact Hb]. }
  pose proof (exchange_frame fr cfg txn o e res' post [] req Hreq Hbody Hok) as Hex.
  cbv zeta in Hex. cbn [concat app] in Hex. destruct Hex as [H1 _]. rewrite H1.
  unfold after_recv. rewrite unit_check_foreign; [reflexivity| |].
  - cbn [res' p_fc]. rewrite Hf. apply spec_fc_normal.
  - cbn [res' p_unit]. congruence.
Qed.

(* T1: soundness *)
Lemma validate_ok_fc cfg o req res vs :
  client_validate cfg o req res = Ok vs -> p_fc res = p_fc req.
Proof.
  destruct (p_fc res =? p_fc req) eqn:E; [intros _; apply N.eqb_eq; exact E|].
  destruct (eop_err req res) as [x Hx].
  destruct o; cbn [client_validate]; unfold validate_read_regs, echo4; rewrite E, Hx;
    discriminate.
Qed.

Lemma recv_inv fr txn e s res rest : bytesb s = true ->
  recv fr txn e s = (Ok res, rest) ->
  bytesb (p_payload res) = true /\
  exists pre,
    s = pre ++ spec_frame fr (u16 (txn + 1)) res ++ rest /\
    match fr with
    | FMbap => exists frames, pre = concat frames /\ Forall (skippable (u16 (txn + 1))) frames
    | FRtu => pre = []
    end.
Proof.
  intros Hb H. destruct fr; cbn [recv] in H.
  - destruct (mbap_response_inv _ _ _ _ _ _ Hb H) as (frames & HF & Hs & Hl).
    split.
    + rewrite Hs in Hb. unfold mbap_frame in Hb.
      repeat (rewrite bytesb_app_iff in Hb). tauto.
    + exists (concat frames). split; [exact Hs|]. exists frames. split; [reflexivity|exact HF].
  - apply rtu_response_ok in H.
    destruct (read_rtu_inv e s res rest Hb H) as (b2 & data & Hp & He & Hl & Hs).
    assert (Hbody : bytesb ([p_unit res; p_fc res] ++ p_payload res) = true).
    { rewrite Hs in Hb. unfold rtu_frame in Hb.
      apply bytesb_app_iff in Hb as [Hb' _]. apply bytesb_app_iff in Hb' as [Hb' _].
      exact Hb'. }
    split.
    + apply bytesb_app_iff in Hbody. tauto.
    + exists []. split; [|reflexivity]. rewrite spec_frame_rtu by exact Hbody. exact Hs.
Qed.

Lemma client_sound : forall fr cfg txn o e s vs,
  op_wf o -> cfg_wf cfg -> txn < 65536 -> bytesb s = true ->
  cr_res (client_call fr cfg txn o e s) = Ok vs ->
  valid_op o = true /\
  exists res pre post,
    answers cfg o res vs /\
    s = pre ++ spec_frame fr (u16 (txn + 1)) res ++ post /\
    cr_rest (client_call fr cfg txn o e s) = post /\
    match fr with
    | FMbap => exists frames, pre = concat frames /\ Forall (skippable (u16 (txn + 1))) frames
    | FRtu => pre = []
    end.
Proof.
  intros fr cfg txn o e s vs Hwf Hcfg Ht Hb H.
  destruct (client_request cfg o) as [req|x| |] eqn:Hreq;
    try (unfold client_call in H; rewrite Hreq in H; discriminate H).
  destruct (request_ok_valid cfg o req Hwf Hreq) as (V & Hru & Hrf).
  split; [exact V|].
  destruct (client_call_ok fr cfg txn o e s req Hreq) as [H1 H2].
  rewrite H1 in H. rewrite H2. clear H1 H2.
  destruct (recv fr txn e s) as [r rest] eqn:Er. cbn [fst snd] in *.
  unfold after_recv in H. destruct r as [res|x| |]; try discriminate H.
  destruct (unit_check req res) eqn:Huc; [discriminate H|].
  pose proof (validate_ok_fc cfg o req res vs H) as Hfc.
  assert (Hu : p_unit res = c_unit cfg).
  { rewrite <- Hru. apply unit_check_normal_inv; [|exact Huc].
    rewrite Hfc, Hrf. apply spec_fc_normal. }
  destruct (recv_inv fr txn e s res rest Hb Er) as (Hpb & pre & Hs & Hpre).
  exists res, pre, rest.
  split; [apply (validate_sound cfg o req res vs); assumption|].
  split; [exact Hs|]. split; [reflexivity|exact Hpre].
Qed.
