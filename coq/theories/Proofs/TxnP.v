(* Proofs for C05: replies are matched to requests by transaction id.
   The single exchange (T1, T2), the counter (T3), histories (T4). *)
From Modbus Require Import Base.Bytes Model.Crc Model.Encoding Model.Wire Model.Client
  Model.TxnHistory Spec.ModbusSpec Spec.ClientSpec Spec.TxnSpec
  Proofs.FramingP Proofs.ClientReqP Proofs.ClientRespP.
From Coq Require Import ZifyBool ZifyNat ZifyN.
Ltac Zify.zify_post_hook ::= Z.div_mod_to_equations.

(* ---------------------------------------------------------------- fuel *)

(* the fuel of the skip loop does not matter once it exceeds the stream length *)
Lemma mbap_fuel_indep f : forall f' e txn s, (length s < f)%nat -> (length s < f')%nat ->
  mbap_read_response f e txn s = mbap_read_response f' e txn s.
Proof.
  induction f as [|f IH]; intros f' e txn s Hf Hf'; [lia|].
  destruct f' as [|f']; [lia|].
  cbn [mbap_read_response]. destruct (read_mbap e s) as [r s'] eqn:E.
  apply read_mbap_len in E.
  destruct r as [p t|x].
  - destruct (t =? txn); [reflexivity|apply IH; lia].
  - destruct x; try reflexivity. apply IH; lia.
Qed.

(* ---------------------------------------------------------------- T1 *)

Lemma exchange_mbap txn req e s :
  transport_exchange FMbap txn req e s =
  (fst (mbap_read_response (S (length s)) e (u16 (txn + 1)) s),
   [assemble_mbap (u16 (txn + 1)) req],
   snd (mbap_read_response (S (length s)) e (u16 (txn + 1)) s),
   u16 (txn + 1)).
Proof.
  unfold transport_exchange.
  destruct (mbap_read_response (S (length s)) e (u16 (txn + 1)) s) as [r rest]. reflexivity.
Qed.

Lemma exchange_reply_matches : forall txn req e s p w rest t',
  bytesb s = true ->
  transport_exchange FMbap txn req e s = (Ok p, w, rest, t') ->
  t' = u16 (txn + 1) /\ w = [spec_frame FMbap t' req] /\
  exists frames,
    Forall (skippable t') frames /\
    s = concat frames ++ spec_frame FMbap t' p ++ rest /\
    lenN (p_payload p) <= 252.
Proof.
  intros txn req e s p w rest t' Hb H. rewrite exchange_mbap in H.
  destruct (mbap_read_response (S (length s)) e (u16 (txn + 1)) s) as [r rest0] eqn:E.
  cbn [fst snd] in H. injection H as -> <- -> <-.
  split; [reflexivity|]. split; [rewrite mbap_frame_spec; reflexivity|].
  destruct (mbap_response_inv _ _ _ _ _ _ Hb E) as (frames & HF & Hs & Hl).
  exists frames. split; [exact HF|]. split; [|exact Hl].
  rewrite spec_frame_mbap. exact Hs.
Qed.

(* ---------------------------------------------------------------- T2 *)

(* frames that must be passed over have no influence on the exchange: the
   outcome and the bytes left are those of the stream without them *)
Lemma exchange_skips : forall txn req e frames rest,
  Forall (skippable (u16 (txn + 1))) frames ->
  transport_exchange FMbap txn req e (concat frames ++ rest) =
  transport_exchange FMbap txn req e rest.
Proof.
  intros txn req e frames rest HF. rewrite !exchange_mbap.
  assert (Hlen : (length frames + length rest <= length (concat frames ++ rest))%nat).
  { rewrite app_length. pose proof (skippable_concat_length _ _ HF). lia. }
  assert (E : mbap_read_response (S (length (concat frames ++ rest))) e (u16 (txn + 1))
                (concat frames ++ rest) =
              mbap_read_response (S (length rest)) e (u16 (txn + 1)) rest).
  { replace (S (length (concat frames ++ rest)))
      with (length frames + S (length (concat frames ++ rest) - length frames))%nat by lia.
    rewrite mbap_skip by exact HF. apply mbap_fuel_indep; lia. }
  rewrite E. reflexivity.
Qed.

(* nothing but such frames (and possibly the beginning of a header): the call
   reads on until the stream is exhausted and ends with the error of the
   stream end - the timeout when the peer is silent - never with a reply *)
Lemma exchange_waits : forall txn req e frames tail,
  Forall (skippable (u16 (txn + 1))) frames -> (length tail < 7)%nat ->
  transport_exchange FMbap txn req e (concat frames ++ tail) =
  (Err (short_err e), [assemble_mbap (u16 (txn + 1)) req], [], u16 (txn + 1)).
Proof.
  intros txn req e frames tail HF Ht. rewrite exchange_skips by exact HF.
  rewrite exchange_mbap. cbn [mbap_read_response]. unfold read_mbap.
  rewrite read_full_short_iff by exact Ht. destruct e; reflexivity.
Qed.

(* ---------------------------------------------------------------- the call *)

Lemma call_mbap cfg txn o e s req : client_request cfg o = Ok req ->
  let R := mbap_read_response (S (length s)) e (u16 (txn + 1)) s in
  client_call FMbap cfg txn o e s =
  mkcall (after_recv cfg o req (fst R)) [assemble_mbap (u16 (txn + 1)) req] (snd R)
         (u16 (txn + 1)).
Proof.
  intros Hreq R. subst R. unfold client_call. rewrite Hreq, exchange_mbap.
  destruct (mbap_read_response (S (length s)) e (u16 (txn + 1)) s) as [r rest].
  cbn [fst snd]. destruct r as [res|x| |]; cbn [after_recv]; try reflexivity.
  destruct (unit_check req res); reflexivity.
Qed.

Lemma call_waits : forall cfg txn o e frames tail,
  op_wf o -> valid_op o = true ->
  Forall (skippable (u16 (txn + 1))) frames -> (length tail < 7)%nat ->
  let r := client_call FMbap cfg txn o e (concat frames ++ tail) in
  cr_res r = Err (short_err e) /\ cr_rest r = [] /\ cr_txn r = u16 (txn + 1).
Proof.
  intros cfg txn o e frames tail Hwf V HF Ht r. subst r.
  destruct (request_valid_ok cfg o Hwf V) as (req & Hreq & _).
  unfold client_call. rewrite Hreq, (exchange_waits txn req e frames tail HF Ht).
  cbn [cr_res cr_rest cr_txn]. repeat split.
Qed.

(* ---------------------------------------------------------------- T3 *)

Lemma th_id_lt txn0 i : th_id txn0 i < 65536.
Proof. unfold th_id. lia. Qed.

Lemma th_id_succ txn0 j : u16 ((txn0 + j) mod 65536 + 1) = th_id txn0 j.
Proof. unfold u16, th_id. lia. Qed.

Lemma th_id_eq txn0 i j : th_id txn0 i = th_id txn0 j <-> i mod 65536 = j mod 65536.
Proof. unfold th_id. split; intros H; lia. Qed.

Lemma th_id_distinct : forall txn0 i k, 0 < k < 65536 -> th_id txn0 (i + k) <> th_id txn0 i.
Proof. intros txn0 i k Hk. rewrite th_id_eq. lia. Qed.

Lemma th_id_period : forall txn0 i, th_id txn0 (i + 65536) = th_id txn0 i.
Proof. intros txn0 i. apply th_id_eq. lia. Qed.

Lemma th_id_fresh i : i < 65535 -> th_id 0 i = i + 1.
Proof. intros H. unfold th_id. lia. Qed.

Lemma call_txn fr cfg txn o e s : op_wf o ->
  cr_txn (client_call fr cfg txn o e s) =
  match fr with
  | FMbap => if valid_op o then u16 (txn + 1) else txn
  | FRtu => txn
  end.
Proof.
  intros Hwf. unfold client_call. rewrite (client_request_exact cfg o Hwf).
  destruct (valid_op o).
  - unfold transport_exchange. destruct fr.
    + destruct (mbap_read_response _ _ _ _) as [r rest].
      destruct r as [res|x| |]; try reflexivity.
      destruct (unit_check _ res); reflexivity.
    + destruct (rtu_read_response _ _) as [r rest].
      destruct r as [res|x| |]; try reflexivity.
      destruct (unit_check _ res); reflexivity.
  - destruct fr; reflexivity.
Qed.

Lemma hist_run_length fr cfg xs : forall st, length (hist_run fr cfg st xs) = length xs.
Proof.
  induction xs as [|x t IH]; intros st; [reflexivity|].
  cbn [hist_run hist_step length]. rewrite IH. reflexivity.
Qed.

Lemma hist_run_app fr cfg a b : forall st,
  hist_run fr cfg st (a ++ b) = hist_run fr cfg st a ++ hist_run fr cfg (hist_final fr cfg st a) b.
Proof.
  induction a as [|x t IH]; intros st; [reflexivity|].
  cbn [app hist_run hist_final hist_step fst]. rewrite IH. reflexivity.
Qed.

(* the call at position length pre runs from the state reached after pre *)
Lemma hist_run_nth fr cfg st pre x post d :
  nth (length pre) (hist_run fr cfg st (pre ++ x :: post)) d =
  snd (hist_step fr cfg (hist_final fr cfg st pre) x).
Proof.
  rewrite hist_run_app. cbn [hist_run hist_step snd].
  rewrite <- (hist_run_length fr cfg pre st) at 1.
  rewrite nth_middle. reflexivity.
Qed.

Lemma th_sent_app a b : th_sent (a ++ b) = th_sent a + th_sent b.
Proof. unfold th_sent. rewrite filter_app. apply lenN_app. Qed.

(* the counter advances by exactly one per transmitted request *)
Lemma hist_counter cfg xs : forall st,
  Forall (fun x => op_wf (ths_op x)) xs -> th_txn st < 65536 ->
  th_txn (hist_final FMbap cfg st xs) = (th_txn st + th_sent xs) mod 65536.
Proof.
  induction xs as [|x t IH]; intros st HF Ht.
  - cbn [hist_final]. unfold th_sent. cbn. lia.
  - inversion HF as [|? ? Hx Ht']; subst.
    cbn [hist_final hist_step fst]. rewrite IH; [|exact Ht'|].
    + cbn [th_txn]. rewrite (call_txn FMbap) by exact Hx.
      change (x :: t) with ([x] ++ t). rewrite th_sent_app.
      unfold th_sent at 2. cbn [filter].
      destruct (valid_op (ths_op x)); unfold lenN, u16; cbn [length]; lia.
    + cbn [th_txn]. rewrite (call_txn FMbap) by exact Hx.
      destruct (valid_op (ths_op x)); unfold u16; lia.
Qed.

(* the request transmitted at any position of any history carries the id
   counter + (number of requests transmitted before it) + 1, modulo 2^16 *)
Lemma hist_request_id : forall cfg st pre x post d,
  cfg_wf cfg -> th_txn st < 65536 ->
  Forall (fun x => op_wf (ths_op x)) (pre ++ x :: post) ->
  let r := nth (length pre) (hist_run FMbap cfg st (pre ++ x :: post)) d in
  (valid_op (ths_op x) = true ->
   cr_writes r = [spec_frame FMbap (th_id (th_txn st) (th_sent pre)) (spec_pdu cfg (ths_op x))]) /\
  (valid_op (ths_op x) = false -> cr_writes r = [] /\ cr_res r = Err EParams).
Proof.
  intros cfg st pre x post d Hcfg Ht HF r. subst r.
  rewrite hist_run_nth. cbn [hist_step snd].
  apply Forall_app in HF as [Hpre Hx]. inversion Hx as [|? ? Hx' _]; subst.
  pose proof (hist_counter cfg pre st Hpre Ht) as Hc.
  assert (Hlt : th_txn (hist_final FMbap cfg st pre) < 65536) by (rewrite Hc; lia).
  destruct (client_transmit FMbap cfg (th_txn (hist_final FMbap cfg st pre)) (ths_op x)
              (th_end_after (th_end (hist_final FMbap cfg st pre)) (ths_end x))
              (th_left (hist_final FMbap cfg st pre) ++ ths_bytes x) Hx' Hcfg Hlt) as [H1 H2].
  split; intros V.
  - rewrite (H1 V). rewrite Hc, th_id_succ. reflexivity.
  - destruct (H2 V) as (Hw & Hr & _). split; assumption.
Qed.

(* ---------------------------------------------------------------- T4: whole tagged frames *)

Lemma th_bytes_frame txn0 f : th_frame_wf f ->
  exists t proto unit fc payload,
    th_bytes txn0 f = mbap_frame t proto unit fc payload /\
    t < 65536 /\ proto < 65536 /\ lenN payload <= 252 /\
    match f with
    | ThReply i res => t = th_id txn0 i /\ proto = 0 /\ res = mkpdu unit fc payload
    | ThForeign _ _ _ => proto <> 0
    end.
Proof.
  destruct f as [i [unit fc payload]|t proto [unit fc payload]]; cbn [th_frame_wf p_payload].
  - intros Hl. exists (th_id txn0 i), 0, unit, fc, payload.
    split; [reflexivity|]. pose proof (th_id_lt txn0 i). repeat split; try lia.
  - intros (Ht & Hp & Hp0 & Hl). exists t, proto, unit, fc, payload.
    split; [reflexivity|]. repeat split; assumption.
Qed.

(* a frame the matching rule passes over is one the reader must skip *)
Lemma th_skippable txn0 j f : th_frame_wf f -> th_accepts j f = false ->
  skippable (th_id txn0 j) (th_bytes txn0 f).
Proof.
  intros Hwf Ha. destruct (th_bytes_frame txn0 f Hwf) as (t & proto & unit & fc & payload & Hb & Ht & Hp & Hl & Hk).
  rewrite Hb. apply skippable_frame. exists t, proto, unit, fc, payload.
  split; [reflexivity|]. repeat split; try assumption.
  destruct f as [i res|t' proto' res]; cbn [th_accepts] in Ha.
  - destruct Hk as (-> & -> & _). right. rewrite th_id_eq. lia.
  - left. exact Hk.
Qed.

Lemma th_stream_app txn0 a b : th_stream txn0 (a ++ b) = th_stream txn0 a ++ th_stream txn0 b.
Proof. unfold th_stream. rewrite map_app, concat_app. reflexivity. Qed.

Lemma th_stream_cons txn0 f t : th_stream txn0 (f :: t) = th_bytes txn0 f ++ th_stream txn0 t.
Proof. reflexivity. Qed.

(* the receive loop on a stream of whole frames follows the matching rule *)
Lemma mbap_take txn0 j e all : forall fuel, Forall th_frame_wf all ->
  (length (th_stream txn0 all) < fuel)%nat ->
  mbap_read_response fuel e (th_id txn0 j) (th_stream txn0 all) =
  match th_take j all with
  | Some (res, rest) => (Ok res, th_stream txn0 rest)
  | None => (Err (short_err e), [])
  end.
Proof.
  induction all as [|f t IH]; intros fuel HF Hfuel.
  - destruct fuel as [|fuel]; [cbn in Hfuel; lia|].
    cbn [th_take th_stream map concat mbap_read_response]. unfold read_mbap.
    rewrite read_full_short_iff by (cbn; lia). destruct e; reflexivity.
  - inversion HF as [|? ? Hf Ht]; subst.
    destruct (th_bytes_frame txn0 f Hf) as (tid & proto & unit & fc & payload & Hb & Htid & Hp & Hl & Hk).
    rewrite th_stream_cons in *. rewrite Hb in *.
    rewrite app_length, mbap_frame_length in Hfuel.
    destruct fuel as [|fuel]; [lia|].
    cbn [mbap_read_response]. rewrite read_mbap_frame by assumption.
    destruct f as [i res|t' proto' res].
    + destruct Hk as (-> & -> & ->). cbn [N.eqb th_take].
      destruct (i mod 65536 =? j mod 65536) eqn:C.
      * replace (th_id txn0 i =? th_id txn0 j) with true; [reflexivity|].
        symmetry. apply N.eqb_eq. apply th_id_eq. lia.
      * replace (th_id txn0 i =? th_id txn0 j) with false; [apply IH; [exact Ht|lia]|].
        symmetry. apply N.eqb_neq. rewrite th_id_eq. lia.
    + cbn [th_take]. replace (proto =? 0) with false by lia. apply IH; [exact Ht|lia].
Qed.

Lemma th_take_wf j pend : forall res rest, Forall th_frame_wf pend ->
  th_take j pend = Some (res, rest) -> Forall th_frame_wf rest /\ lenN (p_payload res) <= 252.
Proof.
  induction pend as [|f t IH]; intros res rest HF; [discriminate|].
  inversion HF as [|? ? Hf Ht]; subst. destruct f as [i r|t' proto' r]; cbn [th_take].
  - destruct (i mod 65536 =? j mod 65536).
    + intros H; injection H as <- <-. split; [exact Ht|exact Hf].
    + apply IH, Ht.
  - apply IH, Ht.
Qed.

Lemma th_next_wf j pend : Forall th_frame_wf pend -> Forall th_frame_wf (th_next j pend).
Proof.
  intros HF. unfold th_next. destruct (th_take j pend) as [[res rest]|] eqn:E; [|constructor].
  apply (th_take_wf j pend res rest HF E).
Qed.

(* the matching rule, spelled out *)
Lemma th_take_some j pend res rest : th_take j pend = Some (res, rest) <->
  exists skipped i,
    pend = skipped ++ ThReply i res :: rest /\ i mod 65536 = j mod 65536 /\
    Forall (fun f => th_accepts j f = false) skipped.
Proof.
  split.
  - revert res rest. induction pend as [|f t IH]; intros res rest; [discriminate|].
    destruct f as [i r|t' proto' r]; cbn [th_take].
    + destruct (i mod 65536 =? j mod 65536) eqn:C.
      * intros H; injection H as <- <-. exists [], i. split; [reflexivity|].
        split; [lia|constructor].
      * intros H. destruct (IH res rest H) as (sk & i' & -> & Hi & Hsk).
        exists (ThReply i r :: sk), i'. split; [reflexivity|]. split; [exact Hi|].
        constructor; [exact C|exact Hsk].
    + intros H. destruct (IH res rest H) as (sk & i' & -> & Hi & Hsk).
      exists (ThForeign t' proto' r :: sk), i'. split; [reflexivity|]. split; [exact Hi|].
      constructor; [reflexivity|exact Hsk].
  - intros (sk & i & -> & Hi & Hsk). induction Hsk as [|f sk Hf _ IH].
    + cbn [app th_take]. replace (i mod 65536 =? j mod 65536) with true by lia. reflexivity.
    + destruct f as [i' r|t' proto' r]; cbn [app th_take th_accepts] in *.
      * rewrite Hf. exact IH.
      * exact IH.
Qed.

Lemma th_take_none j pend : th_take j pend = None <->
  Forall (fun f => th_accepts j f = false) pend.
Proof.
  induction pend as [|f t IH]; [split; [constructor|reflexivity]|].
  destruct f as [i r|t' proto' r]; cbn [th_take].
  - destruct (i mod 65536 =? j mod 65536) eqn:C.
    + split; [discriminate|]. intros H. inversion H as [|? ? Hf _]; subst.
      cbn [th_accepts] in Hf. congruence.
    + rewrite IH. split; [intros H; constructor; [exact C|exact H]|].
      intros H. inversion H; assumption.
  - rewrite IH. split; [intros H; constructor; [reflexivity|exact H]|].
    intros H. inversion H; assumption.
Qed.

(* a lone, on-time reply: what the client makes of the PDU *)
Lemma call_lone cfg txn o e res req : client_request cfg o = Ok req ->
  txn < 65536 -> lenN (p_payload res) <= 252 ->
  client_call FMbap cfg txn o e (spec_frame FMbap (u16 (txn + 1)) res) =
  mkcall (after_recv cfg o req (Ok res)) [assemble_mbap (u16 (txn + 1)) req] [] (u16 (txn + 1)).
Proof.
  intros Hreq Ht Hl. rewrite (call_mbap cfg txn o e _ req Hreq).
  destruct res as [unit fc payload]. cbn [p_payload] in Hl.
  pose proof (mbap_response_frame e (u16 (txn + 1)) [] unit fc payload []) as H.
  cbn [concat app] in H. rewrite app_nil_r in H. rewrite spec_frame_mbap.
  cbn [p_unit p_fc p_payload].
  rewrite H; [reflexivity|constructor|unfold u16; lia|exact Hl].
Qed.

(* one step of a scripted history *)
Lemma hist_step_frames : forall cfg txn0 j pend e x,
  txn0 < 65536 -> Forall th_frame_wf pend -> th_sstep_ok x ->
  let t := (txn0 + j) mod 65536 in
  let e' := th_end_after e (ss_end x) in
  let all := pend ++ ss_frames x in
  let sr := hist_step FMbap cfg (mkth t (th_stream txn0 pend) e) (th_concrete txn0 x) in
  fst sr = mkth ((txn0 + (j + 1)) mod 65536) (th_stream txn0 (th_next j all)) e' /\
  match th_take j all with
  | Some (res, _) =>
      cr_res (snd sr) = cr_res (client_call FMbap cfg t (ss_op x) e' (spec_frame FMbap (th_id txn0 j) res))
  | None => cr_res (snd sr) = Err (short_err e')
  end.
Proof.
  intros cfg txn0 j pend e x Ht0 Hpend (Hwf & V & Hfr) t e' all sr. subst sr.
  destruct (request_valid_ok cfg (ss_op x) Hwf V) as (req & Hreq & _).
  assert (Hall : Forall th_frame_wf all) by (apply Forall_app; split; assumption).
  cbn [hist_step th_concrete th_txn th_left th_end ths_op ths_bytes ths_end fst snd].
  fold e'. rewrite <- th_stream_app. fold all.
  assert (Hid : u16 (t + 1) = th_id txn0 j) by apply th_id_succ.
  rewrite (call_mbap cfg t (ss_op x) e' _ req Hreq). rewrite !Hid.
  rewrite (mbap_take txn0 j e' all _ Hall) by lia.
  cbn [cr_txn cr_rest cr_res]. unfold th_next.
  destruct (th_take j all) as [[res rest]|] eqn:E; cbn [fst snd].
  - split; [f_equal; unfold th_id; lia|].
    destruct (th_take_wf j all res rest Hall E) as [_ Hl].
    rewrite <- Hid.
    rewrite (call_lone cfg t (ss_op x) e' res req Hreq) by (assumption || (unfold t; lia)).
    reflexivity.
  - split; [f_equal; unfold th_id; lia|reflexivity].
Qed.

Lemma th_end_run_snoc e pre x : th_end_run e (pre ++ [x]) = th_end_after (th_end_run e pre) (ss_end x).
Proof. unfold th_end_run. rewrite fold_left_app. reflexivity. Qed.

(* the state after a scripted prefix *)
Lemma hist_final_frames cfg txn0 pre : forall j pend e,
  txn0 < 65536 -> Forall th_frame_wf pend -> Forall th_sstep_ok pre ->
  hist_final FMbap cfg (mkth ((txn0 + j) mod 65536) (th_stream txn0 pend) e)
    (map (th_concrete txn0) pre) =
  mkth ((txn0 + (j + lenN pre)) mod 65536) (th_stream txn0 (th_pending j pend pre))
       (th_end_run e pre) /\
  Forall th_frame_wf (th_pending j pend pre).
Proof.
  induction pre as [|x t IH]; intros j pend e Ht0 Hpend Hpre.
  - cbn [map hist_final th_pending th_end_run fold_left]. unfold lenN. cbn [length].
    split; [f_equal; f_equal; lia|exact Hpend].
  - inversion Hpre as [|? ? Hx Ht]; subst.
    cbn [map hist_final th_pending].
    destruct (hist_step_frames cfg txn0 j pend e x Ht0 Hpend Hx) as [Hst _].
    cbv zeta in Hst. rewrite Hst.
    assert (Hn : Forall th_frame_wf (th_next j (pend ++ ss_frames x))).
    { apply th_next_wf. apply Forall_app. split; [exact Hpend|]. apply Hx. }
    destruct (IH (j + 1) (th_next j (pend ++ ss_frames x)) (th_end_after e (ss_end x)) Ht0 Hn Ht)
      as [H1 H2].
    rewrite H1. split; [|exact H2].
    rewrite lenN_cons. unfold th_end_run. cbn [fold_left].
    f_equal. f_equal. lia.
Qed.

(* T4: every request of every scripted history follows the matching rule *)
Lemma hist_frames : forall cfg txn0 pend0 e0 pre x post d,
  txn0 < 65536 -> Forall th_frame_wf pend0 -> Forall th_sstep_ok (pre ++ x :: post) ->
  let j := lenN pre in
  let t := (txn0 + j) mod 65536 in
  let e := th_end_after (th_end_run e0 pre) (ss_end x) in
  let all := th_pending 0 pend0 pre ++ ss_frames x in
  let r := nth (length pre)
             (hist_run FMbap cfg (mkth txn0 (th_stream txn0 pend0) e0)
                (map (th_concrete txn0) (pre ++ x :: post))) d in
  match th_take j all with
  | Some (res, rest) =>
      cr_res r = cr_res (client_call FMbap cfg t (ss_op x) e (spec_frame FMbap (th_id txn0 j) res)) /\
      cr_rest r = th_stream txn0 rest
  | None => cr_res r = Err (short_err e) /\ cr_rest r = []
  end.
Proof.
  intros cfg txn0 pend0 e0 pre x post d Ht0 Hpend HF j t e all r. subst r.
  apply Forall_app in HF as [Hpre Hx]. inversion Hx as [|? ? Hx' _]; subst.
  rewrite map_app. cbn [map].
  rewrite <- (map_length (th_concrete txn0) pre). rewrite hist_run_nth.
  assert (E0 : mkth txn0 (th_stream txn0 pend0) e0 =
               mkth ((txn0 + 0) mod 65536) (th_stream txn0 pend0) e0) by (f_equal; lia).
  rewrite E0. clear E0.
  destruct (hist_final_frames cfg txn0 pre 0 pend0 e0 Ht0 Hpend Hpre) as [Hfin Hwf].
  rewrite Hfin.
  destruct (hist_step_frames cfg txn0 (0 + lenN pre) (th_pending 0 pend0 pre) (th_end_run e0 pre) x
              Ht0 Hwf Hx') as [Hst Hres].
  cbv zeta in Hst, Hres. change (0 + lenN pre) with j in *.
  fold all in Hst, Hres. fold e in Hst, Hres. fold t in Hres.
  assert (Hrest : cr_rest (snd (hist_step FMbap cfg
            (mkth ((txn0 + j) mod 65536) (th_stream txn0 (th_pending 0 pend0 pre)) (th_end_run e0 pre))
            (th_concrete txn0 x))) = th_stream txn0 (th_next j all)).
  { apply (f_equal th_left) in Hst. exact Hst. }
  unfold th_next in Hrest.
  destruct (th_take j all) as [[res rest]|]; (split; [exact Hres|exact Hrest]).
Qed.

(* a request that succeeds consumed a reply built for a request with the same
   number modulo 2^16, found behind frames the rule passes over *)
Lemma hist_no_misattribution : forall cfg txn0 pend0 e0 pre x post d vs,
  txn0 < 65536 -> Forall th_frame_wf pend0 -> Forall th_sstep_ok (pre ++ x :: post) ->
  let j := lenN pre in
  let r := nth (length pre)
             (hist_run FMbap cfg (mkth txn0 (th_stream txn0 pend0) e0)
                (map (th_concrete txn0) (pre ++ x :: post))) d in
  cr_res r = Ok vs ->
  exists skipped i res rest,
    th_pending 0 pend0 pre ++ ss_frames x = skipped ++ ThReply i res :: rest /\
    i mod 65536 = j mod 65536 /\
    th_id txn0 i = th_id txn0 j /\
    Forall (fun f => th_accepts j f = false) skipped /\
    cr_res (client_call FMbap cfg ((txn0 + j) mod 65536) (ss_op x)
              (th_end_after (th_end_run e0 pre) (ss_end x))
              (spec_frame FMbap (th_id txn0 j) res)) = Ok vs /\
    cr_rest r = th_stream txn0 rest.
Proof.
  intros cfg txn0 pend0 e0 pre x post d vs Ht0 Hpend HF j r H. subst r.
  pose proof (hist_frames cfg txn0 pend0 e0 pre x post d Ht0 Hpend HF) as HH.
  cbv zeta in HH. fold j in HH.
  destruct (th_take j (th_pending 0 pend0 pre ++ ss_frames x)) as [[res rest]|] eqn:E.
  - destruct HH as [Hres Hrest]. apply th_take_some in E as (sk & i & Hall & Hi & Hsk).
    exists sk, i, res, rest. split; [exact Hall|]. split; [exact Hi|].
    split; [apply th_id_eq; exact Hi|]. split; [exact Hsk|].
    split; [rewrite <- Hres; exact H|exact Hrest].
  - destruct HH as [Hres _]. rewrite Hres in H. discriminate H.
Qed.

(* a late reply to request i is passed over by the following 65535 requests;
   the bound is exact *)
Lemma th_late_passed_over : forall i k res, 0 < k < 65536 ->
  th_accepts (i + k) (ThReply i res) = false.
Proof. intros i k res Hk. cbn [th_accepts]. apply N.eqb_neq. lia. Qed.

Lemma th_late_wrap : forall i res, th_accepts (i + 65536) (ThReply i res) = true.
Proof. intros i res. cbn [th_accepts]. apply N.eqb_eq. lia. Qed.

Lemma th_foreign_passed_over : forall j t proto res, th_accepts j (ThForeign t proto res) = false.
Proof. reflexivity. Qed.
