(* Proofs about Model/ConcWire.v: every execution of well-bracketed threads
   (Model/Conc.v) shows an atomic wire; what an atomic wire means. *)
From Coq Require Import List Bool Arith Lia.
Import ListNotations.
From Modbus Require Import Model.Conc Model.ConcWire Proofs.ConcP Proofs.GenLocksP Gen.ClientLocks.

Lemma cw_olist_inj o o' : cc_olist o = cc_olist o' -> o = o'.
Proof. destruct o, o'; cbn; intros H; inversion H; reflexivity. Qed.

(* the outstanding request of the invariant of ConcP is the state of the check *)
Lemma cw_run_inv evs : forall c c' o, cc_inv1 c -> cc_inv2 c o -> cc_run c evs = Some c' ->
  cw_run o (cw_proj evs) = true.
Proof.
  induction evs as [|e t IH]; intros c c' o H1 H2 H; [reflexivity|].
  cbn [cc_run] in H. destruct (cc_stepf c e) as [c1|] eqn:Es; [|discriminate]. destruct e as [i a].
  destruct (cc_inv2_step _ _ _ _ _ H1 H2 Es) as [Hout (o1 & Hi2 & Heq & Htx & _)].
  pose proof (cc_inv1_step _ _ _ H1 Es) as Hi1.
  pose proof (IH _ _ _ Hi1 Hi2 H) as Hrest.
  destruct a; cbn [cw_proj];
    try (cbn in Heq; rewrite app_nil_r in Heq; apply cw_olist_inj in Heq; subst o1; exact Hrest).
  - (* Tx: nothing is outstanding before, this request is afterwards *)
    cbn [cw_run]. destruct o as [k|].
    + exfalso. destruct (Hout k eq_refl) as [[_ Hx]|[_ [w Hx]]]; discriminate.
    + rewrite (Htx eq_refl) in Hrest. exact Hrest.
  - (* Rx: by the thread whose request is outstanding; nothing is afterwards *)
    cbn [cw_run]. cbn in Heq. destruct o as [k|].
    + destruct (Hout k eq_refl) as [[-> _]|[_ [w Hx]]]; [|discriminate].
      cbn in Heq. inversion Heq as [Ho]. destruct o1; [discriminate|].
      rewrite Nat.eqb_refl. exact Hrest.
    + cbn in Heq. discriminate.
Qed.

Lemma cw_good_atomic ps evs c : cc_good ps -> cc_exec (cc_init ps) evs c ->
  cw_atomic (cw_proj evs) = true.
Proof.
  intros Hg H. exact (cw_run_inv _ _ _ _ (cc_inv1_init _ Hg) (cc_inv2_init _ Hg) H).
Qed.

Lemma cw_client_atomic prog ps evs c :
  cc_runs_table client_programs client_entries prog ps ->
  cc_exec (cc_init ps) evs c -> cw_atomic (cw_proj evs) = true.
Proof. intros Hr. apply cw_good_atomic, (client_good _ _ Hr). Qed.

(* what the check accepts: a request is directly followed by the end of its
   own exchange (or is the last event), and an end directly follows its request *)
Lemma cw_run_next o l1 : forall k e l2, cw_run o (l1 ++ WReq k :: e :: l2) = true -> e = WEnd k.
Proof.
  revert o. induction l1 as [|x t IH]; intros o k e l2 H.
  - cbn [app cw_run] in H. destruct o; [discriminate|]. destruct e as [j|j]; cbn [cw_run] in H; [discriminate|].
    apply andb_true_iff in H. destruct H as [H _]. apply Nat.eqb_eq in H. subst j. reflexivity.
  - cbn [app cw_run] in H. destruct x as [j|j]; destruct o; try discriminate.
    + exact (IH _ _ _ _ H).
    + apply andb_true_iff in H. destruct H as [_ H]. exact (IH _ _ _ _ H).
Qed.

Lemma cw_atomic_next l1 k e l2 : cw_atomic (l1 ++ WReq k :: e :: l2) = true -> e = WEnd k.
Proof. apply cw_run_next. Qed.

Lemma cw_run_prev l1 : forall o k l2, cw_run o (l1 ++ WEnd k :: l2) = true ->
  (l1 = [] /\ o = Some k) \/ exists l0, l1 = l0 ++ [WReq k].
Proof.
  induction l1 as [|x t IH]; intros o k l2 H.
  - left. cbn [app cw_run] in H. destruct o as [j|]; [|discriminate].
    apply andb_true_iff in H. destruct H as [H _]. apply Nat.eqb_eq in H. subst j. split; reflexivity.
  - right. cbn [app cw_run] in H. destruct x as [j|j]; destruct o as [j0|]; try discriminate.
    + destruct (IH _ _ _ H) as [[-> Ho]|[l0 ->]].
      * inversion Ho. subst j. exists []. reflexivity.
      * exists (WReq j :: l0). reflexivity.
    + apply andb_true_iff in H. destruct H as [_ H].
      destruct (IH _ _ _ H) as [[_ Ho]|[l0 ->]]; [discriminate|].
      exists (WEnd j :: l0). reflexivity.
Qed.

Lemma cw_atomic_prev l1 k l2 : cw_atomic (l1 ++ WEnd k :: l2) = true -> exists l0, l1 = l0 ++ [WReq k].
Proof.
  intros H. destruct (cw_run_prev _ _ _ _ H) as [[_ Ho]|Hx]; [discriminate|exact Hx].
Qed.
