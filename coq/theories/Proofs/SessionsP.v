(* Proofs for property C11 (Model/Sessions.v): a server with many concurrent
   sessions, one private session state per connection, one shared handler.
   - the reader on a growing buffer (read_mbap on a prefix);
   - server_process uses the handler at most once (simulation lemma);
   - the request loop of one session: fuel, chunking (drain_app), relation to
     the single-connection model server_session (drain_session);
   - simulations: pure handler, and the shared handler as an oracle;
   - the global run projected on one connection. *)
From Modbus Require Import Base.Bytes Model.Encoding Model.Wire Model.Server
  Spec.ModbusSpec Spec.ServerSpec Spec.ServerSessionSpec Model.Sessions Spec.SessionsSpec
  Proofs.MbapServerP Proofs.ServerP.
From Coq Require Import ZifyBool ZifyNat ZifyN.
Ltac Zify.zify_post_hook ::= Z.div_mod_to_equations.

(* ------------------------------------------------------------ the reader *)

(* how the stream ends only matters when bytes are missing *)
Lemma read_mbap_any_end e s :
  read_mbap e s =
  match read_mbap Stall s with
  | (FErr x, r) => if gs_is_wait x then (FErr (short_err e), []) else (FErr x, r)
  | ok => ok
  end.
Proof.
  unfold read_mbap, read_full.
  destruct s as [|t1 [|t0 [|p1 [|p0 [|l1 [|l0 [|u s]]]]]]];
    cbn [length Nat.leb firstn skipn short_err gs_is_wait]; try reflexivity.
  destruct (260 <? l1 * 256 + l0 - 1 + 7); [reflexivity|].
  destruct (l1 * 256 + l0 <=? 1); [reflexivity|].
  destruct (Nat.leb (N.to_nat (l1 * 256 + l0 - 1)) (length s)); [|reflexivity].
  destruct (negb (p1 * 256 + p0 =? 0)); [reflexivity|].
  destruct (firstn (N.to_nat (l1 * 256 + l0 - 1)) s); reflexivity.
Qed.

Lemma read_mbap_app a b r rest :
  read_mbap Stall a = (r, rest) -> (forall x, r = FErr x -> gs_is_wait x = false) ->
  read_mbap Stall (a ++ b) = (r, rest ++ b).
Proof.
  unfold read_mbap, read_full.
  destruct a as [|t1 [|t0 [|p1 [|p0 [|l1 [|l0 [|u s]]]]]]];
    cbn [length Nat.leb firstn skipn short_err app];
    try (intros H Hw; injection H as <- <-; specialize (Hw _ eq_refl); discriminate Hw).
  destruct (260 <? l1 * 256 + l0 - 1 + 7); [intros H _; injection H as <- <-; reflexivity|].
  destruct (l1 * 256 + l0 <=? 1); [intros H _; injection H as <- <-; reflexivity|].
  remember (N.to_nat (l1 * 256 + l0 - 1)) as n eqn:Hn.
  destruct (Nat.leb n (length s)) eqn:E3.
  2:{ intros H Hw; injection H as <- <-; specialize (Hw _ eq_refl); discriminate Hw. }
  apply Nat.leb_le in E3.
  replace (Nat.leb n (length (s ++ b))) with true
    by (symmetry; apply Nat.leb_le; rewrite app_length; lia).
  rewrite firstn_app, skipn_app. replace (n - length s)%nat with 0%nat by lia.
  cbn [firstn skipn]. rewrite app_nil_r.
  destruct (negb (p1 * 256 + p0 =? 0)); [intros H _; injection H as <- <-; reflexivity|].
  destruct (firstn n s); intros H _; injection H as <- <-; reflexivity.
Qed.

(* ------------------------------------------------------------ server_process and its handler *)

Ltac proc_split h :=
  repeat match goal with
  | |- context [if ?c then _ else _] => destruct c eqn:?
  | |- context [h ?s ?r] => destruct (h s r) as [? ?] eqn:?
  | |- context [match norm_herr ?e with _ => _ end] => destruct (norm_herr e) eqn:?
  | |- context [match decode_bools ?a ?b with _ => _ end] => destruct (decode_bools a b) eqn:?
  | |- context [match bytes_to_u16s ?a ?b with _ => _ end] => destruct (bytes_to_u16s a b) eqn:?
  end.

(* unit ids: the response and the handler request carry the unit id of the request *)
Lemma server_process_unit {St} (h : handler St) st p :
  let '(_, calls, act) := server_process h st p in
  (forall r, In r calls -> h_unit r = p_unit p) /\
  match act with Respond res => p_unit res = p_unit p | CloseLink => True end.
Proof.
  unfold server_process. proc_split h; cbn [exception_pdu p_unit In]; split; try exact I; try reflexivity;
    try (intros r [<-|[]]; reflexivity); try (intros r []).
Qed.

(* server_process uses the handler at most once, on a request and in a state
   that do not depend on the handler; a second handler that gives the same
   answer to that call leads to the same calls and the same action *)
Section Sim.
Context {S1 S2 : Type} (h1 : handler S1) (h2 : handler S2).
Lemma server_process_sim s1 s2 p :
  let '(s1', calls, act) := server_process h1 s1 p in
  match calls with
  | [] => s1' = s1 /\ server_process h2 s2 p = (s2, [], act)
  | [r] => s1' = fst (h1 s1 r) /\
           (snd (h2 s2 r) = snd (h1 s1 r) -> server_process h2 s2 p = (fst (h2 s2 r), [r], act))
  | _ => False
  end.
Proof.
  unfold server_process.
  repeat match goal with
  | |- context [if ?c then _ else _] => destruct c eqn:?
  | |- context [match decode_bools ?a ?b with _ => _ end] => destruct (decode_bools a b) eqn:?
  | |- context [match bytes_to_u16s ?a ?b with _ => _ end] => destruct (bytes_to_u16s a b) eqn:?
  end; try discriminate; try (split; reflexivity).
  all: match goal with |- context [h1 ?s ?r] => destruct (h1 s r) as [x1 r1] eqn:E1; destruct (h2 s2 r) as [x2 r2] eqn:E2 end.
  all: cbv beta iota; cbn [fst snd].
  all: destruct (norm_herr (r_err r1)) eqn:En.
  all: try match goal with |- context [if negb ?c then _ else _] => destruct (negb c) eqn:Hc end.
  all: rewrite ?E1, ?E2; cbn [fst snd].
  all: (split; [reflexivity|]); intros Heq; subst r2; rewrite En; try rewrite Hc; reflexivity.
Qed.
End Sim.

(* ------------------------------------------------------------ the request loop of one session *)

Definition waitingb (buf : list N) : bool :=
  match read_mbap Stall buf with
  | (FErr x, _) => gs_is_wait x
  | _ => false
  end.

Section Drain.
  Context {St : Type} (gh : ghandler St) (a ro : N).

  Lemma drain_fuel f1 : forall f2 st buf, (length buf < f1)%nat -> (length buf < f2)%nat ->
    sess_drain gh f1 a ro st buf = sess_drain gh f2 a ro st buf.
  Proof.
    induction f1 as [|f1 IH]; intros f2 st buf H1 H2; [lia|]. destruct f2 as [|f2]; [lia|].
    cbn [sess_drain]. destruct (read_mbap Stall buf) as [[p t|x] rest] eqn:Er; [|reflexivity].
    apply read_mbap_consumes in Er.
    destruct (server_process (conn_handler gh a ro) st p) as [[st' calls] act].
    destruct act as [r|]; [|reflexivity]. rewrite (IH f2) by lia. reflexivity.
  Qed.

  Lemma drain_waiting f st buf : waitingb buf = true -> sess_drain gh f a ro st buf = (st, [], buf, false).
  Proof.
    unfold waitingb. destruct f as [|f]; [reflexivity|]. cbn [sess_drain].
    destruct (read_mbap Stall buf) as [[p t|x] rest]; [discriminate|]. intros ->. reflexivity.
  Qed.

  Lemma drain_result f : forall st buf, (length buf < f)%nat ->
    let '(_, _, b, cl) := sess_drain gh f a ro st buf in
    if cl then b = [] else waitingb b = true.
  Proof.
    induction f as [|f IH]; intros st buf Hf; [lia|]. cbn [sess_drain].
    destruct (read_mbap Stall buf) as [[p t|x] rest] eqn:Er.
    - apply read_mbap_consumes in Er as Hc.
      destruct (server_process (conn_handler gh a ro) st p) as [[st' calls] act].
      destruct act as [r|]; [|reflexivity].
      specialize (IH st' rest). destruct (sess_drain gh f a ro st' rest) as [[[st2 evs] b] cl].
      apply IH. lia.
    - destruct (gs_is_wait x) eqn:Ew; [|reflexivity]. unfold waitingb. rewrite Er. exact Ew.
  Qed.

  (* the request loop with enough fuel for the bytes at hand *)
  Definition drain_all (st : St) (buf : list N) := sess_drain gh (S (length buf)) a ro st buf.

  (* feeding a prefix first and the rest later is feeding everything at once *)
  Lemma drain_app f : forall st buf more, (length buf < f)%nat ->
    let '(st1, ev1, b1, cl1) := sess_drain gh f a ro st buf in
    drain_all st (buf ++ more) =
    if cl1 then (st1, ev1, [], true)
    else let '(st2, ev2, b2, cl2) := drain_all st1 (b1 ++ more) in
         (st2, ev1 ++ ev2, b2, cl2).
  Proof.
    induction f as [|f IH]; intros st buf more Hf; [lia|].
    cbn [sess_drain]. destruct (read_mbap Stall buf) as [[p t|x] rest] eqn:Er.
    - apply read_mbap_consumes in Er as Hc.
      unfold drain_all at 1. cbn [sess_drain].
      rewrite (read_mbap_app _ more _ _ Er) by (intros x Hx; discriminate Hx).
      destruct (server_process (conn_handler gh a ro) st p) as [[st' calls] act].
      destruct act as [r|]; [|reflexivity].
      specialize (IH st' rest more).
      rewrite (drain_fuel (length (buf ++ more)) (S (length (rest ++ more)))) by (rewrite !app_length; lia).
      destruct (sess_drain gh f a ro st' rest) as [[[st1 ev1] b1] cl1].
      unfold drain_all at 1 in IH.
      rewrite IH by lia. destruct cl1; [reflexivity|].
      destruct (drain_all st1 (b1 ++ more)) as [[[st2 ev2] b2] cl2].
      rewrite <- app_assoc. reflexivity.
    - destruct (gs_is_wait x) eqn:Ew.
      + destruct (drain_all st (buf ++ more)) as [[[st2 ev2] b2] cl2].
        reflexivity.
      + unfold drain_all. cbn [sess_drain].
        rewrite (read_mbap_app _ more _ _ Er) by (intros y Hy; injection Hy as <-; exact Ew).
        rewrite Ew. reflexivity.
  Qed.

  Lemma strip_calls (g : hreq -> hres) calls :
    map gev_strip (map (fun r => GEvCall (mkgreq a ro r) (g r)) calls) = map EvCall calls.
  Proof. rewrite map_map. apply map_ext. intros r. reflexivity. Qed.

  (* the session loop of the single-connection model on the same bytes *)
  Lemma drain_session f : forall st buf e,
    server_session (conn_handler gh a ro) f st e buf =
    let '(_, evs, _, cl) := sess_drain gh f a ro st buf in map gev_strip evs ++ close_tail cl.
  Proof.
    induction f as [|f IH]; intros st buf e; [reflexivity|].
    cbn [sess_drain server_session]. rewrite read_mbap_any_end.
    destruct (read_mbap Stall buf) as [[p t|x] rest] eqn:Er.
    - destruct (server_process (conn_handler gh a ro) st p) as [[st' calls] act].
      destruct act as [r|].
      + rewrite IH. destruct (sess_drain gh f a ro st' rest) as [[[st2 evs] b] cl].
        rewrite map_app, strip_calls. cbn [map gev_strip]. rewrite <- app_assoc. reflexivity.
      + rewrite map_app, strip_calls. cbn [map gev_strip close_tail]. rewrite app_nil_r. reflexivity.
    - destruct (gs_is_wait x); reflexivity.
  Qed.

  Lemma drain_calls_from f : forall st buf,
    let '(_, evs, _, _) := sess_drain gh f a ro st buf in calls_from a ro evs.
  Proof.
    induction f as [|f IH]; intros st buf; cbn [sess_drain]; [intros r ans []|].
    destruct (read_mbap Stall buf) as [[p t|x] rest] eqn:Er.
    - destruct (server_process (conn_handler gh a ro) st p) as [[st' calls] act].
      assert (Hc : calls_from a ro (map (fun r => GEvCall (mkgreq a ro r) (snd (gh st (mkgreq a ro r)))) calls)).
      { intros r ans Hin. apply in_map_iff in Hin. destruct Hin as (r' & Heq & _). injection Heq as <- _.
        split; reflexivity. }
      destruct act as [r|].
      + specialize (IH st' rest). destruct (sess_drain gh f a ro st' rest) as [[[st2 evs] b] cl].
        intros r' ans Hin. apply in_app_or in Hin. destruct Hin as [Hin|[Hin|Hin]];
          [exact (Hc _ _ Hin)|discriminate|exact (IH _ _ Hin)].
      + intros r' ans Hin. apply in_app_or in Hin. destruct Hin as [Hin|[Hin|[]]];
          [exact (Hc _ _ Hin)|discriminate].
    - destruct (gs_is_wait x); [intros r ans []|intros r ans [Hin|[]]; discriminate].
  Qed.
End Drain.

Lemma gsess_eta s : mkgsess (gs_buf s) (gs_addr s) (gs_role s) (gs_closed s) = s.
Proof. destruct s; reflexivity. Qed.

Section Feeds.
  Context {St : Type} (gh : ghandler St).

  Lemma feeds_closed xs : forall st s, gs_closed s = true -> sess_feeds gh st s xs = (st, s, []).
  Proof.
    induction xs as [|x t IH]; intros st s Hc; [reflexivity|].
    cbn [sess_feeds]. unfold sess_feed. rewrite Hc. rewrite IH by exact Hc. reflexivity.
  Qed.

  Lemma feed_keeps_identity st s x :
    let '(_, s', _) := sess_feed gh st s x in gs_addr s' = gs_addr s /\ gs_role s' = gs_role s.
  Proof.
    unfold sess_feed. destruct (gs_closed s); [split; reflexivity|].
    destruct x as [chunk|]; [|split; reflexivity].
    destruct (sess_drain gh _ _ _ st _) as [[[st' evs] b] cl]. split; reflexivity.
  Qed.

  (* chunking independence of one session: the chunks only matter through
     their concatenation (and whether the stream ended) *)
  Lemma feeds_whole xs : forall st s, gs_closed s = false -> waitingb (gs_buf s) = true ->
    sess_feeds gh st s xs =
    let '(st', evs, b, cl) := drain_all gh (gs_addr s) (gs_role s) st (gs_buf s ++ gin_stream xs) in
    if cl then (st', mkgsess b (gs_addr s) (gs_role s) true, evs)
    else if gin_ended xs then (st', mkgsess [] (gs_addr s) (gs_role s) true, evs ++ [GEvClosed])
    else (st', mkgsess b (gs_addr s) (gs_role s) false, evs).
  Proof.
    induction xs as [|x t IH]; intros st s Hc Hw.
    - cbn [sess_feeds gin_stream gin_ended]. rewrite app_nil_r. unfold drain_all.
      rewrite drain_waiting by exact Hw. rewrite <- Hc, gsess_eta. reflexivity.
    - cbn [sess_feeds]. destruct x as [chunk|].
      + unfold sess_feed. rewrite Hc. cbn [gin_stream gin_ended].
        pose proof (drain_app gh (gs_addr s) (gs_role s) (S (length (gs_buf s ++ chunk))) st
                      (gs_buf s ++ chunk) (gin_stream t) (Nat.lt_succ_diag_r _)) as HA.
        pose proof (drain_result gh (gs_addr s) (gs_role s) (S (length (gs_buf s ++ chunk))) st
                      (gs_buf s ++ chunk) (Nat.lt_succ_diag_r _)) as HR.
        destruct (sess_drain gh (S (length (gs_buf s ++ chunk))) (gs_addr s) (gs_role s) st (gs_buf s ++ chunk))
          as [[[st1 ev1] b1] cl1].
        rewrite <- app_assoc in HA. rewrite HA. destruct cl1.
        * subst b1. rewrite feeds_closed by reflexivity. rewrite app_nil_r. reflexivity.
        * rewrite IH by (try reflexivity; exact HR). cbn [gs_buf gs_addr gs_role].
          destruct (drain_all gh (gs_addr s) (gs_role s) st1 (b1 ++ gin_stream t)) as [[[st2 ev2] b2] cl2].
          destruct cl2; [reflexivity|]. destruct (gin_ended t); [|reflexivity].
          rewrite app_assoc. reflexivity.
      + unfold sess_feed. rewrite Hc. rewrite feeds_closed by reflexivity.
        cbn [gin_stream gin_ended]. rewrite !app_nil_r. unfold drain_all.
        rewrite drain_waiting by exact Hw. reflexivity.
  Qed.

  Lemma feeds_fresh_whole xs st a ro :
    sess_feeds gh st (gs_fresh a ro) xs = sess_whole gh st a ro (gin_stream xs) (gin_ended xs).
  Proof.
    rewrite feeds_whole by reflexivity. reflexivity.
  Qed.
End Feeds.

(* ------------------------------------------------------------ simulations *)

Lemma gev_answers_app x y : gev_answers (x ++ y) = gev_answers x ++ gev_answers y.
Proof.
  induction x as [|e x IH]; [reflexivity|]. destruct e; cbn [app gev_answers]; rewrite IH; reflexivity.
Qed.

Lemma gev_answers_calls a ro (g : hreq -> hres) calls :
  gev_answers (map (fun r => GEvCall (mkgreq a ro r) (g r)) calls) = map g calls.
Proof. induction calls as [|r t IH]; [reflexivity|]. cbn [map gev_answers]. rewrite IH. reflexivity. Qed.

Lemma oracle_fst a ro x l r : fst (conn_handler gh_oracle a ro (x :: l) r) = l.
Proof. reflexivity. Qed.

Lemma oracle_snd x l q : snd (gh_oracle (x :: l) q) = x.
Proof. reflexivity. Qed.

Section Simulation.
  Context {St : Type} (gh : ghandler St).

  (* a handler whose answers do not depend on its state: the session is the
     one of the pure handler, whatever the shared state is *)
  Lemma drain_sim_pure (f : greq -> hres) (Hp : forall st r, snd (gh st r) = f r) a ro fuel :
    forall st buf,
    sess_drain (gh_pure f) fuel a ro tt buf =
    let '(_, evs, b, cl) := sess_drain gh fuel a ro st buf in (tt, evs, b, cl).
  Proof.
    induction fuel as [|fuel IH]; intros st buf; [reflexivity|]. cbn [sess_drain].
    destruct (read_mbap Stall buf) as [[p t|x] rest] eqn:Er; [|destruct (gs_is_wait x); reflexivity].
    pose proof (server_process_sim (conn_handler gh a ro) (conn_handler (gh_pure f) a ro) st tt p) as HS.
    destruct (server_process (conn_handler gh a ro) st p) as [[st' calls] act].
    destruct calls as [|r [|r2 calls]]; [| |contradiction].
    - destruct HS as [-> HS]. rewrite HS. cbn [map app]. destruct act as [res|]; [|reflexivity].
      rewrite (IH st rest). destruct (sess_drain gh fuel a ro st rest) as [[[st2 evs] b] cl]. reflexivity.
    - destruct HS as [-> HS]. rewrite HS by (unfold conn_handler, gh_pure; cbn [snd]; symmetry; apply Hp).
      change (fst (conn_handler (gh_pure f) a ro tt r)) with tt.
      cbn [map app]. change (snd (gh_pure f tt (mkgreq a ro r))) with (f (mkgreq a ro r)). rewrite Hp.
      destruct act as [res|]; [|reflexivity].
      rewrite (IH (fst (conn_handler gh a ro st r)) rest).
      destruct (sess_drain gh fuel a ro (fst (conn_handler gh a ro st r)) rest) as [[[st2 evs] b] cl]. reflexivity.
  Qed.

  (* the shared handler seen as an oracle: replaying the answers it gave to
     this session reproduces the session *)
  Lemma drain_sim_oracle a ro fuel : forall st buf extra,
    let '(_, evs, b, cl) := sess_drain gh fuel a ro st buf in
    sess_drain gh_oracle fuel a ro (gev_answers evs ++ extra) buf = (extra, evs, b, cl).
  Proof.
    induction fuel as [|fuel IH]; intros st buf extra; [reflexivity|]. cbn [sess_drain].
    destruct (read_mbap Stall buf) as [[p t|x] rest] eqn:Er; [|destruct (gs_is_wait x); reflexivity].
    destruct (server_process (conn_handler gh a ro) st p) as [[st' calls] act] eqn:EP.
    destruct act as [res|].
    - specialize (IH st' rest extra).
      destruct (sess_drain gh fuel a ro st' rest) as [[[st2 evs] b] cl].
      rewrite gev_answers_app, gev_answers_calls. cbn [gev_answers]. rewrite <- app_assoc.
      pose proof (server_process_sim (conn_handler gh a ro) (conn_handler gh_oracle a ro) st
                    (map (fun r => snd (gh st (mkgreq a ro r))) calls ++ gev_answers evs ++ extra) p) as HS.
      rewrite EP in HS. destruct calls as [|r [|r2 calls]]; [| |contradiction].
      + destruct HS as [_ HS]. cbn [map app] in *. rewrite HS. rewrite IH. reflexivity.
      + destruct HS as [_ HS]. cbn [map app] in *. rewrite HS by reflexivity.
        cbn [map app]. rewrite oracle_fst, oracle_snd, IH. reflexivity.
    - rewrite gev_answers_app, gev_answers_calls. cbn [gev_answers]. rewrite app_nil_r.
      pose proof (server_process_sim (conn_handler gh a ro) (conn_handler gh_oracle a ro) st
                    (map (fun r => snd (gh st (mkgreq a ro r))) calls ++ extra) p) as HS.
      rewrite EP in HS. destruct calls as [|r [|r2 calls]]; [| |contradiction].
      + destruct HS as [_ HS]. cbn [map app] in *. rewrite HS. reflexivity.
      + destruct HS as [_ HS]. cbn [map app] in *. rewrite HS by reflexivity.
        cbn [map app]. rewrite oracle_fst, oracle_snd. reflexivity.
  Qed.

  Lemma feed_sim_pure (f : greq -> hres) (Hp : forall st r, snd (gh st r) = f r) st s x :
    sess_feed (gh_pure f) tt s x = let '(_, s', evs) := sess_feed gh st s x in (tt, s', evs).
  Proof.
    unfold sess_feed. destruct (gs_closed s); [reflexivity|]. destruct x as [chunk|]; [|reflexivity].
    rewrite (drain_sim_pure f Hp _ _ _ st).
    destruct (sess_drain gh _ _ _ st _) as [[[st' evs] b] cl]. reflexivity.
  Qed.

  Lemma feed_sim_oracle st s x extra :
    let '(_, s', evs) := sess_feed gh st s x in
    sess_feed gh_oracle (gev_answers evs ++ extra) s x = (extra, s', evs).
  Proof.
    unfold sess_feed. destruct (gs_closed s); [reflexivity|]. destruct x as [chunk|]; [|reflexivity].
    pose proof (drain_sim_oracle (gs_addr s) (gs_role s) (S (length (gs_buf s ++ chunk))) st (gs_buf s ++ chunk) extra) as H.
    destruct (sess_drain gh _ _ _ st _) as [[[st' evs] b] cl]. rewrite H. reflexivity.
  Qed.
End Simulation.

(* ------------------------------------------------------------ the session map *)

Lemma gs_lookup_update_same c v l s :
  gs_lookup c l = Some s -> gs_lookup c (gs_update c v l) = Some v.
Proof.
  induction l as [|[k x] t IH]; cbn [gs_lookup gs_update]; [discriminate|].
  destruct (k =? c) eqn:E; cbn [gs_lookup]; rewrite E; [reflexivity|exact IH].
Qed.

Lemma gs_lookup_update_other c c' v l :
  c' <> c -> gs_lookup c' (gs_update c v l) = gs_lookup c' l.
Proof.
  intros Hne. induction l as [|[k x] t IH]; cbn [gs_lookup gs_update]; [reflexivity|].
  destruct (k =? c) eqn:E; cbn [gs_lookup].
  - apply N.eqb_eq in E. subst k. replace (c =? c') with false by (symmetry; apply N.eqb_neq; congruence).
    reflexivity.
  - destruct (k =? c'); [reflexivity|exact IH].
Qed.

Lemma gproj_app {A} c (x y : list (N * A)) : gproj c (x ++ y) = gproj c x ++ gproj c y.
Proof.
  induction x as [|[k e] x IH]; [reflexivity|]. cbn [app gproj].
  destruct (k =? c); rewrite IH; reflexivity.
Qed.

Lemma gproj_same {A} c (l : list A) : gproj c (map (fun e => (c, e)) l) = l.
Proof.
  induction l as [|e l IH]; [reflexivity|]. cbn [map gproj]. rewrite N.eqb_refl, IH. reflexivity.
Qed.

Lemma gproj_other {A} c c' (l : list A) : c' <> c -> gproj c' (map (fun e => (c, e)) l) = [].
Proof.
  intros Hne. induction l as [|e l IH]; [reflexivity|]. cbn [map gproj].
  replace (c =? c') with false by (symmetry; apply N.eqb_neq; congruence). exact IH.
Qed.

Lemma ginit_lookup {St} (st : St) conns c a ro :
  gs_lookup c (g_sessions (ginit st conns)) = Some (gs_fresh a ro) <->
  (exists pre post, conns = pre ++ (c, (a, ro)) :: post /\ ~ In c (map fst pre)).
Proof.
  unfold ginit. cbn [g_sessions]. induction conns as [|[k [a' ro']] t IH]; cbn [map gs_lookup fst snd].
  - split; [discriminate|]. intros (pre & post & H & _). destruct pre; discriminate.
  - destruct (k =? c) eqn:E.
    + apply N.eqb_eq in E. subst k. split.
      * intros H. injection H as <- <-. exists [], t. split; [reflexivity|intros []].
      * intros (pre & post & H & Hn). destruct pre as [|[k2 v2] pre].
        -- injection H as <- <- _. reflexivity.
        -- injection H as <- _ _. exfalso. apply Hn. left. reflexivity.
    + apply N.eqb_neq in E. rewrite IH. split.
      * intros (pre & post & -> & Hn). exists ((k, (a', ro')) :: pre), post. split; [reflexivity|].
        intros [H|H]; [exact (E H)|exact (Hn H)].
      * intros (pre & post & H & Hn). destruct pre as [|[k2 v2] pre].
        -- injection H as -> _ _. congruence.
        -- injection H as _ _ ->. exists pre, post. split; [reflexivity|].
           intros Hin. apply Hn. right. exact Hin.
Qed.

(* ------------------------------------------------------------ global steps *)

Section Global.
  Context {St : Type} (gh : ghandler St).

  (* T1: whatever a step for connection c produces is addressed to c *)
  Lemma gstep_tagged g c x : Forall (fun o => fst o = c) (snd (gstep gh g (c, x))).
  Proof.
    unfold gstep. cbn [fst snd]. destruct (gs_lookup c (g_sessions g)) as [s|]; [|constructor].
    destruct (sess_feed gh (g_shared g) s x) as [[st' s'] evs]. cbn [snd].
    apply Forall_forall. intros o Hin. apply in_map_iff in Hin. destruct Hin as (e & <- & _). reflexivity.
  Qed.

  (* T3: a step for connection c leaves every other session untouched *)
  Lemma gstep_other_unchanged g c x c' : c' <> c ->
    gs_lookup c' (g_sessions (fst (gstep gh g (c, x)))) = gs_lookup c' (g_sessions g).
  Proof.
    intros Hne. unfold gstep. cbn [fst snd]. destruct (gs_lookup c (g_sessions g)) as [s|]; [|reflexivity].
    destruct (sess_feed gh (g_shared g) s x) as [[st' s'] evs]. cbn [fst g_sessions].
    apply gs_lookup_update_other. exact Hne.
  Qed.

  (* one global step seen from connection c *)
  Lemma gstep_view g k x c s : gs_lookup c (g_sessions g) = Some s ->
    let '(g1, o1) := gstep gh g (k, x) in
    if k =? c
    then let '(st1, s1, e1) := sess_feed gh (g_shared g) s x in
         g_shared g1 = st1 /\ gs_lookup c (g_sessions g1) = Some s1 /\ gproj c o1 = e1
    else gs_lookup c (g_sessions g1) = Some s /\ gproj c o1 = [].
  Proof.
    intros Hl. destruct (k =? c) eqn:Ek.
    - apply N.eqb_eq in Ek. subst k. unfold gstep. cbn [fst snd]. rewrite Hl.
      destruct (sess_feed gh (g_shared g) s x) as [[st1 s1] e1]. cbn [g_shared g_sessions].
      split; [reflexivity|split; [exact (gs_lookup_update_same _ _ _ _ Hl)|apply gproj_same]].
    - apply N.eqb_neq in Ek. unfold gstep. cbn [fst snd].
      destruct (gs_lookup k (g_sessions g)) as [sk|]; [|split; [exact Hl|reflexivity]].
      destruct (sess_feed gh (g_shared g) sk x) as [[st1 s1] e1]. cbn [g_sessions].
      split; [rewrite gs_lookup_update_other by congruence; exact Hl|apply gproj_other; congruence].
  Qed.

  (* T2, pure handler: the outputs of connection c in ANY global run are the
     private session of c alone *)
  Lemma grun_proj_pure (f : greq -> hres) (Hp : forall st r, snd (gh st r) = f r) c :
    forall ins g s g' outs, gs_lookup c (g_sessions g) = Some s -> grun gh g ins = (g', outs) ->
    exists s', gs_lookup c (g_sessions g') = Some s' /\
               sess_feeds (gh_pure f) tt s (gproj c ins) = (tt, s', gproj c outs).
  Proof.
    induction ins as [|[k x] t IH]; intros g s g' outs Hl Hr.
    - cbn [grun] in Hr. injection Hr as <- <-. exists s. split; [exact Hl|reflexivity].
    - cbn [grun] in Hr. pose proof (gstep_view g k x c s Hl) as HV.
      destruct (gstep gh g (k, x)) as [g1 o1]. destruct (grun gh g1 t) as [g2 o2] eqn:E2.
      injection Hr as <- <-. cbn [gproj]. rewrite gproj_app. destruct (k =? c).
      + pose proof (feed_sim_pure gh f Hp (g_shared g) s x) as HF.
        destruct (sess_feed gh (g_shared g) s x) as [[st1 s1] e1]. destruct HV as (_ & Hl1 & ->).
        destruct (IH g1 s1 g2 o2 Hl1 E2) as (s' & Hl2 & Hf). exists s'. split; [exact Hl2|].
        cbn [sess_feeds]. rewrite HF, Hf. reflexivity.
      + destruct HV as (Hl1 & ->). exact (IH g1 s g2 o2 Hl1 E2).
  Qed.

  (* T2, any handler: the same with the handler's recorded answers replayed *)
  Lemma grun_proj_oracle c :
    forall ins g s g' outs, gs_lookup c (g_sessions g) = Some s -> grun gh g ins = (g', outs) ->
    forall extra, exists s', gs_lookup c (g_sessions g') = Some s' /\
      sess_feeds gh_oracle (gev_answers (gproj c outs) ++ extra) s (gproj c ins) = (extra, s', gproj c outs).
  Proof.
    induction ins as [|[k x] t IH]; intros g s g' outs Hl Hr extra.
    - cbn [grun] in Hr. injection Hr as <- <-. exists s. split; [exact Hl|reflexivity].
    - cbn [grun] in Hr. pose proof (gstep_view g k x c s Hl) as HV.
      destruct (gstep gh g (k, x)) as [g1 o1]. destruct (grun gh g1 t) as [g2 o2] eqn:E2.
      injection Hr as <- <-. cbn [gproj]. rewrite gproj_app. destruct (k =? c).
      + pose proof (feed_sim_oracle gh (g_shared g) s x (gev_answers (gproj c o2) ++ extra)) as HF.
        destruct (sess_feed gh (g_shared g) s x) as [[st1 s1] e1]. destruct HV as (_ & Hl1 & ->).
        destruct (IH g1 s1 g2 o2 Hl1 E2 extra) as (s' & Hl2 & Hf). exists s'. split; [exact Hl2|].
        cbn [sess_feeds]. rewrite gev_answers_app, <- app_assoc, HF, Hf. reflexivity.
      + destruct HV as (Hl1 & ->). exact (IH g1 s g2 o2 Hl1 E2 extra).
  Qed.

  (* every output of a run belongs to a connection that received input *)
  Lemma grun_tagged : forall ins g k e, In (k, e) (snd (grun gh g ins)) -> In k (map fst ins).
  Proof.
    induction ins as [|[c x] t IH]; intros g k e Hin; cbn [grun] in Hin; [destruct Hin|].
    pose proof (gstep_tagged g c x) as HT.
    destruct (gstep gh g (c, x)) as [g1 o1]. specialize (IH g1 k e).
    destruct (grun gh g1 t) as [g2 o2]. cbn [snd] in *.
    apply in_app_or in Hin. destruct Hin as [Hin|Hin].
    - left. rewrite Forall_forall in HT. symmetry. exact (HT _ Hin).
    - right. exact (IH Hin).
  Qed.
End Global.

(* ------------------------------------------------------------ whole sessions *)

Lemma whole_session {St} (gh : ghandler St) st a ro stream ended e st' s' evs :
  sess_whole gh st a ro stream ended = (st', s', evs) ->
  map gev_strip evs ++ close_tail (gs_closed s') = server_run (conn_handler gh a ro) st e stream.
Proof.
  unfold sess_whole, server_run. rewrite (drain_session gh a ro).
  destruct (sess_drain gh (S (length stream)) a ro st stream) as [[[st1 ev1] b1] cl1].
  destruct cl1; [|destruct ended]; intros H; injection H as <- <- <-; cbn [gs_closed close_tail].
  - reflexivity.
  - rewrite map_app, app_nil_r. reflexivity.
  - reflexivity.
Qed.

Lemma whole_calls_from {St} (gh : ghandler St) st a ro stream ended st' s' evs :
  sess_whole gh st a ro stream ended = (st', s', evs) -> calls_from a ro evs.
Proof.
  unfold sess_whole. pose proof (drain_calls_from gh a ro (S (length stream)) st stream) as HC.
  destruct (sess_drain gh (S (length stream)) a ro st stream) as [[[st1 ev1] b1] cl1].
  destruct cl1; [|destruct ended]; intros H; injection H as <- <- <-; try exact HC.
  intros r ans Hin. apply in_app_or in Hin. destruct Hin as [Hin|[Hin|[]]]; [exact (HC _ _ Hin)|discriminate].
Qed.

Lemma whole_identity {St} (gh : ghandler St) st a ro stream ended st' s' evs :
  sess_whole gh st a ro stream ended = (st', s', evs) -> gs_addr s' = a /\ gs_role s' = ro.
Proof.
  unfold sess_whole.
  destruct (sess_drain gh (S (length stream)) a ro st stream) as [[[st1 ev1] b1] cl1].
  destruct cl1; [|destruct ended]; intros H; injection H as <- <- <-; split; reflexivity.
Qed.

(* ------------------------------------------------------------ answers_ok *)

Lemma answers_ok_prefix x : forall fs y, answers_ok fs (x ++ y) -> answers_ok fs x.
Proof.
  induction x as [|e x IH]; intros fs y H; [apply ao_quiet|].
  cbn [app] in H. inversion H; subst.
  - destruct x; [apply ao_closed|discriminate].
  - apply ao_call; [assumption|]. eapply IH. eassumption.
  - apply ao_resp; [assumption|]. eapply IH. eassumption.
  - apply ao_beyond.
Qed.

Lemma spec_mbap_carries t r : resp_carries t (p_unit r) (spec_mbap t r).
Proof.
  unfold resp_carries, spec_mbap. unfold be16 at 2. cbn [app].
  eexists _, _, (p_fc r :: p_payload r). reflexivity.
Qed.

Lemma spec_session_answers_ok {St} (h : handler St) frames : forall st k,
  answers_ok frames (spec_session h st frames k).
Proof.
  induction frames as [|[t p] fs IH]; intros st k; [apply ao_beyond|].
  cbn [spec_session]. pose proof (server_process_unit h st p) as HU.
  destruct (server_process h st p) as [[st' calls] act]. destruct HU as [Hc Ha].
  assert (HC : forall evs, answers_ok ((t, p) :: fs) evs -> answers_ok ((t, p) :: fs) (map EvCall calls ++ evs)).
  { clear Ha. induction calls as [|r calls IHc]; intros evs Hev; [exact Hev|].
    cbn [map app]. apply ao_call; [apply Hc; left; reflexivity|].
    apply IHc; [|exact Hev]. intros r' Hin. apply Hc. right. exact Hin. }
  apply HC. destruct act as [r|]; [|apply ao_closed].
  apply ao_resp; [|apply IH]. rewrite <- Ha. apply spec_mbap_carries.
Qed.

(* ------------------------------------------------------------ main results *)

Section Results.
  Context {St : Type} (gh : ghandler St).

  (* T2 (oracle form): the observations of connection c in any global run are
     the single-connection session on c's own bytes, the shared handler being
     replaced by the list of answers it gave to c *)
  Lemma sessions_projection_oracle c a ro ins g g' outs e :
    gs_lookup c (g_sessions g) = Some (gs_fresh a ro) -> grun gh g ins = (g', outs) ->
    exists s', gs_lookup c (g_sessions g') = Some s' /\ gs_addr s' = a /\ gs_role s' = ro /\
      map gev_strip (gproj c outs) ++ close_tail (gs_closed s') =
      server_run oracle_handler (gev_answers (gproj c outs)) e (gin_stream (gproj c ins)).
  Proof.
    intros Hl Hr. destruct (grun_proj_oracle gh c ins g _ g' outs Hl Hr []) as (s' & Hl' & Hf).
    rewrite app_nil_r, feeds_fresh_whole in Hf.
    exists s'. split; [exact Hl'|]. destruct (whole_identity _ _ _ _ _ _ _ _ _ Hf) as [Ha Hro].
    split; [exact Ha|split; [exact Hro|]].
    rewrite (whole_session _ _ _ _ _ _ e _ _ _ Hf). reflexivity.
  Qed.

  (* T1: every handler invocation observed on c carries c's address and role *)
  Lemma sessions_calls_identity c a ro ins g g' outs :
    gs_lookup c (g_sessions g) = Some (gs_fresh a ro) -> grun gh g ins = (g', outs) ->
    calls_from a ro (gproj c outs).
  Proof.
    intros Hl Hr. destruct (grun_proj_oracle gh c ins g _ g' outs Hl Hr []) as (s' & Hl' & Hf).
    rewrite app_nil_r, feeds_fresh_whole in Hf. exact (whole_calls_from _ _ _ _ _ _ _ _ _ Hf).
  Qed.

  (* T1: every response observed on c answers the next request frame of c and
     carries its transaction id and unit id; calls carry its unit id *)
  Lemma sessions_answers c a ro ins g g' outs frames tail :
    gs_lookup c (g_sessions g) = Some (gs_fresh a ro) -> grun gh g ins = (g', outs) ->
    Forall (fun f => fst f < 65536 /\ pdu_wf (snd f)) frames ->
    gin_stream (gproj c ins) = frames_stream frames ++ tail ->
    answers_ok frames (map gev_strip (gproj c outs)).
  Proof.
    intros Hl Hr HF Hs.
    destruct (sessions_projection_oracle c a ro ins g g' outs Closed Hl Hr) as (s' & _ & _ & _ & Heq).
    rewrite Hs in Heq. unfold frames_stream in Heq. rewrite server_pipelined in Heq by exact HF.
    eapply answers_ok_prefix. rewrite Heq. apply spec_session_answers_ok.
  Qed.

  (* T2 (pure handler) + chunking independence: exact equality with the
     private session fed with c's whole stream at once *)
  Lemma sessions_projection_pure (f : greq -> hres) (Hp : forall st r, snd (gh st r) = f r) c a ro ins g g' outs :
    gs_lookup c (g_sessions g) = Some (gs_fresh a ro) -> grun gh g ins = (g', outs) ->
    exists s', gs_lookup c (g_sessions g') = Some s' /\
      sess_whole (gh_pure f) tt a ro (gin_stream (gproj c ins)) (gin_ended (gproj c ins)) = (tt, s', gproj c outs).
  Proof.
    intros Hl Hr. destruct (grun_proj_pure gh f Hp c ins g _ g' outs Hl Hr) as (s' & Hl' & Hf).
    rewrite feeds_fresh_whole in Hf. exists s'. split; [exact Hl'|exact Hf].
  Qed.

  Lemma sessions_projection_pure_run (f : greq -> hres) (Hp : forall st r, snd (gh st r) = f r) c a ro ins g g' outs e :
    gs_lookup c (g_sessions g) = Some (gs_fresh a ro) -> grun gh g ins = (g', outs) ->
    exists s', gs_lookup c (g_sessions g') = Some s' /\
      map gev_strip (gproj c outs) ++ close_tail (gs_closed s') =
      server_run (fun (_ : unit) r => (tt, f (mkgreq a ro r))) tt e (gin_stream (gproj c ins)).
  Proof.
    intros Hl Hr. destruct (sessions_projection_pure f Hp c a ro ins g g' outs Hl Hr) as (s' & Hl' & Hf).
    exists s'. split; [exact Hl'|]. rewrite (whole_session _ _ _ _ _ _ e _ _ _ Hf). reflexivity.
  Qed.

  (* T1 / T3, frame by frame: a complete request frame at the head of c's
     buffer is dispatched and answered by the step that delivers its last
     bytes, with its own transaction id, whatever state the other sessions are
     in (no hypothesis on them); the step then goes on with the bytes left *)
  Lemma gstep_frame g c s chunk t p rest :
    gs_lookup c (g_sessions g) = Some s -> gs_closed s = false ->
    gs_buf s ++ chunk = spec_mbap t p ++ rest -> t < 65536 -> pdu_wf p ->
    let a := gs_addr s in
    let ro := gs_role s in
    let '(st', calls, act) := server_process (conn_handler gh a ro) (g_shared g) p in
    snd (gstep gh g (c, GData chunk)) =
    map (fun r => (c, GEvCall (mkgreq a ro r) (snd (gh (g_shared g) (mkgreq a ro r))))) calls ++
    match act with
    | Respond res =>
        (c, GEvResp (spec_mbap t res)) ::
        snd (gstep gh (mkgstate st' (gs_update c (mkgsess rest a ro false) (g_sessions g))) (c, GData []))
    | CloseLink => [(c, GEvClosed)]
    end.
  Proof.
    intros Hl Hc Hb Ht Hp. cbv zeta. unfold gstep at 1. cbn [fst snd]. rewrite Hl.
    unfold sess_feed. rewrite Hc, Hb. cbn [sess_drain].
    rewrite read_mbap_frame by (try exact Ht; apply Hp).
    pose proof (server_process_resp_len (conn_handler gh (gs_addr s) (gs_role s)) (g_shared g) p) as HL.
    destruct (server_process (conn_handler gh (gs_addr s) (gs_role s)) (g_shared g) p) as [[st' calls] act].
    cbn [snd] in HL. destruct act as [res|].
    - unfold gstep. cbn [fst snd g_sessions g_shared].
      rewrite (gs_lookup_update_same _ _ _ _ Hl). unfold sess_feed. cbn [gs_closed gs_buf gs_addr gs_role].
      rewrite app_nil_r.
      assert (Hlen : (length rest < length (spec_mbap t p ++ rest))%nat).
      { rewrite app_length. unfold spec_mbap, be16. cbn [app length]. lia. }
      rewrite (drain_fuel gh _ _ (length (spec_mbap t p ++ rest)) (S (length rest))) by lia.
      destruct (sess_drain gh (S (length rest)) (gs_addr s) (gs_role s) st' rest) as [[[st2 evs] b] cl].
      cbn [snd]. rewrite map_app, map_map. cbn [map]. rewrite assemble_is_spec by exact HL. reflexivity.
    - cbn [snd]. rewrite map_app, map_map. reflexivity.
  Qed.

  (* T3 (no head-of-line blocking, logical half): if c has a complete frame,
     the step on c answers it (or closes c), with c's transaction id and unit
     id, regardless of every other session's state *)
  Lemma sessions_no_hol g c s chunk t p rest :
    gs_lookup c (g_sessions g) = Some s -> gs_closed s = false ->
    gs_buf s ++ chunk = spec_mbap t p ++ rest -> t < 65536 -> pdu_wf p ->
    exists o, In o (snd (gstep gh g (c, GData chunk))) /\
      (o = (c, GEvClosed) \/ exists res, o = (c, GEvResp (spec_mbap t res)) /\ p_unit res = p_unit p).
  Proof.
    intros Hl Hc Hb Ht Hp. pose proof (gstep_frame g c s chunk t p rest Hl Hc Hb Ht Hp) as HF.
    cbv zeta in HF.
    pose proof (server_process_unit (conn_handler gh (gs_addr s) (gs_role s)) (g_shared g) p) as HU.
    destruct (server_process (conn_handler gh (gs_addr s) (gs_role s)) (g_shared g) p) as [[st' calls] act].
    rewrite HF. destruct HU as [_ HU]. destruct act as [res|].
    - exists (c, GEvResp (spec_mbap t res)). split; [apply in_or_app; right; left; reflexivity|].
      right. exists res. split; [reflexivity|exact HU].
    - exists (c, GEvClosed). split; [apply in_or_app; right; left; reflexivity|left; reflexivity].
  Qed.
End Results.

(* T3 (chunking independence per connection): two runs - different chunkings
   of c's bytes, different interleavings, different other connections,
   even different shared states - give c the same observations as soon as c
   sent the same bytes *)
Lemma sessions_chunking {S1 S2} (gh1 : ghandler S1) (gh2 : ghandler S2) (f : greq -> hres)
  (Hp1 : forall st r, snd (gh1 st r) = f r) (Hp2 : forall st r, snd (gh2 st r) = f r)
  c a ro ins1 g1 g1' outs1 ins2 g2 g2' outs2 :
  gs_lookup c (g_sessions g1) = Some (gs_fresh a ro) -> grun gh1 g1 ins1 = (g1', outs1) ->
  gs_lookup c (g_sessions g2) = Some (gs_fresh a ro) -> grun gh2 g2 ins2 = (g2', outs2) ->
  gin_stream (gproj c ins1) = gin_stream (gproj c ins2) ->
  gin_ended (gproj c ins1) = gin_ended (gproj c ins2) ->
  gproj c outs1 = gproj c outs2 /\ gs_lookup c (g_sessions g1') = gs_lookup c (g_sessions g2').
Proof.
  intros L1 R1 L2 R2 Hs He.
  destruct (sessions_projection_pure gh1 f Hp1 c a ro ins1 g1 g1' outs1 L1 R1) as (s1 & Hl1 & H1).
  destruct (sessions_projection_pure gh2 f Hp2 c a ro ins2 g2 g2' outs2 L2 R2) as (s2 & Hl2 & H2).
  rewrite Hs, He, H2 in H1. injection H1 as <- <-. split; [reflexivity|congruence].
Qed.
