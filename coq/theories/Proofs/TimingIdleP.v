(* Proofs about Model/TimingIdle.v: bytes that reach the client while it is
   idle. The send-time machine keeps the inter-frame silence after EVERY read
   that took bytes off the link - the read of an exchange, or a read made
   when a call begins - for every session (idle times, arrivals, calls),
   every clock and every state of the link's buffer, PROVIDED the rule that
   reads at the beginning of a call records the instant after that read. The
   code (nothing read at entry) is such a rule; reading the buffer empty
   without recording it is not. *)
From Modbus Require Import Base.Bytes Model.Timing Model.TimingIdle Proofs.TimingP.
From Coq Require Import ZifyBool ZifyNat ZifyN.
Ltac Zify.zify_post_hook ::= Z.div_mod_to_equations.
Local Open Scope Z_scope.

(* ------------------------------------------------------------ vocabulary *)

(* a request of the timeline starts at least t35 after the instant l *)
Definition starts_after (l t35 : Z) (ev : lev) : Prop :=
  match ev with Sent b => l + t35 <= b | Took _ => True end.

(* a read of the timeline returned not later than l *)
Definition taken_by (l : Z) (ev : lev) : Prop :=
  match ev with Took a => a <= l | Sent _ => True end.

Lemma fop_app {A} (R : A -> A -> Prop) l1 l2 :
  ForallOrdPairs R l1 -> ForallOrdPairs R l2 ->
  Forall (fun a => Forall (R a) l2) l1 -> ForallOrdPairs R (l1 ++ l2).
Proof.
  intros H1 H2 H12. induction H1 as [|a l1 Ha H1 IH]; cbn [app]; [exact H2|].
  inversion H12 as [|? ? Ha2 H12']; subst.
  constructor; [apply Forall_app; split; assumption | apply IH; exact H12'].
Qed.

Lemma heard_as_admissible x o : admissible x -> admissible (heard_as x o).
Proof.
  intros (Hn & He & Hs1 & Hw & Hwr & Hs2 & Hr & Hrx & Hst).
  unfold admissible, heard_as. cbn. repeat split; try assumption; lia.
Qed.

Lemma heard_as_out x o : x_out (heard_as x o) = o.
Proof. reflexivity. Qed.

(* ------------------------------------------------------ the entry of a call *)

Lemma entry_facts rule s q dr s0 q0 evs0 :
  stamps rule -> 0 <= dr -> entry rule s q dr = (s0, q0, evs0) ->
  last_activity s <= last_activity s0 /\
  (evs0 = [] \/ exists a, evs0 = [Took a] /\ a <= last_activity s0).
Proof.
  intros Hst Hdr He. destruct rule; [| |destruct Hst]; destruct q as [|f q];
    cbn [entry] in He; inversion He; subst; clear He; cbn [last_activity clock].
  - split; [lia|left; reflexivity].
  - split; [lia|left; reflexivity].
  - split; [lia|left; reflexivity].
  - split; [lia|right]. eexists. split; [reflexivity|lia].
Qed.

(* ------------------------------------------------------------- one step *)

Definition la (s : istate) : Z := last_activity (i_t s).

Lemma istep_facts rule t1 t35 s st s' evs :
  stamps rule -> 0 <= t1 -> 0 <= t35 -> istep_ok st ->
  istep_run rule t1 t35 s st = (s', evs) ->
  (* the recorded end of the last frame never moves backwards *)
  la s <= la s' /\
  (* the requests of the step start at least t35 after it *)
  Forall (starts_after (la s) t35) evs /\
  (* it covers every read of the step *)
  Forall (taken_by (la s')) evs /\
  (* and the step is quiet in itself *)
  ForallOrdPairs (quiet t35) evs.
Proof.
  intros Hst Ht1 Ht35 Hok Hrun. unfold la. destruct st as [d|len|x dr reply]; cbn [istep_run] in Hrun.
  - inversion Hrun; subst. cbn [i_t last_activity]. repeat split; try constructor. lia.
  - inversion Hrun; subst. cbn [i_t]. repeat split; try constructor. lia.
  - destruct Hok as (Hadm & Hdr & Hrep).
    destruct (entry rule (i_t s) (i_q s) dr) as [[s0 q0] evs0] eqn:Een.
    destruct (entry_facts rule (i_t s) (i_q s) dr s0 q0 evs0 Hst Hdr Een) as (Hmono0 & Hevs0).
    (* the three ways the exchange can go, each an exchange of Model/Timing.v from s0 *)
    assert (Hcases : exists x' s1 e tail,
      admissible x' /\ exchange t1 t35 s0 x' = (s1, e) /\ i_t s' = s1 /\
      evs = evs0 ++ Sent (ev_tx_start e) :: tail /\
      (tail = [] \/ (tail = [Took (ev_rx_end e)] /\ frame_end e = Some (ev_rx_end e)))).
    { destruct (x_out x) eqn:Eo.
      - destruct (q0 ++ (if 0 <? reply then [reply] else [])) as [|f q2].
        + destruct (exchange t1 t35 s0 (heard_as x Silent)) as [s1 e] eqn:Ex.
          inversion Hrun; subst. exists (heard_as x Silent), s1, e, [].
          split; [apply heard_as_admissible; exact Hadm|]. split; [exact Ex|].
          split; [reflexivity|]. split; [reflexivity|]. left; reflexivity.
        + destruct (exchange t1 t35 s0 (heard_as x Heard)) as [s1 e] eqn:Ex.
          inversion Hrun; subst. exists (heard_as x Heard), s1, e, [Took (ev_rx_end e)].
          split; [apply heard_as_admissible; exact Hadm|]. split; [exact Ex|].
          split; [reflexivity|]. split; [reflexivity|]. right. split; [reflexivity|].
          unfold exchange in Ex. cbn [heard_as x_out] in Ex. inversion Ex; subst. reflexivity.
      - destruct (q0 ++ (if 0 <? reply then [reply] else [])) as [|f q2].
        + destruct (exchange t1 t35 s0 (heard_as x Silent)) as [s1 e] eqn:Ex.
          inversion Hrun; subst. exists (heard_as x Silent), s1, e, [].
          split; [apply heard_as_admissible; exact Hadm|]. split; [exact Ex|].
          split; [reflexivity|]. split; [reflexivity|]. left; reflexivity.
        + destruct (exchange t1 t35 s0 (heard_as x Heard)) as [s1 e] eqn:Ex.
          inversion Hrun; subst. exists (heard_as x Heard), s1, e, [Took (ev_rx_end e)].
          split; [apply heard_as_admissible; exact Hadm|]. split; [exact Ex|].
          split; [reflexivity|]. split; [reflexivity|]. right. split; [reflexivity|].
          unfold exchange in Ex. cbn [heard_as x_out] in Ex. inversion Ex; subst. reflexivity.
      - destruct (exchange t1 t35 s0 x) as [s1 e] eqn:Ex.
        inversion Hrun; subst. exists x, s1, e, [].
        split; [exact Hadm|]. split; [exact Ex|].
        split; [reflexivity|]. split; [reflexivity|]. left; reflexivity. }
    destruct Hcases as (x' & s1 & e & tail & Hadm' & Ex & Hs1 & Hevs & Htail).
    destruct (exchange_facts t1 t35 s0 x' s1 e Ht1 Ht35 Hadm' Ex) as (Hstart & Hmono & Hend & _).
    rewrite Hs1. subst evs.
    assert (Htl_after : Forall (starts_after (last_activity (i_t s)) t35) tail).
    { destruct Htail as [->|[-> _]]; repeat constructor. }
    assert (Htl_taken : Forall (taken_by (last_activity s1)) tail).
    { destruct Htail as [->|[-> Hf]]; repeat constructor. cbn [taken_by]. exact (Hend _ Hf). }
    assert (Htl_quiet : ForallOrdPairs (quiet t35) (Sent (ev_tx_start e) :: tail)).
    { destruct Htail as [->|[-> _]]; repeat constructor. }
    split; [lia|]. split; [|split].
    + apply Forall_app. split.
      * destruct Hevs0 as [->|(a & -> & _)]; repeat constructor.
      * constructor; [cbn [starts_after]; lia|exact Htl_after].
    + apply Forall_app. split.
      * destruct Hevs0 as [->|(a & -> & Ha)]; repeat constructor. cbn [taken_by]. lia.
      * constructor; [exact I|exact Htl_taken].
    + apply fop_app; [| exact Htl_quiet |].
      * destruct Hevs0 as [->|(a & -> & _)]; repeat constructor.
      * destruct Hevs0 as [->|(a & -> & Ha)]; [constructor|].
        constructor; [|constructor]. constructor; [cbn [quiet]; lia|].
        destruct Htail as [->|[-> _]]; repeat constructor.
Qed.

(* -------------------------------------------------------- whole sessions *)

(* every request of the rest of the session starts at least t35 after any
   instant the state records as not later than last_activity *)
Lemma irun_after rule t1 t35 steps : stamps rule -> 0 <= t1 -> 0 <= t35 -> Forall istep_ok steps ->
  forall s, Forall (starts_after (la s) t35) (irun rule t1 t35 s steps).
Proof.
  intros Hst Ht1 Ht35 Hok. induction Hok as [|st steps Hs _ IH]; intros s; cbn [irun]; [constructor|].
  destruct (istep_run rule t1 t35 s st) as [s' evs] eqn:Er.
  destruct (istep_facts rule t1 t35 s st s' evs Hst Ht1 Ht35 Hs Er) as (Hmono & Hafter & _ & _).
  apply Forall_app. split; [exact Hafter|].
  eapply Forall_impl; [|apply IH]. intros [a|b]; cbn [starts_after]; lia.
Qed.

(* the timeline of every session is quiet: no request starts earlier than
   t35 after ANY earlier read that took bytes *)
Lemma irun_quiet rule t1 t35 steps : stamps rule -> 0 <= t1 -> 0 <= t35 -> Forall istep_ok steps ->
  forall s, ForallOrdPairs (quiet t35) (irun rule t1 t35 s steps).
Proof.
  intros Hst Ht1 Ht35 Hok. induction Hok as [|st steps Hs Hss IH]; intros s; cbn [irun]; [constructor|].
  destruct (istep_run rule t1 t35 s st) as [s' evs] eqn:Er.
  destruct (istep_facts rule t1 t35 s st s' evs Hst Ht1 Ht35 Hs Er) as (_ & _ & Htaken & Hq).
  apply fop_app; [exact Hq|apply IH|].
  eapply Forall_impl; [|exact Htaken]. intros [a|b] Hev; cbn [taken_by] in Hev.
  - eapply Forall_impl; [|apply (irun_after rule t1 t35 steps Hst Ht1 Ht35 Hss s')].
    intros [a'|b']; cbn [starts_after quiet]; [trivial|lia].
  - apply Forall_forall. intros ev _. destruct ev; exact I.
Qed.

Lemma irun_quiet_all : forall rule t1 t35 steps s,
  stamps rule -> 0 <= t1 -> 0 <= t35 -> Forall istep_ok steps ->
  ForallOrdPairs (quiet t35) (irun rule t1 t35 s steps).
Proof. intros. apply irun_quiet; assumption. Qed.

(* by position, at the delays of a rate of the property *)
Lemma irun_quiet_rate : forall rule r steps s i j a b,
  stamps rule -> 1 <= r -> r <= 10000000 -> Forall istep_ok steps -> (i < j)%nat ->
  nth_error (irun rule (char_time r) (t35 r) s steps) i = Some (Took a) ->
  nth_error (irun rule (char_time r) (t35 r) s steps) j = Some (Sent b) ->
  a + t35 r <= b.
Proof.
  intros rule r steps s i j a b Hst H1 H2 Hok Hij Hi Hj.
  destruct (timing_pos r H1 H2) as [Hc Ht].
  assert (Hq : ForallOrdPairs (quiet (t35 r)) (irun rule (char_time r) (t35 r) s steps))
    by (apply irun_quiet; try assumption; lia).
  exact (ordpairs_nth _ _ Hq i j (Took a) (Sent b) Hij Hi Hj).
Qed.

(* the one-sided measurement of the check (an instant not later than the
   return of the read, an instant not earlier than the start of the request)
   can never fail a client whose rule records what it reads *)
Lemma irun_measurement_sound : forall rule r steps s i j a b before arrive,
  stamps rule -> 1 <= r -> r <= 10000000 -> Forall istep_ok steps -> (i < j)%nat ->
  nth_error (irun rule (char_time r) (t35 r) s steps) i = Some (Took a) ->
  nth_error (irun rule (char_time r) (t35 r) s steps) j = Some (Sent b) ->
  before <= a -> b <= arrive -> t35 r <= arrive - before.
Proof.
  intros rule r steps s i j a b before arrive Hst H1 H2 Hok Hij Hi Hj Hb Ha.
  pose proof (irun_quiet_rate rule r steps s i j a b Hst H1 H2 Hok Hij Hi Hj). lia.
Qed.

(* the code's rule, and the rule that drains and records *)
Lemma leave_queued_stamps : stamps LeaveQueued.
Proof. exact I. Qed.

Lemma drain_stamp_stamps : stamps DrainStamp.
Proof. exact I. Qed.

(* one request per call, whatever the rule *)
Lemma sent_count_took a l : sent_count (Took a :: l) = sent_count l.
Proof. reflexivity. Qed.

Lemma sent_count_sent b l : sent_count (Sent b :: l) = 1 + sent_count l.
Proof. reflexivity. Qed.

Lemma sent_count_app l1 l2 : sent_count (l1 ++ l2) = sent_count l1 + sent_count l2.
Proof.
  induction l1 as [|[a|b] l1 IH]; cbn [app].
  - reflexivity.
  - rewrite !sent_count_took. exact IH.
  - rewrite !sent_count_sent, IH. lia.
Qed.

Lemma istep_sent rule t1 t35 s st s' evs : istep_run rule t1 t35 s st = (s', evs) ->
  sent_count evs = match st with SCall _ _ _ => 1 | _ => 0 end.
Proof.
  destruct st as [d|len|x dr reply]; cbn [istep_run]; intros H.
  - inversion H; reflexivity.
  - inversion H; reflexivity.
  - assert (He0 : forall s q, sent_count (snd (entry rule s q dr)) = 0).
    { intros s0 q. destruct rule; destruct q; reflexivity. }
    specialize (He0 (i_t s) (i_q s)).
    destruct (entry rule (i_t s) (i_q s) dr) as [[s0 q0] evs0]. cbn [snd] in He0.
    assert (Happ : forall l, sent_count (evs0 ++ l) = sent_count l).
    { intros l. rewrite sent_count_app, He0. lia. }
    destruct (x_out x).
    + destruct (q0 ++ (if 0 <? reply then [reply] else [])).
      * destruct (exchange t1 t35 s0 (heard_as x Silent)). inversion H. rewrite Happ. reflexivity.
      * destruct (exchange t1 t35 s0 (heard_as x Heard)). inversion H. rewrite Happ. reflexivity.
    + destruct (q0 ++ (if 0 <? reply then [reply] else [])).
      * destruct (exchange t1 t35 s0 (heard_as x Silent)). inversion H. rewrite Happ. reflexivity.
      * destruct (exchange t1 t35 s0 (heard_as x Heard)). inversion H. rewrite Happ. reflexivity.
    + destruct (exchange t1 t35 s0 x). inversion H. rewrite Happ. reflexivity.
Qed.

Lemma irun_calls : forall rule t1 t35 steps s,
  sent_count (irun rule t1 t35 s steps) = script_calls steps.
Proof.
  intros rule t1 t35 steps. induction steps as [|st steps IH]; intros s; cbn [irun]; [reflexivity|].
  destruct (istep_run rule t1 t35 s st) as [s' evs] eqn:Er.
  rewrite sent_count_app, IH, (istep_sent rule t1 t35 s st s' evs Er).
  unfold script_calls. cbn [fold_right]. destruct st; lia.
Qed.

(* ------------------------------------------------ the predicate of the check *)

Lemma gaps_quiet t35 evs : ForallOrdPairs (quiet t35) evs ->
  forall last, (forall a, last = Some a -> Forall (quiet t35 (Took a)) evs) ->
  Forall (fun g => t35 <= g) (gaps last evs).
Proof.
  induction 1 as [|ev evs Hev _ IH]; intros last Hlast; cbn [gaps]; [constructor|].
  destruct ev as [a|b].
  - apply IH. intros a' Ha'. inversion Ha'; subst a'; clear Ha'.
    destruct last as [a0|]; [|exact Hev].
    specialize (Hlast a0 eq_refl). inversion Hlast as [|? ? _ Hl0]; subst.
    destruct (Z.max_spec a0 a) as [[_ ->]|[_ ->]]; assumption.
  - destruct last as [a0|].
    + specialize (Hlast a0 eq_refl). inversion Hlast as [|? ? Hb Hl0]; subst. cbn [quiet] in Hb.
      constructor; [lia|]. apply IH. intros a' Ha'. inversion Ha'; subst a'. exact Hl0.
    + apply IH. intros a' Ha'. discriminate.
Qed.

Lemma min_gap_bound t35 gs g : Forall (fun g => t35 <= g) gs -> min_gap gs = Some g -> t35 <= g.
Proof.
  intros Hgs Hm. destruct gs as [|g0 gs]; [discriminate|]. cbn [min_gap] in Hm. inversion Hm; subst g; clear Hm.
  inversion Hgs as [|? ? H0 Hrest]; subst. clear Hgs.
  induction Hrest as [|g1 gs H1 _ IH]; cbn [fold_right]; lia.
Qed.

(* the machine with a rule that records what it reads keeps t35 on every
   script and from every state *)
Lemma idle_gap_sound : forall rule rate steps g,
  stamps rule -> 1 <= rate -> rate <= 10000000 -> Forall istep_ok steps ->
  idle_gap rule rate steps = Some g -> t35 rate <= g.
Proof.
  intros rule rate steps g Hst H1 H2 Hok Hg. unfold idle_gap in Hg.
  destruct (timing_pos rate H1 H2) as [Hc Ht].
  eapply min_gap_bound; [|exact Hg].
  apply gaps_quiet; [apply irun_quiet; try assumption; lia|]. intros a Ha. discriminate.
Qed.

(* the predicate is the property's inequality plus "every call transmitted" *)
Lemma idle_silence_okb_iff : forall rate steps n gap,
  idle_silence_okb rate steps n gap = true <->
  script_calls steps <= n /\ (forall g, gap = Some g -> t35 rate <= g).
Proof.
  intros rate steps n gap. unfold idle_silence_okb. rewrite andb_true_iff, Z.leb_le.
  destruct gap as [g|].
  - rewrite Z.leb_le. split; intros [Hn Hg]; (split; [exact Hn|]).
    + intros g' Hg'. inversion Hg'; subst. exact Hg.
    + apply Hg. reflexivity.
  - split; intros [Hn _]; (split; [exact Hn|]); [intros g Hg; discriminate|reflexivity].
Qed.

(* every rule that records what it reads passes the predicate on its own run
   of the script *)
Lemma idle_gap_sound_okb : forall rule rate steps,
  stamps rule -> 1 <= rate -> rate <= 10000000 -> Forall istep_ok steps ->
  idle_silence_okb rate steps
    (sent_count (irun rule (char_time rate) (t35 rate) (idle_start rate) steps))
    (idle_gap rule rate steps) = true.
Proof.
  intros rule rate steps Hst H1 H2 Hok. apply idle_silence_okb_iff. split.
  - rewrite irun_calls. lia.
  - intros g Hg. exact (idle_gap_sound rule rate steps g Hst H1 H2 Hok Hg).
Qed.

Lemma quiet_call_ok n reply : 0 <= n -> 0 <= reply -> istep_ok (quiet_call n reply).
Proof. intros Hn Hr. unfold quiet_call, istep_ok, admissible. cbn. lia. Qed.

(* draining the buffer at the beginning of a call WITHOUT recording it does
   not keep the silence: 2400 bps, a request without answer, the late answer
   30 ms after the call returned, the next call 20 ms later *)
Lemma drain_no_stamp_not_quiet :
  ~ (forall steps, Forall istep_ok steps ->
       ForallOrdPairs (quiet (t35 2400))
         (irun DrainNoStamp (char_time 2400) (t35 2400) (idle_start 2400) steps)).
Proof.
  intros H.
  specialize (H [quiet_call 8 0; SIdle 30000000; SArrive 7; SIdle 20000000; quiet_call 8 7]).
  assert (Hok : Forall istep_ok [quiet_call 8 0; SIdle 30000000; SArrive 7; SIdle 20000000; quiet_call 8 7]).
  { repeat (constructor; [first [apply quiet_call_ok; lia | cbn [istep_ok]; lia]|]). constructor. }
  specialize (H Hok).
  assert (Hq : quiet (t35 2400) (Took 102708329) (Sent 102708329)).
  { apply (ordpairs_nth _ _ H 1%nat 2%nat); [lia| |]; vm_compute; reflexivity. }
  cbn [quiet] in Hq. assert (Ht : t35 2400 = 16041665) by (vm_compute; reflexivity). lia.
Qed.
