(* Facts about the DER length encoding of Spec/RoleSpec.v: the recursion
   equation of be_digits (fuel independence) and the closed forms of der_len
   for lengths below 2^32. *)
From Modbus Require Import Base.Bytes Spec.RoleSpec.
From Coq Require Import ZifyBool ZifyNat ZifyN.
Ltac Zify.zify_post_hook ::= Z.div_mod_to_equations.

Lemma pow256_succ f : 256 ^ N.of_nat (S f) = 256 * 256 ^ N.of_nat f.
Proof. rewrite Nat2N.inj_succ, N.pow_succ_r'. reflexivity. Qed.

Lemma be_digits_fuel_enough f : forall n g, n < 256 ^ N.of_nat f -> (f <= g)%nat ->
  be_digits_fuel g n = be_digits_fuel f n.
Proof.
  induction f as [|f IH]; intros n g Hn Hg.
  - cbn in Hn. assert (n = 0) by lia. subst n. destruct g; reflexivity.
  - destruct g as [|g]; [lia|]. cbn [be_digits_fuel].
    destruct (n =? 0) eqn:E; [reflexivity|].
    rewrite (IH (n / 256) g); [reflexivity| |lia].
    rewrite pow256_succ in Hn. remember (256 ^ N.of_nat f) as p. clear - Hn. lia.
Qed.

Lemma lt_pow256_log2 n : n < 256 ^ N.of_nat (S (N.to_nat (N.log2 n))).
Proof.
  destruct (N.eq_dec n 0) as [->|Hn]; [cbn; lia|].
  rewrite Nat2N.inj_succ, N2Nat.id.
  destruct (N.log2_spec n ltac:(lia)) as [_ H].
  eapply N.lt_le_trans; [exact H|].
  apply N.pow_le_mono_l. lia.
Qed.

(* the defining recursion, without fuel *)
Lemma be_digits_eq n : be_digits n = if n =? 0 then [] else be_digits (n / 256) ++ [n mod 256].
Proof.
  unfold be_digits at 1. cbn [be_digits_fuel].
  destruct (n =? 0) eqn:E; [reflexivity|]. f_equal.
  unfold be_digits.
  assert (Hle : N.log2 (n / 256) <= N.log2 n) by (apply N.log2_le_mono; lia).
  destruct (N.eq_dec (n / 256) 0) as [Hz|Hnz].
  { rewrite Hz. destruct (N.to_nat (N.log2 n)); reflexivity. }
  (* n >= 256: log2 (n / 256) < log2 n *)
  assert (Hlt : N.log2 (n / 256) < N.log2 n).
  { assert (H8 : N.log2 n = N.log2 (n / 256) + 8).
    { replace (n / 256) with (N.shiftr n 8) by (rewrite N.shiftr_div_pow2; reflexivity).
      rewrite N.log2_shiftr. assert (8 <= N.log2 n); [|lia].
      change 8 with (N.log2 256). apply N.log2_le_mono. lia. }
    lia. }
  apply be_digits_fuel_enough; [apply lt_pow256_log2|lia].
Qed.

Lemma be_digits_0 : be_digits 0 = [].
Proof. reflexivity. Qed.

Lemma be_digits_1 n : 0 < n < 256 -> be_digits n = [n].
Proof.
  intros H. rewrite be_digits_eq. destruct (n =? 0) eqn:E; [lia|].
  replace (n / 256) with 0 by lia. rewrite be_digits_0. cbn [app]. f_equal. lia.
Qed.

Lemma be_digits_2 n : 256 <= n < 65536 -> be_digits n = [n / 256; n mod 256].
Proof.
  intros H. rewrite be_digits_eq. destruct (n =? 0) eqn:E; [lia|].
  rewrite be_digits_1 by lia. reflexivity.
Qed.

Lemma be_digits_3 n : 65536 <= n < 16777216 ->
  be_digits n = [n / 65536; (n / 256) mod 256; n mod 256].
Proof.
  intros H. rewrite be_digits_eq. destruct (n =? 0) eqn:E; [lia|].
  rewrite be_digits_2 by lia. cbn [app]. repeat (f_equal; try lia).
Qed.

Lemma be_digits_4 n : 16777216 <= n < 4294967296 ->
  be_digits n = [n / 16777216; (n / 65536) mod 256; (n / 256) mod 256; n mod 256].
Proof.
  intros H. rewrite be_digits_eq. destruct (n =? 0) eqn:E; [lia|].
  rewrite be_digits_3 by lia. cbn [app]. repeat (f_equal; try lia).
Qed.

(* closed forms of der_len *)
Lemma der_len_short n : n < 128 -> der_len n = [n].
Proof. intros H. unfold der_len. destruct (n <? 128) eqn:E; [reflexivity|lia]. Qed.

Lemma der_len_1 n : 128 <= n < 256 -> der_len n = [0x81; n].
Proof.
  intros H. unfold der_len. destruct (n <? 128) eqn:E; [lia|].
  rewrite be_digits_1 by lia. reflexivity.
Qed.

Lemma der_len_2 n : 256 <= n < 65536 -> der_len n = [0x82; n / 256; n mod 256].
Proof.
  intros H. unfold der_len. destruct (n <? 128) eqn:E; [lia|].
  rewrite be_digits_2 by lia. reflexivity.
Qed.

Lemma der_len_3 n : 65536 <= n < 16777216 ->
  der_len n = [0x83; n / 65536; (n / 256) mod 256; n mod 256].
Proof.
  intros H. unfold der_len. destruct (n <? 128) eqn:E; [lia|].
  rewrite be_digits_3 by lia. reflexivity.
Qed.

Lemma der_len_4 n : 16777216 <= n < 4294967296 ->
  der_len n = [0x84; n / 16777216; (n / 65536) mod 256; (n / 256) mod 256; n mod 256].
Proof.
  intros H. unfold der_len. destruct (n <? 128) eqn:E; [lia|].
  rewrite be_digits_4 by lia. reflexivity.
Qed.

Lemma der_len_forms n :
  (n < 128 -> der_len n = [n]) /\
  (128 <= n < 256 -> der_len n = [0x81; n]) /\
  (256 <= n < 65536 -> der_len n = [0x82; n / 256; n mod 256]) /\
  (65536 <= n < 16777216 -> der_len n = [0x83; n / 65536; (n / 256) mod 256; n mod 256]) /\
  (16777216 <= n < 4294967296 ->
   der_len n = [0x84; n / 16777216; (n / 65536) mod 256; (n / 256) mod 256; n mod 256]).
Proof.
  repeat split.
  - apply der_len_short. - apply der_len_1. - apply der_len_2. - apply der_len_3. - apply der_len_4.
Qed.
