(* RTU inter-frame timing of the transport model (Model/Transport.v) on worlds
   with a clock: the request goes on the wire not before t3.5 after the last
   activity, the silence after our own frame is counted from its end. *)
From Coq Require Import List NArith Lia Bool ZifyBool ZifyNat ZifyN.
Import ListNotations.
From Modbus Require Import Base.Bytes Model.Crc Model.Wire Model.GoLite Model.Transport.
Open Scope N_scope.

Ltac Zify.zify_post_hook ::= Z.div_mod_to_equations.

(* ------------------------------------------------------------------ two's complement *)

Ltac unf64 :=
  unfold sub64, add64, mul64, w64, slt64, sbias, minus_one64 in *;
  change (2 ^ 64) with 18446744073709551616 in *;
  change (2 ^ 63) with 9223372036854775808 in *;
  change (2 ^ 62) with 4611686018427387904 in *;
  change (2 ^ 56) with 72057594037927936 in *;
  change (2 ^ 40) with 1099511627776 in *;
  change (2 ^ 16) with 65536 in *.

Lemma w64_small x : x < 2 ^ 64 -> w64 x = x.
Proof. intros; unf64; lia. Qed.

Lemma add64_small a b : a + b < 2 ^ 64 -> add64 a b = a + b.
Proof. intros; unf64; lia. Qed.

Lemma mul64_small a b : a * b < 2 ^ 64 -> mul64 a b = a * b.
Proof. intros; unf64. apply N.mod_small; assumption. Qed.

Lemma sub64_ge a b : a < 2 ^ 64 -> b <= a -> sub64 a b = a - b.
Proof. intros; unf64; lia. Qed.

Lemma sub64_lt a b : b < 2 ^ 64 -> a < b -> sub64 a b = 2 ^ 64 - (b - a).
Proof. intros; unf64; lia. Qed.

Lemma slt64_neg x : x < 2 ^ 64 -> slt64 x 0 = (2 ^ 63 <=? x).
Proof. intros; unf64; lia. Qed.

Lemma slt64_pos d : d < 2 ^ 64 -> slt64 0 d = (0 <? d) && (d <? 2 ^ 63).
Proof. intros; unf64; lia. Qed.

Lemma mul64_neg x : 0 < x -> x < 2 ^ 64 -> mul64 x minus_one64 = 2 ^ 64 - x.
Proof.
  intros; unf64.
  replace (x * (18446744073709551616 - 1))
    with ((18446744073709551616 - x) + (x - 1) * 18446744073709551616) by nia.
  rewrite N.mod_add by discriminate. apply N.mod_small. lia.
Qed.

Lemma prod_bound n t : n < 2 ^ 16 -> t < 2 ^ 40 -> n * t < 2 ^ 56.
Proof. intros; unf64; nia. Qed.

(* ------------------------------------------------------------------ the clock world *)

Lemma clock_of_mk c l : clock_of (mkclock c l) = c.
Proof. reflexivity. Qed.

Lemma log_of_mk c l : log_of (mkclock c l) = l.
Proof. reflexivity. Qed.

(* the sleeping operations of a world whose clock is the one of [clock_world] *)
Definition sleep_cw (w : val) (d : N) : val :=
  if slt64 0 d then mkclock (add64 (clock_of w) d) (log_of w) else w.

Lemma log_of_sleep w d : log_of (sleep_cw w d) = log_of w.
Proof. unfold sleep_cw. destruct (slt64 0 d); reflexivity. Qed.

(* wait until t3.5 has elapsed since the last activity *)
Definition wait_cw (la t35 : N) (w : val) : val :=
  let t := sub64 (clock_of w) (add64 la t35) in
  if slt64 t 0 then sleep_cw w (mul64 t minus_one64) else w.

Lemma log_of_wait la t35 w : log_of (wait_cw la t35 w) = log_of w.
Proof. unfold wait_cw. cbv zeta. destruct (slt64 _ 0); [apply log_of_sleep | reflexivity]. Qed.

Lemma clock_of_wait la t35 w :
  clock_of w < 2 ^ 62 -> la < 2 ^ 62 -> t35 < 2 ^ 40 ->
  clock_of (wait_cw la t35 w) = N.max (clock_of w) (la + t35).
Proof.
  intros Hc Hla Ht. unfold wait_cw. cbv zeta.
  set (c := clock_of w) in *.
  assert (Hs : add64 la t35 = la + t35) by (apply add64_small; unf64; lia).
  rewrite Hs.
  destruct (N.le_gt_cases (la + t35) c) as [Hle | Hgt].
  - rewrite sub64_ge by (unf64; lia).
    rewrite slt64_neg by (unf64; lia).
    replace (2 ^ 63 <=? c - (la + t35)) with false by (unf64; lia).
    fold c. lia.
  - rewrite sub64_lt by (unf64; lia).
    rewrite slt64_neg by (unf64; lia).
    replace (2 ^ 63 <=? 2 ^ 64 - (la + t35 - c)) with true by (unf64; lia).
    rewrite mul64_neg by (unf64; lia).
    replace (2 ^ 64 - (2 ^ 64 - (la + t35 - c))) with (la + t35 - c) by (unf64; lia).
    unfold sleep_cw. rewrite slt64_pos by (unf64; lia).
    replace ((0 <? la + t35 - c) && (la + t35 - c <? 2 ^ 63)) with true by (unf64; lia).
    rewrite clock_of_mk. fold c. rewrite add64_small by (unf64; lia). lia.
Qed.

Lemma wait_mk la t35 c l :
  c < 2 ^ 62 -> la < 2 ^ 62 -> t35 < 2 ^ 40 ->
  wait_cw la t35 (mkclock c l) = mkclock (N.max c (la + t35)) l.
Proof.
  intros Hc Hla Ht.
  pose proof (clock_of_wait la t35 (mkclock c l) Hc Hla Ht) as H.
  rewrite clock_of_mk in H. rewrite <- H.
  unfold wait_cw in *. cbv zeta in *. destruct (slt64 _ 0).
  - unfold sleep_cw in *. destruct (slt64 0 _).
    + rewrite clock_of_mk. reflexivity.
    + rewrite clock_of_mk. reflexivity.
  - rewrite clock_of_mk. reflexivity.
Qed.

Lemma sleep_cw_eq sc w d : t_sleep (clock_world sc) w d = sleep_cw w d.
Proof. reflexivity. Qed.

(* the silent peer: the read fails at once with the error value of the deadline *)
Lemma read_rtu_silent C sc w :
  sc <> 0 -> sc <> c_ueof C -> t_read_rtu (clock_world sc) C w = (w, None, sc).
Proof.
  intros H0 Hu. unfold t_read_rtu. cbn [clock_world t_readfull].
  change (3 =? 0) with false. cbv iota.
  change (lenN (@nil N)) with 0.
  replace (sc =? 0) with false by lia.
  replace (sc =? c_ueof C) with false by lia.
  reflexivity.
Qed.

(* sleep until t3.5 after the end of a frame that started at [tw] *)
Lemma sleep_after_frame tw n t1 t35 l :
  tw < 2 ^ 63 -> n < 2 ^ 16 -> t1 < 2 ^ 40 -> t35 < 2 ^ 40 ->
  add64 tw (mul64 (w64 n) t1) = tw + n * t1 /\
  sleep_cw (mkclock tw l) (sub64 (add64 (add64 tw (mul64 (w64 n) t1)) t35) tw)
  = mkclock (tw + n * t1 + t35) l.
Proof.
  intros Htw Hn Ht1 Ht35.
  pose proof (prod_bound n t1 Hn Ht1) as Hp.
  rewrite w64_small by (unf64; lia).
  rewrite mul64_small by (unf64; lia).
  rewrite (add64_small tw) by (unf64; lia).
  split; [reflexivity|].
  rewrite add64_small by (unf64; lia).
  rewrite sub64_ge by (unf64; lia).
  replace (tw + n * t1 + t35 - tw) with (n * t1 + t35) by lia.
  unfold sleep_cw. rewrite slt64_pos by (unf64; lia).
  rewrite clock_of_mk, log_of_mk.
  destruct (N.eq_dec (n * t1 + t35) 0) as [Hz | Hz].
  - rewrite Hz. cbn [N.ltb N.compare andb]. f_equal. lia.
  - replace ((0 <? n * t1 + t35) && (n * t1 + t35 <? 2 ^ 63)) with true by (unf64; lia).
    rewrite add64_small by (unf64; lia). f_equal. lia.
Qed.

Theorem rtu_execute_timing C sc tmo la t35 t1 req c0 log :
  c0 < 2 ^ 62 -> la < 2 ^ 62 -> t35 < 2 ^ 40 -> t1 < 2 ^ 40 ->
  lenN (assemble_rtu req) < 2 ^ 16 ->
  sc = c_timedout C -> sc <> 0 ->
  c_timedout C <> c_badcrc C -> c_timedout C <> c_proto C ->
  c_timedout C <> c_short C -> c_timedout C <> c_ueof C ->
  let '(la', w', p, e) := t_rtu_execute (clock_world sc) C tmo la t35 t1 req (mkclock c0 log) in
  let tw := N.max c0 (la + t35) in
  let busy := lenN (assemble_rtu req) * t1 in
  log_of w' = (log ++ [VN tw])%list /\
  la' = tw + busy /\
  clock_of w' = tw + busy + t35 /\
  p = None /\ e = sc.
Proof.
  intros Hc Hla Ht35 Ht1 Hn Hsc Hsc0 Hbc Hpr Hsh Hue.
  unfold t_rtu_execute.
  cbn [clock_world t_now t_setdl t_write].
  change (negb (0 =? 0)) with false. cbv iota.
  rewrite !sleep_cw_eq.
  change (if slt64 (sub64 (clock_of (mkclock c0 log)) (add64 la t35)) 0
          then sleep_cw (mkclock c0 log)
                 (mul64 (sub64 (clock_of (mkclock c0 log)) (add64 la t35)) minus_one64)
          else mkclock c0 log) with (wait_cw la t35 (mkclock c0 log)).
  rewrite (wait_mk la t35 c0 log Hc Hla Ht35).
  rewrite !clock_of_mk, !log_of_mk.
  set (tw := N.max c0 (la + t35)).
  assert (Htw : tw < 2 ^ 63) by (unfold tw; unf64; lia).
  destruct (sleep_after_frame tw (lenN (assemble_rtu req)) t1 t35 (log ++ [VN tw]) Htw Hn Ht1 Ht35)
    as [Hla1 Hsl].
  rewrite Hsl, Hla1.
  rewrite read_rtu_silent by congruence.
  replace (sc =? c_timedout C) with true by lia.
  replace (sc =? c_badcrc C) with false by lia.
  replace (sc =? c_proto C) with false by lia.
  replace (sc =? c_short C) with false by lia.
  cbn [negb orb].
  rewrite clock_of_mk, log_of_mk.
  repeat split; reflexivity.
Qed.

(* only the bounds on the clock, the byte time and the frame length matter here *)
Theorem rtu_write_response_timing sc la t1 req c0 log :
  c0 < 2 ^ 62 -> t1 < 2 ^ 40 ->
  lenN (assemble_rtu req) < 2 ^ 16 ->
  let '(la', w', e) := t_rtu_write_response (clock_world sc) la t1 req (mkclock c0 log) in
  log_of w' = (log ++ [VN c0])%list /\
  la' = c0 + lenN (assemble_rtu req) * t1 /\
  e = 0.
Proof.
  intros Hc Ht1 Hn.
  unfold t_rtu_write_response.
  cbn [clock_world t_now t_write].
  change (negb (0 =? 0)) with false. cbv iota.
  rewrite !clock_of_mk, !log_of_mk.
  pose proof (prod_bound _ _ Hn Ht1) as Hp.
  rewrite w64_small by (unf64; lia).
  rewrite mul64_small by (unf64; lia).
  rewrite add64_small by (unf64; lia).
  repeat split. lia.
Qed.

(* ------------------------------------------------------------------ any line, same clock *)

Section NeverEarly.
  Variables (T : tworld) (C : tcodes) (sc : N).
  (* the clock and the logged writes are those of [clock_world] *)
  Hypothesis Hnow : forall w, t_now T w = t_now (clock_world sc) w.
  Hypothesis Hsleep : forall w d, t_sleep T w d = t_sleep (clock_world sc) w d.
  Hypothesis Hwrite : forall w bs, t_write T w bs = t_write (clock_world sc) w bs.
  (* setting a deadline and reading are arbitrary, but they log nothing and time
     does not run backwards (nor past 2^62 ns) while a deadline is set; how the
     clock moves during reads, and what Close does (ExecuteRequest never calls
     it), is irrelevant for the instants at which frames are written *)
  Hypothesis Hsetdl_clock : forall w d, clock_of w < 2 ^ 62 ->
    clock_of w <= clock_of (fst (t_setdl T w d)) /\ clock_of (fst (t_setdl T w d)) < 2 ^ 62.
  Hypothesis Hsetdl_log : forall w d, log_of (fst (t_setdl T w d)) = log_of w.
  Hypothesis Hread_log : forall w n, log_of (fst (fst (t_readfull T w n))) = log_of w.

  Lemma now_T w : t_now T w = (w, clock_of w).
  Proof. rewrite Hnow. reflexivity. Qed.

  Lemma sleep_T w d : t_sleep T w d = sleep_cw w d.
  Proof. rewrite Hsleep. reflexivity. Qed.

  Lemma write_T w bs :
    t_write T w bs = (mkclock (clock_of w) (log_of w ++ [VN (clock_of w)]), lenN bs, 0).
  Proof. rewrite Hwrite. reflexivity. Qed.

  Lemma log_of_read_rtu w : log_of (fst (fst (t_read_rtu T C w))) = log_of w.
  Proof.
    unfold t_read_rtu.
    pose proof (Hread_log w 3) as H1.
    destruct (t_readfull T w 3) as [[w1 h] e1]. cbn [fst] in H1.
    destruct (_ && _); [exact H1|].
    destruct (_ && _); [exact H1|].
    destruct (expected_len _ _) as [n|]; [|exact H1].
    destruct (256 <? _); [exact H1|].
    pose proof (Hread_log w1 (n + 2)) as H2.
    destruct (t_readfull T w1 (n + 2)) as [[w2 body] e2]. cbn [fst] in H2.
    rewrite H1 in H2.
    destruct (_ && _); [exact H2|].
    destruct (negb _); [exact H2|].
    destruct (crc_is_equal _ _ _); exact H2.
  Qed.

  Lemma log_of_discard w : log_of (t_discard T w) = log_of w.
  Proof.
    unfold t_discard. rewrite now_T.
    pose proof (Hsetdl_log w (add64 (clock_of w) 500000)) as H1.
    destruct (t_setdl T w _) as [w1 e1]. cbn [fst] in H1.
    pose proof (Hread_log w1 1024) as H2.
    destruct (t_readfull T w1 1024) as [[w2 got] e2]. cbn [fst] in H2.
    congruence.
  Qed.

  (* at most one frame is written, and not before t3.5 after the last activity *)
  Theorem rtu_execute_never_early tmo la t35 t1 req c0 log :
    c0 < 2 ^ 62 -> la < 2 ^ 62 -> t35 < 2 ^ 40 ->
    let '(la', w', p, e) := t_rtu_execute T C tmo la t35 t1 req (mkclock c0 log) in
    log_of w' = log \/
    exists t, log_of w' = (log ++ [VN t])%list /\ la + t35 <= t /\ c0 <= t.
  Proof.
    intros Hc Hla Ht35.
    unfold t_rtu_execute. rewrite now_T. rewrite clock_of_mk.
    pose proof (Hsetdl_clock (mkclock c0 log) (add64 c0 tmo)) as Hc1.
    pose proof (Hsetdl_log (mkclock c0 log) (add64 c0 tmo)) as Hl1.
    rewrite clock_of_mk in Hc1. rewrite log_of_mk in Hl1.
    specialize (Hc1 Hc). destruct Hc1 as [Hc1 Hc1b].
    destruct (t_setdl T (mkclock c0 log) (add64 c0 tmo)) as [w1 e]. cbn [fst] in Hc1, Hc1b, Hl1.
    destruct (negb (e =? 0)); [left; exact Hl1|].
    rewrite now_T. rewrite sleep_T.
    change (if slt64 (sub64 (clock_of w1) (add64 la t35)) 0
            then sleep_cw w1 (mul64 (sub64 (clock_of w1) (add64 la t35)) minus_one64)
            else w1) with (wait_cw la t35 w1).
    pose proof (clock_of_wait la t35 w1 Hc1b Hla Ht35) as Hcw.
    pose proof (log_of_wait la t35 w1) as Hlw.
    set (w3 := wait_cw la t35 w1) in *.
    rewrite now_T. rewrite write_T.
    change (negb (0 =? 0)) with false. cbv iota.
    rewrite now_T. rewrite sleep_T.
    match goal with |- context [t_read_rtu T C ?w] =>
      pose proof (log_of_read_rtu w) as Hl8;
      destruct (t_read_rtu T C w) as [[w8 res] e3] end.
    cbn [fst] in Hl8. rewrite log_of_sleep, log_of_mk in Hl8.
    assert (Hl9 : log_of (if (e3 =? c_badcrc C) || (e3 =? c_proto C) || (e3 =? c_short C)
                          then t_discard T (t_sleep T w8 (mul64 256 t1)) else w8)
                  = (log ++ [VN (clock_of w3)])%list).
    { destruct (_ || _).
      - rewrite log_of_discard, sleep_T, log_of_sleep, Hl8. congruence.
      - rewrite Hl8. congruence. }
    destruct (negb (e3 =? c_timedout C)).
    - rewrite now_T. right. exists (clock_of w3). split; [exact Hl9 | lia].
    - right. exists (clock_of w3). split; [exact Hl9 | lia].
  Qed.
End NeverEarly.

(* the same, as a statement about every logged instant beyond [log] *)
Corollary rtu_execute_never_early_all T C sc tmo la t35 t1 req c0 log :
  (forall w, t_now T w = t_now (clock_world sc) w) ->
  (forall w d, t_sleep T w d = t_sleep (clock_world sc) w d) ->
  (forall w bs, t_write T w bs = t_write (clock_world sc) w bs) ->
  (forall w d, clock_of w < 2 ^ 62 ->
     clock_of w <= clock_of (fst (t_setdl T w d)) /\ clock_of (fst (t_setdl T w d)) < 2 ^ 62) ->
  (forall w d, log_of (fst (t_setdl T w d)) = log_of w) ->
  (forall w n, log_of (fst (fst (t_readfull T w n))) = log_of w) ->
  c0 < 2 ^ 62 -> la < 2 ^ 62 -> t35 < 2 ^ 40 ->
  let '(la', w', p, e) := t_rtu_execute T C tmo la t35 t1 req (mkclock c0 log) in
  exists extra, log_of w' = (log ++ extra)%list /\
    Forall (fun v => exists t, v = VN t /\ la + t35 <= t) extra.
Proof.
  intros Hnow Hsleep Hwrite Hsc Hsl Hrl Hc Hla Ht35.
  pose proof (rtu_execute_never_early T C sc Hnow Hsleep Hwrite Hsc Hsl Hrl
                tmo la t35 t1 req c0 log Hc Hla Ht35) as H.
  destruct (t_rtu_execute T C tmo la t35 t1 req (mkclock c0 log)) as [[[la' w'] p] e].
  destruct H as [H | [t [H [Ht _]]]].
  - exists []. rewrite app_nil_r. split; [exact H | constructor].
  - exists [VN t]. split; [exact H|]. constructor; [|constructor]. exists t. split; [reflexivity | exact Ht].
Qed.

Check rtu_execute_timing.
Check rtu_write_response_timing.
Check rtu_execute_never_early.
Print Assumptions rtu_execute_timing.
Print Assumptions rtu_write_response_timing.
Print Assumptions rtu_execute_never_early.
Print Assumptions rtu_execute_never_early_all.
