(* udp.go (udpSockWrapper) and tls_utils.go (tlsSockWrapper) as translated from
   the Go source (Gen/SrcPure.v) compute the wrapper model of Model/Transport.v
   (Section Wrappers) on every world; then the same inside the linked program. *)
From Coq Require Import List NArith String Lia Bool.
From Coq Require Import ZifyBool ZifyNat ZifyN.
Import ListNotations.
From Modbus Require Import Base.Bytes Model.GoLite Gen.SrcPure Model.Wire Model.Transport.
From Modbus Require Import Proofs.GoLiteP Proofs.GoLiteLinkP Proofs.SrcCrcP Proofs.SrcMiscP Proofs.SrcClientP
  Proofs.SrcTransportP Proofs.SrcWrapP.
Open Scope string_scope.
Open Scope N_scope.
Ltac Zify.zify_post_hook ::= Z.div_mod_to_equations.

(* ---------------------------------------------------------------- the one-call wrappers *)

Lemma run_udp_Write fe fuel T lft rxbuf buf w : sock_hyp fe T ->
  run_fn ge fe fuel src_fn_udpSockWrapper_Write [VN lft; vbytes rxbuf; vbytes buf; w] = out_udp_write T lft rxbuf buf w.
Proof.
  intros (_ & Hwr & _ & _).
  unfold run_fn, src_fn_udpSockWrapper_Write, out_udp_write.
  gl_step. rewrite Hwr.
  destruct (t_write T w buf) as [[w1 n] e].
  gl_step. reflexivity.
Qed.

Lemma run_udp_Close fe fuel T lft rxbuf w : sock_hyp fe T ->
  run_fn ge fe fuel src_fn_udpSockWrapper_Close [VN lft; vbytes rxbuf; w] = out_udp_close T lft rxbuf w.
Proof.
  intros (_ & _ & Hcl & _).
  unfold run_fn, src_fn_udpSockWrapper_Close, out_udp_close.
  gl_step. rewrite Hcl. gl_step. reflexivity.
Qed.

Lemma run_udp_SetDeadline fe fuel T lft rxbuf d w : sock_hyp fe T ->
  run_fn ge fe fuel src_fn_udpSockWrapper_SetDeadline [VN lft; vbytes rxbuf; VN d; w] = out_udp_setdl T lft rxbuf d w.
Proof.
  intros (_ & _ & _ & Hdl).
  unfold run_fn, src_fn_udpSockWrapper_SetDeadline, out_udp_setdl.
  gl_step. rewrite Hdl. gl_step. reflexivity.
Qed.

Lemma run_tls_Close fe fuel T w : sock_hyp fe T -> run_fn ge fe fuel src_fn_tlsSockWrapper_Close [w] = out_tls_close T w.
Proof.
  intros (_ & _ & Hcl & _).
  unfold run_fn, src_fn_tlsSockWrapper_Close, out_tls_close.
  gl_step. rewrite Hcl. gl_step. reflexivity.
Qed.

Lemma run_tls_SetDeadline fe fuel T d w : sock_hyp fe T ->
  run_fn ge fe fuel src_fn_tlsSockWrapper_SetDeadline [VN d; w] = out_tls_setdl T d w.
Proof.
  intros (_ & _ & _ & Hdl).
  unfold run_fn, src_fn_tlsSockWrapper_SetDeadline, out_tls_setdl.
  gl_step. rewrite Hdl. gl_step. reflexivity.
Qed.

(* Write: the socket is closed after a write that timed out *)
Lemma run_tls_Write fe fuel T buf w : sock_hyp fe T ->
  run_fn ge fe fuel src_fn_tlsSockWrapper_Write [vbytes buf; w] = out_tls_write T buf w.
Proof.
  intros (_ & Hwr & Hcl & _).
  unfold run_fn, src_fn_tlsSockWrapper_Write, out_tls_write, t_tls_write.
  gl_step. rewrite Hwr.
  destruct (t_write T w buf) as [[w1 n] e].
  gl_auto.
  destruct (e =? 0) eqn:E0; gl_auto; [reflexivity|].
  destruct (e =? 2) eqn:E2; gl_auto; [|reflexivity].
  rewrite Hcl. gl_auto. reflexivity.
Qed.

(* ---------------------------------------------------------------- evaluation, one construct at a time *)

Section Steps.
  Variables (fe : fenv) (fuel : nat).

  Lemma exec_seq_n st a b st1 o :
    exec ge fe fuel st a = ONormal st1 -> exec ge fe fuel st1 b = o -> exec ge fe fuel st (SSeq a b) = o.
  Proof. intros H1 H2. cbn [exec]. rewrite H1. exact H2. Qed.

  Lemma exec_set st x e v st1 :
    eval ge fe st e = GOk v -> set_slot st x v = GOk st1 -> exec ge fe fuel st (SSet (LVar x) e) = ONormal st1.
  Proof. intros H1 H2. cbn [exec resolve rbind]. rewrite H1. cbn [rbind store]. rewrite H2. reflexivity. Qed.

  Lemma exec_if_true st c a b o :
    eval ge fe st c = GOk (VB true) -> exec ge fe fuel st a = o -> exec ge fe fuel st (SIf c a b) = o.
  Proof. intros H1 H2. cbn [exec]. rewrite H1. exact H2. Qed.

  Lemma exec_if_false st c a b o :
    eval ge fe st c = GOk (VB false) -> exec ge fe fuel st b = o -> exec ge fe fuel st (SIf c a b) = o.
  Proof. intros H1 H2. cbn [exec]. rewrite H1. exact H2. Qed.

  Lemma eval_len_b st a l : eval ge fe st a = GOk (vbytes l) -> eval ge fe st (ELen a) = GOk (VN (lenN l)).
  Proof. intros H. cbn [eval]. rewrite H. unfold vbytes, lenN. cbn [rbind]. rewrite map_length. reflexivity. Qed.

  (* a[lo:hi] on bytes *)
  Lemma eval_slice_b st a lo hi l x y :
    eval ge fe st a = GOk (vbytes l) -> eval ge fe st lo = GOk (VN x) -> eval ge fe st hi = GOk (VN y) ->
    x <= y -> y <= lenN l ->
    eval ge fe st (ESlice a lo hi) = GOk (vbytes (firstn (N.to_nat (y - x)) (skipn (N.to_nat x) l))).
  Proof.
    intros Ha Hlo Hhi H1 H2. cbn [eval]. rewrite Ha, Hlo, Hhi. unfold vbytes, lenN in *. cbn [rbind].
    rewrite map_length.
    replace ((x <=? y) && (y <=? N.of_nat (List.length l))) with true by lia.
    rewrite skipn_map, firstn_map. reflexivity.
  Qed.

  Lemma eval_app_b st a b l m :
    eval ge fe st a = GOk (vbytes l) -> eval ge fe st b = GOk (vbytes m) ->
    eval ge fe st (EAppendSlice a b) = GOk (vbytes (l ++ m)).
  Proof. intros Ha Hb. cbn [eval]. rewrite Ha, Hb. unfold vbytes. cbn [rbind]. rewrite map_app. reflexivity. Qed.

  (* _k := min(len dst, len _src) *)
  Definition min_stmt (dst src k : nat) : stmt :=
    SIf (ECmp CLt (ELen (EVar dst)) (ELen (EVar src))) (SSet (LVar k) (ELen (EVar dst))) (SSet (LVar k) (ELen (EVar src))).

  Lemma exec_min st dst src k d s st1 :
    get_slot st dst = GOk (vbytes d) -> get_slot st src = GOk (vbytes s) ->
    set_slot st k (VN (go_copy_n d s)) = GOk st1 ->
    exec ge fe fuel st (min_stmt dst src k) = ONormal st1.
  Proof.
    intros Hd Hs Hk. unfold min_stmt.
    assert (Ed : eval ge fe st (ELen (EVar dst)) = GOk (VN (lenN d))) by (apply eval_len_b; exact Hd).
    assert (Es : eval ge fe st (ELen (EVar src)) = GOk (VN (lenN s))) by (apply eval_len_b; exact Hs).
    destruct (lenN d <? lenN s) eqn:E.
    - apply exec_if_true.
      + cbn [eval] in *. rewrite Ed, Es. cbn [rbind compare_v compare_n]. rewrite E. reflexivity.
      + eapply exec_set; [exact Ed|]. rewrite <- Hk. do 2 f_equal. unfold go_copy_n, lenN in *. lia.
    - apply exec_if_false.
      + cbn [eval] in *. rewrite Ed, Es. cbn [rbind compare_v compare_n]. rewrite E. reflexivity.
      + eapply exec_set; [exact Es|]. rewrite <- Hk. do 2 f_equal. unfold go_copy_n, lenN in *. lia.
  Qed.

  (* dst := _src[0:_k] ++ dst[_k:] *)
  Definition copy_e (dst src k : nat) : expr :=
    EAppendSlice (ESlice (EVar src) (EN 0) (EVar k)) (ESlice (EVar dst) (EVar k) (ELen (EVar dst))).

  Lemma eval_copy st dst src k d s :
    get_slot st dst = GOk (vbytes d) -> get_slot st src = GOk (vbytes s) ->
    get_slot st k = GOk (VN (go_copy_n d s)) ->
    eval ge fe st (copy_e dst src k) = GOk (vbytes (go_copy d s)).
  Proof.
    intros Hd Hs Hk. unfold copy_e.
    assert (Hkd : go_copy_n d s <= lenN d) by (unfold go_copy_n, lenN; lia).
    assert (Hks : go_copy_n d s <= lenN s) by (unfold go_copy_n, lenN; lia).
    rewrite (eval_app_b st _ _ (firstn (N.to_nat (go_copy_n d s - 0)) (skipn (N.to_nat 0) s))
               (firstn (N.to_nat (lenN d - go_copy_n d s)) (skipn (N.to_nat (go_copy_n d s)) d))).
    - unfold go_copy. change (N.to_nat 0) with 0%nat. cbn [skipn].
      rewrite N.sub_0_r. unfold go_copy_n. rewrite Nat2N.id.
      rewrite (firstn_all2 (n := N.to_nat _)); [reflexivity|].
      rewrite skipn_length. unfold lenN. lia.
    - eapply eval_slice_b; [exact Hs|reflexivity|exact Hk|lia|exact Hks].
    - eapply eval_slice_b; [exact Hd|exact Hk|apply eval_len_b; exact Hd|exact Hkd|lia].
  Qed.

  (* b := b[0:0] ++ read ++ b[0+len(read):len(b)] *)
  Definition splice_e (b k : nat) : expr :=
    EAppendSlice (EAppendSlice (ESlice (EVar b) (EN 0) (EN 0)) (EVar k))
                 (ESlice (EVar b) (EBin OAdd (U 64) (EN 0) (ELen (EVar k))) (ELen (EVar b))).

  Lemma eval_splice st b k buf got :
    get_slot st b = GOk (vbytes buf) -> get_slot st k = GOk (vbytes got) ->
    lenN got <= lenN buf -> lenN buf < 2 ^ 64 ->
    eval ge fe st (splice_e b k) = GOk (vbytes (got ++ skipn (List.length got) buf)).
  Proof.
    intros Hb Hk Hle Hlt. unfold splice_e.
    assert (Hadd : eval ge fe st (EBin OAdd (U 64) (EN 0) (ELen (EVar k))) = GOk (VN (lenN got))).
    { cbn [eval rbind]. rewrite Hk. unfold vbytes. cbn [rbind arith wrap]. rewrite map_length.
      change (2 ^ 64) with 18446744073709551616 in *. unfold lenN in *.
      replace ((0 + N.of_nat (List.length got)) mod 18446744073709551616) with (N.of_nat (List.length got)) by lia.
      reflexivity. }
    rewrite (eval_app_b st _ _ (firstn (N.to_nat (0 - 0)) (skipn (N.to_nat 0) buf) ++ got)
               (firstn (N.to_nat (lenN buf - lenN got)) (skipn (N.to_nat (lenN got)) buf))).
    - change (N.to_nat (0 - 0)) with 0%nat. cbn [firstn app].
      unfold lenN. rewrite Nat2N.id.
      rewrite firstn_all2; [reflexivity|].
      rewrite skipn_length. lia.
    - eapply eval_app_b.
      + eapply eval_slice_b; [exact Hb|reflexivity|reflexivity|lia|lia].
      + exact Hk.
    - eapply eval_slice_b; [exact Hb|exact Hadd|apply eval_len_b; exact Hb|exact Hle|lia].
  Qed.
End Steps.

(* ---------------------------------------------------------------- tlsSockWrapper.Read *)

Local Ltac gl_more :=
  repeat (progress (gl_step;
                    cbn [compare_v compare_n arith wrap negb andb orb ofail Bool.eqb vbytes];
                    gl_consts)).

Definition tls_read_body : stmt :=
  SSeq (SSeq (SCall "sock.Read" (ECons (EVar 1) (ECons (EBin OSub (U 64) (ELen (EVar 0)) (EN 0)) (ENil)))
                    [LVar 1; LVar 4; LVar 3])
             (SSeq (SSet (LVar 0) (splice_e 0 4)) (SSet (LVar 2) (ELen (EVar 4)))))
       (SReturn (ENil)).

Lemma tls_read_body_eq : f_body src_fn_tlsSockWrapper_Read = tls_read_body.
Proof. reflexivity. Qed.

Lemma run_tls_Read fe fuel T buf w : sock_hyp fe T -> tread_wf T -> lenN buf < 2 ^ 32 ->
  run_fn ge fe fuel src_fn_tlsSockWrapper_Read [vbytes buf; w] = out_tls_read T buf w.
Proof.
  intros (Hrd & _) Hwf Hlen.
  unfold run_fn. rewrite tls_read_body_eq.
  unfold src_fn_tlsSockWrapper_Read, out_tls_read, t_tls_read, tls_read_body.
  assert (H64 : lenN buf < 18446744073709551616) by (change (2 ^ 32) with 4294967296 in Hlen; lia).
  gl_more. rewrite map_length.
  change (2 ^ 64) with 18446744073709551616.
  replace ((N.of_nat (List.length buf) + 18446744073709551616 - 0 mod 18446744073709551616) mod 18446744073709551616)
    with (lenN buf) by (unfold lenN in *; lia).
  rewrite Hrd.
  pose proof (Hwf w (lenN buf)) as Hw.
  destruct (t_readfull T w (lenN buf)) as [[w1 got] e].
  destruct Hw as [Hby Hle].
  gl_step.
  erewrite eval_splice; [|reflexivity|reflexivity|exact Hle|exact H64].
  gl_more. rewrite map_length. reflexivity.
Qed.

(* ---------------------------------------------------------------- udpSockWrapper.Read *)

Section Steps2.
  Variables (fe : fenv) (fuel : nat).

  Lemma eval_slice0_b st a hi l y :
    eval ge fe st a = GOk (vbytes l) -> eval ge fe st hi = GOk (VN y) -> y <= lenN l ->
    eval ge fe st (ESlice a (EN 0) hi) = GOk (vbytes (firstn (N.to_nat y) l)).
  Proof.
    intros Ha Hhi Hy.
    rewrite (eval_slice_b fe st a (EN 0) hi l 0 y Ha eq_refl Hhi); [|lia|exact Hy].
    rewrite N.sub_0_r. reflexivity.
  Qed.

  Lemma eval_sub64 st a b x y :
    eval ge fe st a = GOk (VN x) -> eval ge fe st b = GOk (VN y) -> y <= x -> x < 2 ^ 64 ->
    eval ge fe st (EBin OSub (U 64) a b) = GOk (VN (x - y)).
  Proof.
    intros Ha Hb Hle Hlt. cbn [eval]. rewrite Ha, Hb. cbn [rbind arith].
    change (2 ^ 64) with 18446744073709551616 in *.
    replace ((x + 18446744073709551616 - y mod 18446744073709551616) mod 18446744073709551616) with (x - y) by lia.
    reflexivity.
  Qed.

  Lemma eval_cmps_gt st a b x y :
    eval ge fe st a = GOk (VN x) -> eval ge fe st b = GOk (VN y) -> x < 2 ^ 63 -> y < 2 ^ 63 ->
    eval ge fe st (ECmpS CGt a b) = GOk (VB (y <? x)).
  Proof.
    intros Ha Hb Hx Hy. cbn [eval]. rewrite Ha, Hb. cbn [rbind compare_n]. unfold sbias.
    change (2 ^ 64) with 18446744073709551616 in *. change (2 ^ 63) with 9223372036854775808 in *.
    do 2 f_equal. lia.
  Qed.

  Lemma exec_if_b st c a b bb o :
    eval ge fe st c = GOk (VB bb) -> exec ge fe fuel st (if bb then a else b) = o ->
    exec ge fe fuel st (SIf c a b) = o.
  Proof. intros H1 H2. cbn [exec]. rewrite H1. destruct bb; exact H2. Qed.
End Steps2.

(* copied = copy(buf, rxbuf[0:av]); if av > copied { copy(rxbuf, rxbuf[copied:av]) }; leftoverCount = av - copied *)
Definition take_stmt (av s1 k1 s2 k2 : nat) : stmt :=
  SSeq (SSeq (SSet (LVar s1) (ESlice (EVar 1) (EN 0) (EVar av)))
       (SSeq (min_stmt 2 s1 k1)
       (SSeq (SSet (LVar 2) (copy_e 2 s1 k1))
             (SSet (LVar 6) (EVar k1)))))
  (SSeq (SIf (ECmpS CGt (EVar av) (EVar 6))
          (SSeq (SSet (LVar s2) (ESlice (EVar 1) (EVar 6) (EVar av)))
          (SSeq (min_stmt 1 s2 k2)
                (SSet (LVar 1) (copy_e 1 s2 k2))))
          (SSkip))
        (SSet (LVar 0) (EBin OSub (U 64) (EVar av) (EVar 6)))).

Definition udp_read_body : stmt :=
  SSeq (SSet (LVar 6) (EN 0))
  (SSeq (SIf (ECmpS CGt (EVar 0) (EN 0))
     (take_stmt 0 12 13 14 15)
     (SSeq (SSeq (SCall "sock.Read" (ECons (EVar 3) (ECons (EBin OSub (U 64) (ELen (EVar 1)) (EN 0)) (ENil)))
                        [LVar 3; LVar 7; LVar 5])
                 (SSeq (SSet (LVar 1) (splice_e 1 7)) (SSet (LVar 4) (ELen (EVar 7)))))
     (SSeq (SIf (ECmp CNe (EVar 5) (EN 0)) (SReturn (ENil)) (SSkip))
           (take_stmt 4 8 9 10 11))))
  (SSeq (SSet (LVar 4) (EVar 6)) (SReturn (ENil)))).

Lemma udp_read_body_eq : f_body src_fn_udpSockWrapper_Read = udp_read_body.
Proof. reflexivity. Qed.

Lemma skipn_firstn_N (l : list N) avail k : k <= avail ->
  skipn (N.to_nat k) (firstn (N.to_nat avail) l) = firstn (N.to_nat (avail - k)) (skipn (N.to_nat k) l).
Proof. intros H. rewrite skipn_firstn_comm. f_equal. lia. Qed.

Local Ltac set_done := cbn [set_slot sset]; reflexivity.

Local Ltac take_tac Hav H32 k Hk E :=
  unfold t_udp_take;
  match goal with
  | |- context [go_copy_n ?b (firstn (N.to_nat ?a) ?r)] =>
      assert (Hk : go_copy_n b (firstn (N.to_nat a) r) <= a)
        by (unfold go_copy_n, lenN in *; rewrite firstn_length; lia);
      rewrite (skipn_firstn_N r a _ Hk);
      set (k := go_copy_n b (firstn (N.to_nat a) r)) in *;
      change (2 ^ 32) with 4294967296 in H32;
      destruct (k <? a) eqn:E; cbv beta iota zeta; eexists; unfold take_stmt;
      (eapply exec_seq_n;
       [ eapply exec_seq_n;
         [ eapply exec_set; [eapply eval_slice0_b; [reflexivity|reflexivity|exact Hav]|set_done] |];
         eapply exec_seq_n; [eapply exec_min; [reflexivity|reflexivity|set_done]|];
         eapply exec_seq_n; [eapply exec_set; [eapply eval_copy; reflexivity|set_done]|];
         eapply exec_set; [reflexivity|set_done] |]);
      (eapply exec_seq_n;
       [ eapply exec_if_b;
         [ eapply eval_cmps_gt; [reflexivity|reflexivity| |];
           change (2 ^ 63) with 9223372036854775808; unfold lenN in *; lia |];
         fold k; rewrite E |])
  end.

Local Ltac take_move Hav Hk :=
  eapply exec_seq_n;
  [ eapply exec_set; [eapply eval_slice_b; [reflexivity|reflexivity|reflexivity|exact Hk|exact Hav]|set_done] |];
  eapply exec_seq_n; [eapply exec_min; [reflexivity|reflexivity|set_done]|];
  eapply exec_set; [eapply eval_copy; reflexivity|set_done].

Local Ltac take_last Hk H32 :=
  eapply exec_set;
  [ eapply eval_sub64; [reflexivity|reflexivity|exact Hk|];
    change (2 ^ 64) with 18446744073709551616; unfold lenN in *; lia
  | set_done ].

Lemma exec_take_A fe fuel avail rxbuf buf w v4 v5 v6 v7 v8 v9 v10 v11 v12 v13 v14 v15 :
  avail <= lenN rxbuf -> lenN rxbuf < 2 ^ 32 ->
  exists rest,
    exec ge fe fuel [VN avail; vbytes rxbuf; vbytes buf; w; v4; v5; v6; v7; v8; v9; v10; v11; v12; v13; v14; v15]
         (take_stmt 0 12 13 14 15) =
    let '(l', rx', buf', k) := t_udp_take avail rxbuf buf in
    ONormal (VN l' :: vbytes rx' :: vbytes buf' :: w :: v4 :: v5 :: VN k :: rest).
Proof.
  intros Hav H32.
  take_tac Hav H32 k Hk E.
  - take_move Hav Hk.
  - take_last Hk H32.
  - reflexivity.
  - take_last Hk H32.
Qed.

Lemma exec_take_B fe fuel avail rxbuf buf w v0 v5 v6 v7 v8 v9 v10 v11 v12 v13 v14 v15 :
  avail <= lenN rxbuf -> lenN rxbuf < 2 ^ 32 ->
  exists rest,
    exec ge fe fuel [v0; vbytes rxbuf; vbytes buf; w; VN avail; v5; v6; v7; v8; v9; v10; v11; v12; v13; v14; v15]
         (take_stmt 4 8 9 10 11) =
    let '(l', rx', buf', k) := t_udp_take avail rxbuf buf in
    ONormal (VN l' :: vbytes rx' :: vbytes buf' :: w :: VN avail :: v5 :: VN k :: rest).
Proof.
  intros Hav H32.
  take_tac Hav H32 k Hk E.
  - take_move Hav Hk.
  - take_last Hk H32.
  - reflexivity.
  - take_last Hk H32.
Qed.

Lemma run_udp_Read fe fuel T lft rxbuf buf w : sock_hyp fe T -> tread_wf T -> bytesb rxbuf = true -> bytesb buf = true ->
  lft <= lenN rxbuf -> lenN rxbuf < 2 ^ 32 -> lenN buf < 2 ^ 32 ->
  run_fn ge fe fuel src_fn_udpSockWrapper_Read [VN lft; vbytes rxbuf; vbytes buf; w] = out_udp_read T lft rxbuf buf w.
Proof.
  intros (Hrd & _) Hwf _ _ Hlft Hrx Hbuf.
  unfold run_fn. rewrite udp_read_body_eq.
  unfold src_fn_udpSockWrapper_Read, out_udp_read, t_udp_read, udp_read_body.
  gl_step. cbn [compare_n].
  assert (H32 : lenN rxbuf < 4294967296) by exact Hrx.
  replace (sbias 0 <? sbias lft) with (0 <? lft)
    by (unfold sbias; change (2 ^ 64) with 18446744073709551616; change (2 ^ 63) with 9223372036854775808; lia).
  destruct (0 <? lft) eqn:E0.
  - (* leftover bytes *)
    edestruct (exec_take_A fe fuel lft rxbuf buf w) as [rest Hex]; [exact Hlft|exact Hrx|].
    rewrite Hex.
    destruct (t_udp_take lft rxbuf buf) as [[[l' rx'] buf'] k].
    gl_step. reflexivity.
  - (* a datagram is read *)
    assert (lft = 0) by lia. subst lft.
    gl_more. rewrite map_length.
    change (2 ^ 64) with 18446744073709551616.
    replace ((N.of_nat (List.length rxbuf) + 18446744073709551616 - 0 mod 18446744073709551616) mod 18446744073709551616)
      with (lenN rxbuf) by (unfold lenN in *; lia).
    rewrite Hrd.
    pose proof (Hwf w (lenN rxbuf)) as Hw.
    destruct (t_readfull T w (lenN rxbuf)) as [[w1 got] e].
    destruct Hw as [Hby Hle].
    gl_step.
    erewrite eval_splice; [|reflexivity|reflexivity|exact Hle|lia].
    gl_more. rewrite map_length.
    destruct (e =? 0) eqn:Ee; gl_more; [|reflexivity].
    apply N.eqb_eq in Ee. subst e.
    assert (Hlen1 : lenN (got ++ skipn (List.length got) rxbuf) = lenN rxbuf).
    { unfold lenN in *. rewrite app_length, skipn_length. lia. }
    edestruct (exec_take_B fe fuel (lenN got) (got ++ skipn (List.length got) rxbuf) buf w1) as [rest Hex];
      [rewrite Hlen1; exact Hle|rewrite Hlen1; exact Hrx|].
    unfold lenN in Hex at 1. rewrite Hex.
    destruct (t_udp_take (lenN got) (got ++ skipn (List.length got) rxbuf) buf) as [[[l' rx'] buf'] k].
    gl_step. reflexivity.
Qed.

(* ---------------------------------------------------------------- inside the linked program *)

(* [sock_hyp] only looks at four names of the environment *)
Lemma sock_hyp_ext (fe fe' : fenv) T :
  (forall a, fe' "sock.Read" a = fe "sock.Read" a) ->
  (forall a, fe' "sock.Write" a = fe "sock.Write" a) ->
  (forall a, fe' "sock.Close" a = fe "sock.Close" a) ->
  (forall a, fe' "sock.SetDeadline" a = fe "sock.SetDeadline" a) ->
  sock_hyp fe T -> sock_hyp fe' T.
Proof.
  intros E1 E2 E3 E4 (H1 & H2 & H3 & H4).
  unfold sock_hyp. repeat split; intros.
  - rewrite E1. apply H1.
  - rewrite E2. apply H2.
  - rewrite E3. apply H3.
  - rewrite E4. apply H4.
Qed.

(* none of the four names is a function of the program: the caller's
   environment hands them to the base environment *)
Ltac sock_env caller HT :=
  let a := fresh "a" in
  refine (sock_hyp_ext _ _ _ _ _ _ _ HT); intros a;
  [ exact (env_base src_pure _ caller "sock.Read" eq_refl _ a)
  | exact (env_base src_pure _ caller "sock.Write" eq_refl _ a)
  | exact (env_base src_pure _ caller "sock.Close" eq_refl _ a)
  | exact (env_base src_pure _ caller "sock.SetDeadline" eq_refl _ a) ].

Theorem src_udp_Read_ok base fuel T lft rxbuf buf w :
  sock_hyp base T -> tread_wf T -> bytesb rxbuf = true -> bytesb buf = true ->
  lft <= lenN rxbuf -> lenN rxbuf < 2 ^ 32 -> lenN buf < 2 ^ 32 ->
  call_with src_pure base fuel "udpSockWrapper.Read" [VN lft; vbytes rxbuf; vbytes buf; w] = out_udp_read T lft rxbuf buf w.
Proof.
  intros HT Hwf Hb1 Hb2 H1 H2 H3.
  link_step "udpSockWrapper.Read" src_fn_udpSockWrapper_Read.
  apply run_udp_Read; [|exact Hwf|exact Hb1|exact Hb2|exact H1|exact H2|exact H3].
  sock_env "udpSockWrapper.Read" HT.
Qed.

Theorem src_udp_Write_ok base fuel T lft rxbuf buf w : sock_hyp base T ->
  call_with src_pure base fuel "udpSockWrapper.Write" [VN lft; vbytes rxbuf; vbytes buf; w] = out_udp_write T lft rxbuf buf w.
Proof.
  intros HT.
  link_step "udpSockWrapper.Write" src_fn_udpSockWrapper_Write.
  apply run_udp_Write.
  sock_env "udpSockWrapper.Write" HT.
Qed.

Theorem src_udp_Close_ok base fuel T lft rxbuf w : sock_hyp base T ->
  call_with src_pure base fuel "udpSockWrapper.Close" [VN lft; vbytes rxbuf; w] = out_udp_close T lft rxbuf w.
Proof.
  intros HT.
  link_step "udpSockWrapper.Close" src_fn_udpSockWrapper_Close.
  apply run_udp_Close.
  sock_env "udpSockWrapper.Close" HT.
Qed.

Theorem src_udp_SetDeadline_ok base fuel T lft rxbuf d w : sock_hyp base T ->
  call_with src_pure base fuel "udpSockWrapper.SetDeadline" [VN lft; vbytes rxbuf; VN d; w] = out_udp_setdl T lft rxbuf d w.
Proof.
  intros HT.
  link_step "udpSockWrapper.SetDeadline" src_fn_udpSockWrapper_SetDeadline.
  apply run_udp_SetDeadline.
  sock_env "udpSockWrapper.SetDeadline" HT.
Qed.

Theorem src_tls_Read_ok base fuel T buf w : sock_hyp base T -> tread_wf T -> lenN buf < 2 ^ 32 ->
  call_with src_pure base fuel "tlsSockWrapper.Read" [vbytes buf; w] = out_tls_read T buf w.
Proof.
  intros HT Hwf Hlen.
  link_step "tlsSockWrapper.Read" src_fn_tlsSockWrapper_Read.
  apply run_tls_Read; [|exact Hwf|exact Hlen].
  sock_env "tlsSockWrapper.Read" HT.
Qed.

Theorem src_tls_Write_ok base fuel T buf w : sock_hyp base T ->
  call_with src_pure base fuel "tlsSockWrapper.Write" [vbytes buf; w] = out_tls_write T buf w.
Proof.
  intros HT.
  link_step "tlsSockWrapper.Write" src_fn_tlsSockWrapper_Write.
  apply run_tls_Write.
  sock_env "tlsSockWrapper.Write" HT.
Qed.

Theorem src_tls_Close_ok base fuel T w : sock_hyp base T ->
  call_with src_pure base fuel "tlsSockWrapper.Close" [w] = out_tls_close T w.
Proof.
  intros HT.
  link_step "tlsSockWrapper.Close" src_fn_tlsSockWrapper_Close.
  apply run_tls_Close.
  sock_env "tlsSockWrapper.Close" HT.
Qed.

Theorem src_tls_SetDeadline_ok base fuel T d w : sock_hyp base T ->
  call_with src_pure base fuel "tlsSockWrapper.SetDeadline" [VN d; w] = out_tls_setdl T d w.
Proof.
  intros HT.
  link_step "tlsSockWrapper.SetDeadline" src_fn_tlsSockWrapper_SetDeadline.
  apply run_tls_SetDeadline.
  sock_env "tlsSockWrapper.SetDeadline" HT.
Qed.

Print Assumptions run_udp_Read.
Print Assumptions run_udp_Write.
Print Assumptions run_udp_Close.
Print Assumptions run_udp_SetDeadline.
Print Assumptions run_tls_Read.
Print Assumptions run_tls_Write.
Print Assumptions run_tls_Close.
Print Assumptions run_tls_SetDeadline.
Print Assumptions src_udp_Read_ok.
Print Assumptions src_udp_Write_ok.
Print Assumptions src_udp_Close_ok.
Print Assumptions src_udp_SetDeadline_ok.
Print Assumptions src_tls_Read_ok.
Print Assumptions src_tls_Write_ok.
Print Assumptions src_tls_Close_ok.
Print Assumptions src_tls_SetDeadline_ok.
