(* Idle expiry happens no earlier than the timeout after the last request
   read began, and a connection that stays idle is closed at that instant. *)
From Coq Require Import ZArith List Bool Lia.
Import ListNotations.
From Modbus Require Import Model.IdleTimer.
Local Open Scope Z_scope.

(* invariant: while reading, the deadline is exactly the last read start + timeout *)
Definition idle_inv (timeout : Z) (s : idle_st) (last : option Z) : Prop :=
  id_reading s = true -> exists t, last = Some t /\ id_deadline s = t + timeout /\ t <= id_now s.

Lemma idle_inv_step timeout s e last :
  idle_inv timeout s last -> idle_ok timeout s e = true ->
  idle_inv timeout (idle_step timeout s e)
    (match e with IReadStart t => Some t | _ => last end).
Proof.
  intros I Hok. unfold idle_inv in *. destruct e as [t|t|t]; cbn [idle_step id_reading id_deadline id_now].
  - intros _. exists t. repeat split; lia.
  - discriminate.
  - discriminate.
Qed.

Lemma last_read_start_app tr e acc :
  last_read_start (tr ++ [e]) acc =
  match e with IReadStart t => Some t | _ => last_read_start tr acc end.
Proof.
  revert acc; induction tr as [|x tr IH]; intros acc; [destruct e; reflexivity|].
  destruct x; cbn [app last_read_start]; apply IH.
Qed.

Lemma idle_valid_app timeout tr : forall s e,
  idle_valid timeout s (tr ++ [e]) = true ->
  idle_valid timeout s tr = true /\ idle_ok timeout (idle_run timeout s tr) e = true.
Proof.
  induction tr as [|x tr IH]; intros s e H; cbn [app idle_valid idle_run fold_left] in *.
  - apply andb_true_iff in H as [H _]. split; [reflexivity|exact H].
  - apply andb_true_iff in H as [H1 H2]. destruct (IH _ _ H2) as [A B]. rewrite H1, A. split; [reflexivity|exact B].
Qed.

Lemma idle_inv_run timeout tr : forall s acc, idle_inv timeout s acc ->
  idle_valid timeout s tr = true ->
  idle_inv timeout (idle_run timeout s tr) (last_read_start tr acc).
Proof.
  induction tr as [|e tr IH]; intros s acc I V; [exact I|].
  cbn [idle_valid] in V. apply andb_true_iff in V as [Hok V].
  cbn [idle_run fold_left last_read_start].
  pose proof (idle_inv_step timeout s e acc I Hok) as I'.
  destruct e; apply (IH _ _ I' V).
Qed.

(* T5a: in every admissible history of a session, an idle expiry at time t
   satisfies t >= (start of the last request read) + timeout *)
Theorem idle_not_early timeout t0 tr t :
  idle_valid timeout (idle_init t0) (tr ++ [IExpire t]) = true ->
  exists r, last_read_start tr None = Some r /\ r + timeout <= t.
Proof.
  intros V. destruct (idle_valid_app timeout tr _ _ V) as [Vtr Hok].
  assert (I0 : idle_inv timeout (idle_init t0) None) by (intros H; discriminate H).
  pose proof (idle_inv_run timeout tr _ _ I0 Vtr) as I.
  unfold idle_ok in Hok. apply andb_true_iff in Hok as [_ Hok].
  apply andb_true_iff in Hok as [Hok Hd]. apply andb_true_iff in Hok as [Hr Hn].
  destruct (I Hr) as (r & Hl & Hdl & _). exists r. split; [exact Hl|].
  apply Z.leb_le in Hd. lia.
Qed.

(* T5b: a connection that stays idle after its last read began can be closed
   at exactly that instant + timeout (the expiry is enabled then), and nothing
   but the expiry or a request that arrived in time can follow *)
Theorem idle_expiry_enabled timeout t0 tr r : 0 <= timeout ->
  idle_valid timeout (idle_init t0) (tr ++ [IReadStart r]) = true ->
  idle_valid timeout (idle_init t0) ((tr ++ [IReadStart r]) ++ [IExpire (r + timeout)]) = true.
Proof.
  intros Ht V. destruct (idle_valid_app timeout tr _ _ V) as [Vtr Hok].
  assert (G : forall tr' s e, idle_valid timeout s tr' = true ->
              idle_ok timeout (idle_run timeout s tr') e = true -> idle_valid timeout s (tr' ++ [e]) = true).
  { induction tr' as [|x tr' IH]; intros s e A B; cbn [app idle_valid idle_run fold_left] in *.
    - rewrite B. reflexivity.
    - apply andb_true_iff in A as [A1 A2]. rewrite A1. cbn [andb]. apply IH; assumption. }
  apply G; [exact V|].
  unfold idle_run. rewrite fold_left_app. cbn [fold_left idle_step].
  unfold idle_ok. cbn [id_ended id_reading id_now id_deadline negb andb].
  apply andb_true_iff. split; apply Z.leb_le; lia.
Qed.

(* nothing happens on an ended session *)
Theorem idle_ended_is_final timeout s e : id_ended s = true -> idle_ok timeout s e = false.
Proof. intros H. unfold idle_ok. rewrite H. reflexivity. Qed.
