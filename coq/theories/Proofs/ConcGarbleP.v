(* Proofs about Model/ConcGarble.v: when every answer of the device is settled
   (its own exchange leaves nothing on the line), the exchanges of a shared RTU
   client return, in every order, what each call returns on a quiet line facing
   its own answer - a garbled reply has no effect on the exchange after it. *)
From Coq Require Import List Bool NArith Permutation.
Import ListNotations.
From Modbus Require Import Base.Bytes Model.Wire Model.Client Spec.ModbusSpec Model.ConcGarble.

Lemma cg_settled_rest cfg c : cg_settled cfg c = true -> cr_rest (cg_own cfg c) = [].
Proof.
  unfold cg_settled. destruct (cr_rest (cg_own cfg c)); [reflexivity|discriminate].
Qed.

(* the line is quiet before every exchange *)
Lemma cg_serial_own cfg l : cg_all_settled cfg l = true -> cg_serial cfg [] l = cg_expected cfg l.
Proof.
  unfold cg_all_settled, cg_expected.
  induction l as [|c t IH]; intros H; [reflexivity|].
  cbn [forallb] in H. apply andb_true_iff in H. destruct H as [Hc Ht].
  cbn [cg_serial map]. rewrite app_nil_l.
  change (client_call FRtu cfg 0 (fst c) Stall (snd c)) with (cg_own cfg c).
  rewrite (cg_settled_rest _ _ Hc). f_equal. exact (IH Ht).
Qed.

Lemma cg_all_settled_perm cfg l l' : Permutation l l' ->
  cg_all_settled cfg l = true -> cg_all_settled cfg l' = true.
Proof.
  unfold cg_all_settled. intros Hp H. apply forallb_forall. intros c Hin.
  apply (proj1 (forallb_forall _ _) H). apply (Permutation_in c (Permutation_sym Hp) Hin).
Qed.

(* whatever the order in which the goroutines get the client *)
Lemma cg_serial_any_order cfg l l' : Permutation l l' -> cg_all_settled cfg l = true ->
  cg_serial cfg [] l' = cg_expected cfg l'.
Proof.
  intros Hp H. apply cg_serial_own. exact (cg_all_settled_perm _ _ _ Hp H).
Qed.

Lemma cg_combine_map (f : cg_call -> call_result) l c r : In (c, r) (combine l (map f l)) -> r = f c.
Proof.
  induction l as [|x t IH]; cbn [map combine In]; [tauto|].
  intros [H|H]; [inversion H; reflexivity|exact (IH H)].
Qed.

(* per call: the result handed to a caller is the one its own answer decides *)
Lemma cg_each_own cfg l l' c r : Permutation l l' -> cg_all_settled cfg l = true ->
  In (c, r) (combine l' (cg_serial cfg [] l')) -> r = cg_own cfg c.
Proof.
  intros Hp H Hin. rewrite (cg_serial_any_order _ _ _ Hp H) in Hin.
  exact (cg_combine_map _ _ _ _ Hin).
Qed.
