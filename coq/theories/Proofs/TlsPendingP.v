(* Proofs about Model/TlsPending.v (property C14): a server object and a
   history of connection attempts some of which stay in their handshake while
   the later ones arrive. As long as a place of MaxClients is free, every
   attempt is decided as the same attempt alone on a fresh server built from
   the same configuration (Proofs/TlsPolicyP.v, Proofs/TlsHistoryP.v): the
   peers whose handshake is pending change nothing for the others. *)
From Modbus Require Import Base.Bytes Model.Encoding Model.Wire Model.Client Model.Server
  Model.Role Model.Config Model.TlsPolicy Model.TlsHistory Model.TlsPending
  Spec.ModbusSpec Spec.ServerSpec Spec.ServerSessionSpec Spec.ConfigSpec Spec.TlsSpec
  Proofs.ConfigP Proofs.ServerP Proofs.TlsPolicyP Proofs.TlsHistoryP.
From Coq Require Import ZifyBool ZifyNat ZifyN.
Ltac Zify.zify_post_hook ::= Z.div_mod_to_equations.

Lemma tls_pending_count_cons {St : Type} (s : tls_pstep St) rest :
  tls_pending_count (s :: rest) =
  (if tls_pace_holds (tps_pace s) then 1 else 0) + tls_pending_count rest.
Proof.
  unfold tls_pending_count. cbn [filter].
  destruct (tls_pace_holds (tps_pace s)); cbn [length]; lia.
Qed.

Lemma tls_pending_count_app {St : Type} (a b : list (tls_pstep St)) :
  tls_pending_count (a ++ b) = tls_pending_count a + tls_pending_count b.
Proof.
  induction a as [|s a IH]; [reflexivity|].
  rewrite <- app_comm_cons, !tls_pending_count_cons, IH. lia.
Qed.

Lemma tls_pending_count_at_once {St : Type} (l : list (tls_pstep St)) :
  (forall s, In s l -> tps_pace s = PaceAtOnce) -> tls_pending_count l = 0.
Proof.
  induction l as [|s rest IH]; intros H; [reflexivity|].
  rewrite tls_pending_count_cons, (H s (or_introl eq_refl)), IH; [reflexivity|].
  intros x Hx. apply H. right. exact Hx.
Qed.

(* a configuration NewServer accepts for tcp+tls has the places of MaxClients (10 when 0) *)
Lemma tls_places_ok c eff : tls_new_server c = CfgOk eff -> tls_places c = se_max_clients eff.
Proof. intros H. unfold tls_places. rewrite H. reflexivity. Qed.

Lemma tls_places_positive c : 0 < tls_places c -> exists eff, tls_new_server c = CfgOk eff.
Proof.
  unfold tls_places. destruct (tls_new_server c) as [eff|x]; [eauto|]. intros H. lia.
Qed.

Section TlsPendingProofs.
  Variable hs : tls_policy -> tls_peer -> option tls_session.
  Variable verifies : option (list tls_cert) -> tls_usage -> N -> list N -> list tls_cert -> Prop.
  Variable now : N.

  Section WithRoleHandler.
    Context {St : Type} (h : list N -> handler St).

    (* one accepted socket: taken in or turned away *)
    Lemma tls_pending_accept_taken o held e s :
      held < tls_places (tso_conf o) ->
      tls_pending_accept hs h o held e s =
      (o, tls_attempt_alone hs h (tso_conf o) e (tls_pstep_seen s),
       if tls_pace_holds (tps_pace s) then held + 1 else held).
    Proof.
      intros H. unfold tls_pending_accept. apply N.ltb_lt in H. rewrite H. reflexivity.
    Qed.

    Lemma tls_pending_accept_full o held e s :
      tls_places (tso_conf o) <= held ->
      tls_pending_accept hs h o held e s = (o, [EvClosed], held).
    Proof.
      intros H. unfold tls_pending_accept. apply N.ltb_ge in H. rewrite H. reflexivity.
    Qed.

    Lemma tls_pending_accept_object o held e s :
      fst (fst (tls_pending_accept hs h o held e s)) = o.
    Proof.
      destruct (N.lt_ge_cases held (tls_places (tso_conf o))) as [H|H].
      - rewrite tls_pending_accept_taken by exact H. reflexivity.
      - rewrite tls_pending_accept_full by exact H. reflexivity.
    Qed.

    (* the object after a history is the object before it, whatever is pending *)
    Lemma tls_pending_history_object o held e l :
      fst (tls_pending_history hs h o held e l) = o.
    Proof.
      revert held. induction l as [|s rest IH]; intros held; [reflexivity|].
      cbn [tls_pending_history].
      pose proof (tls_pending_accept_object o held e s) as Ho.
      destruct (tls_pending_accept hs h o held e s) as [[o1 evs] held1]. cbn [fst] in Ho. subst o1.
      specialize (IH held1). destruct (tls_pending_history hs h o held1 e rest) as [o2 more]. exact IH.
    Qed.

    Lemma tls_pending_history_length o held e l :
      length (snd (tls_pending_history hs h o held e l)) = length l.
    Proof.
      revert o held. induction l as [|s rest IH]; intros o held; [reflexivity|].
      cbn [tls_pending_history].
      destruct (tls_pending_accept hs h o held e s) as [[o1 evs] held1].
      specialize (IH o1 held1). destruct (tls_pending_history hs h o1 held1 e rest) as [o2 more].
      cbn [snd length] in *. rewrite IH. reflexivity.
    Qed.

    (* with a place left for every step, every step is decided as if alone *)
    Lemma tls_pending_history_events o held e l :
      held + tls_pending_count l < tls_places (tso_conf o) ->
      snd (tls_pending_history hs h o held e l) =
      map (tls_attempt_alone hs h (tso_conf o) e) (map tls_pstep_seen l).
    Proof.
      revert held. induction l as [|s rest IH]; intros held H; [reflexivity|].
      rewrite tls_pending_count_cons in H.
      cbn [tls_pending_history map].
      rewrite tls_pending_accept_taken by (destruct (tls_pace_holds (tps_pace s)); lia).
      specialize (IH (if tls_pace_holds (tps_pace s) then held + 1 else held)).
      destruct (tls_pending_history hs h o _ e rest) as [o2 more]. cbn [snd] in *.
      rewrite IH; [reflexivity|]. destruct (tls_pace_holds (tps_pace s)); lia.
    Qed.

    (* the same for one step: the places taken when it arrives are those of
       the pending steps before it *)
    Lemma tls_pending_history_nth o held e l k s :
      nth_error l k = Some s ->
      held + tls_pending_count (firstn k l) < tls_places (tso_conf o) ->
      nth_error (snd (tls_pending_history hs h o held e l)) k =
      Some (tls_attempt_alone hs h (tso_conf o) e (tls_pstep_seen s)).
    Proof.
      revert held k. induction l as [|x rest IH]; intros held k Hk H; [destruct k; discriminate Hk|].
      cbn [tls_pending_history].
      destruct k as [|k].
      - cbn [nth_error] in Hk. injection Hk as ->. cbn [firstn] in H.
        rewrite tls_pending_accept_taken by (unfold tls_pending_count in H; cbn [filter length] in H; lia).
        destruct (tls_pending_history hs h o _ e rest) as [o2 more]. reflexivity.
      - cbn [nth_error] in Hk. cbn [firstn] in H. rewrite tls_pending_count_cons in H.
        rewrite tls_pending_accept_taken by (destruct (tls_pace_holds (tps_pace x)); lia).
        specialize (IH (if tls_pace_holds (tps_pace x) then held + 1 else held) k Hk).
        destruct (tls_pending_history hs h o _ e rest) as [o2 more]. cbn [snd nth_error] in *.
        apply IH. destruct (tls_pace_holds (tps_pace x)); lia.
    Qed.

    (* whatever the places: a step is decided as if alone, or turned away *)
    Lemma tls_pending_history_nth_inv o held e l k evs :
      nth_error (snd (tls_pending_history hs h o held e l)) k = Some evs ->
      exists s, nth_error l k = Some s /\
                (evs = tls_attempt_alone hs h (tso_conf o) e (tls_pstep_seen s) \/ evs = [EvClosed]).
    Proof.
      revert held k. induction l as [|x rest IH]; intros held k Hk; [destruct k; discriminate Hk|].
      cbn [tls_pending_history] in Hk.
      pose proof (tls_pending_accept_object o held e x) as Ho.
      destruct (N.lt_ge_cases held (tls_places (tso_conf o))) as [Hp|Hp].
      - rewrite tls_pending_accept_taken in Hk by exact Hp.
        specialize (IH (if tls_pace_holds (tps_pace x) then held + 1 else held)).
        destruct (tls_pending_history hs h o _ e rest) as [o2 more]. cbn [snd] in *.
        destruct k as [|k].
        + cbn [nth_error] in Hk. injection Hk as <-. exists x. split; [reflexivity|]. left. reflexivity.
        + cbn [nth_error] in Hk. exact (IH k Hk).
      - rewrite tls_pending_accept_full in Hk by exact Hp.
        specialize (IH held).
        destruct (tls_pending_history hs h o held e rest) as [o2 more]. cbn [snd] in *.
        destruct k as [|k].
        + cbn [nth_error] in Hk. injection Hk as <-. exists x. split; [reflexivity|]. right. reflexivity.
        + cbn [nth_error] in Hk. exact (IH k Hk).
    Qed.

    (* ---------------------------------------- NewServer + Start + history *)

    (* fewer pending handshakes than MaxClients: the history is the history of
       Model/TlsHistory.v, the peers taken one after the other *)
    Lemma tls_server_pending_as_history c e l :
      tls_pending_count l < tls_places c ->
      tls_server_pending hs h c e l = tls_server_history hs h c e (map tls_pstep_seen l).
    Proof.
      intros H. unfold tls_server_pending. rewrite tls_pending_history_events by exact H.
      rewrite tls_server_history_pointwise. reflexivity.
    Qed.

    Lemma tls_server_pending_pointwise c e l :
      tls_pending_count l < tls_places c ->
      tls_server_pending hs h c e l = map (fun s => tls_attempt_alone hs h c e (tls_pstep_seen s)) l.
    Proof.
      intros H. unfold tls_server_pending. rewrite tls_pending_history_events by exact H.
      apply map_map.
    Qed.

    (* the step that arrives while `before` is what the server has taken so
       far: decided as if alone when the handshakes pending among `before`
       leave a place, whatever comes after *)
    Lemma tls_server_pending_context c e before s after :
      tls_pending_count before < tls_places c ->
      nth_error (tls_server_pending hs h c e (before ++ s :: after)) (length before) =
      Some (tls_attempt_alone hs h c e (tls_pstep_seen s)).
    Proof.
      intros H. unfold tls_server_pending.
      apply (tls_pending_history_nth (tls_new_obj c) 0 e).
      - rewrite nth_error_app2 by apply Nat.le_refl. rewrite Nat.sub_diag. reflexivity.
      - rewrite firstn_app, firstn_all, Nat.sub_diag. cbn [firstn]. rewrite app_nil_r. exact H.
    Qed.

    (* the steps that are not pending do not matter at all: a step finds the
       places the PENDING steps before it have taken *)
    Lemma tls_server_pending_nth c e l k s :
      nth_error l k = Some s ->
      tls_pending_count (firstn k l) < tls_places c ->
      nth_error (tls_server_pending hs h c e l) k = Some (tls_attempt_alone hs h c e (tls_pstep_seen s)).
    Proof.
      intros Hk H. unfold tls_server_pending. apply (tls_pending_history_nth (tls_new_obj c) 0 e); assumption.
    Qed.

    (* a history in which nobody stalls is a history of Model/TlsHistory.v *)
    Lemma tls_server_pending_at_once c e l :
      0 < tls_places c ->
      tls_server_pending hs h c e (map (mk_tls_pstep PaceAtOnce) l) = tls_server_history hs h c e l.
    Proof.
      intros H. rewrite tls_server_pending_as_history.
      - rewrite map_map. cbn [tls_pstep_seen tps_pace tps_attempt]. rewrite map_id. reflexivity.
      - rewrite tls_pending_count_at_once; [exact H|].
        intros s Hs. apply in_map_iff in Hs. destruct Hs as (a & <- & _). reflexivity.
    Qed.

    (* a peer that goes away in the middle of its handshake: under what
       crypto/tls documents, Handshake() does not return a session *)
    Lemma tls_abandoned_no_session pol p :
      tls_srv_documented hs verifies now -> hs pol (tls_peer_abandons p) = None.
    Proof.
      intros Hdoc. destruct (hs pol (tls_peer_abandons p)) as [sess|] eqn:E; [|reflexivity].
      destruct (Hdoc _ _ _ E) as (_ & Hin & _). destruct Hin.
    Qed.

    (* T1 with pending handshakes, no premise about the places: a handler
       invocation in step k implies that the peer of step k completed its
       handshake (it is not a peer that went away) and is authenticated
       against the configured client CAs with the chain of step k *)
    Lemma tls_pending_call_authenticated c rest e l k evs r :
      tls_srv_documented hs verifies now ->
      url_scheme (tsv_url c) STcpTls rest ->
      nth_error (tls_server_pending hs h c e l) k = Some evs ->
      In (EvCall r) evs ->
      exists s cas sess,
        nth_error l k = Some s /\
        tps_pace s <> PaceNever /\
        tsv_cas c = Some cas /\
        hs (tls_policy_of_server c) (tat_peer (tps_attempt s)) = Some sess /\
        spec_client_authenticated verifies now cas (tat_peer (tps_attempt s)) sess.
    Proof.
      intros Hdoc Hu Hk Hin. unfold tls_server_pending in Hk.
      destruct (tls_pending_history_nth_inv _ _ _ _ _ _ Hk) as (s & Hs & [->| ->]).
      - cbn [tls_new_obj tso_conf] in Hin. unfold tls_attempt_alone in Hin.
        destruct (tls_server_call_authenticated hs verifies now h c rest _ _ _ _ r Hdoc Hu Hin)
          as (cas & sess & Hc & Hss & Hauth).
        unfold tls_pstep_seen in Hss, Hauth.
        destruct (tps_pace s) eqn:Ep.
        + exists s, cas, sess. split; [exact Hs|]. split; [rewrite Ep; discriminate|].
          split; [exact Hc|]. split; [exact Hss | exact Hauth].
        + exists s, cas, sess. split; [exact Hs|]. split; [rewrite Ep; discriminate|].
          split; [exact Hc|]. split; [exact Hss | exact Hauth].
        + cbn [tat_peer] in Hss. rewrite (tls_abandoned_no_session _ _ Hdoc) in Hss. discriminate Hss.
      - destruct Hin as [Hin|[]]. discriminate Hin.
    Qed.

    (* a peer that goes away in its handshake reaches no handler *)
    Lemma tls_pending_abandoned c rest e l k s evs :
      tls_srv_documented hs verifies now ->
      url_scheme (tsv_url c) STcpTls rest ->
      nth_error l k = Some s -> tps_pace s = PaceNever ->
      nth_error (tls_server_pending hs h c e l) k = Some evs ->
      forall r, ~ In (EvCall r) evs.
    Proof.
      intros Hdoc Hu Hs Hp Hk r Hin.
      destruct (tls_pending_call_authenticated c rest e l k evs r Hdoc Hu Hk Hin) as (s' & _ & _ & Hs' & Hne & _).
      rewrite Hs in Hs'. injection Hs' as <-. exact (Hne Hp).
    Qed.

    (* the refusing direction with pending handshakes around *)
    Lemma tls_pending_unverified c rest e l k s evs :
      tls_srv_documented hs verifies now ->
      url_scheme (tsv_url c) STcpTls rest ->
      nth_error l k = Some s ->
      (forall cas, tsv_cas c = Some cas ->
                   ~ verifies (Some cas) TlsUsageClientAuth now [] (tpe_chain (tat_peer (tps_attempt s)))) ->
      nth_error (tls_server_pending hs h c e l) k = Some evs ->
      forall r, ~ In (EvCall r) evs.
    Proof.
      intros Hdoc Hu Hs Hno Hk r Hin.
      destruct (tls_pending_call_authenticated c rest e l k evs r Hdoc Hu Hk Hin)
        as (s' & cas & sess & Hs' & _ & Hc & _ & Hauth).
      rewrite Hs in Hs'. injection Hs' as <-.
      destruct Hauth as (_ & _ & _ & leaf & more & Hch & _ & Hv).
      apply (Hno cas Hc). rewrite Hch. exact Hv.
    Qed.

    (* T4 with pending handshakes: a peer the handshake accepts is served when
       the handshakes still pending at its arrival leave a place of MaxClients,
       whoever they are, and whatever arrives after it - at once or after having
       been slow itself *)
    Lemma tls_pending_serves c rest e l k s sess t p r tail :
      tls_srv_documented hs verifies now ->
      (forall role, handler_wf (h role)) ->
      url_scheme (tsv_url c) STcpTls rest -> rest <> [] ->
      tsv_cert c <> None -> tsv_cas c <> None ->
      nth_error l k = Some s -> tps_pace s <> PaceNever ->
      tls_pending_count (firstn k l) < tls_places c ->
      hs (tls_policy_of_server c) (tat_peer (tps_attempt s)) = Some sess ->
      tat_stream (tps_attempt s) = spec_mbap t p ++ tail ->
      t < 65536 -> pdu_wf p -> spec_decode p = Some r -> in_range r = true ->
      exists leaf more,
        tpe_chain (tat_peer (tps_attempt s)) = leaf :: more /\
        let role := extract_role (tlc_exts leaf) in
        nth_error (tls_server_pending hs h c e l) k =
        Some (EvCall r :: EvResp (spec_mbap t (spec_response p r (snd (h role (tat_state (tps_attempt s)) r)))) ::
              server_run (h role) (fst (h role (tat_state (tps_attempt s)) r)) e tail).
    Proof.
      intros Hdoc Hwf Hu Hr Hcert Hcas Hs Hpace Hfree Hss Hst Ht Hp Hdec Hrange.
      set (a := tps_attempt s) in *.
      destruct (tls_server_serves hs verifies now h c rest (tat_peer a) sess (tat_state a) e t p r tail
                  Hdoc Hwf Hu Hr Hcert Hcas Hss Ht Hp Hdec Hrange) as (leaf & more & Hch & Hev).
      exists leaf, more. split; [exact Hch|]. cbv zeta in *.
      rewrite (tls_server_pending_nth c e l k s Hs Hfree). f_equal.
      assert (Hseen : tls_pstep_seen s = a).
      { unfold tls_pstep_seen. destruct (tps_pace s); try reflexivity. destruct (Hpace eq_refl). }
      rewrite Hseen. unfold tls_attempt_alone. rewrite Hst. exact Hev.
    Qed.

    (* the places: a tcp+tls configuration NewServer accepts with MaxClients = m
       (0: the default of 10) serves its authenticated peers with up to m - 1
       handshakes pending *)
    Lemma tls_places_of_conf c rest :
      url_scheme (tsv_url c) STcpTls rest -> rest <> [] ->
      tsv_cert c <> None -> tsv_cas c <> None ->
      tls_places c = dfl (tsv_max_clients c) 10.
    Proof.
      intros Hu Hr Hcert Hcas.
      destruct (tsv_cert c) as [cert|] eqn:Ec; [|destruct (Hcert eq_refl)].
      destruct (tsv_cas c) as [cas|] eqn:Ea; [|destruct (Hcas eq_refl)].
      unfold tls_places, tls_new_server.
      assert (Hu' : url_scheme (sc_url (tsv_base c)) STcpTls rest) by exact Hu.
      rewrite (new_server_ok (tsv_base c) STcpTls rest Hu' eq_refl Hr).
      - reflexivity.
      - intros _. cbn [tsv_base sc_has_cert sc_has_cas]. rewrite Ec, Ea. split; reflexivity.
    Qed.
  End WithRoleHandler.
End TlsPendingProofs.
