(* tcp_transport.go and rtu_transport.go as translated from the Go source
   (Gen/SrcPure.v): vocabulary of the statements. The socket / serial link and
   the clock are external functions over the state of the world
   (Model/Transport.v). *)
From Coq Require Import List NArith String Lia Bool.
From Coq Require Import ZifyBool ZifyNat ZifyN.
Import ListNotations.
From Modbus Require Import Base.Bytes Model.GoLite Gen.SrcPure Model.Crc Model.Encoding.
From Modbus Require Import Model.Wire Model.Transport Replay.SrcReplayLib.
From Modbus Require Import Proofs.GoLiteP Proofs.GoLiteLinkP Proofs.SrcCrcP Proofs.SrcLinkP Proofs.SrcMiscP Proofs.SrcClientP.
Open Scope string_scope.
Open Scope N_scope.

(* the error values of the translated source *)
Definition src_codes : tcodes := {|
  c_timedout := code_of "ErrRequestTimedOut";
  c_badcrc := code_of "ErrBadCRC";
  c_short := code_of "ErrShortFrame";
  c_proto := code_of "ErrProtocolError";
  c_unkproto := code_of "ErrUnknownProtocolId";
  c_ueof := N.of_nat (List.length src_error_codes) + 3
|}.
Definition src_eof : N := N.of_nat (List.length src_error_codes) + 4.

(* a frame pointer: nil flag and the three fields *)
Definition enc_opdu (p : option pdu) : list val :=
  match p with
  | None => [VB true; VN 0; VN 0; VL []]
  | Some q => [VB false; VN (p_unit q); VN (p_fc q); vbytes (p_payload q)]
  end.

(* the external functions of a transport whose socket / link field is [x] are the world functions *)
Definition tworld_hyp (fe : fenv) (T : tworld) (x : string) : Prop :=
  (forall w, fe "time.Now" [w] = GOk [fst (t_now T w); VN (snd (t_now T w))]) /\
  (forall w d, fe "time.Sleep" [w; VN d] = GOk [t_sleep T w d]) /\
  (forall w t, fe (x ++ ".SetDeadline") [w; VN t] = GOk [fst (t_setdl T w t); VN (snd (t_setdl T w t))]) /\
  (forall w bs, fe (x ++ ".Write") [w; vbytes bs] =
                let '(w', n, e) := t_write T w bs in GOk [w'; VN n; VN e]) /\
  (forall w n, fe (x ++ ".ReadFull") [w; VN n] =
               let '(w', got, e) := t_readfull T w n in GOk [w'; vbytes got; VN e]) /\
  (forall w, fe (x ++ ".Close") [w] = GOk [fst (t_close T w); VN (snd (t_close T w))]).

(* the numbers of a list of values *)
Fixpoint unvn (l : list val) : list N :=
  match l with
  | VN n :: t => n :: unvn t
  | _ :: t => 0 :: unvn t
  | [] => []
  end.
Lemma unvn_map l : unvn (map VN l) = l.
Proof. induction l as [|x t IH]; cbn [map unvn]; [reflexivity|rewrite IH; reflexivity]. Qed.

(* a function environment made of the world functions: the hypothesis is satisfiable *)
Definition world_base (T : tworld) : fenv := fun name args =>
  let is s := String.eqb name s in
  if is "time.Now" then
    match args with [w] => GOk [fst (t_now T w); VN (snd (t_now T w))] | _ => Stuck end
  else if is "time.Sleep" then
    match args with [w; VN d] => GOk [t_sleep T w d] | _ => Stuck end
  else if orb (is "socket.SetDeadline") (orb (is "link.SetDeadline") (is "rtuLink.SetDeadline")) then
    match args with [w; VN t] => GOk [fst (t_setdl T w t); VN (snd (t_setdl T w t))] | _ => Stuck end
  else if orb (is "socket.Write") (orb (is "link.Write") (is "rtuLink.Write")) then
    match args with
    | [w; VL l] => let '(w', n, e) := t_write T w (unvn l) in GOk [w'; VN n; VN e]
    | _ => Stuck
    end
  else if orb (is "socket.ReadFull") (orb (is "link.ReadFull") (is "rtuLink.ReadFull")) then
    match args with
    | [w; VN n] => let '(w', got, e) := t_readfull T w n in GOk [w'; vbytes got; VN e]
    | _ => Stuck
    end
  else if orb (is "socket.Close") (orb (is "link.Close") (is "rtuLink.Close")) then
    match args with [w] => GOk [fst (t_close T w); VN (snd (t_close T w))] | _ => Stuck end
  else Stuck.

Lemma world_base_hyp T x : x = "socket" \/ x = "link" \/ x = "rtuLink" -> tworld_hyp (world_base T) T x.
Proof.
  intros [H|[H|H]]; subst x; unfold tworld_hyp, world_base; cbn [append String.eqb Ascii.eqb Bool.eqb orb];
    repeat split; intros; try reflexivity;
    unfold vbytes; rewrite unvn_map; reflexivity.
Qed.

(* ---------------------------------------------------------------- expected results *)

Definition out_read_mbap (T : tworld) (tmo last : N) (w : val) : GoLite.res (list val) :=
  let '(w', p, txn, e) := t_read_mbap T src_codes w in
  GOk ([VN tmo; VN last; w'] ++ enc_opdu p ++ [VN txn; VN e])%list.

Definition out_read_response (T : tworld) (fuel : nat) (tmo last : N) (w : val) : GoLite.res (list val) :=
  match t_read_response T src_codes fuel last w with
  | Some (w', p, e) => GOk ([VN tmo; VN last; w'] ++ enc_opdu p ++ [VN e])%list
  | None => GoLite.OutOfFuel
  end.

Definition out_tcp_read_request (T : tworld) (tmo last : N) (w : val) : GoLite.res (list val) :=
  let '(last', w', p, e) := t_tcp_read_request T src_codes tmo last w in
  GOk ([VN tmo; VN last'; w'] ++ enc_opdu p ++ [VN e])%list.

Definition out_tcp_write_response (T : tworld) (tmo last : N) (res : pdu) (w : val) : GoLite.res (list val) :=
  let '(w', e) := t_tcp_write_response T last res w in GOk [VN tmo; VN last; w'; VN e].

Definition out_tcp_execute (T : tworld) (fuel : nat) (tmo last : N) (req : pdu) (w : val) : GoLite.res (list val) :=
  match t_tcp_execute T src_codes fuel tmo last req w with
  | Some (last', w', p, e) => GOk ([VN tmo; VN last'; w'] ++ enc_opdu p ++ [VN e])%list
  | None => GoLite.OutOfFuel
  end.

Definition out_close (T : tworld) (fields : list val) (w : val) : GoLite.res (list val) :=
  GOk (fields ++ [fst (t_close T w); VN (snd (t_close T w))])%list.

Definition out_read_rtu (T : tworld) (tmo la t35 t1 : N) (w : val) : GoLite.res (list val) :=
  let '(w', p, e) := t_read_rtu T src_codes w in
  GOk ([VN tmo; VN la; VN t35; VN t1; w'] ++ enc_opdu p ++ [VN e])%list.

Definition out_discard (T : tworld) (w : val) : GoLite.res (list val) := GOk [t_discard T w].

Definition out_rtu_execute (T : tworld) (tmo la t35 t1 : N) (req : pdu) (w : val) : GoLite.res (list val) :=
  let '(la', w', p, e) := t_rtu_execute T src_codes tmo la t35 t1 req w in
  GOk ([VN tmo; VN la'; VN t35; VN t1; w'] ++ enc_opdu p ++ [VN e])%list.

Definition out_rtu_write_response (T : tworld) (tmo la t35 t1 : N) (res : pdu) (w : val) : GoLite.res (list val) :=
  let '(la', w', e) := t_rtu_write_response T la t1 res w in
  GOk [VN tmo; VN la'; VN t35; VN t1; w'; VN e].

(* (the method does not mention its receiver: the translated function has the world as its only parameter) *)
Definition out_rtu_read_request (w : val) : GoLite.res (list val) :=
  GOk ([w] ++ enc_opdu None ++ [VN other_error])%list.

Definition pdu_args (p : pdu) : list val := [VN (p_unit p); VN (p_fc p); vbytes (p_payload p)].

(* ---------------------------------------------------------------- callees, as hypotheses *)

Definition asm_mbap_hyp (fe : fenv) : Prop :=
  forall txn unit fc payload, N.of_nat (List.length payload) < 2 ^ 62 ->
    fe "tcpTransport.assembleMBAPFrame" [VN txn; VN unit; VN fc; vbytes payload] =
    GOk [vbytes (assemble_mbap txn (mkpdu unit fc payload))].
Definition asm_rtu_hyp (fe : fenv) : Prop :=
  forall unit fc payload, bytesb (unit :: fc :: payload) = true ->
    fe "rtuTransport.assembleRTUFrame" [VN unit; VN fc; vbytes payload] =
    GOk [vbytes (assemble_rtu (mkpdu unit fc payload))].
Definition erl_hyp (fe : fenv) : Prop :=
  forall fc b2, fc < 256 -> b2 < 256 -> fe "expectedResponseLenth" [VN fc; VN b2] = erl_expected fc b2.
Definition crc_hyp (fe : fenv) : Prop :=
  (forall s, fe "crc.init" [VN s] = GOk [VN crc_init]) /\
  (forall s l, bytesb l = true -> fe "crc.add" [VN s; vbytes l] = GOk [VN (crc_from s l)]) /\
  (forall s lo hi, fe "crc.isEqual" [VN s; VN lo; VN hi] = GOk [VN s; VB (crc_is_equal s lo hi)]).
Definition read_mbap_hyp (fe : fenv) (T : tworld) : Prop :=
  forall tmo last w, fe "tcpTransport.readMBAPFrame" [VN tmo; VN last; w] = out_read_mbap T tmo last w.
Definition read_response_hyp (fe : fenv) (T : tworld) (rfuel : nat) : Prop :=
  forall tmo last w, fe "tcpTransport.readResponse" [VN tmo; VN last; w] = out_read_response T rfuel tmo last w.
Definition read_rtu_hyp (fe : fenv) (T : tworld) : Prop :=
  forall tmo la t35 t1 w,
    fe "rtuTransport.readRTUFrame" [VN tmo; VN la; VN t35; VN t1; w] = out_read_rtu T tmo la t35 t1 w.
Definition discard_hyp (fe : fenv) (T : tworld) : Prop := forall w, fe "discard" [w] = out_discard T w.

(* a frame the assemblers accept *)
Definition pdu_ok (p : pdu) : Prop :=
  bytesb (p_unit p :: p_fc p :: p_payload p) = true /\ N.of_nat (List.length (p_payload p)) < 2 ^ 62.

(* ---------------------------------------------------------------- sanity: interpreter = model on concrete worlds *)

Definition sw (e : send) : tworld := stream_world e 2 src_eof (c_ueof src_codes).
Definition good_frame : list N := [0; 7; 0; 0; 0; 5; 9; 3; 2; 0xab; 0xcd] ++ [1; 2].
Definition tests_mbap : list (send * list N) :=
  [(Stall, good_frame); (Stall, [0; 7; 0; 0; 0; 0; 9; 3]); (Closed, [0; 7; 0; 0; 0; 1; 9; 3]);
   (Closed, [0; 7; 0; 1; 0; 3; 9; 3; 2; 5]); (Reset, [0; 7; 0; 0; 1; 0; 9]); (Closed, [0; 7; 0; 0; 0; 255; 9]);
   (Closed, [0; 7; 0]); (Closed, []); (Stall, [0; 7; 0; 0; 0; 5; 9; 3; 2])].

Example sanity_read_mbap :
  forallb (fun c => res_eqb (call_with src_pure (world_base (sw (fst c))) 50 "tcpTransport.readMBAPFrame"
                               [VN 1000; VN 7; vbytes (snd c)])
                            (out_read_mbap (sw (fst c)) 1000 7 (vbytes (snd c)))) tests_mbap = true.
Proof. vm_compute. reflexivity. Qed.

Definition frame2 : list N := [0; 8; 0; 0; 0; 4; 9; 3; 2; 0x11].
Definition tests_resp : list (send * list N) :=
  [(Stall, good_frame); (Stall, (good_frame ++ frame2)%list); (Stall, (frame2 ++ good_frame)%list);
   (Closed, ([0; 8; 0; 5; 0; 2; 1; 1] ++ frame2 ++ good_frame)%list); (Closed, frame2); (Reset, []);
   (Stall, ([0; 7; 0; 0; 0; 0; 9] ++ good_frame)%list)].

Example sanity_read_response :
  forallb (fun c => res_eqb (call_with src_pure (world_base (sw (fst c))) 50 "tcpTransport.readResponse"
                               [VN 1000; VN 7; vbytes (snd c)])
                            (out_read_response (sw (fst c)) 50 1000 7 (vbytes (snd c)))) tests_resp = true.
Proof. vm_compute. reflexivity. Qed.

Example sanity_read_response_fuel :
  res_eqb (call_with src_pure (world_base (sw Stall)) 2 "tcpTransport.readResponse"
             [VN 1000; VN 7; vbytes (frame2 ++ frame2 ++ good_frame)%list])
          (out_read_response (sw Stall) 2 1000 7 (vbytes (frame2 ++ frame2 ++ good_frame)%list)) = true.
Proof. vm_compute. reflexivity. Qed.

Example sanity_tcp_read_request :
  forallb (fun c => res_eqb (call_with src_pure (world_base (sw (fst c))) 50 "tcpTransport.ReadRequest"
                               [VN 1000; VN 3; vbytes (snd c)])
                            (out_tcp_read_request (sw (fst c)) 1000 3 (vbytes (snd c)))) tests_mbap = true.
Proof. vm_compute. reflexivity. Qed.

Definition req1 : pdu := mkpdu 9 3 [0; 1; 0; 2].

Example sanity_tcp_write_response :
  res_eqb (call_with src_pure (world_base (sw Stall)) 50 "tcpTransport.WriteResponse"
             ([VN 1000; VN 65535] ++ pdu_args req1 ++ [vbytes good_frame])%list)
          (out_tcp_write_response (sw Stall) 1000 65535 req1 (vbytes good_frame)) = true.
Proof. vm_compute. reflexivity. Qed.

Example sanity_tcp_execute :
  forallb (fun c => res_eqb (call_with src_pure (world_base (sw (fst c))) 50 "tcpTransport.ExecuteRequest"
                               ([VN 1000; VN 6] ++ pdu_args req1 ++ [vbytes (snd c)])%list)
                            (out_tcp_execute (sw (fst c)) 50 1000 6 req1 (vbytes (snd c)))) tests_resp = true.
Proof. vm_compute. reflexivity. Qed.

Example sanity_tcp_execute_wrap :
  res_eqb (call_with src_pure (world_base (sw Stall)) 50 "tcpTransport.ExecuteRequest"
             ([VN 1000; VN 65535] ++ pdu_args req1 ++ [vbytes ([0; 0; 0; 0; 0; 4; 9; 3; 2; 0x11])])%list)
          (out_tcp_execute (sw Stall) 50 1000 65535 req1 (vbytes [0; 0; 0; 0; 0; 4; 9; 3; 2; 0x11])) = true.
Proof. vm_compute. reflexivity. Qed.

Example sanity_tcp_close :
  res_eqb (call_with src_pure (world_base (sw Stall)) 50 "tcpTransport.Close" [VN 1000; VN 6; vbytes [1]])
          (out_close (sw Stall) [VN 1000; VN 6] (vbytes [1])) = true.
Proof. vm_compute. reflexivity. Qed.

(* RTU *)
Definition rtu_ok : list N := assemble_rtu (mkpdu 9 3 [4; 1; 2; 3; 4]).
Definition rtu_exc : list N := assemble_rtu (mkpdu 9 0x83 [2]).
Definition rtu_wr : list N := assemble_rtu (mkpdu 9 16 [0; 1; 0; 2]).
Definition tests_rtu : list (send * list N) :=
  [(Stall, rtu_ok); (Stall, (rtu_ok ++ [7; 7])%list); (Closed, rtu_exc); (Reset, rtu_wr);
   (Stall, []); (Closed, []); (Reset, []); (Stall, [9]); (Closed, [9; 3]); (Closed, [9; 3; 4; 1; 2]);
   (Stall, [9; 3; 4; 1; 2]); (Reset, [9; 3; 4; 1; 2]); (Closed, [9; 3; 4]); (Stall, [9; 99; 4; 1; 2; 3]);
   (Stall, [9; 3; 252; 1]); (Stall, [9; 3; 255; 1]); (Stall, (removelast rtu_ok ++ [0])%list);
   (Stall, (9 :: 3 :: 251 :: repeat 5 260)%list)].

Example sanity_read_rtu :
  forallb (fun c => res_eqb (call_with src_pure (world_base (sw (fst c))) 300 "rtuTransport.readRTUFrame"
                               [VN 1000; VN 5; VN 35; VN 10; vbytes (snd c)])
                            (out_read_rtu (sw (fst c)) 1000 5 35 10 (vbytes (snd c)))) tests_rtu = true.
Proof. vm_compute. reflexivity. Qed.

Example sanity_discard :
  res_eqb (call_with src_pure (world_base (sw Stall)) 50 "discard" [vbytes (repeat 5 1500)])
          (out_discard (sw Stall) (vbytes (repeat 5 1500))) = true.
Proof. vm_compute. reflexivity. Qed.

Example sanity_rtu_execute_stream :
  forallb (fun c => res_eqb (call_with src_pure (world_base (sw (fst c))) 300 "rtuTransport.ExecuteRequest"
                               ([VN 1000; VN 5; VN 35; VN 10] ++ pdu_args req1 ++ [vbytes (snd c)])%list)
                            (out_rtu_execute (sw (fst c)) 1000 5 35 10 req1 (vbytes (snd c)))) tests_rtu = true.
Proof. vm_compute. reflexivity. Qed.

(* with a running clock: the silent peer; lastActivity before / after now *)
Definition cw : tworld := clock_world (c_timedout src_codes).
Definition tests_clock : list (N * N) := [(100, 1000); (5000, 1000); (990, 1000); (0, 0); (965, 1000); (966, 1000)].

Example sanity_rtu_execute_clock :
  forallb (fun c => res_eqb (call_with src_pure (world_base cw) 300 "rtuTransport.ExecuteRequest"
                               ([VN 1000000; VN (fst c); VN 35; VN 10] ++ pdu_args req1 ++ [mkclock (snd c) []])%list)
                            (out_rtu_execute cw 1000000 (fst c) 35 10 req1 (mkclock (snd c) []))) tests_clock = true.
Proof. vm_compute. reflexivity. Qed.

Example sanity_rtu_write_response :
  res_eqb (call_with src_pure (world_base cw) 300 "rtuTransport.WriteResponse"
             ([VN 1000000; VN 7; VN 35; VN 10] ++ pdu_args req1 ++ [mkclock 500 []])%list)
          (out_rtu_write_response cw 1000000 7 35 10 req1 (mkclock 500 [])) = true.
Proof. vm_compute. reflexivity. Qed.

Example sanity_rtu_read_request :
  res_eqb (call_with src_pure (world_base cw) 300 "rtuTransport.ReadRequest" [mkclock 500 []])
          (out_rtu_read_request (mkclock 500 [])) = true.
Proof. vm_compute. reflexivity. Qed.

Example sanity_rtu_close :
  res_eqb (call_with src_pure (world_base cw) 300 "rtuTransport.Close" [VN 1; VN 2; VN 3; VN 4; mkclock 500 []])
          (out_close cw [VN 1; VN 2; VN 3; VN 4] (mkclock 500 [])) = true.
Proof. vm_compute. reflexivity. Qed.
