(* Proofs for C05 across Close() + Open(): a reopen is a new transport on a new,
   empty stream; what is addressed to an older socket has no influence. *)
From Modbus Require Import Base.Bytes Model.Crc Model.Encoding Model.Wire Model.Client
  Model.TxnHistory Model.TxnReopen Spec.ModbusSpec Spec.ClientSpec Spec.TxnSpec Spec.TxnReopenSpec
  Proofs.TxnP.
From Coq Require Import ZifyBool ZifyNat ZifyN.
Ltac Zify.zify_post_hook ::= Z.div_mod_to_equations.

(* ---------------------------------------------------------------- runs *)

Lemma nth_map_some {A} (l : list A) : forall n r d,
  nth n (map Some l) None = Some r -> nth n l d = r.
Proof.
  induction l as [|a t IH]; intros [|n] r d H; cbn in H; try discriminate H.
  - injection H as H. exact H.
  - cbn [nth]. apply IH. exact H.
Qed.

Lemma tr_run_length fr cfg xs : forall st, length (tr_run fr cfg st xs) = length xs.
Proof.
  induction xs as [|x t IH]; intros st; [reflexivity|].
  cbn [tr_run]. destruct (tr_step_run fr cfg st x) as [st' r]. cbn [length]. rewrite IH. reflexivity.
Qed.

Lemma tr_run_app fr cfg a b : forall st,
  tr_run fr cfg st (a ++ b) = tr_run fr cfg st a ++ tr_run fr cfg (tr_final fr cfg st a) b.
Proof.
  induction a as [|x t IH]; intros st; [reflexivity|].
  cbn [app tr_run tr_final]. destruct (tr_step_run fr cfg st x) as [st' r]. cbn [fst app].
  rewrite IH. reflexivity.
Qed.

Lemma tr_final_app fr cfg a b : forall st,
  tr_final fr cfg st (a ++ b) = tr_final fr cfg (tr_final fr cfg st a) b.
Proof.
  induction a as [|x t IH]; intros st; [reflexivity|].
  cbn [app tr_final]. apply IH.
Qed.

(* the socket number never decreases; it advances by one per reopen *)
Lemma tr_sock_step fr cfg st s :
  tr_sock (fst (tr_step_run fr cfg st s)) = tr_sock st + (if tr_is_reopen s then 1 else 0).
Proof.
  destruct s as [c|ds|]; cbn [tr_step_run tr_is_reopen].
  - destruct (hist_step fr cfg (tr_th st) (tr_concrete (tr_sock st) c)) as [th' r].
    cbn [fst tr_sock]. lia.
  - cbn [fst tr_sock]. lia.
  - cbn [fst tr_sock]. lia.
Qed.

Lemma tr_sock_final fr cfg xs : forall st,
  tr_sock (tr_final fr cfg st xs) = tr_sock st + tr_reopens xs.
Proof.
  induction xs as [|x t IH]; intros st.
  - unfold tr_reopens, lenN. cbn. lia.
  - cbn [tr_final]. rewrite IH, tr_sock_step. unfold tr_reopens. cbn [filter].
    destruct (tr_is_reopen x); unfold lenN; cbn [length]; lia.
Qed.

(* ---------------------------------------------------------------- the reopen *)

(* after a reopen the client is a fresh client on the next socket *)
Lemma tr_reopen_restarts fr cfg st pre post :
  tr_run fr cfg st (pre ++ TrReopen :: post) =
  tr_run fr cfg st pre ++
  None :: tr_run fr cfg (mktr (tr_sock (tr_final fr cfg st pre) + 1) th_init) post.
Proof. rewrite tr_run_app. reflexivity. Qed.

(* ---------------------------------------------------------------- old sockets *)

Lemma tr_deliver_keep m k ds : m <= k -> tr_deliver k (tr_keep m ds) = tr_deliver k ds.
Proof.
  intros Hm. unfold tr_deliver, tr_keep. f_equal. f_equal.
  induction ds as [|d t IH]; [reflexivity|].
  cbn [filter].
  destruct (m <=? tg_sock d) eqn:E1; destruct (tg_sock d =? k) eqn:E2; cbn [filter]; rewrite ?E2, ?IH;
    try reflexivity.
  apply N.eqb_eq in E2. apply N.leb_gt in E1. lia.
Qed.

Lemma tr_step_forget fr cfg m st s : m <= tr_sock st ->
  tr_step_run fr cfg st (tr_forget m s) = tr_step_run fr cfg st s.
Proof.
  intros Hm. destruct s as [c|ds|]; cbn [tr_forget tr_step_run]; [| |reflexivity].
  - unfold tr_concrete. cbn [trc_op trc_in trc_end]. rewrite tr_deliver_keep by exact Hm. reflexivity.
  - rewrite tr_deliver_keep by exact Hm. reflexivity.
Qed.

(* what is addressed to a socket older than the current one has no influence:
   the run is the run of the history with all of it removed *)
Lemma tr_run_forget fr cfg m xs : forall st, m <= tr_sock st ->
  tr_run fr cfg st (map (tr_forget m) xs) = tr_run fr cfg st xs.
Proof.
  induction xs as [|x t IH]; intros st Hm; [reflexivity|].
  cbn [map tr_run]. rewrite tr_step_forget by exact Hm.
  pose proof (tr_sock_step fr cfg st x) as Hs.
  destruct (tr_step_run fr cfg st x) as [st' r]. cbn [fst] in Hs.
  rewrite IH; [reflexivity|]. rewrite Hs. destruct (tr_is_reopen x); lia.
Qed.

(* two histories that differ, after a reopen, only in what is addressed to the
   sockets of before the reopen have the same outcomes *)
Lemma tr_old_irrelevant fr cfg st pre post post' :
  map (tr_forget (tr_sock (tr_final fr cfg st pre) + 1)) post =
  map (tr_forget (tr_sock (tr_final fr cfg st pre) + 1)) post' ->
  tr_run fr cfg st (pre ++ TrReopen :: post) = tr_run fr cfg st (pre ++ TrReopen :: post').
Proof.
  intros H. rewrite !tr_reopen_restarts. f_equal. f_equal.
  set (k := tr_sock (tr_final fr cfg st pre) + 1) in *.
  rewrite <- (tr_run_forget fr cfg k post) by (cbn [tr_sock]; lia).
  rewrite <- (tr_run_forget fr cfg k post') by (cbn [tr_sock]; lia).
  rewrite H. reflexivity.
Qed.

(* ---------------------------------------------------------------- a segment of calls *)

(* calls in a row on socket k: the history of Model/TxnHistory.v on what socket k receives *)
Lemma tr_run_calls fr cfg k calls : forall th,
  tr_run fr cfg (mktr k th) (map TrCall calls) =
  map Some (hist_run fr cfg th (map (tr_concrete k) calls)).
Proof.
  induction calls as [|c t IH]; intros th; [reflexivity|].
  cbn [map tr_run tr_step_run hist_run tr_sock tr_th].
  destruct (hist_step fr cfg th (tr_concrete k c)) as [th' r]. rewrite IH. reflexivity.
Qed.

(* the calls after a reopen: a history on a fresh client (counter 0, nothing
   unread) that receives only what is addressed to the new socket *)
Lemma tr_segment_fresh fr cfg st pre calls :
  tr_run fr cfg st (pre ++ TrReopen :: map TrCall calls) =
  tr_run fr cfg st pre ++
  None :: map Some (hist_run fr cfg th_init
                      (map (tr_concrete (tr_sock (tr_final fr cfg st pre) + 1)) calls)).
Proof. rewrite tr_reopen_restarts, tr_run_calls. reflexivity. Qed.

(* ---------------------------------------------------------------- tagged frames *)

Lemma tr_deliver_visible k fs :
  tr_deliver k (map tr_dgram_of fs) = th_stream 0 (tr_visible k fs).
Proof.
  unfold tr_deliver, th_stream, tr_visible. f_equal.
  induction fs as [|p t IH]; [reflexivity|].
  cbn [map filter]. unfold tr_dgram_of at 1. cbn [tg_sock].
  destruct (fst p =? k); cbn [map]; rewrite IH; reflexivity.
Qed.

Lemma tr_concrete_sstep k c :
  tr_concrete k (tr_scall_concrete c) = th_concrete 0 (tr_sstep k c).
Proof.
  unfold tr_concrete, tr_scall_concrete, th_concrete, tr_sstep.
  cbn [trc_op trc_in trc_end ss_op ss_frames ss_end]. rewrite tr_deliver_visible. reflexivity.
Qed.

Lemma tr_visible_wf k fs : Forall (fun p => th_frame_wf (snd p)) fs -> Forall th_frame_wf (tr_visible k fs).
Proof.
  intros H. unfold tr_visible. induction H as [|p t Hp Ht IH]; [constructor|].
  cbn [filter]. destruct (fst p =? k); cbn [map]; [constructor; assumption|assumption].
Qed.

Lemma tr_visible_in k fs f : In f (tr_visible k fs) -> In (k, f) fs.
Proof.
  unfold tr_visible. intros H. apply in_map_iff in H as (p & Hp & Hin).
  apply filter_In in Hin as [Hin Hk]. apply N.eqb_eq in Hk.
  destruct p as [s g]. cbn [fst snd] in *. subst. exact Hin.
Qed.

Lemma tr_sstep_ok k c : tr_scall_ok c -> th_sstep_ok (tr_sstep k c).
Proof.
  intros (H1 & H2 & H3). unfold th_sstep_ok, tr_sstep. cbn [ss_op ss_frames].
  split; [exact H1|]. split; [exact H2|]. apply tr_visible_wf. exact H3.
Qed.

(* what is pending on socket k came in through the calls made on it *)
Lemma th_next_incl j pend f : In f (th_next j pend) -> In f pend.
Proof.
  unfold th_next. destruct (th_take j pend) as [[res rest]|] eqn:E; [|intros []].
  apply th_take_some in E as (sk & i & Hall & _). intros H. rewrite Hall.
  apply in_or_app. right. right. exact H.
Qed.

Lemma th_pending_incl pre : forall j pend f,
  In f (th_pending j pend pre) -> In f pend \/ In f (concat (map ss_frames pre)).
Proof.
  induction pre as [|x t IH]; intros j pend f H; [left; exact H|].
  cbn [th_pending] in H. apply IH in H as [H|H].
  - apply th_next_incl in H. apply in_app_or in H as [H|H]; [left; exact H|].
    right. cbn [map concat]. apply in_or_app. left. exact H.
  - right. cbn [map concat]. apply in_or_app. right. exact H.
Qed.

Lemma tr_visible_concat k cs f :
  In f (concat (map ss_frames (map (tr_sstep k) cs))) -> In (k, f) (concat (map tsc_frames cs)).
Proof.
  induction cs as [|c t IH]; [intros []|].
  cbn [map concat]. intros H. apply in_app_or in H as [H|H]; apply in_or_app.
  - left. unfold tr_sstep in H. cbn [ss_frames] in H. apply tr_visible_in. exact H.
  - right. apply IH. exact H.
Qed.

(* a call made after a reopen that succeeds consumed a frame ADDRESSED TO THE
   NEW SOCKET, delivered after the reopen, built for a request of the new
   transport with the same number modulo 2^16 *)
Lemma tr_no_stale_reply : forall cfg st pre seg x post r vs,
  Forall tr_scall_ok (seg ++ x :: post) ->
  let k := tr_sock (tr_final FMbap cfg st pre) + 1 in
  let j := lenN seg in
  nth (length pre + 1 + length seg)
      (tr_run FMbap cfg st
         (pre ++ TrReopen :: map (fun c => TrCall (tr_scall_concrete c)) (seg ++ x :: post)))
      None = Some r ->
  cr_res r = Ok vs ->
  exists i res,
    In (k, ThReply i res) (concat (map tsc_frames (seg ++ [x]))) /\
    i mod 65536 = j mod 65536 /\
    cr_res (client_call FMbap cfg (j mod 65536) (tsc_op x)
              (th_end_after (th_end_run Stall (map (tr_sstep k) seg)) (tsc_end x))
              (spec_frame FMbap (th_id 0 j) res)) = Ok vs.
Proof.
  intros cfg st pre seg x post r vs HF k j Hn Hr.
  rewrite <- (map_map tr_scall_concrete TrCall) in Hn.
  rewrite tr_segment_fresh in Hn. fold k in Hn.
  rewrite app_nth2 in Hn by (rewrite tr_run_length; lia).
  rewrite tr_run_length in Hn.
  replace (length pre + 1 + length seg - length pre)%nat with (S (length seg)) in Hn by lia.
  cbn [nth] in Hn.
  rewrite map_map in Hn.
  rewrite (map_ext _ (fun c => th_concrete 0 (tr_sstep k c)) (tr_concrete_sstep k)) in Hn.
  rewrite <- (map_map (tr_sstep k) (th_concrete 0)) in Hn.
  rewrite map_app in Hn. cbn [map] in Hn.
  assert (HF' : Forall th_sstep_ok (map (tr_sstep k) seg ++ tr_sstep k x :: map (tr_sstep k) post)).
  { change (tr_sstep k x :: map (tr_sstep k) post) with (map (tr_sstep k) (x :: post)).
    rewrite <- map_app. apply Forall_forall. intros y Hy.
    apply in_map_iff in Hy as (c & Hc & Hin). subst y. apply tr_sstep_ok.
    rewrite Forall_forall in HF. apply HF. exact Hin. }
  set (d := mkcall Panic [] [] 0).
  assert (Hlen : length seg = length (map (tr_sstep k) seg)) by (rewrite map_length; reflexivity).
  assert (Hn' : nth (length (map (tr_sstep k) seg))
                  (hist_run FMbap cfg (mkth 0 (th_stream 0 []) Stall)
                     (map (th_concrete 0)
                        (map (tr_sstep k) seg ++ tr_sstep k x :: map (tr_sstep k) post))) d = r).
  { rewrite <- Hlen.
    change (mkth 0 (th_stream 0 []) Stall) with th_init.
    apply nth_map_some. exact Hn. }
  pose proof (hist_no_misattribution cfg 0 [] Stall (map (tr_sstep k) seg) (tr_sstep k x)
                (map (tr_sstep k) post) d vs ltac:(lia) (Forall_nil _) HF') as HM.
  cbv zeta in HM. rewrite Hn' in HM. specialize (HM Hr).
  destruct HM as (sk & i & res & rest & Hall & Hi & _ & _ & Hcall & _).
  assert (HlenN : lenN (map (tr_sstep k) seg) = j).
  { unfold j, lenN. rewrite map_length. reflexivity. }
  rewrite HlenN in *.
  exists i, res. split; [|split].
  - assert (Hin : In (ThReply i res) (th_pending 0 [] (map (tr_sstep k) seg) ++ ss_frames (tr_sstep k x))).
    { rewrite Hall. apply in_or_app. right. left. reflexivity. }
    rewrite map_app, concat_app. cbn [map concat]. rewrite app_nil_r.
    apply in_app_or in Hin as [Hin|Hin]; apply in_or_app.
    + left. apply th_pending_incl in Hin as [[]|Hin]. apply tr_visible_concat. exact Hin.
    + right. unfold tr_sstep in Hin. cbn [ss_frames] in Hin. apply tr_visible_in. exact Hin.
  - exact Hi.
  - replace (j mod 65536) with ((0 + j) mod 65536) by (f_equal; lia). exact Hcall.
Qed.

(* the requests made after a reopen are numbered from 0 again: request number
   j of the new transport carries id th_id 0 j - the id request number j of
   every earlier transport carried *)
Lemma tr_request_id_after_reopen : forall cfg st pre seg c post r,
  cfg_wf cfg -> Forall (fun c => op_wf (trc_op c) /\ valid_op (trc_op c) = true) (seg ++ c :: post) ->
  nth (length pre + 1 + length seg)
      (tr_run FMbap cfg st (pre ++ TrReopen :: map TrCall (seg ++ c :: post))) None = Some r ->
  cr_writes r = [spec_frame FMbap (th_id 0 (lenN seg)) (spec_pdu cfg (trc_op c))].
Proof.
  intros cfg st pre seg c post r Hcfg HF Hn.
  rewrite tr_segment_fresh in Hn.
  set (k := tr_sock (tr_final FMbap cfg st pre) + 1) in *.
  rewrite app_nth2 in Hn by (rewrite tr_run_length; lia).
  rewrite tr_run_length in Hn.
  replace (length pre + 1 + length seg - length pre)%nat with (S (length seg)) in Hn by lia.
  cbn [nth] in Hn.
  set (d := mkcall Panic [] [] 0).
  apply (nth_map_some _ _ _ d) in Hn.
  rewrite map_app in Hn. cbn [map] in Hn.
  assert (Hlen : length seg = length (map (tr_concrete k) seg)) by (rewrite map_length; reflexivity).
  rewrite Hlen in Hn.
  assert (HF' : Forall (fun x => op_wf (ths_op x))
                  (map (tr_concrete k) seg ++ tr_concrete k c :: map (tr_concrete k) post)).
  { change (tr_concrete k c :: map (tr_concrete k) post) with (map (tr_concrete k) (c :: post)).
    rewrite <- map_app. apply Forall_forall. intros y Hy.
    apply in_map_iff in Hy as (c' & Hc & Hin). subst y. unfold tr_concrete. cbn [ths_op].
    rewrite Forall_forall in HF. apply HF. exact Hin. }
  pose proof (hist_request_id cfg th_init (map (tr_concrete k) seg) (tr_concrete k c)
                (map (tr_concrete k) post) d Hcfg ltac:(cbn; lia) HF') as [H1 _].
  rewrite Hn in H1.
  assert (V : valid_op (ths_op (tr_concrete k c)) = true).
  { unfold tr_concrete. cbn [ths_op]. rewrite Forall_forall in HF.
    apply (HF c). apply in_or_app. right. left. reflexivity. }
  rewrite (H1 V). cbn [th_init th_txn]. unfold tr_concrete at 2. cbn [ths_op].
  f_equal. f_equal. f_equal.
  (* every call of the segment reaches the wire *)
  unfold th_sent. clear - HF.
  assert (Hs : Forall (fun c => valid_op (trc_op c) = true) seg).
  { apply Forall_app in HF as [HF _]. eapply Forall_impl; [|exact HF]. intros a [_ Ha]. exact Ha. }
  clear HF. induction Hs as [|a t Ha Ht IH]; [reflexivity|].
  cbn [map filter]. unfold tr_concrete at 1. cbn [ths_op]. rewrite Ha.
  unfold lenN in *. cbn [length]. lia.
Qed.
