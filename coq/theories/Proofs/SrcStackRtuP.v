(* The translated client methods (client.go) ON TOP OF the translated RTU
   transport (rtu_transport.go), both inside the linked program [src_pure], on a
   peer byte stream. The RTU counterpart of Proofs/SrcStackP.v: the oracle of
   the translated client is what the translated rtuTransport.ExecuteRequest
   returns on the stream world ([src_rtu_reply]), and the public result is the
   model's [client_call FRtu], up to [norm_io] (io.EOF / io.ErrUnexpectedEOF /
   any other i/o error are one class in the model). The transaction id of the
   model plays no part on RTU; the fuel of the translated transport plays no
   part either (rtuTransport.ExecuteRequest has no loop). *)
From Coq Require Import List NArith String Lia Bool.
From Coq Require Import ZifyBool ZifyNat ZifyN.
Import ListNotations.
From Modbus Require Import Base.Bytes Model.GoLite Gen.SrcPure Model.Crc Model.Encoding.
From Modbus Require Import Model.Wire Model.Client Model.Transport Spec.ClientSpec.
From Modbus Require Proofs.ClientReqP.
From Modbus Require Import Proofs.FramingP.
From Modbus Require Import Proofs.GoLiteP Proofs.GoLiteLinkP Proofs.SrcMiscP.
From Modbus Require Import Proofs.TransportStreamP Proofs.SrcTransportP Proofs.SrcTransportLinkP Proofs.SrcTransportWorldsP.
From Modbus Require Import Proofs.SrcClientP Proofs.SrcClientLinkP Proofs.SrcStackP.
Open Scope string_scope.
Open Scope N_scope.

(* ------------------------------------------------------------------ 1: the reply of the translated RTU transport *)

(* the returned list has FIVE leading outs (timeout, lastActivity, t35, t1, the
   world), then nil flag, unit, function code, payload, error value *)
Definition reply_of_run_rtu (r : GoLite.res (list val)) : treply :=
  match r with
  | GOk [_; _; _; _; _; VB rnil; VN u; VN f; VL p; VN c] => dec_reply rnil u f (unvn p) c
  | _ => bad_reply
  end.

Definition src_rtu_reply (fuel : nat) (tmo la t35 t1 : N) (e : send) (s : list N) (req : pdu) : treply :=
  reply_of_run_rtu
    (call_with src_pure (world_base (sw e)) fuel "rtuTransport.ExecuteRequest"
               ([VN tmo; VN la; VN t35; VN t1] ++ pdu_args req ++ [vbytes s])%list).

(* whatever the run returns, it is read as a well-formed reply *)
Lemma reply_of_run_rtu_wf r : treply_wf (reply_of_run_rtu r).
Proof.
  unfold reply_of_run_rtu.
  repeat match goal with
         | |- treply_wf (match ?x with _ => _ end) => destruct x
         end;
    first [apply bad_reply_wf|apply dec_reply_wf].
Qed.

Lemma src_rtu_reply_wf_all fuel tmo la t35 t1 e s req : treply_wf (src_rtu_reply fuel tmo la t35 t1 e s req).
Proof. unfold src_rtu_reply. apply reply_of_run_rtu_wf. Qed.

(* ------------------------------------------------------------------ the error values of the RTU transport on a stream world *)

Definition rtu_code (c : N) : Prop :=
  c = 0 \/ c = 1 \/ c = 2 \/ c = src_eof \/ c = c_ueof src_codes \/
  c = c_proto src_codes \/ c = c_badcrc src_codes \/ c = c_short src_codes.

Lemma sw_readfull_rtu_code e w n : rtu_code (snd (t_readfull (sw e) w n)).
Proof.
  unfold sw, stream_world. cbn [t_readfull].
  destruct (read_full _ _) as [got rest|got]; cbn [snd]; unfold rtu_code.
  - left. reflexivity.
  - destruct e; [|destruct got|]; auto 9.
Qed.

Section RtuCodes.
  Variables (T : tworld) (C : tcodes) (K : N -> Prop).
  Hypothesis K0 : K 0.
  Hypothesis Kproto : K (c_proto C).
  Hypothesis Kcrc : K (c_badcrc C).
  Hypothesis Kshort : K (c_short C).
  Hypothesis Krf : forall w n, K (snd (t_readfull T w n)).

  Lemma t_read_rtu_code w : K (snd (t_read_rtu T C w)).
  Proof.
    unfold t_read_rtu.
    pose proof (Krf w 3) as H1.
    destruct (t_readfull T w 3) as [[w1 h] e1]. cbn [snd] in H1.
    cbv zeta.
    destruct (andb (orb _ _) _); [exact Kshort|].
    destruct (andb (negb (e1 =? 0)) _); [exact H1|].
    destruct (expected_len _ _) as [n|]; [|exact Kproto].
    destruct (256 <? _); [exact Kproto|].
    pose proof (Krf w1 (n + 2)) as H2.
    destruct (t_readfull T w1 (n + 2)) as [[w2 body] e2]. cbn [snd] in H2.
    destruct (andb (negb (e2 =? 0)) _); [exact H2|].
    destruct (negb _); [exact Kshort|].
    destruct (crc_is_equal _ _ _); [exact K0|exact Kcrc].
  Qed.
End RtuCodes.

Lemma sw_read_rtu_code e w : rtu_code (snd (t_read_rtu (sw e) src_codes w)).
Proof.
  apply t_read_rtu_code; try (unfold rtu_code; auto 9).
  intros w' n. apply sw_readfull_rtu_code.
Qed.

(* src_rtu_ExecuteRequest_stream of Proofs/SrcTransportWorldsP.v, with the list
   of the possible error values *)
Theorem src_rtu_ExecuteRequest_stream_codes fuel e tmo la t35 t1 req s : bytesb s = true -> pdu_ok req ->
  exists la' p c,
  call_with src_pure (world_base (sw e)) fuel "rtuTransport.ExecuteRequest"
            ([VN tmo; VN la; VN t35; VN t1] ++ pdu_args req ++ [vbytes s])%list =
    GOk ([VN tmo; VN la'; VN t35; VN t1; vbytes (snd (rtu_read_response e s))] ++ enc_opdu p ++ [VN c])%list /\
  match fst (rtu_read_response e s) with
  | MOk q => p = Some q /\ c = 0
  | Err x => p = None /\ c <> 0 /\ EC c = x /\ rtu_code c
  | _ => False
  end.
Proof.
  intros Hs Hok.
  rewrite (src_rtu_ExecuteRequest_ok (world_base (sw e)) fuel (sw e) tmo la t35 t1 req (vbytes s)
             (sw_hyp e "link" (or_intror (or_introl eq_refl)))
             (sw_hyp e "rtuLink" (or_intror (or_intror eq_refl))) (sw_wf e) Hok).
  unfold out_rtu_execute. rewrite rtu_execute_sw.
  pose proof (t_read_rtu_stream src_codes e 2 src_eof src_distinct s Hs) as H.
  change (SW src_codes e 2 src_eof) with (sw e) in H.
  change (err_class src_codes 2) with EC in H.
  pose proof (sw_read_rtu_code e (vbytes s)) as HK.
  pose proof (read_rtu_bytes e s Hs) as Hb.
  destruct (t_read_rtu (sw e) src_codes (vbytes s)) as [[w8 res] c].
  cbn [snd] in HK.
  unfold rtu_read_response.
  destruct (read_rtu e s) as [r s'].
  cbn [fst snd] in H, Hb. destruct H as [Hw H]. subst w8.
  match goal with |- context [if negb ?b then 0 else ?y] => set (la' := if negb b then 0 else y) end.
  exists la', res, c. clearbody la'.
  destruct r as [q|x| |]; try contradiction.
  - destruct H as [Hp Hc]. subst res c.
    replace ((0 =? c_badcrc src_codes) || (0 =? c_proto src_codes) || (0 =? c_short src_codes))
      with false by (vm_compute; reflexivity).
    cbn [fst snd]. split; [reflexivity|]. split; reflexivity.
  - destruct H as (Hp & Hc & Hx). subst res.
    destruct (N.eqb_spec c (c_badcrc src_codes)) as [E1|E1].
    { subst c. rewrite EC_badcrc in Hx. subst x. cbn [orb fst snd].
      rewrite (discard_sw e s' Hb). split; [reflexivity|]. split; [reflexivity|].
      split; [exact Hc|]. split; [exact EC_badcrc|exact HK]. }
    destruct (N.eqb_spec c (c_proto src_codes)) as [E2|E2].
    { subst c. rewrite EC_proto in Hx. subst x. cbn [orb fst snd].
      rewrite (discard_sw e s' Hb). split; [reflexivity|]. split; [reflexivity|].
      split; [exact Hc|]. split; [exact EC_proto|exact HK]. }
    destruct (N.eqb_spec c (c_short src_codes)) as [E3|E3].
    { subst c. rewrite EC_short in Hx. subst x. cbn [orb fst snd].
      rewrite (discard_sw e s' Hb). split; [reflexivity|]. split; [reflexivity|].
      split; [exact Hc|]. split; [exact EC_short|exact HK]. }
    cbn [orb].
    destruct (EC_other c E1 E2 E3) as [Ho|[Ho|Ho]]; rewrite Ho in Hx; subst x; cbn [fst snd];
      (split; [reflexivity|]); (split; [reflexivity|]); (split; [assumption|]); split; assumption.
Qed.

(* ------------------------------------------------------------------ 2: the reply and the model's transport *)

(* the reply is a frame or an error value, as the framing model says (any fuel) *)
Lemma src_rtu_reply_cases fuel tmo la t35 t1 e s req : bytesb s = true -> pdu_ok req ->
  match rtu_read_response e s with
  | (MOk q, _) => src_rtu_reply fuel tmo la t35 t1 e s req = TOk q
  | (Err x, _) => exists c, src_rtu_reply fuel tmo la t35 t1 e s req = TErr c true 0 0 [] /\
                            c <> 0 /\ EC c = x /\ rtu_code c
  | _ => False
  end.
Proof.
  intros Hs Hok.
  destruct (src_rtu_ExecuteRequest_stream_codes fuel e tmo la t35 t1 req s Hs Hok) as (la' & p & c & Hrun & H).
  destruct (rtu_read_response e s) as [r s'] eqn:E.
  cbn [fst snd] in Hrun, H.
  destruct r as [q|x| |]; try contradiction.
  - destruct H as [Hp Hc]. subst p c.
    unfold src_rtu_reply. rewrite Hrun.
    pose proof (rtu_response_bytes _ _ _ _ Hs E) as Hb.
    destruct q as [u f pl]. cbn [p_payload] in Hb.
    cbn [app enc_opdu reply_of_run_rtu p_unit p_fc p_payload]. unfold vbytes.
    cbv beta iota. rewrite unvn_map. unfold dec_reply.
    change (0 =? 0) with true. cbv iota. rewrite Hb. reflexivity.
  - destruct H as (Hp & Hc & Hx & HK). subst p. exists c.
    split; [|split; [exact Hc|split; [exact Hx|exact HK]]].
    unfold src_rtu_reply. rewrite Hrun.
    cbn [app enc_opdu reply_of_run_rtu unvn]. unfold vbytes. cbv beta iota.
    cbn [unvn]. unfold dec_reply.
    destruct (N.eqb_spec c 0) as [E0|E0]; [contradiction|reflexivity].
Qed.

Theorem src_rtu_reply_model fuel tmo la t35 t1 txn e s req : bytesb s = true -> pdu_ok req ->
  reply_rel (src_rtu_reply fuel tmo la t35 t1 e s req) (model_transport FRtu txn e s req).
Proof.
  intros Hs Hok.
  pose proof (src_rtu_reply_cases fuel tmo la t35 t1 e s req Hs Hok) as H.
  unfold model_transport. rewrite transport_result_eq.
  destruct (rtu_read_response e s) as [r s'].
  cbn [fst].
  destruct r as [q|x| |]; try contradiction.
  - rewrite H. cbn [treply_of reply_rel]. reflexivity.
  - destruct H as (c & H & Hc & Hx & HK). rewrite H. clear H.
    unfold rtu_code in HK.
    destruct HK as [K|[K|[K|[K|[K|[K|[K|K]]]]]]]; subst c;
      try (exfalso; apply Hc; reflexivity);
      match type of Hx with EC ?c = _ =>
        let v := eval vm_compute in (EC c) in change (EC c) with v in Hx end;
      subst x; cbn [treply_of reply_rel]; vm_compute; reflexivity.
Qed.

(* the error class of a timeout is the same on both sides: the stream world's
   stall code is 2, the model's ETimeout is carried as 2 by [treply_of], and
   executeRequest ([exec_spec]) turns both into ErrRequestTimedOut *)
Lemma src_rtu_reply_timeout fuel tmo la t35 t1 txn e s req n u f p : bytesb s = true -> pdu_ok req ->
  src_rtu_reply fuel tmo la t35 t1 e s req = TErr 2 n u f p ->
  exists n' u' f' p', model_transport FRtu txn e s req = TErr 2 n' u' f' p'.
Proof.
  intros Hs Hok Ha.
  exact (reply_rel_timeout _ _ (src_rtu_reply_model fuel tmo la t35 t1 txn e s req Hs Hok) n u f p Ha).
Qed.

(* sanity, on samples: a frame is read on both sides; a bad CRC, a short frame,
   a timeout, EOF and a reset connection *)
Definition rtu_ok_frame : list N := assemble_rtu (mkpdu 9 3 [2; 0x11; 0x22]).

Example sample_rtu_frame :
  src_rtu_reply 1 1000 5 35 10 Stall rtu_ok_frame req1 = TOk (mkpdu 9 3 [2; 0x11; 0x22]) /\
  model_transport FRtu 7 Stall rtu_ok_frame req1 = TOk (mkpdu 9 3 [2; 0x11; 0x22]).
Proof. vm_compute. split; reflexivity. Qed.

Example sample_rtu_badcrc :
  src_rtu_reply 1 1000 5 35 10 Stall [9; 3; 2; 0x11; 0x22; 0; 0] req1 = TErr (c_badcrc src_codes) true 0 0 [] /\
  model_transport FRtu 7 Stall [9; 3; 2; 0x11; 0x22; 0; 0] req1 = TErr (c_badcrc src_codes) true 0 0 [].
Proof. vm_compute. split; reflexivity. Qed.

Example sample_rtu_short :
  src_rtu_reply 1 1000 5 35 10 Closed [9; 3] req1 = TErr (c_short src_codes) true 0 0 [] /\
  model_transport FRtu 7 Closed [9; 3] req1 = TErr (c_short src_codes) true 0 0 [].
Proof. vm_compute. split; reflexivity. Qed.

Example sample_rtu_timeout :
  src_rtu_reply 1 1000 5 35 10 Stall [9; 3; 2; 0x11] req1 = TErr 2 true 0 0 [] /\
  model_transport FRtu 7 Stall [9; 3; 2; 0x11] req1 = TErr 2 true 0 0 [].
Proof. vm_compute. split; reflexivity. Qed.

Example sample_rtu_eof :
  src_rtu_reply 1 1000 5 35 10 Closed [] req1 = TErr src_eof true 0 0 [] /\
  model_transport FRtu 7 Closed [] req1 = TErr other_error true 0 0 [].
Proof. vm_compute. split; reflexivity. Qed.

Example sample_rtu_reset :
  src_rtu_reply 1 1000 5 35 10 Reset [9; 3; 2; 0x11] req1 = TErr 1 true 0 0 [] /\
  model_transport FRtu 7 Reset [9; 3; 2; 0x11] req1 = TErr other_error true 0 0 [].
Proof. vm_compute. split; reflexivity. Qed.

Arguments src_rtu_reply : simpl never.
Global Opaque src_rtu_reply.

(* ------------------------------------------------------------------ 3: the capstone *)

Theorem call_out_stack_rtu_req cfg o fuel tmo la t35 t1 txn e s : bytesb s = true ->
  (forall req, client_request cfg o = MOk req -> pdu_ok req) ->
  sout_norm (call_out cfg o (xchg (src_rtu_reply fuel tmo la t35 t1 e s))) =
  sout_of (cr_res (client_call FRtu cfg txn o e s)).
Proof.
  intros Hs Hreq. rewrite <- call_out_client_call.
  apply call_out_rel. intros req Hr.
  apply src_rtu_reply_model; [exact Hs|exact (Hreq req Hr)].
Qed.

(* with the side conditions of the public API *)
Theorem call_out_stack_rtu cfg o fuel tmo la t35 t1 txn e s : op_wf o -> cfg_wf cfg -> bytesb s = true ->
  sout_norm (call_out cfg o (xchg (src_rtu_reply fuel tmo la t35 t1 e s))) =
  sout_of (cr_res (client_call FRtu cfg txn o e s)).
Proof.
  intros Ho Hc Hs. apply call_out_stack_rtu_req; [exact Hs|].
  intros req Hr. exact (client_request_pdu_ok cfg o req Ho Hc Hr).
Qed.

(* the translated RTU transport as the oracle of the translated client *)
Lemma src_rtu_reply_hyp fuel' tmo la t35 t1 e s :
  transport_hyp (oracle_of (src_rtu_reply fuel' tmo la t35 t1 e s)) (src_rtu_reply fuel' tmo la t35 t1 e s).
Proof. apply oracle_of_hyp. intros req. apply src_rtu_reply_wf_all. Qed.

(* two instances: the translated method, linked, on top of the translated RTU
   transport, returns what the model's client_call returns (up to [norm_io]) *)
Theorem src_WriteCoil_stack_rtu cfg tt fuel' tmo la t35 t1 txn e s fuel a v :
  bytesb s = true -> cfg_wf cfg -> a < 65536 ->
  exists X,
    call_with src_pure (oracle_of (src_rtu_reply fuel' tmo la t35 t1 e s)) fuel "ModbusClient.WriteCoil"
              (mc_fields cfg tt ++ [VN a; VB v])%list = out_err (mc_fields cfg tt) X /\
    sout_norm X = sout_of (cr_res (client_call FRtu cfg txn (OpWriteCoil a v) e s)).
Proof.
  intros Hs Hc Ha.
  exists (call_out cfg (OpWriteCoil a v) (xchg (src_rtu_reply fuel' tmo la t35 t1 e s))).
  split.
  - apply src_WriteCoil_ok; [apply src_rtu_reply_hyp|exact Ha].
  - apply call_out_stack_rtu; [exact Ha|exact Hc|exact Hs].
Qed.

Theorem src_ReadRegisters_stack_rtu cfg tt fuel' tmo la t35 t1 txn e s fuel a q rtn rt :
  bytesb s = true -> cfg_wf cfg ->
  a < 65536 -> q < 65536 -> regtype_sel rt rtn -> (300 < fuel)%nat ->
  exists X,
    call_with src_pure (oracle_of (src_rtu_reply fuel' tmo la t35 t1 e s)) fuel "ModbusClient.ReadRegisters"
              (mc_fields cfg tt ++ [VN a; VN q; VN rtn])%list = out_vals (mc_fields cfg tt) X /\
    sout_norm X = sout_of (cr_res (client_call FRtu cfg txn (OpReadRegs 1 a q rt) e s)).
Proof.
  intros Hs Hc Ha Hq Hrt Hfuel.
  exists (call_out cfg (OpReadRegs 1 a q rt) (xchg (src_rtu_reply fuel' tmo la t35 t1 e s))).
  split.
  - apply src_ReadRegisters_ok; [apply src_rtu_reply_hyp|assumption..].
  - apply call_out_stack_rtu; [|exact Hc|exact Hs].
    cbn [op_wf]. split; [left; reflexivity|]. split; [exact Ha|exact Hq].
Qed.

Print Assumptions src_rtu_reply_wf_all.
Print Assumptions src_rtu_ExecuteRequest_stream_codes.
Print Assumptions src_rtu_reply_model.
Print Assumptions src_rtu_reply_timeout.
Print Assumptions call_out_stack_rtu_req.
Print Assumptions call_out_stack_rtu.
Print Assumptions src_WriteCoil_stack_rtu.
Print Assumptions src_ReadRegisters_stack_rtu.
