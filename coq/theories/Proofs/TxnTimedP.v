(* C05 in time: on a timed peer stream that consists of frames the client has
   to skip (foreign transaction id or protocol id) - however many, however
   timed, whole or cut by the deadline - the MBAP call keeps waiting and
   returns the timeout error exactly at its deadline. *)
From Modbus Require Import Base.Bytes Model.Crc Model.Encoding Model.Wire Model.Client
  Model.Timed Spec.ModbusSpec Spec.ClientSpec Spec.TimedSpec
  Proofs.FramingP Proofs.ClientReqP Proofs.ClientRespP Proofs.TxnP Proofs.CutP Proofs.TimedP.
From Coq Require Import ZifyBool ZifyNat ZifyN.
Ltac Zify.zify_post_hook ::= Z.div_mod_to_equations.

(* any prefix of a sequence of skippable frames: the receive loop reads on
   until the bytes are exhausted *)
Lemma mbap_prefix_waits e txn frames : Forall (skippable txn) frames ->
  forall k fuel, (length (firstn k (concat frames)) < fuel)%nat ->
  mbap_read_response fuel e txn (firstn k (concat frames)) = (Err (short_err e), []).
Proof.
  intros HF. induction HF as [|f fs Hf Hfs IH]; intros k fuel Hfuel.
  - cbn [concat] in *. rewrite firstn_nil in *. destruct fuel as [|fuel]; [cbn in Hfuel; lia|].
    cbn [mbap_read_response]. unfold read_mbap.
    rewrite read_full_short_iff by (cbn; lia). destruct e; reflexivity.
  - cbn [concat] in *. destruct fuel as [|fuel]; [lia|].
    destruct Hf as (t & proto & u & c & pl & -> & Ht & Hp & Hpl & Hd).
    fold (mbap_frame t proto u c pl) in *.
    destruct (Nat.lt_ge_cases k (length (mbap_frame t proto u c pl))) as [Hlt|Hge].
    + rewrite firstn_app_le by lia. cbn [mbap_read_response].
      rewrite read_mbap_cut by assumption. destruct e; reflexivity.
    + rewrite firstn_app_ge in * by exact Hge. cbn [mbap_read_response].
      rewrite FramingP.read_mbap_frame by assumption.
      rewrite app_length in Hfuel.
      pose proof (mbap_frame_length t proto u c pl) as Hlen.
      destruct (proto =? 0) eqn:E.
      * apply N.eqb_eq in E. replace (t =? txn) with false by lia. apply IH. lia.
      * apply IH. lia.
Qed.

(* what has arrived by D is a prefix of the stream *)
Lemma tm_avail_firstn D s : tm_avail D s = firstn (length (tm_avail D s)) s.
Proof.
  induction s as [|[t b] s IH]; [reflexivity|]. cbn [tm_avail].
  destruct (t <=? D)%Z; [|reflexivity]. cbn [length firstn]. f_equal. exact IH.
Qed.

Lemma call_prefix_waits : forall cfg txn o e frames k,
  op_wf o -> valid_op o = true -> Forall (skippable (u16 (txn + 1))) frames ->
  let r := client_call FMbap cfg txn o e (firstn k (concat frames)) in
  cr_res r = Err (short_err e) /\ cr_rest r = [] /\ cr_txn r = u16 (txn + 1).
Proof.
  intros cfg txn o e frames k Hwf V HF r. subst r.
  destruct (request_valid_ok cfg o Hwf V) as (req & Hreq & _).
  rewrite (call_mbap cfg txn o e _ req Hreq). cbv zeta.
  rewrite (mbap_prefix_waits e (u16 (txn + 1)) frames HF k (S (length (firstn k (concat frames)))) (Nat.lt_succ_diag_r _)).
  cbn [fst snd after_recv cr_res cr_rest cr_txn]. repeat split.
Qed.

(* the bytes that have arrived by D: a prefix of the frame sequence *)
Lemma tm_avail_prefix D s frames : map snd s = concat frames ->
  exists n, map snd (tm_avail D s) = firstn n (concat frames).
Proof.
  intros Hs. exists (length (tm_avail D s)).
  pose proof (tm_avail_firstn D s) as E. remember (length (tm_avail D s)) as n.
  rewrite E, <- firstn_map, Hs. reflexivity.
Qed.

Lemma timed_keeps_waiting : forall k la cfg txn o t0 s frames,
  op_wf o -> valid_op o = true -> (0 <= tm_timeout k)%Z ->
  map snd s = concat frames -> Forall (skippable (u16 (txn + 1))) frames ->
  let r := tm_client_call FMbap k la cfg txn o t0 None s in
  tmc_res r = Err ETimeout /\ tmc_finish r = (t0 + tm_timeout k)%Z.
Proof.
  intros k la cfg txn o t0 s frames Hwf V Ht Hs HF r. subst r.
  destruct (tm_avail_prefix (t0 + tm_timeout k) s frames Hs) as [n Hav].
  assert (Hres : tmc_res (tm_client_call FMbap k la cfg txn o t0 None s) = Err ETimeout).
  { destruct (tm_client_sim_mbap k la cfg txn o t0 None s Ht) as [-> _].
    rewrite Hav. cbn [tm_end].
    destruct (call_prefix_waits cfg txn o Stall frames n Hwf V HF) as (-> & _).
    reflexivity. }
  split; [exact Hres|].
  destruct (request_valid_ok cfg o Hwf V) as (req & Hreq & _).
  destruct (tm_client_call_ok FMbap k la cfg txn o t0 None s req Hreq) as (Hr & Hf & _).
  rewrite Hf. rewrite Hr in Hres. cbn [tm_xchg] in *.
  pose proof (mbap_exchange_sim (tm_timeout k) t0 None (u16 (txn + 1)) s Ht) as Hsim.
  cbv zeta in Hsim. rewrite Hav in Hsim. cbn [tm_end] in Hsim.
  rewrite (mbap_prefix_waits Stall (u16 (txn + 1)) frames HF n
             (S (length (firstn n (concat frames)))) (Nat.lt_succ_diag_r _)) in Hsim.
  destruct (mbap_exchange_t (tm_timeout k) t0 None (u16 (txn + 1)) s) as [[r t] rest] eqn:Hex.
  cbn [fst snd] in *. destruct Hsim as (-> & _).
  exact (mbap_exchange_timeout (tm_timeout k) t0 None (u16 (txn + 1)) s t rest Ht Hex).
Qed.
