(* C06 over sessions on one RTU transport behind a line that damages some of
   the replies: a damaged reply the transport rejects (and, where the rejection
   triggers the resynchronisation, flushes) is not a success and leaves a clean
   line, so every later reply that arrives intact is a success with the values
   of that very reply - wherever in the session the damage occurs. *)
From Modbus Require Import Base.Bytes Model.Crc Model.Encoding Model.Wire Model.Client Model.RtuSeq
  Model.RtuSeqBad Spec.ModbusSpec Spec.ClientSpec Spec.RtuSeqSpec
  Proofs.ClientReqP Proofs.ClientRespP Proofs.RtuRecoveryP Proofs.RtuSeqP.
From Coq Require Import ZifyBool ZifyNat ZifyN.
Ltac Zify.zify_post_hook ::= Z.div_mod_to_equations.

(* what the line delivered is rejected by the transport with error x and the
   line is clean afterwards: the rejection is one of those that trigger the
   flush, or the receiver has consumed everything (it waited in vain for the
   rest of a longer frame) *)
Definition rb_rejected (wire : list N) (x : err) : Prop :=
  (length wire <= 1024)%nat /\
  exists rest, rtu_read_response Stall wire = (Err x, rest) /\ (flushes x = true \/ rest = []).

(* a session: every call is one the client transmits, the device produces a
   valid reply to it delivering vs, and that reply arrives intact (outcome
   Ok vs) or is replaced by bytes the transport rejects (outcome Err x) *)
Fixpoint rb_session (cfg : ccfg) (steps : list rb_step) (outs : list (result values)) : Prop :=
  match steps with
  | [] => outs = []
  | RbCfg c :: t => cfg_wf c /\ rb_session c t outs
  | RbCall o valid wire :: t =>
      match outs with
      | [] => False
      | r :: rt =>
          op_wf o /\ valid_op o = true /\
          (exists res vs, bytesb (p_payload res) = true /\ answers cfg o res vs /\
                          valid = spec_frame FRtu 0 res /\
                          ((wire = valid /\ r = Ok vs) \/
                           (exists x, rb_rejected wire x /\ r = Err x))) /\
          rb_session cfg t rt
      end
  end.

Definition rb_demand_of (r : result values) : rb_demand :=
  match r with
  | Ok vs => RbFresh (Ok vs)
  | _ => RbNotSuccess
  end.

(* the request of a call the client transmits carries its CRC: the device
   answers it, and what the line delivers reaches the client *)
Lemma rb_device_answers cfg o reply : op_wf o -> cfg_wf cfg -> valid_op o = true ->
  rs_device reply (cr_writes (client_call FRtu cfg 0 o Stall [])) = reply.
Proof.
  intros Hwf Hcfg V.
  assert (H0 : (0 < 65536)%N) by lia.
  destruct (client_transmit FRtu cfg 0 o Stall [] Hwf Hcfg H0) as [Hv _].
  cbv zeta in Hv. rewrite (Hv V). unfold rs_device. cbn [flat_map].
  change (spec_frame FRtu (u16 (0 + 1)) (spec_pdu cfg o))
    with (([p_unit (spec_pdu cfg o); p_fc (spec_pdu cfg o)] ++ p_payload (spec_pdu cfg o)) ++
          [crc_ref ([p_unit (spec_pdu cfg o); p_fc (spec_pdu cfg o)] ++ p_payload (spec_pdu cfg o)) mod 256;
           crc_ref ([p_unit (spec_pdu cfg o); p_fc (spec_pdu cfg o)] ++ p_payload (spec_pdu cfg o)) / 256]).
  rewrite ends_with_crcb_complete. apply app_nil_r.
Qed.

(* a rejected reply: the call reports the error and the line is clean *)
Lemma rb_rejected_call cfg o wire x : op_wf o -> valid_op o = true -> rb_rejected wire x ->
  cr_res (client_call FRtu cfg 0 o Stall wire) = Err x /\
  cr_rest (client_call FRtu cfg 0 o Stall wire) = [].
Proof.
  intros Hwf V (Hl & rest & Er & Hor).
  assert (Hrest : rest = []).
  { destruct Hor as [Hf|Hn]; [exact (flush_empties_line Stall wire x rest Hl Er Hf)|exact Hn]. }
  subst rest.
  unfold client_call, transport_exchange. rewrite (client_request_exact cfg o Hwf), V, Er.
  split; reflexivity.
Qed.

(* the outcomes of the session are exactly the ones the property asks for, and
   no call leaves anything on the line *)
Theorem rtuseqbad_recovers : forall steps cfg outs,
  cfg_wf cfg -> rb_session cfg steps outs ->
  map cr_res (rtuseqbad_run cfg steps) = outs /\
  Forall (fun r => cr_rest r = []) (rtuseqbad_run cfg steps).
Proof.
  unfold rtuseqbad_run.
  induction steps as [|st t IH]; intros cfg outs Hcfg Ha; cbn [map rtuseq_run rb_line rb_session] in *.
  - subst outs. split; [reflexivity|constructor].
  - destruct st as [o valid wire|c]; cbn [rb_line rtuseq_run].
    + destruct outs as [|r rt]; [contradiction|].
      destruct Ha as (Hwf & V & (res & vs & Hb & Hans & Hvalid & Hcase) & Ht).
      rewrite (rb_device_answers cfg o wire Hwf Hcfg V). cbn [app].
      destruct (IH cfg rt Hcfg Ht) as [IH1 IH2].
      destruct Hcase as [[Hw Hr]|(x & Hrej & Hr)]; subst r.
      * subst wire valid.
        pose proof (client_complete_rtu cfg 0 o Stall res vs [] Hwf Hcfg V Hb Hans) as Hc.
        cbv zeta in Hc. rewrite app_nil_r in Hc. destruct Hc as [Hr Hrest].
        rewrite Hrest. cbn [map]. rewrite Hr, IH1. split; [reflexivity|].
        constructor; [exact Hrest|exact IH2].
      * destruct (rb_rejected_call cfg o wire x Hwf V Hrej) as [Hr Hrest].
        rewrite Hrest. cbn [map]. rewrite Hr, IH1. split; [reflexivity|].
        constructor; [exact Hrest|exact IH2].
    + destruct Ha as [Hc Ht]. apply IH; assumption.
Qed.

(* what the check asks of each call (rtuseqbad_demands, computed from the
   session alone) is what the session's outcomes say *)
Theorem rtuseqbad_demands_spec : forall steps cfg outs,
  cfg_wf cfg -> rb_session cfg steps outs ->
  rtuseqbad_demands cfg steps = map rb_demand_of outs.
Proof.
  induction steps as [|st t IH]; intros cfg outs Hcfg Ha; cbn [rtuseqbad_demands rb_session] in *.
  - subst outs. reflexivity.
  - destruct st as [o valid wire|c].
    + destruct outs as [|r rt]; [contradiction|].
      destruct Ha as (Hwf & V & (res & vs & Hb & Hans & Hvalid & Hcase) & Ht).
      cbn [map]. rewrite (IH cfg rt Hcfg Ht).
      pose proof (client_complete_rtu cfg 0 o Stall res vs [] Hwf Hcfg V Hb Hans) as Hc.
      cbv zeta in Hc. rewrite app_nil_r in Hc. destruct Hc as [Hok _].
      destruct Hcase as [[Hw Hr]|(x & Hrej & Hr)]; subst r.
      * subst wire. assert (E : list_eqb valid valid = true) by (apply list_eqb_eq; reflexivity).
        rewrite E. subst valid. rewrite Hok. reflexivity.
      * destruct (list_eqb wire valid) eqn:E; [|reflexivity].
        apply list_eqb_eq in E. subst wire valid.
        destruct (rb_rejected_call cfg o _ x Hwf V Hrej) as [Hr _].
        rewrite Hok in Hr. discriminate Hr.
    + destruct Ha as [Hc Ht]. apply IH; assumption.
Qed.

(* one family of damaged replies that satisfies rb_rejected whatever the frame:
   any CRC field that does not match (a bad-CRC error at the length the header
   announces, which triggers the flush) *)
Lemma rb_rejected_bad_crc_field unit fc b2 data lo hi :
  expected_len fc b2 = Some (lenN data) -> lenN data <= 251 ->
  crc_is_equal (crc16 ([unit; fc; b2] ++ data)) lo hi = false ->
  rb_rejected (([unit; fc; b2] ++ data) ++ [lo; hi]) EBadCRC.
Proof.
  intros He Hl Hc. split.
  - rewrite !app_length. cbn [length]. unfold lenN in Hl. lia.
  - exists []. split; [|left; reflexivity].
    pose proof (read_rtu_bad_crc Stall unit fc b2 data lo hi [] He Hl Hc) as H.
    rewrite app_nil_r in H. unfold rtu_read_response. rewrite H. reflexivity.
Qed.
