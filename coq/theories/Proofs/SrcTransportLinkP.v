(* tcp_transport.go and rtu_transport.go inside the linked program [src_pure]:
   every translated transport function, called through [call_with src_pure
   base], equals the transport model of Model/Transport.v. The callee
   hypotheses of Proofs/SrcTransport{Mbap,Tcp,RtuFrame,Rtu}P.v are discharged by
   the lemmas about the linked callees; only the external functions (socket /
   serial link, clock) remain, given by the base environment. *)
From Coq Require Import List NArith String Lia Bool.
From Coq Require Import ZifyBool ZifyNat ZifyN.
Import ListNotations.
From Modbus Require Import Base.Bytes Model.GoLite Gen.SrcPure Model.Crc Model.Encoding.
From Modbus Require Import Model.Wire Model.Transport.
From Modbus Require Import Proofs.GoLiteP Proofs.GoLiteLinkP Proofs.SrcCrcP Proofs.SrcLinkP Proofs.SrcMiscP Proofs.SrcClientP.
From Modbus Require Import Proofs.SrcTransportP Proofs.SrcTransportMbapP Proofs.SrcTransportTcpP
  Proofs.SrcTransportRtuFrameP Proofs.SrcTransportRtuP.
Open Scope string_scope.
Open Scope N_scope.

(* ---------------------------------------------------------------- the external functions seen from inside the program *)

(* [tworld_hyp] only looks at eight names of the environment *)
Lemma tworld_hyp_ext (fe fe' : fenv) T x :
  (forall a, fe' "time.Now" a = fe "time.Now" a) ->
  (forall a, fe' "time.Sleep" a = fe "time.Sleep" a) ->
  (forall a, fe' (x ++ ".SetDeadline") a = fe (x ++ ".SetDeadline") a) ->
  (forall a, fe' (x ++ ".Write") a = fe (x ++ ".Write") a) ->
  (forall a, fe' (x ++ ".ReadFull") a = fe (x ++ ".ReadFull") a) ->
  (forall a, fe' (x ++ ".Close") a = fe (x ++ ".Close") a) ->
  tworld_hyp fe T x -> tworld_hyp fe' T x.
Proof.
  intros E1 E2 E3 E4 E5 E6 (H1 & H2 & H3 & H4 & H5 & H6).
  unfold tworld_hyp. repeat split; intros.
  - rewrite E1. apply H1.
  - rewrite E2. apply H2.
  - rewrite E3. apply H3.
  - rewrite E4. apply H4.
  - rewrite E5. apply H5.
  - rewrite E6. apply H6.
Qed.

(* [caller]: the (concrete) name of the function whose environment the goal is
   about; [x]: the (concrete) name of its socket / link; [HT]: the hypothesis
   on the base environment. None of the eight names is a function of the
   program, so the caller's environment hands them to the base environment. *)
Ltac world_env caller x HT :=
  let n3 := eval cbv in (x ++ ".SetDeadline") in
  let n4 := eval cbv in (x ++ ".Write") in
  let n5 := eval cbv in (x ++ ".ReadFull") in
  let n6 := eval cbv in (x ++ ".Close") in
  let a := fresh "a" in
  refine (tworld_hyp_ext _ _ _ x _ _ _ _ _ _ HT); cbn [append]; intros a;
  [ exact (env_base src_pure _ caller "time.Now" eq_refl _ a)
  | exact (env_base src_pure _ caller "time.Sleep" eq_refl _ a)
  | exact (env_base src_pure _ caller n3 eq_refl _ a)
  | exact (env_base src_pure _ caller n4 eq_refl _ a)
  | exact (env_base src_pure _ caller n5 eq_refl _ a)
  | exact (env_base src_pure _ caller n6 eq_refl _ a) ].

(* ---------------------------------------------------------------- callee hypotheses in the linked program *)

Ltac hyp_b2u16 caller :=
  let e' := fresh "e'" in let l' := fresh "l'" in
  intros e' l'; callee caller "bytesToUint16" src_fn_bytesToUint16; apply src_bytesToUint16_ok.

Ltac hyp_asm_mbap caller :=
  let t' := fresh "t'" in let u' := fresh "u'" in let f' := fresh "f'" in
  let p' := fresh "p'" in let H' := fresh "H'" in
  intros t' u' f' p' H';
  callee caller "tcpTransport.assembleMBAPFrame" src_fn_tcpTransport_assembleMBAPFrame;
  apply src_assembleMBAPFrame_ok; exact H'.

Ltac hyp_asm_rtu caller :=
  let u' := fresh "u'" in let f' := fresh "f'" in
  let p' := fresh "p'" in let H' := fresh "H'" in
  intros u' f' p' H';
  callee caller "rtuTransport.assembleRTUFrame" src_fn_rtuTransport_assembleRTUFrame;
  apply src_assembleRTUFrame_ok; exact H'.

Ltac hyp_erl caller :=
  let f' := fresh "f'" in let b' := fresh "b'" in
  let Hf' := fresh "Hf'" in let Hb' := fresh "Hb'" in
  intros f' b' Hf' Hb';
  callee caller "expectedResponseLenth" src_fn_expectedResponseLenth;
  apply src_expectedResponseLenth_ok; assumption.

Ltac hyp_crc caller :=
  let s' := fresh "s'" in let l' := fresh "l'" in let H' := fresh "H'" in
  let lo' := fresh "lo'" in let hi' := fresh "hi'" in
  unfold crc_hyp; split; [|split];
  [ intros s'; callee caller "crc.init" src_fn_crc_init; apply src_crc_init_ok
  | intros s' l' H'; callee caller "crc.add" src_fn_crc_add; apply src_crc_add_ok; exact H'
  | intros s' lo' hi'; callee caller "crc.isEqual" src_fn_crc_isEqual; apply src_crc_isEqual_ok ].

(* ---------------------------------------------------------------- tcpTransport *)

Theorem src_readMBAPFrame_ok base fuel T tmo last w : tworld_hyp base T "socket" -> tworld_wf T src_codes ->
  call_with src_pure base fuel "tcpTransport.readMBAPFrame" [VN tmo; VN last; w] = out_read_mbap T tmo last w.
Proof.
  intros HT Hwf.
  link_step "tcpTransport.readMBAPFrame" src_fn_tcpTransport_readMBAPFrame.
  apply run_readMBAPFrame; [|exact Hwf|].
  - world_env "tcpTransport.readMBAPFrame" "socket" HT.
  - hyp_b2u16 "tcpTransport.readMBAPFrame".
Qed.

Ltac hyp_read_mbap caller HT Hwf :=
  let t' := fresh "t'" in let l' := fresh "l'" in let w' := fresh "w'" in
  intros t' l' w';
  callee caller "tcpTransport.readMBAPFrame" src_fn_tcpTransport_readMBAPFrame;
  apply src_readMBAPFrame_ok; [exact HT|exact Hwf].

(* the environment gives the callee the fuel of the caller: the bound on the
   frames skipped by readResponse is the fuel of the call *)
Theorem src_readResponse_ok base fuel T tmo last w : tworld_hyp base T "socket" -> tworld_wf T src_codes ->
  call_with src_pure base fuel "tcpTransport.readResponse" [VN tmo; VN last; w] = out_read_response T fuel tmo last w.
Proof.
  intros HT Hwf.
  link_step "tcpTransport.readResponse" src_fn_tcpTransport_readResponse.
  apply run_readResponse.
  hyp_read_mbap "tcpTransport.readResponse" HT Hwf.
Qed.

Theorem src_tcp_ReadRequest_ok base fuel T tmo last w : tworld_hyp base T "socket" -> tworld_wf T src_codes ->
  call_with src_pure base fuel "tcpTransport.ReadRequest" [VN tmo; VN last; w] = out_tcp_read_request T tmo last w.
Proof.
  intros HT Hwf.
  link_step "tcpTransport.ReadRequest" src_fn_tcpTransport_ReadRequest.
  apply run_tcp_ReadRequest.
  - world_env "tcpTransport.ReadRequest" "socket" HT.
  - hyp_read_mbap "tcpTransport.ReadRequest" HT Hwf.
Qed.

Theorem src_tcp_WriteResponse_ok base fuel T tmo last res w : tworld_hyp base T "socket" -> pdu_ok res ->
  call_with src_pure base fuel "tcpTransport.WriteResponse" ([VN tmo; VN last] ++ pdu_args res ++ [w])%list =
  out_tcp_write_response T tmo last res w.
Proof.
  intros HT Hok.
  link_step "tcpTransport.WriteResponse" src_fn_tcpTransport_WriteResponse.
  apply run_tcp_WriteResponse; [| |exact Hok].
  - world_env "tcpTransport.WriteResponse" "socket" HT.
  - hyp_asm_mbap "tcpTransport.WriteResponse".
Qed.

Theorem src_tcp_ExecuteRequest_ok base fuel T tmo last req w :
  tworld_hyp base T "socket" -> tworld_wf T src_codes -> pdu_ok req ->
  call_with src_pure base fuel "tcpTransport.ExecuteRequest" ([VN tmo; VN last] ++ pdu_args req ++ [w])%list =
  out_tcp_execute T fuel tmo last req w.
Proof.
  intros HT Hwf Hok.
  link_step "tcpTransport.ExecuteRequest" src_fn_tcpTransport_ExecuteRequest.
  apply run_tcp_ExecuteRequest; [| | |exact Hok].
  - world_env "tcpTransport.ExecuteRequest" "socket" HT.
  - hyp_asm_mbap "tcpTransport.ExecuteRequest".
  - intros t' l' w'.
    callee "tcpTransport.ExecuteRequest" "tcpTransport.readResponse" src_fn_tcpTransport_readResponse.
    apply src_readResponse_ok; [exact HT|exact Hwf].
Qed.

Theorem src_tcp_Close_ok base fuel T tmo last w : tworld_hyp base T "socket" ->
  call_with src_pure base fuel "tcpTransport.Close" [VN tmo; VN last; w] = out_close T [VN tmo; VN last] w.
Proof.
  intros HT.
  link_step "tcpTransport.Close" src_fn_tcpTransport_Close.
  apply run_tcp_Close.
  world_env "tcpTransport.Close" "socket" HT.
Qed.

(* ---------------------------------------------------------------- rtuTransport *)

Theorem src_readRTUFrame_ok base fuel T tmo la t35 t1 w : tworld_hyp base T "link" -> tworld_wf T src_codes ->
  call_with src_pure base fuel "rtuTransport.readRTUFrame" [VN tmo; VN la; VN t35; VN t1; w] =
  out_read_rtu T tmo la t35 t1 w.
Proof.
  intros HT Hwf.
  link_step "rtuTransport.readRTUFrame" src_fn_rtuTransport_readRTUFrame.
  apply run_readRTUFrame; [|exact Hwf| |].
  - world_env "rtuTransport.readRTUFrame" "link" HT.
  - hyp_erl "rtuTransport.readRTUFrame".
  - hyp_crc "rtuTransport.readRTUFrame".
Qed.

Theorem src_discard_ok base fuel T w : tworld_hyp base T "rtuLink" -> tworld_wf T src_codes ->
  call_with src_pure base fuel "discard" [w] = out_discard T w.
Proof.
  intros HT Hwf.
  link_step "discard" src_fn_discard.
  apply run_discard; [|exact Hwf].
  world_env "discard" "rtuLink" HT.
Qed.

Theorem src_rtu_ExecuteRequest_ok base fuel T tmo la t35 t1 req w :
  tworld_hyp base T "link" -> tworld_hyp base T "rtuLink" -> tworld_wf T src_codes -> pdu_ok req ->
  call_with src_pure base fuel "rtuTransport.ExecuteRequest" ([VN tmo; VN la; VN t35; VN t1] ++ pdu_args req ++ [w])%list =
  out_rtu_execute T tmo la t35 t1 req w.
Proof.
  intros HT HT2 Hwf Hok.
  link_step "rtuTransport.ExecuteRequest" src_fn_rtuTransport_ExecuteRequest.
  apply run_rtu_ExecuteRequest; [| | | |exact Hok].
  - world_env "rtuTransport.ExecuteRequest" "link" HT.
  - hyp_asm_rtu "rtuTransport.ExecuteRequest".
  - intros tmo' la' t35' t1' w'.
    callee "rtuTransport.ExecuteRequest" "rtuTransport.readRTUFrame" src_fn_rtuTransport_readRTUFrame.
    apply src_readRTUFrame_ok; [exact HT|exact Hwf].
  - intros w'.
    callee "rtuTransport.ExecuteRequest" "discard" src_fn_discard.
    apply src_discard_ok; [exact HT2|exact Hwf].
Qed.

Theorem src_rtu_WriteResponse_ok base fuel T tmo la t35 t1 res w : tworld_hyp base T "link" -> pdu_ok res ->
  call_with src_pure base fuel "rtuTransport.WriteResponse" ([VN tmo; VN la; VN t35; VN t1] ++ pdu_args res ++ [w])%list =
  out_rtu_write_response T tmo la t35 t1 res w.
Proof.
  intros HT Hok.
  link_step "rtuTransport.WriteResponse" src_fn_rtuTransport_WriteResponse.
  apply run_rtu_WriteResponse; [| |exact Hok].
  - world_env "rtuTransport.WriteResponse" "link" HT.
  - hyp_asm_rtu "rtuTransport.WriteResponse".
Qed.

Theorem src_rtu_ReadRequest_ok base fuel w :
  call_with src_pure base fuel "rtuTransport.ReadRequest" [w] = out_rtu_read_request w.
Proof.
  link_step "rtuTransport.ReadRequest" src_fn_rtuTransport_ReadRequest.
  apply run_rtu_ReadRequest.
Qed.

Theorem src_rtu_Close_ok base fuel T tmo la t35 t1 w : tworld_hyp base T "link" ->
  call_with src_pure base fuel "rtuTransport.Close" [VN tmo; VN la; VN t35; VN t1; w] =
  out_close T [VN tmo; VN la; VN t35; VN t1] w.
Proof.
  intros HT.
  link_step "rtuTransport.Close" src_fn_rtuTransport_Close.
  apply run_rtu_Close.
  world_env "rtuTransport.Close" "link" HT.
Qed.

Print Assumptions src_readMBAPFrame_ok.
Print Assumptions src_readResponse_ok.
Print Assumptions src_tcp_ReadRequest_ok.
Print Assumptions src_tcp_WriteResponse_ok.
Print Assumptions src_tcp_ExecuteRequest_ok.
Print Assumptions src_tcp_Close_ok.
Print Assumptions src_readRTUFrame_ok.
Print Assumptions src_discard_ok.
Print Assumptions src_rtu_ExecuteRequest_ok.
Print Assumptions src_rtu_WriteResponse_ok.
Print Assumptions src_rtu_ReadRequest_ok.
Print Assumptions src_rtu_Close_ok.
