(* Proofs for C05 over histories with unit-id changes between requests
   (Model/TxnUnits.v, Spec/TxnUnitsSpec.v): the connection state - counter,
   unread bytes - evolves independently of the unit id, so every call of such
   a history is the call of a single-unit history (Proofs/TxnP.v) made under
   the unit id in force. *)
From Modbus Require Import Base.Bytes Model.Crc Model.Encoding Model.Wire Model.Client
  Model.TxnHistory Model.TxnUnits Spec.ModbusSpec Spec.ClientSpec Spec.TxnSpec
  Spec.TxnUnitsSpec Proofs.FramingP Proofs.ClientReqP Proofs.ClientRespP Proofs.TxnP.
From Coq Require Import ZifyBool ZifyNat ZifyN.
Ltac Zify.zify_post_hook ::= Z.div_mod_to_equations.

(* ---------------------------------------------------------------- the state does not depend on the configuration *)

(* what a call leaves behind on the connection - counter and unread bytes - is
   the same under every client configuration (unit id, byte and word order) *)
Lemma call_state_cfg cfg cfg' txn o e s : op_wf o ->
  cr_txn (client_call FMbap cfg txn o e s) = cr_txn (client_call FMbap cfg' txn o e s) /\
  cr_rest (client_call FMbap cfg txn o e s) = cr_rest (client_call FMbap cfg' txn o e s).
Proof.
  intros Hwf.
  pose proof (client_request_exact cfg o Hwf) as H1.
  pose proof (client_request_exact cfg' o Hwf) as H2.
  destruct (valid_op o).
  - rewrite (call_mbap cfg txn o e s _ H1), (call_mbap cfg' txn o e s _ H2).
    cbn [cr_txn cr_rest]. split; reflexivity.
  - unfold client_call. rewrite H1, H2. split; reflexivity.
Qed.

Lemma hist_step_state_cfg : forall cfg cfg' st x, op_wf (ths_op x) ->
  fst (hist_step FMbap cfg st x) = fst (hist_step FMbap cfg' st x).
Proof.
  intros cfg cfg' st x Hwf. cbn [hist_step fst].
  destruct (call_state_cfg cfg cfg' (th_txn st) (ths_op x)
              (th_end_after (th_end st) (ths_end x)) (th_left st ++ ths_bytes x) Hwf) as [H1 H2].
  rewrite H1, H2. reflexivity.
Qed.

(* ---------------------------------------------------------------- structure *)

Lemma thu_set_unit_same cfg : thu_set_unit cfg (c_unit cfg) = cfg.
Proof. destruct cfg. reflexivity. Qed.

Lemma thu_erase_app a b : thu_erase (a ++ b) = thu_erase a ++ thu_erase b.
Proof.
  induction a as [|x t IH]; [reflexivity|].
  destruct x; cbn [app thu_erase]; rewrite IH; reflexivity.
Qed.

Lemma thu_erase_wf xs : Forall thu_step_wf xs ->
  Forall (fun x => op_wf (ths_op x)) (thu_erase xs).
Proof.
  induction 1 as [|x t Hx _ IH]; [constructor|].
  destruct x; cbn [thu_erase]; [constructor; assumption|assumption].
Qed.

Lemma thu_unit_run_lt xs : forall u, u < 256 -> Forall thu_step_wf xs -> thu_unit_run u xs < 256.
Proof.
  induction xs as [|x t IH]; intros u Hu HF; [exact Hu|].
  inversion HF as [|? ? Hx Ht]; subst. destruct x as [c|v]; cbn [thu_unit_run].
  - apply IH; assumption.
  - apply IH; [exact Hx|exact Ht].
Qed.

(* after any steps: the configuration is the initial one with the unit id of
   the last unit change; the connection state is that of the calls alone, made
   under ANY configuration cfg0 *)
Lemma histu_final_split cfg0 xs : forall cfg st, Forall thu_step_wf xs ->
  histu_final FMbap (cfg, st) xs =
  (thu_set_unit cfg (thu_unit_run (c_unit cfg) xs), hist_final FMbap cfg0 st (thu_erase xs)).
Proof.
  induction xs as [|x t IH]; intros cfg st HF.
  - cbn [histu_final thu_unit_run thu_erase hist_final]. rewrite thu_set_unit_same. reflexivity.
  - inversion HF as [|? ? Hx Ht]; subst. destruct x as [c|v].
    + cbn [histu_final histu_step fst snd thu_unit_run thu_erase hist_final].
      rewrite (hist_step_state_cfg cfg0 cfg st c Hx).
      destruct (hist_step FMbap cfg st c) as [st' r]. cbn [fst].
      apply IH. exact Ht.
    + cbn [histu_final histu_step fst snd thu_unit_run thu_erase].
      rewrite IH by exact Ht. reflexivity.
Qed.

Lemma histu_run_length fr xs : forall cs, length (histu_run fr cs xs) = length xs.
Proof.
  induction xs as [|x t IH]; intros cs; [reflexivity|].
  cbn [histu_run]. destruct (histu_step fr cs x) as [cs' r]. cbn [length]. rewrite IH. reflexivity.
Qed.

Lemma histu_run_app fr a b : forall cs,
  histu_run fr cs (a ++ b) = histu_run fr cs a ++ histu_run fr (histu_final fr cs a) b.
Proof.
  induction a as [|x t IH]; intros cs; [reflexivity|].
  cbn [app histu_run histu_final]. destruct (histu_step fr cs x) as [cs' r].
  cbn [fst app]. rewrite IH. reflexivity.
Qed.

Lemma histu_run_nth fr cs pre x post d :
  nth (length pre) (histu_run fr cs (pre ++ x :: post)) d =
  snd (histu_step fr (histu_final fr cs pre) x).
Proof.
  rewrite histu_run_app. cbn [histu_run].
  destruct (histu_step fr (histu_final fr cs pre) x) as [cs' r]. cbn [snd].
  rewrite <- (histu_run_length fr pre cs) at 1.
  rewrite nth_middle. reflexivity.
Qed.

(* ---------------------------------------------------------------- reduction to one unit *)

(* every call of a history with unit changes returns exactly what it returns
   in the history made of the same calls WITHOUT unit changes in which all the
   requests go out under the unit id in force at that call: unit changes alter
   nothing but the unit id of the requests that follow them *)
Lemma histu_call_single_unit : forall cfg st pre x post d d',
  Forall thu_step_wf pre ->
  let cfg' := thu_set_unit cfg (thu_unit_run (c_unit cfg) pre) in
  nth (length pre) (histu_run FMbap (cfg, st) (pre ++ UCall x :: post)) d =
  Some (nth (length (thu_erase pre))
          (hist_run FMbap cfg' st (thu_erase pre ++ x :: thu_erase post)) d').
Proof.
  intros cfg st pre x post d d' Hpre cfg'.
  rewrite histu_run_nth, hist_run_nth.
  rewrite (histu_final_split cfg' pre cfg st Hpre). fold cfg'.
  cbn [histu_step fst snd].
  destruct (hist_step FMbap cfg' (hist_final FMbap cfg' st (thu_erase pre)) x) as [st' r].
  reflexivity.
Qed.

(* a unit change returns nothing *)
Lemma histu_setunit_none : forall fr cs pre u post d,
  nth (length pre) (histu_run fr cs (pre ++ USetUnit u :: post)) d = None.
Proof. intros. rewrite histu_run_nth. reflexivity. Qed.

(* ---------------------------------------------------------------- the counter *)

(* the counter advances by one per transmitted request of the connection,
   whatever units the requests are addressed to; unit changes leave it alone *)
Lemma histu_counter : forall cfg xs st,
  Forall thu_step_wf xs -> th_txn st < 65536 ->
  th_txn (snd (histu_final FMbap (cfg, st) xs)) = (th_txn st + th_sent (thu_erase xs)) mod 65536.
Proof.
  intros cfg xs st HF Ht. rewrite (histu_final_split cfg xs cfg st HF). cbn [snd].
  apply hist_counter; [apply thu_erase_wf; exact HF|exact Ht].
Qed.

Definition thu_dcr : call_result := mkcall Panic [] [] 0.

(* the request at any position goes out with the id counter + (number of
   requests transmitted on the connection before it, to whatever unit) + 1 and
   is addressed to the unit of the last unit change *)
Lemma histu_request_id : forall cfg st pre x post d,
  cfg_wf cfg -> th_txn st < 65536 -> Forall thu_step_wf (pre ++ UCall x :: post) ->
  let u := thu_unit_run (c_unit cfg) pre in
  exists r,
    nth (length pre) (histu_run FMbap (cfg, st) (pre ++ UCall x :: post)) d = Some r /\
    (valid_op (ths_op x) = true ->
     cr_writes r = [spec_frame FMbap (th_id (th_txn st) (th_sent (thu_erase pre)))
                      (spec_pdu (thu_set_unit cfg u) (ths_op x))] /\
     p_unit (spec_pdu (thu_set_unit cfg u) (ths_op x)) = u) /\
    (valid_op (ths_op x) = false -> cr_writes r = [] /\ cr_res r = Err EParams).
Proof.
  intros cfg st pre x post d Hcfg Ht HF u.
  pose proof (thu_erase_wf _ HF) as HE. rewrite thu_erase_app in HE. cbn [thu_erase] in HE.
  apply Forall_app in HF as [Hpre _].
  rewrite (histu_call_single_unit cfg st pre x post d thu_dcr Hpre). fold u.
  eexists. split; [reflexivity|].
  assert (Hcfg' : cfg_wf (thu_set_unit cfg u)).
  { unfold cfg_wf, thu_set_unit. cbn [c_unit]. apply thu_unit_run_lt; assumption. }
  destruct (hist_request_id (thu_set_unit cfg u) st (thu_erase pre) x (thu_erase post) thu_dcr
              Hcfg' Ht HE) as [H1 H2].
  split; [|exact H2]. intros V. split; [exact (H1 V)|reflexivity].
Qed.

(* ---------------------------------------------------------------- whole tagged frames *)

Lemma thu_calls_app a b : thu_calls (a ++ b) = thu_calls a ++ thu_calls b.
Proof.
  induction a as [|x t IH]; [reflexivity|].
  destruct x; cbn [app thu_calls]; rewrite IH; reflexivity.
Qed.

Lemma thu_erase_concrete txn0 xs :
  thu_erase (map (thu_concrete txn0) xs) = map (th_concrete txn0) (thu_calls xs).
Proof.
  induction xs as [|x t IH]; [reflexivity|].
  destruct x; cbn [map thu_concrete thu_erase thu_calls]; rewrite IH; reflexivity.
Qed.

Lemma thu_unit_run_concrete txn0 xs : forall u,
  thu_unit_run u (map (thu_concrete txn0) xs) = thu_unit_after u xs.
Proof.
  induction xs as [|x t IH]; intros u; [reflexivity|].
  destruct x; cbn [map thu_concrete thu_unit_run thu_unit_after]; apply IH.
Qed.

Lemma thu_calls_ok xs : Forall thu_sstep_ok xs -> Forall th_sstep_ok (thu_calls xs).
Proof.
  induction 1 as [|x t Hx _ IH]; [constructor|].
  destruct x; cbn [thu_calls]; [constructor; assumption|assumption].
Qed.

Lemma thu_concrete_wf txn0 xs : Forall thu_sstep_ok xs ->
  Forall thu_step_wf (map (thu_concrete txn0) xs).
Proof.
  induction 1 as [|x t Hx _ IH]; [constructor|].
  cbn [map]. constructor; [|exact IH].
  destruct x as [c|u]; cbn [thu_concrete thu_step_wf th_concrete ths_op].
  - apply Hx.
  - exact Hx.
Qed.

(* every request of every scripted history with unit changes follows the
   matching rule on the numbering of ALL requests of the connection *)
Lemma histu_frames : forall cfg txn0 pend0 e0 pre x post d,
  txn0 < 65536 -> Forall th_frame_wf pend0 -> Forall thu_sstep_ok (pre ++ SCall x :: post) ->
  let calls := thu_calls pre in
  let j := lenN calls in
  let cfg' := thu_set_unit cfg (thu_unit_after (c_unit cfg) pre) in
  let t := (txn0 + j) mod 65536 in
  let e := th_end_after (th_end_run e0 calls) (ss_end x) in
  let all := th_pending 0 pend0 calls ++ ss_frames x in
  exists r,
    nth (length pre)
      (histu_run FMbap (cfg, mkth txn0 (th_stream txn0 pend0) e0)
         (map (thu_concrete txn0) (pre ++ SCall x :: post))) d = Some r /\
    match th_take j all with
    | Some (res, rest) =>
        cr_res r = cr_res (client_call FMbap cfg' t (ss_op x) e (spec_frame FMbap (th_id txn0 j) res)) /\
        cr_rest r = th_stream txn0 rest
    | None => cr_res r = Err (short_err e) /\ cr_rest r = []
    end.
Proof.
  intros cfg txn0 pend0 e0 pre x post d Ht0 Hpend HF calls j cfg' t e all.
  pose proof (thu_calls_ok _ HF) as HC. rewrite thu_calls_app in HC. cbn [thu_calls] in HC.
  apply Forall_app in HF as [Hpre _].
  rewrite map_app. cbn [map thu_concrete].
  rewrite <- (map_length (thu_concrete txn0) pre).
  rewrite (histu_call_single_unit cfg _ _ _ _ d thu_dcr (thu_concrete_wf txn0 pre Hpre)).
  rewrite thu_unit_run_concrete, !thu_erase_concrete. fold calls. fold cfg'.
  eexists. split; [reflexivity|].
  pose proof (hist_frames cfg' txn0 pend0 e0 calls x (thu_calls post) thu_dcr Ht0 Hpend HC) as HH.
  cbv zeta in HH. rewrite map_app in HH. cbn [map] in HH.
  rewrite map_length. exact HH.
Qed.

(* a request that succeeds consumed a reply built for a request of the
   connection with the same number modulo 2^16 - never the late reply to one of
   the 65535 requests before it, whatever units those were addressed to *)
Lemma histu_no_misattribution : forall cfg txn0 pend0 e0 pre x post d,
  txn0 < 65536 -> Forall th_frame_wf pend0 -> Forall thu_sstep_ok (pre ++ SCall x :: post) ->
  let calls := thu_calls pre in
  let j := lenN calls in
  exists r,
    nth (length pre)
      (histu_run FMbap (cfg, mkth txn0 (th_stream txn0 pend0) e0)
         (map (thu_concrete txn0) (pre ++ SCall x :: post))) d = Some r /\
    forall vs, cr_res r = Ok vs ->
    exists skipped i res rest,
      th_pending 0 pend0 calls ++ ss_frames x = skipped ++ ThReply i res :: rest /\
      i mod 65536 = j mod 65536 /\
      th_id txn0 i = th_id txn0 j /\
      Forall (fun f => th_accepts j f = false) skipped /\
      cr_rest r = th_stream txn0 rest.
Proof.
  intros cfg txn0 pend0 e0 pre x post d Ht0 Hpend HF calls j.
  destruct (histu_frames cfg txn0 pend0 e0 pre x post d Ht0 Hpend HF) as (r & Hr & HH).
  cbv zeta in HH. fold calls in HH. fold j in HH.
  exists r. split; [exact Hr|]. intros vs Hvs.
  destruct (th_take j (th_pending 0 pend0 calls ++ ss_frames x)) as [[res rest]|] eqn:E.
  - destruct HH as [_ Hrest]. apply th_take_some in E as (sk & i & Hall & Hi & Hsk).
    exists sk, i, res, rest. split; [exact Hall|]. split; [exact Hi|].
    split; [apply th_id_eq; exact Hi|]. split; [exact Hsk|exact Hrest].
  - destruct HH as [Hres _]. rewrite Hres in Hvs. discriminate Hvs.
Qed.
