(* Property C04: the end-to-end composition (Model/E2E.v) refines the
   sequential register file (Spec/RegFile.v). *)
From Coq Require Import ZifyBool ZifyNat ZifyN.
From Modbus Require Import Base.Bytes Base.Cells Model.Crc Model.Encoding Model.Wire Model.Client
  Model.Server Spec.ModbusSpec Spec.ClientSpec Spec.ServerSpec Spec.ServerSessionSpec Spec.RegFile
  Model.E2E Proofs.EncodingP Proofs.BoolsP Proofs.FramingP Proofs.ClientReqP Proofs.ClientRespP
  Proofs.MbapServerP Proofs.ServerP.
Ltac Zify.zify_post_hook ::= Z.div_mod_to_equations.

(* ------------------------------------------------------------- cells *)

Lemma cells_addrs_length a n : length (cells_addrs a n) = N.to_nat n.
Proof. unfold cells_addrs. rewrite map_length, seq_length. reflexivity. Qed.

Lemma cells_load_length {A} (m : N -> A) a n : length (cells_load m a n) = N.to_nat n.
Proof. unfold cells_load. rewrite map_length. apply cells_addrs_length. Qed.

Lemma cells_load_lenN {A} (m : N -> A) a n : lenN (cells_load m a n) = n.
Proof. unfold lenN. rewrite cells_load_length. lia. Qed.

Lemma cells_load_Forall {A} (P : A -> Prop) (m : N -> A) a n :
  (forall k, P (m k)) -> Forall P (cells_load m a n).
Proof.
  intros H. unfold cells_load. apply Forall_forall. intros x Hx.
  apply in_map_iff in Hx. destruct Hx as (k & <- & _). apply H.
Qed.

Lemma cells_load_nat {A} (m : N -> A) a n :
  cells_load m a (N.of_nat n) = map (fun i => m (a + N.of_nat i)) (seq 0 n).
Proof. unfold cells_load, cells_addrs. rewrite map_map, Nat2N.id. reflexivity. Qed.

Lemma cells_load_app {A} (m : N -> A) a n1 n2 :
  cells_load m a (n1 + n2) = cells_load m a n1 ++ cells_load m (a + n1) n2.
Proof.
  rewrite <- (N2Nat.id n1), <- (N2Nat.id n2), <- Nat2N.inj_add, !cells_load_nat.
  rewrite seq_app, map_app. f_equal. cbn [plus].
  rewrite <- (Nat.add_0_r (N.to_nat n1)) at 1.
  generalize 0%nat. intros s. revert s. induction (N.to_nat n2) as [|k IH]; intros s; [reflexivity|].
  cbn [seq map]. f_equal; [f_equal; lia|].
  replace (S (N.to_nat n1 + s)) with (N.to_nat n1 + S s)%nat by lia. apply IH.
Qed.

Lemma cells_load_store {A} (m : N -> A) a l : cells_load (cells_store m a l) a (lenN l) = l.
Proof.
  unfold lenN. rewrite cells_load_nat.
  transitivity (firstn (length l) l); [|apply firstn_all].
  rewrite <- (map_nth_seq l (m a) (length l)) by lia.
  apply map_ext_in. intros i Hi. apply in_seq in Hi. unfold cells_store, lenN.
  replace ((a <=? a + N.of_nat i) && (a + N.of_nat i <? a + N.of_nat (length l))) with true by lia.
  replace (N.to_nat (a + N.of_nat i - a)) with i by lia.
  apply nth_indep. lia.
Qed.

Lemma cells_store_bound (m : N -> N) a l B :
  (forall k, m k < B) -> Forall (fun v => v < B) l -> forall k, cells_store m a l k < B.
Proof.
  intros Hm Hl k. unfold cells_store.
  destruct ((a <=? k) && (k <? a + lenN l)); [|apply Hm].
  destruct (nth_in_or_default (N.to_nat (k - a)) l (m k)) as [Hin| ->]; [|apply Hm].
  rewrite Forall_forall in Hl. apply Hl. exact Hin.
Qed.

(* ------------------------------------------------------------- layout *)

Ltac pow_consts :=
  repeat match goal with
  | |- context [2 ^ ?k] =>
      let v := eval vm_compute in (2 ^ k) in change (2 ^ k) with v
  | H : context [2 ^ ?k] |- _ =>
      let v := eval vm_compute in (2 ^ k) in change (2 ^ k) with v in H
  end.

Ltac list_lia :=
  repeat (match goal with
          | |- _ :: _ = _ :: _ => apply (f_equal2 (@cons N)); [lia|]
          end); try reflexivity.

(* registers as they travel: big-endian *)
Definition be_regs (l : list N) : list N := flat_map (fun v => [v / 256; v mod 256]) l.

Lemma be_regs_app a b : be_regs (a ++ b) = be_regs a ++ be_regs b.
Proof. apply flat_map_app. Qed.

Lemma be_regs_length l : length (be_regs l) = (2 * length l)%nat.
Proof. unfold be_regs. apply flat_map_length_const. reflexivity. Qed.

Lemma be_regs_bytes l : Forall (fun v => v < 65536) l -> bytesb (be_regs l) = true.
Proof.
  induction 1 as [|x t Hx _ IH]; [reflexivity|].
  cbn [be_regs flat_map app]. apply bytesb_cons. split; [lia|].
  apply bytesb_cons. split; [lia|exact IH].
Qed.

Lemma dec_be_regs rs : Forall (fun v => v < 65536) rs -> bytes_to_u16s BigE (be_regs rs) = Some rs.
Proof.
  intros H. unfold be_regs. rewrite <- (u16s_be_layout rs H). apply u16s_roundtrip. exact H.
Qed.

Lemma rf_swap16_lt x : x < 65536 -> rf_swap16 x < 65536.
Proof. unfold rf_swap16. lia. Qed.

Lemma rf_swap16_invol x : x < 65536 -> rf_swap16 (rf_swap16 x) = x.
Proof. unfold rf_swap16. lia. Qed.

Lemma rf_image_lt e x : x < 65536 -> rf_image e x < 65536.
Proof. destruct e; [trivial|apply rf_swap16_lt]. Qed.

Lemma rf_image_invol e x : x < 65536 -> rf_image e (rf_image e x) = x.
Proof. destruct e; [reflexivity|apply rf_swap16_invol]. Qed.

Lemma rf_images_lt e l : Forall (fun v => v < 65536) l -> Forall (fun v => v < 65536) (map (rf_image e) l).
Proof. induction 1; constructor; [apply rf_image_lt|]; assumption. Qed.

Lemma rf_images_invol e l : Forall (fun v => v < 65536) l -> map (rf_image e) (map (rf_image e) l) = l.
Proof. induction 1 as [|x t Hx _ IH]; [reflexivity|]. cbn [map]. rewrite IH, rf_image_invol by exact Hx. reflexivity. Qed.

Lemma rf_order_invol {A} w (l : list A) : rf_order w (rf_order w l) = l.
Proof. destruct w; [reflexivity|apply rev_involutive]. Qed.

Lemma rf_order_Forall {A} (P : A -> Prop) w l : Forall P l -> Forall P (rf_order w l).
Proof. destruct w; [trivial|apply Forall_rev]. Qed.

Lemma rf_order_map {A B} (f : A -> B) w l : rf_order w (map f l) = map f (rf_order w l).
Proof. destruct w; [reflexivity|symmetry; apply map_rev]. Qed.

Lemma rf_order_length {A} w (l : list A) : length (rf_order w l) = length l.
Proof. destruct w; [reflexivity|apply rev_length]. Qed.

(* the wire image of a word is the big-endian image of the register *)
Lemma word_bytes_image e x : x < 65536 ->
  word_bytes e x = [rf_image e x / 256; rf_image e x mod 256].
Proof. intros H. destruct e; cbn [word_bytes rf_image]; unfold rf_swap16; list_lia. Qed.

Lemma layout_regs e ws : Forall (fun v => v < 65536) ws ->
  flat_map (word_bytes e) ws = be_regs (map (rf_image e) ws).
Proof.
  induction 1 as [|x t Hx _ IH]; [reflexivity|].
  cbn [flat_map map be_regs]. rewrite IH, word_bytes_image by exact Hx. reflexivity.
Qed.

Lemma words_of_lt n v : Forall (fun x => x < 65536) (words_of n v).
Proof.
  unfold words_of. apply Forall_forall. intros x Hx. apply in_map_iff in Hx.
  destruct Hx as (k & <- & _). lia.
Qed.

Lemma words_of_length n v : length (words_of n v) = n.
Proof. unfold words_of. rewrite map_length, rev_length, seq_length. reflexivity. Qed.

Lemma rf_value_regs_lt c w v : Forall (fun x => x < 65536) (rf_value_regs c w v).
Proof. unfold rf_value_regs. apply rf_images_lt, rf_order_Forall, words_of_lt. Qed.

Lemma rf_value_regs_length c w v : length (rf_value_regs c w v) = N.to_nat w.
Proof. unfold rf_value_regs. rewrite map_length, rf_order_length, words_of_length. reflexivity. Qed.

(* the documented byte image of a value = its registers, big-endian *)
Lemma spec_bytes_regs c w v :
  spec_bytes (N.to_nat w) (c_endian c) (c_word c) v = be_regs (rf_value_regs c w v).
Proof.
  unfold spec_bytes, layout, rf_value_regs.
  change (match c_word c with HighFirst => words_of (N.to_nat w) v | LowFirst => rev (words_of (N.to_nat w) v) end)
    with (rf_order (c_word c) (words_of (N.to_nat w) v)).
  apply layout_regs, rf_order_Forall, words_of_lt.
Qed.

Lemma spec_bytes_regs_list c w vs :
  flat_map (spec_bytes (N.to_nat w) (c_endian c) (c_word c)) vs =
  be_regs (flat_map (rf_value_regs c w) vs).
Proof.
  induction vs as [|v t IH]; [reflexivity|].
  cbn [flat_map]. rewrite be_regs_app, IH, spec_bytes_regs. reflexivity.
Qed.

Lemma rf_values_regs_lt c w vs : Forall (fun x => x < 65536) (flat_map (rf_value_regs c w) vs).
Proof.
  induction vs as [|v t IH]; [constructor|]. cbn [flat_map]. apply Forall_app.
  split; [apply rf_value_regs_lt|exact IH].
Qed.

Lemma rf_values_regs_lenN c w vs : lenN (flat_map (rf_value_regs c w) vs) = w * lenN vs.
Proof.
  unfold lenN. rewrite (flat_map_length_const _ (N.to_nat w)); [lia|].
  intros v _. apply rf_value_regs_length.
Qed.

(* words <-> value, for the three widths *)
Lemma words_join n ws : (n = 1 \/ n = 2 \/ n = 4)%nat -> length ws = n ->
  Forall (fun x => x < 65536) ws -> words_of n (rf_join ws) = ws /\ rf_join ws < 2 ^ (16 * N.of_nat n).
Proof.
  intros Hn Hl Hw. unfold words_of, rf_join.
  destruct Hn as [-> | [-> | ->]].
  - destruct ws as [|a [|]]; try discriminate Hl.
    inversion Hw; subst. cbn [seq rev app map fold_left N.of_nat]. pow_consts.
    split; [list_lia|lia].
  - destruct ws as [|a [|b [|]]]; try discriminate Hl.
    inversion Hw as [|? ? Ha Hw1]; subst. inversion Hw1 as [|? ? Hb _]; subst.
    cbn [seq rev app map fold_left]. change (N.of_nat 1) with 1. change (N.of_nat 0) with 0.
    change (N.of_nat 2) with 2. pow_consts. split; [list_lia|lia].
  - destruct ws as [|a [|b [|c [|d [|]]]]]; try discriminate Hl.
    inversion Hw as [|? ? Ha Hw1]; subst. inversion Hw1 as [|? ? Hb Hw2]; subst.
    inversion Hw2 as [|? ? Hc Hw3]; subst. inversion Hw3 as [|? ? Hd _]; subst.
    cbn [seq rev app map fold_left]. change (N.of_nat 1) with 1. change (N.of_nat 0) with 0.
    change (N.of_nat 2) with 2. change (N.of_nat 3) with 3. change (N.of_nat 4) with 4.
    pow_consts. split; [list_lia|lia].
Qed.

Lemma join_words n v : (n = 1 \/ n = 2 \/ n = 4)%nat -> v < 2 ^ (16 * N.of_nat n) ->
  rf_join (words_of n v) = v.
Proof.
  intros Hn Hv. unfold words_of, rf_join.
  destruct Hn as [-> | [-> | ->]]; cbn [seq rev app map fold_left];
    change (N.of_nat 1) with 1 in *; change (N.of_nat 0) with 0 in *;
    change (N.of_nat 2) with 2 in *; change (N.of_nat 3) with 3 in *; change (N.of_nat 4) with 4 in *;
    pow_consts; lia.
Qed.

(* a group of registers carries the value the register file names for it *)
Lemma regs_value_bytes c w rs : w = 1 \/ w = 2 \/ w = 4 -> length rs = N.to_nat w ->
  Forall (fun x => x < 65536) rs ->
  spec_bytes (N.to_nat w) (c_endian c) (c_word c) (rf_regs_value c rs) = be_regs rs /\
  rf_regs_value c rs < 2 ^ (16 * w).
Proof.
  intros Hw Hl Hr. unfold rf_regs_value.
  set (ws := rf_order (c_word c) (map (rf_image (c_endian c)) rs)).
  assert (Hws : Forall (fun x => x < 65536) ws) by (apply rf_order_Forall, rf_images_lt, Hr).
  assert (Hlen : length ws = N.to_nat w).
  { unfold ws. rewrite rf_order_length, map_length. exact Hl. }
  assert (Hn : (N.to_nat w = 1 \/ N.to_nat w = 2 \/ N.to_nat w = 4)%nat) by lia.
  destruct (words_join (N.to_nat w) ws Hn Hlen Hws) as [Hwj Hb].
  rewrite N2Nat.id in Hb. split; [|exact Hb].
  unfold spec_bytes, layout. rewrite Hwj.
  change (match c_word c with HighFirst => ws | LowFirst => rev ws end) with (rf_order (c_word c) ws).
  unfold ws. rewrite rf_order_invol, layout_regs by (apply rf_images_lt, Hr).
  rewrite rf_images_invol by exact Hr. reflexivity.
Qed.

(* decoding what was encoded gives the value back *)
Lemma regs_value_roundtrip c w v : w = 1 \/ w = 2 \/ w = 4 -> v < 2 ^ (16 * w) ->
  rf_regs_value c (rf_value_regs c w v) = v.
Proof.
  intros Hw Hv. unfold rf_regs_value, rf_value_regs.
  rewrite rf_images_invol by (apply rf_order_Forall, words_of_lt).
  rewrite rf_order_invol. apply join_words; [lia|]. rewrite N2Nat.id. exact Hv.
Qed.

(* ---- bytes *)

Definition pad_even (bs : list N) : list N := if Nat.even (length bs) then bs else bs ++ [0].

Lemma pad_even_cons2 a b t : pad_even (a :: b :: t) = a :: b :: pad_even t.
Proof. unfold pad_even. cbn [length Nat.even]. destruct (Nat.even (length t)); reflexivity. Qed.

Lemma bytes_image_plain bs : bytesb bs = true ->
  pad_even bs = be_regs (rf_bytes_regs false bs).
Proof.
  induction bs as [|a|a b t IH] using list_ind2; intros Hb.
  - reflexivity.
  - apply bytesb_cons in Hb. destruct Hb as [Ha _].
    cbn [pad_even length Nat.even app rf_bytes_regs be_regs flat_map]. unfold pad_even. cbn [length Nat.even app].
    list_lia.
  - apply bytesb_cons in Hb. destruct Hb as [Ha Hb]. apply bytesb_cons in Hb. destruct Hb as [Hb' Hb].
    rewrite pad_even_cons2. cbn [rf_bytes_regs be_regs flat_map app]. rewrite (IH Hb).
    unfold be_regs. list_lia.
Qed.

Lemma bytes_image_swapped bs : bytesb bs = true ->
  pair_swap (pad_even bs) = be_regs (rf_bytes_regs true bs).
Proof.
  induction bs as [|a|a b t IH] using list_ind2; intros Hb.
  - reflexivity.
  - apply bytesb_cons in Hb. destruct Hb as [Ha _].
    unfold pad_even. cbn [length Nat.even app pair_swap rf_bytes_regs be_regs flat_map].
    list_lia.
  - apply bytesb_cons in Hb. destruct Hb as [Ha Hb]. apply bytesb_cons in Hb. destruct Hb as [Hb' Hb].
    rewrite pad_even_cons2. cbn [pair_swap rf_bytes_regs be_regs flat_map app]. rewrite (IH Hb).
    unfold be_regs. list_lia.
Qed.

Lemma byte_image_regs c raw bs : bytesb bs = true ->
  spec_byte_image c raw bs = be_regs (rf_bytes_regs (rf_swapped c raw) bs).
Proof.
  intros Hb. unfold spec_byte_image, rf_swapped. fold (pad_even bs).
  destruct raw, (c_endian c); first [apply bytes_image_plain | apply bytes_image_swapped]; exact Hb.
Qed.

Lemma rf_bytes_regs_lt sw bs : bytesb bs = true -> Forall (fun x => x < 65536) (rf_bytes_regs sw bs).
Proof.
  induction bs as [|a|a b t IH] using list_ind2; intros Hb; cbn [rf_bytes_regs].
  - constructor.
  - apply bytesb_cons in Hb. destruct Hb as [Ha _]. constructor; [destruct sw; lia|constructor].
  - apply bytesb_cons in Hb. destruct Hb as [Ha Hb]. apply bytesb_cons in Hb. destruct Hb as [Hb' Hb].
    constructor; [destruct sw; lia|apply IH, Hb].
Qed.

Lemma rf_bytes_regs_lenN sw bs : lenN (rf_bytes_regs sw bs) = (lenN bs + 1) / 2.
Proof.
  unfold lenN. induction bs as [|a|a b t IH] using list_ind2; cbn [rf_bytes_regs length] in *.
  - reflexivity.
  - reflexivity.
  - lia.
Qed.

(* reading bytes back out of registers *)
Lemma reg_bytes_plain rs : be_regs rs = flat_map (rf_reg_bytes false) rs.
Proof. reflexivity. Qed.

Lemma reg_bytes_swapped rs : pair_swap (be_regs rs) = flat_map (rf_reg_bytes true) rs.
Proof.
  induction rs as [|r t IH]; [reflexivity|].
  cbn [be_regs flat_map app pair_swap rf_reg_bytes]. fold (be_regs t). rewrite IH. reflexivity.
Qed.

Lemma rf_reg_bytes_roundtrip sw bs : bytesb bs = true ->
  firstn (length bs) (flat_map (rf_reg_bytes sw) (rf_bytes_regs sw bs)) = bs.
Proof.
  induction bs as [|a|a b t IH] using list_ind2; intros Hb.
  - reflexivity.
  - apply bytesb_cons in Hb. destruct Hb as [Ha _].
    destruct sw; cbn [rf_bytes_regs flat_map rf_reg_bytes app length firstn]; list_lia.
  - apply bytesb_cons in Hb. destruct Hb as [Ha Hb]. apply bytesb_cons in Hb. destruct Hb as [Hb' Hb].
    cbn [rf_bytes_regs flat_map app length].
    destruct sw; cbn [rf_reg_bytes app firstn]; rewrite (IH Hb); list_lia.
Qed.

(* ---- coils *)

Lemma coil_bytes_lenN l : lenN (spec_coil_bytes l) = (lenN l + 7) / 8.
Proof. rewrite <- encode_bools_spec. apply encode_bools_lenN. Qed.

Lemma coil_bytes_bytes l : bytesb (spec_coil_bytes l) = true.
Proof. rewrite <- encode_bools_spec. apply encode_bools_bytes. Qed.

Lemma coil_bytes_decode l : decode_bools (N.to_nat (lenN l)) (spec_coil_bytes l) = Some l.
Proof. unfold lenN. rewrite Nat2N.id, <- encode_bools_spec. apply decode_encode_bools. Qed.

Lemma coil_bytes_at l i : (i < length l)%nat -> nth i l false = coil_at (spec_coil_bytes l) i.
Proof.
  intros Hi. pose proof (decode_at_encode l i Hi) as H1.
  rewrite <- encode_bools_spec.
  rewrite decode_bool_at_coil in H1; [congruence|].
  rewrite encode_bools_len. apply Nat.div_lt_upper_bound; [lia|].
  pose proof (Nat.div_mod (length l + 7) 8). pose proof (Nat.mod_upper_bound (length l + 7) 8). lia.
Qed.

Lemma map_u16_id l : Forall (fun v => v < 65536) l -> map u16 l = l.
Proof.
  induction 1 as [|x t Hx _ IH]; [reflexivity|]. cbn [map]. rewrite IH. f_equal. unfold u16. lia.
Qed.

(* ------------------------------------------------------------- the pipeline *)

Definition e2e_wf (s : e2e_state) : Prop :=
  cfg_wf (e2e_cfg s) /\ rfmem_wf (e2e_mem s) /\ e2e_txn s < 65536 /\ e2e_left s = [].

Lemma lenN_be16 v : lenN (be16 v) = 2.
Proof. reflexivity. Qed.

Lemma spec_pdu_wf c o : op_wf o -> cfg_wf c -> valid_op o = true -> pdu_wf (spec_pdu c o).
Proof.
  intros Hwf Hc V. unfold pdu_wf.
  pose proof (client_request_bytes c o (spec_pdu c o) Hwf) as Hb.
  rewrite (client_request_exact c o Hwf), V in Hb. destruct (Hb eq_refl) as (_ & _ & Hbytes).
  split; [exact Hc|]. split; [pose proof (spec_fc_byte o); cbn [spec_pdu p_fc]; lia|].
  split; [exact Hbytes|]. clear Hb Hbytes.
  unfold valid_op in V. cbn [spec_pdu p_payload].
  destruct o as [di a q|w a q rt|raw a q rt|a v|a vs|a v|w a vs|raw a bs];
    cbn [op_wf op_regtype_ok op_count op_limit op_addr spec_payload] in *;
    rewrite ?lenN_app, ?lenN_be16.
  - cbn; lia.
  - cbn; lia.
  - cbn; lia.
  - destruct v; cbn; lia.
  - rewrite coil_bytes_lenN. change (lenN [(lenN vs + 7) / 8]) with 1. lia.
  - unfold lenN. rewrite spec_bytes_len. lia.
  - rewrite spec_regs_len. change (lenN [2 * (w * lenN vs)]) with 1. lia.
  - rewrite <- image_spec, image_len. change (lenN [2 * ((lenN bs + 1) / 2)]) with 1. lia.
Qed.

Lemma mem_handler_wf fail : rf_fail_wf fail -> handler_wf (e2e_mem_handler fail).
Proof.
  intros Hf m r. unfold e2e_mem_handler.
  destruct (e2e_failure (fail r)) as [e|] eqn:Ef.
  - cbn [snd r_regs r_err]. split; [constructor|]. intros code ->.
    apply (Hf r code). destruct (fail r) as [[]|]; cbn [e2e_failure] in Ef; congruence.
  - assert (Hu : forall l, Forall (fun v => v < 65536) (map u16 l)).
    { intros l. apply Forall_forall. intros x Hx. apply in_map_iff in Hx.
      destruct Hx as (y & <- & _). unfold u16. lia. }
    destruct (h_kind r); cbn [snd r_regs r_err]; (split; [first [constructor|apply Hu]|discriminate]).
Qed.

Lemma e2e_serve_frame fail m t p : t < 65536 -> lenN (p_payload p) <= 252 ->
  e2e_serve fail m (spec_mbap t p ++ []) =
  let '(m', calls, act) := server_process (e2e_mem_handler fail) m p in
  match act with
  | Respond res => (m', calls, assemble_mbap t res, Stall)
  | CloseLink => (m', calls, [], Closed)
  end.
Proof.
  intros Ht Hl. unfold e2e_serve.
  pose proof (read_mbap_frame Stall t p [] Ht Hl) as Hr.
  destruct (spec_mbap t p ++ []) as [|x l] eqn:E.
  - unfold spec_mbap, be16 in E. cbn [app] in E. discriminate E.
  - rewrite Hr. reflexivity.
Qed.

Lemma cr_txn_ok c txn o e s req : client_request c o = Ok req ->
  cr_txn (client_call FMbap c txn o e s) = u16 (txn + 1).
Proof.
  intros H. unfold client_call, transport_exchange. rewrite H.
  destruct (mbap_read_response (S (length s)) e (u16 (txn + 1)) s) as [r rest].
  destruct r as [res|x| |]; try reflexivity. destruct (unit_check req res); reflexivity.
Qed.

(* the server side of a valid call: one invocation, the specified response *)
Lemma e2e_serve_valid fail s o r : e2e_wf s -> op_wf o -> rf_fail_wf fail -> valid_op o = true ->
  spec_decode (spec_pdu (e2e_cfg s) o) = Some r -> in_range r = true ->
  e2e_serve fail (e2e_mem s)
    (concat (cr_writes (client_call FMbap (e2e_cfg s) (e2e_txn s) o Stall (e2e_left s)))) =
  (fst (e2e_mem_handler fail (e2e_mem s) r), [r],
   spec_frame FMbap (u16 (e2e_txn s + 1))
     (spec_response (spec_pdu (e2e_cfg s) o) r (snd (e2e_mem_handler fail (e2e_mem s) r))),
   Stall).
Proof.
  intros (Hc & Hm & Ht & Hleft) Hwf Hf V Hd Hr.
  destruct (client_transmit FMbap (e2e_cfg s) (e2e_txn s) o Stall (e2e_left s) Hwf Hc Ht) as [Hw _].
  cbv zeta in Hw. rewrite (Hw V). cbn [concat].
  pose proof (spec_pdu_wf (e2e_cfg s) o Hwf Hc V) as Hp.
  change (spec_frame FMbap (u16 (e2e_txn s + 1)) (spec_pdu (e2e_cfg s) o))
    with (spec_mbap (u16 (e2e_txn s + 1)) (spec_pdu (e2e_cfg s) o)).
  rewrite e2e_serve_frame; [|unfold u16; lia|apply Hp].
  pose proof (server_process_spec (e2e_mem_handler fail) (e2e_mem s) (spec_pdu (e2e_cfg s) o) Hp
                (mem_handler_wf fail Hf)) as HS.
  unfold process_ok in HS.
  destruct (server_process (e2e_mem_handler fail) (e2e_mem s) (spec_pdu (e2e_cfg s) o)) as [[m' calls] act].
  rewrite Hd, Hr in HS. destruct HS as (-> & _ & -> & ->).
  rewrite mbap_frame_spec. reflexivity.
Qed.

Lemma e2e_pipeline_ok fail s o r vs : e2e_wf s -> op_wf o -> rf_fail_wf fail -> valid_op o = true ->
  spec_decode (spec_pdu (e2e_cfg s) o) = Some r -> in_range r = true ->
  let hr := e2e_mem_handler fail (e2e_mem s) r in
  let res := spec_response (spec_pdu (e2e_cfg s) o) r (snd hr) in
  answers (e2e_cfg s) o res vs -> bytesb (p_payload res) = true ->
  e2e_call fail s o = (mke2e (e2e_cfg s) (fst hr) (u16 (e2e_txn s + 1)) [], (Ok vs, [r])).
Proof.
  intros Hs Hwf Hf V Hd Hr hr res Hans Hb. unfold e2e_call.
  rewrite (e2e_serve_valid fail s o r Hs Hwf Hf V Hd Hr). fold hr. fold res.
  destruct Hs as (Hc & Hm & Ht & Hleft). rewrite Hleft. cbn [app].
  pose proof (client_complete_mbap (e2e_cfg s) (e2e_txn s) o Stall res vs [] [] Hwf Hc Ht V Hb Hans
                (Forall_nil _)) as Hcl.
  cbv zeta in Hcl. cbn [concat app] in Hcl. rewrite app_nil_r in Hcl. destruct Hcl as [H1 H2].
  rewrite H1, H2.
  destruct (request_valid_ok (e2e_cfg s) o Hwf V) as (req & Hreq & _).
  rewrite (cr_txn_ok _ _ _ _ _ req Hreq). reflexivity.
Qed.

Lemma e2e_pipeline_exc fail s o r code : e2e_wf s -> op_wf o -> rf_fail_wf fail -> valid_op o = true ->
  spec_decode (spec_pdu (e2e_cfg s) o) = Some r -> in_range r = true ->
  let hr := e2e_mem_handler fail (e2e_mem s) r in
  spec_response (spec_pdu (e2e_cfg s) o) r (snd hr) = spec_exception (spec_pdu (e2e_cfg s) o) code ->
  documented_exception code = true ->
  e2e_call fail s o = (mke2e (e2e_cfg s) (fst hr) (u16 (e2e_txn s + 1)) [], (Err (EExc code), [r])).
Proof.
  intros Hs Hwf Hf V Hd Hr hr Hres Hdoc. unfold e2e_call.
  rewrite (e2e_serve_valid fail s o r Hs Hwf Hf V Hd Hr). fold hr. rewrite Hres.
  destruct Hs as (Hc & Hm & Ht & Hleft). rewrite Hleft. cbn [app].
  set (res := spec_exception (spec_pdu (e2e_cfg s) o) code).
  assert (Hcode : code < 256).
  { unfold documented_exception, mem in Hdoc. cbn [existsb] in Hdoc. lia. }
  assert (Hex : exception_reply (e2e_cfg s) o res code).
  { unfold exception_reply, res, spec_exception. cbn [p_unit p_fc p_payload spec_pdu].
    split; [left; reflexivity|]. split; [apply err_fc_small, spec_fc_byte|reflexivity]. }
  destruct (request_valid_ok (e2e_cfg s) o Hwf V) as (req & Hreq & _).
  pose proof (client_exception_mbap (e2e_cfg s) (e2e_txn s) o Stall res code [] [] Hwf Hc Ht V Hcode Hex
                (Forall_nil _)) as H1.
  cbn [concat app] in H1. rewrite app_nil_r in H1. rewrite Hdoc in H1.
  assert (Hbody : bytesb ([p_unit res; p_fc res] ++ p_payload res) = true).
  { destruct Hex as (_ & Hfc & Hp). apply body_bytes.
    - unfold res, spec_exception. cbn [p_unit spec_pdu]. exact Hc.
    - rewrite Hfc. pose proof (spec_fc_byte o). lia.
    - rewrite Hp. apply bytesb_cons. split; [exact Hcode|reflexivity]. }
  assert (Hok : frame_ok FMbap (e2e_txn s) res []).
  { cbn [frame_ok]. split; [exact Ht|]. split; [|constructor].
    unfold res, spec_exception. cbn. lia. }
  pose proof (exchange_frame FMbap (e2e_cfg s) (e2e_txn s) o Stall res [] [] req Hreq Hbody Hok) as Hx.
  cbv zeta in Hx. cbn [concat app] in Hx. rewrite app_nil_r in Hx. destruct Hx as [_ H2].
  rewrite H1, H2, (cr_txn_ok _ _ _ _ _ req Hreq). reflexivity.
Qed.

(* ------------------------------------------------------------- requests *)

Lemma be2_be16 x : x < 65536 -> be2 (x / 256 mod 256) (x mod 256) = x.
Proof. unfold be2. lia. Qed.

Lemma lenN_be_regs l : lenN (be_regs l) = 2 * lenN l.
Proof. unfold lenN. rewrite be_regs_length. lia. Qed.

Lemma rf_request_addr c o : h_addr (rf_request c o) = op_addr o.
Proof. destruct o; reflexivity. Qed.

Lemma rf_request_qty c o : h_qty (rf_request c o) = op_count o.
Proof. destruct o; reflexivity. Qed.

Lemma rf_request_range c o : valid_op o = true -> in_range (rf_request c o) = true.
Proof.
  intros V. unfold in_range. rewrite rf_request_addr, rf_request_qty. unfold valid_op in V. lia.
Qed.

(* the server decodes the request of a valid call to the invocation the
   register file predicts *)
Lemma decode_request c o : op_wf o -> valid_op o = true ->
  spec_decode (spec_pdu c o) = Some (rf_request c o).
Proof.
  intros Hwf V. unfold valid_op in V.
  destruct o as [di a q|w a q rt|raw a q rt|a v|a vs|a v|w a vs|raw a bs];
    cbn [op_wf op_regtype_ok op_count op_limit op_addr] in *.
  - destruct Hwf as (Ha & Hq).
    destruct di; cbn [spec_pdu spec_fc spec_payload op_count spec_decode p_unit p_fc p_payload be16 app rf_request];
      rewrite !be2_be16 by lia;
      (replace ((1 <=? q) && (q <=? 2000)) with true by lia); reflexivity.
  - destruct Hwf as (Hw & Ha & Hq).
    destruct rt; try discriminate V;
      cbn [spec_pdu spec_fc spec_payload op_count spec_decode p_unit p_fc p_payload be16 app rf_request rf_kind];
      rewrite !be2_be16 by lia;
      (replace ((1 <=? q * w) && (q * w <=? 125)) with true by lia); reflexivity.
  - destruct Hwf as (Ha & Hq).
    destruct rt; try discriminate V;
      cbn [spec_pdu spec_fc spec_payload op_count spec_decode p_unit p_fc p_payload be16 app rf_request rf_kind];
      rewrite !be2_be16 by lia;
      (replace ((1 <=? (q + 1) / 2) && ((q + 1) / 2 <=? 125)) with true by lia); reflexivity.
  - destruct v; cbn [spec_pdu spec_fc spec_payload spec_decode p_unit p_fc p_payload be16 app rf_request];
      rewrite !be2_be16 by lia; reflexivity.
  - cbn [spec_pdu spec_fc spec_payload op_count spec_decode p_unit p_fc p_payload be16 app rf_request].
    rewrite !be2_be16 by lia. rewrite coil_bytes_lenN, !N.eqb_refl.
    replace ((1 <=? lenN vs) && (lenN vs <=? 1968)) with true by lia. cbn [andb].
    rewrite coil_bytes_decode. reflexivity.
  - destruct Hwf as (Ha & Hv).
    unfold spec_pdu. cbn [spec_fc spec_payload]. change 1%nat with (N.to_nat 1). rewrite spec_bytes_regs.
    pose proof (rf_value_regs_length c 1 v) as Hl. pose proof (rf_value_regs_lt c 1 v) as Hlt.
    cbn [rf_request]. destruct (rf_value_regs c 1 v) as [|x [|y t]]; try discriminate Hl.
    inversion Hlt; subst.
    cbn [spec_decode p_unit p_fc p_payload be16 app be_regs flat_map].
    rewrite be2_be16 by lia. unfold be2. replace (x / 256 * 256 + x mod 256) with x by lia. reflexivity.
  - destruct Hwf as (Hw & Ha & Hvs).
    unfold spec_pdu. cbn [spec_fc spec_payload op_count]. rewrite spec_bytes_regs_list.
    cbn [spec_decode p_unit p_fc p_payload be16 app rf_request].
    rewrite !be2_be16 by lia. rewrite lenN_be_regs, rf_values_regs_lenN, !N.eqb_refl.
    replace ((1 <=? w * lenN vs) && (w * lenN vs <=? 123)) with true by lia. cbn [andb].
    rewrite dec_be_regs by apply rf_values_regs_lt. reflexivity.
  - destruct Hwf as (Ha & Hbs).
    unfold spec_pdu. cbn [spec_fc spec_payload op_count]. rewrite byte_image_regs by exact Hbs.
    cbn [spec_decode p_unit p_fc p_payload be16 app rf_request].
    rewrite !be2_be16 by lia. rewrite lenN_be_regs, rf_bytes_regs_lenN, !N.eqb_refl.
    replace ((1 <=? (lenN bs + 1) / 2) && ((lenN bs + 1) / 2 <=? 123)) with true by lia. cbn [andb].
    rewrite dec_be_regs by (apply rf_bytes_regs_lt; exact Hbs). reflexivity.
Qed.

(* ------------------------------------------------------------- the handler's answer *)

Lemma handler_nofail f : rf_failure f = None -> e2e_failure f = None.
Proof. destruct f as [[]|]; cbn; congruence. Qed.

Lemma handler_fail f code : rf_failure f = Some code ->
  exists e, e2e_failure f = Some e /\
    forall p r, spec_response p r (mkhres [] [] e) = spec_exception p code.
Proof.
  destruct f as [[|c| |]|]; cbn [rf_failure e2e_failure]; intros H; try discriminate H;
    injection H as <-; eexists; (split; [reflexivity|]); intros p r; reflexivity.
Qed.

(* a typed read: the registers the handler returns carry the values the
   register file names, in the documented layout *)
Lemma read_values c (tbl : N -> N) w : w = 1 \/ w = 2 \/ w = 4 -> (forall k, tbl k < 65536) ->
  forall n a,
  let xs := map (fun i => rf_regs_value c (cells_load tbl (a + N.of_nat i * w) w)) (seq 0 n) in
  be_regs (cells_load tbl a (N.of_nat n * w)) =
    flat_map (spec_bytes (N.to_nat w) (c_endian c) (c_word c)) xs /\
  Forall (fun v => v < 2 ^ (16 * w)) xs.
Proof.
  intros Hw Ht n. induction n as [|n IH]; intros a xs; subst xs.
  - cbn [seq map flat_map]. change (N.of_nat 0 * w) with (0 * w). rewrite N.mul_0_l.
    split; [reflexivity|constructor].
  - replace (N.of_nat (S n) * w) with (w + N.of_nat n * w) by lia.
    rewrite cells_load_app, be_regs_app. cbn [seq map flat_map].
    rewrite <- seq_shift, map_map.
    destruct (IH (a + w)) as [IH1 IH2]. cbv zeta in IH1, IH2.
    assert (Hext : map (fun i => rf_regs_value c (cells_load tbl (a + N.of_nat (S i) * w) w)) (seq 0 n) =
                   map (fun i => rf_regs_value c (cells_load tbl (a + w + N.of_nat i * w) w)) (seq 0 n)).
    { apply map_ext. intros i. f_equal. f_equal. lia. }
    rewrite Hext, IH1.
    replace (a + N.of_nat 0 * w) with a by lia.
    destruct (regs_value_bytes c w (cells_load tbl a w) Hw (cells_load_length tbl a w)
                (cells_load_Forall _ tbl a w Ht)) as [Hb Hlt].
    rewrite Hb. split; [reflexivity|]. constructor; [exact Hlt|exact IH2].
Qed.

Lemma handler_answers fail c m o : op_wf o -> cfg_wf c -> valid_op o = true -> rfmem_wf m ->
  rf_failure (fail (rf_request c o)) = None ->
  let hr := e2e_mem_handler fail m (rf_request c o) in
  let res := spec_response (spec_pdu c o) (rf_request c o) (snd hr) in
  fst hr = rf_commit c m o /\ answers c o res (rf_read c m o) /\ bytesb (p_payload res) = true.
Proof.
  intros Hwf Hc V Hm Hnf hr res. subst res hr. unfold e2e_mem_handler.
  rewrite (handler_nofail _ Hnf). unfold valid_op in V. unfold answers.
  assert (Hhold : forall k, rf_holding m k < 65536) by (intros k; apply Hm).
  assert (Hinp : forall k, rf_input m k < 65536) by (intros k; apply Hm).
  destruct o as [di a q|w a q rt|raw a q rt|a v|a vs|a v|w a vs|raw a bs];
    cbn [op_wf op_regtype_ok op_count op_limit op_addr] in *.
  - (* read coils / discrete inputs *)
    destruct di; cbn [rf_request h_kind h_write h_addr h_qty fst snd rf_commit rf_read];
      unfold spec_response; cbn [r_err r_bools h_kind h_write h_qty spec_pdu p_unit p_fc p_payload spec_fc];
      rewrite cells_load_lenN, N.eqb_refl; cbn [p_unit p_fc p_payload];
      (split; [reflexivity|]); (split; [|apply bytesb_cons; split; [lia|apply coil_bytes_bytes]]);
      (split; [reflexivity|]); (split; [reflexivity|]);
      eexists _, _; (split; [|split; [|split; [reflexivity|split; [apply cells_load_lenN|]]]]);
      try (rewrite coil_bytes_lenN, cells_load_lenN; reflexivity);
      try (intros i Hi; apply coil_bytes_at; exact Hi).
  - (* typed register reads *)
    destruct Hwf as (Hw & Ha & Hq).
    destruct rt; try discriminate V;
      cbn [rf_request rf_kind h_kind h_write h_addr h_qty fst snd rf_commit rf_read rf_table];
      unfold spec_response; cbn [r_err r_regs h_kind h_write h_qty spec_pdu p_unit p_fc p_payload spec_fc].
    all: rewrite map_u16_id by (apply cells_load_Forall; assumption).
    all: rewrite cells_load_lenN, N.eqb_refl; cbn [p_unit p_fc p_payload].
    all: fold (be_regs (cells_load (rf_holding m) a (q * w))); fold (be_regs (cells_load (rf_input m) a (q * w))).
    all: split; [reflexivity|].
    all: (split; [|apply bytesb_cons; split; [lia|apply be_regs_bytes, cells_load_Forall; assumption]]).
    all: split; [reflexivity|]; split; [reflexivity|].
    all: match goal with |- context [be_regs (cells_load ?tbl _ _)] =>
           destruct (read_values c tbl w Hw ltac:(assumption) (N.to_nat q) a) as [Hb Hlt] end.
    all: cbv zeta in Hb, Hlt; rewrite N2Nat.id in Hb.
    all: eexists; split; [rewrite Hb; reflexivity|]; split;
           [unfold lenN; rewrite map_length, seq_length; lia|]; split; [exact Hlt|reflexivity].
  - (* byte reads *)
    destruct Hwf as (Ha & Hq).
    destruct rt; try discriminate V;
      cbn [rf_request rf_kind h_kind h_write h_addr h_qty fst snd rf_commit rf_read rf_table];
      unfold spec_response; cbn [r_err r_regs h_kind h_write h_qty spec_pdu p_unit p_fc p_payload spec_fc].
    all: rewrite map_u16_id by (apply cells_load_Forall; assumption).
    all: rewrite cells_load_lenN, N.eqb_refl; cbn [p_unit p_fc p_payload op_count].
    all: fold (be_regs (cells_load (rf_holding m) a ((q + 1) / 2)));
         fold (be_regs (cells_load (rf_input m) a ((q + 1) / 2))).
    all: split; [reflexivity|].
    all: (split; [|apply bytesb_cons; split; [lia|apply be_regs_bytes, cells_load_Forall; assumption]]).
    all: split; [reflexivity|]; split; [reflexivity|].
    all: eexists; split; [reflexivity|]; split; [rewrite lenN_be_regs, cells_load_lenN; reflexivity|].
    all: unfold rf_swapped; destruct raw, (c_endian c); rewrite ?reg_bytes_swapped; reflexivity.
  - (* write single coil *)
    cbn [rf_request h_kind h_write h_addr h_qty h_bools fst snd rf_commit rf_read].
    unfold spec_response. cbn [r_err h_kind h_write spec_pdu p_unit p_fc p_payload spec_fc spec_payload].
    split; [reflexivity|]. split.
    + split; [reflexivity|]. split; [reflexivity|]. split; [|reflexivity].
      destruct v; reflexivity.
    + destruct v; cbn [be16 app firstn]; unfold bytesb, is_byte; cbn [forallb]; lia.
  - (* write coils *)
    cbn [rf_request h_kind h_write h_addr h_qty h_bools fst snd rf_commit rf_read].
    unfold spec_response. cbn [r_err h_kind h_write spec_pdu p_unit p_fc p_payload spec_fc spec_payload].
    split; [reflexivity|]. split.
    + split; [reflexivity|]. split; [reflexivity|]. split; reflexivity.
    + cbn [be16 app firstn]. unfold bytesb, is_byte; cbn [forallb]; lia.
  - (* write single register *)
    cbn [rf_request h_kind h_write h_addr h_qty h_regs fst snd rf_commit rf_read].
    unfold spec_response. cbn [r_err h_kind h_write spec_pdu p_unit p_fc p_payload spec_fc spec_payload].
    pose proof (spec_bytes_len 1 (c_endian c) (c_word c) v) as Hl.
    destruct (spec_bytes 1 (c_endian c) (c_word c) v) as [|b1 [|b0 [|]]] eqn:Esb; try discriminate Hl.
    split; [reflexivity|]. split.
    + split; [reflexivity|]. split; [reflexivity|]. split; reflexivity.
    + cbn [be16 app firstn].
      assert (Hb : bytesb (spec_bytes 1 (c_endian c) (c_word c) v) = true).
      { change 1%nat with (N.to_nat 1). rewrite spec_bytes_regs. apply be_regs_bytes, rf_value_regs_lt. }
      rewrite Esb in Hb. apply bytesb_cons in Hb. destruct Hb as [H1 Hb]. apply bytesb_cons in Hb.
      destruct Hb as [H0 _]. unfold bytesb, is_byte; cbn [forallb]; lia.
  - (* write registers *)
    cbn [rf_request h_kind h_write h_addr h_qty h_regs fst snd rf_commit rf_read].
    unfold spec_response. cbn [r_err h_kind h_write spec_pdu p_unit p_fc p_payload spec_fc spec_payload].
    split; [reflexivity|]. split.
    + split; [reflexivity|]. split; [reflexivity|]. split; reflexivity.
    + cbn [be16 app firstn]. unfold bytesb, is_byte; cbn [forallb]; lia.
  - (* write bytes *)
    cbn [rf_request h_kind h_write h_addr h_qty h_regs fst snd rf_commit rf_read].
    unfold spec_response. cbn [r_err h_kind h_write spec_pdu p_unit p_fc p_payload spec_fc spec_payload].
    split; [reflexivity|]. split.
    + split; [reflexivity|]. split; [reflexivity|]. split; reflexivity.
    + cbn [be16 app firstn]. unfold bytesb, is_byte; cbn [forallb]; lia.
Qed.

(* ------------------------------------------------------------- T1: one step *)

Lemma cr_txn_rejected c txn o e s x : client_request c o = Err x ->
  cr_txn (client_call FMbap c txn o e s) = txn /\ cr_rest (client_call FMbap c txn o e s) = s.
Proof. intros H. unfold client_call. rewrite H. split; reflexivity. Qed.

Lemma rf_commit_wf c m o : op_wf o -> rfmem_wf m -> rfmem_wf (rf_commit c m o).
Proof.
  intros Hwf Hm k. destruct (Hm k) as [H1 H2].
  assert (Hh : forall j, rf_holding m j < 65536) by (intros j; apply Hm).
  destruct o as [di a q|w a q rt|raw a q rt|a v|a vs|a v|w a vs|raw a bs];
    cbn [rf_commit rf_holding rf_input]; (split; [|exact H2]); try exact H1.
  - apply cells_store_bound; [exact Hh|apply rf_value_regs_lt].
  - apply cells_store_bound; [exact Hh|apply rf_values_regs_lt].
  - apply cells_store_bound; [exact Hh|apply rf_bytes_regs_lt, Hwf].
Qed.

Lemma e2e_call_refines fail s o : e2e_wf s -> op_wf o -> rf_fail_wf fail ->
  fst (e2e_call fail s o) =
    mke2e (fst (fst (rf_step fail (e2e_view s) (RfCall o)))) (snd (fst (rf_step fail (e2e_view s) (RfCall o))))
          (if valid_op o then u16 (e2e_txn s + 1) else e2e_txn s) [] /\
  snd (e2e_call fail s o) = snd (rf_step fail (e2e_view s) (RfCall o)) /\
  e2e_wf (fst (e2e_call fail s o)).
Proof.
  intros Hs Hwf Hf. pose proof Hs as (Hc & Hm & Ht & Hleft).
  unfold e2e_view. cbn [rf_step].
  destruct (valid_op o) eqn:V.
  - pose proof (decode_request (e2e_cfg s) o Hwf V) as Hd.
    pose proof (rf_request_range (e2e_cfg s) o V) as Hr.
    destruct (rf_failure (fail (rf_request (e2e_cfg s) o))) as [code|] eqn:Ef.
    + (* the handler fails *)
      destruct (handler_fail _ code Ef) as (e & He & Hresp).
      assert (Hh : e2e_mem_handler fail (e2e_mem s) (rf_request (e2e_cfg s) o) = (e2e_mem s, mkhres [] [] e)).
      { unfold e2e_mem_handler. rewrite He. reflexivity. }
      assert (Hdoc : documented_exception code = true).
      { destruct (fail (rf_request (e2e_cfg s) o)) as [[|c0| |]|] eqn:Efr; cbn [rf_failure] in Ef;
          try discriminate Ef; injection Ef as <-; try reflexivity.
        exact (Hf _ _ Efr). }
      pose proof (e2e_pipeline_exc fail s o _ code Hs Hwf Hf V Hd Hr) as HP. cbv zeta in HP.
      rewrite Hh in HP. cbn [fst snd] in HP. rewrite (HP (Hresp _ _) Hdoc). cbn [fst snd].
      split; [reflexivity|]. split; [reflexivity|].
      unfold e2e_wf. cbn [e2e_cfg e2e_mem e2e_txn e2e_left]. unfold u16.
      repeat split; try assumption; try apply Hm; lia.
    + (* the handler answers *)
      destruct (handler_answers fail (e2e_cfg s) (e2e_mem s) o Hwf Hc V Hm Ef) as (Hfst & Hans & Hb).
      pose proof (e2e_pipeline_ok fail s o _ _ Hs Hwf Hf V Hd Hr Hans Hb) as HP.
      rewrite HP, Hfst. cbn [fst snd].
      split; [reflexivity|]. split; [reflexivity|].
      unfold e2e_wf. cbn [e2e_cfg e2e_mem e2e_txn e2e_left]. unfold u16.
      split; [exact Hc|]. split; [apply rf_commit_wf; assumption|]. split; [lia|reflexivity].
  - (* rejected locally: nothing is sent, nothing happens *)
    destruct (client_transmit FMbap (e2e_cfg s) (e2e_txn s) o Stall (e2e_left s) Hwf Hc Ht) as [_ Hw].
    cbv zeta in Hw. destruct (Hw V) as (Hw1 & _).
    unfold e2e_call. rewrite Hw1. cbn [concat e2e_serve]. rewrite app_nil_r.
    destruct (client_transmit FMbap (e2e_cfg s) (e2e_txn s) o Stall (e2e_left s) Hwf Hc Ht) as [_ Hw'].
    cbv zeta in Hw'. destruct (Hw' V) as (_ & Hres & Hrest).
    pose proof (client_request_exact (e2e_cfg s) o Hwf) as Hreq. rewrite V in Hreq.
    destruct (cr_txn_rejected (e2e_cfg s) (e2e_txn s) o Stall (e2e_left s) EParams Hreq) as [Htx _].
    cbn [fst snd]. rewrite Hres, Hrest, Htx, Hleft.
    split; [reflexivity|]. split; [reflexivity|].
    unfold e2e_wf. cbn [e2e_cfg e2e_mem e2e_txn e2e_left]. repeat split; try assumption; apply Hm.
Qed.

Lemma set_encoding_spec c e w :
  e2e_set_encoding c e w =
  match rf_endian e, rf_wordorder w with
  | Some e', Some w' => Ok (mkcfg (c_unit c) e' w')
  | _, _ => Err EParams
  end.
Proof.
  unfold e2e_set_encoding, rf_endian, rf_wordorder.
  destruct (e =? 1) eqn:E1; destruct (e =? 2) eqn:E2; destruct (w =? 1) eqn:W1; destruct (w =? 2) eqn:W2;
    cbn [negb andb]; try reflexivity; exfalso; lia.
Qed.

(* T1: one step of the composition is one step of the register file *)
Lemma e2e_step_refines : forall fail s x, e2e_wf s -> rf_op_wf x -> rf_fail_wf fail ->
  (e2e_view (fst (e2e_step fail s x)), snd (e2e_step fail s x)) = rf_step fail (e2e_view s) x /\
  e2e_wf (fst (e2e_step fail s x)).
Proof.
  intros fail s x Hs Hx Hf. destruct x as [o|u|e w]; cbn [e2e_step rf_op_wf] in *.
  - destruct (e2e_call_refines fail s o Hs Hx Hf) as (H1 & H2 & H3).
    split; [|exact H3]. rewrite H1, H2. unfold e2e_view at 1. cbn [e2e_cfg e2e_mem].
    destruct (rf_step fail (e2e_view s) (RfCall o)) as [[c' m'] out]. reflexivity.
  - destruct Hs as (Hc & Hm & Ht & Hl). cbn [fst snd]. split; [reflexivity|].
    unfold e2e_wf, cfg_wf. cbn [e2e_cfg e2e_mem e2e_txn e2e_left c_unit]. auto.
  - rewrite set_encoding_spec. unfold e2e_view. cbn [rf_step].
    destruct Hs as (Hc & Hm & Ht & Hl).
    destruct (rf_endian e) as [e'|]; [destruct (rf_wordorder w) as [w'|]|]; cbn [fst snd e2e_cfg e2e_mem];
      (split; [reflexivity|]); unfold e2e_wf, cfg_wf in *; cbn [e2e_cfg e2e_mem e2e_txn e2e_left c_unit]; auto.
Qed.

(* ------------------------------------------------------------- T2: histories *)

Definition rf_history_wf (h : list ((hreq -> option herr) * rf_op)) : Prop :=
  Forall (fun fx => rf_fail_wf (fst fx) /\ rf_op_wf (snd fx)) h.

Lemma e2e_run_refines : forall h s, e2e_wf s -> rf_history_wf h ->
  (e2e_view (fst (e2e_run s h)), snd (e2e_run s h)) = rf_run (e2e_view s) h /\
  e2e_wf (fst (e2e_run s h)).
Proof.
  induction h as [|[fail x] t IH]; intros s Hs Hh.
  - cbn [e2e_run rf_run fst snd]. split; [reflexivity|exact Hs].
  - inversion Hh as [|? ? [Hf Hx] Ht]; subst. cbn [fst snd] in Hf, Hx.
    cbn [e2e_run rf_run].
    destruct (e2e_step_refines fail s x Hs Hx Hf) as [H1 H2].
    destruct (e2e_step fail s x) as [s1 out] eqn:E1. cbn [fst snd] in H1, H2.
    rewrite <- H1.
    destruct (IH s1 H2 Ht) as [H3 H4].
    destruct (e2e_run s1 t) as [s2 outs] eqn:E2. cbn [fst snd] in H3, H4.
    rewrite <- H3. cbn [fst snd]. split; [reflexivity|exact H4].
Qed.

(* ------------------------------------------------------------- T3: corollaries *)

Definition rf_nofail : hreq -> option herr := fun _ => None.

Lemma rf_nofail_wf : rf_fail_wf rf_nofail.
Proof. intros r code H. discriminate H. Qed.

(* two calls in a row, as the register file sees them *)
Lemma e2e_two_calls s o1 o2 : e2e_wf s -> op_wf o1 -> op_wf o2 ->
  valid_op o1 = true -> valid_op o2 = true ->
  fst (snd (e2e_step rf_nofail (fst (e2e_step rf_nofail s (RfCall o1))) (RfCall o2))) =
  Ok (rf_read (e2e_cfg s) (rf_commit (e2e_cfg s) (e2e_mem s) o1) o2).
Proof.
  intros Hs H1 H2 V1 V2.
  destruct (e2e_step_refines rf_nofail s (RfCall o1) Hs H1 rf_nofail_wf) as [E1 Hs1].
  set (s1 := fst (e2e_step rf_nofail s (RfCall o1))) in *.
  destruct (e2e_step_refines rf_nofail s1 (RfCall o2) Hs1 H2 rf_nofail_wf) as [E2 _].
  unfold e2e_view at 2 in E1. cbn [rf_step] in E1. rewrite V1 in E1. cbn [rf_nofail rf_failure] in E1.
  apply (f_equal fst) in E1. cbn [fst] in E1. rewrite E1 in E2. cbn [rf_step] in E2. rewrite V2 in E2.
  cbn [rf_nofail rf_failure] in E2. apply (f_equal (fun p => fst (snd p))) in E2. cbn [fst snd] in E2.
  exact E2.
Qed.

(* a read decodes exactly the registers the register file names *)
Lemma e2e_read_regs s w a q rt : e2e_wf s -> op_wf (OpReadRegs w a q rt) ->
  valid_op (OpReadRegs w a q rt) = true ->
  snd (e2e_step rf_nofail s (RfCall (OpReadRegs w a q rt))) =
  (Ok (VNums (map (fun i => rf_regs_value (e2e_cfg s)
                              (cells_load (rf_table (e2e_mem s) rt) (a + N.of_nat i * w) w))
                  (seq 0 (N.to_nat q)))),
   [mkhreq (rf_kind rt) (c_unit (e2e_cfg s)) a (q * w) false [] []]).
Proof.
  intros Hs Hwf V.
  destruct (e2e_step_refines rf_nofail s (RfCall (OpReadRegs w a q rt)) Hs Hwf rf_nofail_wf) as [E _].
  unfold e2e_view at 2 in E. cbn [rf_step] in E. rewrite V in E. cbn [rf_nofail rf_failure] in E.
  apply (f_equal snd) in E. cbn [snd] in E. rewrite E. reflexivity.
Qed.

Lemma nth_skipn' {A} k : forall (l : list A) i d, nth i (skipn k l) d = nth (k + i) l d.
Proof.
  induction k as [|k IH]; intros l i d; [reflexivity|].
  destruct l as [|x t]; [destruct i; reflexivity|]. cbn [skipn plus nth]. apply IH.
Qed.

(* loading a part of a block that was just stored *)
Lemma cells_load_store_sub {A} (m : N -> A) a L off n : off + n <= lenN L ->
  cells_load (cells_store m a L) (a + off) n = firstn (N.to_nat n) (skipn (N.to_nat off) L).
Proof.
  intros H. rewrite <- (N2Nat.id n) at 1. rewrite cells_load_nat.
  rewrite <- (map_nth_seq (skipn (N.to_nat off) L) (m a) (N.to_nat n))
    by (rewrite skipn_length; unfold lenN in H; lia).
  apply map_ext_in. intros i Hi. apply in_seq in Hi. unfold cells_store.
  replace ((a <=? a + off + N.of_nat i) && (a + off + N.of_nat i <? a + lenN L)) with true by lia.
  rewrite nth_skipn'. replace (N.to_nat (a + off + N.of_nat i - a)) with (N.to_nat off + i)%nat by lia.
  apply nth_indep. unfold lenN in H. lia.
Qed.

Lemma flat_chunk {A B} (f : A -> list B) w d : (forall x, length (f x) = w) ->
  forall vs i, (i < length vs)%nat -> firstn w (skipn (i * w) (flat_map f vs)) = f (nth i vs d).
Proof.
  intros Hf. induction vs as [|v t IH]; intros i Hi; [cbn in Hi; lia|].
  cbn [flat_map]. destruct i as [|j].
  - cbn [Nat.mul skipn nth]. rewrite <- (Hf v). apply firstn_app_exact.
  - replace (S j * w)%nat with (length (f v) + j * w)%nat by (rewrite Hf; lia).
    rewrite <- skipn_skipn', skipn_app_exact. cbn [nth]. apply IH. cbn [length] in Hi. lia.
Qed.

Lemma read_after_write_values c (tbl : N -> N) w a vs : w = 1 \/ w = 2 \/ w = 4 ->
  Forall (fun v => v < 2 ^ (16 * w)) vs ->
  map (fun i => rf_regs_value c
                  (cells_load (cells_store tbl a (flat_map (rf_value_regs c w) vs)) (a + N.of_nat i * w) w))
      (seq 0 (length vs)) = vs.
Proof.
  intros Hw Hvs. transitivity (firstn (length vs) vs); [|apply firstn_all].
  rewrite <- (map_nth_seq vs 0 (length vs)) by lia.
  apply map_ext_in. intros i Hi. apply in_seq in Hi.
  rewrite cells_load_store_sub.
  - replace (N.to_nat (N.of_nat i * w)) with (i * N.to_nat w)%nat by lia.
    rewrite (flat_chunk (rf_value_regs c w) (N.to_nat w) 0) by (try apply rf_value_regs_length; lia).
    apply regs_value_roundtrip; [exact Hw|].
    rewrite Forall_forall in Hvs. apply Hvs. apply nth_In. lia.
  - rewrite rf_values_regs_lenN. unfold lenN. nia.
Qed.

(* typed values of every width: what was written is read back bit for bit *)
Lemma e2e_write_read_regs s w a vs : e2e_wf s -> op_wf (OpWriteRegs w a vs) ->
  valid_op (OpWriteRegs w a vs) = true ->
  fst (snd (e2e_step rf_nofail (fst (e2e_step rf_nofail s (RfCall (OpWriteRegs w a vs))))
              (RfCall (OpReadRegs w a (lenN vs) Holding)))) = Ok (VNums vs).
Proof.
  intros Hs Hwf V. pose proof Hwf as (Hw & Ha & Hvs).
  assert (Hwf2 : op_wf (OpReadRegs w a (lenN vs) Holding)).
  { cbn [op_wf]. unfold valid_op in V. cbn [op_regtype_ok op_count op_limit op_addr] in V.
    split; [exact Hw|]. split; [exact Ha|]. destruct Hw as [-> | [-> | ->]]; lia. }
  assert (V2 : valid_op (OpReadRegs w a (lenN vs) Holding) = true).
  { unfold valid_op in *. cbn [op_regtype_ok op_count op_limit op_addr] in *.
    destruct Hw as [-> | [-> | ->]]; lia. }
  rewrite (e2e_two_calls s _ _ Hs Hwf Hwf2 V V2). cbn [rf_read rf_commit rf_table rf_holding].
  unfold lenN at 1. rewrite Nat2N.id. rewrite read_after_write_values by assumption. reflexivity.
Qed.

Lemma e2e_write_read_reg s a v : e2e_wf s -> op_wf (OpWriteReg a v) ->
  fst (snd (e2e_step rf_nofail (fst (e2e_step rf_nofail s (RfCall (OpWriteReg a v))))
              (RfCall (OpReadRegs 1 a 1 Holding)))) = Ok (VNums [v]).
Proof.
  intros Hs Hwf. pose proof Hwf as (Ha & Hv).
  assert (Hwf2 : op_wf (OpReadRegs 1 a 1 Holding)) by (cbn [op_wf]; repeat split; try lia; auto).
  assert (V : valid_op (OpWriteReg a v) = true).
  { unfold valid_op. cbn [op_regtype_ok op_count op_limit op_addr]. lia. }
  assert (V2 : valid_op (OpReadRegs 1 a 1 Holding) = true).
  { unfold valid_op. cbn [op_regtype_ok op_count op_limit op_addr]. lia. }
  rewrite (e2e_two_calls s _ _ Hs Hwf Hwf2 V V2). cbn [rf_read rf_commit rf_table rf_holding].
  pose proof (read_after_write_values (e2e_cfg s) (rf_holding (e2e_mem s)) 1 a [v]) as H.
  cbn [flat_map length] in H. rewrite app_nil_r in H.
  change (N.to_nat 1) with 1%nat. rewrite H; [reflexivity|auto|constructor; [pow_consts; lia|constructor]].
Qed.

Lemma e2e_write_read_coils s a vs : e2e_wf s -> op_wf (OpWriteCoils a vs) ->
  valid_op (OpWriteCoils a vs) = true ->
  fst (snd (e2e_step rf_nofail (fst (e2e_step rf_nofail s (RfCall (OpWriteCoils a vs))))
              (RfCall (OpReadBools false a (lenN vs))))) = Ok (VBools vs).
Proof.
  intros Hs Hwf V.
  assert (Hwf2 : op_wf (OpReadBools false a (lenN vs))).
  { cbn [op_wf] in *. unfold valid_op in V. cbn [op_regtype_ok op_count op_limit op_addr] in V. lia. }
  assert (V2 : valid_op (OpReadBools false a (lenN vs)) = true).
  { unfold valid_op in *. cbn [op_regtype_ok op_count op_limit op_addr] in *. lia. }
  rewrite (e2e_two_calls s _ _ Hs Hwf Hwf2 V V2). cbn [rf_read rf_commit rf_coils].
  rewrite cells_load_store. reflexivity.
Qed.

Lemma e2e_write_read_coil s a v : e2e_wf s -> op_wf (OpWriteCoil a v) ->
  fst (snd (e2e_step rf_nofail (fst (e2e_step rf_nofail s (RfCall (OpWriteCoil a v))))
              (RfCall (OpReadBools false a 1)))) = Ok (VBools [v]).
Proof.
  intros Hs Hwf. pose proof Hwf as Ha. cbn [op_wf] in Ha.
  assert (Hwf2 : op_wf (OpReadBools false a 1)) by (cbn [op_wf]; lia).
  assert (V : valid_op (OpWriteCoil a v) = true).
  { unfold valid_op. cbn [op_regtype_ok op_count op_limit op_addr]. lia. }
  assert (V2 : valid_op (OpReadBools false a 1) = true).
  { unfold valid_op. cbn [op_regtype_ok op_count op_limit op_addr]. lia. }
  rewrite (e2e_two_calls s _ _ Hs Hwf Hwf2 V V2). cbn [rf_read rf_commit rf_coils].
  exact (f_equal (fun l => Ok (VBools l)) (cells_load_store (rf_coils (e2e_mem s)) a [v])).
Qed.

Lemma e2e_write_read_bytes s raw a bs : e2e_wf s -> op_wf (OpWriteBytes raw a bs) ->
  valid_op (OpWriteBytes raw a bs) = true ->
  fst (snd (e2e_step rf_nofail (fst (e2e_step rf_nofail s (RfCall (OpWriteBytes raw a bs))))
              (RfCall (OpReadBytes raw a (lenN bs) Holding)))) = Ok (VBytes bs).
Proof.
  intros Hs Hwf V. pose proof Hwf as (Ha & Hb).
  assert (Hwf2 : op_wf (OpReadBytes raw a (lenN bs) Holding)).
  { cbn [op_wf] in *. unfold valid_op in V. cbn [op_regtype_ok op_count op_limit op_addr] in V. lia. }
  assert (V2 : valid_op (OpReadBytes raw a (lenN bs) Holding) = true).
  { unfold valid_op in *. cbn [op_regtype_ok op_count op_limit op_addr] in *. lia. }
  rewrite (e2e_two_calls s _ _ Hs Hwf Hwf2 V V2). cbn [rf_read rf_commit rf_table rf_holding].
  rewrite <- (rf_bytes_regs_lenN (rf_swapped (e2e_cfg s) raw) bs), cells_load_store.
  unfold lenN at 1. rewrite Nat2N.id, rf_reg_bytes_roundtrip by exact Hb. reflexivity.
Qed.

(* ------------------------------------------------------------- the server side is the session loop *)

(* e2e_serve is one turn of Server.server_run on the frame the client sent:
   the session loop makes these invocations, sends this response and then
   waits for more input (with nothing more to come the model ends it) *)
Lemma e2e_serve_session fail m t p : t < 65536 -> pdu_wf p ->
  server_run (e2e_mem_handler fail) m Stall (spec_mbap t p ++ []) =
  (let '(_, calls, reply, e) := e2e_serve fail m (spec_mbap t p ++ []) in
   map EvCall calls ++
   match e with
   | Stall => [EvResp reply; EvClosed]
   | _ => [EvClosed]
   end).
Proof.
  intros Ht Hp. rewrite e2e_serve_frame by (try exact Ht; apply Hp).
  pose proof (server_pipelined (e2e_mem_handler fail) [(t, p)] [] m Stall) as HS.
  cbn [map concat fst snd] in HS. rewrite app_nil_r in HS. rewrite HS by (constructor; [split; assumption|constructor]).
  cbn [spec_session].
  pose proof (server_process_resp_len (e2e_mem_handler fail) m p) as HL.
  destruct (server_process (e2e_mem_handler fail) m p) as [[m' calls] act]. cbn [snd] in HL.
  destruct act as [res|]; [|reflexivity].
  rewrite (assemble_is_spec t res HL). reflexivity.
Qed.

(* ------------------------------------------------------------- failures, explicit layout *)

(* a failing handler: the error surfaces, the memory is untouched *)
Lemma e2e_failure_surfaces fail s o code : e2e_wf s -> op_wf o -> rf_fail_wf fail ->
  valid_op o = true -> rf_failure (fail (rf_request (e2e_cfg s) o)) = Some code ->
  snd (e2e_step fail s (RfCall o)) = (Err (EExc code), [rf_request (e2e_cfg s) o]) /\
  e2e_view (fst (e2e_step fail s (RfCall o))) = e2e_view s.
Proof.
  intros Hs Hwf Hf V Hc.
  destruct (e2e_step_refines fail s (RfCall o) Hs Hwf Hf) as [E _].
  unfold e2e_view at 2 in E. cbn [rf_step] in E. rewrite V, Hc in E.
  split; [apply (f_equal snd) in E|apply (f_equal fst) in E]; cbn [fst snd] in E; exact E.
Qed.

(* the register image of 32-bit and 64-bit values, spelled out *)
Lemma layout32 u v : v < 2 ^ 32 ->
  rf_value_regs (mkcfg u BigE HighFirst) 2 v = [v / 65536; v mod 65536] /\
  rf_value_regs (mkcfg u BigE LowFirst) 2 v = [v mod 65536; v / 65536] /\
  rf_value_regs (mkcfg u LittleE HighFirst) 2 v = [rf_swap16 (v / 65536); rf_swap16 (v mod 65536)] /\
  rf_value_regs (mkcfg u LittleE LowFirst) 2 v = [rf_swap16 (v mod 65536); rf_swap16 (v / 65536)].
Proof.
  intros Hv. unfold rf_value_regs, words_of. change (N.to_nat 2) with 2%nat.
  cbn [c_endian c_word seq rev app map rf_order rf_image].
  change (N.of_nat 1) with 1. change (N.of_nat 0) with 0. pow_consts.
  replace (v / 65536 mod 65536) with (v / 65536) by lia.
  replace (v / 1 mod 65536) with (v mod 65536) by lia. repeat split; reflexivity.
Qed.

Lemma layout64 u v : v < 2 ^ 64 ->
  let w3 := v / 2 ^ 48 in let w2 := (v / 2 ^ 32) mod 65536 in
  let w1 := (v / 2 ^ 16) mod 65536 in let w0 := v mod 65536 in
  rf_value_regs (mkcfg u BigE HighFirst) 4 v = [w3; w2; w1; w0] /\
  rf_value_regs (mkcfg u BigE LowFirst) 4 v = [w0; w1; w2; w3] /\
  rf_value_regs (mkcfg u LittleE HighFirst) 4 v = map rf_swap16 [w3; w2; w1; w0] /\
  rf_value_regs (mkcfg u LittleE LowFirst) 4 v = map rf_swap16 [w0; w1; w2; w3].
Proof.
  intros Hv w3 w2 w1 w0. subst w3 w2 w1 w0. unfold rf_value_regs, words_of. change (N.to_nat 4) with 4%nat.
  cbn [c_endian c_word seq rev app map rf_order rf_image].
  change (N.of_nat 1) with 1. change (N.of_nat 0) with 0. change (N.of_nat 2) with 2. change (N.of_nat 3) with 3.
  pow_consts.
  replace (v / 281474976710656 mod 65536) with (v / 281474976710656) by lia.
  replace (v / 1 mod 65536) with (v mod 65536) by lia. repeat split; reflexivity.
Qed.
