(* The slot accounting of Model/Slots.v is by connection identity: for every
   labelling of the connections (source address or anything else they may
   share), enrolling a connection takes one more slot even when a member of the
   list carries its label, and the removal of a connection gives back its own
   slot and leaves every other member - same label or not - where it was. *)
From Coq Require Import List Arith Bool Lia Permutation.
Import ListNotations.
From Modbus Require Import Model.Slots Proofs.SlotsP Model.SlotsVisit Proofs.SlotsVisitP Model.SlotsAddr.

Lemma filter_perm_length {A} (p : A -> bool) l l' : Permutation l l' ->
  length (filter p l) = length (filter p l').
Proof.
  induction 1 as [|x l l' _ IH|x y l|l l' l'' _ IH1 _ IH2]; cbn [filter].
  - reflexivity.
  - destruct (p x); cbn [length]; rewrite IH; reflexivity.
  - destruct (p x), (p y); reflexivity.
  - rewrite IH1. exact IH2.
Qed.

Lemma has_dup_spec l : has_dup l = true <->
  exists pre x mid post, l = pre ++ x :: mid ++ x :: post.
Proof.
  induction l as [|x t IH]; cbn [has_dup].
  - split; [discriminate|]. intros (pre & y & mid & post & E). destruct pre; discriminate.
  - rewrite orb_true_iff, IH. split.
    + intros [H|(pre & y & mid & post & ->)].
      * apply existsb_exists in H as (y & Hy & E). apply Nat.eqb_eq in E. subst y.
        apply in_split in Hy as (mid & post & ->). exists [], x, mid, post. reflexivity.
      * exists (x :: pre), y, mid, post. reflexivity.
    + intros (pre & y & mid & post & E). destruct pre as [|p0 pre]; cbn [app] in E.
      * injection E as -> ->. left. apply existsb_exists. exists y. split.
        -- apply in_or_app. right. left. reflexivity.
        -- apply Nat.eqb_refl.
      * injection E as -> ->. right. exists pre, y, mid, post. reflexivity.
Qed.

(* what shared_label decides *)
Theorem shared_label_spec f s : NoDup (clients s) ->
  (shared_label f s = true <->
   exists c d, c <> d /\ In c (clients s) /\ In d (clients s) /\ f c = f d).
Proof.
  intros Hnd. unfold shared_label. rewrite has_dup_spec. split.
  - intros (pre & a & mid & post & E).
    apply map_eq_app in E as (l1 & l2 & El & E1 & E2).
    destruct l2 as [|c l2]; [discriminate|]. cbn [map] in E2. injection E2 as Ec E2.
    apply map_eq_app in E2 as (l3 & l4 & El2 & E3 & E4).
    destruct l4 as [|d l4]; [discriminate|]. cbn [map] in E4. injection E4 as Ed E4.
    subst l2. exists c, d. rewrite El. repeat split.
    + intros ->. rewrite El in Hnd. apply NoDup_remove_2 in Hnd. apply Hnd.
      apply in_or_app. right. apply in_or_app. right. left. reflexivity.
    + apply in_or_app. right. left. reflexivity.
    + apply in_or_app. right. right. apply in_or_app. right. left. reflexivity.
    + congruence.
  - intros (c & d & Hne & Hc & Hd & E).
    assert (W : forall c d, c <> d -> In c (clients s) -> In d (clients s) -> f c = f d ->
                (exists l1 l2 l3, clients s = l1 ++ c :: l2 ++ d :: l3) ->
                exists pre x mid post, map f (clients s) = pre ++ x :: mid ++ x :: post).
    { intros c0 d0 _ _ _ E0 (l1 & l2 & l3 & El). rewrite El.
      exists (map f l1), (f c0), (map f l2), (map f l3).
      rewrite map_app. cbn [map]. rewrite map_app. cbn [map]. rewrite E0. reflexivity. }
    apply in_split in Hc as (l1 & l2 & El). rewrite El in Hd.
    apply in_app_or in Hd as [Hd|[Hd|Hd]].
    + apply in_split in Hd as (m1 & m2 & ->).
      apply (W d c); try congruence.
      * rewrite El. apply in_or_app. left. apply in_or_app. right. left. reflexivity.
      * rewrite El. apply in_or_app. right. left. reflexivity.
      * exists m1, m2, l2. rewrite El. rewrite <- app_assoc. reflexivity.
    + congruence.
    + apply in_split in Hd as (m1 & m2 & ->).
      apply (W c d); try congruence.
      * rewrite El. apply in_or_app. right. left. reflexivity.
      * rewrite El. apply in_or_app. right. right. apply in_or_app. right. left. reflexivity.
      * exists l1, m1, m2. exact El.
Qed.

(* Enrolment: a connection d that goes through the admission while a member c
   of the list carries the same label takes a slot of its own *)
Theorem label_enrol (f : conn -> alabel) s c d : Inv s -> In c (clients s) ->
  stat s d = Taken -> started s = true -> length (clients s) < maxc s -> f d = f c ->
  let s1 := step s (Enrol d) in
  stat s1 d = Serving /\ In d (clients s1) /\ In c (clients s1) /\ stat s1 c = stat s c /\
  length (clients s1) = S (length (clients s)) /\
  length (at_label f (f c) s1) = S (length (at_label f (f c) s)).
Proof.
  intros I Hc Ht Hst Hlt Hf. cbn zeta.
  assert (Hne : c <> d).
  { intros ->. apply (inv_members s I) in Hc. destruct Hc as [H|H]; congruence. }
  rewrite (enrol_eff s d Ht). rewrite Hst. apply Nat.ltb_lt in Hlt. rewrite Hlt.
  cbn [andb stat clients]. unfold at_label. cbn [clients].
  rewrite upd_same, upd_other by exact Hne. repeat split.
  - apply in_or_app. right. left. reflexivity.
  - apply in_or_app. left. exact Hc.
  - rewrite app_length. cbn [length]. lia.
  - rewrite filter_app, app_length. cbn [filter]. rewrite Hf, Nat.eqb_refl. cbn [length]. lia.
Qed.

(* Removal: the end of c gives back the slot of c only. Every other member d
   of the list keeps its slot, its status and its socket, whatever it shares
   with c; counted by label, the label of c loses exactly one member and every
   other label none *)
Theorem label_remove (f : conn -> alabel) s c : Inv s -> stat s c = Ended ->
  let s1 := step s (Remove c) in
  (forall d, d <> c -> In d (clients s) ->
     In d (clients s1) /\ stat s1 d = stat s d /\ closed s1 d = closed s d) /\
  ~ In c (clients s1) /\
  S (length (clients s1)) = length (clients s) /\
  S (length (at_label f (f c) s1)) = length (at_label f (f c) s) /\
  (forall a, a <> f c -> length (at_label f a s1) = length (at_label f a s)).
Proof.
  intros I He. cbn zeta.
  assert (Hin : In c (clients s)) by (apply (inv_members s I); right; exact He).
  pose proof (inv_nodup s I) as Hnd.
  rewrite (remove_eff s c He). unfold at_label. cbn [clients stat closed].
  pose proof (remove_swap_perm c _ Hin) as P.
  repeat split.
  - apply remove_swap_in; [exact Hnd|exact Hin|]. split; assumption.
  - apply upd_other. assumption.
  - apply upd_other. assumption.
  - apply (remove_swap_nodup c _ Hnd Hin).
  - apply remove_swap_length. exact Hin.
  - rewrite (filter_perm_length _ _ _ P). cbn [filter]. rewrite Nat.eqb_refl. reflexivity.
  - intros a Ha. rewrite (filter_perm_length _ _ _ P). cbn [filter].
    destruct (Nat.eqb (f c) a) eqn:E; [apply Nat.eqb_eq in E; congruence|reflexivity].
Qed.

(* The whole come-back: d is enrolled while the session of c (same label) is
   still held by the server, then c is wound down. d is served and on the
   list, c is off it, the list is as long as before, and so is the set of
   members carrying that label: the end of the old session did not take the
   slot of the new one. *)
Theorem label_comeback (f : conn -> alabel) s c d w : Inv s -> started s = true -> 0 < acceptors s ->
  stat s c = Serving -> stat s d = Fresh -> w <> ClosedByStop ->
  length (clients s) < maxc s -> f d = f c ->
  let s1 := run s (comeback c d w) in
  Inv s1 /\ stat s1 d = Serving /\ In d (clients s1) /\ stat s1 c = Removed /\ ~ In c (clients s1) /\
  length (clients s1) = length (clients s) /\
  length (at_label f (f c) s1) = length (at_label f (f c) s) /\
  (forall x, x <> c -> x <> d -> stat s1 x = stat s x).
Proof.
  intros I Hst Ha Hs Hfr Hw Hlt Hf. cbn zeta. unfold comeback. rewrite run_app.
  assert (Hne : c <> d) by (intros ->; congruence).
  destruct (arrival_eff s d I Hst Ha Hfr) as (A1 & A2 & A3 & A4 & A5 & A6 & _).
  destruct (A6 Hlt) as (A7 & A8).
  set (sa := run s (arrival d)) in *.
  assert (Ia : Inv sa) by (apply inv_run; exact I).
  assert (Hsa : stat sa c = Serving) by (rewrite A5 by exact Hne; exact Hs).
  destruct (departure_frees sa c w Ia Hsa Hw) as (P & D2 & D3 & D4 & D5 & D6 & D7 & D8).
  set (s1 := run sa (departure c w)) in *.
  assert (I1 : Inv s1) by (apply inv_run; exact Ia).
  assert (Hd1 : stat s1 d = Serving) by (rewrite D8 by congruence; exact A8).
  split; [exact I1|]. repeat split.
  - exact Hd1.
  - apply (inv_members s1 I1). left. exact Hd1.
  - exact D2.
  - intros H. apply (inv_members s1 I1) in H. destruct H as [H|H]; congruence.
  - apply Permutation_length in P. rewrite A7, app_length in P. cbn [length] in P. lia.
  - pose proof (filter_perm_length (fun x => Nat.eqb (f x) (f c)) _ _ P) as E.
    unfold at_label. rewrite A7, filter_app, app_length in E. cbn [filter] in E.
    rewrite Hf, !Nat.eqb_refl in E. cbn [length] in E. lia.
  - intros x Hxc Hxd. rewrite D8 by exact Hxc. apply A5. exact Hxd.
Qed.
