(* Proofs about the two framings of Model/Wire.v: io.ReadFull, the MBAP frame
   reader and its skip loop, the RTU frame reader, assembled frames. *)
From Modbus Require Import Base.Bytes Model.Crc Model.Encoding Model.Wire Model.Client
  Spec.ModbusSpec Spec.ClientSpec Proofs.CrcP.
From Coq Require Import ZifyBool ZifyNat ZifyN.
Ltac Zify.zify_post_hook ::= Z.div_mod_to_equations.

(* ---------------------------------------------------------------- bytes *)

Lemma bytesb_cons b l : bytesb (b :: l) = true <-> b < 256 /\ bytesb l = true.
Proof.
  unfold bytesb. cbn [forallb]. rewrite andb_true_iff. unfold is_byte.
  rewrite N.ltb_lt. reflexivity.
Qed.

Lemma bytesb_app_iff a b : bytesb (a ++ b) = true <-> bytesb a = true /\ bytesb b = true.
Proof. rewrite bytesb_app, andb_true_iff. reflexivity. Qed.

Lemma bytesb_nil : bytesb [] = true.
Proof. reflexivity. Qed.

Lemma be16_digits a b : a < 256 -> b < 256 -> be16 (a * 256 + b) = [a; b].
Proof. intros Ha Hb. unfold be16. f_equal; [lia|f_equal; lia]. Qed.

Lemma be16_small v : v < 256 -> be16 v = [0; v].
Proof. intros Hv. unfold be16. f_equal; [lia|f_equal; lia]. Qed.

Lemma lenN_app {A} (a b : list A) : lenN (a ++ b) = lenN a + lenN b.
Proof. unfold lenN. rewrite app_length. lia. Qed.

Lemma lenN_cons {A} (x : A) l : lenN (x :: l) = 1 + lenN l.
Proof. unfold lenN. cbn [length]. lia. Qed.

(* ---------------------------------------------------------------- read_full *)

Lemma read_full_app n a b : length a = n -> read_full n (a ++ b) = RFull a b.
Proof.
  intros H. unfold read_full. rewrite app_length.
  replace (Nat.leb n (length a + length b)) with true by (symmetry; apply Nat.leb_le; lia).
  subst n. rewrite firstn_app, Nat.sub_diag, firstn_all, firstn_O, app_nil_r.
  rewrite skipn_app, Nat.sub_diag, skipn_all. reflexivity.
Qed.

Lemma read_full_ok n s got rest : read_full n s = RFull got rest ->
  s = got ++ rest /\ length got = n.
Proof.
  unfold read_full. destruct (Nat.leb n (length s)) eqn:E; [|discriminate].
  intros H. inversion H; subst. apply Nat.leb_le in E. split.
  - symmetry. apply firstn_skipn.
  - apply firstn_length_le. exact E.
Qed.

Lemma read_full_short n s got : read_full n s = RShort got ->
  got = s /\ (length s < n)%nat.
Proof.
  unfold read_full. destruct (Nat.leb n (length s)) eqn:E; [discriminate|].
  intros H. inversion H; subst. apply Nat.leb_gt in E. split; [reflexivity|exact E].
Qed.

Lemma read_full_short_iff n s : (length s < n)%nat -> read_full n s = RShort s.
Proof.
  intros H. unfold read_full.
  replace (Nat.leb n (length s)) with false by (symmetry; apply Nat.leb_gt; exact H).
  reflexivity.
Qed.

(* ---------------------------------------------------------------- MBAP *)

Definition mbap_frame (t proto unit fc : N) (payload : list N) : list N :=
  be16 t ++ be16 proto ++ be16 (2 + lenN payload) ++ [unit; fc] ++ payload.

Lemma mbap_frame_length t proto unit fc payload :
  length (mbap_frame t proto unit fc payload) = (8 + length payload)%nat.
Proof. unfold mbap_frame, be16. cbn [app length]. lia. Qed.

Lemma spec_frame_mbap t p :
  spec_frame FMbap t p = mbap_frame t 0 (p_unit p) (p_fc p) (p_payload p).
Proof. reflexivity. Qed.

(* a well-formed frame at the head of the stream is read as such *)
Lemma read_mbap_frame e t proto unit fc payload rest :
  t < 65536 -> proto < 65536 -> lenN payload <= 252 ->
  read_mbap e (mbap_frame t proto unit fc payload ++ rest) =
    (if proto =? 0 then FOk (mkpdu unit fc payload) t else FErr EUnknownProto, rest).
Proof.
  intros Ht Hp Hl. unfold mbap_frame, read_mbap.
  remember (lenN payload) as L eqn:HL.
  change (be16 t ++ be16 proto ++ be16 (2 + L) ++ [unit; fc] ++ payload)
    with ([(t / 256) mod 256; t mod 256; (proto / 256) mod 256; proto mod 256;
           ((2 + L) / 256) mod 256; (2 + L) mod 256; unit] ++ (fc :: payload)).
  rewrite <- app_assoc. rewrite read_full_app by reflexivity.
  replace (((2 + L) / 256) mod 256 * 256 + (2 + L) mod 256) with (2 + L) by lia.
  replace (260 <? 2 + L - 1 + 7) with false by lia.
  replace (2 + L <=? 1) with false by lia.
  rewrite read_full_app by (cbn [length]; unfold lenN in HL; lia).
  replace ((proto / 256) mod 256 * 256 + proto mod 256) with proto by lia.
  replace ((t / 256) mod 256 * 256 + t mod 256) with t by lia.
  destruct (proto =? 0); reflexivity.
Qed.

(* any frame result that lets the skip loop go on has consumed 8 bytes or more *)
Lemma read_mbap_len e s r rest : read_mbap e s = (r, rest) ->
  match r with
  | FOk _ _ | FErr EUnknownProto => (length rest + 8 <= length s)%nat
  | FErr _ => True
  end.
Proof.
  unfold read_mbap. destruct (read_full 7 s) as [hdr r1|got] eqn:E1.
  2:{ intros H; inversion H; subst. destruct e; exact I. }
  apply read_full_ok in E1 as [Hs Hl].
  destruct hdr as [|t1 [|t0 [|p1 [|p0 [|l1 [|l0 [|unit [|x hdr]]]]]]]]; try discriminate Hl.
  set (len := l1 * 256 + l0).
  destruct (260 <? len - 1 + 7) eqn:C1; [intros H; inversion H; exact I|].
  destruct (len <=? 1) eqn:C2; [intros H; inversion H; exact I|].
  destruct (read_full (N.to_nat (len - 1)) r1) as [body r2|got] eqn:E2.
  2:{ intros H; inversion H; subst. destruct e; exact I. }
  apply read_full_ok in E2 as [Hr1 Hb].
  assert (Hlen : (length r2 + 8 <= length s)%nat).
  { subst s r1. rewrite !app_length. cbn [length]. lia. }
  destruct (negb (p1 * 256 + p0 =? 0)); [intros H; inversion H; subst; exact Hlen|].
  destruct body as [|fc payload]; intros H; inversion H; subst; [exact I|exact Hlen].
Qed.

(* the stream a successfully read (or skipped) frame came from *)
Lemma read_mbap_inv e s r rest : bytesb s = true -> read_mbap e s = (r, rest) ->
  match r with
  | FOk p t =>
      s = mbap_frame t 0 (p_unit p) (p_fc p) (p_payload p) ++ rest /\
      t < 65536 /\ lenN (p_payload p) <= 252
  | FErr EUnknownProto =>
      exists t proto unit fc payload,
        s = mbap_frame t proto unit fc payload ++ rest /\
        t < 65536 /\ proto < 65536 /\ proto <> 0 /\ lenN payload <= 252
  | FErr _ => True
  end.
Proof.
  intros Hbytes. unfold read_mbap. destruct (read_full 7 s) as [hdr r1|got] eqn:E1.
  2:{ intros HR; inversion HR; subst. destruct e; exact I. }
  apply read_full_ok in E1 as [Hs Hl].
  destruct hdr as [|t1 [|t0 [|p1 [|p0 [|l1 [|l0 [|unit [|x hdr]]]]]]]]; try discriminate Hl.
  rewrite Hs in Hbytes. apply bytesb_app_iff in Hbytes as [Hh Hb1].
  repeat (apply bytesb_cons in Hh; destruct Hh as [? Hh]).
  set (len := l1 * 256 + l0).
  destruct (260 <? len - 1 + 7) eqn:C1; [intros HR; inversion HR; exact I|].
  destruct (len <=? 1) eqn:C2; [intros HR; inversion HR; exact I|].
  destruct (read_full (N.to_nat (len - 1)) r1) as [body r2|got] eqn:E2.
  2:{ intros HR; inversion HR; subst. destruct e; exact I. }
  apply read_full_ok in E2 as [Hr1 Hb].
  destruct body as [|fc payload]; [cbn [length] in Hb; lia|].
  assert (Hpl : 2 + lenN payload = len) by (unfold lenN; cbn [length] in Hb; lia).
  assert (Hframe : forall proto, proto = p1 * 256 + p0 ->
            s = mbap_frame (t1 * 256 + t0) proto unit fc payload ++ r2).
  { intros proto ->. unfold mbap_frame. rewrite Hpl. unfold len.
    rewrite !be16_digits by assumption. subst s r1. cbn [app]. reflexivity. }
  destruct (p1 * 256 + p0 =? 0) eqn:C3; cbn [negb]; intros HR; inversion HR; subst r rest.
  - cbn [p_unit p_fc p_payload]. apply N.eqb_eq in C3.
    split; [apply Hframe; symmetry; exact C3|]. split; lia.
  - exists (t1 * 256 + t0), (p1 * 256 + p0), unit, fc, payload.
    split; [apply Hframe; reflexivity|]. repeat split; lia.
Qed.

(* the skip loop: never a panic, and fuel above the stream length suffices *)
Lemma mbap_no_panic fuel : forall e txn s,
  fst (mbap_read_response fuel e txn s) <> Panic.
Proof.
  induction fuel as [|f IH]; intros e txn s; [cbn; discriminate|].
  cbn [mbap_read_response]. destruct (read_mbap e s) as [r s'].
  destruct r as [p t|x].
  - destruct (t =? txn); [cbn; discriminate|apply IH].
  - destruct x; try (cbn; discriminate). apply IH.
Qed.

Lemma mbap_no_oof fuel : forall e txn s, (length s < fuel)%nat ->
  fst (mbap_read_response fuel e txn s) <> OutOfFuel.
Proof.
  induction fuel as [|f IH]; intros e txn s Hf; [lia|].
  cbn [mbap_read_response]. destruct (read_mbap e s) as [r s'] eqn:E.
  apply read_mbap_len in E.
  destruct r as [p t|x].
  - destruct (t =? txn); [cbn; discriminate|apply IH; lia].
  - destruct x; try (cbn; discriminate). apply IH; lia.
Qed.

Lemma skippable_frame txn f : skippable txn f <->
  exists t proto unit fc payload,
    f = mbap_frame t proto unit fc payload /\
    t < 65536 /\ proto < 65536 /\ lenN payload <= 252 /\ (proto <> 0 \/ t <> txn).
Proof. reflexivity. Qed.

Lemma skippable_length txn f : skippable txn f -> (8 <= length f)%nat.
Proof.
  intros (t & proto & unit & fc & payload & -> & _).
  fold (mbap_frame t proto unit fc payload). rewrite mbap_frame_length. lia.
Qed.

Lemma skippable_concat_length txn frames : Forall (skippable txn) frames ->
  (length frames <= length (concat frames))%nat.
Proof.
  induction 1 as [|f fs Hf _ IH]; [cbn; lia|].
  cbn [concat length]. rewrite app_length. apply skippable_length in Hf. lia.
Qed.

(* skippable frames are skipped, one unit of fuel each *)
Lemma mbap_skip e txn frames : forall fuel rest, Forall (skippable txn) frames ->
  mbap_read_response (length frames + fuel) e txn (concat frames ++ rest) =
  mbap_read_response fuel e txn rest.
Proof.
  induction frames as [|f fs IH]; intros fuel rest HF; [reflexivity|].
  inversion HF as [|? ? Hf Hfs]; subst.
  cbn [length concat plus mbap_read_response]. rewrite <- app_assoc.
  destruct Hf as (t & proto & unit & fc & payload & -> & Ht & Hp & Hl & Hd).
  fold (mbap_frame t proto unit fc payload).
  rewrite read_mbap_frame by assumption.
  destruct (proto =? 0) eqn:E.
  - apply N.eqb_eq in E. replace (t =? txn) with false by lia. apply IH, Hfs.
  - apply IH, Hfs.
Qed.

(* completeness of the receive loop *)
Lemma mbap_response_frame e txn frames unit fc payload post :
  Forall (skippable txn) frames -> txn < 65536 -> lenN payload <= 252 ->
  let s := concat frames ++ mbap_frame txn 0 unit fc payload ++ post in
  mbap_read_response (S (length s)) e txn s = (Ok (mkpdu unit fc payload), post).
Proof.
  intros HF Ht Hl s.
  assert (Hlen : (length frames <= length s)%nat).
  { subst s. rewrite app_length. pose proof (skippable_concat_length _ _ HF). lia. }
  replace (S (length s)) with (length frames + S (length s - length frames))%nat by lia.
  subst s. rewrite mbap_skip by exact HF.
  cbn [mbap_read_response]. rewrite read_mbap_frame by (assumption || lia).
  cbn [N.eqb]. rewrite N.eqb_refl. reflexivity.
Qed.

(* soundness of the receive loop: what the stream looked like *)
Lemma mbap_response_inv fuel : forall e txn s p rest, bytesb s = true ->
  mbap_read_response fuel e txn s = (Ok p, rest) ->
  exists frames,
    Forall (skippable txn) frames /\
    s = concat frames ++ mbap_frame txn 0 (p_unit p) (p_fc p) (p_payload p) ++ rest /\
    lenN (p_payload p) <= 252.
Proof.
  induction fuel as [|f IH]; intros e txn s p rest Hb; [cbn; discriminate|].
  cbn [mbap_read_response]. destruct (read_mbap e s) as [r s'] eqn:E.
  pose proof (read_mbap_inv e s r s' Hb E) as Hinv.
  destruct r as [p' t|x].
  - destruct Hinv as (Hs & Ht & Hl).
    destruct (t =? txn) eqn:C.
    + intros H; inversion H; subst p' s'. apply N.eqb_eq in C. subst t.
      exists []. split; [constructor|]. split; [exact Hs|exact Hl].
    + intros H. assert (Hb' : bytesb s' = true).
      { rewrite Hs in Hb. apply bytesb_app_iff in Hb. tauto. }
      destruct (IH e txn s' p rest Hb' H) as (frames & HF & Hs' & Hl').
      exists (mbap_frame t 0 (p_unit p') (p_fc p') (p_payload p') :: frames).
      split; [constructor; [|exact HF]|].
      * exists t, 0, (p_unit p'), (p_fc p'), (p_payload p').
        split; [reflexivity|]. apply N.eqb_neq in C. repeat split; try lia.
      * split; [|exact Hl']. cbn [concat]. rewrite <- app_assoc, <- Hs'. exact Hs.
  - destruct x; try (intros H; discriminate H).
    destruct Hinv as (t & proto & unit & fc & payload & Hs & Ht & Hp & Hp0 & Hl).
    intros H. assert (Hb' : bytesb s' = true).
    { rewrite Hs in Hb. apply bytesb_app_iff in Hb. tauto. }
    destruct (IH e txn s' p rest Hb' H) as (frames & HF & Hs' & Hl').
    exists (mbap_frame t proto unit fc payload :: frames).
    split; [constructor; [|exact HF]|].
    + exists t, proto, unit, fc, payload. split; [reflexivity|]. repeat split; try lia.
    + split; [|exact Hl']. cbn [concat]. rewrite <- app_assoc, <- Hs'. exact Hs.
Qed.

(* ---------------------------------------------------------------- RTU *)

Definition rtu_frame (unit fc : N) (payload : list N) : list N :=
  ([unit; fc] ++ payload) ++ crc_bytes ([unit; fc] ++ payload).

Lemma assemble_rtu_frame p : assemble_rtu p = rtu_frame (p_unit p) (p_fc p) (p_payload p).
Proof. reflexivity. Qed.

Lemma crc_bytes_ref body : bytesb body = true ->
  crc_bytes body = [crc_ref body mod 256; crc_ref body / 256].
Proof.
  intros Hb. unfold crc_bytes, crc_value, le16.
  pose proof (crc16_word body Hb) as Hw. rewrite (crc16_is_ref body Hb) in *.
  f_equal. f_equal. lia.
Qed.

Lemma spec_frame_rtu t p : bytesb ([p_unit p; p_fc p] ++ p_payload p) = true ->
  spec_frame FRtu t p = rtu_frame (p_unit p) (p_fc p) (p_payload p).
Proof.
  intros Hb. unfold spec_frame, rtu_frame. rewrite (crc_bytes_ref _ Hb). reflexivity.
Qed.

Lemma crc_bytes_accept body : bytesb body = true ->
  exists lo hi, crc_bytes body = [lo; hi] /\ crc_is_equal (crc16 body) lo hi = true.
Proof.
  intros Hb. pose proof (crc16_word body Hb) as Hw.
  unfold crc_bytes, crc_value, le16. do 2 eexists. split; [reflexivity|].
  apply crc_is_equal_iff; [exact Hw|lia|lia|reflexivity].
Qed.

(* a well-formed frame at the head of the stream is read as such *)
Lemma read_rtu_frame e unit fc b2 data rest :
  expected_len fc b2 = Some (lenN data) -> lenN data <= 251 ->
  bytesb ([unit; fc; b2] ++ data) = true ->
  read_rtu e (rtu_frame unit fc (b2 :: data) ++ rest) =
    (Ok (mkpdu unit fc (b2 :: data)), rest).
Proof.
  intros He Hl Hb. unfold rtu_frame, read_rtu.
  change ([unit; fc] ++ b2 :: data) with ([unit; fc; b2] ++ data).
  destruct (crc_bytes_accept _ Hb) as (lo & hi & Ec & Hc). rewrite Ec.
  rewrite <- !app_assoc. rewrite read_full_app by reflexivity.
  rewrite He. replace (256 <? 3 + (lenN data + 2)) with false by lia.
  rewrite app_assoc.
  rewrite read_full_app by (rewrite app_length; cbn [length]; unfold lenN; lia).
  replace (N.to_nat (lenN data)) with (length data) by (unfold lenN; lia).
  rewrite firstn_app, Nat.sub_diag, firstn_all, firstn_O, app_nil_r.
  rewrite skipn_app, Nat.sub_diag, skipn_all. cbn [skipn app].
  cbn [app] in Hc. rewrite Hc. reflexivity.
Qed.

Lemma read_rtu_no_panic e s :
  fst (read_rtu e s) <> Panic /\ fst (read_rtu e s) <> OutOfFuel.
Proof.
  unfold read_rtu. destruct (read_full 3 s) as [hdr r1|got] eqn:E1.
  2:{ destruct got; cbn; split; discriminate. }
  apply read_full_ok in E1 as [Hs Hl].
  destruct hdr as [|unit [|fc [|b2 [|x hdr]]]]; try discriminate Hl.
  destruct (expected_len fc b2) as [n|]; [|cbn; split; discriminate].
  destruct (256 <? 3 + (n + 2)); [cbn; split; discriminate|].
  destruct (read_full (N.to_nat (n + 2)) r1) as [body r2|got] eqn:E2.
  2:{ destruct e, got; cbn; split; discriminate. }
  apply read_full_ok in E2 as [Hr1 Hb].
  assert (Hsk : length (skipn (N.to_nat n) body) = 2%nat) by (rewrite skipn_length; lia).
  destruct (skipn (N.to_nat n) body) as [|lo [|hi [|y tl]]]; try discriminate Hsk.
  destruct (crc_is_equal _ lo hi); cbn; split; discriminate.
Qed.

Lemma read_rtu_inv e s p rest : bytesb s = true -> read_rtu e s = (Ok p, rest) ->
  exists b2 data,
    p_payload p = b2 :: data /\ expected_len (p_fc p) b2 = Some (lenN data) /\
    lenN data <= 251 /\
    s = rtu_frame (p_unit p) (p_fc p) (p_payload p) ++ rest.
Proof.
  intros Hbytes. unfold read_rtu. destruct (read_full 3 s) as [hdr r1|got] eqn:E1.
  2:{ destruct got; discriminate. }
  apply read_full_ok in E1 as [Hs Hl].
  destruct hdr as [|unit [|fc [|b2 [|x hdr]]]]; try discriminate Hl.
  destruct (expected_len fc b2) as [n|] eqn:He; [|discriminate].
  destruct (256 <? 3 + (n + 2)) eqn:C1; [discriminate|].
  destruct (read_full (N.to_nat (n + 2)) r1) as [body r2|got] eqn:E2.
  2:{ destruct e, got; discriminate. }
  apply read_full_ok in E2 as [Hr1 Hb].
  pose proof (firstn_skipn (N.to_nat n) body) as Hsplit.
  assert (Hfl : length (firstn (N.to_nat n) body) = N.to_nat n)
    by (apply firstn_length_le; lia).
  assert (Hsk : length (skipn (N.to_nat n) body) = 2%nat) by (rewrite skipn_length; lia).
  remember (firstn (N.to_nat n) body) as data eqn:Hd.
  destruct (skipn (N.to_nat n) body) as [|lo [|hi [|y tl]]]; try discriminate Hsk.
  destruct (crc_is_equal _ lo hi) eqn:Hc; [|discriminate].
  intros HR; inversion HR; subst p rest. cbn [p_unit p_fc p_payload].
  exists b2, data. split; [reflexivity|].
  assert (Hn : lenN data = n) by (unfold lenN; lia).
  split; [rewrite Hn; exact He|]. split; [lia|].
  subst s r1. rewrite <- Hsplit in *. clear Hsplit.
  repeat (rewrite bytesb_app_iff in Hbytes || rewrite bytesb_cons in Hbytes).
  destruct Hbytes as ((Hu & Hf & Hb2 & _) & (Hdat & Hlo & Hhi & _) & Hr2).
  assert (Hbody : bytesb ([unit; fc; b2] ++ data) = true).
  { cbn [app]. rewrite !bytesb_cons. auto. }
  apply crc_is_equal_iff in Hc; [|apply crc16_word; exact Hbody|exact Hlo|exact Hhi].
  unfold rtu_frame. change ([unit; fc] ++ b2 :: data) with ([unit; fc; b2] ++ data).
  unfold crc_bytes. rewrite <- Hc. rewrite <- !app_assoc. reflexivity.
Qed.

Lemma rtu_response_ok e s p rest :
  rtu_read_response e s = (Ok p, rest) <-> read_rtu e s = (Ok p, rest).
Proof.
  unfold rtu_read_response. destruct (read_rtu e s) as [r s'].
  destruct r as [a|x| |]; try (split; intros H; exact H).
  destruct x; split; intros H; try exact H; discriminate H.
Qed.

Lemma rtu_response_no_panic e s :
  fst (rtu_read_response e s) <> Panic /\ fst (rtu_read_response e s) <> OutOfFuel.
Proof.
  pose proof (read_rtu_no_panic e s) as H. unfold rtu_read_response.
  destruct (read_rtu e s) as [r s']. destruct r as [a|x| |]; try exact H.
  destruct x; cbn; split; discriminate.
Qed.

(* ---------------------------------------------------------------- assembled frames *)

Lemma assemble_mbap_spec txn p : lenN (p_payload p) <= 65533 ->
  assemble_mbap txn p = spec_frame FMbap txn p.
Proof.
  intros Hl. unfold assemble_mbap, spec_frame, u16.
  replace ((2 + lenN (p_payload p)) mod 65536) with (2 + lenN (p_payload p)) by lia.
  reflexivity.
Qed.

Lemma assemble_rtu_spec txn p : bytesb ([p_unit p; p_fc p] ++ p_payload p) = true ->
  assemble_rtu p = spec_frame FRtu txn p.
Proof. intros Hb. rewrite spec_frame_rtu by exact Hb. reflexivity. Qed.
