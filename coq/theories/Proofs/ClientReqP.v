(* Proofs for C01: the request built by the client model is exactly the
   specified PDU (or a local rejection), and exactly one frame is written. *)
From Modbus Require Import Base.Bytes Model.Crc Model.Encoding Model.Wire Model.Client
  Spec.ModbusSpec Spec.ClientSpec Proofs.EncodingP Proofs.BoolsP Proofs.CrcP.
From Coq Require Import ZifyBool ZifyNat ZifyN.
Ltac Zify.zify_post_hook ::= Z.div_mod_to_equations.

(* ------------------------------------------------------- small utilities *)

Lemma lenN_app {A} (a b : list A) : lenN (a ++ b) = lenN a + lenN b.
Proof. unfold lenN. rewrite app_length. lia. Qed.

Lemma flat_map_length_const {A B} (f : A -> list B) k l :
  (forall x, length (f x) = k) -> length (flat_map f l) = (k * length l)%nat.
Proof.
  intros Hf. induction l as [|x t IH]; [cbn; lia|].
  cbn [flat_map length]. rewrite app_length, Hf, IH. lia.
Qed.

Lemma flat_map_ext_Forall {A B} (P : A -> Prop) (f g : A -> list B) l :
  (forall x, P x -> f x = g x) -> Forall P l -> flat_map f l = flat_map g l.
Proof.
  intros Hfg. induction 1 as [|x t Hx _ IH]; [reflexivity|].
  cbn [flat_map]. rewrite IH, (Hfg x Hx). reflexivity.
Qed.

Lemma bytesb_flat_map {A} (f : A -> list N) l :
  (forall x, bytesb (f x) = true) -> bytesb (flat_map f l) = true.
Proof.
  intros Hf. induction l as [|x t IH]; [reflexivity|].
  cbn [flat_map]. rewrite bytesb_app, Hf, IH. reflexivity.
Qed.

Lemma be16_u16 x : be16 (u16 x) = be16 x.
Proof. unfold be16, u16. f_equal; [lia|]. f_equal. lia. Qed.

(* ------------------------------------------------------ register values *)

Lemma spec_bytes_1_word e w v : spec_bytes 1 e w v = spec_bytes 1 e HighFirst v.
Proof. unfold spec_bytes, layout, words_of. destruct w; reflexivity. Qed.

Lemma u16_layout_any e w v : v < 65536 -> u16_to_bytes e v = spec_bytes 1 e w v.
Proof. intros Hv. rewrite spec_bytes_1_word. apply u16_layout. exact Hv. Qed.

Lemma enc_value_spec cfg w v : (w = 1 \/ w = 2 \/ w = 4) -> v < 2 ^ (16 * w) ->
  enc_value cfg w v = spec_bytes (N.to_nat w) (c_endian cfg) (c_word cfg) v.
Proof.
  intros [Hw|[Hw|Hw]] Hv; subst w.
  - change (enc_value cfg 1 v) with (u16_to_bytes (c_endian cfg) v).
    change (N.to_nat 1) with 1%nat. apply u16_layout_any. exact Hv.
  - change (enc_value cfg 2 v) with (u32_to_bytes (c_endian cfg) (c_word cfg) v).
    change (N.to_nat 2) with 2%nat. apply u32_layout. exact Hv.
  - change (enc_value cfg 4 v) with (u64_to_bytes (c_endian cfg) (c_word cfg) v).
    change (N.to_nat 4) with 4%nat. apply u64_layout. exact Hv.
Qed.

Lemma enc_value_len cfg w v : (w = 1 \/ w = 2 \/ w = 4) ->
  length (enc_value cfg w v) = N.to_nat (2 * w).
Proof.
  intros [Hw|[Hw|Hw]]; subst w.
  - change (enc_value cfg 1 v) with (u16_to_bytes (c_endian cfg) v).
    rewrite u16_to_bytes_len. reflexivity.
  - change (enc_value cfg 2 v) with (u32_to_bytes (c_endian cfg) (c_word cfg) v).
    rewrite u32_to_bytes_len. reflexivity.
  - change (enc_value cfg 4 v) with (u64_to_bytes (c_endian cfg) (c_word cfg) v).
    rewrite u64_to_bytes_len. reflexivity.
Qed.

Lemma enc_value_bytes cfg w v : bytesb (enc_value cfg w v) = true.
Proof.
  unfold enc_value. destruct (w =? 1); [apply u16_to_bytes_bytes|].
  destruct (w =? 2); [apply u32_to_bytes_bytes|apply u64_to_bytes_bytes].
Qed.

Lemma enc_values_spec cfg w vs : (w = 1 \/ w = 2 \/ w = 4) ->
  Forall (fun v => v < 2 ^ (16 * w)) vs ->
  flat_map (enc_value cfg w) vs =
  flat_map (spec_bytes (N.to_nat w) (c_endian cfg) (c_word cfg)) vs.
Proof.
  intros Hw Hvs. apply (flat_map_ext_Forall (fun v => v < 2 ^ (16 * w))); [|exact Hvs].
  intros v Hv. apply enc_value_spec; assumption.
Qed.

Lemma enc_values_len cfg w vs : (w = 1 \/ w = 2 \/ w = 4) ->
  lenN (flat_map (enc_value cfg w) vs) = 2 * w * lenN vs.
Proof.
  intros Hw. unfold lenN.
  rewrite (flat_map_length_const _ (N.to_nat (2 * w))).
  - lia.
  - intros v. apply enc_value_len. exact Hw.
Qed.

Lemma enc_values_bytes cfg w vs : bytesb (flat_map (enc_value cfg w) vs) = true.
Proof. apply bytesb_flat_map. intros v. apply enc_value_bytes. Qed.

(* ------------------------------------------------------------ byte image *)

Lemma swap_pairs_spec l : swap_pairs l = pair_swap l.
Proof.
  induction l as [|a|a b t IH] using list_ind2; [reflexivity|reflexivity|].
  cbn [swap_pairs pair_swap]. rewrite IH. reflexivity.
Qed.

Lemma swap_pairs_len l : length (swap_pairs l) = length l.
Proof.
  induction l as [|a|a b t IH] using list_ind2; [reflexivity|reflexivity|].
  cbn [swap_pairs length]. rewrite IH. reflexivity.
Qed.

Lemma swap_pairs_bytes l : bytesb l = true -> bytesb (swap_pairs l) = true.
Proof.
  unfold bytesb.
  induction l as [|a|a b t IH] using list_ind2; intros H; [reflexivity|exact H|].
  cbn [swap_pairs forallb] in *.
  apply andb_true_iff in H as [Ha H]. apply andb_true_iff in H as [Hb Ht].
  rewrite Ha, Hb, (IH Ht). reflexivity.
Qed.

Lemma image_spec cfg raw bs : write_bytes_image cfg raw bs = spec_byte_image cfg raw bs.
Proof.
  unfold write_bytes_image, spec_byte_image, Nat.odd.
  destruct (Nat.even (length bs)); cbn [negb];
    destruct raw, (c_endian cfg); try reflexivity; apply swap_pairs_spec.
Qed.

Definition padded (bs : list N) : list N :=
  if Nat.odd (length bs) then bs ++ [0] else bs.

Lemma padded_len bs : lenN (padded bs) = 2 * ((lenN bs + 1) / 2).
Proof.
  unfold padded, lenN. destruct (Nat.odd (length bs)) eqn:E.
  - apply Nat.odd_spec in E. destruct E as [m Hm]. rewrite app_length. cbn [length]. lia.
  - assert (E' : Nat.even (length bs) = true).
    { rewrite <- Nat.negb_odd, E. reflexivity. }
    apply Nat.even_spec in E'. destruct E' as [m Hm]. lia.
Qed.

Lemma padded_bytes bs : bytesb bs = true -> bytesb (padded bs) = true.
Proof.
  intros H. unfold padded. destruct (Nat.odd (length bs)); [|exact H].
  rewrite bytesb_app, H. reflexivity.
Qed.

Lemma image_len cfg raw bs :
  lenN (write_bytes_image cfg raw bs) = 2 * ((lenN bs + 1) / 2).
Proof.
  unfold write_bytes_image. fold (padded bs).
  destruct raw, (c_endian cfg); try apply padded_len.
  unfold lenN. rewrite swap_pairs_len. apply padded_len.
Qed.

Lemma image_bytes cfg raw bs : bytesb bs = true ->
  bytesb (write_bytes_image cfg raw bs) = true.
Proof.
  intros H. unfold write_bytes_image. fold (padded bs).
  destruct raw, (c_endian cfg); try (apply padded_bytes; exact H).
  apply swap_pairs_bytes, padded_bytes, H.
Qed.

Lemma encode_bools_lenN vs : lenN (encode_bools vs) = (lenN vs + 7) / 8.
Proof. unfold lenN. rewrite encode_bools_len. lia. Qed.

(* ------------------------------------------------- request construction *)

(* one model test: either it rejects (and so does the spec) or we go on *)
Ltac reject c E :=
  destruct c eqn:E; [first [reflexivity | exfalso; lia]|].

Ltac unfold_valid :=
  unfold valid_op; cbn [op_regtype_ok op_count op_limit op_addr andb].

Ltac case_valid V :=
  match goal with
  | |- _ = if ?b then _ else _ => destruct b eqn:V
  end.

Ltac open_valid V := unfold_valid; case_valid V.

Lemma exact_read_bools cfg di a q : a < 65536 -> q < 65536 ->
  client_request cfg (OpReadBools di a q) =
  if valid_op (OpReadBools di a q) then Ok (spec_pdu cfg (OpReadBools di a q)) else Err EParams.
Proof.
  intros Ha Hq. cbn [client_request]. unfold req_read_bools, spec_pdu.
  cbn [spec_fc spec_payload op_count]. open_valid V.
  - reject (q =? 0) E0. reject (2000 <? q) E1. reject (65535 <? a + q - 1) E2.
    destruct di; reflexivity.
  - reject (q =? 0) E0. reject (2000 <? q) E1. reject (65535 <? a + q - 1) E2.
    exfalso; lia.
Qed.

Lemma exact_read_regs_count cfg a n rt :
  req_read_regs cfg a n rt =
  if (match rt with BadRegType => false | _ => true end)
     && (1 <=? n) && (n <=? 125) && (a + n - 1 <=? 65535)
  then Ok (mkpdu (c_unit cfg) (match rt with Holding => 3 | _ => 4 end) (be16 a ++ be16 n))
  else Err EParams.
Proof.
  unfold req_read_regs.
  destruct rt; cbn [andb]; try reflexivity;
    (destruct (1 <=? n) eqn:V1; destruct (n <=? 125) eqn:V2;
     destruct (a + n - 1 <=? 65535) eqn:V3; cbn [andb];
     reject (n =? 0) E0; reject (125 <? n) E1; reject (65535 <? a + n - 1) E2;
     first [reflexivity | exfalso; lia]).
Qed.

Lemma read_regs_count w q : (w = 1 \/ w = 2 \/ w = 4) ->
  (if w =? 1 then q else register_count q w) = q * w \/
  (125 < (if w =? 1 then q else register_count q w) /\ 125 < q * w).
Proof.
  intros Hw. unfold register_count. destruct Hw as [Hw|[Hw|Hw]]; subst w.
  - change (1 =? 1) with true. cbv iota. lia.
  - change (2 =? 1) with false. cbv iota. destruct (65535 <? q * 2) eqn:E; lia.
  - change (4 =? 1) with false. cbv iota. destruct (65535 <? q * 4) eqn:E; lia.
Qed.

Lemma exact_read_regs cfg w a q rt : (w = 1 \/ w = 2 \/ w = 4) -> a < 65536 -> q < 65536 ->
  client_request cfg (OpReadRegs w a q rt) =
  if valid_op (OpReadRegs w a q rt) then Ok (spec_pdu cfg (OpReadRegs w a q rt)) else Err EParams.
Proof.
  intros Hw Ha Hq. cbn [client_request]. rewrite exact_read_regs_count.
  unfold spec_pdu, valid_op. cbn [spec_payload op_count op_limit op_addr].
  pose proof (read_regs_count w q Hw) as Hn.
  remember (if w =? 1 then q else register_count q w) as n eqn:Hn'. clear Hn'.
  remember (q * w) as m eqn:Hm. clear Hm.
  destruct Hn as [Hn|[Hn1 Hn2]].
  - subst n. destruct rt; reflexivity.
  - replace (n <=? 125) with false by lia. replace (m <=? 125) with false by lia.
    rewrite !andb_false_r. cbn [andb]. reflexivity.
Qed.

Lemma exact_read_bytes cfg raw a q rt : a < 65536 -> q < 65536 ->
  client_request cfg (OpReadBytes raw a q rt) =
  if valid_op (OpReadBytes raw a q rt) then Ok (spec_pdu cfg (OpReadBytes raw a q rt)) else Err EParams.
Proof.
  intros Ha Hq. cbn [client_request]. rewrite exact_read_regs_count.
  unfold spec_pdu, valid_op. cbn [spec_payload op_count op_limit op_addr].
  replace (q / 2 + q mod 2) with ((q + 1) / 2) by lia.
  destruct rt; reflexivity.
Qed.

Lemma exact_write_coil cfg a v : a < 65536 ->
  client_request cfg (OpWriteCoil a v) =
  if valid_op (OpWriteCoil a v) then Ok (spec_pdu cfg (OpWriteCoil a v)) else Err EParams.
Proof.
  intros Ha. cbn [client_request]. open_valid V; [reflexivity|exfalso; lia].
Qed.

Lemma exact_write_reg cfg a v : a < 65536 -> v < 65536 ->
  client_request cfg (OpWriteReg a v) =
  if valid_op (OpWriteReg a v) then Ok (spec_pdu cfg (OpWriteReg a v)) else Err EParams.
Proof.
  intros Ha Hv. cbn [client_request]. open_valid V; [|exfalso; lia].
  unfold spec_pdu. cbn [spec_fc spec_payload].
  rewrite <- u16_layout_any by exact Hv. reflexivity.
Qed.

Lemma exact_write_coils cfg a vs : a < 65536 ->
  client_request cfg (OpWriteCoils a vs) =
  if valid_op (OpWriteCoils a vs) then Ok (spec_pdu cfg (OpWriteCoils a vs)) else Err EParams.
Proof.
  intros Ha. cbn [client_request]. unfold spec_pdu. cbn [spec_fc spec_payload].
  rewrite encode_bools_lenN, <- encode_bools_spec.
  unfold_valid. remember (lenN vs) as n eqn:Hn. clear Hn.
  case_valid V.
  - reject (1968 <? n) E0. unfold u16. rewrite (N.mod_small n 65536) by lia.
    reject (n =? 0) E1. reject (1968 <? n) E2. reject (65535 <? a + n - 1) E3.
    unfold u8. rewrite (N.mod_small ((n + 7) / 8) 256) by lia. reflexivity.
  - reject (1968 <? n) E0. unfold u16. rewrite (N.mod_small n 65536) by lia.
    reject (n =? 0) E1. reject (1968 <? n) E2. reject (65535 <? a + n - 1) E3.
    exfalso; lia.
Qed.

(* writeRegisters on an image of L = 2 * c bytes *)
Lemma exact_write_image cfg a bytes c : a < 65536 -> lenN bytes = 2 * c ->
  req_write_regs cfg a bytes =
  if (1 <=? c) && (c <=? 123) && (a + c - 1 <=? 65535)
  then Ok (mkpdu (c_unit cfg) 16 (be16 a ++ be16 c ++ [2 * c] ++ bytes))
  else Err EParams.
Proof.
  intros Ha HL. unfold req_write_regs. rewrite HL.
  destruct (1 <=? c) eqn:V1; destruct (c <=? 123) eqn:V2;
    destruct (a + c - 1 <=? 65535) eqn:V3; cbn [andb];
    reject (246 <? 2 * c) E0; unfold u16, u8;
    rewrite (N.mod_small (2 * c) 65536) by lia;
    replace (2 * c / 2) with c by lia;
    reject (c =? 0) E1; reject (123 <? c) E2; reject (65535 <? a + c - 1) E3;
    try (exfalso; lia).
  rewrite (N.mod_small (2 * c) 256) by lia. reflexivity.
Qed.

Lemma exact_write_regs cfg w a vs : (w = 1 \/ w = 2 \/ w = 4) -> a < 65536 ->
  Forall (fun v => v < 2 ^ (16 * w)) vs ->
  client_request cfg (OpWriteRegs w a vs) =
  if valid_op (OpWriteRegs w a vs) then Ok (spec_pdu cfg (OpWriteRegs w a vs)) else Err EParams.
Proof.
  intros Hw Ha Hvs. cbn [client_request].
  rewrite (exact_write_image cfg a _ (w * lenN vs) Ha)
    by (rewrite enc_values_len by exact Hw; lia).
  rewrite (enc_values_spec cfg w vs Hw Hvs). reflexivity.
Qed.

Lemma exact_write_bytes cfg raw a bs : a < 65536 ->
  client_request cfg (OpWriteBytes raw a bs) =
  if valid_op (OpWriteBytes raw a bs) then Ok (spec_pdu cfg (OpWriteBytes raw a bs)) else Err EParams.
Proof.
  intros Ha. cbn [client_request].
  rewrite (exact_write_image cfg a _ ((lenN bs + 1) / 2) Ha) by apply image_len.
  rewrite image_spec. reflexivity.
Qed.

Lemma client_request_exact : forall cfg o, op_wf o ->
  client_request cfg o = if valid_op o then Ok (spec_pdu cfg o) else Err EParams.
Proof.
  intros cfg o Hwf. destruct o as [di a q|w a q rt|raw a q rt|a v|a vs|a v|w a vs|raw a bs];
    cbn [op_wf] in Hwf.
  - destruct Hwf as [Ha Hq]. apply exact_read_bools; assumption.
  - destruct Hwf as [Hw [Ha Hq]]. apply exact_read_regs; assumption.
  - destruct Hwf as [Ha Hq]. apply exact_read_bytes; assumption.
  - apply exact_write_coil; assumption.
  - apply exact_write_coils; assumption.
  - destruct Hwf as [Ha Hv]. apply exact_write_reg; assumption.
  - destruct Hwf as [Hw [Ha Hvs]]. apply exact_write_regs; assumption.
  - destruct Hwf as [Ha Hbs]. apply exact_write_bytes; assumption.
Qed.

(* ------------------------------------------------------------- the frame *)

Lemma ok_inj {A} (a b : A) : Ok a = Ok b -> a = b.
Proof. intros H. injection H as H. exact H. Qed.

(* every byte of a request the model builds is a byte *)
Lemma req_write_regs_bytes cfg a bytes p : bytesb bytes = true ->
  req_write_regs cfg a bytes = Ok p ->
  p_unit p = c_unit cfg /\ p_fc p < 256 /\ bytesb (p_payload p) = true.
Proof.
  intros Hb. unfold req_write_regs.
  destruct (246 <? lenN bytes); [discriminate|].
  destruct (u16 (lenN bytes) / 2 =? 0); [discriminate|].
  destruct (123 <? u16 (lenN bytes) / 2); [discriminate|].
  destruct (65535 <? a + u16 (lenN bytes) / 2 - 1); [discriminate|].
  intros H. apply ok_inj in H; subst p. cbv [p_unit p_fc p_payload].
  split; [reflexivity|]. split; [lia|].
  rewrite !bytesb_app, !be16_bytes, Hb. unfold bytesb, is_byte, u8. cbn [forallb andb]. lia.
Qed.

Lemma req_read_regs_bytes cfg a n rt p :
  req_read_regs cfg a n rt = Ok p ->
  p_unit p = c_unit cfg /\ p_fc p < 256 /\ bytesb (p_payload p) = true.
Proof.
  unfold req_read_regs.
  destruct rt; try discriminate;
    (destruct (n =? 0); [discriminate|]; destruct (125 <? n); [discriminate|];
     destruct (65535 <? a + n - 1); [discriminate|];
     intros H; apply ok_inj in H; subst p; cbv [p_unit p_fc p_payload];
     split; [reflexivity|]; split; [lia|];
     rewrite bytesb_app, !be16_bytes; reflexivity).
Qed.

Lemma client_request_bytes cfg o p : op_wf o ->
  client_request cfg o = Ok p ->
  p_unit p = c_unit cfg /\ p_fc p < 256 /\ bytesb (p_payload p) = true.
Proof.
  intros Hwf. destruct o as [di a q|w a q rt|raw a q rt|a v|a vs|a v|w a vs|raw a bs];
    cbn [op_wf client_request] in *.
  - unfold req_read_bools.
    destruct (q =? 0); [discriminate|]. destruct (2000 <? q); [discriminate|].
    destruct (65535 <? a + q - 1); [discriminate|].
    intros H; apply ok_inj in H; subst p; cbv [p_unit p_fc p_payload].
    split; [reflexivity|]. split; [destruct di; lia|].
    rewrite bytesb_app, !be16_bytes; reflexivity.
  - apply req_read_regs_bytes.
  - apply req_read_regs_bytes.
  - intros H; apply ok_inj in H; subst p; cbv [p_unit p_fc p_payload].
    split; [reflexivity|]. split; [lia|].
    rewrite bytesb_app, be16_bytes. destruct v; reflexivity.
  - destruct (1968 <? lenN vs); [discriminate|].
    destruct (u16 (lenN vs) =? 0); [discriminate|].
    destruct (1968 <? u16 (lenN vs)); [discriminate|].
    destruct (65535 <? a + u16 (lenN vs) - 1); [discriminate|].
    intros H; apply ok_inj in H; subst p; cbv [p_unit p_fc p_payload].
    split; [reflexivity|]. split; [lia|].
    rewrite !bytesb_app, !be16_bytes, encode_bools_bytes.
    unfold bytesb, is_byte, u8. cbn [forallb andb]. lia.
  - intros H; apply ok_inj in H; subst p; cbv [p_unit p_fc p_payload].
    split; [reflexivity|]. split; [lia|].
    rewrite bytesb_app, be16_bytes, u16_to_bytes_bytes. reflexivity.
  - apply req_write_regs_bytes. apply enc_values_bytes.
  - apply req_write_regs_bytes. apply image_bytes. apply Hwf.
Qed.

Lemma rtu_frame_spec p : p_unit p < 256 -> p_fc p < 256 -> bytesb (p_payload p) = true ->
  assemble_rtu p = spec_frame FRtu 0 p.
Proof.
  intros Hu Hf Hp. unfold assemble_rtu, spec_frame. cbv zeta.
  remember ([p_unit p; p_fc p] ++ p_payload p) as body eqn:Hbody.
  assert (Hb : bytesb body = true).
  { subst body. rewrite bytesb_app, Hp. unfold bytesb, is_byte. cbn [forallb andb]. lia. }
  f_equal. unfold crc_bytes, crc_value, le16.
  rewrite <- (crc16_is_ref body Hb). pose proof (crc16_word body Hb) as Hw.
  f_equal. f_equal. lia.
Qed.

Lemma mbap_frame_spec txn p : assemble_mbap txn p = spec_frame FMbap txn p.
Proof. unfold assemble_mbap, spec_frame. rewrite be16_u16. reflexivity. Qed.

Lemma transport_writes fr txn req e s r w rest t' :
  p_unit req < 256 -> p_fc req < 256 -> bytesb (p_payload req) = true ->
  transport_exchange fr txn req e s = (r, w, rest, t') ->
  w = [spec_frame fr (u16 (txn + 1)) req].
Proof.
  intros Hu Hf Hp. unfold transport_exchange. destruct fr.
  - destruct (mbap_read_response (S (length s)) e (u16 (txn + 1)) s) as [r0 rest0].
    intros H. injection H as _ <- _ _. rewrite mbap_frame_spec. reflexivity.
  - destruct (rtu_read_response e s) as [r0 rest0].
    intros H. injection H as _ <- _ _. rewrite (rtu_frame_spec req Hu Hf Hp). reflexivity.
Qed.

Lemma client_transmit : forall fr cfg txn o e s,
  op_wf o -> cfg_wf cfg -> txn < 65536 ->
  let r := client_call fr cfg txn o e s in
  (valid_op o = true -> cr_writes r = [spec_frame fr (u16 (txn + 1)) (spec_pdu cfg o)]) /\
  (valid_op o = false -> cr_writes r = [] /\ cr_res r = Err EParams /\ cr_rest r = s).
Proof.
  intros fr cfg txn o e s Hwf Hcfg Htxn r. subst r. unfold client_call.
  pose proof (client_request_bytes cfg o (spec_pdu cfg o) Hwf) as Hb.
  rewrite (client_request_exact cfg o Hwf) in *.
  destruct (valid_op o) eqn:V; split; intros HV; try discriminate HV.
  - destruct (Hb eq_refl) as [Hu [Hf Hp]]. unfold cfg_wf in Hcfg. rewrite <- Hu in Hcfg.
    destruct (transport_exchange fr txn (spec_pdu cfg o) e s) as [[[r0 w] rest] t'] eqn:TE.
    apply (transport_writes fr txn _ e s r0 w rest t' Hcfg Hf Hp) in TE. subst w.
    destruct r0 as [res|x| |]; try reflexivity.
    destruct (unit_check (spec_pdu cfg o) res); reflexivity.
  - cbn [cr_writes cr_res cr_rest]. repeat split; reflexivity.
Qed.
