(* serial.go (serialPortWrapper) as translated from the Go source
   (Gen/SrcPure.v) computes the wrapper model of Model/Transport.v
   ([t_serial_read]) on every world; then the same inside the linked program,
   and two readings of the model: after the deadline nothing is read, and the
   short timeout of the driver is masked. *)
From Coq Require Import List NArith String Lia Bool.
From Coq Require Import ZifyBool ZifyNat ZifyN.
Import ListNotations.
From Modbus Require Import Base.Bytes Model.GoLite Gen.SrcPure Model.Wire Model.Transport.
From Modbus Require Import Proofs.GoLiteP Proofs.GoLiteLinkP Proofs.SrcCrcP Proofs.SrcMiscP Proofs.SrcClientP
  Proofs.SrcTransportP Proofs.SrcWrapP Proofs.SrcWrapRunP.
Open Scope string_scope.
Open Scope N_scope.
Ltac Zify.zify_post_hook ::= Z.div_mod_to_equations.

(* ---------------------------------------------------------------- the one-call wrappers *)

Lemma run_serial_Write fe fuel T deadline buf w : port_hyp fe T ->
  run_fn ge fe fuel src_fn_serialPortWrapper_Write [VN deadline; vbytes buf; w] = out_serial_write T deadline buf w.
Proof.
  intros (_ & _ & Hwr & _).
  unfold run_fn, src_fn_serialPortWrapper_Write, out_serial_write.
  gl_step. rewrite Hwr.
  destruct (t_write T w buf) as [[w1 n] e].
  gl_step. reflexivity.
Qed.

Lemma run_serial_SetDeadline fe fuel deadline d w :
  run_fn ge fe fuel src_fn_serialPortWrapper_SetDeadline [VN deadline; VN d; w] = out_serial_setdl d w.
Proof.
  unfold run_fn, src_fn_serialPortWrapper_SetDeadline, out_serial_setdl.
  gl_step. reflexivity.
Qed.

Lemma run_serial_Close fe fuel T deadline w : port_hyp fe T ->
  run_fn ge fe fuel src_fn_serialPortWrapper_Close [VN deadline; w] = out_serial_close T deadline w.
Proof.
  intros (_ & _ & _ & Hcl).
  unfold run_fn, src_fn_serialPortWrapper_Close, out_serial_close.
  gl_step. rewrite Hcl. gl_step. reflexivity.
Qed.

(* ---------------------------------------------------------------- serialPortWrapper.Read *)

Local Ltac gl_more :=
  repeat (progress (gl_step;
                    cbn [compare_v compare_n arith wrap negb andb orb ofail Bool.eqb vbytes];
                    gl_consts)).

Definition serial_read_body : stmt :=
  SSeq (SSeq (SCall "time.Now" (ECons (EVar 2) (ENil)) [LVar 2; LVar 5])
             (SIf (ECmp CGt (EVar 5) (EVar 0))
                  (SSeq (SSet (LVar 4) (EN 4)) (SReturn (ENil)))
                  (SSkip)))
       (SSeq (SSeq (SCall "port.Read" (ECons (EVar 2) (ECons (EBin OSub (U 64) (ELen (EVar 1)) (EN 0)) (ENil)))
                          [LVar 2; LVar 6; LVar 4])
                   (SSeq (SSet (LVar 1) (splice_e 1 6)) (SSet (LVar 3) (ELen (EVar 6)))))
             (SSeq (SIf (EAndAlso (ECmp CNe (EVar 4) (EN 0)) (ECmp CEq (EVar 4) (EN 23)))
                        (SSet (LVar 4) (EN 0))
                        (SSkip))
                   (SReturn (ENil)))).

Lemma serial_read_body_eq : f_body src_fn_serialPortWrapper_Read = serial_read_body.
Proof. reflexivity. Qed.

Lemma src_timedout_eq : c_timedout src_codes = 4.
Proof. vm_compute. reflexivity. Qed.

Lemma src_ser_tmo_eq : src_ser_tmo = 23.
Proof. vm_compute. reflexivity. Qed.

Lemma run_serial_Read fe fuel T deadline buf w : port_hyp fe T -> tread_wf T -> lenN buf < 2 ^ 32 ->
  run_fn ge fe fuel src_fn_serialPortWrapper_Read [VN deadline; vbytes buf; w] = out_serial_read T deadline buf w.
Proof.
  intros (Hnow & Hrd & _) Hwf Hlen.
  unfold run_fn. rewrite serial_read_body_eq.
  unfold src_fn_serialPortWrapper_Read, out_serial_read, t_serial_read, serial_read_body.
  rewrite src_timedout_eq, src_ser_tmo_eq.
  assert (H64 : lenN buf < 18446744073709551616) by (change (2 ^ 32) with 4294967296 in Hlen; lia).
  gl_step. rewrite Hnow.
  destruct (t_now T w) as [w0 now].
  cbn [fst snd].
  gl_more.
  destruct (deadline <? now) eqn:Ed.
  - (* after the deadline *)
    gl_more. reflexivity.
  - (* the port is read *)
    gl_more. rewrite map_length.
    change (2 ^ 64) with 18446744073709551616.
    replace ((N.of_nat (List.length buf) + 18446744073709551616 - 0 mod 18446744073709551616) mod 18446744073709551616)
      with (lenN buf) by (unfold lenN in *; lia).
    rewrite Hrd.
    pose proof (Hwf w0 (lenN buf)) as Hw.
    destruct (t_readfull T w0 (lenN buf)) as [[w1 got] e].
    destruct Hw as [Hby Hle].
    gl_step.
    erewrite eval_splice; [|reflexivity|reflexivity|exact Hle|exact H64].
    gl_more. rewrite map_length.
    destruct (e =? 0) eqn:E0; gl_more; [reflexivity|].
    destruct (e =? 23) eqn:E23; gl_more; reflexivity.
Qed.

(* ---------------------------------------------------------------- inside the linked program *)

(* [port_hyp] only looks at four names of the environment *)
Lemma port_hyp_ext (fe fe' : fenv) T :
  (forall a, fe' "time.Now" a = fe "time.Now" a) ->
  (forall a, fe' "port.Read" a = fe "port.Read" a) ->
  (forall a, fe' "port.Write" a = fe "port.Write" a) ->
  (forall a, fe' "port.Close" a = fe "port.Close" a) ->
  port_hyp fe T -> port_hyp fe' T.
Proof.
  intros E1 E2 E3 E4 (H1 & H2 & H3 & H4).
  unfold port_hyp. repeat split; intros.
  - rewrite E1. apply H1.
  - rewrite E2. apply H2.
  - rewrite E3. apply H3.
  - rewrite E4. apply H4.
Qed.

(* none of the four names is a function of the program: the caller's
   environment hands them to the base environment *)
Ltac port_env caller HT :=
  let a := fresh "a" in
  refine (port_hyp_ext _ _ _ _ _ _ _ HT); intros a;
  [ exact (env_base src_pure _ caller "time.Now" eq_refl _ a)
  | exact (env_base src_pure _ caller "port.Read" eq_refl _ a)
  | exact (env_base src_pure _ caller "port.Write" eq_refl _ a)
  | exact (env_base src_pure _ caller "port.Close" eq_refl _ a) ].

Theorem src_serial_Read_ok base fuel T deadline buf w : port_hyp base T -> tread_wf T -> lenN buf < 2 ^ 32 ->
  call_with src_pure base fuel "serialPortWrapper.Read" [VN deadline; vbytes buf; w] = out_serial_read T deadline buf w.
Proof.
  intros HT Hwf Hlen.
  link_step "serialPortWrapper.Read" src_fn_serialPortWrapper_Read.
  apply run_serial_Read; [|exact Hwf|exact Hlen].
  port_env "serialPortWrapper.Read" HT.
Qed.

Theorem src_serial_Write_ok base fuel T deadline buf w : port_hyp base T ->
  call_with src_pure base fuel "serialPortWrapper.Write" [VN deadline; vbytes buf; w] = out_serial_write T deadline buf w.
Proof.
  intros HT.
  link_step "serialPortWrapper.Write" src_fn_serialPortWrapper_Write.
  apply run_serial_Write.
  port_env "serialPortWrapper.Write" HT.
Qed.

Theorem src_serial_SetDeadline_ok base fuel deadline d w :
  call_with src_pure base fuel "serialPortWrapper.SetDeadline" [VN deadline; VN d; w] = out_serial_setdl d w.
Proof.
  link_step "serialPortWrapper.SetDeadline" src_fn_serialPortWrapper_SetDeadline.
  apply run_serial_SetDeadline.
Qed.

Theorem src_serial_Close_ok base fuel T deadline w : port_hyp base T ->
  call_with src_pure base fuel "serialPortWrapper.Close" [VN deadline; w] = out_serial_close T deadline w.
Proof.
  intros HT.
  link_step "serialPortWrapper.Close" src_fn_serialPortWrapper_Close.
  apply run_serial_Close.
  port_env "serialPortWrapper.Close" HT.
Qed.

(* ---------------------------------------------------------------- two readings of the model *)

(* nothing is read, the buffer is untouched *)
Theorem serial_read_after_deadline : forall T ct st deadline buf w, deadline < snd (t_now T w) ->
  t_serial_read T ct st deadline buf w = (buf, fst (t_now T w), 0, ct).
Proof.
  intros T ct st deadline buf w H.
  unfold t_serial_read.
  destruct (t_now T w) as [w0 now]. cbn [fst snd] in *.
  apply N.ltb_lt in H. rewrite H. reflexivity.
Qed.

(* the short timeout of the driver never reaches the caller *)
Theorem serial_read_masks_driver_timeout : forall T ct st deadline buf w, snd (t_now T w) <= deadline -> st <> 0 ->
  let '(w1, got, e) := t_readfull T (fst (t_now T w)) (lenN buf) in e = st ->
  t_serial_read T ct st deadline buf w = ((got ++ skipn (List.length got) buf)%list, w1, lenN got, 0).
Proof.
  intros T ct st deadline buf w H Hst.
  unfold t_serial_read.
  destruct (t_now T w) as [w0 now]. cbn [fst snd] in *.
  destruct (t_readfull T w0 (lenN buf)) as [[w1 got] e].
  intros ->.
  apply N.ltb_ge in H. rewrite H.
  apply N.eqb_neq in Hst. rewrite Hst, N.eqb_refl. reflexivity.
Qed.

Print Assumptions run_serial_Read.
Print Assumptions run_serial_Write.
Print Assumptions run_serial_SetDeadline.
Print Assumptions run_serial_Close.
Print Assumptions src_serial_Read_ok.
Print Assumptions src_serial_Write_ok.
Print Assumptions src_serial_SetDeadline_ok.
Print Assumptions src_serial_Close_ok.
Print Assumptions serial_read_after_deadline.
Print Assumptions serial_read_masks_driver_timeout.
