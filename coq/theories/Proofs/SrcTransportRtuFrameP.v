(* rtu_transport.go readRTUFrame as translated from the Go source
   (Gen/SrcPure.v) computes the model's t_read_rtu (Model/Transport.v), for
   every world that behaves as io.ReadFull guarantees. *)
From Coq Require Import List NArith String Lia Bool.
From Coq Require Import ZifyBool ZifyNat ZifyN.
Import ListNotations.
From Modbus Require Import Base.Bytes Model.GoLite Gen.SrcPure Model.Crc Model.Encoding.
From Modbus Require Import Model.Wire Model.Transport Replay.SrcReplayLib.
From Modbus Require Import Proofs.GoLiteP Proofs.GoLiteLinkP Proofs.SrcCrcP Proofs.SrcLinkP Proofs.SrcMiscP Proofs.SrcClientP.
From Modbus Require Import Proofs.SrcTransportP.
Open Scope string_scope.
Open Scope N_scope.

(* ---------------------------------------------------------------- helpers *)

Ltac gl_autoM :=
  repeat (progress (gl_step;
                    cbn [compare_v compare_n arith wrap negb andb orb ofail Bool.eqb
                         map nth_error app List.length];
                    gl_consts)).

Ltac gl_autoL :=
  repeat (progress (gl_step;
                    cbn [compare_v compare_n arith wrap negb andb orb ofail Bool.eqb
                         map firstn skipn nth_error app List.length];
                    gl_consts)).

Lemma expected_len_le fc b2 m : b2 < 256 -> expected_len fc b2 = Some m -> m <= 255.
Proof.
  unfold expected_len. intros Hb H.
  destruct (mem fc [3; 4; 1; 2]); [inversion H; subst; lia|].
  destruct (mem fc [6; 16; 5; 15]); [inversion H; subst; lia|].
  destruct (fc =? 22); [inversion H; subst; lia|].
  destruct (mem fc [131; 132; 129; 130; 134; 144; 133; 143; 150]); [inversion H; subst; lia|].
  discriminate H.
Qed.

Lemma sbias_small x : x < 2 ^ 63 -> sbias x = x + 2 ^ 63.
Proof.
  intros H. unfold sbias.
  change (2 ^ 63) with 9223372036854775808 in *. change (2 ^ 64) with 18446744073709551616. lia.
Qed.

Lemma sbias_ltb x y : x < 2 ^ 63 -> y < 2 ^ 63 -> (sbias x <? sbias y) = (x <? y).
Proof.
  intros Hx Hy. rewrite !sbias_small by assumption.
  change (2 ^ 63) with 9223372036854775808 in *. lia.
Qed.

Lemma sbias_eqb x y : x < 2 ^ 63 -> y < 2 ^ 63 -> (sbias x =? sbias y) = (x =? y).
Proof.
  intros Hx Hy. rewrite !sbias_small by assumption.
  change (2 ^ 63) with 9223372036854775808 in *. lia.
Qed.

Lemma mod64_small x : x < 2 ^ 63 -> x mod 2 ^ 64 = x.
Proof.
  intros H. change (2 ^ 63) with 9223372036854775808 in *. change (2 ^ 64) with 18446744073709551616. lia.
Qed.

Lemma lt63 x : x < 100000 -> x < 2 ^ 63.
Proof. intros H. change (2 ^ 63) with 9223372036854775808. lia. Qed.

Lemma split_last2 (l : list N) n : List.length l = (n + 2)%nat ->
  exists data lo hi, l = (data ++ [lo; hi])%list /\ List.length data = n.
Proof.
  intros H. exists (firstn n l).
  pose proof (firstn_skipn n l) as Hs.
  assert (Hk : List.length (skipn n l) = 2%nat) by (rewrite skipn_length; lia).
  destruct (skipn n l) as [|lo [|hi [|x r]]]; try discriminate Hk.
  exists lo, hi. split; [symmetry; exact Hs|]. rewrite firstn_length. lia.
Qed.

Lemma firstn_len_map_app (d : list N) rest n :
  n = List.length d -> firstn n (map VN d ++ rest) = map VN d.
Proof.
  intros ->. rewrite firstn_app, map_length, Nat.sub_diag. cbn [firstn].
  rewrite app_nil_r. apply firstn_all2. rewrite map_length. lia.
Qed.

Lemma nth_error_len_map_app0 (d : list N) x rest n :
  n = List.length d -> nth_error (map VN d ++ x :: rest) n = Some x.
Proof.
  intros ->. rewrite nth_error_app2 by (rewrite map_length; lia).
  rewrite map_length, Nat.sub_diag. reflexivity.
Qed.

Lemma nth_error_len_map_app1 (d : list N) x y rest n :
  n = S (List.length d) -> nth_error (map VN d ++ x :: y :: rest) n = Some y.
Proof.
  intros ->. rewrite nth_error_app2 by (rewrite map_length; lia).
  rewrite map_length. replace (S (List.length d) - List.length d)%nat with 1%nat by lia. reflexivity.
Qed.

Lemma nth_error_buf0 (a b c : val) (d : list N) x rest n :
  n = (3 + List.length d)%nat -> nth_error (a :: b :: c :: map VN d ++ x :: rest) n = Some x.
Proof. intros ->. cbn [Nat.add nth_error]. apply nth_error_len_map_app0. reflexivity. Qed.

Lemma nth_error_buf1 (a b c : val) (d : list N) x y rest n :
  n = (4 + List.length d)%nat -> nth_error (a :: b :: c :: map VN d ++ x :: y :: rest) n = Some y.
Proof.
  intros ->. change (nth_error (map VN d ++ x :: y :: rest) (S (List.length d)) = Some y).
  apply nth_error_len_map_app1. reflexivity.
Qed.

Lemma firstn_len_app {A} (d r : list A) : firstn (List.length d) (d ++ r) = d.
Proof.
  rewrite firstn_app, Nat.sub_diag. cbn [firstn]. rewrite app_nil_r. apply firstn_all.
Qed.

Lemma nth_len_app0 (d : list N) x r : nth (List.length d) (d ++ x :: r) 0 = x.
Proof. rewrite app_nth2 by lia. rewrite Nat.sub_diag. reflexivity. Qed.

Lemma nth_len_app1 (d : list N) x y r : nth (List.length d + 1) (d ++ x :: y :: r) 0 = y.
Proof.
  rewrite app_nth2 by lia. replace (List.length d + 1 - List.length d)%nat with 1%nat by lia. reflexivity.
Qed.

Lemma run_readRTUFrame fe fuel T tmo la t35 t1 w :
  tworld_hyp fe T "link" -> tworld_wf T src_codes -> erl_hyp fe -> crc_hyp fe ->
  run_fn ge fe fuel src_fn_rtuTransport_readRTUFrame [VN tmo; VN la; VN t35; VN t1; w] = out_read_rtu T tmo la t35 t1 w.
Proof.
  intros Hw Hwf Herl Hcrc.
  destruct Hw as (_ & _ & _ & _ & Hrf & _). cbn [append] in Hrf.
  destruct Hwf as [_ Hrd].
  destruct Hcrc as (Hci & Hca & Hce).
  unfold out_read_rtu, t_read_rtu.
  unfold run_fn, src_fn_rtuTransport_readRTUFrame.
  gl_autoL.
  change ((3 + 2 ^ 64 - 0 mod 2 ^ 64) mod 2 ^ 64) with 3.
  rewrite Hrf. pose proof (Hrd w 3) as H1.
  destruct (t_readfull T w 3) as [[w1 got] e1].
  change (c_ueof src_codes) with 21 in *.
  destruct H1 as (Hb1 & Hl1 & He1 & Hu1).
  unfold lenN in *.
  destruct got as [|a [|b [|c [|d got]]]]; cbn [List.length] in *; [| | | |exfalso; lia].
  - unfold vbytes. gl_autoM.
    assert (Ea : (e1 =? 0) = false) by lia. assert (Eb : (e1 =? 21) = false) by lia.
    repeat (rewrite ?Ea, ?Eb; gl_autoM). reflexivity.
  - unfold vbytes. gl_autoM. reflexivity.
  - unfold vbytes. gl_autoM. reflexivity.
  - assert (e1 = 0) by (apply He1; reflexivity). subst e1. clear He1 Hu1 Hl1.
    unfold vbytes. gl_autoM.
    assert (Hzs : List.length (firstn 253 (skipn 3 (repeat (VN 0) 256))) = 253%nat) by (vm_compute; reflexivity).
    set (zs := firstn 253 (skipn 3 (repeat (VN 0) 256))) in *. clearbody zs.
    assert (Ha : a < 256 /\ b < 256 /\ c < 256).
    { unfold bytesb, is_byte in Hb1. cbn [forallb] in Hb1. lia. }
    destruct Ha as (Ha & Hb & Hc).
    replace (b mod 2 ^ 8) with b by (change (2 ^ 8) with 256; lia).
    replace (c mod 2 ^ 8) with c by (change (2 ^ 8) with 256; lia).
    rewrite (Herl b c Hb Hc). unfold erl_expected. cbn [nth].
    destruct (expected_len b c) as [m|] eqn:Em.
    2:{ gl_autoM. reflexivity. }
    pose proof (expected_len_le b c m Hc Em) as Hm.
    gl_autoM.
    rewrite (mod64_small (m + 2)) by (apply lt63; lia).
    rewrite (mod64_small (3 + (m + 2))) by (apply lt63; lia).
    rewrite sbias_ltb by (apply lt63; lia).
    destruct (256 <? 3 + (m + 2)) eqn:E256.
    { gl_autoM. reflexivity. }
    gl_autoM.
    replace (((3 + (m + 2)) mod 2 ^ 64 + 2 ^ 64 - 3 mod 2 ^ 64) mod 2 ^ 64) with (m + 2)
      by (change (2 ^ 64) with 18446744073709551616; lia).
    rewrite Hrf. pose proof (Hrd w1 (m + 2)) as H2. cbv zeta.
    destruct (t_readfull T w1 (m + 2)) as [[w2 body] e2].
    destruct H2 as (Hb2 & Hl2 & He2 & Hu2).
    unfold vbytes. gl_autoM.
    rewrite Hzs, !map_length.
    rewrite (mod64_small (3 + N.of_nat (List.length body))) by (apply lt63; lia).
    gl_autoM.
    replace (3 + N.of_nat (List.length body) <=? 256) with true by lia.
    gl_autoM.
    set (tl := firstn _ (skipn _ (VN a :: VN b :: VN c :: zs))). clearbody tl.
    rewrite !map_length. unfold lenN.
    destruct (e2 =? 0) eqn:E20; gl_autoM.
    2:{ destruct (e2 =? 21) eqn:E21; gl_autoM; [|reflexivity].
        rewrite sbias_eqb by (apply lt63; lia).
        replace (N.of_nat (List.length body) =? m + 2) with false by lia.
        gl_autoM. reflexivity. }
    assert (Hlen : N.of_nat (List.length body) = m + 2) by (apply He2; lia).
    apply N.eqb_eq in E20. subst e2.
    rewrite sbias_eqb by (apply lt63; lia).
    rewrite Hlen. rewrite N.eqb_refl. gl_autoM.
    destruct (split_last2 body (N.to_nat m)) as (data & lo & hi & -> & Hdata); [lia|].
    clear Hlen Hl2 He2 Hu2.
    rewrite map_app, <- app_assoc. cbn [map app].
    rewrite Hci. gl_autoM.
    assert (Hlb : N.of_nat (S (S (S (List.length (map VN data ++ VN lo :: VN hi :: tl))))) =
                  m + 5 + N.of_nat (List.length tl)).
    { rewrite app_length, map_length. cbn [List.length]. lia. }
    rewrite Hlb.
    replace (((3 + (m + 2)) mod 2 ^ 64 + 2 ^ 64 - 2 mod 2 ^ 64) mod 2 ^ 64) with (m + 3)
      by (change (2 ^ 64) with 18446744073709551616; lia).
    replace (0 <=? m + 3) with true by lia.
    replace (m + 3 <=? m + 5 + N.of_nat (List.length tl)) with true by lia.
    replace (N.to_nat (m + 3 - 0)) with (S (S (S (List.length data)))) by lia.
    cbn [firstn andb]. rewrite (firstn_len_map_app data _ _ eq_refl).
    change (VL (VN a :: VN b :: VN c :: map VN data)) with (vbytes (a :: b :: c :: data)).
    assert (Hbd : bytesb data = true /\ lo < 256 /\ hi < 256).
    { rewrite bytesb_app in Hb2. apply andb_true_iff in Hb2. destruct Hb2 as [Hbd Hb3].
      unfold bytesb, is_byte in Hb3. cbn [forallb] in Hb3. split; [exact Hbd|lia]. }
    destruct Hbd as (Hbd & Hlo & Hhi).
    gl_autoM.
    rewrite Hca.
    2:{ change (a :: b :: c :: data) with ([a; b; c] ++ data)%list. rewrite bytesb_app, Hb1, Hbd. reflexivity. }
    gl_autoM.
    rewrite (nth_error_buf0 _ _ _ data (VN lo)) by (change (2 ^ 64) with 18446744073709551616; lia).
    rewrite (nth_error_buf1 _ _ _ data (VN lo) (VN hi)) by (change (2 ^ 64) with 18446744073709551616; lia).
    gl_autoM. rewrite Hce. gl_autoM.
    rewrite <- Hdata. rewrite firstn_len_app, nth_len_app0, nth_len_app1.
    unfold crc16. cbn [app].
    destruct (crc_is_equal (crc_from crc_init (a :: b :: c :: data)) lo hi); gl_autoM; [|reflexivity].
    rewrite Hlb.
    replace (((3 + (m + 2)) mod 2 ^ 64 + 2 ^ 64 - 2 mod 2 ^ 64) mod 2 ^ 64) with (m + 3)
      by (change (2 ^ 64) with 18446744073709551616; lia).
    replace (2 <=? m + 3) with true by lia.
    replace (m + 3 <=? m + 5 + N.of_nat (List.length tl)) with true by lia.
    replace (N.to_nat (m + 3 - 2)) with (S (List.length data)) by lia.
    cbn [firstn andb]. rewrite (firstn_len_map_app data _ _ eq_refl).
    gl_autoM. reflexivity.
Qed.

Print Assumptions run_readRTUFrame.
