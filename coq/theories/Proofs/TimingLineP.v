(* Proofs about Model/TimingLine.v: the delays of a client opened on a serial
   device are the eleven-bit delays of the specification for every framing of
   the line; the send-time machine run with them keeps the silence; the
   one-sided measurement of the correspondence check can never fail such a
   client; and delays derived from the real length of a character shorter
   than eleven bits would be strictly too short below 19200 bps. *)
From Modbus Require Import Base.Bytes Model.Timing Model.TimingLine Spec.TimingSpec Proofs.TimingP.
From Coq Require Import ZifyBool ZifyNat ZifyN.
Ltac Zify.zify_post_hook ::= Z.div_mod_to_equations.
Local Open Scope Z_scope.

Lemma open_timing_spec : forall c, 1 <= lc_speed c -> lc_speed c <= 10000000 ->
  char_time_ok (lc_speed c) (open_t1 c) /\ t35_ok (lc_speed c) (open_t1 c) (open_t35 c).
Proof.
  intros c H1 H2. unfold open_t1, open_t35. split.
  - apply char_time_spec_range; assumption.
  - apply t35_spec_range; assumption.
Qed.

Lemma open_timing_okb : forall c, 1 <= lc_speed c -> lc_speed c <= 10000000 ->
  timing_okb (lc_speed c) (open_t1 c) (open_t35 c) = true.
Proof. intros c H1 H2. apply timing_okb_sound. apply open_timing_spec; assumption. Qed.

Lemma open_timing_speed_only : forall c c', lc_speed c = lc_speed c' ->
  open_t1 c = open_t1 c' /\ open_t35 c = open_t35 c'.
Proof. intros c c' H. unfold open_t1, open_t35. rewrite H. split; reflexivity. Qed.

Lemma open_timing_any_framing : forall r d p s d' p' s',
  open_t1 (mk_line_cfg r d p s) = open_t1 (mk_line_cfg r d' p' s') /\
  open_t35 (mk_line_cfg r d p s) = open_t35 (mk_line_cfg r d' p' s') /\
  open_t1 (mk_line_cfg r d p s) = char_time r /\ open_t35 (mk_line_cfg r d p s) = t35 r.
Proof. intros. repeat split; reflexivity. Qed.

Lemma silence_okb_iff : forall c gap, silence_okb c gap = true <-> t35 (lc_speed c) <= gap.
Proof. intros c gap. unfold silence_okb, open_t35. rewrite Z.leb_le. reflexivity. Qed.

(* the send-time machine with the delays of an opened serial client *)
Lemma open_silence : forall c xs s i j e1 e2 f,
  1 <= lc_speed c -> lc_speed c <= 10000000 -> Forall admissible xs -> (i < j)%nat ->
  nth_error (run (open_t1 c) (open_t35 c) s xs) i = Some e1 ->
  nth_error (run (open_t1 c) (open_t35 c) s xs) j = Some e2 ->
  frame_end e1 = Some f -> f + open_t35 c <= ev_tx_start e2.
Proof.
  intros c xs s i j e1 e2 f H1 H2 Hadm Hij Hi Hj Hf. unfold open_t1, open_t35 in *.
  eapply run_silence_rate; eassumption.
Qed.

(* the measurement: [before] is an instant not later than the end of the
   frame, [arrive] an instant not earlier than the start of the transmission *)
Lemma open_measurement_sound : forall c xs s i j e1 e2 f before arrive,
  1 <= lc_speed c -> lc_speed c <= 10000000 -> Forall admissible xs -> (i < j)%nat ->
  nth_error (run (open_t1 c) (open_t35 c) s xs) i = Some e1 ->
  nth_error (run (open_t1 c) (open_t35 c) s xs) j = Some e2 ->
  frame_end e1 = Some f -> before <= f -> ev_tx_start e2 <= arrive ->
  silence_okb c (arrive - before) = true.
Proof.
  intros c xs s i j e1 e2 f before arrive H1 H2 Hadm Hij Hi Hj Hf Hb Ha.
  pose proof (open_silence c xs s i j e1 e2 f H1 H2 Hadm Hij Hi Hj Hf) as H.
  apply silence_okb_iff. unfold open_t35 in H. lia.
Qed.

(* ------------------------------------------------- why the framing matters *)

(* delays computed from the real length of a character on the line: what the
   specification does NOT ask for *)
Definition framed_char_time (c : line_cfg) : Z := Z.quot (line_char_bits c * second_ns) (lc_speed c).
Definition framed_t35 (c : line_cfg) : Z := Z.quot (framed_char_time c * 35) 10.

Lemma framed_short : forall c, 1 <= lc_speed c -> lc_speed c < 19200 ->
  0 <= line_char_bits c -> line_char_bits c < 11 ->
  framed_char_time c < open_t1 c /\ framed_t35 c < open_t35 c /\
  silence_okb c (framed_t35 c) = false.
Proof.
  intros c H1 H2 Hb0 Hb.
  assert (Hct : framed_char_time c < open_t1 c).
  { unfold framed_char_time, open_t1, second_ns.
    rewrite char_time_div by lia.
    rewrite Z.quot_div_nonneg by lia.
    remember (lc_speed c) as r. remember (line_char_bits c) as b.
    pose proof (Z.mul_div_le (b * 1000000000) r ltac:(lia)) as Hlo.
    pose proof (Z.mul_succ_div_gt (11 * 1000000000) r ltac:(lia)) as Hhi.
    assert (Hpos : 0 <= b * 1000000000 / r) by (apply Z.div_pos; lia).
    nia. }
  assert (H0 : 0 <= framed_char_time c).
  { unfold framed_char_time, second_ns. rewrite Z.quot_div_nonneg by lia. apply Z.div_pos; lia. }
  assert (Ht : framed_t35 c < open_t35 c).
  { unfold framed_t35, open_t35. rewrite t35_low_div by lia.
    rewrite Z.quot_div_nonneg by lia. unfold open_t1 in Hct. lia. }
  repeat split; try assumption.
  unfold silence_okb. apply Z.leb_gt. exact Ht.
Qed.
