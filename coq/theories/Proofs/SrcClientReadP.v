From Coq Require Import List NArith String Lia Bool.
From Coq Require Import ZifyBool ZifyNat ZifyN.
Import ListNotations.
From Modbus Require Import Base.Bytes Model.GoLite Gen.SrcPure Model.Crc Model.Encoding.
From Modbus Require Import Model.Wire Model.Client.
From Modbus Require Import Proofs.GoLiteP Proofs.GoLiteLinkP Proofs.SrcCrcP Proofs.SrcLinkP Proofs.SrcMiscP Proofs.SrcClientP.
Open Scope string_scope.
Open Scope N_scope.

(* client.go, the read side, as translated from the Go source (Gen/SrcPure.v)
   against the client model: readBools, readRegisters and the four public bit
   readers ReadCoils / ReadDiscreteInputs / ReadCoil / ReadDiscreteInput.
   executeRequest is the exchange [X] of Proofs/SrcClientP.v; the other callees
   (uint16ToBytes, mapExceptionCodeToError, decodeBools, readBools) are
   hypotheses on the function environment. *)

(* uint32(addr) + uint32(quantity) - 1 > 0xffff *)
Lemma end_addr_cmp a q : a < 65536 -> q < 65536 -> q <> 0 ->
  (65535 <? ((a mod 2 ^ 32 + q mod 2 ^ 32) mod 2 ^ 32 + 2 ^ 32 - 1 mod 2 ^ 32) mod 2 ^ 32) =
  (65535 <? a + q - 1).
Proof.
  intros Ha Hq Hn. change (2 ^ 32) with 4294967296. lia.
Qed.

Lemma lt63_small x : x < 2 ^ 32 -> (x <? 2 ^ 63) = true.
Proof. change (2 ^ 32) with 4294967296. change (2 ^ 63) with 9223372036854775808. lia. Qed.

(* the checks of Go's int arithmetic on small numbers *)
Ltac ok63 :=
  repeat match goal with
  | |- context [?x <? 2 ^ 63] =>
      rewrite (lt63_small x) by (change (2 ^ 32) with 4294967296; lia)
  end.

Lemma bytesb_cons b l : bytesb (b :: l) = true -> b < 256 /\ bytesb l = true.
Proof.
  unfold bytesb. cbn [forallb]. unfold is_byte at 1. intros H.
  apply andb_true_iff in H as [H1 H2]. split; [lia|exact H2].
Qed.

(* the code's expectedLen against the model's 1 + bool_bytes q *)
Lemma expected_len q :
  1 + bool_bytes q = if q mod 8 =? 0 then 1 + q / 8 else 1 + q / 8 + 1.
Proof. unfold bool_bytes. destruct (q mod 8 =? 0); lia. Qed.

(* res.payload[1:] *)
Lemma slice_tail (v : val) (l : list val) :
  (if (1 <=? N.of_nat (S (List.length l))) &&
      (N.of_nat (S (List.length l)) <=? N.of_nat (S (List.length l)))
   then GOk (VL (firstn (N.to_nat (N.of_nat (S (List.length l)) - 1)) (skipn 1 (v :: l))))
   else GoLite.Panic) = GOk (VL l).
Proof.
  replace ((1 <=? N.of_nat (S (List.length l))) &&
           (N.of_nat (S (List.length l)) <=? N.of_nat (S (List.length l)))) with true by lia.
  cbn [skipn].
  replace (N.to_nat (N.of_nat (S (List.length l)) - 1)) with (List.length l) by lia.
  rewrite firstn_all. reflexivity.
Qed.

(* the reply carries the request's function code: length, byte count, decodeBools *)
Ltac rb_normal Hd Hwf rp :=
  destruct (lenN rp =? _) eqn:El; gl_auto; [|reflexivity];
  destruct rp as [|bc data]; [exfalso; unfold lenN in El; cbn [List.length] in El; lia|];
  apply bytesb_cons in Hwf as [Hbc Hdata]; cbn [map nth_error]; gl_auto; ok63; gl_auto; ok63; gl_auto;
  destruct (bc + 1 =? _) eqn:Eb; gl_auto; [|reflexivity];
  rewrite slice_tail; gl_auto; fold (vbytes data); rewrite (Hd data Hdata);
  match goal with |- context [decode_bools ?n data] => destruct (decode_bools n data) as [r|] end;
  gl_auto; reflexivity.

(* the reply carries another function code: an exception reply of one byte, or a protocol error *)
Ltac rd_exception He Hwf rp :=
  unfold exception_or_protocol; cbn [p_fc p_payload];
  destruct (_ =? N.lor _ 128) eqn:Ex; gl_auto; [|reflexivity];
  destruct rp as [|c [|c2 rest]]; cbn [map List.length nth_error]; gl_auto;
  [ reflexivity
  | apply bytesb_cons in Hwf as [Hc _]; rewrite (He c Hc); gl_auto;
    rewrite err_value_exc_err; reflexivity
  | replace (N.of_nat (S (S (List.length (map VN rest)))) =? 1) with false by lia; gl_auto; reflexivity ].

(* decodeBools is only needed at the quantity of the call *)
Lemma run_readBools_at fe fuel cfg tt X a q di :
  exec_hyp fe X -> u16tb_hyp fe -> excmap_hyp fe ->
  (forall bs, bytesb bs = true ->
     fe "decodeBools" [VN q; vbytes bs] =
     match decode_bools (N.to_nat q) bs with Some r => GOk [vbools r] | None => GoLite.Panic end) ->
  a < 65536 -> q < 65536 ->
  run_fn ge fe fuel src_fn_ModbusClient_readBools (mc_fields cfg tt ++ [VN a; VN q; VB di])%list =
  out_vals (mc_fields cfg tt) (call_out cfg (OpReadBools di a q) X).
Proof.
  intros Hx Hu He Hd Ha Hq.
  pose proof (Hu BigE a) as Hua. pose proof (Hu BigE q) as Huq.
  rewrite be16_u16_to_bytes in Hua, Huq. cbn [endian_sel vbytes be16 map] in Hua, Huq.
  unfold call_out, client_request, req_read_bools.
  unfold run_fn, src_fn_ModbusClient_readBools, mc_fields.
  gl_auto.
  destruct (q =? 0) eqn:Eq0; gl_auto; [reflexivity|].
  destruct (2000 <? q) eqn:Eq1; gl_auto; [reflexivity|].
  rewrite end_addr_cmp by lia.
  destruct (65535 <? a + q - 1) eqn:Eq2; gl_auto; [reflexivity|].
  destruct (Hx cfg tt (mkpdu (c_unit cfg) (if di then 2 else 1) (be16 a ++ be16 q))) as [Hxe Hwf].
  unfold vbytes, be16, mc_fields in Hxe, Hwf. cbn [p_unit p_fc p_payload map app] in Hxe, Hwf.
  destruct di;
    (gl_auto; rewrite Hua; gl_auto; rewrite Huq; unfold vbytes, be16; cbn [map]; gl_auto;
     rewrite Hxe; clear Hxe;
     destruct (X _) as [[ru rf rp]|c rnil ru rf rp];
     cbn [enc_reply treply_wf p_unit p_fc p_payload client_validate] in *; gl_auto;
     [ rewrite expected_len; unfold vbytes;
       destruct (rf =? _) eqn:Ef;
       [ ok63; gl_auto; ok63; gl_auto;
         destruct (q mod 8 =? 0) eqn:Em; gl_auto; rewrite ?Em; gl_auto; ok63; gl_auto;
         rewrite map_length; fold (lenN rp); rb_normal Hd Hwf rp
       | rd_exception He Hwf rp ]
     | replace (c =? 0) with false by lia; gl_auto; reflexivity ]).
Qed.

Lemma run_readBools fe fuel cfg tt X a q di :
  exec_hyp fe X -> u16tb_hyp fe -> excmap_hyp fe ->
  (forall q bs, q < 65536 -> bytesb bs = true ->
     fe "decodeBools" [VN q; vbytes bs] =
     match decode_bools (N.to_nat q) bs with Some r => GOk [vbools r] | None => GoLite.Panic end) ->
  a < 65536 -> q < 65536 ->
  run_fn ge fe fuel src_fn_ModbusClient_readBools (mc_fields cfg tt ++ [VN a; VN q; VB di])%list =
  out_vals (mc_fields cfg tt) (call_out cfg (OpReadBools di a q) X).
Proof.
  intros Hx Hu He Hd Ha Hq. apply run_readBools_at; try assumption.
  intros bs Hbs. apply Hd; assumption.
Qed.

Lemma mod64_small x : x < 2 ^ 32 -> x mod 2 ^ 64 = x.
Proof.
  change (2 ^ 32) with 4294967296. change (2 ^ 64) with 18446744073709551616. intros H.
  apply N.mod_small. lia.
Qed.

Lemma lenN_cons_map (b : N) (l : list N) :
  lenN (b :: l) = N.of_nat (S (List.length (map VN l))).
Proof. unfold lenN. cbn [List.length]. rewrite map_length. reflexivity. Qed.

Lemma run_readRegisters fe fuel cfg tt X a q rtn rt :
  exec_hyp fe X -> u16tb_hyp fe -> excmap_hyp fe ->
  a < 65536 -> q < 65536 -> regtype_sel rt rtn ->
  run_fn ge fe fuel src_fn_ModbusClient_readRegisters (mc_fields cfg tt ++ [VN a; VN q; VN rtn])%list =
  out_vals (mc_fields cfg tt) (rr_out cfg a q rt X).
Proof.
  intros Hx Hu He Ha Hq Hrt.
  pose proof (Hu BigE a) as Hua. pose proof (Hu BigE q) as Huq.
  rewrite be16_u16_to_bytes in Hua, Huq. cbn [endian_sel vbytes be16 map] in Hua, Huq.
  unfold rr_out, req_read_regs.
  unfold run_fn, src_fn_ModbusClient_readRegisters, mc_fields.
  gl_auto.
  destruct (Hx cfg tt (mkpdu (c_unit cfg) (match rt with Holding => 3 | _ => 4 end) (be16 a ++ be16 q)))
    as [Hxe Hwf].
  unfold vbytes, be16, mc_fields in Hxe, Hwf. cbn [p_unit p_fc p_payload map app] in Hxe, Hwf.
  destruct rt; cbn [regtype_sel] in Hrt.
  3:{ replace (rtn =? 0) with false by lia. gl_auto. replace (rtn =? 1) with false by lia. gl_auto. reflexivity. }
  all: subst rtn; gl_auto.
  all: destruct (q =? 0) eqn:Eq0; gl_auto; [reflexivity|].
  all: destruct (125 <? q) eqn:Eq1; gl_auto; [reflexivity|].
  all: rewrite end_addr_cmp by lia.
  all: destruct (65535 <? a + q - 1) eqn:Eq2; gl_auto; [reflexivity|].
  all: rewrite Hua; gl_auto; rewrite Huq; unfold vbytes, be16; cbn [map]; gl_auto.
  all: rewrite Hxe; clear Hxe.
  all: destruct (X _) as [[ru rf rp]|c rnil ru rf rp];
       cbn [enc_reply treply_wf p_unit p_fc p_payload] in *; gl_auto;
       [|replace (c =? 0) with false by lia; gl_auto; reflexivity].
  all: unfold validate_read_regs, vbytes; cbn [p_fc p_payload].
  all: destruct (rf =? _) eqn:Ef; [|rd_exception He Hwf rp].
  all: ok63; gl_auto; ok63; gl_auto; ok63; gl_auto.
  all: destruct rp as [|bc data]; cbn [map List.length]; gl_auto;
       [replace (0 =? 1 + 2 * q) with false by lia; gl_auto; reflexivity|].
  all: rewrite lenN_cons_map; destruct (_ =? 1 + 2 * q) eqn:El; gl_auto; [|reflexivity].
  all: apply bytesb_cons in Hwf as [Hbc Hdata]; cbn [nth_error]; gl_auto.
  all: rewrite (mod64_small bc), (mod64_small q), (mod64_small (2 * q))
         by (change (2 ^ 32) with 4294967296; lia).
  all: destruct (bc =? 2 * q) eqn:Eb; gl_auto; [|reflexivity].
  all: rewrite slice_tail; gl_auto; reflexivity.
Qed.

(* ---------------------------------------------------------------- the four bit readers *)

(* what the public readers know about readBools: the statement of run_readBools *)
Definition rbools_hyp (fe : fenv) (X : pdu -> treply) : Prop :=
  forall cfg tt a q di, a < 65536 -> q < 65536 ->
    fe "ModbusClient.readBools" (mc_fields cfg tt ++ [VN a; VN q; VB di])%list =
    out_vals (mc_fields cfg tt) (call_out cfg (OpReadBools di a q) X).

Lemma run_ReadCoils fe fuel cfg tt X a q :
  rbools_hyp fe X -> a < 65536 -> q < 65536 ->
  run_fn ge fe fuel src_fn_ModbusClient_ReadCoils (mc_fields cfg tt ++ [VN a; VN q])%list =
  out_vals (mc_fields cfg tt) (call_out cfg (OpReadBools false a q) X).
Proof.
  intros Hrb Ha Hq. pose proof (Hrb cfg tt a q false Ha Hq) as Hc.
  unfold run_fn, src_fn_ModbusClient_ReadCoils, mc_fields in *. cbn [app] in Hc.
  gl_auto. rewrite Hc.
  destruct (call_out cfg (OpReadBools false a q) X) as [v|c|]; cbn [out_vals app]; gl_auto; reflexivity.
Qed.

Lemma run_ReadDiscreteInputs fe fuel cfg tt X a q :
  rbools_hyp fe X -> a < 65536 -> q < 65536 ->
  run_fn ge fe fuel src_fn_ModbusClient_ReadDiscreteInputs (mc_fields cfg tt ++ [VN a; VN q])%list =
  out_vals (mc_fields cfg tt) (call_out cfg (OpReadBools true a q) X).
Proof.
  intros Hrb Ha Hq. pose proof (Hrb cfg tt a q true Ha Hq) as Hc.
  unfold run_fn, src_fn_ModbusClient_ReadDiscreteInputs, mc_fields in *. cbn [app] in Hc.
  gl_auto. rewrite Hc.
  destruct (call_out cfg (OpReadBools true a q) X) as [v|c|]; cbn [out_vals app]; gl_auto; reflexivity.
Qed.

(* the shape of a readBools outcome: a list of booleans, or a non-nil error *)
Lemma err_code_exc_err_nz c : err_code (exc_err c) <> 0.
Proof.
  rewrite <- err_value_exc_err. destruct (known_exception c) eqn:K.
  - destruct (exc_err_value_known c K) as [E1 E2]. rewrite E1. lia.
  - unfold exc_err. rewrite K. cbn [err_value]. unfold other_error. lia.
Qed.

Lemma eop_code_nz req res :
  match sout_of (exception_or_protocol req res) with SCode c => c <> 0 | _ => False end.
Proof.
  unfold exception_or_protocol.
  destruct (p_fc res =? N.lor (p_fc req) 128); [destruct (p_payload res) as [|c [|c2 rest]]|];
    cbn [sout_of]; try apply err_code_exc_err_nz; vm_compute; discriminate.
Qed.

Lemma sequence_length {A} (l : list (option A)) : forall r,
  sequence l = Some r -> List.length r = List.length l.
Proof.
  induction l as [|[x|] l IH]; intros r H; cbn [sequence] in H; [inversion H; reflexivity| |discriminate].
  destruct (sequence l) as [r'|]; [|discriminate]. inversion H; subst. cbn [List.length].
  rewrite (IH r' eq_refl). reflexivity.
Qed.

Lemma decode_bools_length n bs r : decode_bools n bs = Some r -> List.length r = n.
Proof.
  unfold decode_bools. intros H. apply sequence_length in H. rewrite map_length, seq_length in H. exact H.
Qed.

Lemma read_bools_shape cfg di a q X : (forall req, treply_wf (X req)) ->
  match call_out cfg (OpReadBools di a q) X with
  | SVal v => exists l, v = VBools l /\ List.length l = N.to_nat q
  | SCode c => c <> 0
  | SPanic => True
  end.
Proof.
  intros Hwf. unfold call_out, client_request, req_read_bools.
  destruct (q =? 0); [cbn [sout_of]; vm_compute; discriminate|].
  destruct (2000 <? q); [cbn [sout_of]; vm_compute; discriminate|].
  destruct (65535 <? a + q - 1); [cbn [sout_of]; vm_compute; discriminate|].
  match goal with |- context [X ?r] => specialize (Hwf r); destruct (X r) as [res|c rnil ru rf rp] end;
    cbn [treply_wf] in Hwf; [|exact Hwf].
  unfold client_validate.
  destruct (p_fc res =? _).
  - destruct (negb _); [cbn [sout_of]; vm_compute; discriminate|].
    destruct (p_payload res) as [|bc data]; [exact I|].
    destruct (negb _); [cbn [sout_of]; vm_compute; discriminate|].
    destruct (decode_bools (N.to_nat q) data) as [r|] eqn:Ed; cbn [opt_result sout_of]; [|exact I].
    exists r. split; [reflexivity|]. exact (decode_bools_length _ _ _ Ed).
  - match goal with |- context [exception_or_protocol ?r1 ?r2] =>
      pose proof (eop_code_nz r1 r2) as He; destruct (sout_of (exception_or_protocol r1 r2)) end;
    [contradiction|exact He|contradiction].
Qed.

Lemma exec_hyp_wf fe X : exec_hyp fe X -> forall req, treply_wf (X req).
Proof. intros Hx req. exact (proj2 (Hx (mkcfg 0 BigE HighFirst) 0 req)). Qed.

Lemma run_ReadCoil fe fuel cfg tt X a :
  rbools_hyp fe X -> (forall req, treply_wf (X req)) -> a < 65536 ->
  run_fn ge fe fuel src_fn_ModbusClient_ReadCoil (mc_fields cfg tt ++ [VN a])%list =
  out_one (mc_fields cfg tt) (VB false) (call_out cfg (OpReadBools false a 1) X).
Proof.
  intros Hrb Hwf Ha. pose proof (Hrb cfg tt a 1 false Ha ltac:(lia)) as Hc.
  pose proof (read_bools_shape cfg false a 1 X Hwf) as Hs.
  unfold run_fn, src_fn_ModbusClient_ReadCoil, mc_fields in *. cbn [app] in Hc.
  gl_auto. rewrite Hc.
  destruct (call_out cfg (OpReadBools false a 1) X) as [v|c|]; cbn [out_vals out_one app]; gl_auto.
  - destruct Hs as [l [-> _]]. cbn [sval]. unfold vbools.
    destruct l as [|b l]; cbn [map nth_error]; gl_auto; reflexivity.
  - replace (c =? 0) with false by lia. gl_auto. reflexivity.
  - reflexivity.
Qed.

Lemma run_ReadDiscreteInput fe fuel cfg tt X a :
  rbools_hyp fe X -> (forall req, treply_wf (X req)) -> a < 65536 ->
  run_fn ge fe fuel src_fn_ModbusClient_ReadDiscreteInput (mc_fields cfg tt ++ [VN a])%list =
  out_one (mc_fields cfg tt) (VB false) (call_out cfg (OpReadBools true a 1) X).
Proof.
  intros Hrb Hwf Ha. pose proof (Hrb cfg tt a 1 true Ha ltac:(lia)) as Hc.
  pose proof (read_bools_shape cfg true a 1 X Hwf) as Hs.
  unfold run_fn, src_fn_ModbusClient_ReadDiscreteInput, mc_fields in *. cbn [app] in Hc.
  gl_auto. rewrite Hc.
  destruct (call_out cfg (OpReadBools true a 1) X) as [v|c|]; cbn [out_vals out_one app]; gl_auto.
  - destruct Hs as [l [-> _]]. cbn [sval]. unfold vbools.
    destruct l as [|b l]; cbn [map nth_error]; gl_auto; reflexivity.
  - replace (c =? 0) with false by lia. gl_auto. reflexivity.
  - reflexivity.
Qed.

