From Coq Require Import List NArith String Lia Bool.
From Coq Require Import ZifyBool ZifyNat ZifyN.
Import ListNotations.
From Modbus Require Import Base.Bytes Model.GoLite Gen.SrcPure Model.Crc Model.Encoding.
From Modbus Require Import Model.Wire Model.Client Model.Server.
From Modbus Require Import Proofs.GoLiteP Proofs.GoLiteLinkP Proofs.SrcCrcP Proofs.SrcLinkP Proofs.SrcMiscP Proofs.SrcClientP Proofs.SrcServerP.
Open Scope string_scope.
Open Scope N_scope.

(* server.go handleTransport as translated from the Go source (Gen/SrcPure.v):
   one iteration of the loop on a write-single request (function code 5, write
   single coil; function code 6, write single register) does what the model
   (Model/Server.v server_process, then the response written or the link
   closed) says. Also: the common tail after the switch, in its three cases. *)

(* ---------------------------------------------------------------- the pieces of the loop body *)

Definition srv_rd : stmt :=
  Eval cbv in match srv_parts with SSeq a _ => a | _ => SSkip end.
Definition srv_chk : stmt :=
  Eval cbv in match srv_parts with SSeq _ (SSeq a _) => a | _ => SSkip end.
Definition srv_switch : stmt :=
  Eval cbv in match srv_parts with SSeq _ (SSeq _ (SSeq (SBlock s) _)) => s | _ => SSkip end.
Definition srv_tail : stmt :=
  Eval cbv in match srv_parts with SSeq _ (SSeq _ (SSeq _ t)) => t | _ => SSkip end.
Lemma srv_parts_eq :
  srv_parts = SSeq srv_rd (SSeq srv_chk (SSeq (SBlock srv_switch) srv_tail)).
Proof. reflexivity. Qed.


Ltac gl_more :=
  repeat (progress (gl_step;
                    cbn [compare_v compare_n arith wrap negb andb orb ofail Bool.eqb
                         firstn skipn nth_error map List.length app];
                    gl_consts)).

(* ---------------------------------------------------------------- the common tail after the switch *)

(* a protocol error: the link is closed and the function returns *)
Lemma srv_tail_close fe fuel W started tt ca cr w r5 r6 r7 r8 s9 s10 s11 s12 tl :
  world_hyp fe W ->
  exec ge fe fuel
       (started :: tt :: VN ca :: VN cr :: w :: r5 :: r6 :: r7 :: r8 :: s9 :: s10 :: s11 :: s12 :: VN 16 :: tl) srv_tail =
  OReturn (started :: tt :: VN ca :: VN cr :: fst (w_close W w) :: r5 :: r6 :: r7 :: r8 :: s9 :: s10 :: s11 :: s12 :: VN 16 :: tl) None.
Proof.
  intros (_ & _ & _ & _ & _ & _ & Hclose & _).
  unfold srv_tail. gl_more. rewrite Hclose. gl_more. reflexivity.
Qed.

(* another error: an exception response is written *)
Lemma srv_tail_exception fe fuel W started tt ca cr w u fc r8 s9 s10 s11 s12 c tl :
  world_hyp fe W -> srv_callee_hyp fe ->
  In c all_error_values -> c <> 0 -> c <> 16 ->
  exec ge fe fuel
       (started :: tt :: VN ca :: VN cr :: w :: VB false :: VN u :: VN fc :: r8 :: s9 :: s10 :: s11 :: s12 :: VN c :: tl) srv_tail =
  let res := mkpdu u (N.lor 128 fc) [err_to_exc c] in
  ONormal (started :: tt :: VN ca :: VN cr :: fst (w_write W w res) ::
           VB true :: VN 0 :: VN 0 :: VL [] :: VB true :: VN 0 :: VN 0 :: VL [] :: VN (snd (w_write W w res)) :: tl).
Proof.
  intros (_ & _ & _ & _ & _ & Hwrite & _ & _) (_ & _ & _ & _ & _ & _ & Hmap) Hin H0 H16.
  assert (E0 : (c =? 0) = false) by lia. assert (E16 : (c =? 16) = false) by lia.
  unfold srv_tail. gl_more.
  rewrite E0. gl_more. rewrite E0. gl_more. rewrite E16. gl_more.
  rewrite (Hmap c Hin). gl_more.
  pose proof (Hwrite w (mkpdu u (N.lor 128 fc) [err_to_exc c])) as Hw.
  cbn [p_unit p_fc p_payload] in Hw. unfold vbytes in Hw. cbn [map] in Hw. rewrite Hw. gl_more.
  destruct (snd (w_write W w (mkpdu u (N.lor 128 fc) [err_to_exc c])) =? 0); gl_more; reflexivity.
Qed.

(* no error: the response assembled by the switch is written *)
Lemma srv_tail_respond fe fuel W started tt ca cr w r5 r6 r7 r8 res tl :
  world_hyp fe W ->
  exec ge fe fuel
       (started :: tt :: VN ca :: VN cr :: w :: r5 :: r6 :: r7 :: r8 ::
        VB false :: VN (p_unit res) :: VN (p_fc res) :: vbytes (p_payload res) :: VN 0 :: tl) srv_tail =
  ONormal (started :: tt :: VN ca :: VN cr :: fst (w_write W w res) ::
           VB true :: VN 0 :: VN 0 :: VL [] :: VB true :: VN 0 :: VN 0 :: VL [] :: VN (snd (w_write W w res)) :: tl).
Proof.
  intros (_ & _ & _ & _ & _ & Hwrite & _ & _).
  unfold srv_tail. gl_more.
  pose proof (Hwrite w res) as Hw. unfold vbytes in Hw |- *. rewrite Hw. gl_more.
  destruct (snd (w_write W w res) =? 0); gl_more; reflexivity.
Qed.

(* ---------------------------------------------------------------- handler error values and the model's classes *)

Lemma herr_cases c : In c all_error_values ->
  (c = 0 /\ herr_of_code c = HNone) \/
  (c <> 0 /\
   In (if c =? 16 then 8 else c) all_error_values /\
   (if c =? 16 then 8 else c) <> 0 /\ (if c =? 16 then 8 else c) <> 16 /\
   norm_herr (herr_of_code c) <> HNone /\
   herr_code (norm_herr (herr_of_code c)) = err_to_exc (if c =? 16 then 8 else c)).
Proof.
  intros Hin. cbv [all_error_values src_error_codes map snd] in Hin. cbn [In] in Hin.
  destruct Hin as [<-|Hin]; [left; split; reflexivity|].
  right.
  repeat (destruct Hin as [<-|Hin];
          [split; [discriminate|split; [vm_compute; tauto|
             split; [vm_compute; discriminate|split; [vm_compute; discriminate|
             split; [vm_compute; discriminate|vm_compute; reflexivity]]]]]|]).
  destruct Hin.
Qed.

Lemma srv_iter_write_single fe fuel W started tt ca cr w rest req :
  world_hyp fe W -> srv_callee_hyp fe -> List.length rest = 18%nat ->
  snd (w_read W w) = RdOk req -> (p_fc req = 5 \/ p_fc req = 6) ->
  srv_iter_spec fe fuel W started tt ca cr w rest req.
Proof.
  intros HW HC Hlen Hrd Hfc.
  pose proof HW as (Hread & Hcoils & _ & Hhold & _ & _ & _ & Hherr).
  pose proof HC as (Hu16 & Hb2u & _).
  destruct (Hread w) as [Hrd1 Hwf]. rewrite Hrd in Hrd1, Hwf.
  destruct req as [u fc pl]. cbn [rd_wf p_payload p_unit p_fc enc_rd] in *.
  destruct Hwf as (Hpl & Hu & _).
  assert (Hb2 : forall a b, fe "bytesToUint16" [VN 1; VL [VN a; VN b]] = GOk [VN (a * 256 + b)]).
  { intros a b. exact (Hb2u BigE [a; b]). }
  assert (Hu2 : forall v, fe "uint16ToBytes" [VN 1; VN v] = GOk [VL [VN ((v / 256) mod 256); VN (v mod 256)]]).
  { intros v. pose proof (Hu16 BigE v) as Hv. rewrite be16_u16_to_bytes in Hv. exact Hv. }
  unfold srv_iter_spec, srv_state.
  do 18 (destruct rest as [|? rest]; [discriminate Hlen|]).
  destruct rest; [|discriminate Hlen]. clear Hlen.
  rewrite srv_parts_eq. cbn [exec]. unfold srv_rd. gl_more. rewrite Hrd1. gl_more.
  unfold srv_chk. gl_more.
  set (w1 := fst (w_read W w)).
  unfold srv_request, server_process. cbn [p_fc p_payload p_unit].
  destruct (Nat.eqb (List.length pl) 4) eqn:El.
  2:{ (* wrong payload length *)
      apply Nat.eqb_neq in El.
      assert (E4 : (N.of_nat (List.length pl) =? 4) = false) by lia.
      destruct Hfc as [-> | ->]; unfold srv_switch, vbytes; gl_more; rewrite map_length, E4; gl_more;
        rewrite (srv_tail_close fe fuel W) by exact HW;
        (eexists; split; [|reflexivity]; reflexivity). }
  apply Nat.eqb_eq in El.
  destruct pl as [|a [|b [|c [|d [|? ?]]]]]; try discriminate El. clear El.
  cbn [bytesb forallb] in Hpl. unfold is_byte in Hpl.
  unfold vbytes. cbn [map be_word nth skipn].
  destruct Hfc as [-> | ->].
  - (* write single coil *)
    unfold srv_switch; gl_more.
    rewrite Hb2. gl_more.
    destruct (c =? 255) eqn:Ec; [|destruct (c =? 0) eqn:E0]; destruct (d =? 0) eqn:Ed; gl_more;
      try (rewrite (srv_tail_close fe fuel W) by exact HW;
           (eexists; split; [|reflexivity]; reflexivity)).
    all: rewrite ?Ec; unfold model_handler.
    all: match goal with
         | |- context [_ "handler.HandleCoils" [_; _; _; _; _; _; _; VL [VB ?bv]]] =>
             pose proof (Hcoils w1 ca cr u (a * 256 + b) 1 true [bv]) as Hh;
             destruct (Hherr w1 ca cr (mkhreq HCoils u (a * 256 + b) 1 true [bv] [])) as [Hin _]
         end.
    all: unfold vbools in Hh; cbn [map] in Hh; rewrite Hh; clear Hh.
    all: destruct (w_handle W w1 ca cr _) as [w2 x]; cbn [snd] in Hin.
    all: cbn [r_err].
    all: destruct (herr_cases _ Hin) as [[Hc0 Hn]|(Hc0 & Hin' & H0' & H16' & Hnn & Hcode)].
    all: try (rewrite Hn, Hc0; cbn [norm_herr]; gl_more; rewrite Hu2; gl_more;
         rewrite (srv_tail_respond fe fuel W _ _ _ _ _ _ _ _ _ (mkpdu u 5 (be16 (a * 256 + b) ++ [c; d]))) by exact HW;
         (eexists; split; [|reflexivity]; reflexivity)).
    all: assert (Ex0 : (hr_code x =? 0) = false) by lia.
    all: gl_more; destruct (hr_code x =? 16) eqn:E16; gl_more; rewrite ?Ex0; gl_more.
    all: rewrite (srv_tail_exception fe fuel W _ _ _ _ _ _ _ _ _ _ _ _ _ _ HW HC Hin' H0' H16').
    all: rewrite <- Hcode; cbv zeta.
    all: destruct (norm_herr (herr_of_code (hr_code x))); [congruence| | |].
    all: (eexists; split; [|reflexivity]; reflexivity).
  - (* write single register *)
    unfold srv_switch; gl_more.
    rewrite Hb2. gl_more. rewrite Hb2. gl_more.
    unfold model_handler.
    pose proof (Hhold w1 ca cr u (a * 256 + b) 1 true [c * 256 + d]) as Hh.
    destruct (Hherr w1 ca cr (mkhreq HHolding u (a * 256 + b) 1 true [] [c * 256 + d])) as [Hin _].
    unfold vbytes in Hh; cbn [map] in Hh; rewrite Hh; clear Hh.
    destruct (w_handle W w1 ca cr _) as [w2 x]; cbn [snd] in Hin.
    cbn [r_err].
    destruct (herr_cases _ Hin) as [[Hc0 Hn]|(Hc0 & Hin' & H0' & H16' & Hnn & Hcode)].
    + rewrite Hn, Hc0; cbn [norm_herr]; gl_more. rewrite Hu2; gl_more. rewrite Hu2; gl_more.
      rewrite (srv_tail_respond fe fuel W _ _ _ _ _ _ _ _ _
                 (mkpdu u 6 (be16 (a * 256 + b) ++ be16 (c * 256 + d)))) by exact HW.
      eexists; split; [|reflexivity]; reflexivity.
    + assert (Ex0 : (hr_code x =? 0) = false) by lia.
      gl_more; destruct (hr_code x =? 16) eqn:E16; gl_more; rewrite ?Ex0; gl_more.
      all: rewrite (srv_tail_exception fe fuel W _ _ _ _ _ _ _ _ _ _ _ _ _ _ HW HC Hin' H0' H16').
      all: rewrite <- Hcode; cbv zeta.
      all: destruct (norm_herr (herr_of_code (hr_code x))); [congruence| | |].
      all: (eexists; split; [|reflexivity]; reflexivity).
Qed.
