(* Proofs about Model/Cli.v: all-or-nothing parsing, the requests a command
   list issues are the documented ones (composition with the client theorems
   of C01), over-limit commands stay off the wire, the documented grammar is
   accepted with the documented meaning. *)
From Modbus Require Import Base.Bytes Base.Enum Model.Crc Model.Encoding Model.Wire Model.Client
  Model.Strconv Model.Cli Spec.ModbusSpec Spec.ClientSpec Spec.StrconvSpec Spec.CliSpec
  Proofs.ClientReqP Proofs.StrconvP.
From Coq Require Import ZifyBool ZifyNat ZifyN.
Ltac Zify.zify_post_hook ::= Z.div_mod_to_equations.

(* ------------------------------------------------------------ model op vs documented op *)

Lemma width_cases t : cli_width t = 1 \/ cli_width t = 2 \/ cli_width t = 4.
Proof. destruct t; cbn; auto. Qed.

Lemma u16_small x : x < 65536 -> u16 x = x.
Proof. unfold u16. lia. Qed.

(* the 16-bit quantity+1 of the code against the documented count *)
Ltac valid_tac :=
  unfold valid_op; cbn [op_regtype_ok op_count op_limit op_addr cli_width];
  repeat match goal with |- context [if ?h then Holding else InputReg] => destruct h end;
  cbn [op_regtype_ok andb]; lia.

Lemma op_agree c o : cli_op_wf c -> cli_doc_op c = Some o ->
  exists o', cli_to_op c = Some o' /\ op_wf o' /\ valid_op o' = valid_op o /\
             (valid_op o = true -> o' = o).
Proof.
  destruct c as [coil a q|holding t a q|a v|t a v|a bs|u]; cbn [cli_op_wf cli_doc_op cli_to_op]; intros Hwf Hd.
  - destruct Hwf as [Ha Hq]. inversion Hd; subst o. eexists; split; [reflexivity|].
    destruct (N.eq_dec q 65535) as [->|Hne].
    + change (u16 (65535 + 1)) with 0. split; [cbn; lia|]. split; [valid_tac|].
      intros H. exfalso. revert H. valid_tac.
    + rewrite (u16_small (q + 1)) by lia. split; [cbn; lia|]. split; [reflexivity|]. reflexivity.
  - destruct Hwf as [Ha Hq].
    destruct (N.eq_dec q 65535) as [->|Hne].
    + change (u16 (65535 + 1)) with 0.
      destruct t; inversion Hd; subst o; eexists; (split; [reflexivity|]);
        (split; [cbn; repeat split; try lia; tauto|]); (split; [valid_tac|]);
        intros H; exfalso; revert H; valid_tac.
    + rewrite (u16_small (q + 1)) by lia.
      destruct t; inversion Hd; subst o; eexists; (split; [reflexivity|]);
        (split; [cbn; repeat split; try lia; tauto|]); (split; reflexivity).
  - inversion Hd; subst o. eexists; split; [reflexivity|]. split; [cbn; lia|]. split; reflexivity.
  - destruct Hwf as (Ht & Ha & Hv).
    destruct t; try congruence; cbn [cli_width] in *; cbn in Hd; inversion Hd; subst o;
      eexists; (split; [reflexivity|]); (split; [|split; reflexivity]);
      cbn; repeat split; try lia; try tauto; try (constructor; [exact Hv|constructor]).
  - destruct Hwf as [Ha Hb]. inversion Hd; subst o. eexists; split; [reflexivity|].
    split; [split; assumption|]. split; reflexivity.
  - discriminate.
Qed.

(* ------------------------------------------------------------ one client call *)

Lemma call_txn_ok cfg txn o e s req :
  client_request cfg o = Ok req -> cr_txn (client_call FMbap cfg txn o e s) = u16 (txn + 1).
Proof.
  intros H. unfold client_call. rewrite H. unfold transport_exchange.
  destruct (mbap_read_response (S (length s)) e (u16 (txn + 1)) s) as [r rest].
  destruct r; try reflexivity. destruct (unit_check req a); reflexivity.
Qed.

Lemma call_rejected cfg txn o e s :
  client_request cfg o = Err EParams ->
  client_call FMbap cfg txn o e s = mkcall (Err EParams) [] s txn.
Proof. intros H. unfold client_call. rewrite H. reflexivity. Qed.

Record exec_facts (st st' : cli_state) (frames : list (list N)) (cfg' : ccfg) (txn' : N) : Prop := {
  ef_tx : cs_tx st' = cs_tx st ++ frames;
  ef_cfg : cs_cfg st' = cfg';
  ef_txn : cs_txn st' = txn'
}.

(* an operation within protocol limits: exactly the documented request frame *)
Lemma exec_valid st c o :
  cli_op_wf c -> cfg_wf (cs_cfg st) -> cs_txn st < 65536 ->
  cli_doc_op c = Some o -> valid_op o = true ->
  exec_facts st (cli_exec st c)
    [spec_frame FMbap (u16 (cs_txn st + 1)) (spec_pdu (cs_cfg st) o)] (cs_cfg st) (u16 (cs_txn st + 1)).
Proof.
  intros Hwf Hcfg Htxn Hd Hv.
  destruct (op_agree c o Hwf Hd) as (o' & Ho' & Hwf' & Hvv & Heq). specialize (Heq Hv). subst o'.
  unfold cli_exec. rewrite Ho'.
  pose proof (client_request_exact (cs_cfg st) o Hwf') as Hreq. rewrite Hv in Hreq. rewrite Hreq.
  destruct (cli_dev_serve (cs_dev st) (spec_pdu (cs_cfg st) o)) as [res d'].
  set (reply := assemble_mbap (u16 (cs_txn st + 1)) res).
  destruct (client_transmit FMbap (cs_cfg st) (cs_txn st) o Stall reply Hwf' Hcfg Htxn) as [T1 _].
  specialize (T1 Hv).
  constructor; cbn [cs_tx cs_cfg cs_txn].
  - rewrite T1. reflexivity.
  - reflexivity.
  - apply (call_txn_ok _ _ _ _ _ _ Hreq).
Qed.

(* an operation beyond protocol limits: nothing on the wire, a failure line,
   the device untouched, the run goes on *)
Lemma exec_invalid st c o :
  cli_op_wf c -> cli_doc_op c = Some o -> valid_op o = false ->
  cli_exec st c = mkclist (cs_cfg st) (cs_txn st) (cs_dev st) (cs_tx st) (cs_out st ++ [ClFail]).
Proof.
  intros Hwf Hd Hv.
  destruct (op_agree c o Hwf Hd) as (o' & Ho' & Hwf' & Hvv & _). rewrite Hv in Hvv.
  unfold cli_exec. rewrite Ho'.
  pose proof (client_request_exact (cs_cfg st) o' Hwf') as Hreq. rewrite Hvv in Hreq. rewrite Hreq.
  rewrite (call_rejected _ _ _ _ _ Hreq). cbn [cr_txn cr_writes cr_res cli_print].
  rewrite app_nil_r. reflexivity.
Qed.

Lemma exec_set_unit st u :
  cli_exec st (CoSetUnit u) =
    mkclist (mkcfg u (c_endian (cs_cfg st)) (c_word (cs_cfg st))) (cs_txn st) (cs_dev st) (cs_tx st) (cs_out st).
Proof. reflexivity. Qed.

(* ------------------------------------------------------------ the whole run *)

Lemma doc_op_none c : cli_doc_op c = None -> exists u, c = CoSetUnit u.
Proof.
  destruct c as [? ? ?|? t ? ?|? ?|t ? ?|? ?|u]; cbn; try discriminate.
  - destruct t; discriminate.
  - destruct (cli_width t) as [|[?|?|]]; discriminate.
  - eauto.
Qed.

Theorem run_frames : forall cs st,
  Forall cli_op_wf cs -> cfg_wf (cs_cfg st) -> cs_txn st < 65536 ->
  cs_tx (cli_run st cs) = cs_tx st ++ cli_doc_frames (cs_cfg st) (cs_txn st) cs.
Proof.
  induction cs as [|c t IH]; intros st Hwf Hcfg Htxn.
  - cbn. now rewrite app_nil_r.
  - inversion Hwf as [|? ? Hc Ht]; subst. unfold cli_run. cbn [fold_left]. fold (cli_run (cli_exec st c) t).
    destruct (cli_doc_op c) as [o|] eqn:Hd.
    + assert (Hns : forall u, c <> CoSetUnit u) by (intros u ->; discriminate).
      assert (Hfr : cli_doc_frames (cs_cfg st) (cs_txn st) (c :: t) =
                    if valid_op o
                    then spec_frame FMbap (u16 (cs_txn st + 1)) (spec_pdu (cs_cfg st) o)
                           :: cli_doc_frames (cs_cfg st) (u16 (cs_txn st + 1)) t
                    else cli_doc_frames (cs_cfg st) (cs_txn st) t).
      { cbn [cli_doc_frames]. rewrite Hd. destruct c; try reflexivity. exfalso. eapply Hns. reflexivity. }
      rewrite Hfr. destruct (valid_op o) eqn:Hv.
      * destruct (exec_valid st c o Hc Hcfg Htxn Hd Hv) as [E1 E2 E3].
        rewrite IH; [|exact Ht|rewrite E2; exact Hcfg|rewrite E3; unfold u16; lia].
        rewrite E1, E2, E3, <- app_assoc. reflexivity.
      * rewrite (exec_invalid st c o Hc Hd Hv).
        rewrite IH; [|exact Ht|exact Hcfg|exact Htxn]. reflexivity.
    + destruct (doc_op_none c Hd) as [u ->]. rewrite exec_set_unit.
      rewrite IH; [|exact Ht|exact Hc|exact Htxn]. reflexivity.
Qed.

(* ------------------------------------------------------------ all or nothing *)

Section WithOracles.
  Variable pf32 pf64 : list N -> option N.

  Lemma parse_all_ok args ops :
    cli_parse_all pf32 pf64 args = CliOk ops <->
    Forall2 (fun a o => cli_parse_cmd pf32 pf64 a = CliOk o) args ops.
  Proof.
    revert ops. induction args as [|a t IH]; intros ops; cbn [cli_parse_all].
    - split; intros H; [inversion H; constructor|inversion H; reflexivity].
    - destruct (cli_parse_cmd pf32 pf64 a) as [o|] eqn:Ea.
      + destruct (cli_parse_all pf32 pf64 t) as [os|] eqn:Et.
        * split; intros H.
          -- inversion H; subst. constructor; [exact Ea|]. apply IH. reflexivity.
          -- inversion H as [|? ? ? ? H1 H2]; subst. rewrite Ea in H1. inversion H1; subst.
             apply IH in H2. inversion H2; subst. reflexivity.
        * split; intros H; [discriminate|]. inversion H as [|? ? ? ? H1 H2]; subst.
          apply IH in H2. discriminate.
      + split; intros H; [discriminate|]. inversion H as [|? ? ? ? H1 H2]; subst. congruence.
  Qed.

  Lemma parse_all_refused args :
    cli_parse_all pf32 pf64 args = CliRefused <->
    exists a, In a args /\ cli_parse_cmd pf32 pf64 a = CliRefused.
  Proof.
    induction args as [|a t IH]; cbn [cli_parse_all].
    - split; [discriminate|]. intros (a & [] & _).
    - destruct (cli_parse_cmd pf32 pf64 a) as [o|] eqn:Ea.
      + destruct (cli_parse_all pf32 pf64 t) as [os|] eqn:Et.
        * split; [discriminate|]. intros (b & [<-|Hb] & Hr); [congruence|].
          assert (CliOk os = CliRefused) by (apply IH; eauto). discriminate.
        * split; [|reflexivity]. intros _. destruct (proj1 IH eq_refl) as (b & Hb & Hr).
          exists b. split; [now right|exact Hr].
      + split; [|reflexivity]. intros _. exists a. split; [now left|exact Ea].
  Qed.

  (* T1: a refused argument anywhere in the list: exit status 2 (or an earlier
     option error), no connection, nothing on the wire, nothing printed *)
  Theorem main_all_or_nothing e w u args dev a :
    In a args -> cli_parse_cmd pf32 pf64 a = CliRefused ->
    exists code, cli_main pf32 pf64 e w u args dev = CliExit code /\ code <> 0.
  Proof.
    intros Hin Hr. unfold cli_main.
    destruct (sc_parse_uint 64 u); [|exists 2; split; [reflexivity|lia]..].
    destruct (cli_endian_of e); [|exists 1; split; [reflexivity|lia]].
    destruct (cli_word_of w); [|exists 1; split; [reflexivity|lia]].
    destruct args as [|a0 t]; [destruct Hin|].
    replace (cli_parse_all pf32 pf64 (a0 :: t)) with (@CliRefused (list cli_operation))
      by (symmetry; apply parse_all_refused; eauto).
    exists 2. split; [reflexivity|lia].
  Qed.

  (* an accepted run: every argument parsed, options within range *)
  Lemma main_done e w u args dev st :
    cli_main pf32 pf64 e w u args dev = CliDone st ->
    exists unit en wo ops,
      sc_parse_uint 64 u = ScOk unit /\ unit < 256 /\
      cli_endian_of e = Some en /\ cli_word_of w = Some wo /\
      cli_parse_all pf32 pf64 args = CliOk ops /\
      st = cli_run (mkclist (mkcfg unit en wo) 0 dev [] []) ops.
  Proof.
    unfold cli_main. destruct (sc_parse_uint 64 u) as [unit| |]; try discriminate.
    destruct (cli_endian_of e) as [en|]; [|discriminate].
    destruct (cli_word_of w) as [wo|]; [|discriminate].
    destruct args as [|a0 t]; [discriminate|].
    destruct (cli_parse_all pf32 pf64 (a0 :: t)) as [ops|]; [|discriminate].
    destruct (255 <? unit) eqn:E; [discriminate|]. intros H. inversion H; subst.
    exists unit, en, wo, ops. repeat split; try reflexivity. lia.
  Qed.
End WithOracles.

(* ------------------------------------------------------------ parsed operations are well formed *)

Lemma bytesb_cons_iff c t : bytesb (c :: t) = true <-> c < 256 /\ bytesb t = true.
Proof.
  unfold bytesb, is_byte. cbn [forallb]. rewrite andb_true_iff. split; intros [H1 H2]; split; try assumption; lia.
Qed.

Lemma split_bytes sep s : bytesb s = true -> Forall (fun f => bytesb f = true) (cli_split sep s).
Proof.
  induction s as [|c t IH]; intros H; cbn [cli_split].
  - constructor; [reflexivity|constructor].
  - apply bytesb_cons_iff in H as [Hc Ht]. specialize (IH Ht).
    destruct (c =? sep).
    + constructor; [reflexivity|exact IH].
    + destruct (cli_split sep t) as [|f fs].
      * constructor; [|constructor]. apply bytesb_cons_iff. split; [exact Hc|reflexivity].
      * inversion IH; subst. constructor; [|assumption]. apply bytesb_cons_iff. split; assumption.
Qed.

Lemma parse_u16_bound s v : bytesb s = true -> cli_parse_u16 s = CliOk v -> v < 65536.
Proof.
  unfold cli_parse_u16, cli_of_uint. intros Hb H.
  destruct (sc_parse_uint 16 s) as [x| |] eqn:E; try discriminate. inversion H; subst.
  apply (parse_uint_bound 16 s v) in E; [exact E|lia|exact Hb].
Qed.

Lemma addr_qty_bound s a q : bytesb s = true ->
  cli_parse_addr_qty s = CliOk (a, q) -> a < 65536 /\ q < 65536.
Proof.
  intros Hb. unfold cli_parse_addr_qty. pose proof (split_bytes 43 s Hb) as Hs.
  destruct (cli_split 43 s) as [|sa [|sq [|? ?]]]; try discriminate.
  - destruct (cli_parse_u16 s) as [x|] eqn:E; [|discriminate]. intros H. inversion H; subst.
    split; [exact (parse_u16_bound s a Hb E)|lia].
  - inversion Hs as [|? ? H1 H2]; subst. inversion H2 as [|? ? H3 _]; subst.
    destruct (cli_parse_u16 sa) as [x|] eqn:E1; [|discriminate].
    destruct (cli_parse_u16 sq) as [y|] eqn:E2; [|discriminate]. intros H. inversion H; subst.
    split; [exact (parse_u16_bound sa a H1 E1)|exact (parse_u16_bound sq q H3 E2)].
Qed.

Lemma of_int_bound bits r v : cli_of_int bits r = CliOk v -> v < 2 ^ bits.
Proof.
  unfold cli_of_int. destruct r as [z| |]; try discriminate. intros H. inversion H; subst.
  assert (Hp : (0 < Z.of_N (2 ^ bits))%Z).
  { assert (2 ^ bits <> 0) by (apply N.pow_nonzero; lia). lia. }
  pose proof (Z.mod_pos_bound z (Z.of_N (2 ^ bits)) Hp). lia.
Qed.

Section Wf.
  Variable pf32 pf64 : list N -> option N.
  Hypothesis pf32_bound : forall s v, pf32 s = Some v -> v < 2 ^ 32.
  Hypothesis pf64_bound : forall s v, pf64 s = Some v -> v < 2 ^ 64.

  Lemma parse_value_bound t s v : bytesb s = true ->
    cli_parse_value pf32 pf64 t s = CliOk v -> t <> CtBytes /\ v < 2 ^ (16 * cli_width t).
  Proof.
    intros Hb. unfold cli_parse_value, cli_of_uint, cli_of_opt.
    destruct t; cbn [cli_width]; intros H; (split; [discriminate|]).
    - destruct (sc_parse_uint 16 s) eqn:E; try discriminate. inversion H; subst.
      apply (parse_uint_bound 16 s v) in E; [exact E|lia|exact Hb].
    - exact (of_int_bound 16 _ v H).
    - destruct (sc_parse_uint 32 s) eqn:E; try discriminate. inversion H; subst.
      apply (parse_uint_bound 32 s v) in E; [exact E|lia|exact Hb].
    - exact (of_int_bound 32 _ v H).
    - destruct (pf32 s) eqn:E; [|discriminate]. inversion H; subst. exact (pf32_bound s v E).
    - destruct (sc_parse_uint 64 s) eqn:E; try discriminate. inversion H; subst.
      apply (parse_uint_bound 64 s v) in E; [exact E|lia|exact Hb].
    - exact (of_int_bound 64 _ v H).
    - destruct (pf64 s) eqn:E; [|discriminate]. inversion H; subst. exact (pf64_bound s v E).
    - discriminate.
  Qed.

  Lemma parse_cmd_wf arg c : bytesb arg = true ->
    cli_parse_cmd pf32 pf64 arg = CliOk c -> cli_op_wf c.
  Proof.
    intros Hb. unfold cli_parse_cmd. pose proof (split_bytes 58 arg Hb) as Hs.
    destruct (cli_split 58 arg) as [|name args]; [discriminate|].
    inversion Hs as [|? ? _ Hargs]; subst.
    destruct (cli_in name cli_n_rc || cli_in name cli_n_rdi).
    { destruct args as [|x [|? ?]]; try discriminate. inversion Hargs; subst.
      destruct (cli_parse_addr_qty x) as [[a q]|] eqn:E; [|discriminate].
      intros H. inversion H; subst. exact (addr_qty_bound x a q ltac:(assumption) E). }
    destruct (cli_in name cli_n_rh || cli_in name cli_n_ri).
    { destruct args as [|ty [|x [|? ?]]]; try discriminate.
      inversion Hargs as [|? ? _ H2]; subst. inversion H2; subst.
      destruct (cli_type_of ty); [|discriminate].
      destruct (cli_parse_addr_qty x) as [[a q]|] eqn:E; [|discriminate].
      intros H. inversion H; subst. exact (addr_qty_bound x a q ltac:(assumption) E). }
    destruct (cli_in name cli_n_wc).
    { destruct args as [|sa [|sv [|? ?]]]; try discriminate.
      inversion Hargs as [|? ? H1 _]; subst.
      destruct (cli_parse_u16 sa) as [a|] eqn:E; [|discriminate].
      pose proof (parse_u16_bound sa a H1 E).
      destruct (list_eqb sv cli_s_true); [intros H'; inversion H'; subst; assumption|].
      destruct (list_eqb sv cli_s_false); [intros H'; inversion H'; subst; assumption|discriminate]. }
    destruct (cli_in name cli_n_wr).
    { destruct args as [|ty [|sa [|sv [|? ?]]]]; try discriminate.
      inversion Hargs as [|? ? _ H2]; subst. inversion H2 as [|? ? H3 H4]; subst. inversion H4 as [|? ? H5 _]; subst.
      destruct (cli_parse_u16 sa) as [a|] eqn:E; [|discriminate].
      pose proof (parse_u16_bound sa a H3 E) as Ha.
      destruct (list_eqb ty cli_s_bytes).
      { destruct (sc_hex_decode sv) as [bs|] eqn:Eh; [|discriminate]. intros H'. inversion H'; subst.
        split; [exact Ha|]. exact (proj2 (hex_decode_ok sv bs Eh)). }
      destruct (list_eqb ty cli_s_string).
      { intros H'. inversion H'; subst. split; assumption. }
      destruct (cli_type_of ty) as [t|]; [|discriminate].
      destruct (cli_parse_value pf32 pf64 t sv) as [v|] eqn:Ev; [|discriminate].
      intros H'. inversion H'; subst. destruct (parse_value_bound t sv v H5 Ev) as [P1 P2].
      repeat split; assumption. }
    destruct (cli_in name cli_n_sid); [|discriminate].
    destruct args as [|su [|? ?]]; try discriminate. inversion Hargs; subst.
    destruct (sc_parse_uint 8 su) as [u| |] eqn:E; try discriminate.
    intros H. inversion H; subst. cbn.
    apply (parse_uint_bound 8 su u) in E; [exact E|lia|assumption].
  Qed.

  Lemma parse_all_wf args ops : Forall (fun a => bytesb a = true) args ->
    cli_parse_all pf32 pf64 args = CliOk ops -> Forall cli_op_wf ops.
  Proof.
    intros Hb H. apply parse_all_ok in H. induction H as [|a o t os Ha _ IH]; [constructor|].
    inversion Hb; subst. constructor; [exact (parse_cmd_wf a o ltac:(assumption) Ha)|]. apply IH. assumption.
  Qed.

  (* T2: the frames an accepted command line puts on the wire are exactly the
     documented requests of its commands, whatever the device answers *)
  Theorem main_frames e w u args dev st :
    Forall (fun a => bytesb a = true) args -> bytesb u = true ->
    cli_main pf32 pf64 e w u args dev = CliDone st ->
    exists unit en wo ops,
      sc_parse_uint 64 u = ScOk unit /\ unit < 256 /\
      cli_endian_of e = Some en /\ cli_word_of w = Some wo /\
      Forall2 (fun a o => cli_parse_cmd pf32 pf64 a = CliOk o) args ops /\
      cs_tx st = cli_doc_frames (mkcfg unit en wo) 0 ops.
  Proof.
    intros Hb Hu H. destruct (main_done pf32 pf64 e w u args dev st H) as (unit & en & wo & ops & H1 & H2 & H3 & H4 & H5 & H6).
    exists unit, en, wo, ops. repeat split; try assumption.
    - apply parse_all_ok. exact H5.
    - subst st. rewrite run_frames; [reflexivity| |exact H2|cbn; lia].
      exact (parse_all_wf args ops Hb H5).
  Qed.
End Wf.

(* ------------------------------------------------------------ limits (T3) *)

Theorem read_regs_valid h t a q o : t <> CtBytes ->
  cli_doc_op (CoReadRegs h t a q) = Some o ->
  valid_op o = ((q + 1) * cli_width t <=? 125) && (a + (q + 1) * cli_width t <=? 65536).
Proof.
  intros Ht H. destruct t; try congruence; cbn in H; inversion H; subst; valid_tac.
Qed.

Theorem read_bytes_valid h a q o :
  cli_doc_op (CoReadRegs h CtBytes a q) = Some o ->
  valid_op o = ((q + 2) / 2 <=? 125) && (a + (q + 2) / 2 <=? 65536).
Proof. intros H. cbn in H. inversion H; subst. valid_tac. Qed.

Theorem read_bools_valid coil a q o :
  cli_doc_op (CoReadBools coil a q) = Some o ->
  valid_op o = (q + 1 <=? 2000) && (a + q + 1 <=? 65536).
Proof. intros H. cbn in H. inversion H; subst. valid_tac. Qed.

(* ------------------------------------------------------------ printed addresses *)

Lemma mapi_nth {A B} (f : N -> A -> B) l : forall k i da db, (i < length l)%nat ->
  nth i (cli_mapi f k l) db = f (k + N.of_nat i) (nth i l da).
Proof.
  induction l as [|x t IH]; intros k i da db Hi; [cbn in Hi; lia|].
  destruct i as [|i]; cbn [cli_mapi nth].
  - f_equal. lia.
  - rewrite (IH (k + 1) i da db) by (cbn in Hi; lia). f_equal. lia.
Qed.

Lemma mapi_length {A B} (f : N -> A -> B) l : forall k, length (cli_mapi f k l) = length l.
Proof. induction l as [|x t IH]; intros k; cbn; [reflexivity|]. now rewrite IH. Qed.

(* the i-th printed line of a typed register read carries the i-th value and
   the address a + i * w(T) modulo 65536 *)
Theorem printed_nums h t a q l i : t <> CtBytes -> (i < length l)%nat ->
  length (cli_print (CoReadRegs h t a q) (Ok (VNums l))) = length l /\
  nth i (cli_print (CoReadRegs h t a q) (Ok (VNums l))) ClFail =
    ClNum (cli_width t) ((a + N.of_nat i * cli_width t) mod 65536) (nth i l 0).
Proof.
  intros Ht Hi. cbn [cli_print].
  destruct t; try congruence; cbn [cli_width N.eqb Pos.eqb]; (split; [apply mapi_length|]);
    rewrite (mapi_nth _ l 0 i 0 ClFail Hi); f_equal; unfold u16; lia.
Qed.

Theorem printed_bools coil a q l i : (i < length l)%nat ->
  length (cli_print (CoReadBools coil a q) (Ok (VBools l))) = length l /\
  nth i (cli_print (CoReadBools coil a q) (Ok (VBools l))) ClFail =
    ClBool ((a + N.of_nat i) mod 65536) (nth i l false).
Proof.
  intros Hi. cbn [cli_print]. split; [apply mapi_length|].
  rewrite (mapi_nth _ l 0 i false ClFail Hi). f_equal. unfold u16. lia.
Qed.

(* ------------------------------------------------------------ the documented grammar is accepted *)

Lemma split_none sep a : ~ In sep a -> cli_split sep a = [a].
Proof.
  induction a as [|c t IH]; intros H; cbn [cli_split]; [reflexivity|].
  replace (c =? sep) with false by (symmetry; apply N.eqb_neq; intros ->; apply H; now left).
  rewrite IH; [reflexivity|]. intros Hin. apply H. now right.
Qed.

Lemma split_app sep a b : ~ In sep a -> cli_split sep (a ++ sep :: b) = a :: cli_split sep b.
Proof.
  induction a as [|c t IH]; intros H; cbn [cli_split app].
  - rewrite N.eqb_refl. reflexivity.
  - replace (c =? sep) with false by (symmetry; apply N.eqb_neq; intros ->; apply H; now left).
    rewrite IH; [reflexivity|]. intros Hin. apply H. now right.
Qed.

Definition no_char (x : N) (s : list N) : bool := negb (existsb (N.eqb x) s).

Lemma no_char_spec x s : no_char x s = true <-> ~ In x s.
Proof.
  unfold no_char. rewrite negb_true_iff. split.
  - intros H Hin. assert (existsb (N.eqb x) s = true) by (apply existsb_exists; exists x; split; [exact Hin|apply N.eqb_refl]).
    congruence.
  - intros H. destruct (existsb (N.eqb x) s) eqn:E; [|reflexivity]. exfalso.
    apply existsb_exists in E as (y & Hy & Ey). apply N.eqb_eq in Ey. subst. contradiction.
Qed.

Lemma sep_digits_no isd s x : (forall c, isd c = true -> c <> x) -> x <> 95 ->
  sl_sep_digits isd s = true -> ~ In x s.
Proof.
  intros Hd Hx H Hin. apply sep_digits_chars in H. rewrite forallb_forall in H.
  specialize (H x Hin). apply orb_true_iff in H as [H|H]; [lia|]. exact (Hd x H eq_refl).
Qed.

(* a literal holds neither ':' nor '+' *)
Lemma lit_no_sep s x : (x = 58 \/ x = 43) -> sl_int_lit s = true -> ~ In x s.
Proof.
  intros Hx Hlit. destruct s as [|c0 t]; [intros []|]. cbn [sl_int_lit] in Hlit.
  assert (Hb : forall c, sl_is_bin c = true -> c <> x) by (unfold sl_is_bin; intros; lia).
  assert (Ho : forall c, sl_is_oct c = true -> c <> x) by (unfold sl_is_oct; intros; lia).
  assert (Hd : forall c, sl_is_dec c = true -> c <> x) by (unfold sl_is_dec; intros; lia).
  assert (Hh : forall c, sl_is_hex c = true -> c <> x) by (unfold sl_is_hex, sl_is_dec; intros; lia).
  assert (Hx95 : x <> 95) by lia.
  destruct (c0 =? 48) eqn:E0.
  - destruct t as [|c1 t']; [intros [H|[]]; lia|].
    destruct ((c1 =? 98) || (c1 =? 66)) eqn:Eb.
    { apply digits1_sep in Hlit as [_ Hs]. pose proof (sep_digits_no _ _ x Hb Hx95 Hs). intros [H1|[H1|H1]]; [lia|lia|contradiction]. }
    destruct ((c1 =? 111) || (c1 =? 79)) eqn:Eo.
    { apply digits1_sep in Hlit as [_ Hs]. pose proof (sep_digits_no _ _ x Ho Hx95 Hs). intros [H1|[H1|H1]]; [lia|lia|contradiction]. }
    destruct ((c1 =? 120) || (c1 =? 88)) eqn:Ex.
    { apply digits1_sep in Hlit as [_ Hs]. pose proof (sep_digits_no _ _ x Hh Hx95 Hs). intros [H1|[H1|H1]]; [lia|lia|contradiction]. }
    pose proof (sep_digits_no _ _ x Ho Hx95 Hlit). intros [H1|H1]; [lia|contradiction].
  - apply andb_true_iff in Hlit as [Hc Hs]. pose proof (sep_digits_no _ _ x Hd Hx95 Hs).
    intros [H1|H1]; [lia|contradiction].
Qed.

Lemma lit_parse bits s v : 1 <= bits <= 64 -> cli_lit bits s v -> sc_parse_uint bits s = ScOk v.
Proof. intros Hb (H1 & H2 & H3 & H4). apply parse_uint_exact; auto. Qed.

Lemma lit_parse_u16 s v : cli_lit 16 s v -> cli_parse_u16 s = CliOk v.
Proof. intros H. unfold cli_parse_u16. rewrite (lit_parse 16 s v) by (auto; lia). reflexivity. Qed.

Lemma slit_parse bits s v : 2 <= bits <= 64 -> cli_slit bits s v ->
  cli_of_int bits (sc_parse_int bits s) = CliOk v.
Proof.
  intros Hb (H1 & H2 & H3 & H4).
  assert (E : sc_parse_int bits s = ScIOk (sl_signed_value s)) by (apply parse_int_exact; auto).
  rewrite E. cbn [cli_of_int]. subst v. reflexivity.
Qed.

Lemma slit_no_colon s : sl_signed_lit s = true -> ~ In 58 s.
Proof.
  unfold sl_signed_lit, sl_unsign. destruct s as [|c t]; [intros _ []|].
  destruct (c =? 45) eqn:E1; [|destruct (c =? 43) eqn:E2]; cbn [snd]; intros H.
  - pose proof (lit_no_sep t 58 (or_introl eq_refl) H). intros [H1|H1]; [lia|contradiction].
  - pose proof (lit_no_sep t 58 (or_introl eq_refl) H). intros [H1|H1]; [lia|contradiction].
  - exact (lit_no_sep (c :: t) 58 (or_introl eq_refl) H).
Qed.

Lemma addr_qty_parse x a q : cli_addr_qty x a q ->
  cli_parse_addr_qty x = CliOk (a, q) /\ ~ In 58 x.
Proof.
  intros [[H ->]|(sa & sq & -> & Ha & Hq)].
  - pose proof H as (H1 & H2 & H3 & H4). split.
    + unfold cli_parse_addr_qty. rewrite (split_none 43 x (lit_no_sep x 43 (or_intror eq_refl) H2)).
      rewrite (lit_parse_u16 x a H). reflexivity.
    + exact (lit_no_sep x 58 (or_introl eq_refl) H2).
  - pose proof Ha as (A1 & A2 & A3 & A4). pose proof Hq as (Q1 & Q2 & Q3 & Q4). split.
    + unfold cli_parse_addr_qty. cbn [app].
      rewrite (split_app 43 sa sq (lit_no_sep sa 43 (or_intror eq_refl) A2)).
      rewrite (split_none 43 sq (lit_no_sep sq 43 (or_intror eq_refl) Q2)).
      rewrite (lit_parse_u16 sa a Ha), (lit_parse_u16 sq q Hq). reflexivity.
    + intros Hin. apply in_app_or in Hin as [Hin|[Hin|Hin]].
      * exact (lit_no_sep sa 58 (or_introl eq_refl) A2 Hin).
      * discriminate.
      * exact (lit_no_sep sq 58 (or_introl eq_refl) Q2 Hin).
Qed.

Lemma hexval_of_hex h : sl_is_hex h = true -> sc_hexval h = Some (sl_val h) /\ h <> 58.
Proof.
  unfold sl_is_hex, sl_is_dec, sc_hexval, sl_val. intros H.
  destruct ((48 <=? h) && (h <=? 57)) eqn:E1.
  - replace (h <=? 57) with true by lia. split; [reflexivity|lia].
  - destruct ((97 <=? h) && (h <=? 102)) eqn:E2.
    + replace (h <=? 57) with false by lia. replace (h <=? 70) with false by lia. split; [reflexivity|lia].
    + replace ((65 <=? h) && (h <=? 70)) with true by lia.
      replace (h <=? 57) with false by lia. replace (h <=? 70) with true by lia. split; [reflexivity|lia].
Qed.

Lemma hex_string_parse sv bs : cli_hex_string sv bs -> sc_hex_decode sv = Some bs /\ ~ In 58 sv.
Proof.
  induction 1 as [|h l t bs Hh Hl _ [IH1 IH2]]; [split; [reflexivity|intros []]|].
  destruct (hexval_of_hex h Hh) as [E1 N1]. destruct (hexval_of_hex l Hl) as [E2 N2]. split.
  - cbn [sc_hex_decode]. rewrite E1, E2, IH1. reflexivity.
  - intros [H1|[H1|H1]]; [congruence|congruence|contradiction].
Qed.

(* names: membership, and which branch of the command switch they select *)
Definition name_flags (name : list N) : list bool :=
  [no_char 58 name; cli_in name cli_n_rc; cli_in name cli_n_rdi; cli_in name cli_n_rh;
   cli_in name cli_n_ri; cli_in name cli_n_wc; cli_in name cli_n_wr; cli_in name cli_n_sid].

Ltac in_cases H := repeat (destruct H as [<-|H]); [..|destruct H].

Lemma names_rc name : In name cli_n_rc -> name_flags name = [true; true; false; false; false; false; false; false].
Proof. intros H. in_cases H; reflexivity. Qed.
Lemma names_rdi name : In name cli_n_rdi -> name_flags name = [true; false; true; false; false; false; false; false].
Proof. intros H. in_cases H; reflexivity. Qed.
Lemma names_rh name : In name cli_n_rh -> name_flags name = [true; false; false; true; false; false; false; false].
Proof. intros H. in_cases H; reflexivity. Qed.
Lemma names_ri name : In name cli_n_ri -> name_flags name = [true; false; false; false; true; false; false; false].
Proof. intros H. in_cases H; reflexivity. Qed.
Lemma names_wc name : In name cli_n_wc -> name_flags name = [true; false; false; false; false; true; false; false].
Proof. intros H. in_cases H; reflexivity. Qed.
Lemma names_wr name : In name cli_n_wr -> name_flags name = [true; false; false; false; false; false; true; false].
Proof. intros H. in_cases H; reflexivity. Qed.
Lemma names_sid name : In name cli_n_sid -> name_flags name = [true; false; false; false; false; false; false; true].
Proof. intros H. in_cases H; reflexivity. Qed.

Lemma type_names_ok tn t : In (tn, t) cli_type_names ->
  ~ In 58 tn /\ cli_type_of tn = Some t /\
  (t <> CtBytes -> list_eqb tn cli_s_bytes = false /\ list_eqb tn cli_s_string = false).
Proof.
  intros H. unfold cli_type_names in H.
  repeat (destruct H as [H|H]; [inversion H; subst; clear H;
    (split; [apply no_char_spec; reflexivity|]); (split; [reflexivity|]);
    intros Hne; try (split; reflexivity); congruence|]).
  destruct H.
Qed.


Lemma flags_split name b1 b2 b3 b4 b5 b6 b7 :
  name_flags name = [true; b1; b2; b3; b4; b5; b6; b7] ->
  ~ In 58 name /\ cli_in name cli_n_rc = b1 /\ cli_in name cli_n_rdi = b2 /\ cli_in name cli_n_rh = b3 /\
  cli_in name cli_n_ri = b4 /\ cli_in name cli_n_wc = b5 /\ cli_in name cli_n_wr = b6 /\ cli_in name cli_n_sid = b7.
Proof.
  unfold name_flags. intros H. injection H. intros H7 H6 H5 H4 H3 H2 H1 H0.
  split; [apply no_char_spec; exact H0|]. repeat split; assumption.
Qed.

Section Grammar.
  Variable pf32 pf64 : list N -> option N.

  Lemma doc_value_parse t sv v : cli_doc_value pf32 pf64 t sv v ->
    cli_parse_value pf32 pf64 t sv = CliOk v /\ ~ In 58 sv /\ t <> CtBytes.
  Proof.
    destruct t; cbn [cli_doc_value cli_parse_value]; intros H; try contradiction.
    - pose proof H as (H1 & H2 & _). rewrite (lit_parse 16 sv v) by (auto; lia).
      repeat split; [exact (lit_no_sep sv 58 (or_introl eq_refl) H2)|discriminate].
    - pose proof H as (H1 & H2 & _). rewrite (slit_parse 16 sv v) by (auto; lia).
      repeat split; [exact (slit_no_colon sv H2)|discriminate].
    - pose proof H as (H1 & H2 & _). rewrite (lit_parse 32 sv v) by (auto; lia).
      repeat split; [exact (lit_no_sep sv 58 (or_introl eq_refl) H2)|discriminate].
    - pose proof H as (H1 & H2 & _). rewrite (slit_parse 32 sv v) by (auto; lia).
      repeat split; [exact (slit_no_colon sv H2)|discriminate].
    - destruct H as [H1 H2]. rewrite H2. repeat split; [exact H1|discriminate].
    - pose proof H as (H1 & H2 & _). rewrite (lit_parse 64 sv v) by (auto; lia).
      repeat split; [exact (lit_no_sep sv 58 (or_introl eq_refl) H2)|discriminate].
    - pose proof H as (H1 & H2 & _). rewrite (slit_parse 64 sv v) by (auto; lia).
      repeat split; [exact (slit_no_colon sv H2)|discriminate].
    - destruct H as [H1 H2]. rewrite H2. repeat split; [exact H1|discriminate].
  Qed.

  (* every command of the documented grammar parses to its documented operation *)
  Theorem doc_cmd_accepted s c : cli_doc_cmd pf32 pf64 s c -> cli_parse_cmd pf32 pf64 s = CliOk c.
  Proof.
    intros H. destruct H as
      [name x a q Hn Hx | name x a q Hn Hx | name tn t x a q Hn Ht Hx | name tn t x a q Hn Ht Hx
      | name sa a sv v Hn Ha Hv | name tn t sa a sv v Hn Ht Ha Hv | name sa a sv bs Hn Ha Hh
      | name sa a sv Hn Ha Hs | name su u Hn Hu];
      unfold cli_parse_cmd, cli_colon; cbn [app].
    - pose proof (names_rc name Hn) as F. apply flags_split in F as (F0 & F1 & F2 & F3 & F4 & F5 & F6 & F7). destruct (addr_qty_parse x a q Hx) as [P N58].
      rewrite (split_app 58 name x F0), (split_none 58 x N58), F1. cbn [orb]. rewrite P. reflexivity.
    - pose proof (names_rdi name Hn) as F. apply flags_split in F as (F0 & F1 & F2 & F3 & F4 & F5 & F6 & F7). destruct (addr_qty_parse x a q Hx) as [P N58].
      rewrite (split_app 58 name x F0), (split_none 58 x N58), F1, F2. cbn [orb]. rewrite P. reflexivity.
    - pose proof (names_rh name Hn) as F. apply flags_split in F as (F0 & F1 & F2 & F3 & F4 & F5 & F6 & F7). destruct (addr_qty_parse x a q Hx) as [P N58].
      destruct (type_names_ok tn t Ht) as (T1 & T2 & _).
      rewrite (split_app 58 name _ F0), (split_app 58 tn x T1), (split_none 58 x N58), F1, F2, F3.
      cbn [orb]. rewrite T2, P. reflexivity.
    - pose proof (names_ri name Hn) as F. apply flags_split in F as (F0 & F1 & F2 & F3 & F4 & F5 & F6 & F7). destruct (addr_qty_parse x a q Hx) as [P N58].
      destruct (type_names_ok tn t Ht) as (T1 & T2 & _).
      rewrite (split_app 58 name _ F0), (split_app 58 tn x T1), (split_none 58 x N58), F1, F2, F3, F4.
      cbn [orb]. rewrite T2, P. reflexivity.
    - pose proof (names_wc name Hn) as F. apply flags_split in F as (F0 & F1 & F2 & F3 & F4 & F5 & F6 & F7). pose proof Ha as (A1 & A2 & _).
      assert (N58 : ~ In 58 sv) by (destruct Hv as [[-> _]|[-> _]]; apply no_char_spec; reflexivity).
      rewrite (split_app 58 name _ F0), (split_app 58 sa sv (lit_no_sep sa 58 (or_introl eq_refl) A2)),
        (split_none 58 sv N58), F1, F2, F3, F4, F5.
      cbn [orb]. rewrite (lit_parse_u16 sa a Ha).
      destruct Hv as [[-> ->]|[-> ->]]; reflexivity.
    - pose proof (names_wr name Hn) as F. apply flags_split in F as (F0 & F1 & F2 & F3 & F4 & F5 & F6 & F7). pose proof Ha as (A1 & A2 & _).
      destruct (doc_value_parse t sv v Hv) as (P & N58 & Hnb).
      destruct (type_names_ok tn t Ht) as (T1 & T2 & T3). destruct (T3 Hnb) as [T4 T5].
      rewrite (split_app 58 name _ F0), (split_app 58 tn _ T1),
        (split_app 58 sa sv (lit_no_sep sa 58 (or_introl eq_refl) A2)), (split_none 58 sv N58),
        F1, F2, F3, F4, F5, F6.
      cbn [orb]. rewrite (lit_parse_u16 sa a Ha), T4, T5, T2, P. reflexivity.
    - pose proof (names_wr name Hn) as F. apply flags_split in F as (F0 & F1 & F2 & F3 & F4 & F5 & F6 & F7). pose proof Ha as (A1 & A2 & _).
      destruct (hex_string_parse sv bs Hh) as [P N58].
      assert (T1 : ~ In 58 cli_s_bytes) by (apply no_char_spec; reflexivity).
      rewrite (split_app 58 name _ F0), (split_app 58 cli_s_bytes _ T1),
        (split_app 58 sa sv (lit_no_sep sa 58 (or_introl eq_refl) A2)), (split_none 58 sv N58),
        F1, F2, F3, F4, F5, F6.
      cbn [orb]. rewrite (lit_parse_u16 sa a Ha).
      replace (list_eqb cli_s_bytes cli_s_bytes) with true by reflexivity. rewrite P. reflexivity.
    - pose proof (names_wr name Hn) as F. apply flags_split in F as (F0 & F1 & F2 & F3 & F4 & F5 & F6 & F7). pose proof Ha as (A1 & A2 & _).
      assert (T1 : ~ In 58 cli_s_string) by (apply no_char_spec; reflexivity).
      rewrite (split_app 58 name _ F0), (split_app 58 cli_s_string _ T1),
        (split_app 58 sa sv (lit_no_sep sa 58 (or_introl eq_refl) A2)), (split_none 58 sv Hs),
        F1, F2, F3, F4, F5, F6.
      cbn [orb]. rewrite (lit_parse_u16 sa a Ha).
      replace (list_eqb cli_s_string cli_s_bytes) with false by reflexivity.
      replace (list_eqb cli_s_string cli_s_string) with true by reflexivity. reflexivity.
    - pose proof (names_sid name Hn) as F. apply flags_split in F as (F0 & F1 & F2 & F3 & F4 & F5 & F6 & F7). pose proof Hu as (U1 & U2 & _).
      rewrite (split_app 58 name su F0), (split_none 58 su (lit_no_sep su 58 (or_introl eq_refl) U2)),
        F1, F2, F3, F4, F5, F6, F7.
      cbn [orb]. rewrite (lit_parse 8 su u) by (auto; lia). reflexivity.
  Qed.
End Grammar.

(* ------------------------------------------------------------ only the documented grammar is accepted *)

Fixpoint cli_join (sep : N) (fields : list (list N)) : list N :=
  match fields with
  | [] => []
  | [f] => f
  | f :: rest => f ++ sep :: cli_join sep rest
  end.

Lemma split_nonempty sep s : cli_split sep s <> [].
Proof.
  destruct s as [|c t]; cbn [cli_split]; [discriminate|].
  destruct (c =? sep); [discriminate|]. destruct (cli_split sep t); discriminate.
Qed.

Lemma join_cons sep f rest : rest <> [] -> cli_join sep (f :: rest) = f ++ sep :: cli_join sep rest.
Proof. destruct rest; [congruence|reflexivity]. Qed.

Lemma split_join sep s :
  cli_join sep (cli_split sep s) = s /\ Forall (fun f => ~ In sep f) (cli_split sep s).
Proof.
  induction s as [|c t [IH1 IH2]]; cbn [cli_split].
  - split; [reflexivity|]. constructor; [intros []|constructor].
  - pose proof (split_nonempty sep t) as Hne. destruct (c =? sep) eqn:E.
    + apply N.eqb_eq in E. subst c. split.
      * rewrite (join_cons sep [] _ Hne), IH1. reflexivity.
      * constructor; [intros []|exact IH2].
    + destruct (cli_split sep t) as [|f fs]; [congruence|]. split.
      * destruct fs as [|g r].
        -- cbn [cli_join] in *. rewrite IH1. reflexivity.
        -- rewrite (join_cons sep (c :: f) (g :: r)) by discriminate.
           rewrite (join_cons sep f (g :: r)) in IH1 by discriminate. cbn [app]. rewrite IH1. reflexivity.
      * inversion IH2; subst. constructor; [|assumption].
        intros [H|H]; [apply N.eqb_neq in E; congruence|contradiction].
Qed.

Lemma in_names name l : cli_in name l = true -> In name l.
Proof.
  unfold cli_in. intros H. apply existsb_exists in H as (k & Hk & E). apply list_eqb_eq in E. subst. exact Hk.
Qed.

Lemma assoc_in {A} s (l : list (list N * A)) v : cli_assoc s l = Some v -> In (s, v) l.
Proof.
  induction l as [|[k x] t IH]; cbn [cli_assoc]; [discriminate|].
  destruct (list_eqb s k) eqn:E.
  - intros H. inversion H; subst. apply list_eqb_eq in E. subst. now left.
  - intros H. right. exact (IH H).
Qed.

Lemma parse_u16_lit s v : bytesb s = true -> cli_parse_u16 s = CliOk v -> cli_lit 16 s v.
Proof.
  unfold cli_parse_u16, cli_of_uint. intros Hb H.
  destruct (sc_parse_uint 16 s) as [x| |] eqn:E; try discriminate. inversion H; subst.
  apply (parse_uint_exact 16 s v) in E; [|lia|exact Hb]. destruct E as (E1 & E2 & E3).
  repeat split; assumption.
Qed.

Lemma addr_qty_doc x a q : bytesb x = true ->
  cli_parse_addr_qty x = CliOk (a, q) -> cli_addr_qty x a q.
Proof.
  intros Hb. unfold cli_parse_addr_qty. pose proof (split_bytes 43 x Hb) as Hs.
  destruct (split_join 43 x) as [Hj _].
  destruct (cli_split 43 x) as [|sa [|sq [|? ?]]]; try discriminate.
  - clear Hj. destruct (cli_parse_u16 x) as [v|] eqn:E; [|discriminate]. intros H. inversion H; subst.
    left. split; [exact (parse_u16_lit x a Hb E)|reflexivity].
  - cbn [cli_join] in Hj. subst x.
    inversion Hs as [|? ? H1 H2]; subst. inversion H2 as [|? ? H3 _]; subst.
    destruct (cli_parse_u16 sa) as [v|] eqn:E1; [|discriminate].
    destruct (cli_parse_u16 sq) as [v2|] eqn:E2; [|discriminate]. intros H. inversion H; subst.
    right. exists sa, sq. split; [reflexivity|].
    split; [exact (parse_u16_lit sa a H1 E1)|exact (parse_u16_lit sq q H3 E2)].
Qed.

Lemma of_int_slit bits s v : 2 <= bits <= 64 -> bytesb s = true ->
  cli_of_int bits (sc_parse_int bits s) = CliOk v -> cli_slit bits s v.
Proof.
  intros Hbits Hb H. unfold cli_of_int in H.
  destruct (sc_parse_int bits s) as [z| |] eqn:E; try discriminate. inversion H; subst.
  apply (parse_int_exact bits s z Hbits Hb) in E. destruct E as (E1 & E2 & E3). subst z.
  repeat split; try assumption; lia.
Qed.

Lemma hex_decode_doc sv bs : sc_hex_decode sv = Some bs -> cli_hex_string sv bs.
Proof.
  revert bs. induction sv as [|p| p q t IH] using list_ind2; intros bs H; cbn [sc_hex_decode] in H.
  - inversion H. constructor.
  - discriminate.
  - destruct (sc_hexval p) as [a|] eqn:Ea; [|discriminate].
    destruct (sc_hexval q) as [b|] eqn:Eb; [|discriminate].
    destruct (sc_hex_decode t) as [r|] eqn:Er; [|discriminate]. inversion H; subst.
    assert (Hx : forall c v, sc_hexval c = Some v -> sl_is_hex c = true /\ v = sl_val c).
    { intros c v. unfold sc_hexval, sl_is_hex, sl_is_dec, sl_val.
      destruct ((48 <=? c) && (c <=? 57)) eqn:E1.
      - intros Hc. inversion Hc; subst. replace (c <=? 57) with true by lia. split; [reflexivity|reflexivity].
      - destruct ((97 <=? c) && (c <=? 102)) eqn:E2.
        + intros Hc. inversion Hc; subst. replace (c <=? 57) with false by lia. replace (c <=? 70) with false by lia.
          split; [reflexivity|reflexivity].
        + destruct ((65 <=? c) && (c <=? 70)) eqn:E3; [|discriminate].
          intros Hc. inversion Hc; subst. replace (c <=? 57) with false by lia. replace (c <=? 70) with true by lia.
          split; [reflexivity|reflexivity]. }
    destruct (Hx p a Ea) as [P1 ->]. destruct (Hx q b Eb) as [Q1 ->].
    constructor; [exact P1|exact Q1|exact (IH r eq_refl)].
Qed.

Section Sound.
  Variable pf32 pf64 : list N -> option N.

  Lemma parse_value_doc t sv v : bytesb sv = true -> ~ In 58 sv ->
    cli_parse_value pf32 pf64 t sv = CliOk v -> cli_doc_value pf32 pf64 t sv v.
  Proof.
    intros Hb Hn. unfold cli_parse_value, cli_of_uint, cli_of_opt.
    assert (Hu : forall bits, 1 <= bits <= 64 ->
              match sc_parse_uint bits sv with ScOk v0 => CliOk v0 | _ => CliRefused end = CliOk v ->
              cli_lit bits sv v).
    { intros bits Hbits H. destruct (sc_parse_uint bits sv) as [x| |] eqn:E; try discriminate.
      inversion H; subst. apply (parse_uint_exact bits sv v Hbits Hb) in E. destruct E as (E1 & E2 & E3).
      repeat split; assumption. }
    destruct t; cbn [cli_doc_value]; intros H.
    - apply Hu; [lia|exact H].
    - apply of_int_slit; [lia|exact Hb|exact H].
    - apply Hu; [lia|exact H].
    - apply of_int_slit; [lia|exact Hb|exact H].
    - destruct (pf32 sv) eqn:E; [|discriminate]. inversion H; subst. split; [exact Hn|reflexivity].
    - apply Hu; [lia|exact H].
    - apply of_int_slit; [lia|exact Hb|exact H].
    - destruct (pf64 sv) eqn:E; [|discriminate]. inversion H; subst. split; [exact Hn|reflexivity].
    - discriminate.
  Qed.

  (* an accepted argument is a command of the documented grammar, with the
     documented meaning: everything else is refused *)
  Theorem parse_cmd_documented s c : bytesb s = true ->
    cli_parse_cmd pf32 pf64 s = CliOk c -> cli_doc_cmd pf32 pf64 s c.
  Proof.
    intros Hb. unfold cli_parse_cmd. pose proof (split_bytes 58 s Hb) as Hs.
    destruct (split_join 58 s) as [Hj Hno].
    destruct (cli_split 58 s) as [|name args]; [discriminate|].
    inversion Hs as [|? ? _ Hargs]; subst. inversion Hno as [|? ? _ Hnargs]; subst.
    destruct (cli_in name cli_n_rc || cli_in name cli_n_rdi) eqn:Erb.
    { destruct args as [|x [|? ?]]; try discriminate. inversion Hargs; subst.
      destruct (cli_parse_addr_qty x) as [[a q]|] eqn:E; [|discriminate].
      pose proof (addr_qty_doc x a q ltac:(assumption) E) as Hx. cbn [cli_join].
      destruct (cli_in name cli_n_rc) eqn:Erc; intros H; inversion H; subst.
      - exact (DocReadCoils pf32 pf64 name x a q (in_names _ _ Erc) Hx).
      - cbn [orb] in Erb. exact (DocReadDiscrete pf32 pf64 name x a q (in_names _ _ Erb) Hx). }
    destruct (cli_in name cli_n_rh || cli_in name cli_n_ri) eqn:Err.
    { destruct args as [|ty [|x [|? ?]]]; try discriminate.
      inversion Hargs as [|? ? _ H2]; subst. inversion H2; subst.
      destruct (cli_type_of ty) as [t|] eqn:Et; [|discriminate].
      destruct (cli_parse_addr_qty x) as [[a q]|] eqn:E; [|discriminate].
      pose proof (addr_qty_doc x a q ltac:(assumption) E) as Hx. cbn [cli_join].
      pose proof (assoc_in ty cli_type_names t Et) as Hty.
      destruct (cli_in name cli_n_rh) eqn:Erh; intros H; inversion H; subst.
      - exact (DocReadHolding pf32 pf64 name ty t x a q (in_names _ _ Erh) Hty Hx).
      - cbn [orb] in Err. exact (DocReadInput pf32 pf64 name ty t x a q (in_names _ _ Err) Hty Hx). }
    destruct (cli_in name cli_n_wc) eqn:Ewc.
    { destruct args as [|sa [|sv [|? ?]]]; try discriminate.
      inversion Hargs as [|? ? H1 _]; subst.
      destruct (cli_parse_u16 sa) as [a|] eqn:E; [|discriminate].
      pose proof (parse_u16_lit sa a H1 E) as Ha. cbn [cli_join].
      destruct (list_eqb sv cli_s_true) eqn:E1.
      - intros H'. inversion H'; subst. apply list_eqb_eq in E1.
        exact (DocWriteCoil pf32 pf64 name sa a sv true (in_names _ _ Ewc) Ha (or_introl (conj E1 eq_refl))).
      - destruct (list_eqb sv cli_s_false) eqn:E2; [|discriminate].
        intros H'. inversion H'; subst. apply list_eqb_eq in E2.
        exact (DocWriteCoil pf32 pf64 name sa a sv false (in_names _ _ Ewc) Ha (or_intror (conj E2 eq_refl))). }
    destruct (cli_in name cli_n_wr) eqn:Ewr.
    { destruct args as [|ty [|sa [|sv [|? ?]]]]; try discriminate.
      inversion Hargs as [|? ? _ H2]; subst. inversion H2 as [|? ? H3 H4]; subst. inversion H4 as [|? ? H5 _]; subst.
      inversion Hnargs as [|? ? _ N2]; subst. inversion N2 as [|? ? _ N4]; subst. inversion N4 as [|? ? N5 _]; subst.
      destruct (cli_parse_u16 sa) as [a|] eqn:E; [|discriminate].
      pose proof (parse_u16_lit sa a H3 E) as Ha. cbn [cli_join].
      destruct (list_eqb ty cli_s_bytes) eqn:Eby.
      { destruct (sc_hex_decode sv) as [bs|] eqn:Eh; [|discriminate]. intros H'. inversion H'; subst.
        apply list_eqb_eq in Eby. subst ty.
        exact (DocWriteBytes pf32 pf64 name sa a sv bs (in_names _ _ Ewr) Ha (hex_decode_doc sv bs Eh)). }
      destruct (list_eqb ty cli_s_string) eqn:Est.
      { intros H'. inversion H'; subst. apply list_eqb_eq in Est. subst ty.
        exact (DocWriteString pf32 pf64 name sa a sv (in_names _ _ Ewr) Ha N5). }
      destruct (cli_type_of ty) as [t|] eqn:Et; [|discriminate].
      destruct (cli_parse_value pf32 pf64 t sv) as [v|] eqn:Ev; [|discriminate].
      intros H'. inversion H'; subst.
      exact (DocWriteNum pf32 pf64 name ty t sa a sv v (in_names _ _ Ewr) (assoc_in ty cli_type_names t Et) Ha
               (parse_value_doc t sv v H5 N5 Ev)). }
    destruct (cli_in name cli_n_sid) eqn:Esid; [|discriminate].
    destruct args as [|su [|? ?]]; try discriminate. inversion Hargs; subst.
    destruct (sc_parse_uint 8 su) as [u| |] eqn:E; try discriminate.
    intros H. inversion H; subst. cbn [cli_join].
    apply (parse_uint_exact 8 su u) in E; [|lia|assumption]. destruct E as (E1 & E2 & E3).
    apply (DocSetUnit pf32 pf64 name su u (in_names _ _ Esid)). repeat split; assumption.
  Qed.

  (* T1 in declarative form: an argument outside the documented grammar is refused *)
  Theorem undocumented_refused s : bytesb s = true ->
    (forall c, ~ cli_doc_cmd pf32 pf64 s c) -> cli_parse_cmd pf32 pf64 s = CliRefused.
  Proof.
    intros Hb H. destruct (cli_parse_cmd pf32 pf64 s) as [c|] eqn:E; [|reflexivity].
    exfalso. exact (H c (parse_cmd_documented s c Hb E)).
  Qed.
End Sound.
