(* Proofs about the timed model with a blocking request Write
   (Model/TimedWrite.v): the bounds of C07 survive a peer that stops reading,
   a full link yields the request-timed-out error at the deadline, the model
   is a conservative extension of Model/Timed.v, sessions. *)
From Modbus Require Import Base.Bytes Model.Crc Model.Encoding Model.Wire Model.Client
  Model.Timed Model.TimedSession Model.TimedWrite
  Spec.ModbusSpec Spec.ClientSpec Spec.TimedSpec Spec.TimedWriteSpec
  Proofs.ClientReqP Proofs.ClientRespP Proofs.TimedP.
From Coq Require Import ZifyBool ZifyNat ZifyN.
Ltac Zify.zify_post_hook ::= Z.div_mod_to_equations.

(* ---------------------------------------------------------------- one call *)

(* the request fits (or the peer reads): the call of Model/Timed.v *)
Lemma tm_call_w_fits fr k la cfg txn o t0 reads room c s req :
  client_request cfg o = Ok req ->
  tm_blocked reads room (Z.of_nat (length (tm_req_frame fr txn req))) = false ->
  tm_client_call_w fr k la cfg txn o t0 reads room c s =
  mk_tm_wcall (tm_client_call fr k la cfg txn o t0 c s)
    (if reads then room else (room - Z.of_nat (length (tm_req_frame fr txn req)))%Z) false.
Proof.
  intros Hreq Hb. unfold tm_client_call_w, tm_client_call. rewrite Hreq.
  destruct fr; cbn [tm_req_frame] in *.
  - unfold mbap_exchange_w, tm_write. rewrite Hb.
    destruct (mbap_exchange_t _ _ _ _ _) as [[r t] rest].
    destruct r as [res|x| |]; try reflexivity. destruct (unit_check req res); reflexivity.
  - unfold rtu_exchange_w, tm_write. rewrite Hb.
    destruct (rtu_exchange_t _ _ _ _ _ _) as [[r t] rest].
    destruct r as [res|x| |]; try reflexivity. destruct (unit_check req res); reflexivity.
Qed.

(* a call rejected locally does not reach the transport *)
Lemma tm_call_w_local fr k la cfg txn o t0 reads room c s :
  (forall req, client_request cfg o <> Ok req) ->
  tm_client_call_w fr k la cfg txn o t0 reads room c s =
  mk_tm_wcall (tm_client_call fr k la cfg txn o t0 c s) room false.
Proof.
  intros H. unfold tm_client_call_w, tm_client_call.
  destruct (client_request cfg o) as [req|x| |]; try reflexivity. destruct (H req eq_refl).
Qed.

Lemma tm_rtu_ts_eq k la t0 : tm_rtu_ts k la t0 = Z.max t0 (la + tm_t35 k).
Proof. unfold tm_rtu_ts, tm_sleep. destruct (_ <? 0)%Z eqn:E; lia. Qed.

(* the link is full: request timed out, when the deadline armed at t0 fires *)
Lemma tm_call_w_blocked fr k la cfg txn o t0 reads room c s req :
  client_request cfg o = Ok req ->
  tm_blocked reads room (Z.of_nat (length (tm_req_frame fr txn req))) = true ->
  tm_client_call_w fr k la cfg txn o t0 reads room c s =
  mk_tm_wcall (mk_tm_call (Err ETimeout)
                 (Z.max (tm_write_start fr k la t0) (t0 + tm_timeout k)) s) 0 true.
Proof.
  intros Hreq Hb. unfold tm_client_call_w. rewrite Hreq.
  destruct fr; cbn [tm_req_frame tm_write_start] in *.
  - unfold mbap_exchange_w, tm_write. rewrite Hb. reflexivity.
  - unfold rtu_exchange_w, tm_write. rewrite Hb, tm_rtu_ts_eq. reflexivity.
Qed.

(* T1 with the blocking Write, MBAP *)
Lemma tm_call_w_time_mbap : forall k la cfg txn o t0 reads room c s, (0 <= tm_timeout k)%Z ->
  (t0 <= tmc_finish (tmw_call (tm_client_call_w FMbap k la cfg txn o t0 reads room c s))
      <= tm_mbap_bound k t0)%Z.
Proof.
  intros k la cfg txn o t0 reads room c s Ht.
  destruct (client_request cfg o) as [req|x| |] eqn:Hreq.
  - destruct (tm_blocked reads room (Z.of_nat (length (tm_req_frame FMbap txn req)))) eqn:Hb.
    + rewrite (tm_call_w_blocked FMbap k la cfg txn o t0 reads room c s req Hreq Hb).
      cbn [tmw_call tmc_finish tm_write_start]. unfold tm_mbap_bound. lia.
    + rewrite (tm_call_w_fits FMbap k la cfg txn o t0 reads room c s req Hreq Hb).
      cbn [tmw_call]. apply tm_client_time_mbap. exact Ht.
  - rewrite tm_call_w_local by (intros req; rewrite Hreq; discriminate).
    cbn [tmw_call]. apply tm_client_time_mbap. exact Ht.
  - rewrite tm_call_w_local by (intros req; rewrite Hreq; discriminate).
    cbn [tmw_call]. apply tm_client_time_mbap. exact Ht.
  - rewrite tm_call_w_local by (intros req; rewrite Hreq; discriminate).
    cbn [tmw_call]. apply tm_client_time_mbap. exact Ht.
Qed.

(* T1 with the blocking Write, RTU: the same configuration-only bound *)
Lemma tm_call_w_time_rtu : forall k la cfg txn o t0 reads room c s,
  op_wf o -> tm_conf_wf k -> (la <= t0)%Z ->
  (t0 <= tmc_finish (tmw_call (tm_client_call_w FRtu k la cfg txn o t0 reads room c s))
      <= tm_rtu_bound k t0 (tm_req_len cfg o))%Z.
Proof.
  intros k la cfg txn o t0 reads room c s Hwf Hk Hla.
  destruct (client_request cfg o) as [req|x| |] eqn:Hreq.
  - destruct (tm_blocked reads room (Z.of_nat (length (tm_req_frame FRtu txn req)))) eqn:Hb.
    + rewrite (tm_call_w_blocked FRtu k la cfg txn o t0 reads room c s req Hreq Hb).
      cbn [tmw_call tmc_finish tm_write_start].
      assert (Hn : (0 <= tm_req_len cfg o)%Z) by (unfold tm_req_len; lia).
      destruct Hk as (Ht & H1 & H35 & Hg). unfold tm_rtu_bound.
      pose proof (Z.mul_nonneg_nonneg _ _ Hn H1). lia.
    + rewrite (tm_call_w_fits FRtu k la cfg txn o t0 reads room c s req Hreq Hb).
      cbn [tmw_call]. apply tm_client_time_rtu; assumption.
  - rewrite tm_call_w_local by (intros req; rewrite Hreq; discriminate).
    cbn [tmw_call]. apply tm_client_time_rtu; assumption.
  - rewrite tm_call_w_local by (intros req; rewrite Hreq; discriminate).
    cbn [tmw_call]. apply tm_client_time_rtu; assumption.
  - rewrite tm_call_w_local by (intros req; rewrite Hreq; discriminate).
    cbn [tmw_call]. apply tm_client_time_rtu; assumption.
Qed.

Lemma tm_call_w_time : forall fr k la cfg txn o t0 reads room c s,
  op_wf o -> tm_conf_wf k -> (la <= t0)%Z ->
  (t0 <= tmc_finish (tmw_call (tm_client_call_w fr k la cfg txn o t0 reads room c s))
      <= tm_call_bound fr k cfg o t0)%Z.
Proof.
  intros [] k la cfg txn o t0 reads room c s Hwf Hk Hla; cbn [tm_call_bound].
  - apply tm_call_w_time_mbap. apply Hk.
  - apply tm_call_w_time_rtu; assumption.
Qed.

(* ---------------------------------------------------------------- a full link *)

Lemma tm_full_link : forall fr k la cfg txn o t0 room c s,
  op_wf o -> valid_op o = true -> (room < tm_wire_len fr cfg txn o)%Z ->
  tm_client_call_w fr k la cfg txn o t0 false room c s =
  mk_tm_wcall (mk_tm_call (Err ETimeout)
                 (Z.max (tm_write_start fr k la t0) (t0 + tm_timeout k)) s) 0 true.
Proof.
  intros fr k la cfg txn o t0 room c s Hwf V Hroom.
  apply (tm_call_w_blocked fr k la cfg txn o t0 false room c s _ (tm_request cfg o Hwf V)).
  unfold tm_blocked, tm_wire_len in *. cbn [negb andb]. lia.
Qed.

Lemma tm_room_enough : forall fr k la cfg txn o t0 room c s,
  op_wf o -> valid_op o = true -> (tm_wire_len fr cfg txn o <= room)%Z ->
  tm_client_call_w fr k la cfg txn o t0 false room c s =
  mk_tm_wcall (tm_client_call fr k la cfg txn o t0 c s) (room - tm_wire_len fr cfg txn o) false.
Proof.
  intros fr k la cfg txn o t0 room c s Hwf V Hroom.
  apply (tm_call_w_fits fr k la cfg txn o t0 false room c s _ (tm_request cfg o Hwf V)).
  unfold tm_blocked, tm_wire_len in *. cbn [negb andb]. lia.
Qed.

Lemma tm_peer_reads : forall fr k la cfg txn o t0 room c s,
  tm_client_call_w fr k la cfg txn o t0 true room c s =
  mk_tm_wcall (tm_client_call fr k la cfg txn o t0 c s) room false.
Proof.
  intros fr k la cfg txn o t0 room c s.
  destruct (client_request cfg o) as [req|x| |] eqn:Hreq.
  - apply (tm_call_w_fits fr k la cfg txn o t0 true room c s req Hreq). reflexivity.
  - apply tm_call_w_local. intros req; rewrite Hreq; discriminate.
  - apply tm_call_w_local. intros req; rewrite Hreq; discriminate.
  - apply tm_call_w_local. intros req; rewrite Hreq; discriminate.
Qed.

(* ---------------------------------------------------------------- silence, any room *)

(* the silent exchange in full: also what is left of the (empty) stream *)
Lemma tm_silent_call_mbap : forall k la cfg txn o t0,
  op_wf o -> valid_op o = true -> (0 <= tm_timeout k)%Z ->
  tm_client_call FMbap k la cfg txn o t0 None [] =
  mk_tm_call (Err ETimeout) (t0 + tm_timeout k) [].
Proof.
  intros k la cfg txn o t0 Hwf V Ht.
  destruct (tm_client_call_ok FMbap k la cfg txn o t0 None [] _ (tm_request cfg o Hwf V))
    as (H1 & H2 & H3).
  destruct (tm_client_call FMbap k la cfg txn o t0 None []) as [r f rest].
  cbn [tmc_res tmc_finish tmc_rest] in *. subst r f rest.
  cbn [tm_xchg]. unfold mbap_exchange_t. cbn [length tm_mbap_read_response].
  unfold tm_read_mbap. cbn [read_full_t].
  replace (t0 + tm_timeout k <? t0)%Z with false by lia.
  rewrite tm_horizon_zero. reflexivity.
Qed.

Lemma tm_silent_call_rtu : forall k la cfg txn o t0,
  op_wf o -> valid_op o = true -> tm_conf_wf k -> tm_gran k = 0%Z ->
  tm_client_call FRtu k la cfg txn o t0 None [] =
  mk_tm_call (Err ETimeout)
    (Z.max (t0 + tm_timeout k) (tm_rtu_read_start k la t0 (tm_req_len cfg o))) [].
Proof.
  intros k la cfg txn o t0 Hwf V Hk Hg.
  assert (Hn : (0 <= tm_req_len cfg o)%Z) by (unfold tm_req_len; lia).
  destruct (tm_client_call_ok FRtu k la cfg txn o t0 None [] _ (tm_request cfg o Hwf V))
    as (H1 & H2 & H3).
  destruct (tm_client_call FRtu k la cfg txn o t0 None []) as [r f rest].
  cbn [tmc_res tmc_finish tmc_rest] in *. subst r f rest.
  cbn [tm_xchg]. fold (tm_req_len cfg o). unfold rtu_exchange_t.
  rewrite (tm_rtu_now2_eq k la t0 _ Hk Hn), Hg.
  unfold tm_read_rtu. cbn [read_full_t]. rewrite tm_horizon_zero.
  destruct (_ <? _)%Z eqn:E; cbn [after_recv fst snd tm_resync]; f_equal; lia.
Qed.

(* total silence from a peer that does not read either: request timed out,
   whatever room the link has left *)
Lemma tm_silent_any_room_mbap : forall k la cfg txn o t0 reads room,
  op_wf o -> valid_op o = true -> (0 <= tm_timeout k)%Z ->
  tmw_call (tm_client_call_w FMbap k la cfg txn o t0 reads room None []) =
  mk_tm_call (Err ETimeout) (t0 + tm_timeout k) [].
Proof.
  intros k la cfg txn o t0 reads room Hwf V Ht.
  pose proof (tm_request cfg o Hwf V) as Hreq.
  destruct (tm_blocked reads room (Z.of_nat (length (tm_req_frame FMbap txn (spec_pdu cfg o))))) eqn:Hb.
  - rewrite (tm_call_w_blocked FMbap k la cfg txn o t0 reads room None [] _ Hreq Hb).
    cbn [tmw_call tm_write_start]. f_equal. lia.
  - rewrite (tm_call_w_fits FMbap k la cfg txn o t0 reads room None [] _ Hreq Hb).
    cbn [tmw_call]. apply tm_silent_call_mbap; assumption.
Qed.

Lemma tm_silent_any_room_rtu : forall k la cfg txn o t0 reads room,
  op_wf o -> valid_op o = true -> tm_conf_wf k -> tm_gran k = 0%Z ->
  let r := tmw_call (tm_client_call_w FRtu k la cfg txn o t0 reads room None []) in
  tmc_res r = Err ETimeout /\ (t0 + tm_timeout k <= tmc_finish r)%Z /\ tmc_rest r = [].
Proof.
  intros k la cfg txn o t0 reads room Hwf V Hk Hg. cbv zeta.
  pose proof (tm_request cfg o Hwf V) as Hreq.
  destruct (tm_blocked reads room (Z.of_nat (length (tm_req_frame FRtu txn (spec_pdu cfg o))))) eqn:Hb.
  - rewrite (tm_call_w_blocked FRtu k la cfg txn o t0 reads room None [] _ Hreq Hb).
    cbn [tmw_call tmc_res tmc_finish tmc_rest]. repeat split; lia.
  - rewrite (tm_call_w_fits FRtu k la cfg txn o t0 reads room None [] _ Hreq Hb).
    cbn [tmw_call]. rewrite tm_silent_call_rtu by assumption.
    cbn [tmc_res tmc_finish tmc_rest]. repeat split; lia.
Qed.

(* ---------------------------------------------------------------- sessions *)

(* the RTU exchange is never over before the post-write sleep *)
Lemma rtu_exchange_ge_start k la t0 nreq c s : tm_conf_wf k -> (0 <= nreq)%Z ->
  let '(_, t, _) := rtu_exchange_t k la t0 nreq c s in
  (tm_rtu_read_start k la t0 nreq <= t)%Z.
Proof.
  intros Hwf Hn. unfold rtu_exchange_t.
  rewrite (tm_rtu_now2_eq k la t0 nreq Hwf Hn).
  destruct Hwf as (Ht & H1 & H35 & Hg).
  pose proof (tm_read_rtu_time (tm_gran k) (t0 + tm_timeout k) c
                (tm_rtu_read_start k la t0 nreq) s Hg) as Hr.
  destruct (tm_read_rtu _ _ _ _ _) as [[r t3] rest].
  destruct r as [p|x| |]; try lia.
  destruct (tm_resync x); [|lia].
  pose proof (tm_discard_time (tm_gran k) c (tm_sleep t3 (256 * tm_t1 k)) rest Hg) as Hd.
  destruct (tm_discard _ _ _ _) as [t4 rest']. unfold tm_sleep in Hd. lia.
Qed.

(* the return instant of an RTU call does not depend on the transaction counter *)
Lemma tm_rtu_finish_txn k la cfg txn txn' o t0 c s :
  tmc_finish (tm_client_call FRtu k la cfg txn o t0 c s) =
  tmc_finish (tm_client_call FRtu k la cfg txn' o t0 c s).
Proof.
  destruct (client_request cfg o) as [req|x| |] eqn:Hreq.
  - destruct (tm_client_call_ok FRtu k la cfg txn o t0 c s req Hreq) as (_ & -> & _).
    destruct (tm_client_call_ok FRtu k la cfg txn' o t0 c s req Hreq) as (_ & -> & _).
    reflexivity.
  - unfold tm_client_call. rewrite Hreq. reflexivity.
  - unfold tm_client_call. rewrite Hreq. reflexivity.
  - unfold tm_client_call. rewrite Hreq. reflexivity.
Qed.

(* rt.lastActivity as left by a call is never later than the return of the
   call: the next call of a session starts with la <= t0 again *)
Lemma tm_next_la_le : forall fr k la cfg txn o t0 reads room c s,
  op_wf o -> tm_conf_wf k -> (la <= t0)%Z ->
  let w := tm_client_call_w fr k la cfg txn o t0 reads room c s in
  (tm_next_la fr k cfg o la t0 c s (tmw_blocked w) <= tmc_finish (tmw_call w))%Z.
Proof.
  intros fr k la cfg txn o t0 reads room c s Hwf Hk Hla. cbv zeta.
  pose proof (tm_call_w_time fr k la cfg txn o t0 reads room c s Hwf Hk Hla) as [Hlo _].
  destruct fr; cbn [tm_next_la]; [lia|].
  destruct (tmw_blocked _) eqn:Hbl; [lia|].
  assert (Hcall : tmw_call (tm_client_call_w FRtu k la cfg txn o t0 reads room c s) =
                  tm_client_call FRtu k la cfg txn o t0 c s).
  { destruct (client_request cfg o) as [req|x| |] eqn:Hreq.
    - destruct (tm_blocked reads room (Z.of_nat (length (tm_req_frame FRtu txn req)))) eqn:Hb.
      + rewrite (tm_call_w_blocked FRtu k la cfg txn o t0 reads room c s req Hreq Hb) in Hbl.
        discriminate Hbl.
      + rewrite (tm_call_w_fits FRtu k la cfg txn o t0 reads room c s req Hreq Hb). reflexivity.
    - rewrite tm_call_w_local by (intros req; rewrite Hreq; discriminate). reflexivity.
    - rewrite tm_call_w_local by (intros req; rewrite Hreq; discriminate). reflexivity.
    - rewrite tm_call_w_local by (intros req; rewrite Hreq; discriminate). reflexivity. }
  rewrite Hcall in *. clear Hcall Hbl.
  unfold tm_rtu_call. rewrite (tm_rtu_finish_txn k la cfg 0 txn o t0 c s).
  destruct (client_request cfg o) as [req|x| |] eqn:Hreq; cbn [snd]; try lia.
  destruct (tm_client_call_ok FRtu k la cfg txn o t0 c s req Hreq) as (_ & Hf & _).
  cbn [tm_xchg] in Hf. rewrite Hf.
  set (nreq := Z.of_nat (length (assemble_rtu req))) in *.
  assert (Hn : (0 <= nreq)%Z) by (unfold nreq; lia).
  pose proof (rtu_exchange_ge_start k la t0 nreq c s Hk Hn) as Hge.
  destruct (rtu_exchange_t k la t0 nreq c s) as [[r t] rest]. cbn [fst snd].
  destruct Hk as (Ht & H1 & H35 & Hg).
  pose proof (Z.mul_nonneg_nonneg _ _ Hn H1).
  unfold tm_rtu_read_start in Hge. rewrite tm_rtu_ts_eq.
  destruct r as [p|x| |]; cbn [snd]; try lia.
  destruct x; cbn [snd]; lia.
Qed.

(* every call of every session returns within the configuration-only bound
   counted from its own start, whatever the peer reads or sends *)
Lemma tm_session_w_time fr k cfg : tm_conf_wf k -> forall calls la txn room now rest,
  Forall (fun cl => op_wf (fst (fst cl))) calls -> (la <= now)%Z ->
  Forall (fun p => (tws_start (snd p) <= tws_finish (snd p)
                    <= tm_call_bound fr k cfg (fst (fst (fst p))) (tws_start (snd p)))%Z)
    (combine calls (tm_session_w fr k cfg la txn room now rest calls)).
Proof.
  intros Hk. induction calls as [|[[o reads] s] cs IH]; intros la txn room now rest Hops Hla;
    cbn [tm_session_w combine]; [constructor|].
  inversion Hops as [|x l Ho Hcs]; subst. cbn [fst] in Ho.
  set (s' := rest ++ tm_shift now s).
  pose proof (tm_call_w_time fr k la cfg txn o now reads room None s' Ho Hk Hla) as Hb.
  pose proof (tm_next_la_le fr k la cfg txn o now reads room None s' Ho Hk Hla) as Hl.
  cbv zeta in Hl.
  constructor.
  - cbn [fst snd tws_start tws_finish]. exact Hb.
  - apply IH; [exact Hcs|exact Hl].
Qed.

(* the same with the session unrolled: the steps are as many as the calls *)
Lemma tm_session_w_length fr k cfg : forall calls la txn room now rest,
  length (tm_session_w fr k cfg la txn room now rest calls) = length calls.
Proof.
  induction calls as [|[[o reads] s] cs IH]; intros; cbn [tm_session_w length]; [reflexivity|].
  f_equal. apply IH.
Qed.

(* a polling application against a dead peer (reads nothing, sends nothing,
   keeps the connection open): EVERY call is a request-timed-out, for every
   amount of room the link had left when the peer died *)
Lemma tm_dead_session_mbap k cfg : (0 <= tm_timeout k)%Z -> forall ops la txn room now,
  Forall op_wf ops -> Forall (fun o => valid_op o = true) ops ->
  Forall (fun st => tws_res st = Err ETimeout /\
                    tws_finish st = (tws_start st + tm_timeout k)%Z)
    (tm_session_w FMbap k cfg la txn room now [] (tm_dead_calls ops)).
Proof.
  intros Ht. induction ops as [|o ops IH]; intros la txn room now Hwf Hv;
    cbn [tm_dead_calls map tm_session_w]; [constructor|].
  inversion Hwf as [|x l Ho Hos]; subst. inversion Hv as [|x l Vo Vos]; subst.
  cbn [app tm_shift map].
  rewrite (tm_silent_any_room_mbap k la cfg txn o now false room Ho Vo Ht).
  cbn [tmc_res tmc_finish tmc_rest]. constructor.
  - cbn [tws_res tws_finish tws_start]. split; reflexivity.
  - apply IH; assumption.
Qed.

Lemma tm_dead_session_rtu k cfg : tm_conf_wf k -> tm_gran k = 0%Z -> forall ops la txn room now,
  Forall op_wf ops -> Forall (fun o => valid_op o = true) ops ->
  Forall (fun st => tws_res st = Err ETimeout /\
                    (tws_start st + tm_timeout k <= tws_finish st)%Z)
    (tm_session_w FRtu k cfg la txn room now [] (tm_dead_calls ops)).
Proof.
  intros Hk Hg. induction ops as [|o ops IH]; intros la txn room now Hwf Hv;
    cbn [tm_dead_calls map tm_session_w]; [constructor|].
  inversion Hwf as [|x l Ho Hos]; subst. inversion Hv as [|x l Vo Vos]; subst.
  cbn [app tm_shift map].
  destruct (tm_silent_any_room_rtu k la cfg txn o now false room Ho Vo Hk Hg) as (H1 & H2 & H3).
  rewrite H3. constructor.
  - cbn [tws_res tws_finish tws_start]. split; assumption.
  - apply IH; assumption.
Qed.
