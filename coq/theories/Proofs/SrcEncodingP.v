(* encoding.go as translated from the Go source (Gen/SrcPure.v) computes the
   model of Model/Encoding.v, for every input: scalar codecs (straight-line
   code, symbolic evaluation) and bytesToUint16s (loop invariant). The other
   list codecs are in SrcEncoding2P.v / SrcBoolsP.v. *)
From Coq Require Import List NArith String Lia Bool.
From Coq Require Import ZifyBool ZifyNat ZifyN.
Import ListNotations.
From Modbus Require Import Base.Bytes Model.GoLite Gen.SrcPure Model.Crc Model.Encoding.
From Modbus Require Import Proofs.GoLiteP Proofs.SrcCrcP.
Open Scope N_scope.

(* ---------------------------------------------------------------- scalar codecs *)

Lemma run_uint32ToBytes fe fuel e w v :
  run_fn ge fe fuel src_fn_uint32ToBytes [VN (endian_sel e); VN (word_sel w); VN v] =
  Ok [vbytes (u32_to_bytes e w v)].
Proof. destruct e, w; gl_eval; reflexivity. Qed.

Lemma run_uint64ToBytes fe fuel e w v :
  run_fn ge fe fuel src_fn_uint64ToBytes [VN (endian_sel e); VN (word_sel w); VN v] =
  Ok [vbytes (u64_to_bytes e w v)].
Proof. destruct e, w; gl_eval; reflexivity. Qed.

Lemma run_float32ToBytes fe fuel e w v :
  (forall e w v, fe "uint32ToBytes"%string [VN (endian_sel e); VN (word_sel w); VN v] =
                 Ok [vbytes (u32_to_bytes e w v)]) ->
  run_fn ge fe fuel src_fn_float32ToBytes [VN (endian_sel e); VN (word_sel w); VN v] =
  Ok [vbytes (u32_to_bytes e w v)].
Proof.
  intros Hc. unfold run_fn.
  cbn [f_nparams f_zeros f_outs f_results f_body src_fn_float32ToBytes List.length Nat.eqb negb app].
  cbn [exec resolve eval evals rbind store set_slot sset get_slot sget].
  rewrite Hc. reflexivity.
Qed.

Lemma run_float64ToBytes fe fuel e w v :
  (forall e w v, fe "uint64ToBytes"%string [VN (endian_sel e); VN (word_sel w); VN v] =
                 Ok [vbytes (u64_to_bytes e w v)]) ->
  run_fn ge fe fuel src_fn_float64ToBytes [VN (endian_sel e); VN (word_sel w); VN v] =
  Ok [vbytes (u64_to_bytes e w v)].
Proof.
  intros Hc. unfold run_fn.
  cbn [f_nparams f_zeros f_outs f_results f_body src_fn_float64ToBytes List.length Nat.eqb negb app].
  cbn [exec resolve eval evals rbind store set_slot sset get_slot sget].
  rewrite Hc. reflexivity.
Qed.

(* ---------------------------------------------------------------- bytesToUint16s *)

Definition b2u16s_parts : expr * stmt * stmt :=
  Eval cbv in match f_body src_fn_bytesToUint16s with
              | SSeq (SSeq _ (SFor c p b)) _ => (c, p, b)
              | _ => (EB false, SSkip, SSkip)
              end.
Definition b2u16s_cond := fst (fst b2u16s_parts).
Definition b2u16s_post := snd (fst b2u16s_parts).
Definition b2u16s_body := snd b2u16s_parts.

Section B2U16s.
  Variable fe : fenv.
  Variable fuel : nat.
  Variable e : endian.
  Hypothesis Hc : forall l, fe "bytesToUint16"%string [VN (endian_sel e); vbytes l] =
                            match bytes_to_u16 e l with Some v => Ok [VN v] | None => Panic end.

  Let condf := fun st' : state => eval ge fe st' b2u16s_cond.
  Let bodyf := fun st' : state => exec ge fe fuel st' b2u16s_body.
  Let postf := fun st' : state => exec ge fe fuel st' b2u16s_post.

  Lemma b2u16s_cond_eval inl out i :
    condf [VN (endian_sel e); VL inl; out; VN i] = Ok (VB (i <? lenN inl)).
  Proof. reflexivity. Qed.

  Lemma b2u16s_post_eval inl out i : i + 2 < 2 ^ 63 ->
    postf [VN (endian_sel e); inl; out; VN i] = ONormal [VN (endian_sel e); inl; out; VN (i + 2)].
  Proof.
    intros Hi. unfold postf. gl_eval_sym.
    replace (i + 2 <? 2 ^ 63) with true by lia. reflexivity.
  Qed.

  Lemma b2u16s_body_eval pre a b t acc :
    N.of_nat (List.length (pre ++ a :: b :: t)) < 2 ^ 62 ->
    bodyf [VN (endian_sel e); vbytes (pre ++ a :: b :: t); vbytes acc; VN (N.of_nat (List.length pre))] =
    ONormal [VN (endian_sel e); vbytes (pre ++ a :: b :: t);
             vbytes (acc ++ [match e with BigE => a * 256 + b | LittleE => b * 256 + a end]);
             VN (N.of_nat (List.length pre))].
  Proof.
    intros Hlen. unfold bodyf, vbytes. gl_eval_sym.
    rewrite map_length. rewrite app_length in *. cbn [List.length] in *.
    replace (N.of_nat (List.length pre) + 2 <? 2 ^ 63) with true by lia.
    replace (N.of_nat (List.length pre) <=? N.of_nat (List.length pre) + 2) with true by lia.
    replace (N.of_nat (List.length pre) + 2 <=? N.of_nat (List.length pre + S (S (List.length t)))) with true by lia.
    rewrite Nat2N.id. rewrite skipn_map_app.
    replace (N.to_nat (N.of_nat (List.length pre) + 2 - N.of_nat (List.length pre))) with 2%nat by lia.
    cbn [map firstn].
    change (VN match e with BigE => 1 | LittleE => 2 end) with (VN (endian_sel e)).
    change [VN a; VN b] with (map VN [a; b]).
    change (VL (map VN [a; b])) with (vbytes [a; b]).
    rewrite Hc. cbn [bytes_to_u16].
    rewrite !map_app. reflexivity.
  Qed.

  Lemma b2u16s_body_short pre a acc :
    N.of_nat (List.length (pre ++ [a])) < 2 ^ 62 ->
    bodyf [VN (endian_sel e); vbytes (pre ++ [a]); vbytes acc; VN (N.of_nat (List.length pre))] = OFail Panic.
  Proof.
    intros Hlen. unfold bodyf, vbytes. gl_eval_sym.
    rewrite map_length. rewrite app_length in *. cbn [List.length] in *.
    replace (N.of_nat (List.length pre) + 2 <? 2 ^ 63) with true by lia.
    replace (N.of_nat (List.length pre) <=? N.of_nat (List.length pre) + 2) with true by lia.
    replace (N.of_nat (List.length pre) + 2 <=? N.of_nat (List.length pre + 1)) with false by lia.
    reflexivity.
  Qed.

  Lemma b2u16s_loop : forall rest pre acc n,
    N.of_nat (List.length (pre ++ rest)) < 2 ^ 62 -> (List.length rest < n)%nat ->
    for_go n condf bodyf postf
           [VN (endian_sel e); vbytes (pre ++ rest); vbytes acc; VN (N.of_nat (List.length pre))] =
    match bytes_to_u16s e rest with
    | Some r => ONormal [VN (endian_sel e); vbytes (pre ++ rest); vbytes (acc ++ r);
                         VN (N.of_nat (List.length (pre ++ rest)))]
    | None => OFail Panic
    end.
  Proof.
    induction rest as [|a|a b t IH] using list_ind2; intros pre acc n Hlen Hn.
    - destruct n as [|n]; [cbn in Hn; lia|].
      rewrite for_go_exit.
      + cbn [bytes_to_u16s]. rewrite !app_nil_r. reflexivity.
      + unfold vbytes. rewrite b2u16s_cond_eval. unfold lenN. rewrite map_length, app_nil_r.
        replace (N.of_nat (List.length pre) <? N.of_nat (List.length pre)) with false by lia. reflexivity.
    - destruct n as [|n]; [cbn in Hn; lia|].
      cbn [bytes_to_u16s].
      apply for_go_body_fail.
      + unfold vbytes. rewrite b2u16s_cond_eval. unfold lenN. rewrite map_length, app_length. cbn [List.length].
        replace (N.of_nat (List.length pre) <? N.of_nat (List.length pre + 1)) with true by lia. reflexivity.
      + apply b2u16s_body_short. exact Hlen.
    - destruct n as [|n]; [cbn in Hn; lia|].
      erewrite for_go_step.
      2:{ unfold vbytes. rewrite b2u16s_cond_eval. unfold lenN. rewrite map_length, app_length. cbn [List.length].
          replace (N.of_nat (List.length pre) <? N.of_nat (List.length pre + S (S (List.length t)))) with true by lia.
          reflexivity. }
      2:{ apply b2u16s_body_eval. exact Hlen. }
      2:{ apply b2u16s_post_eval. rewrite app_length in Hlen. cbn [List.length] in Hlen. lia. }
      replace (N.of_nat (List.length pre) + 2) with (N.of_nat (List.length (pre ++ [a; b])))
        by (rewrite app_length; cbn [List.length]; lia).
      replace (pre ++ a :: b :: t) with ((pre ++ [a; b]) ++ t) by (rewrite <- app_assoc; reflexivity).
      rewrite IH.
      + cbn [bytes_to_u16s]. destruct (bytes_to_u16s e t) as [r|]; [|reflexivity].
        rewrite <- !app_assoc. reflexivity.
      + rewrite <- app_assoc. exact Hlen.
      + cbn [List.length] in Hn. lia.
  Qed.
End B2U16s.

Lemma run_bytesToUint16s fe fuel e l :
  (forall l, fe "bytesToUint16"%string [VN (endian_sel e); vbytes l] =
             match bytes_to_u16 e l with Some v => Ok [VN v] | None => Panic end) ->
  N.of_nat (List.length l) < 2 ^ 62 -> (List.length l < fuel)%nat ->
  run_fn ge fe fuel src_fn_bytesToUint16s [VN (endian_sel e); vbytes l] =
  match bytes_to_u16s e l with Some r => Ok [vbytes r] | None => Panic end.
Proof.
  intros Hc Hlen Hfuel.
  pose proof (b2u16s_loop fe fuel e Hc l [] [] fuel Hlen Hfuel) as E.
  cbn [app List.length N.of_nat] in E.
  unfold run_fn.
  change (f_body src_fn_bytesToUint16s) with
    (SSeq (SSeq (SSet (LVar 3) (EN 0)) (SFor b2u16s_cond b2u16s_post b2u16s_body)) (SReturn ENil)).
  cbn [f_nparams f_zeros f_outs f_results src_fn_bytesToUint16s List.length Nat.eqb negb app].
  cbn [exec resolve eval rbind store set_slot sset get_slot sget].
  change (VL []) with (vbytes []).
  rewrite E.
  destruct (bytes_to_u16s e l) as [r|]; reflexivity.
Qed.
