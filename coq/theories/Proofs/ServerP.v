(* Proofs about the server model (Model/Server.v): per-request behaviour
   against Spec/ServerSpec.v and session-level facts. *)
From Modbus Require Import Base.Bytes Model.Encoding Model.Wire Model.Server
  Spec.ModbusSpec Spec.ServerSpec Spec.ServerSessionSpec
  Proofs.EncodingP Proofs.BoolsP Proofs.MbapServerP.
From Coq Require Import ZifyBool ZifyNat ZifyN.
Ltac Zify.zify_post_hook ::= Z.div_mod_to_equations.

(* ------------------------------------------------------------- helpers *)

Lemma sequence_length {A} (l : list (option A)) r : sequence l = Some r -> length r = length l.
Proof.
  revert r; induction l as [|[x|] t IH]; intros r H; cbn [sequence] in H.
  - injection H as <-. reflexivity.
  - destruct (sequence t) as [r'|]; [|discriminate]. injection H as <-.
    cbn [length]. f_equal. apply IH. reflexivity.
  - discriminate.
Qed.

Lemma decode_bools_length q bs l : decode_bools q bs = Some l -> length l = q.
Proof.
  unfold decode_bools. intros H. apply sequence_length in H.
  rewrite map_length, seq_length in H. exact H.
Qed.

(* decodeBools never indexes out of range when enough bytes are present *)
Lemma decode_bools_total q bs : (q <= 8 * length bs)%nat -> exists l, decode_bools q bs = Some l.
Proof.
  intros Hq. unfold decode_bools.
  eexists. apply (sequence_map_some _ (fun i => N.testbit (nth (i / 8) bs 0) (N.of_nat (i mod 8)))).
  intros i Hi. apply in_seq in Hi. unfold decode_bool_at.
  rewrite (nth_error_nth' bs 0) by lia. reflexivity.
Qed.

Lemma bytes_to_u16s_length e l vs : bytes_to_u16s e l = Some vs -> length l = (2 * length vs)%nat.
Proof.
  revert vs; induction l as [|a|a b t IH] using list_ind2; intros vs H; cbn [bytes_to_u16s] in H.
  - injection H as <-. reflexivity.
  - discriminate.
  - destruct (bytes_to_u16s e t) as [r|]; [|discriminate]. injection H as <-.
    cbn [length]. rewrite (IH r eq_refl). lia.
Qed.

Lemma bytes_to_u16s_words l vs : bytesb l = true -> bytes_to_u16s BigE l = Some vs ->
  Forall (fun v => v < 65536) vs.
Proof.
  revert vs; induction l as [|a|a b t IH] using list_ind2; intros vs Hb H; cbn [bytes_to_u16s] in H.
  - injection H as <-. constructor.
  - discriminate.
  - destruct (bytes_to_u16s BigE t) as [r|]; [|discriminate]. injection H as <-.
    apply bytesb_cons in Hb. destruct Hb as [Ha Hb]. apply bytesb_cons in Hb. destruct Hb as [Hb' Hb].
    constructor; [lia|]. apply IH; [exact Hb|reflexivity].
Qed.

Lemma u16s_be_layout vs : Forall (fun v => v < 65536) vs ->
  u16s_to_bytes BigE vs = flat_map (fun v => [v / 256; v mod 256]) vs.
Proof.
  induction 1 as [|v vs Hv _ IH]; [reflexivity|].
  unfold u16s_to_bytes in *. cbn [flat_map]. rewrite IH. f_equal.
  unfold u16_to_bytes, byte_of. change (2 ^ (8 * 1)) with 256. change (2 ^ (8 * 0)) with 1.
  cbn [app]. f_equal; [lia|f_equal; lia].
Qed.

(* the error bit on a function code below 0x80 adds 128 *)
Lemma err_fc_small fc : fc < 128 -> err_fc fc = fc + 128.
Proof.
  intros H. unfold err_fc. rewrite N.lor_comm.
  rewrite <- N.lxor_lor, <- N.add_nocarry_lxor; try reflexivity.
  all: apply N.bits_inj_0; intros n; rewrite N.land_spec;
    destruct (N.lt_ge_cases n 7) as [Hn|Hn].
  1,3: change 128 with (2 ^ 7); rewrite (N.pow2_bits_false 7 n) by lia; apply andb_false_r.
  all: rewrite (N.bits_above_log2 fc n); [reflexivity|];
    destruct (N.eq_dec fc 0) as [->|Hz]; [cbn; lia|];
    apply N.log2_lt_pow2; [lia|]; apply N.lt_le_trans with (2 ^ 7); [exact H|apply N.pow_le_mono_r; lia].
Qed.

Ltac ground_eqb :=
  repeat match goal with
  | |- context [N.eqb ?a ?b] =>
      let v := eval vm_compute in (N.eqb a b) in
      match v with true => idtac | false => idtac end;
      change (N.eqb a b) with v
  end.

Section Proc.
  Context {St : Type} (h : handler St).

  Definition process_ok (st : St) (p : pdu) : Prop :=
    let '(st', calls, act) := server_process h st p in
    match spec_decode p with
    | Some r =>
        if in_range r
        then calls = [r] /\ hreq_ok r /\ st' = fst (h st r) /\
             act = Respond (spec_response p r (snd (h st r)))
        else calls = [] /\ st' = st /\ act = Respond (mkpdu (p_unit p) (err_fc (p_fc p)) [2])
    | None =>
        calls = [] /\ st' = st /\
        if supported_fc (p_fc p)
        then act = CloseLink \/ act = Respond (mkpdu (p_unit p) (err_fc (p_fc p)) [2])
             \/ act = Respond (mkpdu (p_unit p) (err_fc (p_fc p)) [3])
        else act = Respond (mkpdu (p_unit p) (err_fc (p_fc p)) [1])
    end.

  Lemma proc_readbits st u fc pl : fc = 1 \/ fc = 2 ->
    pdu_wf (mkpdu u fc pl) -> handler_wf h -> process_ok st (mkpdu u fc pl).
  Proof.
    intros Hfc (Hu & _ & Hb & _) Hwf. cbn [p_unit p_fc p_payload] in *.
    unfold process_ok, server_process. cbn [p_unit p_fc p_payload].
    destruct Hfc as [-> | ->]; ground_eqb; cbn [orb].
    all: destruct pl as [|a1 [|a0 [|q1 [|q0 [|x pl]]]]]; cbn [length Nat.eqb negb].
    all: try (cbn [spec_decode p_unit p_fc p_payload]; repeat split; left; reflexivity).
    all: cbn [skipn be_word spec_decode p_unit p_fc p_payload]; unfold be2.
    all: apply bytesb_cons in Hb; destruct Hb as [Ha1 Hb]; apply bytesb_cons in Hb; destruct Hb as [Ha0 Hb];
      apply bytesb_cons in Hb; destruct Hb as [Hq1 Hb]; apply bytesb_cons in Hb; destruct Hb as [Hq0 _].
    all: remember (a1 * 256 + a0) as addr eqn:Haddr; remember (q1 * 256 + q0) as q eqn:Hq.
    all: destruct ((2000 <? q) || (q =? 0)) eqn:E1;
      [replace ((1 <=? q) && (q <=? 2000)) with false by lia; repeat split; left; reflexivity|].
    all: replace ((1 <=? q) && (q <=? 2000)) with true by lia.
    all: unfold in_range; cbn [h_addr h_qty].
    all: destruct (65535 <? addr + q - 1) eqn:E2;
      [replace (addr + q - 1 <=? 65535) with false by lia; repeat split; reflexivity|].
    all: replace (addr + q - 1 <=? 65535) with true by lia.
    all: match goal with |- context [h ?s ?r] => destruct (h s r) as [st1 res] eqn:Eh end; cbn [fst snd].
    all: unfold spec_response; cbn [h_kind h_write h_qty].
    all: destruct (r_err res) as [|c| |] eqn:Er; cbn [norm_herr herr_code].
    all: try (destruct (lenN (r_bools res) =? q) eqn:El; cbn [negb]).
    all: cbn [p_unit p_fc p_payload].
    all: (split; [reflexivity|split; [unfold hreq_ok; cbn [h_kind h_write h_addr h_qty h_unit]; lia|split; [reflexivity|]]]).
    all: try reflexivity.
    all: rewrite encode_bools_spec; f_equal; f_equal; f_equal; unfold u8;
      apply N.eqb_eq in El; rewrite El; destruct (q mod 8 =? 0) eqn:Em; lia.
  Qed.

  Ltac bytes4 Hb a b c d :=
    apply bytesb_cons in Hb; destruct Hb as [a Hb]; apply bytesb_cons in Hb; destruct Hb as [b Hb];
    apply bytesb_cons in Hb; destruct Hb as [c Hb]; apply bytesb_cons in Hb; destruct Hb as [d Hb].

  Ltac hreq_ok_tac :=
    unfold hreq_ok, lenN; cbn [h_kind h_write h_addr h_qty h_unit h_bools h_regs length];
    repeat split; try lia.

  Ltac fin_call :=
    split; [reflexivity|split; [hreq_ok_tac|split; [reflexivity|]]].

  Lemma proc_readregs st u fc pl : fc = 3 \/ fc = 4 ->
    pdu_wf (mkpdu u fc pl) -> handler_wf h -> process_ok st (mkpdu u fc pl).
  Proof.
    intros Hfc (Hu & _ & Hb & _) Hwf. cbn [p_unit p_fc p_payload] in *.
    unfold process_ok, server_process. cbn [p_unit p_fc p_payload].
    destruct Hfc as [-> | ->]; ground_eqb; cbn [orb].
    all: destruct pl as [|a1 [|a0 [|q1 [|q0 [|x pl]]]]]; cbn [length Nat.eqb negb].
    all: try (cbn [spec_decode p_unit p_fc p_payload]; repeat split; left; reflexivity).
    all: cbn [skipn be_word spec_decode p_unit p_fc p_payload]; unfold be2.
    all: bytes4 Hb Ha1 Ha0 Hq1 Hq0.
    all: remember (a1 * 256 + a0) as addr eqn:Haddr; remember (q1 * 256 + q0) as q eqn:Hq.
    all: destruct ((125 <? q) || (q =? 0)) eqn:E1;
      [replace ((1 <=? q) && (q <=? 125)) with false by lia; repeat split; left; reflexivity|].
    all: replace ((1 <=? q) && (q <=? 125)) with true by lia.
    all: unfold in_range; cbn [h_addr h_qty].
    all: destruct (65535 <? addr + q - 1) eqn:E2;
      [replace (addr + q - 1 <=? 65535) with false by lia; repeat split; reflexivity|].
    all: replace (addr + q - 1 <=? 65535) with true by lia.
    all: match goal with |- context [h ?s ?r] =>
           pose proof (proj1 (Hwf s r)) as Hregs; destruct (h s r) as [st1 res] eqn:Eh end; cbn [fst snd] in *.
    all: unfold spec_response; cbn [h_kind h_write h_qty].
    all: destruct (r_err res) as [|c| |] eqn:Er; cbn [norm_herr herr_code].
    all: try (destruct (lenN (r_regs res) =? q) eqn:El; cbn [negb]).
    all: cbn [p_unit p_fc p_payload].
    all: fin_call.
    all: try reflexivity.
    all: rewrite (u16s_be_layout _ Hregs); f_equal; f_equal; f_equal; unfold u8; lia.
  Qed.

  Lemma proc_writecoil st u pl :
    pdu_wf (mkpdu u 5 pl) -> handler_wf h -> process_ok st (mkpdu u 5 pl).
  Proof.
    intros (Hu & _ & Hb & _) Hwf. cbn [p_unit p_fc p_payload] in *.
    unfold process_ok, server_process. cbn [p_unit p_fc p_payload].
    ground_eqb; cbn [orb].
    destruct pl as [|a1 [|a0 [|v1 [|v0 [|x pl]]]]]; cbn [length Nat.eqb negb].
    all: try (cbn [spec_decode p_unit p_fc p_payload]; repeat split; left; reflexivity).
    cbn [nth skipn be_word spec_decode p_unit p_fc p_payload]; unfold be2.
    bytes4 Hb Ha1 Ha0 Hv1 Hv0.
    remember (a1 * 256 + a0) as addr eqn:Haddr.
    destruct ((negb (v1 =? 255) && negb (v1 =? 0)) || negb (v0 =? 0)) eqn:E1;
      [replace (((v1 =? 255) || (v1 =? 0)) && (v0 =? 0)) with false by lia; repeat split; left; reflexivity|].
    replace (((v1 =? 255) || (v1 =? 0)) && (v0 =? 0)) with true by lia.
    unfold in_range; cbn [h_addr h_qty].
    replace (addr + 1 - 1 <=? 65535) with true by lia.
    match goal with |- context [h ?s ?r] => destruct (h s r) as [st1 res] eqn:Eh end; cbn [fst snd].
    unfold spec_response; cbn [h_kind h_write h_qty].
    destruct (r_err res) as [|c| |] eqn:Er; cbn [norm_herr herr_code].
    all: cbn [p_unit p_fc p_payload].
    all: fin_call.
    all: try reflexivity.
    unfold be16. cbn [app firstn]. do 2 f_equal. f_equal; [lia|f_equal; lia].
  Qed.

  Lemma proc_writereg st u pl :
    pdu_wf (mkpdu u 6 pl) -> handler_wf h -> process_ok st (mkpdu u 6 pl).
  Proof.
    intros (Hu & _ & Hb & _) Hwf. cbn [p_unit p_fc p_payload] in *.
    unfold process_ok, server_process. cbn [p_unit p_fc p_payload].
    ground_eqb; cbn [orb].
    destruct pl as [|a1 [|a0 [|v1 [|v0 [|x pl]]]]]; cbn [length Nat.eqb negb].
    all: try (cbn [spec_decode p_unit p_fc p_payload]; repeat split; left; reflexivity).
    cbn [nth skipn be_word spec_decode p_unit p_fc p_payload]; unfold be2.
    bytes4 Hb Ha1 Ha0 Hv1 Hv0.
    remember (a1 * 256 + a0) as addr eqn:Haddr. remember (v1 * 256 + v0) as v eqn:Hv.
    unfold in_range; cbn [h_addr h_qty].
    replace (addr + 1 - 1 <=? 65535) with true by lia.
    match goal with |- context [h ?s ?r] => destruct (h s r) as [st1 res] eqn:Eh end; cbn [fst snd].
    unfold spec_response; cbn [h_kind h_write h_qty].
    destruct (r_err res) as [|c| |] eqn:Er; cbn [norm_herr herr_code].
    all: cbn [p_unit p_fc p_payload].
    all: fin_call.
    all: try (repeat constructor; lia).
    all: try reflexivity.
    unfold be16. cbn [app firstn]. do 2 f_equal. f_equal; [lia|f_equal; [lia|f_equal; [lia|f_equal; lia]]].
  Qed.

  Lemma proc_writecoils st u pl :
    pdu_wf (mkpdu u 15 pl) -> handler_wf h -> process_ok st (mkpdu u 15 pl).
  Proof.
    intros (Hu & _ & Hb & _) Hwf. cbn [p_unit p_fc p_payload] in *.
    unfold process_ok, server_process. cbn [p_unit p_fc p_payload].
    ground_eqb; cbn [orb].
    destruct pl as [|a1 [|a0 [|q1 [|q0 [|bc [|d0 data]]]]]]; cbn [length Nat.ltb Nat.leb].
    1-5: try (cbn [spec_decode p_unit p_fc p_payload]; repeat split; left; reflexivity).
    - (* five bytes: no data *)
      cbn [spec_decode p_unit p_fc p_payload]. unfold be2, lenN. cbn [length N.of_nat].
      replace ((1 <=? q1 * 256 + q0) && (q1 * 256 + q0 <=? 1968) && (bc =? (q1 * 256 + q0 + 7) / 8) &&
               (0 =? (q1 * 256 + q0 + 7) / 8)) with false by lia.
      repeat split; left; reflexivity.
    - remember (d0 :: data) as dat eqn:Hdat.
      replace (lenN (a1 :: a0 :: q1 :: q0 :: bc :: dat) - 5) with (lenN dat)
        by (unfold lenN; cbn [length]; lia).
      cbn [nth skipn be_word spec_decode p_unit p_fc p_payload]; unfold be2.
      bytes4 Hb Ha1 Ha0 Hq1 Hq0. apply bytesb_cons in Hb. destruct Hb as [Hbc Hb].
      remember (a1 * 256 + a0) as addr eqn:Haddr; remember (q1 * 256 + q0) as q eqn:Hq.
      destruct ((1968 <? q) || (q =? 0)) eqn:E1.
      { replace ((1 <=? q) && (q <=? 1968) && (bc =? (q + 7) / 8) && (lenN dat =? (q + 7) / 8))
          with false by lia. repeat split; left; reflexivity. }
      replace (q / 8 + (if q mod 8 =? 0 then 0 else 1)) with ((q + 7) / 8)
        by (destruct (q mod 8 =? 0) eqn:Em; lia).
      unfold u8. replace (((q + 7) / 8) mod 256) with ((q + 7) / 8) by lia.
      replace ((1 <=? q) && (q <=? 1968)) with true by lia. cbn [andb].
      unfold in_range.
      destruct (65535 <? addr + q - 1) eqn:E2.
      { destruct ((bc =? (q + 7) / 8) && (lenN dat =? (q + 7) / 8));
          [destruct (decode_bools (N.to_nat q) dat) as [args|]|].
        - cbn [h_addr h_qty]. replace (addr + q - 1 <=? 65535) with false by lia.
          repeat split; reflexivity.
        - repeat split; right; left; reflexivity.
        - repeat split; right; left; reflexivity. }
      destruct (bc =? (q + 7) / 8) eqn:E3; cbn [negb andb]; [|repeat split; left; reflexivity].
      destruct (lenN dat =? (q + 7) / 8) eqn:E4; cbn [negb andb]; [|repeat split; left; reflexivity].
      destruct (decode_bools (N.to_nat q) dat) as [args|] eqn:Ed; [|repeat split; left; reflexivity].
      apply decode_bools_length in Ed.
      cbn [h_addr h_qty]. replace (addr + q - 1 <=? 65535) with true by lia.
      match goal with |- context [h ?s ?r] => destruct (h s r) as [st1 res] eqn:Eh end; cbn [fst snd].
      unfold spec_response; cbn [h_kind h_write h_qty].
      destruct (r_err res) as [|c| |] eqn:Er; cbn [norm_herr herr_code].
      all: cbn [p_unit p_fc p_payload].
      all: fin_call.
      all: try reflexivity.
      unfold be16. cbn [app firstn]. do 2 f_equal. f_equal; [lia|f_equal; [lia|f_equal; [lia|f_equal; lia]]].
  Qed.

  Lemma proc_writeregs st u pl :
    pdu_wf (mkpdu u 16 pl) -> handler_wf h -> process_ok st (mkpdu u 16 pl).
  Proof.
    intros (Hu & _ & Hb & _) Hwf. cbn [p_unit p_fc p_payload] in *.
    unfold process_ok, server_process. cbn [p_unit p_fc p_payload].
    ground_eqb; cbn [orb].
    destruct pl as [|a1 [|a0 [|q1 [|q0 [|bc [|d0 data]]]]]]; cbn [length Nat.ltb Nat.leb].
    1-5: try (cbn [spec_decode p_unit p_fc p_payload]; repeat split; left; reflexivity).
    - cbn [spec_decode p_unit p_fc p_payload]. unfold be2, lenN. cbn [length N.of_nat].
      replace ((1 <=? q1 * 256 + q0) && (q1 * 256 + q0 <=? 123) && (bc =? 2 * (q1 * 256 + q0)) &&
               (0 =? 2 * (q1 * 256 + q0))) with false by lia.
      repeat split; left; reflexivity.
    - remember (d0 :: data) as dat eqn:Hdat.
      replace (lenN (a1 :: a0 :: q1 :: q0 :: bc :: dat) - 5) with (lenN dat)
        by (unfold lenN; cbn [length]; lia).
      cbn [nth skipn be_word spec_decode p_unit p_fc p_payload]; unfold be2.
      bytes4 Hb Ha1 Ha0 Hq1 Hq0. apply bytesb_cons in Hb. destruct Hb as [Hbc Hb].
      remember (a1 * 256 + a0) as addr eqn:Haddr; remember (q1 * 256 + q0) as q eqn:Hq.
      destruct ((123 <? q) || (q =? 0)) eqn:E1.
      { replace ((1 <=? q) && (q <=? 123) && (bc =? 2 * q) && (lenN dat =? 2 * q))
          with false by lia. repeat split; left; reflexivity. }
      replace (q * 2) with (2 * q) by lia.
      unfold u8. replace ((2 * q) mod 256) with (2 * q) by lia.
      replace ((1 <=? q) && (q <=? 123)) with true by lia. cbn [andb].
      unfold in_range.
      destruct (65535 <? addr + q - 1) eqn:E2.
      { destruct ((bc =? 2 * q) && (lenN dat =? 2 * q));
          [destruct (bytes_to_u16s BigE dat) as [args|]|].
        - cbn [h_addr h_qty]. replace (addr + q - 1 <=? 65535) with false by lia.
          repeat split; reflexivity.
        - repeat split; right; left; reflexivity.
        - repeat split; right; left; reflexivity. }
      destruct (bc =? 2 * q) eqn:E3; cbn [negb andb]; [|repeat split; left; reflexivity].
      destruct (lenN dat =? 2 * q) eqn:E4; cbn [negb andb]; [|repeat split; left; reflexivity].
      destruct (bytes_to_u16s BigE dat) as [args|] eqn:Ed; [|repeat split; left; reflexivity].
      pose proof (bytes_to_u16s_words _ _ Hb Ed) as Hargs.
      apply bytes_to_u16s_length in Ed. unfold lenN in E4.
      cbn [h_addr h_qty]. replace (addr + q - 1 <=? 65535) with true by lia.
      match goal with |- context [h ?s ?r] => destruct (h s r) as [st1 res] eqn:Eh end; cbn [fst snd].
      unfold spec_response; cbn [h_kind h_write h_qty].
      destruct (r_err res) as [|c| |] eqn:Er; cbn [norm_herr herr_code].
      all: cbn [p_unit p_fc p_payload].
      all: fin_call.
      all: try exact Hargs.
      all: try reflexivity.
      unfold be16. cbn [app firstn]. do 2 f_equal. f_equal; [lia|f_equal; [lia|f_equal; [lia|f_equal; lia]]].
  Qed.

  Lemma spec_decode_unsupported u fc pl : supported_fc fc = false -> spec_decode (mkpdu u fc pl) = None.
  Proof.
    unfold spec_decode. cbn [p_fc p_payload p_unit].
    destruct fc as [|[[[[[f|f|]|[f|f|]|]|[[f|f|]|[f|f|]|]|]|[[[f|f|]|[f|f|]|]|[[f|f|]|[f|f|]|]|]|]|[[[[f|f|]|[f|f|]|]|[[f|f|]|[f|f|]|]|]|[[[f|f|]|[f|f|]|]|[[f|f|]|[f|f|]|]|]|]|]];
      intros H; try reflexivity; try discriminate H.
  Qed.

  Lemma proc_other st u fc pl : supported_fc fc = false -> process_ok st (mkpdu u fc pl).
  Proof.
    intros Hs. unfold process_ok. rewrite spec_decode_unsupported by exact Hs.
    cbn [p_fc p_unit p_payload]. rewrite Hs.
    unfold supported_fc, mem in Hs. cbn [existsb] in Hs.
    unfold server_process. cbn [p_fc p_unit p_payload].
    replace (fc =? 1) with false by lia. replace (fc =? 2) with false by lia.
    replace (fc =? 3) with false by lia. replace (fc =? 4) with false by lia.
    replace (fc =? 5) with false by lia. replace (fc =? 6) with false by lia.
    replace (fc =? 15) with false by lia. replace (fc =? 16) with false by lia.
    cbn [orb]. repeat split; reflexivity.
  Qed.

  Lemma server_process_spec st p : pdu_wf p -> handler_wf h -> process_ok st p.
  Proof.
    destruct p as [u fc pl]. intros Hp Hwf.
    destruct (supported_fc fc) eqn:Hs; [|apply proc_other; exact Hs].
    unfold supported_fc, mem in Hs. cbn [existsb] in Hs.
    destruct (N.eq_dec fc 1) as [->|N1]; [apply proc_readbits; auto|].
    destruct (N.eq_dec fc 2) as [->|N2]; [apply proc_readbits; auto|].
    destruct (N.eq_dec fc 3) as [->|N3]; [apply proc_readregs; auto|].
    destruct (N.eq_dec fc 4) as [->|N4]; [apply proc_readregs; auto|].
    destruct (N.eq_dec fc 5) as [->|N5]; [apply proc_writecoil; auto|].
    destruct (N.eq_dec fc 6) as [->|N6]; [apply proc_writereg; auto|].
    destruct (N.eq_dec fc 15) as [->|N15]; [apply proc_writecoils; auto|].
    destruct (N.eq_dec fc 16) as [->|N16]; [apply proc_writeregs; auto|].
    exfalso. lia.
  Qed.
End Proc.

(* The two None branches of server_process (decodeBools / bytesToUint16s
   indexing past the request data, a run-time panic in the Go code) cannot be
   taken: they sit behind the length and byte-count checks. *)
Lemma server_decode_never_fails pl :
  (length pl <? 6)%nat = false ->
  let qty := be_word (skipn 2 pl) in
  (negb (lenN pl - 5 =? qty / 8 + (if qty mod 8 =? 0 then 0 else 1)) = false ->
   decode_bools (N.to_nat qty) (skipn 5 pl) <> None) /\
  (negb (lenN pl - 5 =? qty * 2) = false ->
   bytes_to_u16s BigE (skipn 5 pl) <> None).
Proof.
  intros Hlen qty. remember qty as q eqn:Hq. clear Hq qty.
  assert (Hsk : length (skipn 5 pl) = (length pl - 5)%nat) by apply skipn_length.
  unfold lenN. split; intros Hc.
  - destruct (decode_bools_total (N.to_nat q) (skipn 5 pl)) as [l Hl]; [|congruence].
    rewrite Hsk. destruct (q mod 8 =? 0) eqn:Em; lia.
  - destruct (bytes_to_u16s_total BigE (skipn 5 pl)) as [vs [Hvs _]]; [|congruence].
    rewrite Hsk. replace (length pl - 5)%nat with (2 * N.to_nat q)%nat by lia.
    rewrite Nat.even_mul. reflexivity.
Qed.

(* ------------------------------------------------------------- sessions *)

Section Session.
  Context {St : Type} (h : handler St).

  (* every response PDU fits an MBAP frame, for any handler *)
  Lemma server_process_resp_len st p :
    match snd (server_process h st p) with
    | Respond r => lenN (p_payload r) <= 251
    | CloseLink => True
    end.
  Proof.
    unfold server_process.
    repeat match goal with
    | |- context [if ?c then _ else _] => destruct c eqn:?
    | |- context [h ?s ?r] => destruct (h s r) as [? ?]
    | |- context [match norm_herr ?e with _ => _ end] => destruct (norm_herr e)
    | |- context [match decode_bools ?a ?b with _ => _ end] => destruct (decode_bools a b)
    | |- context [match bytes_to_u16s ?a ?b with _ => _ end] => destruct (bytes_to_u16s a b)
    end; cbn [snd exception_pdu p_payload]; try exact I.
    all: unfold lenN in *; unfold be16; cbn [length app];
      rewrite ?encode_bools_len, ?u16s_to_bytes_len; lia.
  Qed.

  Lemma assemble_is_spec txn r : lenN (p_payload r) <= 251 -> assemble_mbap txn r = spec_mbap txn r.
  Proof.
    intros H. unfold assemble_mbap, spec_mbap, u16.
    replace ((2 + lenN (p_payload r)) mod 65536) with (2 + lenN (p_payload r)) by lia. reflexivity.
  Qed.

  Lemma assemble_len txn r : lenN (assemble_mbap txn r) = 8 + lenN (p_payload r).
  Proof. unfold assemble_mbap, be16, lenN. cbn [app length]. lia. Qed.

  (* the fuel of the session loop is irrelevant once it exceeds the input length *)
  Lemma session_fuel f1 : forall f2 st e s, (length s < f1)%nat -> (length s < f2)%nat ->
    server_session h f1 st e s = server_session h f2 st e s.
  Proof.
    induction f1 as [|f1 IH]; intros f2 st e s H1 H2; [lia|]. destruct f2 as [|f2]; [lia|].
    cbn [server_session]. destruct (read_mbap e s) as [[p t|x] rest] eqn:Er; [|reflexivity].
    apply read_mbap_consumes in Er.
    destruct (server_process h st p) as [[st' calls] act]. f_equal.
    destruct act as [r|]; [|reflexivity]. f_equal. apply IH; lia.
  Qed.

  Lemma session_frames frames : forall tail st e f,
    Forall (fun fr => fst fr < 65536 /\ pdu_wf (snd fr)) frames ->
    (length (concat (map (fun fr => spec_mbap (fst fr) (snd fr)) frames) ++ tail) < f)%nat ->
    server_session h f st e (concat (map (fun fr => spec_mbap (fst fr) (snd fr)) frames) ++ tail) =
    spec_session h st frames (fun st' => server_run h st' e tail).
  Proof.
    induction frames as [|[t p] fs IH]; intros tail st e f HF Hf.
    - cbn [map concat app spec_session] in *. unfold server_run. apply session_fuel; lia.
    - inversion HF as [|x l [Ht Hp] HF']; subst. cbn [fst snd] in *.
      cbn [map concat fst snd] in *. rewrite <- app_assoc in *.
      destruct f as [|f]; [lia|]. cbn [server_session spec_session].
      rewrite read_mbap_frame by (try exact Ht; apply Hp).
      pose proof (server_process_resp_len st p) as HL.
      destruct (server_process h st p) as [[st' calls] act]. f_equal.
      destruct act as [r|]; [|reflexivity]. cbn [snd] in HL.
      rewrite assemble_is_spec by exact HL. f_equal.
      apply IH; [exact HF'|]. rewrite app_length in Hf.
      assert (0 < length (spec_mbap t p))%nat by (unfold spec_mbap, be16; cbn [app length]; lia). lia.
  Qed.

  Lemma server_pipelined : forall frames tail st e,
    Forall (fun f => fst f < 65536 /\ pdu_wf (snd f)) frames ->
    server_run h st e (concat (map (fun f => spec_mbap (fst f) (snd f)) frames) ++ tail) =
    spec_session h st frames (fun st' => server_run h st' e tail).
  Proof.
    intros frames tail st e HF. unfold server_run at 1. apply session_frames; [exact HF|lia].
  Qed.

  Lemma server_bad_header : forall st e s, bytesb s = true ->
    (forall t p rest, t < 65536 -> pdu_wf p -> s <> spec_mbap t p ++ rest) ->
    server_run h st e s = [EvClosed].
  Proof.
    intros st e s Hb Hno. unfold server_run. cbn [server_session].
    destruct (read_mbap e s) as [[p t|x] rest] eqn:Er; [|reflexivity].
    apply read_mbap_ok_inv in Er; [|exact Hb]. destruct Er as (Hs & Ht & Hp & _).
    exfalso. exact (Hno t p rest Ht Hp Hs).
  Qed.

  Lemma session_calls_valid f : forall st e s r, bytesb s = true -> handler_wf h ->
    In (EvCall r) (server_session h f st e s) -> hreq_ok r.
  Proof.
    induction f as [|f IH]; intros st e s r Hb Hwf Hin; cbn [server_session] in Hin.
    - destruct Hin as [Hin|[]]; discriminate.
    - destruct (read_mbap e s) as [[p t|x] rest] eqn:Er.
      + apply read_mbap_ok_inv in Er; [|exact Hb]. destruct Er as (_ & _ & Hp & Hrest).
        pose proof (server_process_spec h st p Hp Hwf) as HS. unfold process_ok in HS.
        destruct (server_process h st p) as [[st' calls] act].
        apply in_app_or in Hin. destruct Hin as [Hin|Hin].
        * apply in_map_iff in Hin. destruct Hin as (r' & Heq & Hin'). injection Heq as ->.
          destruct (spec_decode p) as [r0|]; [destruct (in_range r0)|];
            destruct HS as (-> & HS'); try (destruct Hin'; fail).
          destruct Hin' as [<-|[]]. apply HS'.
        * destruct act as [res|].
          -- destruct Hin as [Hin|Hin]; [discriminate|]. exact (IH _ _ _ _ Hrest Hwf Hin).
          -- destruct Hin as [Hin|[]]; discriminate.
      + destruct Hin as [Hin|[]]; discriminate.
  Qed.

  Lemma server_calls_valid : forall st e s r, bytesb s = true -> handler_wf h ->
    In (EvCall r) (server_run h st e s) -> hreq_ok r.
  Proof. intros st e s r. apply session_calls_valid. Qed.

  Lemma session_responses_bounded f : forall st e s fr,
    In (EvResp fr) (server_session h f st e s) -> lenN fr <= 260.
  Proof.
    induction f as [|f IH]; intros st e s fr Hin; cbn [server_session] in Hin.
    - destruct Hin as [Hin|[]]; discriminate.
    - destruct (read_mbap e s) as [[p t|x] rest] eqn:Er.
      + pose proof (server_process_resp_len st p) as HL.
        destruct (server_process h st p) as [[st' calls] act].
        apply in_app_or in Hin. destruct Hin as [Hin|Hin].
        * apply in_map_iff in Hin. destruct Hin as (r' & Heq & _). discriminate.
        * destruct act as [res|].
          -- destruct Hin as [Hin|Hin]; [|exact (IH _ _ _ _ Hin)].
             injection Hin as <-. cbn [snd] in HL. rewrite assemble_len. lia.
          -- destruct Hin as [Hin|[]]; discriminate.
      + destruct Hin as [Hin|[]]; discriminate.
  Qed.

  Lemma server_responses_bounded : forall st e s f, bytesb s = true -> handler_wf h ->
    In (EvResp f) (server_run h st e s) -> lenN f <= 260.
  Proof. intros st e s f _ _. apply session_responses_bounded. Qed.

  Lemma session_closed_last f : forall st e s,
    exists evs, server_session h f st e s = evs ++ [EvClosed] /\ ~ In EvClosed evs.
  Proof.
    induction f as [|f IH]; intros st e s; cbn [server_session].
    - exists []. split; [reflexivity|intros []].
    - destruct (read_mbap e s) as [[p t|x] rest] eqn:Er.
      + destruct (server_process h st p) as [[st' calls] act].
        assert (Hc : ~ In EvClosed (map EvCall calls)).
        { intros Hin. apply in_map_iff in Hin. destruct Hin as (r & Heq & _). discriminate. }
        destruct act as [res|].
        * destruct (IH st' e rest) as (evs & -> & Hn).
          exists (map EvCall calls ++ EvResp (assemble_mbap t res) :: evs). split.
          -- rewrite <- app_assoc. reflexivity.
          -- intros Hin. apply in_app_or in Hin. destruct Hin as [Hin|[Hin|Hin]];
               [exact (Hc Hin)|discriminate|exact (Hn Hin)].
        * exists (map EvCall calls). split; [reflexivity|exact Hc].
      + exists []. split; [reflexivity|intros []].
  Qed.

  Lemma server_closed_last : forall st e s,
    exists evs, server_run h st e s = evs ++ [EvClosed] /\ ~ In EvClosed evs.
  Proof. intros st e s. apply session_closed_last. Qed.
End Session.
