(* client.go as translated from the Go source (Gen/SrcPure.v): the setters and
   the write methods of *ModbusClient against the client model. *)
From Coq Require Import List NArith String Lia Bool.
From Coq Require Import ZifyBool ZifyNat ZifyN.
Import ListNotations.
From Modbus Require Import Base.Bytes Model.GoLite Gen.SrcPure Model.Crc Model.Encoding.
From Modbus Require Import Model.Wire Model.Client.
From Modbus Require Import Proofs.GoLiteP Proofs.GoLiteLinkP Proofs.SrcCrcP Proofs.SrcLinkP Proofs.SrcMiscP Proofs.SrcClientP.
Open Scope string_scope.
Open Scope N_scope.

(* ---------------------------------------------------------------- setters *)

Lemma run_SetUnitId fe fuel cfg tt id :
  run_fn ge fe fuel src_fn_ModbusClient_SetUnitId (mc_fields cfg tt ++ [VN id])%list =
  GOk [VN (endian_sel (c_endian cfg)); VN (word_sel (c_word cfg)); VN id; VN tt; VN 0].
Proof.
  unfold run_fn, src_fn_ModbusClient_SetUnitId, mc_fields. gl_auto. reflexivity.
Qed.

Lemma run_SetEncoding fe fuel cfg tt e w :
  run_fn ge fe fuel src_fn_ModbusClient_SetEncoding (mc_fields cfg tt ++ [VN e; VN w])%list =
  if andb (orb (e =? 1) (e =? 2)) (orb (w =? 1) (w =? 2))
  then GOk [VN e; VN w; VN (c_unit cfg); VN tt; VN 0]
  else GOk (mc_fields cfg tt ++ [VN (err_code EParams)])%list.
Proof.
  unfold run_fn, src_fn_ModbusClient_SetEncoding, mc_fields.
  change (err_code EParams) with 20.
  gl_auto.
  destruct (e =? 1) eqn:E1; gl_auto.
  - destruct (w =? 1) eqn:W1; gl_auto; [reflexivity|].
    destruct (w =? 2) eqn:W2; gl_auto; reflexivity.
  - destruct (e =? 2) eqn:E2; gl_auto; [|reflexivity].
    destruct (w =? 1) eqn:W1; gl_auto; [reflexivity|].
    destruct (w =? 2) eqn:W2; gl_auto; reflexivity.
Qed.

Lemma run_encoding fe fuel cfg tt :
  run_fn ge fe fuel src_fn_ModbusClient_encoding (mc_fields cfg tt) =
  GOk (mc_fields cfg tt ++ [VN (endian_sel (c_endian cfg)); VN (word_sel (c_word cfg))])%list.
Proof.
  unfold run_fn, src_fn_ModbusClient_encoding, mc_fields. gl_auto. reflexivity.
Qed.

(* ---------------------------------------------------------------- helpers *)

Lemma bytesb_cons x l : bytesb (x :: l) = true -> x < 256 /\ bytesb l = true.
Proof.
  unfold bytesb. cbn [forallb]. unfold is_byte. intros H.
  apply andb_true_iff in H as [H1 H2]. split; [lia|exact H2].
Qed.

Lemma echo_eqb p0 p1 x a y : p0 < 256 -> p1 < 256 -> a < 65536 ->
  list_eqb (p0 :: p1 :: x) (be16 a ++ y) = andb (p0 * 256 + p1 =? a) (list_eqb x y).
Proof.
  intros H0 H1 Ha. unfold be16. cbn [app list_eqb].
  destruct (p0 * 256 + p1 =? a) eqn:E.
  - replace (p0 =? (a / 256) mod 256) with true by lia.
    replace (p1 =? a mod 256) with true by lia. reflexivity.
  - destruct (p0 =? (a / 256) mod 256) eqn:E0; [|reflexivity].
    destruct (p1 =? a mod 256) eqn:E1; [|reflexivity].
    exfalso. lia.
Qed.

Ltac len_neq :=
  match goal with
  | |- context [N.of_nat ?n =? ?k] => replace (N.of_nat n =? k) with false by lia
  end.

Lemma exec_call fe X cfg tt req l :
  exec_hyp fe X -> l = map VN (p_payload req) ->
  fe "ModbusClient.executeRequest"
     [VN (endian_sel (c_endian cfg)); VN (word_sel (c_word cfg)); VN (c_unit cfg); VN tt;
      VN (p_unit req); VN (p_fc req); VL l] =
  GOk ([VN (endian_sel (c_endian cfg)); VN (word_sel (c_word cfg)); VN (c_unit cfg); VN tt] ++
       enc_reply (X req))%list.
Proof. intros Hx ->. destruct (Hx cfg tt req) as [H _]. exact H. Qed.

Lemma exec_wf fe X req : exec_hyp fe X -> treply_wf (X req).
Proof. intros Hx. destruct (Hx (mkcfg 0 BigE HighFirst) 0 req) as [_ H]. exact H. Qed.

(* the exchange failed: the error is handed back *)
Ltac tail_err :=
  gl_auto;
  match goal with H : ?c <> 0 |- _ => replace (c =? 0) with false by lia end;
  gl_auto; reflexivity.

(* the reply carries another function code: exception or protocol error *)
Ltac tail_exc He Hwf rf rp fc :=
  destruct (rf =? N.lor fc 128); [|gl_auto; reflexivity];
  let c0 := fresh "c0" in let c1 := fresh "c1" in let t := fresh "t" in
  destruct rp as [|c0 [|c1 t]]; cbn [map]; gl_auto; try reflexivity;
  [ let B0 := fresh "B0" in
    apply bytesb_cons in Hwf as [B0 _]; cbn [nth_error]; gl_auto;
    rewrite He by exact B0; gl_auto; rewrite err_value_exc_err; reflexivity
  | len_neq; gl_auto; reflexivity ].

Ltac split_eqbs :=
  repeat (match goal with |- context [?x =? ?y] => destruct (x =? y) end; gl_auto; try reflexivity).

Lemma run_WriteCoil fe fuel cfg tt X a v :
  exec_hyp fe X -> u16tb_hyp fe -> b2u16_hyp fe -> excmap_hyp fe -> a < 65536 ->
  run_fn ge fe fuel src_fn_ModbusClient_WriteCoil (mc_fields cfg tt ++ [VN a; VB v])%list =
  out_err (mc_fields cfg tt) (call_out cfg (OpWriteCoil a v) X).
Proof.
  intros Hx Hu Hb He Ha.
  pose proof (Hu BigE) as Hu1. pose proof (Hb BigE) as Hb1. cbn [endian_sel] in Hu1, Hb1.
  unfold call_out. cbn [client_request client_validate].
  set (req := mkpdu (c_unit cfg) 5 (be16 a ++ (if v then [255; 0] else [0; 0]))).
  pose proof (exec_wf fe X req Hx) as Hwf.
  assert (Hcall : forall l, l = map VN (p_payload req) ->
    fe "ModbusClient.executeRequest"
       [VN (endian_sel (c_endian cfg)); VN (word_sel (c_word cfg)); VN (c_unit cfg); VN tt;
        VN (c_unit cfg); VN 5; VL l] =
    GOk ([VN (endian_sel (c_endian cfg)); VN (word_sel (c_word cfg)); VN (c_unit cfg); VN tt] ++
         enc_reply (X req))%list).
  { intros l Hl. exact (exec_call fe X cfg tt req l Hx Hl). }
  unfold run_fn, src_fn_ModbusClient_WriteCoil.
  unfold mc_fields in *.
  assert (Hpl : forall x y, (map VN (u16_to_bytes BigE a) ++ [VN x; VN y])%list = map VN (be16 a ++ [x; y])).
  { intros x y. rewrite map_app, be16_u16_to_bytes. reflexivity. }
  destruct v; gl_auto; rewrite Hu1; unfold vbytes at 1; gl_auto;
    rewrite (Hcall _ (Hpl _ _)); clear Hcall Hpl.
  all: destruct (X req) as [[ru rf rp]|c rnil ru rf rp];
     cbn [enc_reply treply_wf p_unit p_fc p_payload] in *; [|tail_err].
  all: unfold vbytes, echo4, exception_or_protocol; cbn [p_fc p_payload req]; gl_auto.
  all: destruct (rf =? 5); [|tail_exc He Hwf rf rp 5].
  all: destruct rp as [|p0 [|p1 rp]];
      [cbn [map be16 app list_eqb]; gl_auto; rewrite ?andb_false_r; reflexivity..|].
  all: apply bytesb_cons in Hwf as [B0 Hwf]; apply bytesb_cons in Hwf as [B1 Hwf];
    rewrite echo_eqb by assumption.
  all: destruct rp as [|p2 [|p3 [|p4 t]]]; cbn [map list_eqb]; gl_auto;
      rewrite ?andb_false_r; try reflexivity.
  all: try (len_neq; gl_auto; reflexivity).
  all: cbn [firstn skipn]; change (VL [VN p0; VN p1]) with (vbytes [p0; p1]);
      rewrite Hb1; cbn [bytes_to_u16]; gl_auto;
      (destruct (p0 * 256 + p1 =? a); gl_auto; [|reflexivity]);
      cbn [nth_error]; gl_auto; split_eqbs.
Qed.

Lemma echo_eqb_e e p0 p1 x v y : p0 < 256 -> p1 < 256 -> v < 65536 ->
  list_eqb (p0 :: p1 :: x) (u16_to_bytes e v ++ y) =
  andb ((match e with BigE => p0 * 256 + p1 | LittleE => p1 * 256 + p0 end) =? v) (list_eqb x y).
Proof.
  intros H0 H1 Hv. destruct e.
  - rewrite be16_u16_to_bytes. apply echo_eqb; assumption.
  - unfold u16_to_bytes, byte_of. change (2 ^ (8 * 0)) with 1. change (2 ^ (8 * 1)) with 256.
    rewrite N.div_1_r. cbn [app list_eqb].
    destruct (p1 * 256 + p0 =? v) eqn:E.
    + replace (p1 =? (v / 256) mod 256) with true by lia.
      replace (p0 =? v mod 256) with true by lia. reflexivity.
    + destruct (p0 =? v mod 256) eqn:E0; [|reflexivity].
      destruct (p1 =? (v / 256) mod 256) eqn:E1; [|reflexivity].
      exfalso. lia.
Qed.

Lemma echo2_e e x v : bytesb x = true -> v < 65536 ->
  list_eqb x (u16_to_bytes e v) =
  match x with
  | [p2; p3] => (match e with BigE => p2 * 256 + p3 | LittleE => p3 * 256 + p2 end) =? v
  | _ => false
  end.
Proof.
  intros Hb Hv. destruct x as [|p2 [|p3 x]].
  - destruct e; reflexivity.
  - destruct e; cbn [u16_to_bytes list_eqb]; apply andb_false_r.
  - apply bytesb_cons in Hb as [B2 Hb]. apply bytesb_cons in Hb as [B3 _].
    rewrite <- (app_nil_r (u16_to_bytes e v)). rewrite echo_eqb_e by assumption.
    destruct x; cbn [list_eqb]; [apply andb_true_r|apply andb_false_r].
Qed.

Lemma echo2 x q : bytesb x = true -> q < 65536 ->
  list_eqb x (be16 q) = match x with [p2; p3] => p2 * 256 + p3 =? q | _ => false end.
Proof. intros Hb Hq. rewrite <- be16_u16_to_bytes. apply (echo2_e BigE); assumption. Qed.

Lemma run_WriteRegister fe fuel cfg tt X a v :
  exec_hyp fe X -> u16tb_hyp fe -> b2u16_hyp fe -> excmap_hyp fe -> a < 65536 -> v < 65536 ->
  run_fn ge fe fuel src_fn_ModbusClient_WriteRegister (mc_fields cfg tt ++ [VN a; VN v])%list =
  out_err (mc_fields cfg tt) (call_out cfg (OpWriteReg a v) X).
Proof.
  intros Hx Hu Hb He Ha Hv.
  pose proof (Hu BigE) as Hu1. pose proof (Hb BigE) as Hb1. cbn [endian_sel] in Hu1, Hb1.
  unfold call_out. cbn [client_request client_validate].
  set (req := mkpdu (c_unit cfg) 6 (be16 a ++ u16_to_bytes (c_endian cfg) v)).
  pose proof (exec_wf fe X req Hx) as Hwf.
  assert (Hcall : forall l, l = map VN (p_payload req) ->
    fe "ModbusClient.executeRequest"
       [VN (endian_sel (c_endian cfg)); VN (word_sel (c_word cfg)); VN (c_unit cfg); VN tt;
        VN (c_unit cfg); VN 6; VL l] =
    GOk ([VN (endian_sel (c_endian cfg)); VN (word_sel (c_word cfg)); VN (c_unit cfg); VN tt] ++
         enc_reply (X req))%list).
  { intros l Hl. exact (exec_call fe X cfg tt req l Hx Hl). }
  unfold run_fn, src_fn_ModbusClient_WriteRegister.
  unfold mc_fields in *.
  gl_auto. rewrite Hu1. unfold vbytes at 1. gl_auto. rewrite Hu. unfold vbytes at 1. gl_auto.
  rewrite Hcall by (cbn [req p_payload]; rewrite map_app, be16_u16_to_bytes; reflexivity).
  clear Hcall.
  destruct (X req) as [[ru rf rp]|c rnil ru rf rp];
     cbn [enc_reply treply_wf p_unit p_fc p_payload] in *; [|tail_err].
  unfold vbytes, echo4, exception_or_protocol; cbn [p_fc p_payload req]; gl_auto.
  destruct (rf =? 6); [|tail_exc He Hwf rf rp 6].
  destruct rp as [|p0 [|p1 rp]];
      [cbn [map be16 app list_eqb]; gl_auto; rewrite ?andb_false_r; reflexivity..|].
  apply bytesb_cons in Hwf as [B0 Hwf]; apply bytesb_cons in Hwf as [B1 Hwf];
    rewrite echo_eqb by assumption.
  rewrite echo2_e by assumption.
  destruct rp as [|p2 [|p3 [|p4 t]]]; cbn [map]; gl_auto; rewrite ?andb_false_r; try reflexivity.
  - cbn [firstn skipn]. change (VL [VN p0; VN p1]) with (vbytes [p0; p1]).
    rewrite Hb1. cbn [bytes_to_u16]. gl_auto.
    destruct (p0 * 256 + p1 =? a); gl_auto; [|reflexivity].
    cbn [firstn skipn]. change (VL [VN p2; VN p3]) with (vbytes [p2; p3]).
    rewrite Hb. cbn [bytes_to_u16]. gl_auto. split_eqbs.
  - len_neq. gl_auto. reflexivity.
Qed.

Lemma run_writeRegisters fe fuel cfg tt X a bytes :
  exec_hyp fe X -> u16tb_hyp fe -> b2u16_hyp fe -> excmap_hyp fe ->
  a < 65536 -> bytesb bytes = true -> N.of_nat (List.length bytes) < 2 ^ 62 ->
  run_fn ge fe fuel src_fn_ModbusClient_writeRegisters (mc_fields cfg tt ++ [VN a; vbytes bytes])%list =
  out_err (mc_fields cfg tt) (wr_out cfg a bytes X).
Proof.
  intros Hx Hu Hb He Ha Hbytes Hlen.
  pose proof (Hu BigE) as Hu1. pose proof (Hb BigE) as Hb1. cbn [endian_sel] in Hu1, Hb1.
  unfold wr_out, req_write_regs. cbv zeta.
  unfold run_fn, src_fn_ModbusClient_writeRegisters, mc_fields, vbytes.
  gl_auto. rewrite !map_length. change (N.of_nat (Datatypes.length bytes)) with (lenN bytes).
  destruct (246 <? lenN bytes) eqn:E1; gl_auto; [reflexivity|].
  rewrite !map_length. change (N.of_nat (Datatypes.length bytes)) with (lenN bytes).
  change (2 ^ 16) with 65536. change (lenN bytes mod 65536) with (u16 (lenN bytes)).
  set (q := u16 (lenN bytes) / 2).
  destruct (q =? 0) eqn:E2; gl_auto; [reflexivity|].
  destruct (123 <? q) eqn:E3; gl_auto; [reflexivity|].
  change (2 ^ 32) with 4294967296.
  replace ((((a mod 4294967296 + q mod 4294967296) mod 4294967296 + 4294967296 - 1 mod 4294967296)
            mod 4294967296)) with (a + q - 1) by lia.
  destruct (65535 <? a + q - 1) eqn:E4; gl_auto; [reflexivity|].
  rewrite Hu1. unfold vbytes at 1. gl_auto.
  rewrite Hu1. unfold vbytes at 1. gl_auto.
  change (2 ^ 8) with 256. change (u16 (lenN bytes) mod 256) with (u8 (u16 (lenN bytes))).
  set (req := mkpdu (c_unit cfg) 16 (be16 a ++ be16 q ++ u8 (u16 (lenN bytes)) :: bytes)).
  pose proof (exec_wf fe X req Hx) as Hwf.
  change (VN 16) with (VN (p_fc req)). change (VN (c_unit cfg)) with (VN (p_unit req)) at 2.
  rewrite (exec_call fe X cfg tt req _ Hx)
    by (cbn [req p_payload]; rewrite !map_app, !be16_u16_to_bytes, <- !app_assoc; reflexivity).

  destruct (X req) as [[ru rf rp]|c rnil ru rf rp];
     cbn [enc_reply treply_wf p_unit p_fc p_payload] in *; [|tail_err].
  unfold vbytes, echo4, exception_or_protocol; cbn [p_fc p_payload req]; gl_auto.
  destruct (rf =? 16); [|tail_exc He Hwf rf rp 16].
  destruct rp as [|p0 [|p1 rp]];
      [cbn [map be16 app list_eqb]; gl_auto; rewrite ?andb_false_r; reflexivity..|].
  apply bytesb_cons in Hwf as [B0 Hwf]; apply bytesb_cons in Hwf as [B1 Hwf];
    rewrite echo_eqb by assumption.
  rewrite echo2 by (try assumption; lia).
  destruct rp as [|p2 [|p3 [|p4 t]]]; cbn [map]; gl_auto; rewrite ?andb_false_r; try reflexivity.
  - cbn [firstn skipn]. change (VL [VN p0; VN p1]) with (vbytes [p0; p1]).
    rewrite Hb1. cbn [bytes_to_u16]. gl_auto.
    destruct (p0 * 256 + p1 =? a); gl_auto; [|reflexivity].
    cbn [firstn skipn]. change (VL [VN p2; VN p3]) with (vbytes [p2; p3]).
    rewrite Hb1. cbn [bytes_to_u16]. gl_auto. split_eqbs.
  - len_neq. gl_auto. reflexivity.
Qed.

Lemma run_WriteCoils fe fuel cfg tt X a vs :
  exec_hyp fe X -> u16tb_hyp fe -> b2u16_hyp fe -> excmap_hyp fe ->
  (forall l, N.of_nat (List.length l) < 2 ^ 62 -> fe "encodeBools" [vbools l] = GOk [vbytes (encode_bools l)]) ->
  a < 65536 -> N.of_nat (List.length vs) < 2 ^ 62 ->
  run_fn ge fe fuel src_fn_ModbusClient_WriteCoils (mc_fields cfg tt ++ [VN a; vbools vs])%list =
  out_err (mc_fields cfg tt) (call_out cfg (OpWriteCoils a vs) X).
Proof.
  intros Hx Hu Hb He Henc Ha Hlen.
  pose proof (Hu BigE) as Hu1. pose proof (Hb BigE) as Hb1. cbn [endian_sel] in Hu1, Hb1.
  unfold call_out. cbn [client_request client_validate]. cbv zeta.
  unfold run_fn, src_fn_ModbusClient_WriteCoils, mc_fields.
  gl_auto. unfold vbools at 1. gl_auto.
  rewrite !map_length. change (N.of_nat (Datatypes.length vs)) with (lenN vs).
  destruct (1968 <? lenN vs) eqn:E1; gl_auto; [reflexivity|].
  unfold vbools at 1. gl_auto.
  rewrite !map_length. change (N.of_nat (Datatypes.length vs)) with (lenN vs).
  change (2 ^ 16) with 65536. change (lenN vs mod 65536) with (u16 (lenN vs)).
  set (q := u16 (lenN vs)).
  destruct (q =? 0) eqn:E2; gl_auto; [reflexivity|].
  destruct (1968 <? q) eqn:E3; gl_auto; [reflexivity|].
  change (2 ^ 32) with 4294967296.
  replace ((((a mod 4294967296 + q mod 4294967296) mod 4294967296 + 4294967296 - 1 mod 4294967296)
            mod 4294967296)) with (a + q - 1) by lia.
  destruct (65535 <? a + q - 1) eqn:E4; gl_auto; [reflexivity|].
  rewrite Henc by exact Hlen. unfold vbytes at 1. gl_auto.
  rewrite Hu1. unfold vbytes at 1. gl_auto.
  rewrite Hu1. unfold vbytes at 1. gl_auto.
  rewrite !map_length. change (N.of_nat (Datatypes.length (encode_bools vs))) with (lenN (encode_bools vs)).
  change (2 ^ 8) with 256. change (lenN (encode_bools vs) mod 256) with (u8 (lenN (encode_bools vs))).
  set (req := mkpdu (c_unit cfg) 15
                (be16 a ++ be16 q ++ u8 (lenN (encode_bools vs)) :: encode_bools vs)).
  pose proof (exec_wf fe X req Hx) as Hwf.
  change (VN 15) with (VN (p_fc req)). change (VN (c_unit cfg)) with (VN (p_unit req)) at 2.
  rewrite (exec_call fe X cfg tt req _ Hx)
    by (cbn [req p_payload]; rewrite !map_app, !be16_u16_to_bytes, <- !app_assoc; reflexivity).
  destruct (X req) as [[ru rf rp]|c rnil ru rf rp];
     cbn [enc_reply treply_wf p_unit p_fc p_payload] in *; [|tail_err].
  unfold vbytes, echo4, exception_or_protocol; cbn [p_fc p_payload req]; gl_auto.
  destruct (rf =? 15); [|tail_exc He Hwf rf rp 15].
  destruct rp as [|p0 [|p1 rp]];
      [cbn [map be16 app list_eqb]; gl_auto; rewrite ?andb_false_r; reflexivity..|].
  apply bytesb_cons in Hwf as [B0 Hwf]; apply bytesb_cons in Hwf as [B1 Hwf];
    rewrite echo_eqb by assumption.
  rewrite echo2 by (try assumption; lia).
  destruct rp as [|p2 [|p3 [|p4 t]]]; cbn [map]; gl_auto; rewrite ?andb_false_r; try reflexivity.
  - cbn [firstn skipn]. change (VL [VN p0; VN p1]) with (vbytes [p0; p1]).
    rewrite Hb1. cbn [bytes_to_u16]. gl_auto.
    destruct (p0 * 256 + p1 =? a); gl_auto; [|reflexivity].
    cbn [firstn skipn]. change (VL [VN p2; VN p3]) with (vbytes [p2; p3]).
    rewrite Hb1. cbn [bytes_to_u16]. gl_auto. split_eqbs.
  - len_neq. gl_auto. reflexivity.
Qed.

(* ---------------------------------------------------------------- the typed writers *)

Lemma call_out_write_regs cfg w a vs X :
  call_out cfg (OpWriteRegs w a vs) X = wr_out cfg a (flat_map (enc_value cfg w) vs) X.
Proof.
  unfold call_out, wr_out. cbn [client_request client_validate].
  destruct (req_write_regs cfg a (flat_map (enc_value cfg w) vs)) as [req|e| |]; reflexivity.
Qed.

(* callee specifications *)
Definition wregs_hyp (fe : fenv) (X : pdu -> treply) : Prop :=
  forall cfg tt a bytes,
    a < 65536 -> bytesb bytes = true -> N.of_nat (List.length bytes) < 2 ^ 62 ->
    fe "ModbusClient.writeRegisters" (mc_fields cfg tt ++ [VN a; vbytes bytes])%list =
    out_err (mc_fields cfg tt) (wr_out cfg a bytes X).
Definition encoding_hyp (fe : fenv) : Prop :=
  forall cfg tt,
    fe "ModbusClient.encoding" (mc_fields cfg tt) =
    GOk (mc_fields cfg tt ++ [VN (endian_sel (c_endian cfg)); VN (word_sel (c_word cfg))])%list.
Definition u32tb_hyp (fe : fenv) : Prop :=
  forall e w v, fe "uint32ToBytes" [VN (endian_sel e); VN (word_sel w); VN v] =
                GOk [vbytes (u32_to_bytes e w v)].
Definition u64tb_hyp (fe : fenv) : Prop :=
  forall e w v, fe "uint64ToBytes" [VN (endian_sel e); VN (word_sel w); VN v] =
                GOk [vbytes (u64_to_bytes e w v)].
Definition f32tb_hyp (fe : fenv) : Prop :=
  forall e w v, fe "float32ToBytes" [VN (endian_sel e); VN (word_sel w); VN v] =
                GOk [vbytes (u32_to_bytes e w v)].
Definition f64tb_hyp (fe : fenv) : Prop :=
  forall e w v, fe "float64ToBytes" [VN (endian_sel e); VN (word_sel w); VN v] =
                GOk [vbytes (u64_to_bytes e w v)].

Lemma byte_of_lt v k : byte_of v k < 256.
Proof. unfold byte_of. apply N.mod_lt. discriminate. Qed.

Lemma u16_to_bytes_bytes e v : bytesb (u16_to_bytes e v) = true.
Proof.
  apply bytesb_Forall. destruct e; unfold u16_to_bytes; repeat constructor; apply byte_of_lt.
Qed.

Lemma u32_to_bytes_bytes e w v : bytesb (u32_to_bytes e w v) = true.
Proof.
  apply bytesb_Forall. destruct e, w; unfold u32_to_bytes; repeat constructor; apply byte_of_lt.
Qed.

Lemma u64_to_bytes_bytes e w v : bytesb (u64_to_bytes e w v) = true.
Proof.
  apply bytesb_Forall. destruct e, w; unfold u64_to_bytes; repeat constructor; apply byte_of_lt.
Qed.

Lemma enc_value_bytes cfg w v : bytesb (enc_value cfg w v) = true.
Proof.
  unfold enc_value. destruct (w =? 1); [apply u16_to_bytes_bytes|].
  destruct (w =? 2); [apply u32_to_bytes_bytes|apply u64_to_bytes_bytes].
Qed.

Lemma flat_map_bytes (g : N -> list N) vs :
  (forall v, bytesb (g v) = true) -> bytesb (flat_map g vs) = true.
Proof.
  intros Hg. induction vs as [|v vs IH]; cbn [flat_map]; [reflexivity|].
  rewrite bytesb_app, Hg, IH. reflexivity.
Qed.

Lemma flat_map_length_le (g : N -> list N) k vs :
  (forall v, (List.length (g v) <= k)%nat) ->
  (List.length (flat_map g vs) <= k * List.length vs)%nat.
Proof.
  intros Hg. induction vs as [|v vs IH]; cbn [flat_map List.length]; [lia|].
  rewrite app_length. specialize (Hg v). nia.
Qed.

Lemma enc_value_length cfg w v : (List.length (enc_value cfg w v) <= 8)%nat.
Proof.
  unfold enc_value. destruct (w =? 1); [destruct (c_endian cfg); cbn; lia|].
  destruct (w =? 2); destruct (c_endian cfg), (c_word cfg); cbn; lia.
Qed.

(* the payload loops: payload = append(payload, <enc>(endianness[, wordOrder], value)...) *)
Definition wr16s_body : stmt :=
  Eval cbv in match f_body src_fn_ModbusClient_WriteRegisters with
              | SSeq _ (SSeq _ (SSeq _ (SSeq (SRange _ _ _ b) _))) => b
              | _ => SSkip
              end.

Lemma wr16s_loop fe fuel e s0 s1 s2 s3 s4 s5 s6 s9 :
  u16tb_hyp fe ->
  forall vs acc i s10, exists s10',
  range_go (fun st' => exec ge fe fuel st' wr16s_body) None (Some 10%nat) i (map VN vs)
           [s0; s1; s2; s3; s4; s5; s6; vbytes acc; VN (endian_sel e); s9; s10] =
  ONormal [s0; s1; s2; s3; s4; s5; s6; vbytes (acc ++ flat_map (u16_to_bytes e) vs);
           VN (endian_sel e); s9; s10'].
Proof.
  intros Hu. induction vs as [|v vs IH]; intros acc i s10.
  - exists s10. cbn [map range_go flat_map]. rewrite app_nil_r. reflexivity.
  - cbn [map range_go set_opt rbind set_slot sset].
    unfold wr16s_body at 1. unfold vbytes at 1. gl_step. rewrite Hu. unfold vbytes at 1. gl_step.
    rewrite <- map_app. fold (vbytes (acc ++ u16_to_bytes e v)).
    destruct (IH (acc ++ u16_to_bytes e v)%list (i + 1) (VN v)) as (s10' & E).
    exists s10'. rewrite E. cbn [flat_map]. rewrite app_assoc. reflexivity.
Qed.

Lemma wregs_call fe X cfg tt a w vs s :
  wregs_hyp fe X -> a < 65536 -> N.of_nat (List.length vs) < 2 ^ 59 ->
  s = flat_map (enc_value cfg w) vs ->
  fe "ModbusClient.writeRegisters"
     [VN (endian_sel (c_endian cfg)); VN (word_sel (c_word cfg)); VN (c_unit cfg); VN tt;
      VN a; vbytes s] =
  out_err (mc_fields cfg tt) (call_out cfg (OpWriteRegs w a vs) X).
Proof.
  intros Hw Ha Hlen ->. rewrite call_out_write_regs.
  apply (Hw cfg tt a (flat_map (enc_value cfg w) vs) Ha).
  - apply flat_map_bytes. intros v. apply enc_value_bytes.
  - pose proof (flat_map_length_le (enc_value cfg w) 8 vs (enc_value_length cfg w)) as H.
    change (2 ^ 62) with 4611686018427387904. change (2 ^ 59) with 576460752303423488 in Hlen. lia.
Qed.

(* what a typed writer returns once writeRegisters has returned *)
Lemma out_err_shape mc s :
  out_err mc s = match s with SPanic => GoLite.Panic | _ => out_err mc s end.
Proof. destruct s; reflexivity. Qed.

Lemma run_WriteRegisters fe fuel cfg tt X a vs :
  wregs_hyp fe X -> encoding_hyp fe -> u16tb_hyp fe ->
  a < 65536 -> N.of_nat (List.length vs) < 2 ^ 59 ->
  run_fn ge fe fuel src_fn_ModbusClient_WriteRegisters (mc_fields cfg tt ++ [VN a; vbytes vs])%list =
  out_err (mc_fields cfg tt) (call_out cfg (OpWriteRegs 1 a vs) X).
Proof.
  intros Hw Henc Hu Ha Hlen.
  pose proof (Henc cfg tt) as Henc1.
  unfold run_fn, src_fn_ModbusClient_WriteRegisters, mc_fields in *.
  cbn [f_nparams f_zeros f_outs f_results f_body].
  match goal with |- context [SRange _ _ _ ?b] => change b with wr16s_body end.
  gl_auto. rewrite Henc1. gl_auto. unfold vbytes at 1. gl_auto.
  change (VL []) with (vbytes []).
  destruct (wr16s_loop fe fuel (c_endian cfg) (VN (endian_sel (c_endian cfg)))
              (VN (word_sel (c_word cfg))) (VN (c_unit cfg)) (VN tt) (VN a) (vbytes vs) (VN 0) (VN 0)
              Hu vs [] 0 (VN 0)) as (s10' & E).
  rewrite E. cbn [app]. gl_auto.
  rewrite (wregs_call fe X cfg tt a 1 vs (flat_map (u16_to_bytes (c_endian cfg)) vs) Hw Ha Hlen eq_refl).
  unfold mc_fields. generalize (call_out cfg (OpWriteRegs 1 a vs) X). intros o.
  destruct o as [v|c|]; cbn [out_err app]; gl_auto; reflexivity.
Qed.

(* the 32 and 64 bit writers differ only in the name of the encoder *)
Definition wr3_body (f : string) : stmt :=
  SSet (LVar 7) (EAppendSlice (EVar 7)
    (ECall f (ECons (EVar 8) (ECons (EVar 9) (ECons (EVar 11) ENil))))).

Definition wr3s_fn (f : string) : fn := {|
  f_nparams := 6;
  f_zeros := [VN 0; VL []; VN 0; VN 0; VN 0; VN 0];
  f_outs := [0%nat; 1%nat; 2%nat; 3%nat];
  f_results := [6%nat];
  f_body :=
    SSeq (SSet (LVar 7) (ELit ENil))
    (SSeq (SSet (LVar 8) (EN 0))
    (SSeq (SSet (LVar 9) (EN 0))
    (SSeq (SCall "ModbusClient.encoding" (ECons (EVar 0) (ECons (EVar 1) (ECons (EVar 2) (ECons (EVar 3) (ENil))))) [LVar 0; LVar 1; LVar 2; LVar 3; LVar 8; LVar 9])
    (SSeq (SRange None (Some 11%nat) (EVar 5) (wr3_body f))
    (SSeq (SCall "ModbusClient.writeRegisters" (ECons (EVar 0) (ECons (EVar 1) (ECons (EVar 2) (ECons (EVar 3) (ECons (EVar 4) (ECons (EVar 7) (ENil))))))) [LVar 0; LVar 1; LVar 2; LVar 3; LVar 6])
    (SReturn (ENil)))))))
|}.

Definition wr3_fn (f : string) : fn := {|
  f_nparams := 6;
  f_zeros := [VN 0; VN 0; VN 0];
  f_outs := [0%nat; 1%nat; 2%nat; 3%nat];
  f_results := [6%nat];
  f_body :=
    SSeq (SSet (LVar 7) (EN 0))
    (SSeq (SSet (LVar 8) (EN 0))
    (SSeq (SCall "ModbusClient.encoding" (ECons (EVar 0) (ECons (EVar 1) (ECons (EVar 2) (ECons (EVar 3) (ENil))))) [LVar 0; LVar 1; LVar 2; LVar 3; LVar 7; LVar 8])
    (SSeq (SCall "ModbusClient.writeRegisters" (ECons (EVar 0) (ECons (EVar 1) (ECons (EVar 2) (ECons (EVar 3) (ECons (EVar 4) (ECons (ECall f (ECons (EVar 7) (ECons (EVar 8) (ECons (EVar 5) (ENil))))) (ENil))))))) [LVar 0; LVar 1; LVar 2; LVar 3; LVar 6])
    (SReturn (ENil)))))
|}.

Lemma wr3s_fn_src :
  src_fn_ModbusClient_WriteUint32s = wr3s_fn "uint32ToBytes" /\
  src_fn_ModbusClient_WriteFloat32s = wr3s_fn "float32ToBytes" /\
  src_fn_ModbusClient_WriteUint64s = wr3s_fn "uint64ToBytes" /\
  src_fn_ModbusClient_WriteFloat64s = wr3s_fn "float64ToBytes".
Proof. repeat split; reflexivity. Qed.

Lemma wr3_fn_src :
  src_fn_ModbusClient_WriteUint32 = wr3_fn "uint32ToBytes" /\
  src_fn_ModbusClient_WriteFloat32 = wr3_fn "float32ToBytes" /\
  src_fn_ModbusClient_WriteUint64 = wr3_fn "uint64ToBytes" /\
  src_fn_ModbusClient_WriteFloat64 = wr3_fn "float64ToBytes".
Proof. repeat split; reflexivity. Qed.

Lemma wr3_loop fe fuel f (g : N -> list N) es ws s0 s1 s2 s3 s4 s5 s6 s10 :
  (forall v, fe f [VN es; VN ws; VN v] = GOk [vbytes (g v)]) ->
  forall vs acc i s11, exists s11',
  range_go (fun st' => exec ge fe fuel st' (wr3_body f)) None (Some 11%nat) i (map VN vs)
           [s0; s1; s2; s3; s4; s5; s6; vbytes acc; VN es; VN ws; s10; s11] =
  ONormal [s0; s1; s2; s3; s4; s5; s6; vbytes (acc ++ flat_map g vs); VN es; VN ws; s10; s11'].
Proof.
  intros Hg. induction vs as [|v vs IH]; intros acc i s11.
  - exists s11. cbn [map range_go flat_map]. rewrite app_nil_r. reflexivity.
  - cbn [map range_go set_opt rbind set_slot sset].
    unfold wr3_body at 1. unfold vbytes at 1. gl_step. rewrite Hg. unfold vbytes at 1. gl_step.
    rewrite <- map_app. fold (vbytes (acc ++ g v)).
    destruct (IH (acc ++ g v)%list (i + 1) (VN v)) as (s11' & E).
    exists s11'. rewrite E. cbn [flat_map]. rewrite app_assoc. reflexivity.
Qed.

Lemma flat_map_pointwise {A B} (g h : A -> list B) l :
  (forall x, g x = h x) -> flat_map g l = flat_map h l.
Proof. intros H. induction l as [|x l IH]; cbn [flat_map]; [reflexivity|]. rewrite H, IH. reflexivity. Qed.

Lemma run_wr3s fe fuel f w (g : N -> list N) cfg tt X a vs :
  wregs_hyp fe X -> encoding_hyp fe ->
  (forall v, fe f [VN (endian_sel (c_endian cfg)); VN (word_sel (c_word cfg)); VN v] = GOk [vbytes (g v)]) ->
  (forall v, g v = enc_value cfg w v) ->
  a < 65536 -> N.of_nat (List.length vs) < 2 ^ 59 ->
  run_fn ge fe fuel (wr3s_fn f) (mc_fields cfg tt ++ [VN a; vbytes vs])%list =
  out_err (mc_fields cfg tt) (call_out cfg (OpWriteRegs w a vs) X).
Proof.
  intros Hw Henc Hg Hgw Ha Hlen.
  pose proof (Henc cfg tt) as Henc1.
  unfold run_fn, wr3s_fn, mc_fields in *.
  gl_auto. rewrite Henc1. gl_auto. unfold vbytes at 1. gl_auto.
  change (VL []) with (vbytes []).
  destruct (wr3_loop fe fuel f g (endian_sel (c_endian cfg)) (word_sel (c_word cfg))
              (VN (endian_sel (c_endian cfg)))
              (VN (word_sel (c_word cfg))) (VN (c_unit cfg)) (VN tt) (VN a) (vbytes vs) (VN 0) (VN 0)
              Hg vs [] 0 (VN 0)) as (s11' & E).
  rewrite E. cbn [app]. gl_auto.
  rewrite (wregs_call fe X cfg tt a w vs (flat_map g vs) Hw Ha Hlen (flat_map_pointwise _ _ _ Hgw)).
  unfold mc_fields. generalize (call_out cfg (OpWriteRegs w a vs) X). intros o.
  destruct o as [v|c|]; cbn [out_err app]; gl_auto; reflexivity.
Qed.

Lemma run_wr3 fe fuel f w (g : N -> list N) cfg tt X a v :
  wregs_hyp fe X -> encoding_hyp fe ->
  (forall v, fe f [VN (endian_sel (c_endian cfg)); VN (word_sel (c_word cfg)); VN v] = GOk [vbytes (g v)]) ->
  (forall v, g v = enc_value cfg w v) ->
  a < 65536 ->
  run_fn ge fe fuel (wr3_fn f) (mc_fields cfg tt ++ [VN a; VN v])%list =
  out_err (mc_fields cfg tt) (call_out cfg (OpWriteRegs w a [v]) X).
Proof.
  intros Hw Henc Hg Hgw Ha.
  pose proof (Henc cfg tt) as Henc1.
  unfold run_fn, wr3_fn, mc_fields in *.
  gl_auto. rewrite Henc1. gl_auto. rewrite Hg. gl_auto.
  assert (Hlen : N.of_nat (List.length [v]) < 2 ^ 59) by (cbn [List.length]; reflexivity).
  assert (Hs : g v = flat_map (enc_value cfg w) [v]).
  { cbn [flat_map]. rewrite app_nil_r. apply Hgw. }
  rewrite (wregs_call fe X cfg tt a w [v] (g v) Hw Ha Hlen Hs).
  unfold mc_fields. generalize (call_out cfg (OpWriteRegs w a [v]) X). intros o.
  destruct o as [v0|c|]; cbn [out_err app]; gl_auto; reflexivity.
Qed.

Lemma enc_value_2 cfg v : u32_to_bytes (c_endian cfg) (c_word cfg) v = enc_value cfg 2 v.
Proof. reflexivity. Qed.

Lemma enc_value_4 cfg v : u64_to_bytes (c_endian cfg) (c_word cfg) v = enc_value cfg 4 v.
Proof. reflexivity. Qed.

Lemma run_WriteUint32s fe fuel cfg tt X a vs :
  wregs_hyp fe X -> encoding_hyp fe -> u32tb_hyp fe ->
  a < 65536 -> N.of_nat (List.length vs) < 2 ^ 59 ->
  run_fn ge fe fuel src_fn_ModbusClient_WriteUint32s (mc_fields cfg tt ++ [VN a; vbytes vs])%list =
  out_err (mc_fields cfg tt) (call_out cfg (OpWriteRegs 2 a vs) X).
Proof.
  intros Hw Henc Hc Ha Hlen. destruct wr3s_fn_src as (-> & _).
  apply (run_wr3s fe fuel _ 2 (u32_to_bytes (c_endian cfg) (c_word cfg))); try assumption.
  - intros v. apply Hc.
  - apply enc_value_2.
Qed.

Lemma run_WriteUint32 fe fuel cfg tt X a v :
  wregs_hyp fe X -> encoding_hyp fe -> u32tb_hyp fe -> a < 65536 ->
  run_fn ge fe fuel src_fn_ModbusClient_WriteUint32 (mc_fields cfg tt ++ [VN a; VN v])%list =
  out_err (mc_fields cfg tt) (call_out cfg (OpWriteRegs 2 a [v]) X).
Proof.
  intros Hw Henc Hc Ha. destruct wr3_fn_src as (-> & _).
  apply (run_wr3 fe fuel _ 2 (u32_to_bytes (c_endian cfg) (c_word cfg))); try assumption.
  - intros v'. apply Hc.
  - apply enc_value_2.
Qed.

Lemma run_WriteFloat32s fe fuel cfg tt X a vs :
  wregs_hyp fe X -> encoding_hyp fe -> f32tb_hyp fe ->
  a < 65536 -> N.of_nat (List.length vs) < 2 ^ 59 ->
  run_fn ge fe fuel src_fn_ModbusClient_WriteFloat32s (mc_fields cfg tt ++ [VN a; vbytes vs])%list =
  out_err (mc_fields cfg tt) (call_out cfg (OpWriteRegs 2 a vs) X).
Proof.
  intros Hw Henc Hc Ha Hlen. destruct wr3s_fn_src as (_ & -> & _).
  apply (run_wr3s fe fuel _ 2 (u32_to_bytes (c_endian cfg) (c_word cfg))); try assumption.
  - intros v. apply Hc.
  - apply enc_value_2.
Qed.

Lemma run_WriteFloat32 fe fuel cfg tt X a v :
  wregs_hyp fe X -> encoding_hyp fe -> f32tb_hyp fe -> a < 65536 ->
  run_fn ge fe fuel src_fn_ModbusClient_WriteFloat32 (mc_fields cfg tt ++ [VN a; VN v])%list =
  out_err (mc_fields cfg tt) (call_out cfg (OpWriteRegs 2 a [v]) X).
Proof.
  intros Hw Henc Hc Ha. destruct wr3_fn_src as (_ & -> & _).
  apply (run_wr3 fe fuel _ 2 (u32_to_bytes (c_endian cfg) (c_word cfg))); try assumption.
  - intros v'. apply Hc.
  - apply enc_value_2.
Qed.

Lemma run_WriteUint64s fe fuel cfg tt X a vs :
  wregs_hyp fe X -> encoding_hyp fe -> u64tb_hyp fe ->
  a < 65536 -> N.of_nat (List.length vs) < 2 ^ 59 ->
  run_fn ge fe fuel src_fn_ModbusClient_WriteUint64s (mc_fields cfg tt ++ [VN a; vbytes vs])%list =
  out_err (mc_fields cfg tt) (call_out cfg (OpWriteRegs 4 a vs) X).
Proof.
  intros Hw Henc Hc Ha Hlen. destruct wr3s_fn_src as (_ & _ & -> & _).
  apply (run_wr3s fe fuel _ 4 (u64_to_bytes (c_endian cfg) (c_word cfg))); try assumption.
  - intros v. apply Hc.
  - apply enc_value_4.
Qed.

Lemma run_WriteUint64 fe fuel cfg tt X a v :
  wregs_hyp fe X -> encoding_hyp fe -> u64tb_hyp fe -> a < 65536 ->
  run_fn ge fe fuel src_fn_ModbusClient_WriteUint64 (mc_fields cfg tt ++ [VN a; VN v])%list =
  out_err (mc_fields cfg tt) (call_out cfg (OpWriteRegs 4 a [v]) X).
Proof.
  intros Hw Henc Hc Ha. destruct wr3_fn_src as (_ & _ & -> & _).
  apply (run_wr3 fe fuel _ 4 (u64_to_bytes (c_endian cfg) (c_word cfg))); try assumption.
  - intros v'. apply Hc.
  - apply enc_value_4.
Qed.

Lemma run_WriteFloat64s fe fuel cfg tt X a vs :
  wregs_hyp fe X -> encoding_hyp fe -> f64tb_hyp fe ->
  a < 65536 -> N.of_nat (List.length vs) < 2 ^ 59 ->
  run_fn ge fe fuel src_fn_ModbusClient_WriteFloat64s (mc_fields cfg tt ++ [VN a; vbytes vs])%list =
  out_err (mc_fields cfg tt) (call_out cfg (OpWriteRegs 4 a vs) X).
Proof.
  intros Hw Henc Hc Ha Hlen. destruct wr3s_fn_src as (_ & _ & _ & ->).
  apply (run_wr3s fe fuel _ 4 (u64_to_bytes (c_endian cfg) (c_word cfg))); try assumption.
  - intros v. apply Hc.
  - apply enc_value_4.
Qed.

Lemma run_WriteFloat64 fe fuel cfg tt X a v :
  wregs_hyp fe X -> encoding_hyp fe -> f64tb_hyp fe -> a < 65536 ->
  run_fn ge fe fuel src_fn_ModbusClient_WriteFloat64 (mc_fields cfg tt ++ [VN a; VN v])%list =
  out_err (mc_fields cfg tt) (call_out cfg (OpWriteRegs 4 a [v]) X).
Proof.
  intros Hw Henc Hc Ha. destruct wr3_fn_src as (_ & _ & _ & ->).
  apply (run_wr3 fe fuel _ 4 (u64_to_bytes (c_endian cfg) (c_word cfg))); try assumption.
  - intros v'. apply Hc.
  - apply enc_value_4.
Qed.

(* the hypotheses of this file are what the earlier lemmas establish *)
Lemma wregs_hyp_run fe fe' fuel X :
  exec_hyp fe' X -> u16tb_hyp fe' -> b2u16_hyp fe' -> excmap_hyp fe' ->
  (forall args, fe "ModbusClient.writeRegisters" args =
                run_fn ge fe' fuel src_fn_ModbusClient_writeRegisters args) ->
  wregs_hyp fe X.
Proof.
  intros Hx Hu Hb He Hf cfg tt a bytes Ha Hbytes Hlen.
  rewrite Hf. apply run_writeRegisters; assumption.
Qed.

Lemma encoding_hyp_run fe fe' fuel :
  (forall args, fe "ModbusClient.encoding" args =
                run_fn ge fe' fuel src_fn_ModbusClient_encoding args) ->
  encoding_hyp fe.
Proof. intros Hf cfg tt. rewrite Hf. apply run_encoding. Qed.
