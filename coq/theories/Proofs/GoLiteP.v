(* Tactics and generic lemmas for reasoning about GoLite programs
   (Model/GoLite.v): symbolic evaluation of straight-line code, one-iteration
   rules for loops, small list facts. *)
From Coq Require Import List NArith String Lia Bool.
From Coq Require Import ZifyBool ZifyNat ZifyN.
Import ListNotations.
From Modbus Require Import Base.Bytes Model.GoLite.
Open Scope N_scope.

Ltac has_var t := match t with context [?x] => is_var x end.
Ltac closed_tm t := tryif has_var t then fail else idtac.

(* evaluate conversions and comparisons whose operands are closed numerals
   (occurrences with open operands are skipped) *)
Ltac gl_consts :=
  repeat match goal with
  | |- context [N.to_nat ?a] => closed_tm a; let r := eval vm_compute in (N.to_nat a) in change (N.to_nat a) with r
  | |- context [N.of_nat ?a] => closed_tm a; let r := eval vm_compute in (N.of_nat a) in change (N.of_nat a) with r
  | |- context [N.eqb ?a ?b] => closed_tm a; closed_tm b; let r := eval vm_compute in (N.eqb a b) in change (N.eqb a b) with r
  | |- context [N.ltb ?a ?b] => closed_tm a; closed_tm b; let r := eval vm_compute in (N.ltb a b) in change (N.ltb a b) with r
  | |- context [N.leb ?a ?b] => closed_tm a; closed_tm b; let r := eval vm_compute in (N.leb a b) in change (N.leb a b) with r
  end.

(* full symbolic evaluation: everything but N arithmetic is computed; for
   straight-line functions on lists of known shape *)
Ltac gl_cbv :=
  cbv -[N.add N.sub N.mul N.div N.modulo N.pow N.land N.lor N.lxor N.ldiff N.shiftl N.shiftr
        N.eqb N.ltb N.leb N.to_nat N.of_nat].
Ltac gl_eval := repeat (progress (gl_cbv; gl_consts)).

(* symbolic evaluation that also leaves operations on data lists and loops
   alone: for loop bodies over lists of unknown length *)
Ltac gl_cbv_sym :=
  cbv -[N.add N.sub N.mul N.div N.modulo N.pow N.land N.lor N.lxor N.ldiff N.shiftl N.shiftr
        N.eqb N.ltb N.leb N.to_nat N.of_nat
        map nth_error upd firstn skipn List.length app repeat rev fold_left range_go for_go].
Ltac gl_eval_sym := repeat (progress (gl_cbv_sym; gl_consts)).

(* ------------------------------------------------------------------ loops *)

Lemma for_go_exit n condf bodyf postf st :
  condf st = Ok (VB false) -> for_go (S n) condf bodyf postf st = ONormal st.
Proof. intros H. cbn [for_go]. rewrite H. reflexivity. Qed.

Lemma for_go_step n condf bodyf postf st st1 st2 :
  condf st = Ok (VB true) -> bodyf st = ONormal st1 -> postf st1 = ONormal st2 ->
  for_go (S n) condf bodyf postf st = for_go n condf bodyf postf st2.
Proof. intros H1 H2 H3. cbn [for_go]. rewrite H1, H2, H3. reflexivity. Qed.

Lemma for_go_body_fail n condf bodyf postf st r :
  condf st = Ok (VB true) -> bodyf st = OFail r ->
  for_go (S n) condf bodyf postf st = OFail r.
Proof. intros H1 H2. cbn [for_go]. rewrite H1, H2. reflexivity. Qed.

(* ------------------------------------------------------------------ lists *)

Lemma to_nat_lenN {A} (l : list A) : N.to_nat (lenN l) = List.length l.
Proof. unfold lenN. lia. Qed.

Lemma skipn_map_app {A B} (f : A -> B) (pre rest : list A) :
  skipn (List.length pre) (map f (pre ++ rest)) = map f rest.
Proof.
  rewrite map_app. rewrite skipn_app. rewrite map_length, Nat.sub_diag.
  rewrite skipn_all2 by (rewrite map_length; lia). reflexivity.
Qed.

Lemma nth_error_map_app {A B} (f : A -> B) (pre rest : list A) k :
  nth_error (map f (pre ++ rest)) (List.length pre + k) = nth_error (map f rest) k.
Proof.
  rewrite map_app. rewrite nth_error_app2 by (rewrite map_length; lia).
  rewrite map_length. f_equal. lia.
Qed.

Lemma lenN_app {A} (a b : list A) : lenN (a ++ b) = lenN a + lenN b.
Proof. unfold lenN. rewrite app_length. lia. Qed.

Lemma lenN_map {A B} (f : A -> B) l : lenN (map f l) = lenN l.
Proof. unfold lenN. rewrite map_length. reflexivity. Qed.

Lemma vals_to_ns_map l : vals_to_ns (map VN l) = Some l.
Proof. induction l as [|x l IH]; cbn [map vals_to_ns]; [reflexivity|]. rewrite IH. reflexivity. Qed.
