(* A served connection dropped for a protocol error gives its slot back by
   steps of the server alone (Model/SlotsDrop.v): whatever the stream of the
   peer was, and whatever the peer does afterwards, the active list loses
   exactly that connection and a later connection is served. *)
From Coq Require Import List Arith Bool NArith Lia Permutation.
Import ListNotations.
From Modbus Require Import Base.Bytes Model.Wire Model.Server Model.Slots Proofs.SlotsP
  Model.SlotsVisit Proofs.SlotsVisitP Model.SlotsDrop.
Local Open Scope nat_scope.

(* ------------------------------------------------ the run and Model/Server.v *)

(* drop_session is the request loop of Model/Server.v on a peer that stays
   silent after its bytes: the same calls, the same frames, the same end - the
   only difference is that the final idle expiry is left out *)
Lemma drop_session_events {St} (h : handler St) : forall fuel st s,
  server_session h fuel st Stall s =
  flat_map drop_event_events (drop_session h fuel st s) ++
  (if drop_dropped (drop_session h fuel st s) then [] else [EvClosed]).
Proof.
  induction fuel as [|f IH]; intros st s; cbn [server_session drop_session].
  - reflexivity.
  - destruct (read_mbap Stall s) as [[req txn|e] rest].
    + destruct (server_process h st req) as [[st' calls] act]. destruct act as [res|].
      * cbn [flat_map drop_event_events drop_dropped existsb is_drop orb].
        rewrite IH. unfold drop_dropped. rewrite <- !app_assoc. reflexivity.
      * cbn [flat_map drop_event_events drop_dropped existsb is_drop orb app].
        rewrite !app_nil_r. reflexivity.
    + destruct e; reflexivity.
Qed.

Theorem drop_run_events {St} (h : handler St) st s :
  server_run h st Stall s =
  flat_map drop_event_events (drop_run h st s) ++
  (if drop_dropped (drop_run h st s) then [] else [EvClosed]).
Proof. unfold server_run, drop_run. apply drop_session_events. Qed.

(* a well-framed request at the head of the stream that the request
   validation refuses: the link is closed, nothing behind it is looked at *)
Theorem refused_request_drops {St} (h : handler St) st s req txn rest st' calls :
  read_mbap Stall s = (FOk req txn, rest) ->
  server_process h st req = (st', calls, CloseLink) ->
  drop_run h st s = [DRefused calls].
Proof.
  intros Hr Hp. unfold drop_run. cbn [drop_session]. rewrite Hr, Hp. reflexivity.
Qed.

(* ... whereas an answered request leaves the loop running on the rest *)
Lemma answered_request_goes_on {St} (h : handler St) f st s req txn rest st' calls res :
  read_mbap Stall s = (FOk req txn, rest) ->
  server_process h st req = (st', calls, Respond res) ->
  drop_session h (S f) st s = DAnswered calls (assemble_mbap txn res) :: drop_session h f st' rest.
Proof. intros Hr Hp. cbn [drop_session]. rewrite Hr, Hp. reflexivity. Qed.

(* ------------------------------------------------ the run and Model/Slots.v *)

Lemma req_step s c : step s (Req c) = s.
Proof. unfold step. destruct (negb (enabled s (Req c))); reflexivity. Qed.

Lemma req_steps {A} s c (l : list A) : run s (map (fun _ => Req c) l) = s.
Proof.
  induction l as [|x t IH]; [reflexivity|].
  cbn [map]. unfold run in *. cbn [fold_left]. rewrite req_step. exact IH.
Qed.

(* once the connection is gone none of its labels is a step *)
Lemma labels_of_removed s c evs : stat s c = Removed -> run s (drop_labels c evs) = s.
Proof.
  intros Hr. induction evs as [|e t IH]; [reflexivity|].
  unfold drop_labels in *. cbn [flat_map]. rewrite run_app.
  assert (D : run s (departure c ProtocolError) = s).
  { unfold departure, run. cbn [fold_left].
    rewrite end_disabled by congruence. rewrite remove_disabled by congruence. reflexivity. }
  assert (E : run s (drop_event_labels c e) = s).
  { destruct e as [calls frame|calls|]; cbn [drop_event_labels].
    - apply req_steps.
    - rewrite run_app, req_steps. exact D.
    - exact D. }
  rewrite E. exact IH.
Qed.

(* while no frame has been refused the connection keeps its slot *)
Theorem not_dropped_keeps s c evs : drop_dropped evs = false -> run s (drop_labels c evs) = s.
Proof.
  induction evs as [|e t IH]; intros Hd; [reflexivity|].
  unfold drop_dropped in *. cbn [existsb] in Hd. apply orb_false_iff in Hd as [He Ht].
  unfold drop_labels in *. cbn [flat_map]. rewrite run_app.
  destruct e as [calls frame|calls|]; try discriminate.
  cbn [drop_event_labels]. rewrite req_steps. apply IH. exact Ht.
Qed.

(* a dropped connection is wound down by its own labels: the list loses
   exactly its entry, the socket is closed, nobody else is touched *)
Theorem dropped_frees s c evs : Inv s -> stat s c = Serving -> drop_dropped evs = true ->
  let s1 := run s (drop_labels c evs) in
  Permutation (clients s) (c :: clients s1) /\ stat s1 c = Removed /\ closed s1 c = true /\
  started s1 = started s /\ listening s1 = listening s /\ acceptors s1 = acceptors s /\ maxc s1 = maxc s /\
  (forall x, x <> c -> stat s1 x = stat s x).
Proof.
  intros I Hs. induction evs as [|e t IH]; intros Hd; [discriminate|].
  cbn zeta. unfold drop_labels. cbn [flat_map]. rewrite run_app.
  assert (W : ProtocolError <> ClosedByStop) by discriminate.
  destruct e as [calls frame|calls|]; cbn [drop_event_labels].
  - rewrite req_steps. apply IH. exact Hd.
  - rewrite run_app, req_steps.
    destruct (departure_frees s c ProtocolError I Hs W) as (D1 & D2 & D3 & D4 & D5 & D6 & D7 & D8).
    cbn zeta in *. fold (drop_labels c t). rewrite labels_of_removed by exact D2.
    repeat split; assumption.
  - destruct (departure_frees s c ProtocolError I Hs W) as (D1 & D2 & D3 & D4 & D5 & D6 & D7 & D8).
    cbn zeta in *. fold (drop_labels c t). rewrite labels_of_removed by exact D2.
    repeat split; assumption.
Qed.

(* ... so that a later connection is served again: in every reachable state,
   full or not, the connection arriving after the drop gets the slot *)
Theorem dropped_then_served s c d evs : Inv s -> started s = true -> (0 < acceptors s)%nat ->
  stat s c = Serving -> drop_dropped evs = true -> stat s d = Fresh ->
  let s1 := run s (drop_labels c evs ++ arrival d) in
  stat s1 d = Serving /\ In d (clients s1) /\ ~ In c (clients s1) /\
  length (clients s1) = length (clients s).
Proof.
  intros I Hst Ha Hs Hd Hf. cbn zeta. rewrite run_app.
  destruct (dropped_frees s c evs I Hs Hd) as (D1 & D2 & D3 & D4 & D5 & D6 & D7 & D8).
  cbn zeta in *. pose proof (inv_run (drop_labels c evs) s I) as I1.
  set (s1 := run s (drop_labels c evs)) in *.
  assert (Hne : d <> c) by (intros ->; congruence).
  assert (Hlen : length (clients s) = S (length (clients s1))) by (apply Permutation_length in D1; exact D1).
  assert (Hst1 : started s1 = true) by (rewrite D4; exact Hst).
  assert (Ha1 : 0 < acceptors s1) by (rewrite D6; exact Ha).
  assert (Hf1 : stat s1 d = Fresh) by (rewrite D8 by exact Hne; exact Hf).
  destruct (arrival_eff s1 d I1 Hst1 Ha1 Hf1) as (_ & _ & _ & _ & _ & A6 & _).
  cbn zeta in *. pose proof (inv_bound s I) as Hb.
  destruct A6 as [Ec Es]; [rewrite D7; lia|].
  assert (Hnc : ~ In c (clients s1)).
  { intros Hin. apply (inv_members s1 I1) in Hin. destruct Hin as [H|H]; congruence. }
  repeat split.
  - exact Es.
  - rewrite Ec. apply in_or_app. right. left. reflexivity.
  - rewrite Ec. intros Hin. apply in_app_or in Hin as [Hin|[Hin|[]]]; [exact (Hnc Hin)|congruence].
  - rewrite Ec, app_length, Hlen. cbn [length]. lia.
Qed.
