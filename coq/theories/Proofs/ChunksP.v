(* Proofs about Model/Chunks.v: io.ReadFull over any connection whose single
   Reads deliver the stream in order agrees with read_full over the flat
   stream; every reader written over a full reader that agrees with read_full
   equals the flat reader on the flattened connection. *)
From Modbus Require Import Base.Bytes Model.Crc Model.Encoding Model.Wire Model.Client Model.Server
  Model.Chunks Spec.ModbusSpec Spec.ServerSpec Spec.ServerSessionSpec Spec.SegmentSpec
  Proofs.ServerP.
From Coq Require Import ZifyBool ZifyNat ZifyN.
Ltac Zify.zify_post_hook ::= Z.div_mod_to_equations.

(* ---------------------------------------------------------------- io.ReadFull *)

Section ReadFull.
  Context {T : Type} (rd1 : nat -> T -> rd1_res T) (flat : T -> list N) (measure : T -> nat).

  (* one Read delivers a prefix of the stream, no more than asked for; a Read
     of 0 bytes without error uses up some finite resource *)
  Definition rd1_ok : Prop := forall n s, (0 < n)%nat ->
    match rd1 n s with
    | Rd1 got s' => flat s = got ++ flat s' /\ (length got <= n)%nat /\
                    (measure s' <= measure s)%nat /\ (got = [] -> (measure s' < measure s)%nat)
    | Rd1None => flat s = []
    end.

  Lemma io_read_full_ok : rd1_ok -> forall fuel n acc s, (n + measure s <= fuel)%nat ->
    match io_read_full rd1 fuel n acc s with
    | GFull g r => (n <= length (flat s))%nat /\ g = acc ++ firstn n (flat s) /\ flat r = skipn n (flat s)
    | GShort g r => (length (flat s) < n)%nat /\ g = acc ++ flat s /\ flat r = []
    end.
  Proof.
    intros Hok. induction fuel as [|f IH]; intros n acc s Hf.
    - destruct n as [|k]; [|lia]. cbn [io_read_full firstn skipn].
      rewrite app_nil_r. repeat split. lia.
    - destruct n as [|k].
      + cbn [io_read_full firstn skipn]. rewrite app_nil_r. repeat split. lia.
      + cbn [io_read_full]. pose proof (Hok (S k) s ltac:(lia)) as H1.
        destruct (rd1 (S k) s) as [got s'|].
        * destruct H1 as (Hfl & Hlen & Hm & Hm0).
          assert (Hfuel : (S k - length got + measure s' <= f)%nat).
          { destruct got as [|x got]; [specialize (Hm0 eq_refl); cbn [length]; lia|cbn [length] in *; lia]. }
          specialize (IH (S k - length got)%nat (acc ++ got) s' Hfuel).
          destruct (io_read_full rd1 f (S k - length got) (acc ++ got) s') as [g r|g r].
          -- destruct IH as (Hn & Hg & Hr). rewrite Hfl. rewrite app_length.
             rewrite firstn_app, skipn_app.
             rewrite (firstn_all2 got) by lia. rewrite (skipn_all2 got) by lia.
             cbn [app]. rewrite <- app_assoc in Hg. repeat split; [lia|exact Hg|exact Hr].
          -- destruct IH as (Hn & Hg & Hr). rewrite Hfl. rewrite app_length.
             rewrite <- app_assoc in Hg. repeat split; [lia|exact Hg|exact Hr].
        * rewrite H1. cbn [length]. rewrite app_nil_r. repeat split; lia.
  Qed.
End ReadFull.

(* a full reader agrees with read_full on the flattened connection *)
Definition rdf_ok {T : Type} (rdf : nat -> T -> grf T) (flat : T -> list N) : Prop :=
  forall n s,
    match rdf n s with
    | GFull g r => read_full n (flat s) = RFull g (flat r)
    | GShort g r => read_full n (flat s) = RShort g /\ flat r = []
    end.

Lemma rdf_ok_of_rd1 {T : Type} (rd1 : nat -> T -> rd1_res T) flat measure :
  rd1_ok rd1 flat measure ->
  rdf_ok (fun n s => io_read_full rd1 (n + measure s) n [] s) flat.
Proof.
  intros Hok n s. pose proof (io_read_full_ok rd1 flat measure Hok (n + measure s) n [] s (le_n _)) as H.
  destruct (io_read_full rd1 (n + measure s) n [] s) as [g r|g r]; destruct H as (Hn & Hg & Hr);
    cbn [app] in Hg; unfold read_full.
  - replace (Nat.leb n (length (flat s))) with true by (symmetry; apply Nat.leb_le; lia).
    rewrite Hg, Hr. reflexivity.
  - replace (Nat.leb n (length (flat s))) with false by (symmetry; apply Nat.leb_gt; lia).
    rewrite Hg. split; [reflexivity|exact Hr].
Qed.

(* ---------------------------------------------------------------- chunks *)

Lemma chunk_read_ok : rd1_ok chunk_read (@concat N) (@length (list N)).
Proof.
  intros n cs Hn. unfold chunk_read. destruct cs as [|c cs']; [reflexivity|].
  destruct (Nat.leb (length c) n) eqn:El.
  - apply Nat.leb_le in El. cbn [concat length]. repeat split; try lia.
  - apply Nat.leb_gt in El. cbn [concat length]. rewrite app_assoc, firstn_skipn.
    repeat split; try lia.
    + rewrite firstn_length. lia.
    + intros H0. apply (f_equal (@length N)) in H0. rewrite firstn_length in H0. cbn [length] in H0. lia.
Qed.

(* T1 *)
Lemma read_full_chunks_ok : rdf_ok read_full_chunks (@concat N).
Proof. exact (rdf_ok_of_rd1 chunk_read (@concat N) (@length (list N)) chunk_read_ok). Qed.

Lemma read_full_chunks_flat n cs :
  match read_full n (concat cs) with
  | RFull g rest => exists r, read_full_chunks n cs = GFull g r /\ concat r = rest
  | RShort g => exists r, read_full_chunks n cs = GShort g r /\ concat r = []
  end.
Proof.
  pose proof (read_full_chunks_ok n cs) as H.
  destruct (read_full_chunks n cs) as [g r|g r].
  - rewrite H. exists r. split; reflexivity.
  - destruct H as [H He]. rewrite H. exists r. split; [reflexivity|exact He].
Qed.

(* ---------------------------------------------------------------- readers *)

Section Readers.
  Context {T : Type} (rdf : nat -> T -> grf T) (sz : T -> nat) (flat : T -> list N).
  Context (Hrdf : rdf_ok rdf flat) (Hsz : forall s, sz s = length (flat s)).

  Lemma g_read_mbap_flat e s :
    read_mbap e (flat s) = (fst (g_read_mbap rdf e s), flat (snd (g_read_mbap rdf e s))).
  Proof.
    unfold g_read_mbap, read_mbap.
    pose proof (Hrdf 7%nat s) as H7. destruct (rdf 7%nat s) as [hdr r|g r].
    - rewrite H7.
      destruct hdr as [|t1 [|t0 [|p1 [|p0 [|l1 [|l0 [|u [|x hdr]]]]]]]]; try reflexivity.
      destruct (260 <? _); [reflexivity|]. destruct (_ <=? 1); [reflexivity|].
      match goal with |- context [rdf ?n r] =>
        pose proof (Hrdf n r) as Hb; destruct (rdf n r) as [body r'|g r'] end.
      + rewrite Hb. destruct (negb _); [reflexivity|]. destruct body; reflexivity.
      + destruct Hb as [Hb He]. rewrite Hb. cbn [fst snd]. rewrite He. reflexivity.
    - destruct H7 as [H7 He]. rewrite H7. cbn [fst snd]. rewrite He. reflexivity.
  Qed.

  Lemma g_mbap_read_response_flat fuel : forall e txn s,
    mbap_read_response fuel e txn (flat s) =
    (fst (g_mbap_read_response rdf fuel e txn s), flat (snd (g_mbap_read_response rdf fuel e txn s))).
  Proof.
    induction fuel as [|f IH]; intros e txn s; [reflexivity|].
    cbn [mbap_read_response g_mbap_read_response]. rewrite g_read_mbap_flat.
    destruct (g_read_mbap rdf e s) as [[p t|x] s']; cbn [fst snd].
    - destruct (t =? txn); [reflexivity|apply IH].
    - destruct x; try reflexivity. apply IH.
  Qed.

  Lemma g_read_rtu_flat e s :
    read_rtu e (flat s) = (fst (g_read_rtu rdf e s), flat (snd (g_read_rtu rdf e s))).
  Proof.
    unfold g_read_rtu, read_rtu.
    pose proof (Hrdf 3%nat s) as H3. destruct (rdf 3%nat s) as [hdr r|g r].
    - rewrite H3. destruct hdr as [|u [|fc [|b2 [|x hdr]]]]; try reflexivity.
      destruct (expected_len fc b2) as [n|]; [|reflexivity].
      destruct (256 <? _); [reflexivity|].
      match goal with |- context [rdf ?k r] =>
        pose proof (Hrdf k r) as Hb; destruct (rdf k r) as [body r'|g r'] end.
      + rewrite Hb. destruct (skipn (N.to_nat n) body) as [|lo [|hi [|y tl]]]; try reflexivity.
        destruct (crc_is_equal _ lo hi); reflexivity.
      + destruct Hb as [Hb He]. rewrite Hb. destruct e, g; cbn [fst snd]; rewrite He; reflexivity.
    - destruct H3 as [H3 He]. rewrite H3. destruct g; cbn [fst snd]; rewrite He; reflexivity.
  Qed.

  Lemma g_discard_flat s : skipn 1024 (flat s) = flat (g_discard rdf s).
  Proof.
    clear Hsz sz. unfold g_discard. pose proof (Hrdf 1024%nat s) as H. unfold read_full in H.
    destruct (rdf 1024%nat s) as [g r|g r].
    - destruct (Nat.leb 1024 (length (flat s))); [|discriminate]. congruence.
    - destruct H as [H He]. rewrite He.
      destruct (Nat.leb 1024 (length (flat s))) eqn:El; [discriminate|].
      apply Nat.leb_gt in El. apply skipn_all2. lia.
  Qed.

  Lemma g_rtu_read_response_flat e s :
    rtu_read_response e (flat s) =
    (fst (g_rtu_read_response rdf e s), flat (snd (g_rtu_read_response rdf e s))).
  Proof.
    unfold rtu_read_response, g_rtu_read_response. rewrite g_read_rtu_flat.
    destruct (g_read_rtu rdf e s) as [[p|x| |] s']; cbn [fst snd]; try reflexivity.
    destruct x; cbn [fst snd]; try reflexivity; rewrite g_discard_flat; reflexivity.
  Qed.

  Lemma g_client_call_flat fr cfg txn o e s :
    client_call fr cfg txn o e (flat s) =
    let r := g_client_call rdf sz fr cfg txn o e s in
    mkcall (gcr_res r) (gcr_writes r) (flat (gcr_rest r)) (gcr_txn r).
  Proof.
    unfold client_call, g_client_call.
    destruct (client_request cfg o) as [req|x| |]; try reflexivity.
    unfold transport_exchange, g_transport_exchange. destruct fr.
    - rewrite Hsz. rewrite g_mbap_read_response_flat.
      destruct (g_mbap_read_response rdf (S (length (flat s))) e (u16 (txn + 1)) s) as [r rest].
      cbn [fst snd]. destruct r as [res|x| |]; try reflexivity.
      destruct (unit_check req res); reflexivity.
    - rewrite g_rtu_read_response_flat.
      destruct (g_rtu_read_response rdf e s) as [r rest].
      cbn [fst snd]. destruct r as [res|x| |]; try reflexivity.
      destruct (unit_check req res); reflexivity.
  Qed.

  Section Srv.
    Context {St : Type} (h : handler St).

    Lemma g_server_session_flat fuel : forall st e s,
      server_session h fuel st e (flat s) = g_server_session rdf h fuel st e s.
    Proof.
      induction fuel as [|f IH]; intros st e s; [reflexivity|].
      cbn [server_session g_server_session]. rewrite g_read_mbap_flat.
      destruct (g_read_mbap rdf e s) as [[p t|x] s']; cbn [fst snd]; [|reflexivity].
      destruct (server_process h st p) as [[st' calls] act]. f_equal.
      destruct act as [res|]; [|reflexivity]. f_equal. apply IH.
    Qed.

    Lemma g_server_run_flat st e s :
      server_run h st e (flat s) = g_server_run rdf sz h st e s.
    Proof. unfold server_run, g_server_run. rewrite Hsz. apply g_server_session_flat. Qed.
  End Srv.
End Readers.

(* ------------------------------------------------- T2: chunked = flat o concat *)

Lemma chunks_size_ok cs : chunks_size cs = length (concat cs).
Proof. reflexivity. Qed.

Lemma read_mbap_chunks e cs :
  read_mbap e (concat cs) = (fst (read_mbap_c e cs), concat (snd (read_mbap_c e cs))).
Proof. exact (g_read_mbap_flat read_full_chunks (@concat N) read_full_chunks_ok e cs). Qed.

Lemma mbap_read_response_chunks fuel e txn cs :
  mbap_read_response fuel e txn (concat cs) =
  (fst (mbap_read_response_c fuel e txn cs), concat (snd (mbap_read_response_c fuel e txn cs))).
Proof. exact (g_mbap_read_response_flat read_full_chunks (@concat N) read_full_chunks_ok fuel e txn cs). Qed.

Lemma read_rtu_chunks e cs :
  read_rtu e (concat cs) = (fst (read_rtu_c e cs), concat (snd (read_rtu_c e cs))).
Proof. exact (g_read_rtu_flat read_full_chunks (@concat N) read_full_chunks_ok e cs). Qed.

Lemma rtu_read_response_chunks e cs :
  rtu_read_response e (concat cs) =
  (fst (rtu_read_response_c e cs), concat (snd (rtu_read_response_c e cs))).
Proof. exact (g_rtu_read_response_flat read_full_chunks (@concat N) read_full_chunks_ok e cs). Qed.

Lemma client_call_chunks fr cfg txn o e cs :
  client_call fr cfg txn o e (concat cs) =
  let r := client_call_c fr cfg txn o e cs in
  mkcall (gcr_res r) (gcr_writes r) (concat (gcr_rest r)) (gcr_txn r).
Proof.
  exact (g_client_call_flat read_full_chunks chunks_size (@concat N) read_full_chunks_ok
           chunks_size_ok fr cfg txn o e cs).
Qed.

Lemma server_run_chunks {St : Type} (h : handler St) st e cs :
  server_run_c h st e cs = server_run h st e (concat cs).
Proof.
  symmetry.
  exact (g_server_run_flat read_full_chunks chunks_size (@concat N) read_full_chunks_ok
           chunks_size_ok h st e cs).
Qed.

(* any two deliveries of the same stream *)
Lemma client_call_segmentation fr cfg txn o e cs1 cs2 : same_stream cs1 cs2 ->
  call_same (client_call_c fr cfg txn o e cs1) (client_call_c fr cfg txn o e cs2).
Proof.
  intros Hs. pose proof (client_call_chunks fr cfg txn o e cs1) as H1.
  pose proof (client_call_chunks fr cfg txn o e cs2) as H2.
  unfold same_stream in Hs. rewrite Hs in H1. rewrite H1 in H2. cbv zeta in H2.
  injection H2 as Ha Hb Hc Hd. unfold call_same. auto.
Qed.

Lemma server_run_segmentation {St : Type} (h : handler St) st e cs1 cs2 : same_stream cs1 cs2 ->
  server_run_c h st e cs1 = server_run_c h st e cs2.
Proof. intros Hs. rewrite !server_run_chunks. unfold same_stream in Hs. rewrite Hs. reflexivity. Qed.

(* the named segmentations deliver the same stream as one frame per read *)
Lemma seg_bytewise_same s : concat (seg_bytewise s) = s.
Proof. induction s as [|b s IH]; [reflexivity|]. cbn [seg_bytewise map concat app] in *. f_equal. exact IH. Qed.

Lemma seg_split_same k s : concat (seg_split k s) = s.
Proof. unfold seg_split. cbn [concat]. rewrite app_nil_r. apply firstn_skipn. Qed.

Lemma seg_split2_same j k s : concat (seg_split2 j k s) = s.
Proof.
  unfold seg_split2. cbn [concat]. rewrite app_nil_r, firstn_skipn. apply firstn_skipn.
Qed.

Lemma seg_coalesced_same frames : concat (seg_coalesced frames) = concat frames.
Proof. unfold seg_coalesced. cbn [concat]. apply app_nil_r. Qed.

Lemma seg_frames_bytewise frames : same_stream (seg_bytewise (concat frames)) frames.
Proof. apply seg_bytewise_same. Qed.
Lemma seg_frames_split k frames : same_stream (seg_split k (concat frames)) frames.
Proof. apply seg_split_same. Qed.
Lemma seg_frames_split2 j k frames : same_stream (seg_split2 j k (concat frames)) frames.
Proof. apply seg_split2_same. Qed.
Lemma seg_frames_coalesced frames : same_stream (seg_coalesced frames) frames.
Proof. apply seg_coalesced_same. Qed.

Lemma named_segmentations frames j k :
  same_stream (seg_bytewise (concat frames)) frames /\
  same_stream (seg_split k (concat frames)) frames /\
  same_stream (seg_split2 j k (concat frames)) frames /\
  same_stream (seg_coalesced frames) frames.
Proof.
  exact (conj (seg_frames_bytewise frames) (conj (seg_frames_split k frames)
          (conj (seg_frames_split2 j k frames) (seg_frames_coalesced frames)))).
Qed.

Lemma client_call_any_segmentation fr cfg txn o e frames cs : same_stream cs frames ->
  call_same (client_call_c fr cfg txn o e cs) (client_call_c fr cfg txn o e frames).
Proof. apply client_call_segmentation. Qed.

Lemma server_run_any_segmentation {St : Type} (h : handler St) st e frames cs : same_stream cs frames ->
  server_run_c h st e cs = server_run_c h st e frames.
Proof. apply server_run_segmentation. Qed.

Lemma client_call_named fr cfg txn o e frames j k :
  let ref := client_call_c fr cfg txn o e frames in
  call_same (client_call_c fr cfg txn o e (seg_bytewise (concat frames))) ref /\
  call_same (client_call_c fr cfg txn o e (seg_split k (concat frames))) ref /\
  call_same (client_call_c fr cfg txn o e (seg_split2 j k (concat frames))) ref /\
  call_same (client_call_c fr cfg txn o e (seg_coalesced frames)) ref.
Proof.
  intros ref. unfold ref. destruct (named_segmentations frames j k) as (H1 & H2 & H3 & H4).
  split; [|split; [|split]]; apply client_call_segmentation; assumption.
Qed.

Lemma server_run_named {St : Type} (h : handler St) st e frames j k :
  let ref := server_run_c h st e frames in
  server_run_c h st e (seg_bytewise (concat frames)) = ref /\
  server_run_c h st e (seg_split k (concat frames)) = ref /\
  server_run_c h st e (seg_split2 j k (concat frames)) = ref /\
  server_run_c h st e (seg_coalesced frames) = ref.
Proof.
  intros ref. unfold ref. destruct (named_segmentations frames j k) as (H1 & H2 & H3 & H4).
  split; [|split; [|split]]; apply server_run_segmentation; assumption.
Qed.

(* T4: pipelined requests under any chunking *)
Lemma server_pipelined_chunks {St : Type} (h : handler St) frames tail st e cs :
  Forall (fun f => fst f < 65536 /\ pdu_wf (snd f)) frames ->
  concat cs = concat (map (fun f => spec_mbap (fst f) (snd f)) frames) ++ tail ->
  server_run_c h st e cs =
  spec_session h st frames (fun st' => server_run h st' e tail).
Proof.
  intros HF Hc. rewrite server_run_chunks, Hc. apply server_pipelined. exact HF.
Qed.
