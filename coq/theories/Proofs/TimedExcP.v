(* Proofs for Properties/C07x.v: the converse clause of C07 for EXCEPTION
   replies. A valid reply is the normal response or an exception response
   (ClientSpec.exception_reply); the timed call returns what the untimed
   client returns on the bytes that arrived by the deadline (TimedP), and the
   untimed client maps an exception reply to the error of its code (C02,
   ClientRespP). *)
From Modbus Require Import Base.Bytes Model.Crc Model.Encoding Model.Wire Model.Client
  Model.Timed Spec.ModbusSpec Spec.ClientSpec Spec.TimedSpec
  Proofs.FramingP Proofs.ClientReqP Proofs.ClientRespP Proofs.TimedP.
From Coq Require Import ZifyBool ZifyNat ZifyN.
Ltac Zify.zify_post_hook ::= Z.div_mod_to_equations.

(* the error an exception code stands for (documented table, else "unknown
   exception code") *)
Definition exc_outcome (code : N) : err :=
  if documented_exception code then EExc code else EExcUnknown code.

Lemma exc_outcome_not_timeout code : exc_outcome code <> ETimeout.
Proof. unfold exc_outcome. destruct (documented_exception code); discriminate. Qed.

Lemma tm_timely_exception_mbap : forall k la cfg txn o t0 c pre post res code frames,
  op_wf o -> cfg_wf cfg -> txn < 65536 -> valid_op o = true -> (0 <= tm_timeout k)%Z ->
  code < 256 -> exception_reply cfg o res code ->
  Forall (skippable (u16 (txn + 1))) frames ->
  map snd pre = concat frames ++ spec_frame FMbap (u16 (txn + 1)) res ->
  Forall (fun p => (fst p <= t0 + tm_timeout k)%Z) pre ->
  let r := tm_client_call FMbap k la cfg txn o t0 c (pre ++ post) in
  tmc_res r = Err (exc_outcome code) /\ (t0 <= tmc_finish r <= t0 + tm_timeout k)%Z.
Proof.
  intros k la cfg txn o t0 c pre post res code frames Hwf Hcfg Htx V Ht Hc Hex HF Hpre Htimes r.
  subst r. split; [|apply tm_client_time_mbap; exact Ht].
  destruct (tm_client_sim_mbap k la cfg txn o t0 c (pre ++ post) Ht) as [-> _].
  rewrite tm_avail_app by exact Htimes. rewrite map_app, Hpre, <- app_assoc.
  apply (client_exception_mbap cfg txn o _ res code frames _ Hwf Hcfg Htx V Hc Hex HF).
Qed.

Lemma tm_timely_exception_rtu : forall k la cfg txn o t0 c pre post res code,
  op_wf o -> cfg_wf cfg -> valid_op o = true -> tm_conf_wf k -> tm_gran k = 0%Z ->
  (tm_rtu_read_start k la t0 (tm_req_len cfg o) <= t0 + tm_timeout k)%Z ->
  code < 256 -> exception_reply cfg o res code ->
  map snd pre = spec_frame FRtu 0 res ->
  Forall (fun p => (fst p <= t0 + tm_timeout k)%Z) pre ->
  tmc_res (tm_client_call FRtu k la cfg txn o t0 c (pre ++ post)) = Err (exc_outcome code).
Proof.
  intros k la cfg txn o t0 c pre post res code Hwf Hcfg V Hk Hg Hs Hc Hex Hpre Htimes.
  rewrite (tm_client_sim_rtu k la cfg txn o t0 c (pre ++ post) Hwf Hk Hg Hs).
  rewrite tm_avail_app by exact Htimes. rewrite map_app, Hpre.
  apply (client_exception_rtu cfg txn o _ res code _ Hwf Hcfg V Hc Hex).
Qed.

(* ... hence never the request-timed-out error *)
Lemma tm_timely_exception_mbap_no_timeout : forall k la cfg txn o t0 c pre post res code frames,
  op_wf o -> cfg_wf cfg -> txn < 65536 -> valid_op o = true -> (0 <= tm_timeout k)%Z ->
  code < 256 -> exception_reply cfg o res code ->
  Forall (skippable (u16 (txn + 1))) frames ->
  map snd pre = concat frames ++ spec_frame FMbap (u16 (txn + 1)) res ->
  Forall (fun p => (fst p <= t0 + tm_timeout k)%Z) pre ->
  tmc_res (tm_client_call FMbap k la cfg txn o t0 c (pre ++ post)) <> Err ETimeout.
Proof.
  intros k la cfg txn o t0 c pre post res code frames Hwf Hcfg Htx V Ht Hc Hex HF Hpre Htimes.
  destruct (tm_timely_exception_mbap k la cfg txn o t0 c pre post res code frames
              Hwf Hcfg Htx V Ht Hc Hex HF Hpre Htimes) as [-> _].
  intros H. injection H as H. exact (exc_outcome_not_timeout code H).
Qed.

Lemma tm_timely_exception_rtu_no_timeout : forall k la cfg txn o t0 c pre post res code,
  op_wf o -> cfg_wf cfg -> valid_op o = true -> tm_conf_wf k -> tm_gran k = 0%Z ->
  (tm_rtu_read_start k la t0 (tm_req_len cfg o) <= t0 + tm_timeout k)%Z ->
  code < 256 -> exception_reply cfg o res code ->
  map snd pre = spec_frame FRtu 0 res ->
  Forall (fun p => (fst p <= t0 + tm_timeout k)%Z) pre ->
  tmc_res (tm_client_call FRtu k la cfg txn o t0 c (pre ++ post)) <> Err ETimeout.
Proof.
  intros k la cfg txn o t0 c pre post res code Hwf Hcfg V Hk Hg Hs Hc Hex Hpre Htimes.
  rewrite (tm_timely_exception_rtu k la cfg txn o t0 c pre post res code
             Hwf Hcfg V Hk Hg Hs Hc Hex Hpre Htimes).
  intros H. injection H as H. exact (exc_outcome_not_timeout code H).
Qed.
