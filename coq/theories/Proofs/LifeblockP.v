(* Proofs about Model/Lifeblock.v: the lifecycle system with a Start whose listen
   step fails while a foreign listener occupies the address. *)
From Coq Require Import List Arith Bool Lia.
Import ListNotations.
From Modbus Require Import Model.Slots Model.Lifeblock Proofs.SlotsP.

(* ------------------------------------------------------------ the invariant *)

(* the invariant of Slots.v on the server component, and the address has at
   most one owner: while a foreign listener holds it the server is not listening *)
Record LInv (b : lb_state) : Prop := {
  linv_srv : Inv (lb_srv b);
  linv_excl : lb_blocked b = true -> listening (lb_srv b) = false
}.

Lemma linv_init m : LInv (lb_init m).
Proof. constructor; [apply inv_init|cbn; discriminate]. Qed.

Lemma lb_eta b : mk_lb (lb_srv b) (lb_blocked b) = b.
Proof. destruct b. reflexivity. Qed.

Lemma start_fails_spec b :
  lb_start_fails b = true <-> started (lb_srv b) = false /\ lb_blocked b = true.
Proof. unfold lb_start_fails. rewrite andb_true_iff, negb_true_iff. tauto. Qed.

Lemma step_start_started s : started s = true -> step s Start = s.
Proof. intros H. unfold step. cbn. rewrite H. reflexivity. Qed.

Lemma step_stop_stopped s : started s = false -> step s Stop = s.
Proof. intros H. unfold step. cbn. rewrite H. reflexivity. Qed.

Lemma step_start_stopped s : started s = false ->
  started (step s Start) = true /\ listening (step s Start) = true /\
  acceptors (step s Start) = S (acceptors s) /\ zombies (step s Start) = zombies s /\
  clients (step s Start) = clients s /\ stat (step s Start) = stat s /\ closed (step s Start) = closed s.
Proof. intros H. unfold step. cbn. rewrite H. cbn. repeat split. Qed.

(* no step other than Start opens the listener *)
Lemma listening_stays_closed s x : x <> Start -> listening s = false -> listening (step s x) = false.
Proof.
  intros Hx Hl. unfold step. destruct (enabled s x); cbn [negb]; [|exact Hl].
  destruct x; try exact Hl; try congruence.
  - destruct (started s && (length (clients s) <? maxc s)); exact Hl.
  - destruct (negb (started s)); [exact Hl|reflexivity].
Qed.

(* ------------------------------------------------------------ the failing listen step *)

Theorem failed_start_unchanged b : lb_start_fails b = true -> lb_step b (LSrv Start) = b.
Proof. intros H. unfold lb_step. rewrite H. reflexivity. Qed.

Theorem failed_starts_unchanged b n : lb_start_fails b = true ->
  lb_run b (repeat (LSrv Start) n) = b.
Proof.
  intros H. induction n as [|n IH]; [reflexivity|].
  cbn [repeat]. unfold lb_run in *. cbn [fold_left]. rewrite (failed_start_unchanged b H). exact IH.
Qed.

(* Start reaches the listen step only on a stopped server: on a started one it
   is the no-op of Slots.v whether or not the address could be bound again *)
Theorem started_start_noop b : started (lb_srv b) = true ->
  lb_start_fails b = false /\ lb_step b (LSrv Start) = b.
Proof.
  intros H. assert (F : lb_start_fails b = false) by (unfold lb_start_fails; rewrite H; reflexivity).
  split; [exact F|]. unfold lb_step. rewrite F, (step_start_started _ H). apply lb_eta.
Qed.

(* with the address free Start is the Start of Slots.v *)
Theorem free_start_is_start b : lb_blocked b = false ->
  lb_start_fails b = false /\ lb_step b (LSrv Start) = mk_lb (step (lb_srv b) Start) false.
Proof.
  intros H. assert (F : lb_start_fails b = false) by (unfold lb_start_fails; rewrite H; apply andb_false_r).
  split; [exact F|]. unfold lb_step. rewrite F, H. reflexivity.
Qed.

(* Stop after a failed Start is the harmless no-op it is on any stopped server *)
Theorem stop_after_failed_start b : lb_start_fails b = true ->
  lb_step (lb_step b (LSrv Start)) (LSrv Stop) = b.
Proof.
  intros H. rewrite (failed_start_unchanged b H). apply start_fails_spec in H as [Hs _].
  unfold lb_step. rewrite (step_stop_stopped _ Hs). apply lb_eta.
Qed.

(* once the address is free again, Start after any number of failed attempts
   behaves exactly as Start from the stopped state: it serves *)
Theorem start_after_failed_start b n : LInv b -> lb_start_fails b = true ->
  let b1 := lb_step (lb_run b (repeat (LSrv Start) n)) LUnblock in
  let b2 := lb_step b1 (LSrv Start) in
  lb_start_fails b1 = false /\
  lb_srv b2 = step (lb_srv b) Start /\
  started (lb_srv b2) = true /\ listening (lb_srv b2) = true /\ acceptors (lb_srv b2) = 1 /\
  clients (lb_srv b2) = clients (lb_srv b) /\ lb_blocked b2 = false.
Proof.
  intros I H. cbn zeta. rewrite (failed_starts_unchanged b n H).
  apply start_fails_spec in H as [Hs Hb].
  assert (Hb1 : lb_blocked (lb_step b LUnblock) = false) by reflexivity.
  destruct (free_start_is_start _ Hb1) as [F E]. rewrite E. cbn [lb_srv lb_blocked lb_step].
  destruct (step_start_stopped _ Hs) as (A & B & C & _ & D & _).
  repeat split; try assumption.
  rewrite C, (inv_acceptors _ (linv_srv _ I) Hs). reflexivity.
Qed.

(* ------------------------------------------------------------ preservation *)

Lemma linv_step b l : LInv b -> LInv (lb_step b l).
Proof.
  intros [I X]. destruct l as [x| |].
  - assert (G : forall y, y <> Start -> LInv (mk_lb (step (lb_srv b) y) (lb_blocked b))).
    { intros y Hy. constructor; cbn [lb_srv lb_blocked].
      - apply inv_step, I.
      - intros Hb. apply listening_stays_closed; [exact Hy|apply X, Hb]. }
    destruct x; try (apply G; discriminate).
    unfold lb_step. destruct (lb_start_fails b) eqn:F; [constructor; assumption|].
    constructor; cbn [lb_srv lb_blocked]; [apply inv_step, I|].
    intros Hb. unfold lb_start_fails in F. rewrite Hb, andb_true_r in F. apply negb_false_iff in F.
    rewrite (step_start_started _ F). apply X, Hb.
  - unfold lb_step. destruct (lb_block_ok b) eqn:K; [|constructor; assumption].
    constructor; cbn [lb_srv lb_blocked]; [exact I|]. intros _.
    unfold lb_block_ok in K. apply andb_true_iff in K as [K _]. apply negb_true_iff in K. exact K.
  - constructor; cbn [lb_srv lb_blocked lb_step]; [exact I|discriminate].
Qed.

Lemma linv_run tr : forall b, LInv b -> LInv (lb_run b tr).
Proof.
  induction tr as [|l tr IH]; intros b I; [exact I|].
  unfold lb_run in *. cbn [fold_left]. apply IH, linv_step, I.
Qed.

Theorem lb_reachable_inv m tr : LInv (lb_run (lb_init m) tr).
Proof. apply linv_run, linv_init. Qed.

(* the failing listen step preserves the C10 invariant (it changes nothing) *)
Theorem failed_start_preserves_inv b : lb_start_fails b = true -> Inv (lb_srv b) ->
  Inv (lb_srv (lb_step b (LSrv Start))) /\ started (lb_srv (lb_step b (LSrv Start))) = false /\
  listening (lb_srv (lb_step b (LSrv Start))) = false /\ acceptors (lb_srv (lb_step b (LSrv Start))) = 0.
Proof.
  intros H I. rewrite (failed_start_unchanged b H). apply start_fails_spec in H as [Hs _].
  split; [exact I|]. split; [exact Hs|]. split; [rewrite (inv_listen _ I); exact Hs|apply (inv_acceptors _ I), Hs].
Qed.

(* ------------------------------------------------------------ projection on Slots.v *)

Lemma lb_run_snoc b tr l : lb_run b (tr ++ [l]) = lb_step (lb_run b tr) l.
Proof. unfold lb_run. rewrite fold_left_app. reflexivity. Qed.

Lemma run_snoc s tr l : run s (tr ++ [l]) = step (run s tr) l.
Proof. unfold run. rewrite fold_left_app. reflexivity. Qed.

Lemma lb_step_srv b l :
  lb_srv (lb_step b l) = lb_srv b \/ exists x, lb_srv (lb_step b l) = step (lb_srv b) x.
Proof.
  destruct l as [x| |].
  - destruct x; try (right; eexists; reflexivity).
    unfold lb_step. destruct (lb_start_fails b); [left; reflexivity|right; eexists; reflexivity].
  - left. unfold lb_step. destruct (lb_block_ok b); reflexivity.
  - left. reflexivity.
Qed.

(* the server component of every reachable state is a reachable state of
   Slots.v: failed Starts and the environment steps are invisible to it, so
   every theorem of C10.v / C09.v about reachable states carries over *)
Theorem lb_reach_proj m tr : exists tr', lb_srv (lb_run (lb_init m) tr) = run (init m) tr'.
Proof.
  induction tr as [|l tr IH] using rev_ind; [exists []; reflexivity|].
  destruct IH as [tr' E]. rewrite lb_run_snoc.
  destruct (lb_step_srv (lb_run (lb_init m) tr) l) as [H|[x H]]; rewrite H, E.
  - exists tr'. reflexivity.
  - exists (tr' ++ [x]). rewrite run_snoc. reflexivity.
Qed.

Theorem lb_stopped_serves_nothing m tr c :
  let s := lb_srv (lb_run (lb_init m) tr) in
  started s = false -> listening s = false /\ acceptors s = 0 /\ enabled s (Req c) = false.
Proof.
  cbn zeta. destruct (lb_reach_proj m tr) as [tr' E]. rewrite E. apply stopped_serves_nothing.
Qed.

(* the address never has two owners *)
Theorem lb_blocked_not_started m tr :
  let b := lb_run (lb_init m) tr in
  lb_blocked b = true -> started (lb_srv b) = false /\ lb_block_ok b = false.
Proof.
  cbn zeta. intros Hb. destruct (lb_reachable_inv m tr) as [I X].
  split; [rewrite <- (inv_listen _ I); apply X, Hb|].
  unfold lb_block_ok. rewrite Hb. apply andb_false_r.
Qed.
