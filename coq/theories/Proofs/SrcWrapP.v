(* udp.go (udpSockWrapper) and tls_utils.go (tlsSockWrapper) as translated from
   the Go source: vocabulary of the statements. The wrapped socket is a set of
   external functions over the state of the world. *)
From Coq Require Import List NArith String Lia Bool.
From Coq Require Import ZifyBool ZifyNat ZifyN.
Import ListNotations.
From Modbus Require Import Base.Bytes Model.GoLite Gen.SrcPure Model.Wire Model.Transport Replay.SrcReplayLib.
From Modbus Require Import Proofs.GoLiteP Proofs.GoLiteLinkP Proofs.SrcCrcP Proofs.SrcMiscP Proofs.SrcClientP Proofs.SrcTransportP.
Open Scope string_scope.
Open Scope N_scope.

Definition sock_hyp (fe : fenv) (T : tworld) : Prop :=
  (forall w n, fe "sock.Read" [w; VN n] = let '(w', got, e) := t_readfull T w n in GOk [w'; vbytes got; VN e]) /\
  (forall w bs, fe "sock.Write" [w; vbytes bs] = let '(w', n, e) := t_write T w bs in GOk [w'; VN n; VN e]) /\
  (forall w, fe "sock.Close" [w] = GOk [fst (t_close T w); VN (snd (t_close T w))]) /\
  (forall w t, fe "sock.SetDeadline" [w; VN t] = GOk [fst (t_setdl T w t); VN (snd (t_setdl T w t))]).

Definition sock_base (T : tworld) : fenv := fun name args =>
  let is s := String.eqb name s in
  if is "sock.Read" then
    match args with [w; VN n] => let '(w', got, e) := t_readfull T w n in GOk [w'; vbytes got; VN e] | _ => Stuck end
  else if is "sock.Write" then
    match args with [w; VL l] => let '(w', n, e) := t_write T w (unbytes l) in GOk [w'; VN n; VN e] | _ => Stuck end
  else if is "sock.Close" then
    match args with [w] => GOk [fst (t_close T w); VN (snd (t_close T w))] | _ => Stuck end
  else if is "sock.SetDeadline" then
    match args with [w; VN t] => GOk [fst (t_setdl T w t); VN (snd (t_setdl T w t))] | _ => Stuck end
  else Stuck.

Definition out_udp_read (T : tworld) (left : N) (rxbuf buf : list N) (w : val) : GoLite.res (list val) :=
  let '(left', rxbuf', buf', w', rlen, e) := t_udp_read T left rxbuf buf w in
  GOk [VN left'; vbytes rxbuf'; vbytes buf'; w'; VN rlen; VN e].

Definition out_udp_write (T : tworld) (left : N) (rxbuf buf : list N) (w : val) : GoLite.res (list val) :=
  let '(w', n, e) := t_write T w buf in GOk [VN left; vbytes rxbuf; w'; VN n; VN e].

Definition out_udp_close (T : tworld) (left : N) (rxbuf : list N) (w : val) : GoLite.res (list val) :=
  GOk [VN left; vbytes rxbuf; fst (t_close T w); VN (snd (t_close T w))].

Definition out_udp_setdl (T : tworld) (left : N) (rxbuf : list N) (d : N) (w : val) : GoLite.res (list val) :=
  GOk [VN left; vbytes rxbuf; fst (t_setdl T w d); VN (snd (t_setdl T w d))].

Definition out_tls_read (T : tworld) (buf : list N) (w : val) : GoLite.res (list val) :=
  let '(buf', w', rlen, e) := t_tls_read T buf w in GOk [vbytes buf'; w'; VN rlen; VN e].

Definition out_tls_write (T : tworld) (buf : list N) (w : val) : GoLite.res (list val) :=
  let '(w', n, e) := t_tls_write T 2 buf w in GOk [w'; VN n; VN e].

Definition out_tls_close (T : tworld) (w : val) : GoLite.res (list val) :=
  GOk [fst (t_close T w); VN (snd (t_close T w))].

Definition out_tls_setdl (T : tworld) (d : N) (w : val) : GoLite.res (list val) :=
  GOk [fst (t_setdl T w d); VN (snd (t_setdl T w d))].

(* ---------------------------------------------------------------- sanity: interpreter = model on concrete worlds *)

(* a socket that hands out the world's bytes [chunk] at a time (a datagram is never larger than that) *)
Definition dgram_world (chunk : N) (err : N) : tworld := {|
  t_now := fun w => (w, 0);
  t_sleep := fun w _ => w;
  t_setdl := fun w d => (w, d mod 2);
  t_write := fun w bs => (VL [w; vbytes bs], lenN bs, err);
  t_readfull := fun w n =>
    let s := match w with VL l => unbytes l | _ => [] end in
    match s with
    | [] => (w, [], 2)
    | _ => let k := N.to_nat (N.min chunk n) in (vbytes (skipn k s), firstn k s, 0)
    end;
  t_close := fun w => (VL [w], 7)
|}.

Definition zeros (n : nat) : list N := repeat 0 n.
Definition udp_tests : list (N * list N * list N * list N) :=
  [(0, zeros 10, zeros 4, [1; 2; 3; 4; 5; 6; 7; 8; 9]); (0, zeros 10, zeros 7, [1; 2; 3; 4; 5; 6; 7; 8; 9]);
   (3, [7; 8; 9; 0; 0; 0], zeros 2, [1]); (3, [7; 8; 9; 0; 0; 0], zeros 3, [1]); (3, [7; 8; 9; 0; 0; 0], zeros 5, [1]);
   (0, zeros 10, zeros 4, []); (0, zeros 10, [], [1; 2]); (1, [5; 0], zeros 1, [])].

Example sanity_udp_read :
  forallb (fun c => let '(lft, rx, buf, s) := c in
     res_eqb (call_with src_pure (sock_base (dgram_world 6 0)) 50 "udpSockWrapper.Read" [VN lft; vbytes rx; vbytes buf; vbytes s])
             (out_udp_read (dgram_world 6 0) lft rx buf (vbytes s))) udp_tests = true.
Proof. vm_compute. reflexivity. Qed.

Example sanity_udp_others :
  andb (res_eqb (call_with src_pure (sock_base (dgram_world 6 3)) 50 "udpSockWrapper.Write" [VN 2; vbytes [1; 2]; vbytes [9; 8]; VN 5])
                (out_udp_write (dgram_world 6 3) 2 [1; 2] [9; 8] (VN 5)))
  (andb (res_eqb (call_with src_pure (sock_base (dgram_world 6 3)) 50 "udpSockWrapper.Close" [VN 2; vbytes [1; 2]; VN 5])
                (out_udp_close (dgram_world 6 3) 2 [1; 2] (VN 5)))
        (res_eqb (call_with src_pure (sock_base (dgram_world 6 3)) 50 "udpSockWrapper.SetDeadline" [VN 2; vbytes [1; 2]; VN 77; VN 5])
                (out_udp_setdl (dgram_world 6 3) 2 [1; 2] 77 (VN 5)))) = true.
Proof. vm_compute. reflexivity. Qed.

Example sanity_tls :
  forallb (fun b => b)
    [res_eqb (call_with src_pure (sock_base (dgram_world 3 0)) 50 "tlsSockWrapper.Read" [vbytes (zeros 5); vbytes [1; 2; 3; 4]])
             (out_tls_read (dgram_world 3 0) (zeros 5) (vbytes [1; 2; 3; 4]));
     res_eqb (call_with src_pure (sock_base (dgram_world 3 0)) 50 "tlsSockWrapper.Read" [vbytes (zeros 5); vbytes []])
             (out_tls_read (dgram_world 3 0) (zeros 5) (vbytes []));
     res_eqb (call_with src_pure (sock_base (dgram_world 3 0)) 50 "tlsSockWrapper.Write" [vbytes [4; 5]; VN 1])
             (out_tls_write (dgram_world 3 0) [4; 5] (VN 1));
     res_eqb (call_with src_pure (sock_base (dgram_world 3 2)) 50 "tlsSockWrapper.Write" [vbytes [4; 5]; VN 1])
             (out_tls_write (dgram_world 3 2) [4; 5] (VN 1));
     res_eqb (call_with src_pure (sock_base (dgram_world 3 9)) 50 "tlsSockWrapper.Write" [vbytes [4; 5]; VN 1])
             (out_tls_write (dgram_world 3 9) [4; 5] (VN 1));
     res_eqb (call_with src_pure (sock_base (dgram_world 3 9)) 50 "tlsSockWrapper.Close" [VN 1])
             (out_tls_close (dgram_world 3 9) (VN 1));
     res_eqb (call_with src_pure (sock_base (dgram_world 3 9)) 50 "tlsSockWrapper.SetDeadline" [VN 33; VN 1])
             (out_tls_setdl (dgram_world 3 9) 33 (VN 1))] = true.
Proof. vm_compute. reflexivity. Qed.

(* ---------------------------------------------------------------- serial.go: serialPortWrapper *)

Definition src_ser_tmo : N := N.of_nat (List.length src_error_codes) + 5.   (* serial.ErrTimeout *)

Definition port_hyp (fe : fenv) (T : tworld) : Prop :=
  (forall w, fe "time.Now" [w] = GOk [fst (t_now T w); VN (snd (t_now T w))]) /\
  (forall w n, fe "port.Read" [w; VN n] = let '(w', got, e) := t_readfull T w n in GOk [w'; vbytes got; VN e]) /\
  (forall w bs, fe "port.Write" [w; vbytes bs] = let '(w', n, e) := t_write T w bs in GOk [w'; VN n; VN e]) /\
  (forall w, fe "port.Close" [w] = GOk [fst (t_close T w); VN (snd (t_close T w))]).

Definition port_base (T : tworld) : fenv := fun name args =>
  let is s := String.eqb name s in
  if is "time.Now" then
    match args with [w] => GOk [fst (t_now T w); VN (snd (t_now T w))] | _ => Stuck end
  else if is "port.Read" then
    match args with [w; VN n] => let '(w', got, e) := t_readfull T w n in GOk [w'; vbytes got; VN e] | _ => Stuck end
  else if is "port.Write" then
    match args with [w; VL l] => let '(w', n, e) := t_write T w (unvn l) in GOk [w'; VN n; VN e] | _ => Stuck end
  else if is "port.Close" then
    match args with [w] => GOk [fst (t_close T w); VN (snd (t_close T w))] | _ => Stuck end
  else Stuck.

Definition out_serial_read (T : tworld) (deadline : N) (buf : list N) (w : val) : GoLite.res (list val) :=
  let '(buf', w', cnt, e) := t_serial_read T (c_timedout src_codes) src_ser_tmo deadline buf w in
  GOk [VN deadline; vbytes buf'; w'; VN cnt; VN e].
Definition out_serial_write (T : tworld) (deadline : N) (buf : list N) (w : val) : GoLite.res (list val) :=
  let '(w', n, e) := t_write T w buf in GOk [VN deadline; w'; VN n; VN e].
(* SetDeadline only stores the instant: the port is not touched *)
Definition out_serial_setdl (d : N) (w : val) : GoLite.res (list val) := GOk [VN d; w; VN 0].
Definition out_serial_close (T : tworld) (deadline : N) (w : val) : GoLite.res (list val) :=
  GOk [VN deadline; fst (t_close T w); VN (snd (t_close T w))].

(* a port whose clock is the first number of the world and which has [avail] bytes, then times out like the driver *)
Definition port_world (e : N) : tworld := {|
  t_now := fun w => (w, match w with VL (VN c :: _) => c | _ => 0 end);
  t_sleep := fun w _ => w;
  t_setdl := fun w _ => (w, 0);
  t_write := fun w bs => (w, lenN bs, e);
  t_readfull := fun w n =>
    match w with
    | VL (VN c :: rest) =>
        match unbytes rest with
        | [] => (w, [], e)
        | s => let k := N.to_nat (N.min 2 n) in (VL (VN c :: map VN (skipn k s)), firstn k s, 0)
        end
    | _ => (w, [], e)
    end;
  t_close := fun w => (w, e)
|}.

Example sanity_serial :
  forallb (fun b => b)
    [res_eqb (call_with src_pure (port_base (port_world 23)) 50 "serialPortWrapper.Read" [VN 100; vbytes (zeros 4); VL [VN 50; VN 7; VN 8; VN 9]])
             (out_serial_read (port_world 23) 100 (zeros 4) (VL [VN 50; VN 7; VN 8; VN 9]));
     res_eqb (call_with src_pure (port_base (port_world 23)) 50 "serialPortWrapper.Read" [VN 100; vbytes (zeros 4); VL [VN 100; VN 7]])
             (out_serial_read (port_world 23) 100 (zeros 4) (VL [VN 100; VN 7]));
     res_eqb (call_with src_pure (port_base (port_world 23)) 50 "serialPortWrapper.Read" [VN 100; vbytes (zeros 4); VL [VN 101; VN 7]])
             (out_serial_read (port_world 23) 100 (zeros 4) (VL [VN 101; VN 7]));
     res_eqb (call_with src_pure (port_base (port_world 23)) 50 "serialPortWrapper.Read" [VN 100; vbytes (zeros 4); VL [VN 5]])
             (out_serial_read (port_world 23) 100 (zeros 4) (VL [VN 5]));
     res_eqb (call_with src_pure (port_base (port_world 9)) 50 "serialPortWrapper.Read" [VN 100; vbytes (zeros 4); VL [VN 5]])
             (out_serial_read (port_world 9) 100 (zeros 4) (VL [VN 5]));
     res_eqb (call_with src_pure (port_base (port_world 9)) 50 "serialPortWrapper.Write" [VN 100; vbytes [1; 2]; VL [VN 5]])
             (out_serial_write (port_world 9) 100 [1; 2] (VL [VN 5]));
     res_eqb (call_with src_pure (port_base (port_world 9)) 50 "serialPortWrapper.SetDeadline" [VN 100; VN 777; VL [VN 5]])
             (out_serial_setdl 777 (VL [VN 5]));
     res_eqb (call_with src_pure (port_base (port_world 9)) 50 "serialPortWrapper.Close" [VN 100; VL [VN 5]])
             (out_serial_close (port_world 9) 100 (VL [VN 5]))] = true.
Proof. vm_compute. reflexivity. Qed.
