(* Proofs about Model/TurnAway.v: Stop on a server at its connection limit,
   with connections served and connections turned away, whatever their peers
   have sent (nothing, the first bytes of a request, whole requests). *)
From Coq Require Import List Arith Bool Lia.
Import ListNotations.
From Modbus Require Import Model.Slots Model.TurnAway Proofs.SlotsP.

(* ------------------------------------------------------------ projection on Slots.v *)

Lemma ta_run_snoc b tr l : ta_run b (tr ++ [l]) = ta_step (ta_run b tr) l.
Proof. unfold ta_run. rewrite fold_left_app. reflexivity. Qed.

Lemma ta_srv_run_snoc s tr l : run s (tr ++ [l]) = step (run s tr) l.
Proof. unfold run. rewrite fold_left_app. reflexivity. Qed.

Lemma ta_step_req s c : step s (Req c) = s.
Proof. unfold step. destruct (negb (enabled s (Req c))); reflexivity. Qed.

(* every step of the extended system is, on the server component, either
   nothing or one step of Slots.v *)
Lemma ta_step_srv b l :
  ta_srv (ta_step b l) = ta_srv b \/ exists x, ta_srv (ta_step b l) = step (ta_srv b) x.
Proof.
  destruct l as [x|c].
  - destruct x; try (right; eexists; reflexivity).
    unfold ta_step. destruct (ta_live b c); [|left; reflexivity].
    right. eexists. reflexivity.
  - left. reflexivity.
Qed.

Theorem ta_reach_proj m tr : exists tr', ta_srv (ta_run (ta_init m) tr) = run (init m) tr'.
Proof.
  induction tr as [|l tr IH] using rev_ind; [exists []; reflexivity|].
  destruct IH as [tr' E]. rewrite ta_run_snoc.
  destruct (ta_step_srv (ta_run (ta_init m) tr) l) as [H|[x H]]; rewrite H, E.
  - exists tr'. reflexivity.
  - exists (tr' ++ [x]). rewrite ta_srv_run_snoc. reflexivity.
Qed.

Theorem ta_reachable_inv m tr : Inv (ta_srv (ta_run (ta_init m) tr)).
Proof. destruct (ta_reach_proj m tr) as [tr' E]. rewrite E. apply reachable_inv. Qed.

Lemma ta_inv_step b l : Inv (ta_srv b) -> Inv (ta_srv (ta_step b l)).
Proof.
  intros I. destruct (ta_step_srv b l) as [H|[x H]]; rewrite H; [exact I|apply inv_step; exact I].
Qed.

(* ------------------------------------------------------------ a second invariant of Slots.v *)

(* while the server is stopped, a connection whose request loop has returned
   and whose removal is still to come has been closed as well (by Stop, as a
   member of the active list, or before its loop returned) *)
Definition EndedClosed (s : sstate) : Prop :=
  started s = false -> forall c, stat s c = Ended -> closed s c = true.

Lemma ended_closed_init m : EndedClosed (init m).
Proof. intros _ c H. discriminate. Qed.

Lemma ended_closed_step s l : Inv s -> EndedClosed s -> EndedClosed (step s l).
Proof.
  intros I E. unfold step. destruct (enabled s l) eqn:En; cbn [negb]; [|exact E].
  destruct l as [x|x|x|x|x w|x| | | ]; cbn [enabled] in En.
  - intros Hs c Hc. cbn [started stat closed] in *. upd_cases c x; [discriminate|]. apply E; assumption.
  - intros Hs c Hc. cbn [started stat closed] in *. upd_cases c x; [discriminate|]. apply E; assumption.
  - destruct (started s && Nat.ltb (length (clients s)) (maxc s));
      intros Hs c Hc; cbn [started stat closed] in *.
    + upd_cases c x; [discriminate|]. apply E; assumption.
    + upd_cases c x; [discriminate|]. apply E; assumption.
  - exact E.
  - intros Hs c Hc. cbn [started stat closed] in *. upd_cases c x.
    + assert (Hx : stat s x = Serving).
      { destruct w; try (apply stat_eqb_eq; exact En);
          apply andb_true_iff in En as [En _]; apply stat_eqb_eq; exact En. }
      apply (inv_stopped _ I Hs x Hx).
    + apply E; assumption.
  - intros Hs c Hc. cbn [started stat closed] in *. upd_cases c x; [discriminate|]. apply E; assumption.
  - destruct (started s) eqn:St; [exact E|]. intros Hs. cbn [started] in Hs. discriminate.
  - destruct (started s) eqn:St; cbn [negb]; [|exact E].
    intros _ c Hc. cbn [stat closed] in *. apply close_all_spec. left.
    apply (inv_members _ I). right. unfold drop_queued in Hc.
    destruct (stat s c); try discriminate. reflexivity.
  - intros Hs c Hc. cbn [started stat closed] in *. apply E; assumption.
Qed.

Lemma ended_closed_run tr : forall s, Inv s -> EndedClosed s -> EndedClosed (run s tr).
Proof.
  induction tr as [|l tr IH]; intros s I E; [exact E|].
  unfold run in *. cbn [fold_left]. apply IH; [apply inv_step; exact I|apply ended_closed_step; assumption].
Qed.

Lemma ta_reachable_ended_closed m tr : EndedClosed (ta_srv (ta_run (ta_init m) tr)).
Proof.
  destruct (ta_reach_proj m tr) as [tr' E]. rewrite E.
  apply ended_closed_run; [apply inv_init|apply ended_closed_init].
Qed.

(* ------------------------------------------------------------ Stop closes every accepted connection *)

(* in a stopped state every connection the server has accepted - served or
   turned away - is closed, and none is live *)
Lemma stopped_accepted_closed b c : Inv (ta_srv b) -> EndedClosed (ta_srv b) ->
  started (ta_srv b) = false -> ta_accepted b c = true ->
  ta_peer_closed b c = true /\ ta_live b c = false.
Proof.
  intros I E Hs Ha. unfold ta_accepted in Ha.
  assert (Hc : closed (ta_srv b) c = true).
  { destruct (stat (ta_srv b) c) eqn:St; try discriminate.
    - apply (inv_stopped _ I Hs c St).
    - apply (E Hs c St).
    - apply (inv_closed _ I c). left. exact St.
    - apply (inv_closed _ I c). right. exact St. }
  split; [exact Hc|]. unfold ta_live. rewrite Hc. apply andb_false_r.
Qed.

(* in every reachable stopped state - whatever interleaving of server steps
   and peer steps led there, whatever the peers have sent - every accepted
   connection has been closed *)
Theorem ta_stopped_all_closed m tr c :
  let b := ta_run (ta_init m) tr in
  started (ta_srv b) = false -> ta_accepted b c = true ->
  ta_peer_closed b c = true /\ ta_live b c = false.
Proof.
  cbn zeta. intros Hs Ha.
  apply stopped_accepted_closed; [apply ta_reachable_inv|apply ta_reachable_ended_closed|exact Hs|exact Ha].
Qed.

Lemma accepted_after_stop b c :
  ta_accepted (ta_step b (ASrv Stop)) c = ta_accepted b c.
Proof.
  unfold ta_accepted. cbn [ta_step ta_srv]. unfold step. cbn [enabled negb].
  destruct (started (ta_srv b)); cbn [negb]; [|reflexivity].
  cbn [stat]. unfold drop_queued. destruct (stat (ta_srv b) c); reflexivity.
Qed.

(* when Stop returns the listener is closed and EVERY connection the server
   has accepted so far has been closed: the members of the active list and
   the connections that were turned away, with no hypothesis on what their
   peers have sent; what the peers have sent, the handler counter and the
   responses written are untouched *)
Theorem ta_stop_closes_every_accepted m tr :
  let b := ta_run (ta_init m) tr in
  started (ta_srv b) = true ->
  let b' := ta_step b (ASrv Stop) in
  started (ta_srv b') = false /\ listening (ta_srv b') = false /\ acceptors (ta_srv b') = 0 /\
  ta_part b' = ta_part b /\ ta_calls b' = ta_calls b /\ ta_wrote b' = ta_wrote b /\
  (forall c, ta_accepted b c = true -> ta_peer_closed b' c = true /\ ta_live b' c = false).
Proof.
  cbn zeta. intros Hs.
  destruct (stop_closes_all (ta_srv (ta_run (ta_init m) tr)) Hs) as (A & B & C & _).
  split; [exact A|]. split; [exact B|]. split; [exact C|].
  split; [reflexivity|]. split; [reflexivity|]. split; [reflexivity|].
  intros c H. rewrite <- ta_run_snoc. apply ta_stopped_all_closed.
  - rewrite ta_run_snoc. exact A.
  - rewrite ta_run_snoc, accepted_after_stop. exact H.
Qed.

(* ------------------------------------------------------------ nothing is written while stopped *)

(* a handler runs and a response is written only in the Req step of a live
   connection; every other step leaves the counter and the responses alone *)
Theorem ta_write_needs_live b l :
  (ta_calls (ta_step b l) = ta_calls b /\ ta_wrote (ta_step b l) = ta_wrote b) \/
  (exists c, l = ASrv (Req c) /\ ta_live b c = true /\
             ta_calls (ta_step b l) = S (ta_calls b) /\
             ta_wrote (ta_step b l) = upd (ta_wrote b) c (S (ta_wrote b c))).
Proof.
  destruct l as [x|c].
  - destruct x; try (left; split; reflexivity).
    unfold ta_step. destruct (ta_live b c) eqn:E; [|left; split; reflexivity].
    right. exists c. repeat split. exact E.
  - left. split; reflexivity.
Qed.

Lemma ta_stopped_not_live b c : Inv (ta_srv b) -> started (ta_srv b) = false -> ta_live b c = false.
Proof.
  intros I Hs. unfold ta_live.
  destruct (stat_eqb (stat (ta_srv b) c) Serving) eqn:E; [|reflexivity].
  apply stat_eqb_eq in E. rewrite (inv_stopped _ I Hs c E). reflexivity.
Qed.

Lemma ta_started_stays_false_srv s x : x <> Start -> started s = false -> started (step s x) = false.
Proof.
  intros Hx Hs. unfold step. destruct (negb (enabled s x)); [exact Hs|].
  destruct x; try exact Hs; try congruence.
  - cbn [started]. destruct (started s && Nat.ltb (length (clients s)) (maxc s)); exact Hs.
  - rewrite Hs. exact Hs.
Qed.

Lemma ta_started_stays_false b l : l <> ASrv Start -> started (ta_srv b) = false ->
  started (ta_srv (ta_step b l)) = false.
Proof.
  intros Hl Hs. destruct l as [x|c].
  - assert (Hx : x <> Start) by (intros ->; apply Hl; reflexivity).
    destruct x; try (cbn [ta_step ta_srv]; apply ta_started_stays_false_srv; [exact Hx|exact Hs]).
    unfold ta_step. destruct (ta_live b c); [|exact Hs].
    cbn [ta_srv]. rewrite ta_step_req. exact Hs.
  - exact Hs.
Qed.

Lemma silent_while_stopped tr' : forall b, Inv (ta_srv b) -> started (ta_srv b) = false ->
  (forall l, In l tr' -> l <> ASrv Start) ->
  ta_calls (ta_run b tr') = ta_calls b /\ ta_wrote (ta_run b tr') = ta_wrote b /\
  started (ta_srv (ta_run b tr')) = false.
Proof.
  induction tr' as [|l tr' IH]; intros b I Hs Hn; [repeat split; exact Hs|].
  assert (Hl : l <> ASrv Start) by (apply Hn; left; reflexivity).
  assert (Hc : ta_calls (ta_step b l) = ta_calls b /\ ta_wrote (ta_step b l) = ta_wrote b).
  { destruct (ta_write_needs_live b l) as [H|(c & _ & L & _)]; [exact H|].
    rewrite (ta_stopped_not_live b c I Hs) in L. discriminate. }
  cbn [ta_run fold_left]. fold (ta_run (ta_step b l) tr').
  destruct (IH (ta_step b l) (ta_inv_step b l I) (ta_started_stays_false b l Hl Hs)
              (fun x Hx => Hn x (or_intror Hx))) as (A & B & C).
  destruct Hc as [Hc Hw].
  repeat split; [rewrite A; exact Hc|rewrite B; exact Hw|exact C].
Qed.

(* between a Stop and the next Start no handler runs and the server writes
   nothing on any connection - served before or turned away, whatever the
   peers send and whatever the server goroutines still do *)
Theorem ta_silent_while_stopped m tr tr' :
  let b := ta_run (ta_init m) tr in
  started (ta_srv b) = false -> (forall l, In l tr' -> l <> ASrv Start) ->
  ta_calls (ta_run b tr') = ta_calls b /\ ta_wrote (ta_run b tr') = ta_wrote b /\
  started (ta_srv (ta_run b tr')) = false.
Proof. cbn zeta. intros Hs Hn. apply silent_while_stopped; [apply ta_reachable_inv|exact Hs|exact Hn]. Qed.

(* ------------------------------------------------------------ turned away: never answered, no goroutine *)

Definition was_served (v : cstat) : bool :=
  match v with Serving | Ended | Removed => true | _ => false end.

Lemma served_stays s l c : was_served (stat s c) = true -> was_served (stat (step s l) c) = true.
Proof.
  intros H. unfold step. destruct (enabled s l) eqn:En; cbn [negb]; [|exact H].
  assert (K : forall x v, stat_eqb (stat s x) v = true -> was_served v = false -> c <> x).
  { intros x v E Hv ->. apply stat_eqb_eq in E. rewrite E in H. congruence. }
  destruct l as [x|x|x|x|x w|x| | | ]; cbn [enabled] in En; cbn [stat].
  - apply andb_true_iff in En as [_ En]. rewrite upd_other; [exact H|]. apply (K x Fresh En). reflexivity.
  - apply andb_true_iff in En as [En _]. rewrite upd_other; [exact H|]. apply (K x Queued En). reflexivity.
  - assert (c <> x) by (apply (K x Taken En); reflexivity).
    destruct (started s && Nat.ltb (length (clients s)) (maxc s)); cbn [stat]; rewrite upd_other by assumption; exact H.
  - exact H.
  - upd_cases c x; [reflexivity|exact H].
  - upd_cases c x; [reflexivity|exact H].
  - destruct (started s); cbn [stat]; exact H.
  - destruct (started s); cbn [negb stat]; [|exact H]. unfold drop_queued.
    destruct (stat s c); try discriminate; reflexivity.
  - exact H.
Qed.

(* a response has been written only on a connection that joined the active list *)
Definition WroteServed (b : ta_state) : Prop :=
  forall c, ta_wrote b c <> 0 -> was_served (stat (ta_srv b) c) = true.

Lemma wrote_served_step b l : WroteServed b -> WroteServed (ta_step b l).
Proof.
  intros W. destruct l as [x|d].
  - destruct x; try (intros e He; cbn [ta_step ta_srv ta_wrote] in *; apply served_stays; apply W; exact He).
    unfold ta_step. destruct (ta_live b c) eqn:L; [|exact W].
    intros d Hd. cbn [ta_srv ta_wrote] in *. rewrite ta_step_req.
    upd_cases d c.
    + unfold ta_live in L. apply andb_true_iff in L as [L _]. apply stat_eqb_eq in L. rewrite L. reflexivity.
    + apply W. exact Hd.
  - exact W.
Qed.

Lemma wrote_served_reachable m tr : WroteServed (ta_run (ta_init m) tr).
Proof.
  induction tr as [|l tr IH] using rev_ind.
  - intros c H. cbn in H. congruence.
  - rewrite ta_run_snoc. apply wrote_served_step. exact IH.
Qed.

(* a connection that has been turned away is closed, has never been answered,
   has no session goroutine, and nothing can proceed on it *)
Theorem ta_turned_away_is_over m tr c :
  let b := ta_run (ta_init m) tr in
  ta_turned_away b c = true ->
  ta_peer_closed b c = true /\ ta_wrote b c = 0 /\ ta_live b c = false /\
  ta_session_goroutine b c = false /\ ~ In c (clients (ta_srv b)).
Proof.
  cbn zeta. intros H. unfold ta_turned_away in H. apply stat_eqb_eq in H.
  pose proof (ta_reachable_inv m tr) as I.
  repeat split.
  - apply (inv_closed _ I c). left. exact H.
  - destruct (Nat.eq_dec (ta_wrote (ta_run (ta_init m) tr) c) 0) as [E|E]; [exact E|].
    pose proof (wrote_served_reachable m tr c E) as W. rewrite H in W. discriminate.
  - unfold ta_live. rewrite H. reflexivity.
  - unfold ta_session_goroutine. rewrite H. reflexivity.
  - intros Hin. apply (inv_members _ I) in Hin. unfold in_list in Hin. rewrite H in Hin.
    destruct Hin; discriminate.
Qed.

(* ------------------------------------------------------------ goroutines *)

(* the live session goroutines are exactly the members of the active list *)
Theorem ta_sessions_are_clients m tr :
  let b := ta_run (ta_init m) tr in
  ta_sessions b = length (clients (ta_srv b)) /\ NoDup (clients (ta_srv b)) /\
  (forall c, ta_session_goroutine b c = true <-> In c (clients (ta_srv b))).
Proof.
  cbn zeta. pose proof (ta_reachable_inv m tr) as I. set (b := ta_run (ta_init m) tr) in *.
  assert (M : forall c, ta_session_goroutine b c = true <-> In c (clients (ta_srv b))).
  { intros c. rewrite (inv_members _ I). unfold in_list, ta_session_goroutine.
    rewrite orb_true_iff, !stat_eqb_eq. reflexivity. }
  split; [|split; [apply (inv_nodup _ I)|exact M]].
  unfold ta_sessions. f_equal.
  assert (F : forall l, (forall c, In c l -> ta_session_goroutine b c = true) ->
              filter (ta_session_goroutine b) l = l).
  { induction l as [|x t IH]; intros H; [reflexivity|]. cbn [filter].
    rewrite (H x (or_introl eq_refl)). f_equal. apply IH. intros c Hc. apply H. right. exact Hc. }
  apply F. intros c Hc. apply M. exact Hc.
Qed.

(* the session goroutine of a connection closed by Stop ends and removes the
   connection in two steps *)
Theorem ta_session_winds_down b c : Inv (ta_srv b) -> started (ta_srv b) = false ->
  stat (ta_srv b) c = Serving ->
  let b1 := ta_step b (ASrv (End c ClosedByStop)) in
  let b2 := ta_step b1 (ASrv (Remove c)) in
  enabled (ta_srv b) (End c ClosedByStop) = true /\ enabled (ta_srv b1) (Remove c) = true /\
  stat (ta_srv b2) c = Removed /\ ta_session_goroutine b2 c = false /\ ~ In c (clients (ta_srv b2)).
Proof.
  intros I Hs Hc. cbn zeta. cbn [ta_step ta_srv].
  destruct (stopped_session_winds_down (ta_srv b) c I Hs Hc) as (A & B & C).
  repeat split; try assumption.
  - unfold ta_session_goroutine. cbn [ta_srv]. rewrite C. reflexivity.
  - intros Hin.
    pose proof (inv_step _ (Remove c) (inv_step _ (End c ClosedByStop) I)) as I2.
    apply (inv_members _ I2) in Hin. unfold in_list in Hin. rewrite C in Hin.
    destruct Hin; discriminate.
Qed.

(* once the sessions closed by Stop have wound down and the accept goroutines
   have seen their listener closed, a stopped server has no goroutine left *)
Theorem ta_stopped_no_goroutine m tr :
  let b := ta_run (ta_init m) tr in
  started (ta_srv b) = false -> clients (ta_srv b) = [] -> zombies (ta_srv b) = 0 ->
  ta_goroutines b = 0.
Proof.
  cbn zeta. intros Hs Hc Hz. pose proof (ta_reachable_inv m tr) as I.
  unfold ta_goroutines, ta_acceptors, ta_sessions.
  rewrite (inv_acceptors _ I Hs), Hz, Hc. reflexivity.
Qed.

(* a connection that was being accepted while Stop ran is turned away and closed *)
Theorem ta_taken_during_stop b c : Inv (ta_srv b) -> stat (ta_srv b) c = Taken ->
  started (ta_srv b) = true ->
  let b' := ta_step (ta_step b (ASrv Stop)) (ASrv (Enrol c)) in
  ta_turned_away b' c = true /\ ta_peer_closed b' c = true /\ ta_live b' c = false.
Proof.
  intros I Ht Hs. cbn zeta. cbn [ta_step ta_srv].
  destruct (taken_during_stop_rejected (ta_srv b) c I Ht Hs) as [A B].
  unfold ta_turned_away, ta_live, ta_peer_closed. cbn [ta_srv]. rewrite A, B.
  repeat split.
Qed.

(* a connection arriving at a full active list is turned away and closed in
   its admission step, without touching the list *)
Theorem ta_full_list_turns_away b c : Inv (ta_srv b) -> stat (ta_srv b) c = Taken ->
  maxc (ta_srv b) <= length (clients (ta_srv b)) ->
  let b' := ta_step b (ASrv (Enrol c)) in
  ta_turned_away b' c = true /\ ta_peer_closed b' c = true /\
  clients (ta_srv b') = clients (ta_srv b).
Proof.
  intros I Ht Hf. cbn zeta. cbn [ta_step ta_srv].
  destruct (full_list_rejects (ta_srv b) c I Ht (or_intror Hf)) as (A & B & C).
  unfold ta_turned_away, ta_peer_closed. cbn [ta_srv]. rewrite A, B. repeat split. exact C.
Qed.

(* Stop then Start serves again; repeated Start / Stop change nothing *)
Theorem ta_stop_start b : started (ta_srv b) = true ->
  let b' := ta_step (ta_step b (ASrv Stop)) (ASrv Start) in
  started (ta_srv b') = true /\ listening (ta_srv b') = true /\ acceptors (ta_srv b') = 1.
Proof. intros Hs. cbn zeta. cbn [ta_step ta_srv]. apply stop_start_serves_again. exact Hs. Qed.

Theorem ta_stop_idempotent b : ta_step (ta_step b (ASrv Stop)) (ASrv Stop) = ta_step b (ASrv Stop).
Proof. cbn [ta_step ta_srv ta_part ta_calls ta_wrote]. rewrite stop_idempotent. reflexivity. Qed.

Theorem ta_start_idempotent b : ta_step (ta_step b (ASrv Start)) (ASrv Start) = ta_step b (ASrv Start).
Proof. cbn [ta_step ta_srv ta_part ta_calls ta_wrote]. rewrite start_idempotent. reflexivity. Qed.
