(* Proofs about coil packing (encodeBools / decodeBools). *)
From Modbus Require Import Base.Bytes Model.Encoding Spec.ModbusSpec.
From Coq Require Import ZifyBool ZifyNat ZifyN.
Ltac Zify.zify_post_hook ::= Z.div_mod_to_equations.

Ltac pow_consts :=
  repeat match goal with
  | |- context [2 ^ ?k] =>
      let v := eval vm_compute in (2 ^ k) in change (2 ^ k) with v
  | H : context [2 ^ ?k] |- _ =>
      let v := eval vm_compute in (2 ^ k) in change (2 ^ k) with v in H
  end.

(* ---------------------------------------------------------------- bools *)

Lemma testbit_bits_byte l i : N.testbit (bits_byte l) (N.of_nat i) = nth i l false.
Proof.
  revert i; induction l as [|b t IH]; intros i.
  - cbn. destruct i; reflexivity.
  - cbn [bits_byte fold_right]. fold (bits_byte t).
    replace (N.b2n b + 2 * bits_byte t) with (2 * bits_byte t + N.b2n b) by lia.
    destruct i as [|i].
    + cbn [nth N.of_nat]. apply N.testbit_0_r.
    + rewrite Nat2N.inj_succ, N.testbit_succ_r. cbn [nth]. apply IH.
Qed.

Lemma bits_byte_bound l : (length l <= 8)%nat -> bits_byte l < 256.
Proof.
  intros Hl. assert (H : bits_byte l < 2 ^ N.of_nat (length l)).
  { clear Hl. induction l as [|b t IH]; [cbn; lia|].
    cbn [bits_byte fold_right length]. fold (bits_byte t).
    rewrite Nat2N.inj_succ, N.pow_succ_r'. destruct b; cbn [N.b2n]; lia. }
  assert (2 ^ N.of_nat (length l) <= 2 ^ 8) by (apply N.pow_le_mono_r; lia).
  change (2 ^ 8) with 256 in *. lia.
Qed.

Lemma encode_fuel_irrel f1 : forall f2 l, (length l <= f1)%nat -> (length l <= f2)%nat ->
  encode_bools_fuel f1 l = encode_bools_fuel f2 l.
Proof.
  induction f1 as [|f1 IH]; intros f2 l H1 H2.
  - destruct l; [|cbn in H1; lia]. destruct f2; reflexivity.
  - destruct l as [|b t]; [destruct f2; reflexivity|].
    destruct f2 as [|f2]; [cbn in H2; lia|].
    cbn [encode_bools_fuel]. f_equal. apply IH; rewrite skipn_length; cbn [length] in *; lia.
Qed.

Lemma encode_bools_nil : encode_bools [] = [].
Proof. reflexivity. Qed.

Lemma encode_bools_cons l : l <> [] ->
  encode_bools l = bits_byte (firstn 8 l) :: encode_bools (skipn 8 l).
Proof.
  intros Hl. unfold encode_bools. destruct l as [|b t]; [congruence|].
  cbn [length encode_bools_fuel]. f_equal.
  apply encode_fuel_irrel; rewrite skipn_length; cbn [length]; lia.
Qed.

Lemma list_ind8 {A} (P : list A -> Prop) :
  P [] -> (forall l, l <> [] -> P (skipn 8 l) -> P l) -> forall l, P l.
Proof.
  intros H0 HS l. remember (length l) as n eqn:Hn. revert l Hn.
  induction n as [n IH] using lt_wf_ind. intros l Hn.
  destruct l as [|b t]; [exact H0|]. apply HS; [congruence|].
  apply (IH (length (skipn 8 (b :: t)))); [|reflexivity].
  rewrite skipn_length. subst n. cbn [length]. lia.
Qed.

Lemma encode_bools_len l : length (encode_bools l) = ((length l + 7) / 8)%nat.
Proof.
  induction l as [|l Hl IH] using list_ind8; [reflexivity|].
  rewrite encode_bools_cons by exact Hl. cbn [length]. rewrite IH, skipn_length.
  destruct l as [|b t]; [congruence|]. cbn [length]. lia.
Qed.

Lemma encode_bools_bytes l : bytesb (encode_bools l) = true.
Proof.
  induction l as [|l Hl IH] using list_ind8; [reflexivity|].
  rewrite encode_bools_cons by exact Hl. unfold bytesb in *. cbn [forallb]. rewrite IH.
  unfold is_byte. pose proof (bits_byte_bound (firstn 8 l)) as H.
  rewrite firstn_length in H. specialize (H ltac:(lia)). rewrite andb_true_r. lia.
Qed.

Lemma decode_at_encode l : forall i, (i < length l)%nat ->
  decode_bool_at (encode_bools l) i = Some (nth i l false).
Proof.
  induction l as [|l Hl IH] using list_ind8; intros i Hi; [cbn in Hi; lia|].
  rewrite encode_bools_cons by exact Hl. unfold decode_bool_at.
  destruct (Nat.lt_ge_cases i 8) as [H8|H8].
  - rewrite (Nat.div_small i 8), (Nat.mod_small i 8) by lia. cbn [nth_error].
    rewrite testbit_bits_byte. f_equal.
    rewrite <- (firstn_skipn 8 l) at 2. rewrite app_nth1; [reflexivity|].
    rewrite firstn_length. lia.
  - assert (E1 : (i / 8 = S ((i - 8) / 8))%nat) by lia.
    assert (E2 : (i mod 8 = (i - 8) mod 8)%nat) by lia.
    rewrite E1, E2. cbn [nth_error].
    specialize (IH (i - 8)%nat). unfold decode_bool_at in IH. rewrite IH.
    + f_equal. rewrite <- (firstn_skipn 8 l) at 2. rewrite app_nth2; rewrite firstn_length.
      * f_equal. lia.
      * lia.
    + rewrite skipn_length. lia.
Qed.

Lemma sequence_map_some {A B} (f : A -> option B) (g : A -> B) l :
  (forall x, In x l -> f x = Some (g x)) -> sequence (map f l) = Some (map g l).
Proof.
  induction l as [|x t IH]; intros H; [reflexivity|].
  cbn [map sequence]. rewrite (H x (or_introl eq_refl)), IH; [reflexivity|].
  intros y Hy. apply H. right. exact Hy.
Qed.

Lemma map_nth_seq {A} (l : list A) d q : (q <= length l)%nat ->
  map (fun i => nth i l d) (seq 0 q) = firstn q l.
Proof.
  revert q; induction l as [|x t IH]; intros q Hq.
  - destruct q; [reflexivity|cbn in Hq; lia].
  - destruct q as [|q]; [reflexivity|]. cbn [seq map firstn nth]. f_equal.
    rewrite <- seq_shift, map_map. cbn [nth]. apply IH. cbn in Hq. lia.
Qed.

Lemma decode_encode_prefix l q : (q <= length l)%nat ->
  decode_bools q (encode_bools l) = Some (firstn q l).
Proof.
  intros Hq. unfold decode_bools.
  rewrite (sequence_map_some _ (fun i => nth i l false)).
  - rewrite map_nth_seq by exact Hq. reflexivity.
  - intros i Hi. apply in_seq in Hi. apply decode_at_encode. lia.
Qed.

Lemma decode_encode_bools l : decode_bools (length l) (encode_bools l) = Some l.
Proof. rewrite decode_encode_prefix by lia. rewrite firstn_all. reflexivity. Qed.

(* value of a packed byte, bit by bit: matches the reference layout *)
Lemma bits_byte_spec l j :
  bits_byte (firstn 8 (skipn (8 * j) l)) = spec_coil_byte l j.
Proof.
  unfold spec_coil_byte. cbn [seq fold_right N.of_nat Pos.of_succ_nat Pos.succ].
  replace (8 * j + 0)%nat with (8 * j)%nat by lia.
  assert (E : forall k, nth (8 * j + k) l false = nth k (skipn (8 * j) l) false).
  { intros k. rewrite <- (firstn_skipn (8 * j) l) at 1.
    destruct (Nat.le_gt_cases (8 * j) (length l)) as [H|H].
    - rewrite app_nth2; rewrite firstn_length; [f_equal; lia|lia].
    - rewrite skipn_all2 by lia. rewrite app_nil_r.
      rewrite !nth_overflow; [reflexivity|cbn; lia|rewrite firstn_length; lia]. }
  replace (8 * j)%nat with (8 * j + 0)%nat at 9 by lia. rewrite !E.
  generalize (skipn (8 * j) l) as m. intros m. pow_consts.
  destruct m as [|b0 [|b1 [|b2 [|b3 [|b4 [|b5 [|b6 [|b7 m]]]]]]]];
    cbn [firstn bits_byte fold_right nth];
    repeat match goal with b : bool |- _ => destruct b end; reflexivity.
Qed.

Lemma skipn_skipn' {A} (l : list A) a b : skipn a (skipn b l) = skipn (b + a) l.
Proof.
  revert l; induction b as [|b IH]; intros l; [reflexivity|].
  destruct l as [|x t]; [rewrite !skipn_nil; reflexivity|]. cbn [skipn plus]. apply IH.
Qed.

Lemma encode_bools_nth l : forall j, (j < length (encode_bools l))%nat ->
  nth_error (encode_bools l) j = Some (bits_byte (firstn 8 (skipn (8 * j) l))).
Proof.
  induction l as [|l Hl IH] using list_ind8; intros j Hj; [cbn in Hj; lia|].
  rewrite encode_bools_cons in * by exact Hl. destruct j as [|j].
  - reflexivity.
  - cbn [nth_error length] in *. rewrite IH by lia. rewrite skipn_skipn'.
    replace (8 + 8 * j)%nat with (8 * S j)%nat by lia. reflexivity.
Qed.

Lemma nth_error_ext' {A} (l1 l2 : list A) :
  (forall n, nth_error l1 n = nth_error l2 n) -> l1 = l2.
Proof.
  revert l2; induction l1 as [|x t IH]; intros [|y u] H.
  - reflexivity.
  - specialize (H 0%nat). discriminate.
  - specialize (H 0%nat). discriminate.
  - pose proof (H 0%nat) as H0. cbn in H0. injection H0 as ->. f_equal.
    apply IH. intros n. apply (H (S n)).
Qed.

Lemma encode_bools_spec l : encode_bools l = spec_coil_bytes l.
Proof.
  unfold spec_coil_bytes. apply nth_error_ext'. intros j.
  destruct (Nat.lt_ge_cases j (length (encode_bools l))) as [H|H].
  - rewrite encode_bools_nth by exact H. rewrite encode_bools_len in H.
    rewrite nth_error_map, nth_error_nth' with (d := 0%nat) by (rewrite seq_length; exact H).
    rewrite seq_nth by exact H. cbn [option_map plus]. f_equal. apply bits_byte_spec.
  - rewrite (proj2 (nth_error_None _ _)) by exact H. symmetry. apply nth_error_None.
    rewrite map_length, seq_length. rewrite encode_bools_len in H. exact H.
Qed.
