(* Proofs about Model/TimedSession.v: the re-synchronisation flush in time
   (what arrives while the client keeps the line quiet is discarded; what
   arrives after the flush window is left alone), and the two-call recovery
   statement of C06 on timed streams. *)
From Modbus Require Import Base.Bytes Model.Crc Model.Encoding Model.Wire Model.Client
  Model.Timed Model.TimedSession Spec.ModbusSpec Spec.ClientSpec Spec.TimedSpec
  Proofs.FramingP Proofs.ClientReqP Proofs.ClientRespP Proofs.TimedP.
From Coq Require Import ZifyBool ZifyNat ZifyN.
Ltac Zify.zify_post_hook ::= Z.div_mod_to_equations.

(* the first byte of l (if any) arrives after D *)
Definition tm_head_after (D : Z) (l : list (Z * N)) : Prop :=
  match l with [] => True | (t, _) :: _ => (D < t)%Z end.

(* ---------------------------------------------------------------- draining reads *)

(* net.Conn: a ReadFull with deadline D takes everything that arrives by D
   (up to its size) and stops in front of the first byte that arrives later *)
Lemma rft_drain0 D n : forall cur tail later,
  (cur <= D)%Z -> Forall (fun p => (fst p <= D)%Z) tail -> (length tail <= n)%nat ->
  tm_head_after D later ->
  tm_rf_rest (read_full_t 0 D None n cur (tail ++ later)) = later.
Proof.
  induction n as [|n IH]; intros cur tail later Hc Ht Hl Hlater.
  - destruct tail; [reflexivity|cbn in Hl; lia].
  - cbn [read_full_t]. destruct (D <? cur)%Z eqn:E; [lia|]. rewrite tm_horizon_zero.
    destruct tail as [|[t b] tl].
    + cbn [app]. destruct later as [|[t b] l]; [reflexivity|].
      cbn in Hlater. destruct (t <=? D)%Z eqn:E2; [lia|reflexivity].
    + inversion Ht as [|? ? Hhd Htl]; subst. cbn [fst] in Hhd. cbn [app].
      destruct (t <=? D)%Z eqn:E2; [|lia]. rewrite tm_rf_cons_rest.
      apply IH; [lia|exact Htl|cbn in Hl; lia|exact Hlater].
Qed.

(* any link (poll granularity g >= 0): what has already arrived when the
   ReadFull is entered is taken (up to its size) *)
Lemma rft_drain_arrived g D n : (0 <= g)%Z -> forall cur tail,
  (cur <= D)%Z -> Forall (fun p => (fst p <= cur)%Z) tail -> (length tail <= n)%nat ->
  tm_rf_rest (read_full_t g D None n cur tail) = [].
Proof.
  intros Hg. induction n as [|n IH]; intros cur tail Hc Ht Hl.
  - destruct tail; [reflexivity|cbn in Hl; lia].
  - cbn [read_full_t]. destruct (D <? cur)%Z eqn:E; [lia|].
    pose proof (tm_horizon_bounds g cur D Hg Hc) as [Hh _].
    destruct tail as [|[t b] tl]; [reflexivity|].
    inversion Ht as [|? ? Hhd Htl]; subst. cbn [fst] in Hhd.
    destruct (t <=? tm_horizon g cur D)%Z eqn:E2; [|lia]. rewrite tm_rf_cons_rest.
    replace (Z.max cur t) with cur by lia.
    apply IH; [exact Hc|exact Htl|cbn in Hl; lia].
Qed.

(* ---------------------------------------------------------------- discard *)

Lemma tm_discard_rest g c now s :
  snd (tm_discard g c now s) = tm_rf_rest (read_full_t g (now + tm_flush_window) c 1024 now s).
Proof. unfold tm_discard. destruct (read_full_t _ _ _ _ _ _); reflexivity. Qed.

Lemma tm_discard_drain0 now tail later :
  Forall (fun p => (fst p <= now + tm_flush_window)%Z) tail -> (length tail <= 1024)%nat ->
  tm_head_after (now + tm_flush_window) later ->
  snd (tm_discard 0 None now (tail ++ later)) = later.
Proof.
  intros Ht Hl Hlater. rewrite tm_discard_rest.
  apply rft_drain0; [unfold tm_flush_window; lia|exact Ht|exact Hl|exact Hlater].
Qed.

Lemma tm_discard_drain_arrived g now tail : (0 <= g)%Z ->
  Forall (fun p => (fst p <= now)%Z) tail -> (length tail <= 1024)%nat ->
  snd (tm_discard g None now tail) = [].
Proof.
  intros Hg Ht Hl. rewrite tm_discard_rest.
  apply rft_drain_arrived; [exact Hg|unfold tm_flush_window; lia|exact Ht|exact Hl].
Qed.

(* ---------------------------------------------------------------- the exchange *)

(* net.Conn: a reply rejected at t3 with an error that triggers the flush:
   everything that arrives until the end of the flush window is discarded,
   what arrives later stays *)
Lemma rtu_exchange_flush0 k la t0 nreq s x t3 tail later :
  tm_gran k = 0%Z -> (0 <= tm_t1 k)%Z ->
  tm_read_rtu 0 (t0 + tm_timeout k) None (tm_rtu_now2 k la t0 nreq) s = (Err x, t3, tail ++ later) ->
  tm_resync x = true -> (length tail <= 1024)%nat ->
  Forall (fun p => (fst p <= tm_flush_end k t3)%Z) tail -> tm_head_after (tm_flush_end k t3) later ->
  exists t4, rtu_exchange_t k la t0 nreq None s = (Err x, t4, later) /\
             (tm_flush_start k t3 <= t4 <= tm_flush_end k t3)%Z.
Proof.
  intros Hg H1 Hread Hx Hl Ht Hlater. unfold rtu_exchange_t. rewrite Hg, Hread, Hx.
  fold (tm_flush_start k t3).
  pose proof (tm_discard_drain0 (tm_flush_start k t3) tail later Ht Hl Hlater) as Hd.
  pose proof (tm_discard_time 0 None (tm_flush_start k t3) (tail ++ later) ltac:(lia)) as Htime.
  destruct (tm_discard 0 None (tm_flush_start k t3) (tail ++ later)) as [t4 rest'].
  cbn [snd] in Hd. subst rest'. exists t4. split; [reflexivity|].
  unfold tm_flush_end, tm_flush_window. lia.
Qed.

(* any link: what had arrived when the flush was entered is discarded *)
Lemma rtu_exchange_flush_arrived k la t0 nreq s x t3 tail :
  (0 <= tm_gran k)%Z -> (0 <= tm_t1 k)%Z ->
  tm_read_rtu (tm_gran k) (t0 + tm_timeout k) None (tm_rtu_now2 k la t0 nreq) s = (Err x, t3, tail) ->
  tm_resync x = true -> (length tail <= 1024)%nat ->
  Forall (fun p => (fst p <= tm_flush_start k t3)%Z) tail ->
  exists t4, rtu_exchange_t k la t0 nreq None s = (Err x, t4, []) /\
             (tm_flush_start k t3 <= t4 <= tm_flush_end k t3 + tm_gran k)%Z.
Proof.
  intros Hg H1 Hread Hx Hl Ht. unfold rtu_exchange_t. rewrite Hread, Hx.
  fold (tm_flush_start k t3).
  pose proof (tm_discard_drain_arrived (tm_gran k) (tm_flush_start k t3) tail Hg Ht Hl) as Hd.
  pose proof (tm_discard_time (tm_gran k) None (tm_flush_start k t3) tail Hg) as Htime.
  destruct (tm_discard (tm_gran k) None (tm_flush_start k t3) tail) as [t4 rest'].
  cbn [snd] in Hd. subst rest'. exists t4. split; [reflexivity|].
  unfold tm_flush_end, tm_flush_window. lia.
Qed.

(* the errors that trigger the flush are not the timeout *)
Lemma tm_resync_not_timeout x : tm_resync x = true -> x <> ETimeout.
Proof. intros H ->. discriminate H. Qed.

(* ---------------------------------------------------------------- the call *)

Lemma tm_rtu_call_flush0 k cfg o req la t0 s x t3 tail later :
  tm_gran k = 0%Z -> (0 <= tm_t1 k)%Z -> client_request cfg o = Ok req ->
  tm_read_rtu 0 (t0 + tm_timeout k) None
    (tm_rtu_now2 k la t0 (Z.of_nat (length (assemble_rtu req)))) s = (Err x, t3, tail ++ later) ->
  tm_resync x = true -> (length tail <= 1024)%nat ->
  Forall (fun p => (fst p <= tm_flush_end k t3)%Z) tail -> tm_head_after (tm_flush_end k t3) later ->
  exists t4, tm_rtu_call k cfg o la t0 None s = (mk_tm_call (Err x) t4 later, t4) /\
             (tm_flush_start k t3 <= t4 <= tm_flush_end k t3)%Z.
Proof.
  intros Hg H1 Hreq Hread Hx Hl Ht Hlater.
  destruct (rtu_exchange_flush0 k la t0 _ s x t3 tail later Hg H1 Hread Hx Hl Ht Hlater)
    as (t4 & Hex & Hb).
  exists t4. split; [|exact Hb].
  unfold tm_rtu_call. rewrite Hreq, Hex.
  assert (Hc : tm_client_call FRtu k la cfg 0 o t0 None s = mk_tm_call (Err x) t4 later).
  { unfold tm_client_call. rewrite Hreq, Hex. reflexivity. }
  rewrite Hc. cbn [tmc_finish].
  destruct x; try reflexivity. discriminate Hx.
Qed.

(* ---------------------------------------------------------------- two calls *)

(* The timed recovery clause: call 1 is rejected at t3 with an error that
   triggers the flush; the rest of what the peer sent for exchange 1 arrives
   until the end of the flush window; the (valid) reply to call 2 arrives
   after the window and by the deadline of call 2, followed by anything.
   Then call 2 succeeds with the values of that reply. *)
Lemma timed_recovery : forall k cfg o1 req1 o2 la now gap1 gap2 s x t3 tail pre post res2 vs2,
  tm_conf_wf k -> tm_gran k = 0%Z -> cfg_wf cfg ->
  client_request cfg o1 = Ok req1 ->
  op_wf o2 -> valid_op o2 = true ->
  let t0 := (now + Z.max 0 gap1)%Z in
  tm_read_rtu 0 (t0 + tm_timeout k) None
    (tm_rtu_now2 k la t0 (Z.of_nat (length (assemble_rtu req1)))) s = (Err x, t3, tail ++ pre ++ post) ->
  tm_resync x = true -> (length tail <= 1024)%nat ->
  Forall (fun p => (fst p <= tm_flush_end k t3)%Z) tail ->
  tm_head_after (tm_flush_end k t3) (pre ++ post) ->
  bytesb (p_payload res2) = true -> answers cfg o2 res2 vs2 ->
  map snd pre = spec_frame FRtu 0 res2 ->
  (forall t4, (tm_flush_start k t3 <= t4 <= tm_flush_end k t3)%Z ->
     let t02 := (t4 + Z.max 0 gap2)%Z in
     (tm_rtu_read_start k t4 t02 (tm_req_len cfg o2) <= t02 + tm_timeout k)%Z /\
     Forall (fun p => (fst p <= t02 + tm_timeout k)%Z) pre) ->
  exists t4 t5,
    (tm_flush_start k t3 <= t4 <= tm_flush_end k t3)%Z /\
    tm_rtu_session k cfg None la now s [(o1, gap1); (o2, gap2)] = [(Err x, t4); (Ok vs2, t5)].
Proof.
  intros k cfg o1 req1 o2 la now gap1 gap2 s x t3 tail pre post res2 vs2
         Hk Hg Hcfg Hreq1 Hwf2 V2 t0 Hread Hx Hl Ht Hlater Hb Hans Hpre Htimes.
  destruct Hk as (Hto & H1 & H35 & Hgr) eqn:Ek. clear Ek.
  destruct (tm_rtu_call_flush0 k cfg o1 req1 la t0 s x t3 tail (pre ++ post)
              Hg H1 Hreq1 Hread Hx Hl Ht Hlater) as (t4 & Hcall & Hb4).
  destruct (Htimes t4 Hb4) as [Hstart Hpt].
  exists t4. eexists. split; [exact Hb4|].
  cbn [tm_rtu_session]. fold t0. rewrite Hcall. cbn [tmc_res tmc_finish tmc_rest].
  set (t02 := (t4 + Z.max 0 gap2)%Z) in *.
  pose proof (tm_timely_rtu k t4 cfg 0 o2 t02 None pre post res2 vs2 Hwf2 Hcfg V2
                (conj Hto (conj H1 (conj H35 Hgr))) Hg Hstart Hb Hans Hpre Hpt) as Hok.
  unfold tm_rtu_call at 1.
  destruct (client_request cfg o2) as [req2| | |] eqn:Hreq2.
  - destruct (rtu_exchange_t k t4 t02 _ None (pre ++ post)) as [[r2 tt] rr] eqn:Hex2.
    destruct r2 as [p|e| |]; try (rewrite Hok; reflexivity).
    destruct e; rewrite Hok; reflexivity.
  - rewrite Hok. reflexivity.
  - rewrite Hok. reflexivity.
  - rewrite Hok. reflexivity.
Qed.
