(* Lists of values to register bytes and back: layout, round trip, length and
   position independence, for every width, byte order, word order, list. *)
From Modbus Require Import Base.Bytes Model.Encoding Spec.ModbusSpec Model.EncLists Proofs.EncodingP.
From Coq Require Import ZifyBool ZifyNat ZifyN.
Ltac Zify.zify_post_hook ::= Z.div_mod_to_equations.

Lemma flat_map_ext_forall {A B} (f g : A -> list B) (P : A -> Prop) l :
  (forall x, P x -> f x = g x) -> Forall P l -> flat_map f l = flat_map g l.
Proof.
  intros H; induction 1 as [|x l Hx _ IH]; [reflexivity|].
  cbn [flat_map]. rewrite (H x Hx), IH. reflexivity.
Qed.

Lemma enc_list_layout k e w vs : Forall (fun v => v < vbound k) vs ->
  enc_list k e w vs = spec_list k e w vs.
Proof.
  intros H. destruct k; unfold enc_list, spec_list, u16s_to_bytes, u32s_to_bytes, u64s_to_bytes, vregs;
    eapply flat_map_ext_forall; try exact H; cbv beta; intros x Hx; unfold vbound in Hx.
  - apply u16_layout. exact Hx.
  - apply u32_layout. exact Hx.
  - apply u64_layout. exact Hx.
Qed.

Lemma enc_list_roundtrip k e w vs : Forall (fun v => v < vbound k) vs ->
  dec_list k e w (enc_list k e w vs) = Some vs.
Proof.
  intros H. destruct k; unfold enc_list, dec_list, u32s_to_bytes, u64s_to_bytes, vbound in *.
  - apply u16s_roundtrip. exact H.
  - apply u32s_roundtrip. exact H.
  - apply u64s_roundtrip. exact H.
Qed.

(* the bytes of element i do not depend on the elements around it: a list is
   encoded as the encoding of its front followed by the encoding of its back *)
Lemma enc_list_app k e w a b : enc_list k e w (a ++ b) = enc_list k e w a ++ enc_list k e w b.
Proof.
  destruct k; unfold enc_list, u16s_to_bytes, u32s_to_bytes, u64s_to_bytes; apply flat_map_app.
Qed.

Lemma enc_list_length k e w vs : length (enc_list k e w vs) = (2 * vregs k * length vs)%nat.
Proof.
  induction vs as [|v vs IH]; [destruct k; reflexivity|].
  change (v :: vs) with ([v] ++ vs). rewrite enc_list_app, app_length, IH.
  destruct k, e, w; cbn [enc_list u16s_to_bytes u32s_to_bytes u64s_to_bytes flat_map u16_to_bytes
    u32_to_bytes u64_to_bytes app length vregs]; lia.
Qed.

(* value i sits at byte offset i * width, in its own documented layout *)
Lemma enc_list_at k e w a v b : Forall (fun x => x < vbound k) (a ++ v :: b) ->
  slice (enc_list k e w (a ++ v :: b)) (2 * vregs k * length a) (2 * vregs k * S (length a)) =
  Some (spec_list k e w [v]).
Proof.
  intros H.
  assert (Hv : Forall (fun x => x < vbound k) [v]).
  { apply Forall_app in H. destruct H as [_ H]. inversion H; subst. constructor; [assumption|constructor]. }
  rewrite <- (enc_list_layout k e w [v] Hv).
  change (v :: b) with ([v] ++ b). rewrite !enc_list_app.
  pose proof (enc_list_length k e w a) as La.
  pose proof (enc_list_length k e w [v]) as Lv. cbn [length] in Lv.
  pose proof (enc_list_length k e w b) as Lb.
  unfold slice. rewrite !app_length.
  replace (Nat.leb (2 * vregs k * length a) (2 * vregs k * S (length a))) with true
    by (symmetry; apply Nat.leb_le; lia).
  replace (Nat.leb (2 * vregs k * S (length a))
             (length (enc_list k e w a) + (length (enc_list k e w [v]) + length (enc_list k e w b)))) with true
    by (symmetry; apply Nat.leb_le; lia).
  cbn [andb]. f_equal.
  rewrite skipn_app, skipn_all2 by lia.
  replace (2 * vregs k * length a - length (enc_list k e w a))%nat with 0%nat by lia.
  cbn [skipn app].
  replace (2 * vregs k * S (length a) - 2 * vregs k * length a)%nat with (length (enc_list k e w [v])) by lia.
  rewrite firstn_app, firstn_all, Nat.sub_diag, firstn_O, app_nil_r.
  reflexivity.
Qed.
