(* Proofs about Model/Opened.v: the response timeout an opened client enforces
   against a silent peer is the documented one (Spec/OpenedSpec.v), for every
   accepted configuration (property C16, enforced defaults). *)
From Modbus Require Import Base.Bytes Model.Crc Model.Encoding Model.Wire Model.Client
  Model.Config Model.Timing Model.Timed Model.Opened
  Spec.ModbusSpec Spec.ClientSpec Spec.TimedSpec Spec.ConfigSpec Spec.OpenedSpec
  Proofs.ClientRespP Proofs.ConfigP Proofs.TimedP.
From Coq Require Import ZifyBool ZifyNat ZifyN Zquot.
Ltac Zify.zify_post_hook ::= Z.div_mod_to_equations.

(* ------------------------------------------------- the RTU timing constants *)

Lemma char_time_nonneg v : (0 <= v)%Z -> (0 <= char_time v)%Z.
Proof.
  intros Hv. unfold char_time, second_ns.
  destruct (Z.eq_dec v 0) as [->|Hn].
  - rewrite Zquot_0_r. lia.
  - apply Z.quot_pos; lia.
Qed.

Lemma t35_nonneg v : (0 <= v)%Z -> (0 <= t35 v)%Z.
Proof.
  intros Hv. unfold t35. destruct (19200 <=? v)%Z; [lia|].
  pose proof (char_time_nonneg v Hv). apply Z.quot_pos; lia.
Qed.

Lemma fillz_nonneg x d : (0 <= x)%Z -> (0 <= d)%Z -> (0 <= fillz x d)%Z.
Proof. intros Hx Hd. unfold fillz. destruct (x =? 0)%Z; lia. Qed.

Lemma documented_timeout_nonneg s c : (0 <= cc_timeout c)%Z -> (0 <= documented_timeout s c)%Z.
Proof.
  intros H. apply fillz_nonneg; [exact H|]. destruct s; unfold default_timeout, second, ms; lia.
Qed.

(* ------------------------------------------- silence behind the serial wrapper *)

(* whatever the speed: the timeout error, at the end of the poll straddling
   the deadline, or when the transport starts listening if that is later *)
Lemma tm_silence_serial_any : forall k la cfg txn o t0,
  op_wf o -> valid_op o = true -> tm_conf_wf k -> (0 < tm_gran k)%Z ->
  let r := tm_client_call FRtu k la cfg txn o t0 None [] in
  let rs := tm_rtu_read_start k la t0 (tm_req_len cfg o) in
  tmc_res r = Err ETimeout /\
  (Z.max (t0 + tm_timeout k) rs <= tmc_finish r <= Z.max (t0 + tm_timeout k + tm_gran k) rs)%Z.
Proof.
  intros k la cfg txn o t0 Hwf V Hk Hg. cbv zeta.
  assert (Hn : (0 <= tm_req_len cfg o)%Z) by (unfold tm_req_len; lia).
  destruct (tm_client_call_ok FRtu k la cfg txn o t0 None [] _ (tm_request cfg o Hwf V))
    as (-> & -> & _).
  cbn [tm_xchg]. fold (tm_req_len cfg o). unfold rtu_exchange_t.
  rewrite (tm_rtu_now2_eq k la t0 _ Hk Hn).
  unfold tm_read_rtu. cbn [read_full_t].
  destruct (t0 + tm_timeout k <? tm_rtu_read_start k la t0 (tm_req_len cfg o))%Z eqn:E.
  - cbn [after_recv fst snd tm_resync]. split; [reflexivity|]. lia.
  - pose proof (tm_horizon_bounds (tm_gran k) (tm_rtu_read_start k la t0 (tm_req_len cfg o))
                  (t0 + tm_timeout k) ltac:(lia) ltac:(lia)) as [H1 H2].
    cbn [after_recv fst snd tm_resync]. split; [reflexivity|]. lia.
Qed.

(* ------------------------------------------------------------ opened clients *)

(* what Open() builds for the documented effective configuration of scheme s *)
Lemma opened_link_spec s rest c :
  opened_link (spec_client_eff s rest c) =
  if rtu_scheme s then
    (FRtu, mk_tm_conf (documented_timeout s c) (char_time (documented_speed s c))
                      (t35 (documented_speed s c))
                      (match s with SRtu => serial_poll_ns | _ => 0%Z end))
  else (FMbap, mk_tm_conf (documented_timeout s c) 0 0 0).
Proof. destruct s; reflexivity. Qed.

Lemma opened_cfg_spec s rest c : opened_cfg (spec_client_eff s rest c) = new_client_cfg.
Proof. reflexivity. Qed.

Lemma silent_call_spec c s rest la o t0 :
  url_scheme (cc_url c) s rest -> client_creds_ok s c ->
  silent_call c la o t0 =
  CfgOk (tm_client_call (fst (opened_link (spec_client_eff s rest c)))
                        (snd (opened_link (spec_client_eff s rest c)))
                        la new_client_cfg 0 o t0 None []).
Proof.
  intros Hu Hc. unfold silent_call. rewrite (new_client_ok c s rest Hu Hc).
  rewrite opened_cfg_spec. destruct (opened_link _) as [fr k]. reflexivity.
Qed.

(* the enforced timeout is the documented one: for every accepted
   configuration, every valid request and every state of the inter-frame
   timer, a silent peer gets the request-timed-out error, never before
   t0 + documented timeout and never after the ceiling of Spec/OpenedSpec.v *)
Lemma silent_call_documented : forall c s rest la o t0,
  url_scheme (cc_url c) s rest -> client_creds_ok s c ->
  op_wf o -> valid_op o = true -> (0 <= cc_timeout c)%Z ->
  exists r, silent_call c la o t0 = CfgOk r /\
    tmc_res r = Err ETimeout /\
    (t0 + documented_timeout s c <= tmc_finish r <= silent_ceiling s c la t0 o)%Z.
Proof.
  intros c s rest la o t0 Hu Hc Hwf V Ht.
  rewrite (silent_call_spec c s rest la o t0 Hu Hc), opened_link_spec.
  eexists; split; [reflexivity|].
  pose proof (documented_timeout_nonneg s c Ht) as HT.
  assert (Hv : (0 <= documented_speed s c)%Z) by (unfold documented_speed; lia).
  pose proof (char_time_nonneg _ Hv) as H1. pose proof (t35_nonneg _ Hv) as H35.
  unfold silent_ceiling.
  destruct (rtu_scheme s) eqn:Es; cbn [fst snd].
  - set (k := mk_tm_conf _ _ _ _).
    destruct s; try discriminate Es.
    + (* rtu: the serial wrapper *)
      assert (Hk : tm_conf_wf k) by (unfold tm_conf_wf, k, serial_poll_ns; cbn; lia).
      destruct (tm_silence_serial_any k la new_client_cfg 0 o t0 Hwf V Hk
                  ltac:(unfold k, serial_poll_ns; cbn; lia)) as [Hr Hf].
      split; [exact Hr|]. subst k. unfold tm_rtu_read_start, serial_poll_ns in *.
      cbn [tm_timeout tm_t1 tm_t35 tm_gran] in Hf.
      lia.
    + assert (Hk : tm_conf_wf k) by (unfold tm_conf_wf, k; cbn; lia).
      destruct (tm_silence_rtu k la new_client_cfg 0 o t0 Hwf V Hk eq_refl) as [Hr Hf].
      split; [exact Hr|]. rewrite Hf. unfold tm_rtu_read_start, k.
      cbn [tm_timeout tm_t1 tm_t35 tm_gran]. lia.
    + assert (Hk : tm_conf_wf k) by (unfold tm_conf_wf, k; cbn; lia).
      destruct (tm_silence_rtu k la new_client_cfg 0 o t0 Hwf V Hk eq_refl) as [Hr Hf].
      split; [exact Hr|]. rewrite Hf. unfold tm_rtu_read_start, k.
      cbn [tm_timeout tm_t1 tm_t35 tm_gran]. lia.
  - destruct (tm_silence_mbap (mk_tm_conf (documented_timeout s c) 0 0 0) la new_client_cfg 0 o t0
                Hwf V HT) as [Hr Hf].
    split; [exact Hr|]. rewrite Hf. cbn. lia.
Qed.

(* MBAP schemes: exactly at t0 + the documented timeout *)
Lemma silent_call_mbap_exact : forall c s rest la o t0,
  url_scheme (cc_url c) s rest -> client_creds_ok s c -> rtu_scheme s = false ->
  op_wf o -> valid_op o = true -> (0 <= cc_timeout c)%Z ->
  exists r, silent_call c la o t0 = CfgOk r /\
    tmc_res r = Err ETimeout /\ tmc_finish r = (t0 + documented_timeout s c)%Z.
Proof.
  intros c s rest la o t0 Hu Hc Es Hwf V Ht.
  rewrite (silent_call_spec c s rest la o t0 Hu Hc), opened_link_spec, Es.
  eexists; split; [reflexivity|]. cbn [fst snd].
  exact (tm_silence_mbap (mk_tm_conf (documented_timeout s c) 0 0 0) la new_client_cfg 0 o t0
           Hwf V (documented_timeout_nonneg s c Ht)).
Qed.

(* the documented numbers spelled out (nanoseconds) *)
Lemma documented_timeout_values s c :
  (cc_timeout c <> 0%Z -> documented_timeout s c = cc_timeout c) /\
  (cc_timeout c = 0%Z ->
   documented_timeout s c = match s with SRtu => 300000000%Z | _ => 1000000000%Z end).
Proof.
  unfold documented_timeout, fillz. split; intros H.
  - destruct (cc_timeout c =? 0)%Z eqn:E; [lia|reflexivity].
  - rewrite H. destruct s; reflexivity.
Qed.

(* the speed has no part in the enforced timeout: with a fresh inter-frame
   timer, as soon as the request has left the wire by the deadline, the
   network RTU schemes report the timeout exactly at t0 + documented timeout *)
Lemma silent_call_rtu_net_exact : forall c s rest la o t0,
  url_scheme (cc_url c) s rest -> (s = SRtuOverTcp \/ s = SRtuOverUdp) ->
  op_wf o -> valid_op o = true -> (0 <= cc_timeout c)%Z ->
  let v := documented_speed s c in
  (la + t35 v <= t0)%Z ->
  (tm_req_len new_client_cfg o * char_time v + t35 v <= documented_timeout s c)%Z ->
  exists r, silent_call c la o t0 = CfgOk r /\
    tmc_res r = Err ETimeout /\ tmc_finish r = (t0 + documented_timeout s c)%Z.
Proof.
  intros c s rest la o t0 Hu Hs Hwf V Ht v Hla Hfit.
  assert (Hc : client_creds_ok s c) by (intros Hn; destruct Hs as [-> | ->]; discriminate Hn).
  rewrite (silent_call_spec c s rest la o t0 Hu Hc), opened_link_spec.
  eexists; split; [reflexivity|].
  pose proof (documented_timeout_nonneg s c Ht) as HT.
  assert (Hv : (0 <= documented_speed s c)%Z) by (unfold documented_speed; lia).
  pose proof (char_time_nonneg _ Hv) as H1. pose proof (t35_nonneg _ Hv) as H35.
  fold v in H1, H35.
  assert (Es : rtu_scheme s = true) by (destruct Hs as [-> | ->]; reflexivity).
  rewrite Es. cbn [fst snd].
  set (k := mk_tm_conf _ _ _ _).
  assert (Hg : tm_gran k = 0%Z) by (destruct Hs as [-> | ->]; reflexivity).
  assert (Hk : tm_conf_wf k) by (unfold tm_conf_wf; rewrite Hg; unfold k; cbn; fold v; lia).
  destruct (tm_silence_rtu k la new_client_cfg 0 o t0 Hwf V Hk Hg) as [Hr Hf].
  split; [exact Hr|]. rewrite Hf. unfold tm_rtu_read_start, k.
  cbn [tm_timeout tm_t1 tm_t35 tm_gran]. fold v. lia.
Qed.
