(* C13, slot side: a session that ends - for whatever reason: the peer closed,
   reset or stalled until the idle deadline inside a request - is removed,
   its socket closed, the server stays up and the slot serves a later
   connection. Corollary of the C09 theorems (Proofs/SlotsP.v). *)
From Coq Require Import List Arith Bool Permutation Lia.
Import ListNotations.
From Modbus Require Import Model.Slots Proofs.SlotsP.

Lemma end_step s c w : enabled s (End c w) = true ->
  let s1 := step s (End c w) in
  stat s1 c = Ended /\ clients s1 = clients s /\ started s1 = started s /\
  maxc s1 = maxc s /\ (forall d, d <> c -> stat s1 d = stat s d).
Proof.
  intros He. unfold step. rewrite He. cbn [negb stat clients started maxc].
  split; [apply upd_same|]. repeat split. intros d Hd. apply upd_other. exact Hd.
Qed.

Theorem session_end_reclaims : forall s c w d,
  Inv s -> started s = true -> enabled s (End c w) = true ->
  stat s d = Taken -> d <> c ->
  let s1 := step s (End c w) in
  let s2 := step s1 (Remove c) in
  let s3 := step s2 (Enrol d) in
  stat s2 c = Removed /\ closed s2 c = true /\ ~ In c (clients s2) /\
  S (length (clients s2)) = length (clients s) /\ started s2 = true /\
  stat s3 d = Serving /\ In d (clients s3).
Proof.
  intros s c w d I Hst He Ht Hne. cbn zeta.
  destruct (end_step s c w He) as (E1 & E2 & E3 & E4 & E5). cbn zeta in *.
  set (s1 := step s (End c w)) in *.
  assert (I1 : Inv s1) by (apply inv_step; exact I).
  assert (Hin : In c (clients s1)) by (apply (inv_members s1 I1); right; exact E1).
  destruct (remove_effect s1 c E1) as (R1 & R2 & R3 & R4). cbn zeta in *.
  destruct (remove_exact s1 c I1 E1) as (_ & Hcl).
  destruct (remove_swap_nodup c (clients s1) (inv_nodup s1 I1) Hin) as (_ & Hnot).
  split; [apply remove_stat; exact E1|]. split; [exact Hcl|].
  split; [rewrite R1; exact Hnot|].
  split; [rewrite R1, <- E2; apply remove_swap_length; exact Hin|].
  split; [rewrite R2, E3; exact Hst|].
  apply (slot_reclaimed s1 c d I1 E1); [rewrite E3; exact Hst|rewrite E5 by exact Hne; exact Ht|exact Hne|].
  apply (inv_bound s1 I1).
Qed.

(* every reason a cut-off session can end with is an enabled End step of a
   serving connection *)
Lemma cut_end_enabled s c w : stat s c = Serving ->
  w = Disconnect \/ w = ProtocolError \/ w = IdleExpiry -> enabled s (End c w) = true.
Proof.
  intros Hs [ -> | [ -> | -> ] ]; cbn [enabled]; rewrite Hs; reflexivity.
Qed.
